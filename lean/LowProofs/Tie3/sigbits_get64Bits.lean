import Generated.Ssa3.sigbits_get64Bits
import LowModel.Sigbits
import LowProofs.Tie3.Lemmas
/-
  Tie: the definition regenerated from the SSA form of `sigbits.get64Bits` (loop-free; the short branch allocates an
  8-byte buffer with `make` and fills it with `copy`) equals the hand-written model `get64Bits` (a `foldl` over the
  8 byte positions of `s.getD j 0`).
-/
namespace Low
open Low.GoSem Low.GoSem3 Low.TieL Low.Tie2L Low.Tie3L

/-- the straight-line sum of both branches of the Go function, on the 8 byte values -/
def get64Chain (b0 b1 b2 b3 b4 b5 b6 b7 : Nat) : Nat :=
  add64 (add64 (add64 (add64 (add64 (add64 (add64 (shl64 b0 56) (shl64 b1 48)) (shl64 b2 40)) (shl64 b3 32))
    (shl64 b4 24)) (shl64 b5 16)) (shl64 b6 8)) b7

theorem add64_zero_shl64 (x s : Nat) : add64 0 (shl64 x s) = shl64 x s := by
  rw [add64, shl64]
  split
  · simp
  · rfl

theorem shl64_zero_byte {x : Nat} (h : x < 256) : shl64 x 0 = x := by
  rw [shl64, if_pos (by omega), Nat.shiftLeft_zero]
  apply Nat.mod_eq_of_lt
  simp only [M64]; omega

/-- the model, unfolded -/
theorem get64Bits_eq_chain (s : List Nat) (hbytes : ∀ b ∈ s, b < 256) :
    get64Bits s = get64Chain (s.getD 0 0) (s.getD 1 0) (s.getD 2 0) (s.getD 3 0) (s.getD 4 0) (s.getD 5 0)
      (s.getD 6 0) (s.getD 7 0) := by
  rw [get64Bits, show List.range 8 = [0, 1, 2, 3, 4, 5, 6, 7] from rfl]
  simp only [List.foldl_cons, List.foldl_nil, get64Chain]
  rw [add64_zero_shl64]
  rw [show 56 - 8 * 7 = 0 from rfl, shl64_zero_byte (getD_lt hbytes 7)]

/-- the straight-line code of either branch, reading a slice `t` whose first 8 elements are those of `s` (zero padded) -/
theorem get64_straight (t s : List Nat) (hbytes : ∀ b ∈ s, b < 256)
    (ht : ∀ k : Nat, k < 8 → index t (k : Int) = some (s.getD k 0)) :
    (Option.bind (GoSem.index t (0 : Int)) fun (t2 : Nat) =>
    let t3 : Nat := GoSem.toU64 (t2 : Int);
    let t4 : Nat := GoSem.shlU64 t3 (56 : Nat);
    Option.bind (GoSem.index t (1 : Int)) fun (t5 : Nat) =>
    let t6 : Nat := GoSem.toU64 (t5 : Int);
    let t7 : Nat := GoSem.shlU64 t6 (48 : Nat);
    let t8 : Nat := GoSem.addU64 t4 t7;
    Option.bind (GoSem.index t (2 : Int)) fun (t9 : Nat) =>
    let t10 : Nat := GoSem.toU64 (t9 : Int);
    let t11 : Nat := GoSem.shlU64 t10 (40 : Nat);
    let t12 : Nat := GoSem.addU64 t8 t11;
    Option.bind (GoSem.index t (3 : Int)) fun (t13 : Nat) =>
    let t14 : Nat := GoSem.toU64 (t13 : Int);
    let t15 : Nat := GoSem.shlU64 t14 (32 : Nat);
    let t16 : Nat := GoSem.addU64 t12 t15;
    Option.bind (GoSem.index t (4 : Int)) fun (t17 : Nat) =>
    let t18 : Nat := GoSem.toU64 (t17 : Int);
    let t19 : Nat := GoSem.shlU64 t18 (24 : Nat);
    let t20 : Nat := GoSem.addU64 t16 t19;
    Option.bind (GoSem.index t (5 : Int)) fun (t21 : Nat) =>
    let t22 : Nat := GoSem.toU64 (t21 : Int);
    let t23 : Nat := GoSem.shlU64 t22 (16 : Nat);
    let t24 : Nat := GoSem.addU64 t20 t23;
    Option.bind (GoSem.index t (6 : Int)) fun (t25 : Nat) =>
    let t26 : Nat := GoSem.toU64 (t25 : Int);
    let t27 : Nat := GoSem.shlU64 t26 (8 : Nat);
    let t28 : Nat := GoSem.addU64 t24 t27;
    Option.bind (GoSem.index t (7 : Int)) fun (t29 : Nat) =>
    let t30 : Nat := GoSem.toU64 (t29 : Int);
    let t31 : Nat := GoSem.addU64 t28 t30;
    some t31) = some (get64Bits s) := by
  have hu : ∀ k, toU64 ((s.getD k 0 : Nat) : Int) = s.getD k 0 := fun k =>
    toU64_ofNat_lt (by have := getD_lt hbytes k; omega)
  have h0 : index t (0 : Int) = some (s.getD 0 0) := ht 0 (by omega)
  have h1 : index t (1 : Int) = some (s.getD 1 0) := ht 1 (by omega)
  have h2 : index t (2 : Int) = some (s.getD 2 0) := ht 2 (by omega)
  have h3 : index t (3 : Int) = some (s.getD 3 0) := ht 3 (by omega)
  have h4 : index t (4 : Int) = some (s.getD 4 0) := ht 4 (by omega)
  have h5 : index t (5 : Int) = some (s.getD 5 0) := ht 5 (by omega)
  have h6 : index t (6 : Int) = some (s.getD 6 0) := ht 6 (by omega)
  have h7 : index t (7 : Int) = some (s.getD 7 0) := ht 7 (by omega)
  rw [get64Bits_eq_chain s hbytes]
  simp only [h0, h1, h2, h3, h4, h5, h6, h7, Option.bind_some, hu, get64Chain]
  simp only [addU64, shlU64]

/-- the buffer of the short branch: `bs := make([]byte, 8); copy(bs, s)` -/
theorem get64_buf_getD (s : List Nat) (hs : s.length < 8) (k : Nat) (hk : k < 8) :
    index (copyInto (newArray (0 : Nat) 8) s) (k : Int) = some (s.getD k 0) := by
  have hl : (copyInto (newArray (0 : Nat) 8) s).length = 8 := by rw [copyInto_length, newArray_length]
  rw [index_getD _ (by omega)]
  congr 1
  rw [copyInto_short _ _ (by rw [newArray_length]; omega), newArray]
  simp only [List.getD_eq_getElem?_getD, List.drop_replicate]
  by_cases h : k < s.length
  · rw [List.getElem?_append_left h]
  · rw [List.getElem?_append_right (by omega), List.getElem?_eq_none (by omega : s.length ≤ k)]
    rw [List.getElem?_replicate]
    split <;> rfl

/-- Domain: `s` any byte string (`BytesOK`: every element `< 256`).  The Go function cannot panic: the result is `some`. -/
theorem Tie_sigbits_get64Bits (s : List Nat) (hbytes : ∀ b ∈ s, b < 256) :
    Gen.Ssa3.sigbits_get64Bits s = some (get64Bits s) := by
  rw [Gen.Ssa3.sigbits_get64Bits]
  by_cases h : s.length < 8
  · have hd : decide (len s ≥ (8 : Int)) = false := by rw [len_eq]; simp; omega
    simp only [hd, Bool.false_eq_true, ↓reduceIte]
    exact get64_straight _ s hbytes (fun k hk => get64_buf_getD s h k hk)
  · have hd : decide (len s ≥ (8 : Int)) = true := by rw [len_eq]; simp; omega
    simp only [hd, ↓reduceIte]
    exact get64_straight s s hbytes (fun k hk => index_getD s (by omega))

example : Gen.Ssa3.sigbits_get64Bits [1, 2, 3] = some 0x0102030000000000 := by decide
example : get64Bits [1, 2, 3] = 0x0102030000000000 := by decide
example : Gen.Ssa3.sigbits_get64Bits [1, 2, 3, 4, 5, 6, 7, 8, 9] = some 0x0102030405060708 := by decide
example : Gen.Ssa3.sigbits_get64Bits [] = some 0 := by decide

end Low
