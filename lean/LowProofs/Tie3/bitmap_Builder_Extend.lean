import Generated.Ssa3.bitmap_Builder_Extend
import LowModel.Bitmap.Of
import LowProofs.Tie3.Lemmas
/-
  Tie: the definition regenerated from the SSA form of the method `(*bitmap.Builder).Extend` equals the hand-written
  model `Builder.extend`.  The receiver fields `Words`, `Offset` are arguments of the generated definition and the
  final values of both follow as its result.  Two loops in sequence:
  * `bitmap_Builder_Extend_loop5`: `for int(end) > len(b.Words)<<6 { b.Words = append(b.Words, 0) }` (model `growTo`);
    `Builder_Extend_loop5` (induction on the number of missing words): from `ws` it reaches `ws ++ zeros k` and enters
  * `bitmap_Builder_Extend_loop6`: the `range` loop `b.Words[idx>>6] |= 1 << uint(idx&63)` with `idx = b.Offset + i`
    (model `orBits` on the shifted positions), then `b.Offset += size`; `Builder_Extend_loop6` by induction on the
    suffix `ps.drop j`, for an arbitrary buffer.
-/
namespace Low
open Low.GoSem Low.GoSem3 Low.TieL Low.Tie2L Low.Tie3L

/-- the `end` of `Extend` as the model computes it (unbounded integers) -/
def Builder.extendEnd (b : Builder) (ps : List Int) (size : Int) : Int :=
  match ps.getLast? with
  | none => b.offset + size
  | some l => if l ≥ size then b.offset + l + 1 else b.offset + size

/-- `1 << j` on uint64 for `j < 64` -/
theorem Builder_Extend_shlU64_one {j : Nat} (h : j < 64) : shlU64 1 j = 2 ^ j := by
  rw [shlU64, shl64, if_pos h, Nat.one_shiftLeft]
  apply Nat.mod_eq_of_lt
  have : (2 : Nat) ^ j < 2 ^ 64 := Nat.pow_lt_pow_right (by omega) h
  simpa [M64] using this

/-- the `range` loop, about to read position `j` (the `range` index is `j - 1`), with buffer `ws` -/
theorem Builder_Extend_loop6 (fuel : Nat) (bw : List Nat) (bo : Int) (ps : List Int) (size off : Int)
    (hlen : ps.length < 2^63)
    (hps : ∀ p ∈ ps, -2^31 ≤ off + p ∧ off + p < 2^31) (hsz : -2^31 ≤ off + size ∧ off + size < 2^31) :
    ∀ (rest : List Int) (j gas : Nat) (ws : List Nat), rest = ps.drop j → j ≤ ps.length → rest.length + 1 ≤ gas →
      Gen.Ssa3.bitmap_Builder_Extend_loop6 fuel bw bo ps size (ps.length : Int) gas ((j : Int) - 1) ws off
        = (orBits ws (rest.map (off + ·))).map (fun ws' => (ws', off + size))
  | [], j, gas, ws, hr, hj, hg => by
    obtain ⟨g, rfl⟩ : ∃ g, gas = g + 1 := ⟨gas - 1, by omega⟩
    have hjl : ps.length ≤ j := drop_eq_nil_le hr
    have e1 : addI64 ((j : Int) - 1) 1 = (j : Int) := by
      rw [addI64]; exact (wrap64_id (by omega) (by omega)).trans (by omega)
    have hlt : ¬ (j < ps.length) := by omega
    have e2 : addI32 off size = off + size := by rw [addI32]; exact wrap32_id (by omega) (by omega)
    rw [Gen.Ssa3.bitmap_Builder_Extend_loop6]
    simp only [e1, Int.ofNat_lt, hlt, decide_false, Bool.false_eq_true, ↓reduceIte, e2, List.map_nil, orBits,
      Option.map_some]
  | p :: r, j, gas, ws, hr, hj, hg => by
    obtain ⟨g, rfl⟩ : ∃ g, gas = g + 1 := ⟨gas - 1, by omega⟩
    have hjl : j < ps.length := drop_eq_cons_lt hr
    have hp : ps[j]? = some p := getElem?_of_drop_eq_cons hr
    have hpr := hps p (List.mem_of_getElem? hp)
    have e1 : addI64 ((j : Int) - 1) 1 = (j : Int) := by
      rw [addI64]; exact (wrap64_id (by omega) (by omega)).trans (by omega)
    have e2 : addI32 off p = off + p := by rw [addI32]; exact wrap32_id (by omega) (by omega)
    have ih : ∀ ws', Gen.Ssa3.bitmap_Builder_Extend_loop6 fuel bw bo ps size (ps.length : Int) g (j : Int) ws' off
        = (orBits ws' (r.map (off + ·))).map (fun ws'' => (ws'', off + size)) := by
      intro ws'
      have := Builder_Extend_loop6 fuel bw bo ps size off hlen hps hsz r (j + 1) g ws' (drop_succ_of_drop_eq_cons hr)
        (by omega) (by simp only [List.length_cons] at hg; omega)
      rwa [show ((j + 1 : Nat) : Int) - 1 = (j : Int) by omega] at this
    rw [Gen.Ssa3.bitmap_Builder_Extend_loop6]
    simp only [e1, Int.ofNat_lt, hjl, decide_true, ↓reduceIte, index_ofNat, hp, Option.bind_some, e2, shrI32_6,
      andI32_63, List.map_cons, orBits]
    generalize off + p = x
    by_cases hneg : x < 0
    · have h64 : x / 64 < 0 := by omega
      simp only [index_neg _ h64, Option.bind_none, hneg, ↓reduceIte, Option.map_none]
    · obtain ⟨m, rfl⟩ := Int.eq_ofNat_of_zero_le (by omega : 0 ≤ x)
      have e3 : (m : Int) / 64 = ((m / 64 : Nat) : Int) := by omega
      have e4 : (m : Int) % 64 = ((m % 64 : Nat) : Int) := by omega
      have hm : m % 64 < 64 := Nat.mod_lt _ (by omega)
      have e5 : toU64 ((m % 64 : Nat) : Int) = m % 64 := toU64_ofNat_lt (by omega)
      simp only [e3, e4, e5, Builder_Extend_shlU64_one hm, index_ofNat, hneg, ↓reduceIte, Int.toNat_natCast, orBit,
        orU64_eq]
      cases hw : ws[m / 64]? with
      | none => simp only [Option.bind_none, Option.map_none]
      | some w =>
        have hwl : m / 64 < ws.length := (List.getElem?_eq_some_iff.mp hw).1
        simp only [Option.bind_some, setIdx_ofNat ws _ hwl, ih]

/-- the growing loop with `k` words missing, for an `end` value `e` in int32 range (negative: nothing to add) -/
theorem Builder_Extend_loop5 (fuel : Nat) (bw : List Nat) (bo : Int) (ps : List Int) (size e off : Int)
    (he : -2^31 ≤ e ∧ e < 2^31) :
    ∀ (k gas : Nat) (ws : List Nat), k = ((e + 63) / 64).toNat - ws.length → k + 1 ≤ gas → ws.length + k < 2^57 →
      Gen.Ssa3.bitmap_Builder_Extend_loop5 fuel bw bo ps size gas e ws off
        = Gen.Ssa3.bitmap_Builder_Extend_loop6 fuel bw bo ps size (ps.length : Int) fuel (-1) (ws ++ zeros k) off
  | 0, gas, ws, hk, hg, hl => by
    obtain ⟨g, rfl⟩ : ∃ g, gas = g + 1 := ⟨gas - 1, by omega⟩
    have e1 : toI64 e = e := toI64_id (by omega) (by omega)
    have e2 : shlI64 (ws.length : Int) 6 = (ws.length : Int) * 64 := by
      rw [shlI64]; exact wrap64_id (by omega) (by omega)
    have hgt : ¬ (e > (ws.length : Int) * 64) := by omega
    rw [Gen.Ssa3.bitmap_Builder_Extend_loop5]
    simp only [e1, len_eq, e2, hgt, decide_false, Bool.false_eq_true, ↓reduceIte, zeros, List.replicate_zero,
      List.append_nil]
  | k + 1, gas, ws, hk, hg, hl => by
    obtain ⟨g, rfl⟩ : ∃ g, gas = g + 1 := ⟨gas - 1, by omega⟩
    have e1 : toI64 e = e := toI64_id (by omega) (by omega)
    have e2 : shlI64 (ws.length : Int) 6 = (ws.length : Int) * 64 := by
      rw [shlI64]; exact wrap64_id (by omega) (by omega)
    have hgt : e > (ws.length : Int) * 64 := by omega
    have hl' : (ws ++ [0]).length = ws.length + 1 := by
      simp only [List.length_append, List.length_cons, List.length_nil]
    have ih := Builder_Extend_loop5 fuel bw bo ps size e off he k g (ws ++ [0]) (by rw [hl']; omega) (by omega)
      (by rw [hl']; omega)
    have ez : (ws ++ [0]) ++ zeros k = ws ++ zeros (k + 1) := by
      simp only [zeros, List.replicate_succ, List.append_assoc, List.cons_append, List.nil_append]
    rw [Gen.Ssa3.bitmap_Builder_Extend_loop5]
    simp only [e1, len_eq, e2, hgt, decide_true, ↓reduceIte, setIdx_newArray_one, Option.bind_some, ih, ez]

/-- both loops, started with the `end` value `e` -/
theorem Builder_Extend_from_end (fuel : Nat) (bw : List Nat) (bo : Int) (ps : List Int) (size e : Int)
    (hlen : ps.length < 2^63) (hw : bw.length < 2^57)
    (hps : ∀ p ∈ ps, -2^31 ≤ bo + p ∧ bo + p < 2^31) (hsz : -2^31 ≤ bo + size ∧ bo + size < 2^31)
    (he : -2^31 ≤ e ∧ e < 2^31)
    (hf1 : ((e + 63) / 64).toNat - bw.length + 1 ≤ fuel) (hf2 : ps.length + 1 ≤ fuel) :
    Gen.Ssa3.bitmap_Builder_Extend_loop5 fuel bw bo ps size fuel e bw bo
      = (orBits (growTo bw e) (ps.map (bo + ·))).map (fun ws' => (ws', bo + size)) := by
  rw [Builder_Extend_loop5 fuel bw bo ps size e bo he _ fuel bw rfl hf1 (by omega)]
  have := Builder_Extend_loop6 fuel bw bo ps size bo hlen hps hsz ps 0 fuel (growTo bw e) (by simp) (by omega)
    (by omega)
  simpa [growTo] using this

/-- Domain.  All hypotheses say that the int32 / int computations of the Go code do not wrap where the model uses
    unbounded integers:
    * `hlen`, `hw`: `len(bitPositions) < 2^63` (a Go length fits an `int`); `len(b.Words) < 2^57`, so that
      `len(b.Words)<<6` fits an `int` (implied by the package's int32 domain `len < 2^25`);
    * `hsz`: `b.Offset + size` is an int32 (it is the new `b.Offset`, and `end` unless the last position is `≥ size`);
    * `hps`: `idx = b.Offset + i` is an int32 for every position `i`;
    * `hlast`: if the last position `l` is `≥ size` then `b.Offset + l + 1`, the value of `end`, is `< 2^31`.
      Where `b.Offset + l = 2^31 - 1` the two DIFFER in general: the Go `end` wraps to `-2^31`, nothing is appended and
      the store panics (unless `b.Words` already has `2^25` words), whereas the model appends up to `2^25` words.
    No other hypothesis: `size`, the positions and `b.Offset` may be negative, the positions need not be ascending
    (a negative `idx`, or one beyond the words present after the growing loop, panics on both sides; a negative `end`
    appends nothing on both sides).
    Fuel: every `fuel ≥ max (number of words appended) (len bitPositions) + 1` (each of the two loops gets `fuel`
    iterations), the number of appended words being `⌈end / 64⌉ - len(b.Words)` for the model's
    `end = b.extendEnd ps size`. -/
theorem Tie_bitmap_Builder_Extend (b : Builder) (ps : List Int) (size : Int) (fuel : Nat)
    (hlen : ps.length < 2^63) (hw : b.words.length < 2^57)
    (hsz : -2^31 ≤ b.offset + size ∧ b.offset + size < 2^31)
    (hps : ∀ p ∈ ps, -2^31 ≤ b.offset + p ∧ b.offset + p < 2^31)
    (hlast : ∀ l, ps.getLast? = some l → size ≤ l → b.offset + l < 2^31 - 1)
    (hfuel1 : ((b.extendEnd ps size + 63) / 64).toNat - b.words.length + 1 ≤ fuel)
    (hfuel2 : ps.length + 1 ≤ fuel) :
    Gen.Ssa3.bitmap_Builder_Extend fuel b.words b.offset ps size
      = (Builder.extend b ps size).map (fun b' => (b'.words, b'.offset)) := by
  have hmodel : (Builder.extend b ps size).map (fun b' => (b'.words, b'.offset))
      = (orBits (growTo b.words (b.extendEnd ps size)) (ps.map (b.offset + ·))).map
          (fun ws' => (ws', b.offset + size)) := by
    simp only [Builder.extend, Builder.extendEnd]
    cases orBits _ (ps.map (b.offset + ·)) with
    | none => rfl
    | some ws' => rfl
  rw [hmodel]
  have e0 : addI32 b.offset size = b.offset + size := by rw [addI32]; exact wrap32_id (by omega) (by omega)
  simp only [Gen.Ssa3.bitmap_Builder_Extend, e0]
  cases hl : ps.getLast? with
  | none =>
    have hnil : ps = [] := List.getLast?_eq_none_iff.mp hl
    subst hnil
    have hE : b.extendEnd [] size = b.offset + size := by simp only [Builder.extendEnd, List.getLast?_nil]
    rw [hE] at hfuel1 ⊢
    simp only [len_eq, List.length_nil, Int.natCast_zero, Int.lt_irrefl, gt_iff_lt, decide_false, Bool.false_eq_true,
      ↓reduceIte]
    exact Builder_Extend_from_end fuel b.words b.offset [] size _ hlen hw hps hsz hsz hfuel1 hfuel2
  | some l =>
    have hne : ps ≠ [] := by intro h; rw [h] at hl; cases hl
    have hpos : 0 < ps.length := List.length_pos_iff.mpr hne
    have hposI : (ps.length : Int) > 0 := by omega
    have e1 : subI64 (ps.length : Int) 1 = ((ps.length - 1 : Nat) : Int) :=
      subI64_ofNat (a := ps.length) (b := 1) (by omega) (by omega)
    have hidx : ps[ps.length - 1]? = some l := by rw [← List.getLast?_eq_getElem?]; exact hl
    have hlr := hps l (List.mem_of_getElem? hidx)
    simp only [len_eq, hposI, decide_true, ↓reduceIte, e1, index_ofNat, hidx, Option.bind_some]
    by_cases hge : l ≥ size
    · have hl1 := hlast l hl hge
      have e2a : addI32 b.offset l = b.offset + l := by rw [addI32]; exact wrap32_id (by omega) (by omega)
      have e2 : addI32 (addI32 b.offset l) 1 = b.offset + l + 1 := by
        rw [e2a, addI32]; exact wrap32_id (by omega) (by omega)
      have hE : b.extendEnd ps size = b.offset + l + 1 := by simp only [Builder.extendEnd, hl, hge, ↓reduceIte]
      rw [hE] at hfuel1 ⊢
      simp only [hge, decide_true, ↓reduceIte, e2]
      exact Builder_Extend_from_end fuel b.words b.offset ps size _ hlen hw hps hsz ⟨by omega, by omega⟩ hfuel1
        hfuel2
    · have hE : b.extendEnd ps size = b.offset + size := by simp only [Builder.extendEnd, hl, hge, ↓reduceIte]
      rw [hE] at hfuel1 ⊢
      simp only [hge, decide_false, Bool.false_eq_true, ↓reduceIte]
      exact Builder_Extend_from_end fuel b.words b.offset ps size _ hlen hw hps hsz hsz hfuel1 hfuel2

example : Gen.Ssa3.bitmap_Builder_Extend 4 [1] 3 [0, 2, 70] 10 = some ([41, 512], 13) := by decide
example : Builder.extend ⟨[1], 3⟩ [0, 2, 70] 10 = some ⟨[41, 512], 13⟩ := by decide
example : Gen.Ssa3.bitmap_Builder_Extend 4 [] 0 [] 129 = some ([0, 0, 0], 129) := by decide
-- a negative index, an index beyond the words present (positions not ascending): panic
example : Gen.Ssa3.bitmap_Builder_Extend 4 [1] 3 [-4, 2] 10 = none := by decide
example : Gen.Ssa3.bitmap_Builder_Extend 4 [1] 3 [70, 2] 10 = none := by decide
example : Builder.extend ⟨[1], 3⟩ [70, 2] 10 = none := by decide
-- out of fuel: in the growing loop (3 words to append), in the range loop (3 positions)
example : Gen.Ssa3.bitmap_Builder_Extend 3 [] 0 [] 130 = none := by decide
example : Gen.Ssa3.bitmap_Builder_Extend 3 [1] 3 [0, 2, 70] 10 = none := by decide

end Low
