import Generated.Ssa3.bitmap_IndexSelect32
import LowModel.Bitmap.Select
import LowProofs.Tie3.bitmap_IndexSelect32_L
/-
  Tie: the definition regenerated from the SSA form of `bitmap.IndexSelect32` (a loop over all bit positions that
  appends to a slice made with `make([]int32, 0, len(words))`) equals the hand-written model `indexSelect32`.
  The generated loop `bitmap_IndexSelect32_loop3` carries the slice contents `sidx`, `ith` (starting at -1 and
  incremented BEFORE the test `ith&31 == 0`) and the position `i` (a Go `int`); the model `selIdxGo` recurses over the
  list of remaining positions with `cnt = ith + 1` (tested before the increment) and conses.  `IndexSelect32_loop`
  relates the two for the positions `List.range' i k`, with the slice built so far as a generic prefix `acc`.
-/
namespace Low
open Low.GoSem Low.GoSem3 Low.TieL Low.Tie2L Low.Tie3L Low.SelIdxL

theorem IndexSelect32_loop (fuel : Nat) (ws : List Nat) (hlen : ws.length < 2^25) :
    ∀ (k i gas cnt : Nat) (acc : List Int), i + k = ws.length * 64 → k + 1 ≤ gas → cnt ≤ i →
      Gen.Ssa3.bitmap_IndexSelect32_loop3 fuel ws ((ws.length * 64 : Nat) : Int) gas acc ((cnt : Int) - 1) (i : Int)
        = some (acc ++ (selIdxGo ws (List.range' i k) cnt).map Int.ofNat)
  | 0, i, gas, cnt, acc, hik, hg, hc => by
    obtain ⟨g, rfl⟩ : ∃ g, gas = g + 1 := ⟨gas - 1, by omega⟩
    have hi : i = ws.length * 64 := by omega
    subst hi
    rw [Gen.Ssa3.bitmap_IndexSelect32_loop3]
    simp only [Int.lt_irrefl, decide_false, Bool.false_eq_true, ↓reduceIte, List.range'_zero, selIdxGo,
      List.map_nil, List.append_nil, List.nil_append]
  | k + 1, i, gas, cnt, acc, hik, hg, hc => by
    obtain ⟨g, rfl⟩ : ∃ g, gas = g + 1 := ⟨gas - 1, by omega⟩
    have hil : i < ws.length * 64 := by omega
    -- the arithmetic side conditions of the induction hypothesis, proved while the context is small (`omega` called
    -- after the unfolding below makes the kernel report "deep recursion")
    have hik' : i + 1 + k = ws.length * 64 := by omega
    have hg' : k + 1 ≤ g := by omega
    have hc' : cnt ≤ i + 1 := by omega
    have hc'' : cnt + 1 ≤ i + 1 := by omega
    have hlt : ((i : Int) < ((ws.length * 64 : Nat) : Int)) := Int.ofNat_lt.2 hil
    have hj : i % 64 < 64 := Nat.mod_lt _ (by omega)
    have hw := getElem?_word ws hil
    have e1 : addI64 (i : Int) 1 = ((i + 1 : Nat) : Int) := addI64_one_ofNat (by omega)
    have e2 : andI64 (i : Int) 63 = ((i % 64 : Nat) : Int) := andI64_63_ofNat (by omega)
    have e3 : addI64 ((cnt : Int) - 1) 1 = (cnt : Int) := addI64_pred_one (by omega)
    have e4 : andI64 (cnt : Int) 31 = ((cnt % 32 : Nat) : Int) := andI64_31_ofNat (by omega)
    have e5 : toI32 (i : Int) = (i : Int) := toI32_ofNat_lt (by omega)
    have hb : decide (andU64 (ws.getD (i / 64) 0) (shlU64 1 (i % 64)) ≠ 0) = bitAt ws i := by
      rw [decide_and_shl64_ne_zero _ hj, bitAt]
    rw [Gen.Ssa3.bitmap_IndexSelect32_loop3, List.range'_succ, selIdxGo]
    simp only [hlt, decide_true, ↓reduceIte, shrI64_6_ofNat, index_ofNat, hw, Option.bind_some, e1, e2, toU64_mod64, hb]
    cases hbit : bitAt ws i with
    | false =>
      have ih := IndexSelect32_loop fuel ws hlen k (i + 1) g cnt acc hik' hg' hc'
      simp only [Bool.false_eq_true, ↓reduceIte, ih]
    | true =>
      have ih0 := IndexSelect32_loop fuel ws hlen k (i + 1) g (cnt + 1)
      have ec : ((cnt + 1 : Nat) : Int) - 1 = (cnt : Int) := by omega
      rw [ec] at ih0
      simp only [↓reduceIte, e3, e4, Int.natCast_eq_zero]
      by_cases hc32 : cnt % 32 = 0
      · have ih := ih0 (acc ++ [(i : Int)]) hik' hg' hc''
        simp only [hc32, decide_true, ↓reduceIte, e5, setIdx_newArray_one, Option.bind_some, ih, List.map_cons,
          List.append_assoc, List.singleton_append, Int.ofNat_eq_natCast]
      · have ih := ih0 acc hik' hg' hc''
        simp only [hc32, decide_false, Bool.false_eq_true, ↓reduceIte, ih]

/-- Domain: `words` with fewer than `2^25` words (`BmDom`; every position then fits an `int32`); no hypothesis on the
    words.  Fuel: every `fuel ≥ 64 * len(words) + 1` (one loop iteration per bit position).  The Go function cannot
    panic on this domain: the result is `some`. -/
theorem Tie_bitmap_IndexSelect32 (ws : List Nat) (fuel : Nat) (hlen : ws.length < 2^25)
    (hfuel : 64 * ws.length + 1 ≤ fuel) :
    Gen.Ssa3.bitmap_IndexSelect32 fuel ws = some ((indexSelect32 ws).map Int.ofNat) := by
  have e : shlI64 (ws.length : Int) 6 = ((ws.length * 64 : Nat) : Int) := shlI64_6_ofNat (by omega)
  have h := IndexSelect32_loop fuel ws hlen (ws.length * 64) 0 fuel 0 [] (by omega) (by omega) (by omega)
  rw [Gen.Ssa3.bitmap_IndexSelect32]
  simp only [len_eq, e, makeSliceCap_zero, Option.bind_some]
  rw [indexSelect32, List.range_eq_range', ← List.nil_append (List.map _ _), ← h]
  rfl

example : Gen.Ssa3.bitmap_IndexSelect32 65 [0xffffffffffffffff] = some [0, 32] := by decide
example : indexSelect32 [0xffffffffffffffff] = [0, 32] := by decide
set_option maxRecDepth 4000 in
example : Gen.Ssa3.bitmap_IndexSelect32 129 [0xffffffff, 5] = some [0, 64] := by decide
-- out of fuel
example : Gen.Ssa3.bitmap_IndexSelect32 64 [0xffffffffffffffff] = none := by decide

end Low
