import Generated.Ssa3.bitmap_IndexSelect32R64
import LowModel.Bitmap.Select
import LowProofs.Tie3.bitmap_IndexSelect32_L
import LowProofs.Tie3.bitmap_IndexRank64
/-
  Tie: the definition regenerated from the SSA form of `bitmap.IndexSelect32R64` equals the hand-written model
  `indexSelect32R64`.  The Go function repeats the loop of `IndexSelect32` (its own generated loop definition
  `bitmap_IndexSelect32R64_loop3`: same body, but the exit branch goes on with the clone of `sidx` and the call
  `IndexRank64(words, true)`), so `IndexSelect32R64_loop` repeats the argument of `IndexSelect32_loop`
  (`LowProofs/Tie3/bitmap_IndexSelect32.lean`) and closes the exit branch with the finished tie
  `Tie_bitmap_IndexRank64`.
-/
namespace Low
open Low.GoSem Low.GoSem3 Low.TieL Low.Tie2L Low.Tie3L Low.SelIdxL

theorem IndexSelect32R64_loop (fuel : Nat) (ws : List Nat) (hlen : ws.length < 2^25) (hfuel : ws.length + 1 ≤ fuel) :
    ∀ (k i gas cnt : Nat) (acc : List Int), i + k = ws.length * 64 → k + 1 ≤ gas → cnt ≤ i →
      Gen.Ssa3.bitmap_IndexSelect32R64_loop3 fuel ws ((ws.length * 64 : Nat) : Int) gas acc ((cnt : Int) - 1) (i : Int)
        = some (acc ++ (selIdxGo ws (List.range' i k) cnt).map Int.ofNat, (indexRank64 ws true).map Int.ofNat)
  | 0, i, gas, cnt, acc, hik, hg, hc => by
    obtain ⟨g, rfl⟩ : ∃ g, gas = g + 1 := ⟨gas - 1, by omega⟩
    have hi : i = ws.length * 64 := by omega
    subst hi
    have hr := Tie_bitmap_IndexRank64 ws [true] fuel hlen hfuel
    rw [Gen.Ssa3.bitmap_IndexSelect32R64_loop3]
    simp only [Int.lt_irrefl, decide_false, Bool.false_eq_true, ↓reduceIte]
    -- `rw`, not `simp only`: with `Option.bind_some` applied by `simp` as a `rfl`-step the kernel compares
    -- `some [true]` with `bitmap_IndexRank64 fuel ws [true]` by unfolding the latter ("deep recursion")
    rw [setIdx_newArray_one, Option.bind_some, hr, Option.bind_some, List.range'_zero, selIdxGo]
    simp only [List.map_nil, List.append_nil, List.nil_append, List.headD_cons]
  | k + 1, i, gas, cnt, acc, hik, hg, hc => by
    obtain ⟨g, rfl⟩ : ∃ g, gas = g + 1 := ⟨gas - 1, by omega⟩
    have hil : i < ws.length * 64 := by omega
    -- the arithmetic side conditions of the induction hypothesis, proved while the context is small
    have hik' : i + 1 + k = ws.length * 64 := by omega
    have hg' : k + 1 ≤ g := by omega
    have hc' : cnt ≤ i + 1 := by omega
    have hc'' : cnt + 1 ≤ i + 1 := by omega
    have hlt : ((i : Int) < ((ws.length * 64 : Nat) : Int)) := Int.ofNat_lt.2 hil
    have hj : i % 64 < 64 := Nat.mod_lt _ (by omega)
    have hw := getElem?_word ws hil
    have e1 : addI64 (i : Int) 1 = ((i + 1 : Nat) : Int) := addI64_one_ofNat (by omega)
    have e2 : andI64 (i : Int) 63 = ((i % 64 : Nat) : Int) := andI64_63_ofNat (by omega)
    have e3 : addI64 ((cnt : Int) - 1) 1 = (cnt : Int) := addI64_pred_one (by omega)
    have e4 : andI64 (cnt : Int) 31 = ((cnt % 32 : Nat) : Int) := andI64_31_ofNat (by omega)
    have e5 : toI32 (i : Int) = (i : Int) := toI32_ofNat_lt (by omega)
    have hb : decide (andU64 (ws.getD (i / 64) 0) (shlU64 1 (i % 64)) ≠ 0) = bitAt ws i := by
      rw [decide_and_shl64_ne_zero _ hj, bitAt]
    rw [Gen.Ssa3.bitmap_IndexSelect32R64_loop3, List.range'_succ, selIdxGo]
    simp only [hlt, decide_true, ↓reduceIte, shrI64_6_ofNat, index_ofNat, hw, Option.bind_some, e1, e2, toU64_mod64, hb]
    cases hbit : bitAt ws i with
    | false =>
      have ih := IndexSelect32R64_loop fuel ws hlen hfuel k (i + 1) g cnt acc hik' hg' hc'
      simp only [Bool.false_eq_true, ↓reduceIte, ih]
    | true =>
      have ih0 := IndexSelect32R64_loop fuel ws hlen hfuel k (i + 1) g (cnt + 1)
      have ec : ((cnt + 1 : Nat) : Int) - 1 = (cnt : Int) := by omega
      rw [ec] at ih0
      simp only [↓reduceIte, e3, e4, Int.natCast_eq_zero]
      by_cases hc32 : cnt % 32 = 0
      · have ih := ih0 (acc ++ [(i : Int)]) hik' hg' hc''
        simp only [hc32, decide_true, ↓reduceIte, e5, setIdx_newArray_one, Option.bind_some, ih, List.map_cons,
          List.append_assoc, List.singleton_append, Int.ofNat_eq_natCast]
      · have ih := ih0 acc hik' hg' hc''
        simp only [hc32, decide_false, Bool.false_eq_true, ↓reduceIte, ih]

/-- Domain: `words` with fewer than `2^25` words (`BmDom`; every position and the running count then fit an `int32`);
    no hypothesis on the words.  Fuel: every `fuel ≥ 64 * len(words) + 1` (one iteration per bit position of the
    select loop; the called `IndexRank64` needs only `len(words) + 1`).  The Go function cannot panic on this domain:
    the result is `some`. -/
theorem Tie_bitmap_IndexSelect32R64 (ws : List Nat) (fuel : Nat) (hlen : ws.length < 2^25)
    (hfuel : 64 * ws.length + 1 ≤ fuel) :
    Gen.Ssa3.bitmap_IndexSelect32R64 fuel ws
      = some (((indexSelect32R64 ws).1.map Int.ofNat), ((indexSelect32R64 ws).2.map Int.ofNat)) := by
  have e : shlI64 (ws.length : Int) 6 = ((ws.length * 64 : Nat) : Int) := shlI64_6_ofNat (by omega)
  have h := IndexSelect32R64_loop fuel ws hlen (by omega) (ws.length * 64) 0 fuel 0 [] (by omega) (by omega) (by omega)
  rw [Gen.Ssa3.bitmap_IndexSelect32R64]
  simp only [len_eq, e, makeSliceCap_zero, Option.bind_some]
  rw [indexSelect32R64, indexSelect32, List.range_eq_range', ← List.nil_append (List.map _ (selIdxGo _ _ _)), ← h]
  rfl

example : Gen.Ssa3.bitmap_IndexSelect32R64 65 [0xffffffffffffffff] = some ([0, 32], [0, 64]) := by decide
example : indexSelect32R64 [0xffffffffffffffff] = ([0, 32], [0, 64]) := by decide
set_option maxRecDepth 4000 in
example : Gen.Ssa3.bitmap_IndexSelect32R64 129 [0xffffffff, 5] = some ([0, 64], [0, 32, 34]) := by decide
-- out of fuel
example : Gen.Ssa3.bitmap_IndexSelect32R64 64 [0xffffffffffffffff] = none := by decide

end Low
