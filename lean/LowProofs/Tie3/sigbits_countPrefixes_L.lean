import Generated.Ssa3.sigbits_countPrefixes
import LowModel.Sigbits
import LowProofs.Tie3.Lemmas
/-
  Helper lemmas for the tie of `sigbits.countPrefixes` (`LowProofs/Tie3/sigbits_countPrefixes.lean`):
  general list facts (the `min` fold, the table of counts `countsOf` and how one more element changes it, the sum of
  the counts), then one lemma per generated loop.  The three loops run in sequence; in the generated code every later
  loop is called from the exit branch of the earlier one, so the loop lemmas are proved from the last loop backwards
  and each states the result of "this loop and everything after it".
-/
namespace Low.CountPrefixesL
open Low Low.GoSem Low.GoSem3 Low.TieL Low.Tie2L Low.Tie3L

/-! ### the `min` fold -/

theorem foldl_min_le_init : ∀ (l : List Nat) (a : Nat), l.foldl (fun mn d => if mn > d then d else mn) a ≤ a
  | [], a => by simp
  | d :: l, a => by
    rw [List.foldl_cons]
    have := foldl_min_le_init l (if a > d then d else a)
    by_cases h : a > d
    · rw [if_pos h] at this ⊢; omega
    · rw [if_neg h] at this ⊢; omega

theorem foldl_min_le_mem : ∀ (l : List Nat) (a : Nat), ∀ d ∈ l, l.foldl (fun mn d => if mn > d then d else mn) a ≤ d
  | [], _, d, h => by simp at h
  | x :: l, a, d, h => by
    rw [List.foldl_cons]
    rcases List.mem_cons.mp h with h | h
    · subst h
      have := foldl_min_le_init l (if a > d then d else a)
      by_cases h : a > d
      · rw [if_pos h] at this ⊢; omega
      · rw [if_neg h] at this ⊢; omega
    · exact foldl_min_le_mem l _ d h

/-! ### the table of counts -/

/-- `counts[j]` = number of `d` in `l` with `d - mn = j`, for `j < n` (the model's `counts`) -/
def countsOf (mn n : Nat) (l : List Nat) : List Nat :=
  (List.range n).map fun j => (l.filter fun d => d - mn = j).length

theorem countsOf_length (mn n : Nat) (l : List Nat) : (countsOf mn n l).length = n := by simp [countsOf]

theorem countsOf_nil (mn n : Nat) : countsOf mn n [] = List.replicate n 0 := by
  simp [countsOf, List.map_const']

theorem countsOf_getElem? (mn n : Nat) (l : List Nat) {j : Nat} (h : j < n) :
    (countsOf mn n l)[j]? = some ((l.filter fun d => d - mn = j).length) := by
  simp [countsOf, List.getElem?_map, List.getElem?_range h]

theorem countsOf_snoc_ge (mn n : Nat) (l : List Nat) (d : Nat) (h : n ≤ d - mn) :
    countsOf mn n (l ++ [d]) = countsOf mn n l := by
  unfold countsOf
  apply List.map_congr_left
  intro j hj
  have hj : j < n := List.mem_range.mp hj
  have : ¬ (d - mn = j) := by omega
  simp [List.filter_append, this]

theorem countsOf_snoc_lt (mn n : Nat) (l : List Nat) (d : Nat) (h : d - mn < n) :
    countsOf mn n (l ++ [d])
      = (countsOf mn n l).set (d - mn) ((l.filter fun x => x - mn = d - mn).length + 1) := by
  apply List.ext_getElem?
  intro j
  by_cases hj : j < n
  · rw [countsOf_getElem? _ _ _ hj, List.getElem?_set, countsOf_getElem? _ _ _ hj]
    by_cases e : d - mn = j
    · subst e
      simp [List.filter_append, countsOf_length, h]
    · simp [List.filter_append, e]
  · rw [List.getElem?_eq_none (by rw [countsOf_length]; omega),
      List.getElem?_eq_none (by rw [List.length_set, countsOf_length]; omega)]

theorem filter_lt_succ (g : Nat → Nat) : ∀ (l : List Nat) (n : Nat),
    (l.filter fun d => g d < n + 1).length = (l.filter fun d => g d < n).length + (l.filter fun d => g d = n).length
  | [], _ => by simp
  | x :: l, n => by
    have ih := filter_lt_succ g l n
    simp only [List.filter_cons]
    have : (g x < n ∧ g x < n + 1 ∧ ¬ g x = n) ∨ (¬ g x < n ∧ g x < n + 1 ∧ g x = n)
        ∨ (¬ g x < n ∧ ¬ g x < n + 1 ∧ ¬ g x = n) := by omega
    rcases this with ⟨h1, h2, h3⟩ | ⟨h1, h2, h3⟩ | ⟨h1, h2, h3⟩ <;> simp [h1, h2, h3] <;> omega

theorem countsOf_sum (mn : Nat) (l : List Nat) : ∀ n, (countsOf mn n l).sum = (l.filter fun d => d - mn < n).length
  | 0 => by
    have : l.filter (fun d => decide (d - mn < 0)) = [] := by simp
    rw [this]; simp [countsOf]
  | n + 1 => by
    have ih := countsOf_sum mn l n
    have hs := filter_lt_succ (fun d => d - mn) l n
    unfold countsOf at ih ⊢
    rw [List.range_succ, List.map_append, List.sum_append_nat, ih, hs]
    simp

theorem countsOf_sum_le (mn n : Nat) (l : List Nat) : (countsOf mn n l).sum ≤ l.length := by
  rw [countsOf_sum]; exact List.length_filter_le _ _

/-! ### loop 11 (the last one): `rst[i+1] = rst[i] + counts[i]` -/

/-- writing position `pre.length + 1` of the buffer whose first `pre.length + 1` elements are final -/
theorem buf_step (pre : List Nat) (last v k : Nat) :
    setIdx ((pre ++ [last]).map Int.ofNat ++ List.replicate (k + 1) (0 : Int)) ((pre.length + 1 : Nat) : Int) (v : Int)
      = some (((pre ++ [last]) ++ [v]).map Int.ofNat ++ List.replicate k 0) := by
  rw [setIdx_ofNat _ _ (by simp)]
  have := set_append_replicate ((pre ++ [last]).map Int.ofNat) (0 : Int) (v : Int) k
  simp only [List.length_map, List.length_append, List.length_cons, List.length_nil, Nat.zero_add] at this
  rw [this]
  simp

theorem buf_get (pre : List Nat) (last k : Nat) :
    ((pre ++ [last]).map Int.ofNat ++ List.replicate k (0 : Int))[pre.length]? = some (last : Int) := by
  simp

/-- `C` = the counts, `pre ++ [last]` = the prefix sums computed so far (`rst[0..i]`, `i = pre.length`), the rest of
    `rst` is still zero.  The sums must fit an `int32`. -/
theorem loop11 (fuel : Nat) (F : List Int) (maxitem t1 : Int) (C : List Nat)
    (hM : subI32 maxitem 1 = (C.length : Int)) (hC : C.length < 2^31) :
    ∀ (rest : List Nat) (gas : Nat) (pre : List Nat) (last : Nat), rest = C.drop pre.length →
      rest.length + 1 ≤ gas → last + rest.sum < 2^31 →
      Gen.Ssa3.sigbits_countPrefixes_loop11 fuel F maxitem t1 gas (pre.length : Int) (C.map Int.ofNat)
        ((pre ++ [last]).map Int.ofNat ++ List.replicate rest.length 0)
        = some (t1, (rest.foldl (fun (acc : List Nat × Nat) c => (acc.1 ++ [acc.2 + c], acc.2 + c))
            (pre ++ [last], last)).1.map Int.ofNat)
  | [], gas, pre, last, hr, hg, hs => by
    obtain ⟨g, rfl⟩ : ∃ g, gas = g + 1 := ⟨gas - 1, by omega⟩
    have hil : ¬ (pre.length < C.length) := by have := drop_eq_nil_le hr; omega
    rw [Gen.Ssa3.sigbits_countPrefixes_loop11]
    simp only [hM, Int.ofNat_lt, hil, decide_false, Bool.false_eq_true, ↓reduceIte, List.length_nil,
      List.replicate_zero, List.append_nil, List.foldl_nil]
  | c :: r, gas, pre, last, hr, hg, hs => by
    obtain ⟨g, rfl⟩ : ∃ g, gas = g + 1 := ⟨gas - 1, by omega⟩
    have hil : pre.length < C.length := drop_eq_cons_lt hr
    have hc : (C.map Int.ofNat)[pre.length]? = some (c : Int) := by
      rw [List.getElem?_map, getElem?_of_drop_eq_cons hr]; rfl
    simp only [List.sum_cons] at hs
    have ih := loop11 fuel F maxitem t1 C hM hC r g (pre ++ [last]) (last + c)
      (by simpa using drop_succ_of_drop_eq_cons hr) (by simp only [List.length_cons] at hg; omega) (by omega)
    have e1 : addI32 (pre.length : Int) 1 = ((pre.length + 1 : Nat) : Int) := addI32_ofNat (b := 1) (by omega)
    have e2 : addI32 (last : Int) (c : Int) = ((last + c : Nat) : Int) := addI32_ofNat (by omega)
    have e3 : ((pre ++ [last]).length : Int) = ((pre.length + 1 : Nat) : Int) := by simp
    rw [e3] at ih
    rw [Gen.Ssa3.sigbits_countPrefixes_loop11]
    simp only [hM, Int.ofNat_lt, hil, decide_true, ↓reduceIte, index_ofNat, buf_get, hc, Option.bind_some, e1, e2,
      List.length_cons, buf_step, ih, List.foldl_cons]

/-! ### loop 5 (the middle one): `d -= min; if d < maxitem-1 { counts[d]++ }` -/

theorem take_succ_of_getElem? {α : Type} {xs : List α} {k : Nat} {d : α} (h : xs[k]? = some d) :
    xs.take (k + 1) = xs.take k ++ [d] := by
  rw [List.take_add_one, h]; rfl

/-- `n = maxitem - 1` (the length of `counts`), `mn` = the minimum found by the first loop; after `k` elements the
    buffer holds the counts of `fds.take k`.  The result is what the rest of the function (allocation of `rst`,
    `rst[0] = 1`, loop 11) computes from the counts of all of `fds`. -/
theorem loop5 (fuel : Nat) (fds : List Nat) (maxitem : Int) (mn n : Nat)
    (hM : subI32 maxitem 1 = (n : Int)) (hmn : ∀ d ∈ fds, mn ≤ d) (hfd : ∀ d ∈ fds, d < 2^31)
    (hn : fds.length < 2^31) :
    ∀ (rest : List Nat) (k gas : Nat), rest = fds.drop k → k ≤ fds.length → rest.length + 1 ≤ gas →
      Gen.Ssa3.sigbits_countPrefixes_loop5 fuel (fds.map Int.ofNat) maxitem (mn : Int) (fds.length : Int) gas
          ((k : Int) - 1) ((countsOf mn n (fds.take k)).map Int.ofNat)
        = (makeSlice (0 : Int) maxitem).bind fun t19 => (setIdx t19 (0 : Int) (1 : Int)).bind fun t19_2 =>
            Gen.Ssa3.sigbits_countPrefixes_loop11 fuel (fds.map Int.ofNat) maxitem (mn : Int) fuel 0
              ((countsOf mn n fds).map Int.ofNat) t19_2
  | [], k, gas, hr, hk, hg => by
    obtain ⟨g, rfl⟩ : ∃ g, gas = g + 1 := ⟨gas - 1, by omega⟩
    have hkl : k = fds.length := by have := drop_eq_nil_le hr; omega
    subst hkl
    have e1 : addI64 ((fds.length : Int) - 1) 1 = (fds.length : Int) := by
      rw [addI64]; exact (wrap64_id (by omega) (by omega)).trans (by omega)
    rw [Gen.Ssa3.sigbits_countPrefixes_loop5]
    simp only [e1, Int.lt_irrefl, decide_false, Bool.false_eq_true, ↓reduceIte, List.take_length]
  | d :: r, k, gas, hr, hk, hg => by
    obtain ⟨g, rfl⟩ : ∃ g, gas = g + 1 := ⟨gas - 1, by omega⟩
    have hkl : k < fds.length := drop_eq_cons_lt hr
    have hd : fds[k]? = some d := getElem?_of_drop_eq_cons hr
    have hdm : d ∈ fds := List.mem_of_getElem? hd
    have hdI : (fds.map Int.ofNat)[k]? = some (d : Int) := by rw [List.getElem?_map, hd]; rfl
    have e1 : addI64 ((k : Int) - 1) 1 = (k : Int) := by
      rw [addI64]; exact (wrap64_id (by omega) (by omega)).trans (by omega)
    have e2 : subI32 (d : Int) (mn : Int) = ((d - mn : Nat) : Int) := subI32_ofNat (hmn d hdm) (hfd d hdm)
    have e4 : (((k + 1 : Nat) : Int) - 1) = (k : Int) := by omega
    have ih := loop5 fuel fds maxitem mn n hM hmn hfd hn r (k + 1) g (drop_succ_of_drop_eq_cons hr) (by omega)
      (by simp only [List.length_cons] at hg; omega)
    rw [e4, take_succ_of_getElem? hd] at ih
    rw [Gen.Ssa3.sigbits_countPrefixes_loop5]
    simp only [e1, Int.ofNat_lt, hkl, decide_true, ↓reduceIte, index_ofNat, hdI, Option.bind_some, e2, hM]
    by_cases hlt : d - mn < n
    · have hc : ((countsOf mn n (fds.take k)).map Int.ofNat)[d - mn]?
          = some ((((fds.take k).filter fun x => x - mn = d - mn).length : Nat) : Int) := by
        rw [List.getElem?_map, countsOf_getElem? _ _ _ hlt]; rfl
      have hcl : ((fds.take k).filter fun x => decide (x - mn = d - mn)).length ≤ k :=
        Nat.le_trans (List.length_filter_le _ _) (by simp; omega)
      have e3 : addI32 ((((fds.take k).filter fun x => decide (x - mn = d - mn)).length : Nat) : Int) 1
          = ((((fds.take k).filter fun x => decide (x - mn = d - mn)).length + 1 : Nat) : Int) :=
        addI32_ofNat (b := 1) (by omega)
      rw [countsOf_snoc_lt _ _ _ _ hlt, List.map_set] at ih
      simp only [hlt, decide_true, ↓reduceIte, hc, Option.bind_some, e3]
      rw [setIdx_ofNat _ _ (by rw [List.length_map, countsOf_length]; exact hlt)]
      simp only [Option.bind_some]
      exact ih
    · rw [countsOf_snoc_ge _ _ _ _ (by omega)] at ih
      simp only [hlt, decide_false, Bool.false_eq_true, ↓reduceIte]
      exact ih

/-- a negative `maxitem`: whatever loop 5 does, `make([]int32, maxitem)` after it panics.  (Only `maxitem = -2^31`
    gets this far: there `maxitem - 1` wraps to `2^31 - 1` and the first `make` succeeds.) -/
theorem loop5_neg (fuel : Nat) (F : List Int) (maxitem t1 t10 : Int) (hneg : maxitem < 0) :
    ∀ (gas : Nat) (t11 : Int) (buf : List Int),
      Gen.Ssa3.sigbits_countPrefixes_loop5 fuel F maxitem t1 t10 gas t11 buf = none
  | 0, _, _ => by rw [Gen.Ssa3.sigbits_countPrefixes_loop5]
  | g + 1, t11, buf => by
    rw [Gen.Ssa3.sigbits_countPrefixes_loop5]
    simp only [makeSlice_neg (0 : Int) hneg, Option.bind_none]
    split
    · cases GoSem.index F (addI64 t11 1) with
      | none => rfl
      | some d =>
        simp only [Option.bind_some]
        split
        · cases GoSem.index buf (subI32 d t1) with
          | none => rfl
          | some c =>
            simp only [Option.bind_some]
            cases setIdx buf (subI32 d t1) (addI32 c 1) with
            | none => rfl
            | some b => simp only [Option.bind_some]; exact loop5_neg fuel F maxitem t1 t10 hneg g _ _
        · exact loop5_neg fuel F maxitem t1 t10 hneg g _ _
    · rfl

/-! ### loop 1 (the first one): `min` -/

/-- the result is what the rest of the function computes from the minimum of the whole list -/
theorem loop1 (fuel : Nat) (fds : List Nat) (maxitem : Int) (hn : fds.length < 2^31) :
    ∀ (rest : List Nat) (k gas mn : Nat), rest = fds.drop k → k ≤ fds.length → rest.length + 1 ≤ gas →
      Gen.Ssa3.sigbits_countPrefixes_loop1 fuel (fds.map Int.ofNat) maxitem (fds.length : Int) gas (mn : Int)
          ((k : Int) - 1)
        = (makeSlice (0 : Int) (subI32 maxitem 1)).bind fun t9 =>
            Gen.Ssa3.sigbits_countPrefixes_loop5 fuel (fds.map Int.ofNat) maxitem
              ((rest.foldl (fun mn d => if mn > d then d else mn) mn : Nat) : Int) (fds.length : Int) fuel (-1) t9
  | [], k, gas, mn, hr, hk, hg => by
    obtain ⟨g, rfl⟩ : ∃ g, gas = g + 1 := ⟨gas - 1, by omega⟩
    have hkl : k = fds.length := by have := drop_eq_nil_le hr; omega
    subst hkl
    have e1 : addI64 ((fds.length : Int) - 1) 1 = (fds.length : Int) := by
      rw [addI64]; exact (wrap64_id (by omega) (by omega)).trans (by omega)
    rw [Gen.Ssa3.sigbits_countPrefixes_loop1]
    simp only [e1, Int.lt_irrefl, decide_false, Bool.false_eq_true, ↓reduceIte, List.foldl_nil, len_eq,
      List.length_map]
  | d :: r, k, gas, mn, hr, hk, hg => by
    obtain ⟨g, rfl⟩ : ∃ g, gas = g + 1 := ⟨gas - 1, by omega⟩
    have hkl : k < fds.length := drop_eq_cons_lt hr
    have hd : fds[k]? = some d := getElem?_of_drop_eq_cons hr
    have hdI : (fds.map Int.ofNat)[k]? = some (d : Int) := by rw [List.getElem?_map, hd]; rfl
    have e1 : addI64 ((k : Int) - 1) 1 = (k : Int) := by
      rw [addI64]; exact (wrap64_id (by omega) (by omega)).trans (by omega)
    have e4 : (((k + 1 : Nat) : Int) - 1) = (k : Int) := by omega
    have ih := fun mn' => loop1 fuel fds maxitem hn r (k + 1) g mn' (drop_succ_of_drop_eq_cons hr) (by omega)
      (by simp only [List.length_cons] at hg; omega)
    rw [e4] at ih
    rw [Gen.Ssa3.sigbits_countPrefixes_loop1]
    simp only [e1, Int.ofNat_lt, hkl, decide_true, ↓reduceIte, index_ofNat, hdI, Option.bind_some, gt_iff_lt,
      List.foldl_cons]
    by_cases hlt : d < mn
    · simp only [hlt, decide_true, ↓reduceIte, ih]
    · simp only [hlt, decide_false, Bool.false_eq_true, ↓reduceIte, ih]

/-- if what follows loop 1 panics for every value of `min`, the whole function panics -/
theorem loop1_none (fuel : Nat) (F : List Int) (maxitem t0 : Int)
    (hexit : ∀ t1 : Int, ((makeSlice (0 : Int) (subI32 maxitem 1)).bind fun t9 =>
      Gen.Ssa3.sigbits_countPrefixes_loop5 fuel F maxitem t1 (GoSem.len F) fuel (-1) t9) = none) :
    ∀ (gas : Nat) (t1 t2 : Int), Gen.Ssa3.sigbits_countPrefixes_loop1 fuel F maxitem t0 gas t1 t2 = none
  | 0, _, _ => by rw [Gen.Ssa3.sigbits_countPrefixes_loop1]
  | g + 1, t1, t2 => by
    rw [Gen.Ssa3.sigbits_countPrefixes_loop1]
    simp only [hexit]
    split
    · cases GoSem.index F (addI64 t2 1) with
      | none => rfl
      | some d =>
        simp only [Option.bind_some]
        split <;> exact loop1_none fuel F maxitem t0 hexit g _ _
    · rfl

end Low.CountPrefixesL
