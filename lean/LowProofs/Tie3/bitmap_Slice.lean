import Generated.Ssa3.bitmap_Slice
import LowModel.Bitmap.Of
import LowProofs.Tie3.Lemmas
/-
  Tie: the definition regenerated from the SSA form of `bitmap.Slice` (a loop over the bit positions `from .. to-1`
  that reads `words` and ORs bits into a slice the function allocates with `make`) equals the hand-written model
  `bmSlice`.  The generated loop `bitmap_Slice_loop3` carries the position `i` (int32) and the CONTENTS of the
  allocated slice `r`; the model's `sliceLoop` recurses over the list `List.range' i k` of the remaining positions
  with the same buffer.  `Slice_loop` relates the two for an arbitrary buffer `r` (no invariant on the buffer is
  needed: a store beyond the buffer panics in Go and gives `none` in `orBit`, a read beyond `words` panics in Go and
  gives `none` in `sliceLoop`).
-/
namespace Low
open Low.GoSem Low.GoSem3 Low.TieL Low.Tie2L Low.Tie3L

/-- `1 << k` on uint64 for `k < 64` -/
theorem Slice_shlU64_one {k : Nat} (h : k < 64) : shlU64 1 k = 2 ^ k := by
  rw [shlU64_eq, shl64, if_pos h, Nat.one_shiftLeft]
  apply Nat.mod_eq_of_lt
  have : (2 : Nat) ^ k < 2 ^ 64 := Nat.pow_lt_pow_right (by omega) h
  simpa [M64] using this

/-- the test `w & (1 << j) != 0` is the bit `j` of `w` (any `w`) -/
theorem Slice_and_two_pow_ne_zero (w j : Nat) : (w &&& 2 ^ j ≠ 0) ↔ w.testBit j = true := by
  cases h : w.testBit j with
  | true =>
    simp only [iff_true]
    intro h0
    have : (w &&& 2 ^ j).testBit j = true := by
      rw [Nat.testBit_and, h, Nat.testBit_two_pow_self]; rfl
    rw [h0] at this
    simp at this
  | false =>
    simp only [Bool.false_eq_true, iff_false, ne_eq, Decidable.not_not]
    apply Nat.eq_of_testBit_eq; intro k
    rw [Nat.testBit_and, Nat.testBit_two_pow, Nat.zero_testBit]
    by_cases hk : j = k
    · subst hk; simp [h]
    · simp [hk]

theorem Slice_loop (fuel : Nat) (ws : List Nat) (frm to : Nat) (hto : to < 2^31) :
    ∀ (k i gas : Nat) (r : List Nat), i + k = to → frm ≤ i → k + 1 ≤ gas →
      Gen.Ssa3.bitmap_Slice_loop3 fuel ws (frm : Int) (to : Int) gas (i : Int) r
        = sliceLoop ws frm (List.range' i k) r
  | 0, i, gas, r, hik, hfi, hg => by
    obtain ⟨g, rfl⟩ : ∃ g, gas = g + 1 := ⟨gas - 1, by omega⟩
    have hi : i = to := by omega
    subst hi
    rw [Gen.Ssa3.bitmap_Slice_loop3]
    simp only [Int.lt_irrefl, decide_false, Bool.false_eq_true, ↓reduceIte, List.range'_zero, sliceLoop]
  | k + 1, i, gas, r, hik, hfi, hg => by
    obtain ⟨g, rfl⟩ : ∃ g, gas = g + 1 := ⟨gas - 1, by omega⟩
    have hil : i < to := by omega
    have hil' : ((i : Int) < (to : Int)) := Int.ofNat_lt.mpr hil
    have hm : i % 64 < 64 := Nat.mod_lt _ (by omega)
    have hmj : (i - frm) % 64 < 64 := Nat.mod_lt _ (by omega)
    have e1 : addI32 (i : Int) 1 = ((i + 1 : Nat) : Int) := addI32_ofNat (b := 1) (by omega)
    have e2 : subI32 (i : Int) (frm : Int) = ((i - frm : Nat) : Int) := subI32_ofNat hfi (by omega)
    have e3 : toU64 ((i % 64 : Nat) : Int) = i % 64 := toU64_ofNat_lt (by omega)
    have e4 : toU64 (((i - frm) % 64 : Nat) : Int) = (i - frm) % 64 := toU64_ofNat_lt (by omega)
    have ih := fun r' => Slice_loop fuel ws frm to hto k (i + 1) g r' (by omega) (by omega) (by omega)
    rw [Gen.Ssa3.bitmap_Slice_loop3, List.range'_succ, sliceLoop]
    simp only [hil', decide_true, ↓reduceIte, shrI32_6_ofNat, andI32_63_ofNat, index_ofNat, e1, e2, e3, e4,
      Slice_shlU64_one hm, Slice_shlU64_one hmj, andU64_eq, orU64_eq, ih]
    cases hw : ws[i / 64]? with
    | none => simp only [Option.bind_none]
    | some w =>
      simp only [Option.bind_some]
      cases hb : w.testBit (i % 64) with
      | false =>
        have : ¬ (w &&& 2 ^ (i % 64) ≠ 0) := by rw [Slice_and_two_pow_ne_zero, hb]; simp
        simp only [this, decide_false, Bool.false_eq_true, ↓reduceIte]
      | true =>
        have hd : decide (w &&& 2 ^ (i % 64) ≠ 0) = true :=
          decide_eq_true (by rw [Slice_and_two_pow_ne_zero, hb])
        simp only [hd, ↓reduceIte, orBit]
        cases hx : r[(i - frm) / 64]? with
        | none => simp only [Option.bind_none]
        | some x =>
          have hlt : (i - frm) / 64 < r.length := by
            have := List.getElem?_eq_some_iff.mp hx
            exact this.1
          simp only [Option.bind_some, setIdx_ofNat r _ hlt]

/-- Domain: `0 ≤ from ≤ to < 2^31` (int32 values) with `to - from + 63 < 2^31` (the word count
    `((to - from) + 63) >> 6` is computed in int32: beyond this bound the addition wraps to a negative number and
    `make` panics, while the model computes in `Nat`; `to < 2^31 - 63` is a simple sufficient condition).  No
    hypothesis on `words`: a position beyond the words panics in Go (index out of range) and gives `none` in the
    model.  Fuel: every `fuel ≥ to - from + 1`. -/
theorem Tie_bitmap_Slice (ws : List Nat) (frm to fuel : Nat) (hft : frm ≤ to) (hto : to < 2^31)
    (hlen : to - frm + 63 < 2^31) (hfuel : to - frm + 1 ≤ fuel) :
    Gen.Ssa3.bitmap_Slice fuel ws (frm : Int) (to : Int) = bmSlice ws frm to := by
  have e0 : subI32 (to : Int) (frm : Int) = ((to - frm : Nat) : Int) := subI32_ofNat hft (by omega)
  have e1 : addI32 ((to - frm : Nat) : Int) 63 = ((to - frm + 63 : Nat) : Int) := addI32_ofNat (b := 63) (by omega)
  rw [Gen.Ssa3.bitmap_Slice, bmSlice]
  simp only [e0, e1, shrI32_6_ofNat, makeSlice_ofNat, Option.bind_some]
  rw [Slice_loop fuel ws frm to hto (to - frm) frm fuel _ (by omega) (by omega) (by omega)]
  rfl

/-- the same under the simple bound `to < 2^31 - 63` -/
theorem Tie_bitmap_Slice' (ws : List Nat) (frm to fuel : Nat) (hft : frm ≤ to) (hto : to < 2^31 - 63)
    (hfuel : to - frm + 1 ≤ fuel) :
    Gen.Ssa3.bitmap_Slice fuel ws (frm : Int) (to : Int) = bmSlice ws frm to :=
  Tie_bitmap_Slice ws frm to fuel hft (by omega) (by omega) hfuel

/-- a position beyond the words makes the model's loop fail, whatever the buffer -/
theorem Slice_sliceLoop_none (ws : List Nat) (frm : Nat) :
    ∀ (is r : List Nat), (∃ i ∈ is, ws.length ≤ i / 64) → sliceLoop ws frm is r = none
  | [], r, h => by obtain ⟨i, hi, _⟩ := h; simp at hi
  | i :: is, r, h => by
    rw [sliceLoop]
    cases hw : ws[i / 64]? with
    | none => rfl
    | some w =>
      have hlt : i / 64 < ws.length := (List.getElem?_eq_some_iff.mp hw).1
      have h' : ∃ j ∈ is, ws.length ≤ j / 64 := by
        obtain ⟨j, hj, hjl⟩ := h
        rcases List.mem_cons.mp hj with rfl | hj
        · omega
        · exact ⟨j, hj, hjl⟩
      simp only
      split
      · cases orBit r (i - frm) with
        | none => rfl
        | some r' => exact Slice_sliceLoop_none ws frm is r' h'
      · exact Slice_sliceLoop_none ws frm is r h'

/-- The bound `to - from + 63 < 2^31` replaced by the bitmap domain `len(words) < 2^25` (`BmDom`): when the int32
    word count wraps (`to - from + 63 ≥ 2^31`, so `to - 1 ≥ 64 * (2^25 - 1)`), `make` panics in Go, and the model
    fails as well because position `to - 1` lies beyond the words.  So on all int32 `0 ≤ from ≤ to` and all bitmaps
    of the domain the generated code and the model agree. -/
theorem Tie_bitmap_Slice_dom (ws : List Nat) (frm to fuel : Nat) (hft : frm ≤ to) (hto : to < 2^31)
    (hws : ws.length < 2^25) (hfuel : to - frm + 1 ≤ fuel) :
    Gen.Ssa3.bitmap_Slice fuel ws (frm : Int) (to : Int) = bmSlice ws frm to := by
  by_cases hlen : to - frm + 63 < 2^31
  · exact Tie_bitmap_Slice ws frm to fuel hft hto hlen hfuel
  · have e0 : subI32 (to : Int) (frm : Int) = ((to - frm : Nat) : Int) := subI32_ofNat hft (by omega)
    have e1 : addI32 ((to - frm : Nat) : Int) 63 < 0 := by
      rw [addI32]; unfold wrap32; simp only [M32]; omega
    have e2 : shrI32 (addI32 ((to - frm : Nat) : Int) 63) 6 < 0 := by rw [shrI32_6]; omega
    rw [Gen.Ssa3.bitmap_Slice, bmSlice]
    simp only [e0, makeSlice_neg _ e2, Option.bind_none]
    rw [Slice_sliceLoop_none]
    refine ⟨to - 1, ?_, by omega⟩
    rw [List.mem_range'_1]; omega

example : Gen.Ssa3.bitmap_Slice 10 [0xf0f0, 0xff] 3 12 = some [0x1e] := by decide
example : bmSlice [0xf0f0, 0xff] 3 12 = some [0x1e] := by decide
example : Gen.Ssa3.bitmap_Slice 80 [0xf0f0, 0xff] 60 128 = some [0xff0, 0] := by decide
-- beyond the words: index out of range
example : Gen.Ssa3.bitmap_Slice 80 [0xf0f0, 0xff] 60 129 = none := by decide
example : bmSlice [0xf0f0, 0xff] 60 129 = none := by decide
-- out of fuel
example : Gen.Ssa3.bitmap_Slice 9 [0xf0f0, 0xff] 3 12 = none := by decide

end Low
