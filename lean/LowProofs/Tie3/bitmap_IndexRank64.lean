import Generated.Ssa3.bitmap_IndexRank64
import LowModel.Bitmap.Rank
import LowProofs.Tie3.Lemmas
/-
  Tie: the definition regenerated from the SSA form of `bitmap.IndexRank64` (a loop that fills a slice the function
  allocates with `make`) equals the hand-written model `indexRank64`.  The generated loop `bitmap_IndexRank64_loop7`
  carries the counter `n`, the index `i` and the CONTENTS of the allocated slice (`t8_b7`, a hidden parameter: the
  memory of `idx` is live across the loop); every `idx[i] = n` is a functional update `GoSem3.setIdx`.  The model
  recurses over the suffix `words.drop i` and conses; `IndexRank64_loop` relates the two: the first `i` elements of
  the buffer are final, the rest is overwritten by what the model produces for the suffix.
-/
namespace Low
open Low.GoSem Low.GoSem3 Low.TieL Low.Tie2L Low.Tie3L

theorem IndexRank64_loop (fuel : Nat) (ws : List Nat) (opts : List Bool) (t : Bool) (hlen : ws.length < 2^25) :
    ∀ (rest : List Nat) (i gas n : Nat) (buf : List Int), rest = ws.drop i → i ≤ ws.length → rest.length + 1 ≤ gas →
      n ≤ 64 * i → buf.length = ws.length + (if t then 1 else 0) →
      Gen.Ssa3.bitmap_IndexRank64_loop7 fuel ws opts t gas (n : Int) (i : Int) buf
        = some (buf.take i ++ (indexRank64Go t rest n).map Int.ofNat)
  | [], i, gas, n, buf, hr, hi, hg, hn, hb => by
    obtain ⟨g, rfl⟩ : ∃ g, gas = g + 1 := ⟨gas - 1, by omega⟩
    have hil : i = ws.length := by have := drop_eq_nil_le hr; omega
    subst hil
    rw [Gen.Ssa3.bitmap_IndexRank64_loop7, indexRank64Go]
    simp only [len_eq, Int.lt_irrefl, decide_false, Bool.false_eq_true, ↓reduceIte]
    cases t with
    | false =>
      simp only [Bool.false_eq_true, ↓reduceIte, Nat.add_zero] at hb ⊢
      simp [← hb]
    | true =>
      simp only [↓reduceIte] at hb ⊢
      rw [setIdx_ofNat _ _ (by omega)]
      simp only [Option.bind_some, List.map_cons, List.map_nil]
      have h1 := take_set_succ buf ws.length (n : Int) (by omega)
      rw [List.take_of_length_le (by simp; omega)] at h1
      rw [h1]; rfl
  | w :: r, i, gas, n, buf, hr, hi, hg, hn, hb => by
    obtain ⟨g, rfl⟩ : ∃ g, gas = g + 1 := ⟨gas - 1, by omega⟩
    have hil : i < ws.length := drop_eq_cons_lt hr
    have hw : ws[i]? = some w := getElem?_of_drop_eq_cons hr
    have hp : popc w 64 ≤ 64 := popc_le _ _
    have ih := IndexRank64_loop fuel ws opts t hlen r (i + 1) g (n + popc w 64) (buf.set i (n : Int))
      (drop_succ_of_drop_eq_cons hr) (by omega) (by simp only [List.length_cons] at hg; omega) (by omega)
      (by simpa using hb)
    have e1 : addI32 (n : Int) (toI32 (onesCount64 w)) = ((n + popc w 64 : Nat) : Int) := by
      rw [toI32_popc64]; exact addI32_ofNat (by omega)
    have e2 : addI64 (i : Int) 1 = ((i + 1 : Nat) : Int) := addI64_one_ofNat (by omega)
    rw [Gen.Ssa3.bitmap_IndexRank64_loop7, indexRank64Go]
    simp only [len_eq, Int.ofNat_lt, hil, decide_true, ↓reduceIte, setIdx_ofNat buf (n : Int) (by omega : i < buf.length),
      Option.bind_some, index_ofNat, hw, e1, e2, ih, take_set_succ buf i (n : Int) (by omega)]
    simp

theorem IndexRank64_main (ws : List Nat) (opts : List Bool) (fuel : Nat) (hlen : ws.length < 2^25)
    (hfuel : ws.length + 1 ≤ fuel) (t : Bool) :
    (makeSlice (0 : Int) (if t = true then addI64 (len ws) 1 else len ws)).bind (fun buf =>
      Gen.Ssa3.bitmap_IndexRank64_loop7 fuel ws opts t fuel 0 0 buf)
      = some ((indexRank64 ws t).map Int.ofNat) := by
  have e : (if t = true then addI64 (len ws) 1 else len ws) = ((ws.length + (if t then 1 else 0) : Nat) : Int) := by
    cases t with
    | false => simp [len_eq]
    | true => simp only [len_eq, ↓reduceIte]; exact addI64_one_ofNat (by omega)
  rw [e, makeSlice_ofNat, Option.bind_some]
  have := IndexRank64_loop fuel ws opts t hlen ws 0 fuel 0 _ (by simp) (by omega) (by omega) (by omega)
    (List.length_replicate (n := ws.length + (if t then 1 else 0)) (a := (0 : Int)))
  simpa [indexRank64] using this

/-- Domain: `words` with fewer than `2^25` words (`BmDom`; the running count then fits an `int32`); no hypothesis on
    the words; `opts` any list (only `opts[0]` is read, absent = `false`).  Fuel: every `fuel ≥ len(words) + 1`.
    The Go function cannot panic on this domain: the result is `some`. -/
theorem Tie_bitmap_IndexRank64 (ws : List Nat) (opts : List Bool) (fuel : Nat) (hlen : ws.length < 2^25)
    (hfuel : ws.length + 1 ≤ fuel) :
    Gen.Ssa3.bitmap_IndexRank64 fuel ws opts = some ((indexRank64 ws (opts.headD false)).map Int.ofNat) := by
  rw [Gen.Ssa3.bitmap_IndexRank64]
  cases opts with
  | nil =>
    simp only [List.headD_nil]
    rw [← IndexRank64_main ws [] fuel hlen hfuel false]
    simp [len_eq]
  | cons b rest =>
    have hpos : ((rest.length + 1 : Nat) : Int) > 0 := by omega
    have hidx : index (b :: rest) 0 = some b := by unfold index; simp
    simp only [len_eq, List.length_cons, hpos, decide_true, ↓reduceIte, hidx, Option.bind_some, List.headD_cons]
    rw [← IndexRank64_main ws (b :: rest) fuel hlen hfuel b]
    cases b <;> simp [len_eq]

example : Gen.Ssa3.bitmap_IndexRank64 4 [3, 5, 0xff] [true] = some [0, 2, 4, 12] := by decide
example : indexRank64 [3, 5, 0xff] true = [0, 2, 4, 12] := by decide
example : Gen.Ssa3.bitmap_IndexRank64 4 [3, 5, 0xff] [] = some [0, 2, 4] := by decide
-- out of fuel
example : Gen.Ssa3.bitmap_IndexRank64 3 [3, 5, 0xff] [] = none := by decide

end Low
