import Generated.Ssa3.bitmap_IndexRank128
import LowModel.Bitmap.Rank
import LowProofs.Tie3.Lemmas
/-
  Tie: the definition regenerated from the SSA form of `bitmap.IndexRank128` equals the hand-written model
  `indexRank128`.  The generated loop `bitmap_IndexRank128_loop3` carries the CONTENTS of `idx` (`t17`; the loop
  appends `n` at the end in every iteration), the counter `n` (`t18`, an int32) and the word index `i` (`t19`), which
  advances by 2; the second word `words[i+1]` of a pair is read only if `i < len(words)-1`.  The exit block of the loop
  (append one more entry iff `len(words) & 1 == 0`, then the clone `append(idx[:0:0], idx...)`) is part of the loop
  definition.  The model recurses over the suffix `words.drop i` two words at a time and conses;
  `IndexRank128_loop` relates the two, generically in the accumulated contents `acc` of `idx`.
-/
namespace Low
open Low.GoSem Low.GoSem3 Low.TieL Low.Tie2L Low.Tie3L

/-- `n & 1` on a natural number held in an `int` -/
theorem IndexRank128_andI64_one (n : Nat) : andI64 (n : Int) 1 = ((n % 2 : Nat) : Int) := by
  unfold andI64
  have h1 : u64 1 = 1 := by decide
  rw [h1, and_1, u64_ofNat]
  have : n % M64 % 2 = n % 2 := by simp only [M64]; omega
  rw [this]; exact wrap64_ofNat (by omega)

/-- the exit path of the loop: `i ≥ len(words)`; one more entry iff the word count is even; then the clone -/
theorem IndexRank128_exit (fuel : Nat) (ws : List Nat) (g i : Nat) (n : Int) (acc : List Int)
    (hi : ws.length ≤ i) :
    Gen.Ssa3.bitmap_IndexRank128_loop3 fuel ws (g + 1) acc n (i : Int)
      = some (acc ++ (if ws.length % 2 = 0 then [n] else [])) := by
  have hlt : ¬ (i < ws.length) := by omega
  rw [Gen.Ssa3.bitmap_IndexRank128_loop3]
  simp only [len_eq, Int.ofNat_lt, hlt, decide_false, Bool.false_eq_true, ↓reduceIte, IndexRank128_andI64_one,
    setIdx_newArray_one, Option.bind_some, List.nil_append]
  have : ws.length % 2 = 0 ∨ ws.length % 2 = 1 := by omega
  rcases this with h | h <;> simp [h]

theorem IndexRank128_bound {n i L p0 p1 : Nat} (hn : n ≤ 64 * i) (hi : i + 1 < L) (hL : L < 2^25) (h0 : p0 ≤ 64)
    (h1 : p1 ≤ 64) : n + p0 + p1 < 2147483648 := by omega

/-- Loop invariant: `i` even, `i ≤ len(words)`, `rest = words[i:]`, the running count `n ≤ 64*i` (fits an int32),
    `acc` = the contents of `idx` so far (arbitrary).  Gas: exactly the number of loop-header visits,
    `⌈len(rest)/2⌉ + 1`. -/
theorem IndexRank128_loop (fuel : Nat) (ws : List Nat) (hlen : ws.length < 2^25) :
    ∀ (rest : List Nat) (i gas n : Nat) (acc : List Int), rest = ws.drop i → i % 2 = 0 → i ≤ ws.length →
      (rest.length + 1) / 2 + 1 ≤ gas → n ≤ 64 * i →
      Gen.Ssa3.bitmap_IndexRank128_loop3 fuel ws gas acc (n : Int) (i : Int)
        = some (acc ++ (indexRank128Go rest n).map Int.ofNat)
  | [], i, gas, n, acc, hr, hpar, hi, hg, hn => by
    obtain ⟨g, rfl⟩ : ∃ g, gas = g + 1 := ⟨gas - 1, by omega⟩
    have hil : i = ws.length := by have := drop_eq_nil_le hr; omega
    subst hil
    rw [IndexRank128_exit fuel ws g ws.length _ acc (by omega), indexRank128Go]
    simp [hpar]
  | [w], i, gas, n, acc, hr, hpar, hi, hg, hn => by
    obtain ⟨g, rfl⟩ : ∃ g, gas = g + 1 + 1 := ⟨gas - 2, by simp only [List.length_cons, List.length_nil] at hg; omega⟩
    have hil : i < ws.length := drop_eq_cons_lt hr
    have hw : ws[i]? = some w := getElem?_of_drop_eq_cons hr
    have hle : ws.length ≤ i + 1 := drop_eq_nil_le (drop_succ_of_drop_eq_cons hr)
    have hodd : ws.length % 2 = 1 := by omega
    have hnlt : ¬ (i < ws.length - 1) := by omega
    have esub : subI64 (ws.length : Int) 1 = ((ws.length - 1 : Nat) : Int) :=
      subI64_ofNat (b := 1) (by omega) (by omega)
    have e2 : addI64 (i : Int) 2 = ((i + 2 : Nat) : Int) := addI64_ofNat (b := 2) (by omega)
    have hex := fun (m : Int) (a : List Int) => IndexRank128_exit fuel ws g (i + 2) m a (by omega)
    rw [Gen.Ssa3.bitmap_IndexRank128_loop3, indexRank128Go]
    simp only [len_eq, Int.ofNat_lt, hil, decide_true, ↓reduceIte, setIdx_newArray_one, Option.bind_some, index_ofNat,
      hw, esub, hnlt, decide_false, Bool.false_eq_true, e2, hex, hodd]
    simp
  | w0 :: w1 :: r, i, gas, n, acc, hr, hpar, hi, hg, hn => by
    obtain ⟨g, rfl⟩ : ∃ g, gas = g + 1 := ⟨gas - 1, by omega⟩
    have hw0 : ws[i]? = some w0 := getElem?_of_drop_eq_cons hr
    have hr1 : w1 :: r = ws.drop (i + 1) := drop_succ_of_drop_eq_cons hr
    have hil1 : i + 1 < ws.length := drop_eq_cons_lt hr1
    have hil : i < ws.length := by omega
    have hw1 : ws[i + 1]? = some w1 := getElem?_of_drop_eq_cons hr1
    have hr2 : r = ws.drop (i + 2) := drop_succ_of_drop_eq_cons hr1
    have hp0 : popc w0 64 ≤ 64 := popc_le _ _
    have hp1 : popc w1 64 ≤ 64 := popc_le _ _
    have hlt : i < ws.length - 1 := by omega
    have ih := IndexRank128_loop fuel ws hlen r (i + 2) g (n + popc w0 64 + popc w1 64) (acc ++ [(n : Int)])
      hr2 (by omega) (by omega) (by simp only [List.length_cons] at hg; omega) (by omega)
    have esub : subI64 (ws.length : Int) 1 = ((ws.length - 1 : Nat) : Int) :=
      subI64_ofNat (b := 1) (by omega) (by omega)
    have e1 : addI64 (i : Int) 1 = ((i + 1 : Nat) : Int) := addI64_one_ofNat (by omega)
    have e2 : addI64 (i : Int) 2 = ((i + 2 : Nat) : Int) := addI64_ofNat (b := 2) (by omega)
    have ea : addI32 (n : Int) (toI32 (onesCount64 w0)) = ((n + popc w0 64 : Nat) : Int) := by
      rw [toI32_popc64]; exact addI32_ofNat (by omega)
    have eb : addI32 ((n + popc w0 64 : Nat) : Int) (toI32 (onesCount64 w1))
        = ((n + popc w0 64 + popc w1 64 : Nat) : Int) := by
      rw [toI32_popc64]; exact addI32_ofNat (IndexRank128_bound hn hil1 hlen hp0 hp1)
    rw [Gen.Ssa3.bitmap_IndexRank128_loop3, indexRank128Go]
    simp only [len_eq, Int.ofNat_lt, hil, decide_true, ↓reduceIte, setIdx_newArray_one, Option.bind_some, index_ofNat,
      hw0, esub, hlt, e1, hw1, ea, eb, e2, ih]
    simp

/-- The tie with the exact fuel bound: `⌈len(words)/2⌉ + 1` visits of the loop header. -/
theorem Tie_bitmap_IndexRank128_tight (ws : List Nat) (fuel : Nat) (hlen : ws.length < 2^25)
    (hfuel : (ws.length + 1) / 2 + 1 ≤ fuel) :
    Gen.Ssa3.bitmap_IndexRank128 fuel ws = some ((indexRank128 ws).map Int.ofNat) := by
  have h := IndexRank128_loop fuel ws hlen ws 0 fuel 0 [] (by simp) (by omega) (by omega) hfuel (by omega)
  rw [List.nil_append] at h
  exact h

/-- Domain: `words` with fewer than `2^25` words (`BmDom`; the running count then fits an `int32`); no hypothesis on
    the words.  Fuel: every `fuel ≥ len(words) + 1` (in fact `⌈len(words)/2⌉ + 1` suffices, see `_tight`).
    The Go function cannot panic on this domain: the result is `some`. -/
theorem Tie_bitmap_IndexRank128 (ws : List Nat) (fuel : Nat) (hlen : ws.length < 2^25)
    (hfuel : ws.length + 1 ≤ fuel) :
    Gen.Ssa3.bitmap_IndexRank128 fuel ws = some ((indexRank128 ws).map Int.ofNat) :=
  Tie_bitmap_IndexRank128_tight ws fuel hlen (by omega)

example : Gen.Ssa3.bitmap_IndexRank128 4 [3, 5, 0xff] = some [0, 4] := by decide
example : indexRank128 [3, 5, 0xff] = [0, 4] := by decide
example : Gen.Ssa3.bitmap_IndexRank128 5 [3, 5, 0xff, 1] = some [0, 4, 13] := by decide
example : indexRank128 [3, 5, 0xff, 1] = [0, 4, 13] := by decide
example : Gen.Ssa3.bitmap_IndexRank128 1 [] = some [0] := by decide
-- out of fuel: 3 words need 3 visits of the loop header, 4 words need 3
example : Gen.Ssa3.bitmap_IndexRank128 2 [3, 5, 0xff] = none := by decide
example : Gen.Ssa3.bitmap_IndexRank128 2 [3, 5, 0xff, 1] = none := by decide
example : Gen.Ssa3.bitmap_IndexRank128 3 [3, 5, 0xff, 1] = some [0, 4, 13] := by decide

end Low
