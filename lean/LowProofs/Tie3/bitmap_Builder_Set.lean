import Generated.Ssa3.bitmap_Builder_Set
import LowModel.Bitmap.Of
import LowProofs.Tie3.Lemmas
/-
  Tie: the definition regenerated from the SSA form of the method `(*bitmap.Builder).Set` equals the hand-written
  model `Builder.set`.  The receiver fields `Words`, `Offset` are arguments of the generated definition and the final
  values of both follow as its result.  The only loop (`bitmap_Builder_Set_loop3`) is the growing loop
  `for int(bitPosition>>6) >= len(b.Words) { b.Words = append(b.Words, 0) }`; the code after the loop (the OR into
  `b.Words[bitPosition>>6]` and the update of `b.Offset`) sits in the exit branch of the loop definition.
  `Builder_Set_loop` (induction on the number of missing words): from `ws` the loop reaches `ws ++ zeros k` and then
  does `Builder.setFin`, which is the tail of the model.
-/
namespace Low
open Low.GoSem Low.GoSem3 Low.TieL Low.Tie2L Low.Tie3L

/-- what `Set` does once `b.Words` is long enough (the part of the model after the growing of `words`) -/
def Builder.setFin (ws : List Nat) (p : Nat) (value off : Int) : Option (List Nat × Int) :=
  match ws[p / 64]? with
  | none => none
  | some w =>
    some (ws.set (p / 64) (w ||| ((value % 2).toNat <<< (p % 64))), if off ≤ (p : Int) then (p : Int) + 1 else off)

/-- `v << j` on uint64 for a single bit `v` and `j < 64`: no truncation -/
theorem Builder_Set_shlU64_bit {v j : Nat} (hv : v ≤ 1) (hj : j < 64) : shlU64 v j = v <<< j := by
  rw [shlU64, shl64, if_pos hj, Nat.shiftLeft_eq]
  apply Nat.mod_eq_of_lt
  have h1 : (2 : Nat) ^ j < 2 ^ 64 := Nat.pow_lt_pow_right (by omega) hj
  have h2 : v * 2 ^ j ≤ 1 * 2 ^ j := Nat.mul_le_mul_right _ hv
  simp only [M64]
  omega

/-- `uint64(value & 1)` on any int32 -/
theorem Builder_Set_toU64_and1 (x : Int) : toU64 (andI32 x 1) = (x % 2).toNat := by
  rw [andI32_1, toU64, u64]
  simp only [M64]
  omega

/-- the loop with `k` words missing; `p` is the (non-negative) bit position -/
theorem Builder_Set_loop (fuel : Nat) (bw : List Nat) (bo : Int) (p : Nat) (value : Int) (hp : p + 1 < 2^31) :
    ∀ (k gas : Nat) (ws : List Nat) (off : Int), k = p / 64 + 1 - ws.length → k + 1 ≤ gas →
      Gen.Ssa3.bitmap_Builder_Set_loop3 fuel bw bo (p : Int) value gas ws off
        = Builder.setFin (ws ++ zeros k) p value off
  | 0, gas, ws, off, hk, hg => by
    obtain ⟨g, rfl⟩ : ∃ g, gas = g + 1 := ⟨gas - 1, by omega⟩
    have e1 : toI64 ((p / 64 : Nat) : Int) = ((p / 64 : Nat) : Int) := toI64_ofNat_lt (by omega)
    have hge : ¬ (ws.length ≤ p / 64) := by omega
    have hm : p % 64 < 64 := Nat.mod_lt _ (by omega)
    have e2 : toU64 ((p % 64 : Nat) : Int) = p % 64 := toU64_ofNat_lt (by omega)
    have e3 : shlU64 (value % 2).toNat (p % 64) = (value % 2).toNat <<< (p % 64) := Builder_Set_shlU64_bit (by omega) hm
    have e4 : addI32 (p : Int) 1 = (p : Int) + 1 := by rw [addI32]; exact wrap32_id (by omega) (by omega)
    rw [Gen.Ssa3.bitmap_Builder_Set_loop3, Builder.setFin]
    simp only [shrI32_6_ofNat, e1, len_eq, ge_iff_le, Int.ofNat_le, hge, decide_false, Bool.false_eq_true, ↓reduceIte,
      andI32_63_ofNat, e2, Builder_Set_toU64_and1, e3, index_ofNat, orU64_eq, zeros, List.replicate_zero, List.append_nil]
    cases hw : ws[p / 64]? with
    | none => simp only [Option.bind_none]
    | some w =>
      have hwl : p / 64 < ws.length := (List.getElem?_eq_some_iff.mp hw).1
      simp only [Option.bind_some, setIdx_ofNat ws _ hwl, e4]
      by_cases ho : off ≤ (p : Int)
      · simp only [ho, decide_true, ↓reduceIte]
      · simp only [ho, decide_false, Bool.false_eq_true, ↓reduceIte]
  | k + 1, gas, ws, off, hk, hg => by
    obtain ⟨g, rfl⟩ : ∃ g, gas = g + 1 := ⟨gas - 1, by omega⟩
    have e1 : toI64 ((p / 64 : Nat) : Int) = ((p / 64 : Nat) : Int) := toI64_ofNat_lt (by omega)
    have hge : ws.length ≤ p / 64 := by omega
    have hk' : k = p / 64 + 1 - (ws ++ [0]).length := by
      simp only [List.length_append, List.length_cons, List.length_nil]; omega
    have ih := Builder_Set_loop fuel bw bo p value hp k g (ws ++ [0]) off hk' (by omega)
    have ez : (ws ++ [0]) ++ zeros k = ws ++ zeros (k + 1) := by
      simp only [zeros, List.replicate_succ, List.append_assoc, List.cons_append, List.nil_append]
    rw [Gen.Ssa3.bitmap_Builder_Set_loop3]
    simp only [shrI32_6_ofNat, e1, len_eq, ge_iff_le, Int.ofNat_le, hge, decide_true, ↓reduceIte, setIdx_newArray_one,
      Option.bind_some, ih, ez]

/-- Domain: `bitPosition` is an int32 other than the largest one: `-2^31 ≤ pos < 2^31 - 1`.  No hypothesis on `value`
    (`value & 1` is `value % 2` on every int32, also on negative ones), on `b.Offset` or on `b.Words` (neither the
    number of words nor their contents).
    * `pos < 0`: the loop does not run and `b.Words[bitPosition>>6]` panics; the model returns `none` too.
    * `pos = 2^31 - 1` (excluded) with `b.Offset ≤ pos`: the Go code sets `b.Offset = bitPosition + 1` in int32, which
      wraps to `-2^31`, whereas the model sets `2^31`: the two DIFFER there (after appending up to `2^25` words).
    Fuel: the number of words to append, plus one: every `fuel ≥ pos.toNat / 64 + 1 - len(b.Words) + 1`
    (in particular every `fuel ≥ pos.toNat / 64 + 2`). -/
theorem Tie_bitmap_Builder_Set (b : Builder) (pos value : Int) (fuel : Nat) (hlo : -2^31 ≤ pos) (hhi : pos < 2^31 - 1)
    (hfuel : pos.toNat / 64 + 1 - b.words.length + 1 ≤ fuel) :
    Gen.Ssa3.bitmap_Builder_Set fuel b.words b.offset pos value
      = (Builder.set b pos value).map (fun b' => (b'.words, b'.offset)) := by
  simp only [Gen.Ssa3.bitmap_Builder_Set, Builder.set]
  by_cases hneg : pos < 0
  · obtain ⟨g, rfl⟩ : ∃ g, fuel = g + 1 := ⟨fuel - 1, by omega⟩
    have e1 : toI64 (pos / 64) = pos / 64 := toI64_id (by omega) (by omega)
    have hge : ¬ ((b.words.length : Int) ≤ pos / 64) := by omega
    have h64 : pos / 64 < 0 := by omega
    rw [Gen.Ssa3.bitmap_Builder_Set_loop3]
    simp only [shrI32_6, e1, len_eq, ge_iff_le, hge, decide_false, Bool.false_eq_true, ↓reduceIte, index_neg _ h64,
      Option.bind_none, hneg, Option.map_none]
  · obtain ⟨p, rfl⟩ := Int.eq_ofNat_of_zero_le (by omega : 0 ≤ pos)
    simp only [Int.toNat_natCast] at hfuel
    have hl := Builder_Set_loop fuel b.words b.offset p value (by omega) (p / 64 + 1 - b.words.length) fuel b.words b.offset
      rfl hfuel
    simp only [hl, Builder.setFin, hneg, ↓reduceIte, Int.toNat_natCast]
    cases (b.words ++ zeros (p / 64 + 1 - b.words.length))[p / 64]? with
    | none => rfl
    | some w => rfl

example : Gen.Ssa3.bitmap_Builder_Set 3 [1] 1 70 1 = some ([1, 64], 71) := by decide
example : Builder.set ⟨[1], 1⟩ 70 1 = some ⟨[1, 64], 71⟩ := by decide
example : Gen.Ssa3.bitmap_Builder_Set 3 [1] 1 130 (-1) = some ([1, 0, 4], 131) := by decide
example : Gen.Ssa3.bitmap_Builder_Set 1 [1, 0] 100 3 0 = some ([1, 0], 100) := by decide
-- a negative position: panic
example : Gen.Ssa3.bitmap_Builder_Set 3 [1] 1 (-1) 1 = none := by decide
example : Builder.set ⟨[1], 1⟩ (-1) 1 = none := by decide
-- out of fuel: two words to append need three iterations
example : Gen.Ssa3.bitmap_Builder_Set 2 [1] 1 130 1 = none := by decide

end Low
