import LowModel.Bitmap.Tail
import LowProofs.Tie3.Lemmas
/-
  Helper lemmas for the ties of the `bitmap.TailBitmap` methods (`Get`, `Get1`, `Compact`, `Set`): the int64
  operations `idx & 63`, `idx >> 6`, `a - b`, `l * 2` on in-range arguments.
-/
namespace Low.TailL
open Low Low.GoSem Low.GoSem3 Low.TieL Low.Tie2L Low.Tie3L

/-- `x & 63` on any int64 (two's complement): the Euclidean remainder -/
theorem andI64_63 (x : Int) : andI64 x 63 = x % 64 := by
  unfold andI64
  have h63 : u64 63 = 63 := by decide
  rw [h63, and_63]
  unfold u64; simp only [M64]
  apply (wrap64_id (by omega) (by omega)).trans
  omega

theorem andI64_63_ofNat (n : Nat) : andI64 (n : Int) 63 = ((n % 64 : Nat) : Int) := by
  rw [andI64_63]; omega

theorem shrI64_eq_div (x : Int) (s : Nat) : shrI64 x s = x / ((2 ^ s : Nat) : Int) := by
  unfold shrI64; exact Int.shiftRight_eq_div_pow x s

/-- `x >> 6` on any int64 (arithmetic shift): the floor quotient -/
theorem shrI64_6 (x : Int) : shrI64 x 6 = x / 64 := by rw [shrI64_eq_div]; rfl

theorem shrI64_6_ofNat (n : Nat) : shrI64 (n : Int) 6 = ((n / 64 : Nat) : Int) := by
  rw [shrI64_6]; omega

theorem subI64_id {a b : Int} (h1 : -9223372036854775808 ≤ a - b) (h2 : a - b < 9223372036854775808) :
    subI64 a b = a - b := by
  rw [subI64]; exact wrap64_id h1 h2

theorem addI64_id {a b : Int} (h1 : -9223372036854775808 ≤ a + b) (h2 : a + b < 9223372036854775808) :
    addI64 a b = a + b := by
  rw [addI64]; exact wrap64_id h1 h2

theorem mulI64_two_ofNat {l : Nat} (h : 2 * l < 9223372036854775808) : mulI64 (l : Int) 2 = ((2 * l : Nat) : Int) := by
  rw [mulI64]; exact (wrap64_id (by omega) (by omega)).trans (by omega)

/-- a difference of two int64 that does not fit an int64 wraps to a negative number -/
theorem subI64_wrap_neg {a b : Int} (ha : a < 9223372036854775808) (hb : -9223372036854775808 ≤ b)
    (h : 9223372036854775808 ≤ a - b) : subI64 a b < 0 := by
  rw [subI64]; unfold wrap64; simp only [M64]; omega

theorem allOnes64_eq : allOnes64 = 18446744073709551615 := by decide

end Low.TailL
