import Generated.Ssa3.bitword_bitWord_FromStr
import LowModel.Bitword
import LowProofs.Tie3.Lemmas
/-
  Tie: the definition regenerated from the SSA form of `(*bitword.bitWord).FromStr` (two NESTED loops that fill a
  slice allocated with `make`) equals the hand-written model `bwFromStr`.  The generated definition takes the
  receiver's fields `width`, `byteCap`, `wordMask` as arguments; the theorem instantiates them with the values that
  `newBW(n)` stores: `width = n`, `byteCap = 8/n`, `wordMask = bwWordMask n`.

  The loop lemmas are stated for arbitrary `n`, `m` with `n * m = 8` (so `1 ≤ n, m ≤ 8`) and an arbitrary mask; the
  case split on `n ∈ {1,2,4,8}` is only needed to get `n * (8 / n) = 8` in the main theorem.
  * inner loop (`_loop6`, over `j < m`, generic in the outer loop's continuation `k`): the buffer is
    `pre ++ zeros` with `pre.length = i*m + j`; the loop appends the words `j, j+1, …, m-1` of the byte `b` to `pre`
    and calls `k (i+1)`;
  * outer loop (`_loop3`, over the suffix `s.drop i`): the buffer is `pre ++ zeros` with `pre.length = i*m`.
-/
namespace Low
open Low.GoSem Low.GoSem3 Low.TieL Low.Tie2L Low.Tie3L

/-- a product of small naturals does not wrap -/
theorem FromStr_mulI64_ofNat {a b : Nat} (h : a * b < 9223372036854775808) :
    mulI64 (a : Int) (b : Int) = ((a * b : Nat) : Int) := by
  rw [mulI64, ← Int.natCast_mul]; exact wrap64_ofNat h

/-- a theorem, not a `rfl`-lemma, on purpose: `simp only [andU8]` unfolds by definitional equality and the kernel then
    reports "deep recursion" on the big unfolded term -/
theorem FromStr_andU8_eq (x y : Nat) : andU8 x y = x &&& y := by rw [andU8]

theorem FromStr_inner (fuel n m : Nat) (bc : Int) (mask : Nat) (s : List Nat) (b i : Nat)
    (k : Int → List Nat → Option (List Nat)) (hnm : n * m = 8) (hi : i < 2^32) :
    ∀ (d j gas : Nat) (pre : List Nat) (z : Nat), d = m - j → j ≤ m → d + 1 ≤ gas → pre.length = i * m + j →
      Gen.Ssa3.bitword_bitWord_FromStr_loop6 fuel (n : Int) bc mask s (m : Int) b (i : Int) k gas (j : Int)
          (pre ++ List.replicate (d + z) 0)
        = k ((i + 1 : Nat) : Int)
            ((pre ++ (List.range' j d).map fun j => (b >>> (8 - n * j - n)) &&& mask) ++ List.replicate z 0)
  | 0, j, gas, pre, z, hd, hj, hg, hp => by
    obtain ⟨g, rfl⟩ : ∃ g, gas = g + 1 := ⟨gas - 1, by omega⟩
    have hjm : ¬ ((j : Int) < (m : Int)) := by omega
    have e1 : addI64 (i : Int) 1 = ((i + 1 : Nat) : Int) := addI64_one_ofNat (by omega)
    rw [Gen.Ssa3.bitword_bitWord_FromStr_loop6]
    simp only [hjm, decide_false, Bool.false_eq_true, ↓reduceIte, e1, Nat.zero_add, List.range'_zero, List.map_nil,
      List.append_nil]
  | d + 1, j, gas, pre, z, hd, hj, hg, hp => by
    obtain ⟨g, rfl⟩ : ∃ g, gas = g + 1 := ⟨gas - 1, by omega⟩
    have hjm : j < m := by omega
    have hm8 : m ≤ 8 := Nat.le_of_dvd (by omega) ⟨n, by rw [Nat.mul_comm]; exact hnm.symm⟩
    have hn1 : 1 ≤ n := by
      rcases Nat.eq_zero_or_pos n with h | h
      · rw [h, Nat.zero_mul] at hnm; omega
      · exact h
    have hnj : n * j + n ≤ 8 := by
      have := Nat.mul_le_mul_left n (show j + 1 ≤ m by omega)
      rw [Nat.mul_succ] at this; omega
    have him : i * m ≤ i * 8 := Nat.mul_le_mul_left i hm8
    -- all `omega` calls come BEFORE the `Int` equations `e1 … e8` enter the context (with a hypothesis such as
    -- `addI64 ↑j 1 = ↑(j + 1)` in the context the kernel reports "deep recursion" on the proofs `omega` produces)
    have h1 : i * m < 9223372036854775808 := by omega
    have h2 : i * m + j < 9223372036854775808 := by omega
    have h3 : n * j < 9223372036854775808 := by omega
    have h4 : n * j ≤ 8 := by omega
    have h5 : n ≤ 8 - n * j := by omega
    have h6 : 8 - n * j < 9223372036854775808 := by omega
    have h7 : 8 - n * j - n < 18446744073709551616 := by omega
    have h8 : 8 - n * j - n < 8 := by omega
    have h9 : j + 1 < 9223372036854775808 := by omega
    have hbuf : pre ++ List.replicate (d + 1 + z) 0 = pre ++ List.replicate ((d + z) + 1) 0 := by
      rw [show d + 1 + z = (d + z) + 1 by omega]
    have e9 : setIdx (pre ++ List.replicate (d + 1 + z) 0) ((i * m + j : Nat) : Int)
          ((b >>> (8 - n * j - n)) &&& mask)
        = some ((pre ++ [(b >>> (8 - n * j - n)) &&& mask]) ++ List.replicate (d + z) 0) := by
      rw [hbuf, setIdx_ofNat _ _ (by simp; omega), ← hp, set_append_replicate]
    have ih := FromStr_inner fuel n m bc mask s b i k hnm hi d (j + 1) g
      (pre ++ [(b >>> (8 - n * j - n)) &&& mask]) z (by omega) (by omega) (by omega)
      (by simp only [List.length_append, List.length_cons, List.length_nil]; omega)
    have e1 : mulI64 (i : Int) (m : Int) = ((i * m : Nat) : Int) := FromStr_mulI64_ofNat h1
    have e2 : addI64 ((i * m : Nat) : Int) (j : Int) = ((i * m + j : Nat) : Int) := addI64_ofNat h2
    have e3 : mulI64 (n : Int) (j : Int) = ((n * j : Nat) : Int) := FromStr_mulI64_ofNat h3
    have e4 : subI64 (8 : Int) ((n * j : Nat) : Int) = ((8 - n * j : Nat) : Int) :=
      subI64_ofNat (a := 8) h4 (by decide)
    have e5 : subI64 ((8 - n * j : Nat) : Int) (n : Int) = ((8 - n * j - n : Nat) : Int) := subI64_ofNat h5 h6
    have e6 : toU64 ((8 - n * j - n : Nat) : Int) = 8 - n * j - n := toU64_ofNat_lt h7
    have e7 : shrU8 b (8 - n * j - n) = b >>> (8 - n * j - n) := by rw [shrU8, if_pos h8]
    have e8 : addI64 (j : Int) 1 = ((j + 1 : Nat) : Int) := addI64_one_ofNat h9
    rw [Gen.Ssa3.bitword_bitWord_FromStr_loop6]
    simp only [Int.ofNat_lt, hjm, decide_true, ↓reduceIte, e1, e2, e3, e4, e5, e6, e7, FromStr_andU8_eq, e9, Option.bind_some, e8]
    rw [ih]
    simp only [List.range'_succ, List.map_cons, List.append_assoc, List.cons_append, List.nil_append]

theorem FromStr_outer (fuel n m : Nat) (bc : Int) (mask : Nat) (s : List Nat) (hnm : n * m = 8)
    (hlen : s.length < 2^32) (hfuel : m + 1 ≤ fuel) :
    ∀ (rest : List Nat) (i gas : Nat) (pre : List Nat), rest = s.drop i → rest.length + 1 ≤ gas →
      pre.length = i * m →
      Gen.Ssa3.bitword_bitWord_FromStr_loop3 fuel (n : Int) bc mask s (m : Int) (s.length : Int) gas (i : Int)
          (pre ++ List.replicate (rest.length * m) 0)
        = some (pre ++ rest.flatMap fun b => (List.range m).map fun j => (b >>> (8 - n * j - n)) &&& mask)
  | [], i, gas, pre, hr, hg, hp => by
    obtain ⟨g, rfl⟩ : ∃ g, gas = g + 1 := ⟨gas - 1, by omega⟩
    have hil : ¬ ((i : Int) < (s.length : Int)) := by have := drop_eq_nil_le hr; omega
    rw [Gen.Ssa3.bitword_bitWord_FromStr_loop3]
    simp only [hil, decide_false, Bool.false_eq_true, ↓reduceIte, List.length_nil, Nat.zero_mul, List.replicate_zero,
      List.flatMap_nil]
  | b :: r, i, gas, pre, hr, hg, hp => by
    obtain ⟨g, rfl⟩ : ∃ g, gas = g + 1 := ⟨gas - 1, by omega⟩
    have hil : i < s.length := drop_eq_cons_lt hr
    have hb : s[i]? = some b := getElem?_of_drop_eq_cons hr
    have hz : (r.length + 1) * m = m + r.length * m := by rw [Nat.succ_mul]; omega
    have hin := FromStr_inner fuel n m bc mask s b i
      (Gen.Ssa3.bitword_bitWord_FromStr_loop3 fuel (n : Int) bc mask s (m : Int) (s.length : Int) g)
      hnm (by omega) m 0 fuel pre (r.length * m) (by omega) (by omega) (by omega) (by omega)
    have ih := FromStr_outer fuel n m bc mask s hnm hlen hfuel r (i + 1) g
      (pre ++ (List.range' 0 m).map fun j => (b >>> (8 - n * j - n)) &&& mask)
      (drop_succ_of_drop_eq_cons hr) (by simp only [List.length_cons] at hg; omega)
      (by simp only [List.length_append, List.length_map, List.length_range', hp, Nat.succ_mul])
    rw [Gen.Ssa3.bitword_bitWord_FromStr_loop3]
    simp only [Int.ofNat_lt, hil, decide_true, ↓reduceIte, index_ofNat, hb, Option.bind_some, List.length_cons, hz,
      Int.natCast_zero] at hin ⊢
    rw [hin, ih]
    simp only [List.flatMap_cons, List.range_eq_range', List.append_assoc]

theorem FromStr_main (fuel n m : Nat) (s : List Nat) (hnm : n * m = 8) (hlen : s.length < 2^32)
    (hfuel : s.length + 9 ≤ fuel) :
    Gen.Ssa3.bitword_bitWord_FromStr fuel (n : Int) (m : Int) (bwWordMask n) s
      = some (s.flatMap fun b => (List.range m).map fun j => (b >>> (8 - n * j - n)) &&& bwWordMask n) := by
  have hm8 : m ≤ 8 := Nat.le_of_dvd (by omega) ⟨n, by rw [Nat.mul_comm]; exact hnm.symm⟩
  have hsm : s.length * m ≤ s.length * 8 := Nat.mul_le_mul_left _ hm8
  have e1 : mulI64 (s.length : Int) (m : Int) = ((s.length * m : Nat) : Int) := FromStr_mulI64_ofNat (by omega)
  have h := FromStr_outer fuel n m (m : Int) (bwWordMask n) s hnm hlen (by omega) s 0 fuel [] (by simp) (by omega)
    (by simp)
  rw [Gen.Ssa3.bitword_bitWord_FromStr]
  simp only [len_eq, e1, makeSlice_ofNat, Option.bind_some]
  simp only [List.nil_append, Int.natCast_zero] at h
  rw [h]

/-- Domain: `n ∈ {1,2,4,8}` (the widths `newBW` accepts; the fields are `width = n`, `byteCap = 8/n`,
    `wordMask = bwWordMask n`), `s` any string shorter than `2^32` bytes (`hlen`: the `int` products `len(s)*byteCap`
    and `i*byteCap` do not wrap; NO hypothesis on the bytes: the generated `>>`/`&` on `byte` do not truncate, neither
    does the model).  Fuel: every `fuel ≥ len(s) + 9` (the outer loop needs `len(s) + 1` iterations of gas, each instance
    of the inner loop `8/n + 1 ≤ 9`).  The Go function cannot panic on this domain: the result is `some`. -/
theorem Tie_bitword_bitWord_FromStr (n : Nat) (s : List Nat) (fuel : Nat) (hn : n = 1 ∨ n = 2 ∨ n = 4 ∨ n = 8)
    (hlen : s.length < 2^32) (hfuel : s.length + 9 ≤ fuel) :
    Gen.Ssa3.bitword_bitWord_FromStr fuel (n : Int) ((8 / n : Nat) : Int) (bwWordMask n) s = some (bwFromStr n s) := by
  have hnm : n * (8 / n) = 8 := by rcases hn with h | h | h | h <;> subst h <;> rfl
  rw [FromStr_main fuel n (8 / n) s hnm hlen hfuel, bwFromStr]

example : Gen.Ssa3.bitword_bitWord_FromStr 11 2 4 3 [0x1b, 0xe4] = some [0, 1, 2, 3, 3, 2, 1, 0] := by decide
example : bwFromStr 2 [0x1b, 0xe4] = [0, 1, 2, 3, 3, 2, 1, 0] := by decide
example : Gen.Ssa3.bitword_bitWord_FromStr 10 4 2 15 [0x1b] = some [1, 11] := by decide
example : Gen.Ssa3.bitword_bitWord_FromStr 10 8 1 255 [0x1b, 7] = some [0x1b, 7] := by decide
-- out of fuel: the outer loop needs 3 iterations of gas (the inner loop 5)
example : Gen.Ssa3.bitword_bitWord_FromStr 2 2 4 3 [0x1b, 0xe4] = none := by decide
-- out of fuel in the inner loop (needs 9 for n = 1)
example : Gen.Ssa3.bitword_bitWord_FromStr 8 1 8 1 [0x1b] = none := by decide

end Low
