import Generated.Ssa3.bitmap_Of
import LowModel.Bitmap.Of
import LowProofs.Tie3.Lemmas
/-
  Tie: the definition regenerated from the SSA form of `bitmap.Of` (computes a word count in int32, allocates
  `words := make([]uint64, nWords)` and ORs one bit per position into it: `words[i>>6] |= 1 << uint(i&63)`) equals the
  hand-written model `bmOf`.  The generated loop `bitmap_Of_loop8` is a `range` loop: it carries the index (starting
  at -1) and the CONTENTS of the allocated slice; the model's `orBits` recurses over the list of positions.
  `Of_loop` relates the two by induction on the suffix `ps.drop j`, for an arbitrary buffer.
-/
namespace Low
open Low.GoSem Low.GoSem3 Low.TieL Low.Tie2L Low.Tie3L

/-- `1 << j` on uint64 for `j < 64` -/
theorem shlU64_one {j : Nat} (h : j < 64) : shlU64 1 j = 2 ^ j := by
  rw [shlU64, shl64, if_pos h, Nat.one_shiftLeft]
  apply Nat.mod_eq_of_lt
  have : (2 : Nat) ^ j < 2 ^ 64 := Nat.pow_lt_pow_right (by omega) h
  simpa [M64] using this

/-- a negative position makes the model panic wherever it stands -/
theorem orBits_neg : ∀ (ps : List Int) (ws : List Nat), (∃ p ∈ ps, p < 0) → orBits ws ps = none
  | [], _, h => by obtain ⟨p, hp, _⟩ := h; cases hp
  | q :: r, ws, h => by
    rw [orBits]
    by_cases hq : q < 0
    · simp [hq]
    · have hr : ∃ p ∈ r, p < 0 := by
        obtain ⟨p, hp, hneg⟩ := h
        rcases List.mem_cons.mp hp with rfl | hp
        · exact absurd hneg hq
        · exact ⟨p, hp, hneg⟩
      simp only [hq, ↓reduceIte]
      cases orBit ws q.toNat with
      | none => rfl
      | some ws' => exact orBits_neg r ws' hr

/-- the loop, about to read position `j` (the `range` index is `j - 1`), with buffer `ws` -/
theorem Of_loop (fuel : Nat) (ps opts : List Int) (hlen : ps.length < 2^63) :
    ∀ (rest : List Int) (j gas : Nat) (ws : List Nat), rest = ps.drop j → j ≤ ps.length → rest.length + 1 ≤ gas →
      Gen.Ssa3.bitmap_Of_loop8 fuel ps opts (ps.length : Int) gas ((j : Int) - 1) ws = orBits ws rest
  | [], j, gas, ws, hr, hj, hg => by
    obtain ⟨g, rfl⟩ : ∃ g, gas = g + 1 := ⟨gas - 1, by omega⟩
    have hjl : ps.length ≤ j := drop_eq_nil_le hr
    have e1 : addI64 ((j : Int) - 1) 1 = (j : Int) := by
      rw [addI64]; exact (wrap64_id (by omega) (by omega)).trans (by omega)
    have hlt : ¬ (j < ps.length) := by omega
    rw [Gen.Ssa3.bitmap_Of_loop8, orBits]
    simp only [e1, Int.ofNat_lt, hlt, decide_false, Bool.false_eq_true, ↓reduceIte]
  | p :: r, j, gas, ws, hr, hj, hg => by
    obtain ⟨g, rfl⟩ : ∃ g, gas = g + 1 := ⟨gas - 1, by omega⟩
    have hjl : j < ps.length := drop_eq_cons_lt hr
    have hp : ps[j]? = some p := getElem?_of_drop_eq_cons hr
    have e1 : addI64 ((j : Int) - 1) 1 = (j : Int) := by
      rw [addI64]; exact (wrap64_id (by omega) (by omega)).trans (by omega)
    have ih : ∀ ws', Gen.Ssa3.bitmap_Of_loop8 fuel ps opts (ps.length : Int) g (j : Int) ws' = orBits ws' r := by
      intro ws'
      have := Of_loop fuel ps opts hlen r (j + 1) g ws' (drop_succ_of_drop_eq_cons hr) (by omega)
        (by simp only [List.length_cons] at hg; omega)
      rwa [show ((j + 1 : Nat) : Int) - 1 = (j : Int) by omega] at this
    rw [Gen.Ssa3.bitmap_Of_loop8, orBits]
    simp only [e1, Int.ofNat_lt, hjl, decide_true, ↓reduceIte, index_ofNat, hp, Option.bind_some, shrI32_6, andI32_63]
    by_cases hneg : p < 0
    · have h64 : p / 64 < 0 := by omega
      simp only [index_neg _ h64, Option.bind_none, hneg, ↓reduceIte]
    · obtain ⟨m, rfl⟩ := Int.eq_ofNat_of_zero_le (by omega : 0 ≤ p)
      have e3 : (m : Int) / 64 = ((m / 64 : Nat) : Int) := by omega
      have e4 : (m : Int) % 64 = ((m % 64 : Nat) : Int) := by omega
      have hm : m % 64 < 64 := Nat.mod_lt _ (by omega)
      have e5 : toU64 ((m % 64 : Nat) : Int) = m % 64 := toU64_ofNat_lt (by omega)
      simp only [e3, e4, e5, shlU64_one hm, index_ofNat, hneg, ↓reduceIte, Int.toNat_natCast, orBit, orU64_eq]
      cases hw : ws[m / 64]? with
      | none => simp only [Option.bind_none]
      | some w =>
        have hwl : m / 64 < ws.length := (List.getElem?_eq_some_iff.mp hw).1
        simp only [Option.bind_some, setIdx_ofNat ws _ hwl, ih]

/-- the whole loop: `for _, i := range bitPositions { … }` on the buffer `ws` -/
theorem Of_loop0 (fuel : Nat) (ps opts : List Int) (hlen : ps.length < 2^63) (hfuel : ps.length + 1 ≤ fuel)
    (ws : List Nat) :
    Gen.Ssa3.bitmap_Of_loop8 fuel ps opts (len ps) fuel (-1) ws = orBits ws ps := by
  have := Of_loop fuel ps opts hlen ps 0 fuel ws (by simp) (by omega) (by omega)
  simpa [len_eq] using this

/-! The straight-line part of the generated definition, block by block (`ofA` = block 7 with the loop replaced by
    `orBits`, `ofB` = block 4, `ofC` = block 2). -/

/-- `nWords := (n + 63) >> 6; words := make([]uint64, nWords); for … ` -/
def ofA (ps : List Int) (n : Int) : Option (List Nat) :=
  (makeSlice (0 : Nat) (shrI32 (addI32 n 63) 6)).bind (fun ws => orBits ws ps)

/-- `if n < 0 { n = 0 }; …` -/
def ofB (ps : List Int) (n : Int) : Option (List Nat) :=
  if decide (n < 0) = true then ofA ps 0 else ofA ps n

/-- `if len(bitPositions) > 0 { max := bitPositions[len-1] + 1; if n < max { n = max } }; …` -/
def ofC (ps : List Int) (n : Int) : Option (List Nat) :=
  if decide (len ps > 0) = true then
    (index ps (subI64 (len ps) 1)).bind (fun l =>
      if decide (n < addI32 l 1) = true then ofB ps (addI32 l 1) else ofB ps n)
  else ofB ps n

theorem ofA_eq (ps : List Int) (n : Int) (h0 : 0 ≤ n) (h1 : n < 2^31 - 63) :
    ofA ps n = orBits (zeros ((n + 63) / 64).toNat) ps := by
  have e1 : addI32 n 63 = n + 63 := by rw [addI32]; exact wrap32_id (by omega) (by omega)
  rw [ofA, e1, shrI32_6, makeSlice_toNat _ (by omega)]
  rfl

theorem ofB_eq (ps : List Int) (n : Int) (h1 : n < 2^31 - 63) :
    ofB ps n = orBits (zeros (((if n < 0 then 0 else n) + 63) / 64).toNat) ps := by
  rw [ofB]
  by_cases h : n < 0
  · simp only [h, decide_true, ↓reduceIte]; exact ofA_eq ps 0 (by omega) (by omega)
  · simp only [h, decide_false, Bool.false_eq_true, ↓reduceIte]; exact ofA_eq ps n (by omega) h1

theorem ofB_neg (ps : List Int) (n : Int) (hneg : ∃ p ∈ ps, p < 0) : ofB ps n = none := by
  have hA : ∀ m, ofA ps m = none := by
    intro m
    rw [ofA]
    cases makeSlice (0 : Nat) (shrI32 (addI32 m 63) 6) with
    | none => rfl
    | some ws => exact orBits_neg ps ws hneg
  rw [ofB, hA, hA]; simp

theorem ofC_eq (ps : List Int) (n : Int) (hlen : ps.length < 2^63)
    (hlast : ∀ l, ps.getLast? = some l → l < 2^31 - 64) (hn : n < 2^31 - 63) :
    ofC ps n = bmOf ps (some n) := by
  rw [ofC, bmOf]
  cases hl : ps.getLast? with
  | none =>
    have hnil : ps = [] := List.getLast?_eq_none_iff.mp hl
    subst hnil
    simp only [len_eq, List.length_nil, Int.natCast_zero, Int.lt_irrefl, gt_iff_lt, decide_false, Bool.false_eq_true,
      ↓reduceIte, Option.getD_some]
    exact ofB_eq [] n hn
  | some l =>
    have hne : ps ≠ [] := by intro h; rw [h] at hl; cases hl
    have hpos : 0 < ps.length := List.length_pos_iff.mpr hne
    have hposI : (ps.length : Int) > 0 := by omega
    have e1 : subI64 (ps.length : Int) 1 = ((ps.length - 1 : Nat) : Int) := subI64_ofNat (a := ps.length) (b := 1) (by omega) (by omega)
    have hidx : ps[ps.length - 1]? = some l := by rw [← List.getLast?_eq_getElem?]; exact hl
    have hl1 := hlast l hl
    simp only [len_eq, hposI, decide_true, ↓reduceIte, e1, index_ofNat, hidx, Option.bind_some, Option.getD_some]
    by_cases hneg : l < 0
    · have hex : ∃ p ∈ ps, p < 0 := ⟨l, List.mem_of_getElem? hidx, hneg⟩
      rw [ofB_neg ps _ hex, ofB_neg ps _ hex, orBits_neg ps _ hex]; simp
    · have e2 : addI32 l 1 = l + 1 := by rw [addI32]; exact wrap32_id (by omega) (by omega)
      rw [e2]
      by_cases hlt : n < l + 1
      · simp only [hlt, decide_true, ↓reduceIte]; exact ofB_eq ps (l + 1) (by omega)
      · simp only [hlt, decide_false, Bool.false_eq_true, ↓reduceIte]; exact ofB_eq ps n hn

/-- Domain.  `bitPositions` and `opts` are slices of int32; the proof needs less than that, namely
    * `ps.length < 2^63` (a Go length fits an `int`),
    * the LAST position is `< 2^31 - 64` (hypothesis `hlast`) and `opts[0]`, if present, is `≤ 2^31 - 64` (`hopt`):
      the Go code computes `bitPositions[last] + 1` and `(n + 63) >> 6` in int32, the model in unbounded integers.
      Beyond these bounds the two DIFFER (outside the documented domain): for `2^31 - 64 < n ≤ 2^31 - 1` the int32 sum
      `n + 63` wraps to a negative number and `make` panics (`none`), and for a last position `2^31 - 1` the sum
      `+ 1` wraps to `-2^31` and is ignored, whereas the model allocates `2^25` words and may return a bitmap.
    No other hypothesis: positions need not be ascending, non-negative or in int32 range (`i >> 6` and `i & 63` are
    the floor division and the Euclidean remainder on both sides); a negative position, or one beyond the
    allocated words (possible when the positions are not ascending), panics on both sides (`none`); `opts[0]` may be
    negative (then it counts as 0); only `opts[0]` is read.
    Fuel: every `fuel ≥ len(bitPositions) + 1`. -/
theorem Tie_bitmap_Of (ps : List Int) (opts : List Int) (fuel : Nat) (hlen : ps.length < 2^63)
    (hlast : ∀ l, ps.getLast? = some l → l < 2^31 - 64) (hopt : ∀ n, opts.head? = some n → n < 2^31 - 63)
    (hfuel : ps.length + 1 ≤ fuel) :
    Gen.Ssa3.bitmap_Of fuel ps opts = bmOf ps opts.head? := by
  have hcode : Gen.Ssa3.bitmap_Of fuel ps opts
      = if decide (len opts > 0) = true then (index opts 0).bind (fun t2 => ofC ps t2) else ofC ps 0 := by
    rw [Gen.Ssa3.bitmap_Of]
    simp only [Of_loop0 fuel ps opts hlen hfuel]
    rfl
  rw [hcode]
  cases opts with
  | nil =>
    simp only [len_eq, List.length_nil, Int.natCast_zero, Int.lt_irrefl, gt_iff_lt, decide_false, Bool.false_eq_true,
      ↓reduceIte, List.head?_nil]
    rw [ofC_eq ps 0 hlen hlast (by omega)]
    rfl
  | cons a rest =>
    have hpos : ((rest.length + 1 : Nat) : Int) > 0 := by omega
    have hidx : index (a :: rest) 0 = some a := by unfold index; simp
    simp only [len_eq, List.length_cons, hpos, decide_true, ↓reduceIte, hidx, Option.bind_some, List.head?_cons]
    exact ofC_eq ps a hlen hlast (hopt a rfl)

/-- the same under element-wise bounds (every position `< 2^31 - 64`, every option `≤ 2^31 - 64`) -/
theorem Tie_bitmap_Of_all (ps : List Int) (opts : List Int) (fuel : Nat) (hlen : ps.length < 2^63)
    (hps : ∀ p ∈ ps, p < 2^31 - 64) (hopts : ∀ n ∈ opts, n < 2^31 - 63) (hfuel : ps.length + 1 ≤ fuel) :
    Gen.Ssa3.bitmap_Of fuel ps opts = bmOf ps opts.head? :=
  Tie_bitmap_Of ps opts fuel hlen (fun l hl => hps l (List.mem_of_getLast? hl))
    (fun n hn => hopts n (List.mem_of_head? hn)) hfuel

example : Gen.Ssa3.bitmap_Of 4 [1, 3, 64] [] = some [10, 1] := by decide
example : bmOf [1, 3, 64] none = some [10, 1] := by decide
example : Gen.Ssa3.bitmap_Of 4 [1, 3, 64] [200] = some [10, 1, 0, 0] := by decide
-- a negative position, a position beyond the allocated words (not ascending): panic
example : Gen.Ssa3.bitmap_Of 4 [-1, 3, 64] [] = none := by decide
example : Gen.Ssa3.bitmap_Of 4 [1, 300, 64] [] = none := by decide
example : bmOf [1, 300, 64] none = none := by decide
-- out of fuel
example : Gen.Ssa3.bitmap_Of 3 [1, 3, 64] [] = none := by decide

end Low
