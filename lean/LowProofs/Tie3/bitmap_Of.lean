import Generated.Ssa3.bitmap_Of
import LowModel.Bitmap.Of
import LowProofs.Tie3.Lemmas
/-
  Tie: the definition regenerated from the SSA form of `bitmap.Of` (computes a word count in int32, allocates
  `words := make([]uint64, nWords)` and ORs one bit per position into it: `words[i>>6] |= 1 << uint(i&63)`) equals the
  hand-written model `bmOf`.  The generated loop `bitmap_Of_loop8` is a `range` loop: it carries the index (starting
  at -1) and the CONTENTS of the allocated slice; the model's `orBits` recurses over the list of positions.
  `Of_loop` relates the two by induction on the suffix `ps.drop j`, for an arbitrary buffer.
-/
namespace Low
open Low.GoSem Low.GoSem3 Low.TieL Low.Tie2L Low.Tie3L

/-- `1 << j` on uint64 for `j < 64` -/
theorem shlU64_one {j : Nat} (h : j < 64) : shlU64 1 j = 2 ^ j := by
  rw [shlU64, shl64, if_pos h, Nat.one_shiftLeft]
  apply Nat.mod_eq_of_lt
  have : (2 : Nat) ^ j < 2 ^ 64 := Nat.pow_lt_pow_right (by omega) h
  simpa [M64] using this

/-- a negative position makes the model panic wherever it stands -/
theorem orBits_neg : ∀ (ps : List Int) (ws : List Nat), (∃ p ∈ ps, p < 0) → orBits ws ps = none
  | [], _, h => by obtain ⟨p, hp, _⟩ := h; cases hp
  | q :: r, ws, h => by
    rw [orBits]
    by_cases hq : q < 0
    · simp [hq]
    · have hr : ∃ p ∈ r, p < 0 := by
        obtain ⟨p, hp, hneg⟩ := h
        rcases List.mem_cons.mp hp with rfl | hp
        · exact absurd hneg hq
        · exact ⟨p, hp, hneg⟩
      simp only [hq, ↓reduceIte]
      cases orBit ws q.toNat with
      | none => rfl
      | some ws' => exact orBits_neg r ws' hr

/-- the loop, about to read position `j` (the `range` index is `j - 1`), with buffer `ws` -/
theorem Of_loop (fuel : Nat) (ps opts : List Int) (hlen : ps.length < 2^63) :
    ∀ (rest : List Int) (j gas : Nat) (ws : List Nat), rest = ps.drop j → j ≤ ps.length → rest.length + 1 ≤ gas →
      Gen.Ssa3.bitmap_Of_loop8 fuel ps opts (ps.length : Int) gas ((j : Int) - 1) ws = orBits ws rest
  | [], j, gas, ws, hr, hj, hg => by
    obtain ⟨g, rfl⟩ : ∃ g, gas = g + 1 := ⟨gas - 1, by omega⟩
    have hjl : ps.length ≤ j := drop_eq_nil_le hr
    have e1 : addI64 ((j : Int) - 1) 1 = (j : Int) := by
      rw [addI64]; exact (wrap64_id (by omega) (by omega)).trans (by omega)
    have hlt : ¬ (j < ps.length) := by omega
    rw [Gen.Ssa3.bitmap_Of_loop8, orBits]
    simp only [e1, Int.ofNat_lt, hlt, decide_false, Bool.false_eq_true, ↓reduceIte]
  | p :: r, j, gas, ws, hr, hj, hg => by
    obtain ⟨g, rfl⟩ : ∃ g, gas = g + 1 := ⟨gas - 1, by omega⟩
    have hjl : j < ps.length := drop_eq_cons_lt hr
    have hp : ps[j]? = some p := getElem?_of_drop_eq_cons hr
    have e1 : addI64 ((j : Int) - 1) 1 = (j : Int) := by
      rw [addI64]; exact (wrap64_id (by omega) (by omega)).trans (by omega)
    have ih : ∀ ws', Gen.Ssa3.bitmap_Of_loop8 fuel ps opts (ps.length : Int) g (j : Int) ws' = orBits ws' r := by
      intro ws'
      have := Of_loop fuel ps opts hlen r (j + 1) g ws' (drop_succ_of_drop_eq_cons hr) (by omega)
        (by simp only [List.length_cons] at hg; omega)
      rwa [show ((j + 1 : Nat) : Int) - 1 = (j : Int) by omega] at this
    rw [Gen.Ssa3.bitmap_Of_loop8, orBits]
    simp only [e1, Int.ofNat_lt, hjl, decide_true, ↓reduceIte, index_ofNat, hp, Option.bind_some, shrI32_6, andI32_63]
    by_cases hneg : p < 0
    · have h64 : p / 64 < 0 := by omega
      simp only [index_neg _ h64, Option.bind_none, hneg, ↓reduceIte]
    · obtain ⟨m, rfl⟩ := Int.eq_ofNat_of_zero_le (by omega : 0 ≤ p)
      have e3 : (m : Int) / 64 = ((m / 64 : Nat) : Int) := by omega
      have e4 : (m : Int) % 64 = ((m % 64 : Nat) : Int) := by omega
      have hm : m % 64 < 64 := Nat.mod_lt _ (by omega)
      have e5 : toU64 ((m % 64 : Nat) : Int) = m % 64 := toU64_ofNat_lt (by omega)
      simp only [e3, e4, e5, shlU64_one hm, index_ofNat, hneg, ↓reduceIte, Int.toNat_natCast, orBit, orU64_eq]
      cases hw : ws[m / 64]? with
      | none => simp only [Option.bind_none]
      | some w =>
        have hwl : m / 64 < ws.length := (List.getElem?_eq_some_iff.mp hw).1
        simp only [Option.bind_some, setIdx_ofNat ws _ hwl, ih]

end Low
