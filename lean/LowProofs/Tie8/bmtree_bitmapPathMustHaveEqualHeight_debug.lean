import Generated.Ssa8.bmtree_bitmapPathMustHaveEqualHeight_debug
import LowModel.Bmtree.Index
import LowProofs.Tie8.bmtree_Height_debug
import LowProofs.Tie8.bmtree_PathHeight_debug
import LowProofs.Tie8.bmtree_bitmapSizeCheck_debug
import LowProofs.Tie8.bmtree_pathCheck_debug
/-
  Tie: the definition regenerated from the SSA form of `bmtree.bitmapPathMustHaveEqualHeight` in the `-tags debug`
  build (calls of `bitmapSizeCheck` and `pathCheck`, then — unless the mask half of the path word is zero —
  `must.Be.Equal(Height(bitmapSize), PathHeight(path), "bitmap height == path height")`) equals the model contract
  `bitmapPathMustHaveEqualHeight`.
-/
namespace Low
open Low.GoSem Low.GoSem8 Low.TieL Low.Tie8L

/-- Domain: `bitmapSize` a non-negative `int32` (`t < 2^31`, `t = 0` included), `path < 2^64`; no contract is
    assumed: the tie covers accepted and rejected arguments. -/
theorem Tie_bmtree_bitmapPathMustHaveEqualHeight_debug (t path : Nat) (ht' : t < 2^31) (hp : path < 2^64) :
    Gen.Ssa8.bmtree_bitmapPathMustHaveEqualHeight_debug (t : Int) path
      = chk (bitmapPathMustHaveEqualHeight t path) := by
  rw [Gen.Ssa8.bmtree_bitmapPathMustHaveEqualHeight_debug, bitmapPathMustHaveEqualHeight,
    Tie_bmtree_bitmapSizeCheck_debug t ht', Tie_bmtree_pathCheck_debug path hp, Bool.and_assoc]
  simp only [toU32, u32_ofNat, Tie_bmtree_Height_debug, Tie_bmtree_PathHeight_debug, mustEqual_int32]
  apply chk_bind
  apply chk_bind
  by_cases h0 : path % M32 = 0
  · simp only [h0, ne_eq, not_true_eq_false, decide_false, Bool.false_eq_true, ↓reduceIte, chk_true]
  · simp only [h0, ne_eq, not_false_eq_true, decide_true, ↓reduceIte, chk_bind_some]

example : Gen.Ssa8.bmtree_bitmapPathMustHaveEqualHeight_debug 0x72 0x28_0000003c = some () := by decide
example : bitmapPathMustHaveEqualHeight 0x72 0x28_0000003c = true := by decide
-- the empty path has no height: accepted for every bitmap
example : Gen.Ssa8.bmtree_bitmapPathMustHaveEqualHeight_debug 0x72 0 = some () := by decide
-- a path of another height
example : Gen.Ssa8.bmtree_bitmapPathMustHaveEqualHeight_debug 0x72 0xa_0000000e = none := by decide
example : bitmapPathMustHaveEqualHeight 0x72 0xa_0000000e = false := by decide

end Low
