import Generated.Ssa8.bmtree_pathCheck_debug
import LowModel.Bmtree.Index
import LowProofs.Tie8.Lemmas
/-
  Tie: the definition regenerated from the SSA form of `bmtree.pathCheck` in the `-tags debug` build (three
  `must.Be.Equal` checks, the last two skipped when the mask half of the path word is zero) equals the model contract
  `pathCheck`.
-/
namespace Low
open Low.GoSem Low.GoSem8 Low.TieL Low.Tie8L

namespace Tie8PC

/-- `^x` on `uint32` is the low half of `^x` on `uint64` -/
theorem not64_mod (x : Nat) (hx : x < M32) : (not64 x) % M32 = (M32 - 1) ^^^ x := by
  have e64 : M64 - 1 = 2^64 - 1 := by decide
  have e32 : M32 - 1 = 2^32 - 1 := by decide
  have e : M32 = 2^32 := by decide
  rw [not64, e64, e32, e]
  apply Nat.eq_of_testBit_eq; intro i
  rw [Nat.testBit_mod_two_pow, Nat.testBit_xor, Nat.testBit_xor, Nat.testBit_two_pow_sub_one,
    Nat.testBit_two_pow_sub_one]
  by_cases hi : i < 32
  · have : i < 64 := by omega
    simp [hi, this]
  · have : x.testBit i = false := Nat.testBit_lt_two_pow (Nat.lt_of_lt_of_le (e ▸ hx) (Nat.pow_le_pow_right (by omega) (by omega)))
    simp [hi, this]

end Tie8PC
open Tie8PC

/-- Domain: `path < 2^64` (a `uint64`; used for `path - 1` without wrap-around when the mask half is non-zero, and
    for `uint32(path >> 32) = path >> 32`).  No other hypothesis: the tie covers accepted and rejected path words. -/
theorem Tie_bmtree_pathCheck_debug (path : Nat) (hp : path < 2^64) :
    Gen.Ssa8.bmtree_pathCheck_debug path = chk (pathCheck path) := by
  have hl : lz (path % M32) 32 ≤ 32 := lz_le _ _
  have hpc : popc ((path ||| (path - 1)) % M32) 32 ≤ 32 := popc_le _ _
  have hb : path >>> 32 < M32 := by rw [Nat.shiftRight_eq_div_pow]; simp only [M32]; omega
  rw [Gen.Ssa8.bmtree_pathCheck_debug, pathCheck]
  simp only [toU32, u32_ofNat, andU64_eq, mustEqual_uint64, shrU64_lt path (show 32 < 64 by omega),
    Nat.mod_eq_of_lt hb, orU64_eq, leadingZeros32, onesCount32, notU32, andU32]
  refine chk_bind' ?_ ?_
  rotate_left
  · by_cases h0 : path % M32 = 0
    · simp only [h0, decide_true, ↓reduceIte, chk_true]
    · have hne : path ≠ 0 := by intro h; rw [h] at h0; exact h0 rfl
      have hs : subU64 path 1 = path - 1 := by rw [subU64, sub64]; simp only [M64]; omega
      simp only [h0, decide_false, Bool.false_eq_true, ↓reduceIte, hs, mustEqual_int, mustEqual_uint32]
      generalize lz (path % M32) 32 = l at hl
      generalize popc ((path ||| (path - 1)) % M32) 32 = c at hpc
      rw [subI64, wrap64_id (by omega) (by omega), ← not64_mod _ (Nat.mod_lt _ (by decide))]
      refine chk_bind' ?_ ?_
      rotate_left
      · rw [chk_bind_some]
        apply congrArg chk
        generalize not64 (path % M32) % M32 &&& path >>> 32 = z
        by_cases hz : z = 0
        · subst hz; rfl
        · have : ¬ (0 = z) := fun h => hz h.symm
          simp [hz, this]
      · by_cases hc : 32 - l = c
        · have : (32 : Int) - (l : Int) = (c : Int) := by omega
          simp [hc, this]
        · have : ¬ ((32 : Int) - (l : Int) = (c : Int)) := by omega
          simp [hc, this]
  · generalize path &&& 13835058058503389184 = z
    by_cases hz : z = 0
    · subst hz; rfl
    · have : ¬ (0 = z) := fun h => hz h.symm
      simp [hz, this]

example : Gen.Ssa8.bmtree_pathCheck_debug 0xa_0000000e = some () := by decide
example : pathCheck 0xa_0000000e = true := by decide
-- the empty path
example : Gen.Ssa8.bmtree_pathCheck_debug 0 = some () := by decide
-- a mask that is not a run of ones; path bits outside the mask; more than 30 bits
example : Gen.Ssa8.bmtree_pathCheck_debug 0x0_0000000a = none := by decide
example : Gen.Ssa8.bmtree_pathCheck_debug 0x1_0000000e = none := by decide
example : Gen.Ssa8.bmtree_pathCheck_debug 0x0_40000000 = none := by decide
example : pathCheck 0x1_0000000e = false := by decide

end Low
