import Generated.Ssa8.bmtree_PathToIndex_debug
import LowModel.Bmtree.Index
import LowProofs.Tie8.bmtree_Height_debug
import LowProofs.Tie8.bmtree_PathLen_debug
import LowProofs.Tie8.bmtree_shiftMulti_debug
import LowProofs.Tie8.bmtree_bitmapMustHaveLevel_debug
import LowProofs.Tie8.bmtree_bitmapPathMustHaveEqualHeight_debug
/-
  Tie: the definition regenerated from the SSA form of `bmtree.PathToIndex` in the `-tags debug` build equals the
  model's `pathToIndexDebug`: the closure handed to `must.Be.OK` is CALLED first (generated definition
  `bmtree_PathToIndex_debug_fn1`: `bitmapSizeCheck`, `pathCheck`, `bitmapPathMustHaveEqualHeight`,
  `bitmapMustHaveLevel(bitmapSize, PathLen(path))`, in this order, reading the captured parameters), then the function
  computes exactly as in the release build.  `Tie8PI` repeats the four helper lemmas of `Low.Tie2PI`
  (`LowProofs/Tie2/bmtree_PathToIndex`), so that nothing here rests on a definition regenerated from the release build.
-/
namespace Low
open Low.GoSem Low.GoSem8 Low.TieL Low.Tie2L Low.Tie8L

namespace Tie8PI

theorem bitLen_pos {w : Nat} (h0 : w ≠ 0) : ∀ n, w < 2^n → 1 ≤ bitLen w n
  | 0, h => by simp at h; omega
  | n+1, h => by
    simp only [bitLen]
    split
    · omega
    · rename_i hb
      have hb' : w.testBit n = false := Bool.eq_false_iff.mpr hb
      have : w < 2^n := by
        apply Nat.lt_pow_two_of_testBit
        intro i hi
        by_cases he : i = n
        · subst he; exact hb'
        · exact Nat.testBit_lt_two_pow (Nat.lt_of_lt_of_le h (Nat.pow_le_pow_right (by omega) (by omega)))
      exact bitLen_pos h0 n this

/-- for `1 ≤ t < 2^31` the height is a natural number `≤ 31` -/
theorem height_nat {t : Nat} (ht : 1 ≤ t) (ht' : t < 2^31) : ∃ h : Nat, height t = (h : Int) ∧ h ≤ 31 := by
  have hm : t % M32 = t := Nat.mod_eq_of_lt (by simp only [M32]; omega)
  have h1 := bitLen_pos (w := t) (by omega) 32 (by omega)
  have h2 := bitLen_le t 32
  refine ⟨bitLen t 32 - 1, ?_, by omega⟩
  simp only [height, lz, hm]; omega

theorem toU64_popc64 (w : Nat) : toU64 (onesCount64 w) = popc w 64 := by
  rw [onesCount64]; exact toU64_ofNat_lt (by have := popc_le w 64; omega)

theorem xorU64_eq (x y : Nat) : xorU64 x y = x ^^^ y := by rw [xorU64]

/-- `int32` subtraction after an `int32` addition: one reduction at the end is enough -/
theorem wrap32_wrap32_sub (a b : Int) : wrap32 (wrap32 a - b) = wrap32 (a - b) := by
  unfold wrap32; simp only [M32]; omega

/-- a bitmap size that passes `bitmapSizeCheck` is positive -/
theorem pos_of_sizeCheck {t : Nat} (h : bitmapSizeCheck t = true) : 1 ≤ t := by
  simp only [bitmapSizeCheck, Bool.and_eq_true, decide_eq_true_eq] at h
  have := h.2
  simp only [ne_eq] at this
  omega

end Tie8PI
open Tie8PI

/-- the closure of `PathToIndex` (the argument of `must.Be.OK`) is the model's `contractsStrict` -/
theorem PathToIndex_debug_fn1 (t path : Nat) (ht' : t < 2^31) (hp : path < 2^64) :
    Gen.Ssa8.bmtree_PathToIndex_debug_fn1 (t : Int) path = chk (contractsStrict t path) := by
  have hpl : pathLen path ≤ 32 := popc_le _ _
  rw [Gen.Ssa8.bmtree_PathToIndex_debug_fn1, contractsStrict, contractsLoose]
  simp only [Tie_bmtree_bitmapSizeCheck_debug t ht', Tie_bmtree_pathCheck_debug path hp,
    Tie_bmtree_bitmapPathMustHaveEqualHeight_debug t path ht' hp, Tie_bmtree_PathLen_debug,
    Tie_bmtree_bitmapMustHaveLevel_debug t (pathLen path) (by omega), Bool.and_assoc]
  apply chk_bind
  apply chk_bind
  apply chk_bind
  rw [chk_bind_some]

/-- Domain:
    * `t < 2^31`: `bitmapSize` is a NON-NEGATIVE `int32`; `t = 0` is INCLUDED, differently from the release tie
      (`Tie_bmtree_PathToIndex` needs `1 ≤ t` because the release build panics on `MaskUpto[-1]` where the total model
      returns a number): in the debug build `bitmapSizeCheck` rejects `0` first, and the model's `pathToIndexDebug`
      is `none` as well;
    * `path < 2^64`: a `uint64`.
    NO contract is assumed: on arguments that violate a contract both sides are `none` (panic), on the others both
    are `some` of the release value.
    Fuel: every `fuel ≥ 33`, as for the release build (`shiftMulti` on `b = path >> 32 < 2^32`). -/
theorem Tie_bmtree_PathToIndex_debug (t path fuel : Nat) (ht' : t < 2^31) (hp : path < 2^64)
    (hfuel : 33 ≤ fuel) :
    Gen.Ssa8.bmtree_PathToIndex_debug fuel (t : Int) path = pathToIndexDebug t path := by
  rw [Gen.Ssa8.bmtree_PathToIndex_debug, pathToIndexDebug]
  simp only [PathToIndex_debug_fn1 t path ht' hp]
  cases hc : contractsStrict t path with
  | false => simp only [chk_false, Option.bind_none, Bool.false_eq_true, ↓reduceIte]
  | true =>
    have ht : 1 ≤ t := by
      simp only [contractsStrict, contractsLoose, Bool.and_eq_true] at hc
      exact pos_of_sizeCheck hc.1.1.1
    obtain ⟨h, hh, hh31⟩ := height_nat ht ht'
    have hpl : pathLen path ≤ 32 := popc_le _ _
    have hb : path >>> 32 < 2^32 := by
      rw [Nat.shiftRight_eq_div_pow]; omega
    rw [pathToIndex, pathToIndexCore]
    simp only [chk_true, Option.bind_some, ↓reduceIte, Tie_bmtree_Height_debug, Tie_bmtree_PathLen_debug, hh,
      Int.toNat_natCast, toU64_ofNat_lt (show t < 18446744073709551616 by omega),
      toU64_ofNat_lt (show h < 18446744073709551616 by omega),
      tblMaskUpto_ofNat (show h < 64 by omega), tblBit_ofNat (show h < 64 by omega),
      tblMask_ofNat (show pathLen path < 65 by omega), decide_eq_true_eq,
      Tie_bmtree_shiftMulti_debug_bits t (path >>> 32) h fuel 32 hb (by omega) hfuel,
      shrU64_lt path (show 32 < 64 by omega), toU64_popc64, toI32_popc64, andU64_eq]
    by_cases h1 : t = maskUpto h
    · rw [if_pos h1, if_pos h1]
      simp only [xorU64_eq, subI32, addI32, shlI32, toI32, wrap32_wrap32_sub, Int.pow_one]
    · rw [if_neg h1, if_neg h1]
      by_cases h2 : t = bit h
      · rw [if_pos h2, if_pos h2, toI32]
      · rw [if_neg h2, if_neg h2, toI32, addU64]
        simp only [Bool.false_eq_true, ↓reduceIte]

-- bitmap 0b1110010 (levels 1, 4, 5, 6 of a tree of height 6), path "1010" of length 4: stored
example : Gen.Ssa8.bmtree_PathToIndex_debug 33 0x72 0x28_0000003c = some 72 := by decide
example : pathToIndexDebug 0x72 0x28_0000003c = some 72 := by decide
-- path "101" of length 3: level 3 is not stored — the release build computes a number, the debug build panics
example : Gen.Ssa8.bmtree_PathToIndex_debug 33 0x72 0x28_00000038 = none := by decide
example : pathToIndexDebug 0x72 0x28_00000038 = none := by decide
-- `bitmapSize = 0` and a path of another height: rejected by the contracts
example : Gen.Ssa8.bmtree_PathToIndex_debug 33 0 0x28_0000003c = none := by decide
example : Gen.Ssa8.bmtree_PathToIndex_debug 33 0x72 0x5_00000007 = none := by decide
-- out of fuel (32 one-bits in `path >> 32` would be needed to exhaust 32; such a path violates a contract first)
example : Gen.Ssa8.bmtree_PathToIndex_debug 2 0x75 0x3f_0000003f = none := by decide

end Low
