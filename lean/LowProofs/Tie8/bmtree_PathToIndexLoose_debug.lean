import Generated.Ssa8.bmtree_PathToIndexLoose_debug
import LowProofs.Tie8.bmtree_PathToIndex_debug
/-
  Tie: the definition regenerated from the SSA form of `bmtree.PathToIndexLoose` in the `-tags debug` build equals the
  model's `pathToIndexLooseDebug`: the closure handed to `must.Be.OK` (`bmtree_PathToIndexLoose_debug_fn1`:
  `bitmapSizeCheck`, `pathCheck`, `bitmapPathMustHaveEqualHeight`) is called first, then the function computes as in
  the release build.  Helper lemmas: `Low.Tie8PI` in `Tie8/bmtree_PathToIndex_debug`.
-/
namespace Low
open Low.GoSem Low.GoSem8 Low.TieL Low.Tie2L Low.Tie8L Low.Tie8PI

/-- the closure of `PathToIndexLoose` (the argument of `must.Be.OK`) is the model's `contractsLoose` -/
theorem PathToIndexLoose_debug_fn1 (t path : Nat) (ht' : t < 2^31) (hp : path < 2^64) :
    Gen.Ssa8.bmtree_PathToIndexLoose_debug_fn1 (t : Int) path = chk (contractsLoose t path) := by
  rw [Gen.Ssa8.bmtree_PathToIndexLoose_debug_fn1, contractsLoose]
  simp only [Tie_bmtree_bitmapSizeCheck_debug t ht', Tie_bmtree_pathCheck_debug path hp,
    Tie_bmtree_bitmapPathMustHaveEqualHeight_debug t path ht' hp, Bool.and_assoc]
  apply chk_bind
  apply chk_bind
  rw [chk_bind_some]

/-- Domain: `t < 2^31` (a non-negative `int32`, `t = 0` included: rejected by `bitmapSizeCheck` on both sides) and
    `path < 2^64` (needed by the tie of `pathCheck`; the release tie needs no bound on `path`).  NO contract is
    assumed.  The second component is `int32` on the Go side and `Nat` (0 or 1) in the model, hence the cast.
    Fuel: every `fuel ≥ 32`, as for the release build. -/
theorem Tie_bmtree_PathToIndexLoose_debug (t path fuel : Nat) (ht' : t < 2^31) (hp : path < 2^64)
    (hfuel : 32 ≤ fuel) :
    Gen.Ssa8.bmtree_PathToIndexLoose_debug fuel (t : Int) path
      = (pathToIndexLooseDebug t path).map fun r => (r.1, (r.2 : Int)) := by
  rw [Gen.Ssa8.bmtree_PathToIndexLoose_debug, pathToIndexLooseDebug]
  simp only [PathToIndexLoose_debug_fn1 t path ht' hp]
  cases hc : contractsLoose t path with
  | false => simp only [chk_false, Option.bind_none, Bool.false_eq_true, ↓reduceIte, Option.map_none]
  | true =>
    have ht : 1 ≤ t := by
      simp only [contractsLoose, Bool.and_eq_true] at hc
      exact pos_of_sizeCheck hc.1.1
    obtain ⟨h, hh, hh31⟩ := height_nat ht ht'
    have hpl : pathLen path ≤ 32 := popc_le _ _
    have e14 : andI32 (shrI32 (t : Int) (pathLen path)) 1 = (((t >>> pathLen path) % 2 : Nat) : Int) := by
      rw [shrI32_ofNat, andI32_1]; omega
    rw [pathToIndexLoose, pathToIndexCore]
    simp only [chk_true, Option.bind_some, ↓reduceIte, Option.map_some, Tie_bmtree_Height_debug,
      Tie_bmtree_PathLen_debug, hh, Int.toNat_natCast, toU64_ofNat_lt (show t < 18446744073709551616 by omega),
      toU64_ofNat_lt (show h < 18446744073709551616 by omega),
      toU64_ofNat_lt (show pathLen path < 18446744073709551616 by omega), e14,
      tblMaskUpto_ofNat (show h < 64 by omega), tblBit_ofNat (show h < 64 by omega),
      tblMask_ofNat (show pathLen path < 65 by omega), decide_eq_true_eq,
      Tie_bmtree_shiftMulti_debug_bits (path >>> 32) t h fuel 31 ht' (by omega) hfuel,
      shrU64_lt path (show 32 < 64 by omega), toU64_popc64, toI32_popc64, andU64_eq]
    by_cases h1 : t = maskUpto h
    · rw [if_pos h1, if_pos h1]
      simp only [xorU64_eq, subI32, addI32, shlI32, toI32, wrap32_wrap32_sub, Int.pow_one]
    · rw [if_neg h1, if_neg h1]
      by_cases h2 : t = bit h
      · rw [if_pos h2, if_pos h2, toI32]
      · rw [if_neg h2, if_neg h2, toI32, addU64]

-- level 3 is not stored: the loose variant accepts the path and reports 0; level 4 is stored
example : Gen.Ssa8.bmtree_PathToIndexLoose_debug 32 0x72 0x28_00000038 = some (72, 0) := by decide
example : pathToIndexLooseDebug 0x72 0x28_00000038 = some (72, 0) := by decide
example : Gen.Ssa8.bmtree_PathToIndexLoose_debug 32 0x72 0x28_0000003c = some (72, 1) := by decide
-- contracts: `bitmapSize = 0`; a path of another height; path bits outside the mask
example : Gen.Ssa8.bmtree_PathToIndexLoose_debug 32 0 0x28_0000003c = none := by decide
example : Gen.Ssa8.bmtree_PathToIndexLoose_debug 32 0x72 0x5_00000007 = none := by decide
example : Gen.Ssa8.bmtree_PathToIndexLoose_debug 32 0x72 0x29_00000038 = none := by decide
example : pathToIndexLooseDebug 0x72 0x29_00000038 = none := by decide

end Low
