import Generated.Ssa8.bmtree_bitmapSizeCheck_debug
import LowModel.Bmtree.Index
import LowProofs.Tie8.Lemmas
/-
  Tie: the definition regenerated from the SSA form of `bmtree.bitmapSizeCheck` in the `-tags debug` build
  (`must.Be.True(height <= 30)`, `must.Be.NotEqual(int32(0), bitmapSize)`) equals the model contract
  `bitmapSizeCheck`: it returns (`some ()`) exactly when the model's Boolean is `true` and panics (`none`) otherwise.
-/
namespace Low
open Low.GoSem Low.GoSem8 Low.TieL Low.Tie8L

/-- Domain: `bitmapSize` any NON-NEGATIVE `int32` (`t < 2^31`, the model takes a `Nat`); `t = 0` is included (both
    sides reject it).  Total on the Go side: the only panics are the contract checks themselves. -/
theorem Tie_bmtree_bitmapSizeCheck_debug (t : Nat) (_ht' : t < 2^31) :
    Gen.Ssa8.bmtree_bitmapSizeCheck_debug (t : Int) = chk (bitmapSizeCheck t) := by
  have hl : lz (t % M32) 32 ≤ 32 := lz_le _ _
  rw [Gen.Ssa8.bmtree_bitmapSizeCheck_debug, bitmapSizeCheck, height]
  simp only [toU32, u32_ofNat, leadingZeros32]
  generalize lz (t % M32) 32 = l at hl
  rw [subI64, wrap64_id (by omega) (by omega), toI32, wrap32_id (by omega) (by omega), mustTrue_eq,
    mustNotEqual_int32]
  apply chk_bind
  rw [chk_bind_some]
  congr 1
  by_cases h : t = 0
  · subst h; rfl
  · have h' : ¬ ((0 : Int) = (t : Int)) := by omega
    simp [h, h']

/-- A NEGATIVE `int32` is rejected by the debug build (`Height` is 31): outside the model's domain (`Nat`), stated
    for completeness. -/
theorem Tie_bmtree_bitmapSizeCheck_debug_neg (x : Int) (h1 : -2^31 ≤ x) (h2 : x < 0) :
    Gen.Ssa8.bmtree_bitmapSizeCheck_debug x = none := by
  have hu : u32 x = (x + 4294967296).toNat := by
    unfold u32; simp only [M32]; omega
  have hb : (x + 4294967296).toNat.testBit 31 = true := by
    rw [Nat.testBit_eq_decide_div_mod_eq]; simp only [decide_eq_true_eq]; omega
  have hz : lz (x + 4294967296).toNat 32 = 0 := by
    simp only [lz, bitLen, hb, ↓reduceIte]
  rw [Gen.Ssa8.bmtree_bitmapSizeCheck_debug]
  simp only [toU32, hu, leadingZeros32, hz]
  rfl

example : Gen.Ssa8.bmtree_bitmapSizeCheck_debug 0x72 = some () := by decide
example : bitmapSizeCheck 0x72 = true := by decide
example : Gen.Ssa8.bmtree_bitmapSizeCheck_debug 0x7fffffff = some () := by decide
example : Gen.Ssa8.bmtree_bitmapSizeCheck_debug 0 = none := by decide
example : bitmapSizeCheck 0 = false := by decide
example : Gen.Ssa8.bmtree_bitmapSizeCheck_debug (-5) = none := by decide

end Low
