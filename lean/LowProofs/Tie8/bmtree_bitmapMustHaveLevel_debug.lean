import Generated.Ssa8.bmtree_bitmapMustHaveLevel_debug
import LowModel.Bmtree.Index
import LowProofs.Tie8.Lemmas
/-
  Tie: the definition regenerated from the SSA form of `bmtree.bitmapMustHaveLevel` in the `-tags debug` build
  (`must.Be.Equal(int32(1), (bitmapSize>>uint(l))&1, "level[pathlen] must be stored by bitmap")`) equals the model
  contract `bitmapMustHaveLevel`.  The message argument is not translated (it only builds the panic message).
-/
namespace Low
open Low.GoSem Low.GoSem8 Low.TieL Low.Tie8L

/-- Domain: `bitmapSize` a non-negative `int32` given as `t : Nat` (the equation needs no bound on `t`), `l` a
    non-negative level (`l < 2^63`, so that `uint(l)` is `l`; the callers pass `PathLen(path) ≤ 32`).  A shift count
    `≥ 32` gives `0` on both sides. -/
theorem Tie_bmtree_bitmapMustHaveLevel_debug (t l : Nat) (hl : l < 2^63) :
    Gen.Ssa8.bmtree_bitmapMustHaveLevel_debug (t : Int) (l : Int) = chk (bitmapMustHaveLevel t l) := by
  rw [Gen.Ssa8.bmtree_bitmapMustHaveLevel_debug, bitmapMustHaveLevel]
  simp only [toU64_ofNat_lt (show l < 18446744073709551616 by omega), shrI32_ofNat, andI32_1, mustEqual_int32,
    chk_bind_some]
  congr 1
  have h2 : (t >>> l) % 2 < 2 := Nat.mod_lt _ (by omega)
  generalize (t >>> l) = x at h2 ⊢
  by_cases h : x % 2 = 1
  · have : (1 : Int) = (x : Int) % 2 := by omega
    simp [h, this]
  · have : ¬ ((1 : Int) = (x : Int) % 2) := by omega
    simp [h, this]

example : Gen.Ssa8.bmtree_bitmapMustHaveLevel_debug 0x72 4 = some () := by decide
example : bitmapMustHaveLevel 0x72 4 = true := by decide
example : Gen.Ssa8.bmtree_bitmapMustHaveLevel_debug 0x72 3 = none := by decide
example : bitmapMustHaveLevel 0x72 3 = false := by decide
example : Gen.Ssa8.bmtree_bitmapMustHaveLevel_debug 0x72 40 = none := by decide

end Low
