import Generated.Ssa8.bmtree_Decode_debug
import LowModel.Bmtree.Index
import LowProofs.Tie8.bmtree_PathToIndex_debug
import LowProofs.Tie8.bmtree_AllPaths_debug
import LowProofs.Props.C04
/-
  Tie: the definition regenerated from the SSA form of `bmtree.Decode` in the `-tags debug` build equals the model
  `decode` (there is no separate debug model of `Decode`: the function itself contains no contract; in the debug
  build every `PathToIndex` call it makes runs the four contracts first).  Copy of `LowProofs/Tie3/bmtree_Decode`
  with the generated constants of generation 8; the calls are replaced by the ties `Tie_bmtree_AllPaths_debug'` and
  `Tie_bmtree_PathToIndex_debug`, which gives `pathToIndexDebug t p` for every path `p` the loop visits.

  That NO CONTRACT FIRES on these calls is the property clause `C04_decode_debug_safe` (`LowProofs/Props/C04`):
  every `p ∈ allPaths t 0 (2^63)` is the path word of a stored node, so `pathToIndexDebug t p = some (pathToIndex t p)`;
  it enters through `paths_facts`, next to the facts the release tie already takes from C03 / C04 (`p < 2^63`,
  `pathToIndex t p = preIdx ≥ 0`, `t` paths).  A change of a contract, of the order "contracts first", or of
  `PathToIndex` itself breaks `Tie_bmtree_PathToIndex_debug`, which this file imports.
-/
namespace Low
open Low.GoSem Low.GoSem3 Low.TieL Low.Tie2L Low.Tie3L

namespace Tie8DC

/-- `1 << s` on `uint64` for `s < 64` -/
theorem shlU64_one {s : Nat} (hs : s < 64) : shlU64 1 s = 2 ^ s := by
  have : (2 : Nat) ^ s < 2 ^ 64 := Nat.pow_lt_pow_right (by omega) hs
  rw [shlU64, shl64, if_pos hs, Nat.shiftLeft_eq, Nat.one_mul]
  exact Nat.mod_eq_of_lt (by simp only [M64]; omega)

/-- the test `int32(len(bm)) > wordI && bm[wordI]&(1<<uint(idx&63)) != 0` of the model, for an index `≥ 0` -/
theorem decode_pred' (t : Nat) (bm : List Nat) (p idx : Nat) (hidx : pathToIndex t p = (idx : Int)) :
    (decide ((bm.length : Int) > pathToIndex t p / 64) && decide (pathToIndex t p / 64 ≥ 0) &&
      (bm.getD (pathToIndex t p / 64).toNat 0).testBit (pathToIndex t p % 64).toNat) = bitAt bm idx := by
  rw [hidx]; exact C04L.decode_pred bm idx

/-- what the property proofs C03 / C04 say about the paths `Decode` walks over -/
theorem paths_facts {t : Nat} (ht : 1 ≤ t) (ht' : t < 2^31) :
    (allPaths t 0 (2^63)).length = t ∧
    ∀ p ∈ allPaths t 0 (2^63), p < 2^64 ∧ pathToIndexDebug t p = some (pathToIndex t p) ∧
      ∃ idx : Nat, pathToIndex t p = (idx : Int) := by
  obtain ⟨h, hh, _, _, _⟩ := Tie8AP.height_nat30 ht ht'
  constructor
  · rw [C04_allPaths_all t h (2^63) ht ht' hh (by decide) (by decide), storedPaths, List.length_map]
    exact C03_preorder_length t h ht ht' hh
  · intro p hp
    obtain ⟨⟨n, hn, hs, rfl⟩, _, hlt⟩ := (C04_allPaths_mem t h 0 (2^63) p ht ht' hh (by decide)).mp hp
    exact ⟨by omega, C04_decode_debug_safe t h _ ht ht' hh hp, preIdx t 0 n, C03_strict t h n ht ht' hh hn hs⟩

end Tie8DC
open Tie8DC

/-- The `range` loop at position `j` (the SSA range index is `j - 1`, `-1` at the start), for an arbitrary result
    accumulator `acc`; `rest.length + 1` units of fuel; `33 ≤ fuel` for the calls of `PathToIndex`. -/
theorem Decode_debug_loop (fuel t : Nat) (bm paths : List Nat) (ht : 1 ≤ t) (ht' : t < 2^31) (hbm : bm.length < 2^31)
    (hfuel : 33 ≤ fuel) (hlen : paths.length < 2^62)
    (hp : ∀ p ∈ paths, p < 2^64 ∧ pathToIndexDebug t p = some (pathToIndex t p) ∧
      ∃ idx : Nat, pathToIndex t p = (idx : Int)) :
    ∀ (rest : List Nat) (j gas : Nat) (acc : List Nat) (t5 : Int), rest = paths.drop j → addI64 t5 1 = (j : Int) →
      rest.length + 1 ≤ gas →
      Gen.Ssa8.bmtree_Decode_debug_loop1 fuel (t : Int) bm paths (paths.length : Int) gas acc t5
        = some (acc ++ rest.filter (fun p => bitAt bm (pathToIndex t p).toNat))
  | [], j, gas, acc, t5, hr, h5, hg => by
    obtain ⟨g, rfl⟩ : ∃ g, gas = g + 1 := ⟨gas - 1, by omega⟩
    have hjl : ¬ j < paths.length := by have := drop_eq_nil_le hr; omega
    rw [Gen.Ssa8.bmtree_Decode_debug_loop1]
    simp only [h5, Int.ofNat_lt, hjl, decide_false, Bool.false_eq_true, ↓reduceIte, List.filter_nil, List.append_nil]
  | w :: r, j, gas, acc, t5, hr, h5, hg => by
    obtain ⟨g, rfl⟩ : ∃ g, gas = g + 1 := ⟨gas - 1, by omega⟩
    have hjl : j < paths.length := drop_eq_cons_lt hr
    have hw : paths[j]? = some w := getElem?_of_drop_eq_cons hr
    obtain ⟨hw64, hdbg, idx, hidx⟩ := hp w (List.mem_of_getElem? hw)
    have ih := fun acc' => Decode_debug_loop fuel t bm paths ht ht' hbm hfuel hlen hp r (j + 1) g acc' (j : Int)
      (drop_succ_of_drop_eq_cons hr) (addI64_one_ofNat (by omega)) (by simp only [List.length_cons] at hg; omega)
    have hs : idx % 64 < 64 := Nat.mod_lt _ (by omega)
    have e1 : toI32 ((bm.length : Nat) : Int) = ((bm.length : Nat) : Int) := toI32_ofNat_lt (by omega)
    have e2 : toU64 ((idx % 64 : Nat) : Int) = idx % 64 := toU64_ofNat_lt (by omega)
    rw [Gen.Ssa8.bmtree_Decode_debug_loop1]
    simp only [h5, Int.ofNat_lt, hjl, decide_true, ↓reduceIte, index_ofNat, hw, Option.bind_some,
      Tie_bmtree_PathToIndex_debug t w fuel ht' hw64 hfuel, hdbg, hidx, shrI32_6_ofNat, len_eq, e1, gt_iff_lt,
      andI32_63_ofNat, e2, shlU64_one hs, andU64_eq, setIdx_newArray_one, ih, List.filter_cons, Int.toNat_natCast,
      decide_eq_true_eq]
    by_cases hl : idx / 64 < bm.length
    · have hi := index_getD bm hl
      rw [index_ofNat] at hi
      have hba : (bm.getD (idx / 64) 0).testBit (idx % 64) = bitAt bm idx := rfl
      simp only [hl, ↓reduceIte, hi, Option.bind_some, ne_eq, Tie8AP.and_two_pow_eq_zero, Bool.not_eq_false, hba]
      cases bitAt bm idx with
      | true => simp
      | false => simp
    · have hz : bitAt bm idx = false := by
        unfold bitAt
        have : bm.getD (idx / 64) 0 = 0 := by
          rw [List.getD_eq_getElem?_getD, List.getElem?_eq_none (Nat.le_of_not_lt hl)]; rfl
        rw [this]; exact Nat.zero_testBit _
      simp only [hl, ↓reduceIte, hz, Bool.false_eq_true]

/-- Domain:
    * `1 ≤ t < 2^31`: `bitmapSize` a positive `int32` (the domain of `AllPaths`, which panics for `bitmapSize = 0`,
      in the debug build as in the release build: `AllPaths` has no contract);
    * `bm.length < 2^31`: `int32(len(bm))` is `len(bm)`; beyond that the Go conversion wraps while the model compares
      the exact length.  No hypothesis on the words of `bm`, nor on its length relative to `t` (a short, even empty,
      bitmap reads as zeros: the guard `int32(len(bm)) > wordI`).
    Fuel: every `fuel ≥ t + 32`: `AllPaths` needs `2^height + 32 ≤ t + 32`, the `range` loop visits the
    `len(paths) = t` stored paths (`t + 1`), every `PathToIndex` call needs `33`.
    `bm[wordI]` with a NEGATIVE `wordI` would panic in Go (the guard is only `int32(len(bm)) > wordI`) where the
    model's conjunct `wordI ≥ 0 &&` says "skip": this difference is not reachable, because every path that `AllPaths`
    produces on this domain is the path word of a stored node and its index is `preIdx ≥ 0` (C03, C04); no extra
    hypothesis is needed.  On this domain the debug build of the Go function neither panics — in particular no
    contract of the `PathToIndex` calls fires (`C04_decode_debug_safe`) — nor diverges, and returns what the release
    build returns. -/
theorem Tie_bmtree_Decode_debug (t : Nat) (bm : List Nat) (fuel : Nat) (ht : 1 ≤ t) (ht' : t < 2^31)
    (hbm : bm.length < 2^31) (hfuel : t + 32 ≤ fuel) :
    Gen.Ssa8.bmtree_Decode_debug fuel (t : Int) bm = some (decode t bm) := by
  obtain ⟨h, hh, _, hlo, _⟩ := Tie8AP.height_nat30 ht ht'
  obtain ⟨hlen, hp⟩ := paths_facts ht ht'
  have hap := Tie_bmtree_AllPaths_debug' t 0 (2^63) fuel ht ht' (by decide) (by decide)
    (by rw [hh, Int.toNat_natCast]; omega)
  have hdec : decode t bm = (allPaths t 0 (2^63)).filter (fun p => bitAt bm (pathToIndex t p).toNat) := by
    rw [decode]
    apply List.filter_congr
    intro p hpm
    obtain ⟨_, _, idx, hidx⟩ := hp p hpm
    rw [decode_pred' t bm p idx hidx, hidx, Int.toNat_natCast]
  have hloop := Decode_debug_loop fuel t bm (allPaths t 0 (2^63)) ht ht' hbm (by omega) (by omega) hp
    (allPaths t 0 (2^63)) 0 fuel [] (-1) rfl addI64_neg_one_one (by omega)
  rw [Gen.Ssa8.bmtree_Decode_debug]
  have e63 : (9223372036854775808 : Nat) = 2^63 := by decide
  rw [e63, hap, Option.bind_some, hdec]
  simp only [newArray_zero, len_eq]
  rw [hloop, List.nil_append]

example : Gen.Ssa8.bmtree_Decode_debug 40 5 [0b10101] = some [0, 0x100000003, 0x300000003] := by decide
example : decode 5 [0b10101] = [0, 0x100000003, 0x300000003] :=
  Option.some.inj ((Tie_bmtree_Decode_debug 5 [0b10101] 40 (by decide) (by decide) (by decide) (by decide)).symm.trans
    (by decide))
-- an empty bitmap reads as zeros; garbage beyond bit `t` is never consulted
example : Gen.Ssa8.bmtree_Decode_debug 40 5 [] = some [] := by decide
example : Gen.Ssa8.bmtree_Decode_debug 40 5 [0xffffffffffffffe0 + 0b10101, 0xffff] = some [0, 0x100000003, 0x300000003] := by
  decide
-- out of fuel
example : Gen.Ssa8.bmtree_Decode_debug 4 5 [0b10101] = none := by decide
-- `bitmapSize = 0` panics (inside `AllPaths`)
example : Gen.Ssa8.bmtree_Decode_debug 40 0 [0b10101] = none := by decide

end Low
