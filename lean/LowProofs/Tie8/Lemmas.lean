import LowModel.GoSem8
import LowProofs.Tie.Lemmas
/-
  Lemmas about the vocabulary `GoSem8` (the contract checks of the `-tags debug` build) shared by the ties of
  generation 8.  `chk b` is "the contract `b` holds, else panic": the right-hand side of every contract tie.
-/
namespace Low.Tie8L
open Low.GoSem8

/-- a contract as a computation: `some ()` when it holds, `none` (panic) when it does not -/
def chk (b : Bool) : Option Unit := if b = true then some () else none

@[simp] theorem chk_true : chk true = some () := rfl
@[simp] theorem chk_false : chk false = none := rfl

theorem chk_eq_some {b : Bool} : chk b = some () ↔ b = true := by cases b <;> simp
theorem chk_eq_none {b : Bool} : chk b = none ↔ b = false := by cases b <;> simp

/-- two contracts in sequence -/
theorem chk_bind (a : Bool) (k : Unit → Option Unit) (b : Bool) (hk : k () = chk b) :
    (chk a).bind k = chk (a && b) := by
  cases a <;> simp [hk]

/-- the same with the first contract given in another form -/
theorem chk_bind' {a a' b : Bool} {k : Unit → Option Unit} (ha : a = a') (hk : k () = chk b) :
    (chk a).bind k = chk (a' && b) := by
  subst ha; exact chk_bind a k b hk

theorem chk_bind_some (a : Bool) : ((chk a).bind fun _ => some ()) = chk a := by cases a <;> simp

/-- a contract followed by a computation: the pattern of the `…Debug` model functions -/
theorem chk_bind_val {α : Type} (a : Bool) (v : α) : ((chk a).bind fun _ => some v) = if a = true then some v else none := by
  cases a <;> simp

theorem mustTrue_eq (c : Bool) : mustTrue c = chk c := rfl

theorem mustFalse_eq (c : Bool) : mustFalse c = chk (!c) := by cases c <;> rfl

theorem mustEqual_int32 (a b : Int) : mustEqual (.int32 a) (.int32 b) = chk (decide (a = b)) := by
  simp only [mustEqual, chk, Iface.int32.injEq, decide_eq_true_eq]

theorem mustEqual_int (a b : Int) : mustEqual (.int a) (.int b) = chk (decide (a = b)) := by
  simp only [mustEqual, chk, Iface.int.injEq, decide_eq_true_eq]

theorem mustEqual_uint32 (a b : Nat) : mustEqual (.uint32 a) (.uint32 b) = chk (decide (a = b)) := by
  simp only [mustEqual, chk, Iface.uint32.injEq, decide_eq_true_eq]

theorem mustEqual_uint64 (a b : Nat) : mustEqual (.uint64 a) (.uint64 b) = chk (decide (a = b)) := by
  simp only [mustEqual, chk, Iface.uint64.injEq, decide_eq_true_eq]

theorem mustNotEqual_int32 (a b : Int) : mustNotEqual (.int32 a) (.int32 b) = chk (decide (a ≠ b)) := by
  simp only [mustNotEqual, chk, Iface.int32.injEq, ne_eq, decide_not, Bool.not_eq_eq_eq_not, Bool.not_true,
    decide_eq_false_iff_not]
  by_cases h : a = b <;> simp [h]

-- the dynamic type matters: an `int64` never equals an `int`, whatever the values
example : mustEqual (.int64 1) (.int 1) = none := by decide
example : mustNotEqual (.int64 1) (.int 1) = some () := by decide
example : mustEqual (.int32 1) (.int32 1) = some () := by decide

end Low.Tie8L
