import LowModel.Pbcmpl
import LowModel.GoSem5
/-
  Generation 5 ties: the INSTANTIATION of the oracle record `GoSem5.Ext` with the semantics the hand-written model
  `LowModel/Pbcmpl.lean` gives to the world outside package pbcmpl.  Everything that is ASSUMED about the external
  functions is written here, field by field (DESIGN.md section 6 item 4: the `io.ReadFull` / `io.CopyN` / `io.Writer`
  contracts, `encoding/binary` on the 32-byte header, `proto.Marshal/Unmarshal/Size` dispatching to the header's own
  methods, `errors.WithStack`); the generated definitions contain none of it, and the vocabulary `GoSem5` neither.

  The world `World` holds: the stream behind the reader handle (`PbReader`: bytes it will deliver, then its end error);
  the script of the writer (one `WAns` per `Write` call still to come) and the bytes it has taken so far; what
  `proto.Marshal(msg)` answers (`body`, `mErr`); whether `msg` is a `VersionedMessage` and its version; the bytes
  `proto.Unmarshal(·, msg)` received; the number of stack-trace wrappers made so far (each `WithStack` of a non-nil
  error yields a NEW error value).  The handles themselves are ignored: one reader, one writer, one message.
-/
namespace Low.Tie5
open Low GoSem5

/-- the error VALUE that stands for a model error class -/
def errOf : PbErr → Err
  | .eof => .var "io.EOF"
  | .unexpectedEOF => .var "io.ErrUnexpectedEOF"
  | .invalidHeaderSize => .var "pbcmpl.ErrInvalidHeaderSize"
  | .invalidBodySize => .var "pbcmpl.ErrInvalidBodySize"
  | .injected => .other 0
  | .proto => .other 1

/-- `errors.Cause`: strip the stack-trace wrappers -/
def cause : Err → Err
  | .wrapped e _ => cause e
  | e => e

/-- the error value of the scripted writer -/
def wErr : Err := .other 2

structure World where
  rd : PbReader
  wans : List WAns
  wrote : List Nat
  wcalls : Nat
  body : List Nat
  mErr : Err
  ver : Option (List Nat)
  got : Option (List Nat)
  uErr : Err
  stacks : Nat
deriving Repr, DecidableEq

/-- the 32 header bytes `binary.Write(b, LittleEndian, h)` produces (what `proto.Marshal(h)` returns through the header's
    own `Marshal` method): the 16 version bytes, then HeaderSize and BodySize as little-endian uint64 -/
def hdrBytes (h : GoSem5.Header) : List Nat := h.1 ++ le64 h.2.1 ++ le64 h.2.2

/-- the header `binary.Read(bytes.NewReader(b), LittleEndian, h)` decodes from 32 bytes (what `proto.Unmarshal(b, h)`
    does through the header's own `Unmarshal` method) -/
def hdrOf (b : List Nat) : GoSem5.Header := (b.take 16, unle ((b.drop 16).take 8), unle ((b.drop 24).take 8))

/-- `errors.WithStack`: nil stays nil; otherwise a NEW non-nil error value whose cause is the argument's -/
def wrapE (w : World) (e : Err) : Err × World :=
  if e = .nil then (.nil, w) else (.wrapped e w.stacks, { w with stacks := w.stacks + 1 })

/-- one `Write(p)` against the script: the writer takes `min accept |p|` bytes and reports an error when told to or when
    it took fewer (io.Writer contract); an exhausted script accepts everything -/
def writeAns (w : World) (p : List Nat) : (Int × Err) × World :=
  match w.wans with
  | [] => (((p.length : Nat), .nil), { w with wrote := w.wrote ++ p, wcalls := w.wcalls + 1 })
  | a :: rest =>
    (((min a.accept p.length : Nat), if a.fail || decide (min a.accept p.length < p.length) then wErr else .nil),
     { w with wans := rest, wrote := w.wrote ++ p.take (min a.accept p.length), wcalls := w.wcalls + 1 })

/-- THE MODEL ORACLES. -/
def X : Ext World where
  /- `proto.Marshal(msg)`: the encoding `body` of the caller's message (or the error the world prescribes) -/
  protoMarshal w _ := ((w.body, w.mErr), w)
  /- `proto.Marshal(h)` = `h.Marshal()` = `binary.Write` of the fixed-size struct: 32 bytes, never an error -/
  protoMarshalHeader w h := ((hdrBytes h, .nil), w)
  /- `proto.Unmarshal(b, msg)`: the message receives `b` -/
  protoUnmarshal w b _ := (w.uErr, { w with got := some b })
  /- `proto.Unmarshal(b, h)` = `h.Unmarshal(b)` = `binary.Read` of the fixed-size struct -/
  protoUnmarshalHeader w b _ := ((hdrOf b, .nil), w)
  /- `proto.Size(msg) = len(proto.Marshal(msg))` -/
  protoSize w _ := ((w.body.length : Nat), w)
  /- `io.ReadFull(r, buf)`: the model's `readFull` for `len buf` bytes; the bytes read overwrite the front of `buf` -/
  ioReadFull w _ buf :=
    let r := readFull w.rd buf.length
    ((r.1 ++ buf.drop r.1.length, ((r.1.length : Nat), match r.2.1 with | none => Err.nil | some e => errOf e)),
     { w with rd := r.2.2 })
  /- `io.CopyN(b, r, n)`: `n` bytes are appended to the buffer and the error is nil; if the reader ends first, all it had
     and ITS end error — `io.EOF` also when some bytes were copied (`io.CopyN` does not know `ErrUnexpectedEOF`) -/
  ioCopyNBuffer w dst _ n :=
    if n.toNat ≤ w.rd.avail.length then
      ((dst ++ w.rd.avail.take n.toNat, ((n.toNat : Nat), Err.nil)), { w with rd := { w.rd with avail := w.rd.avail.drop n.toNat } })
    else
      ((dst ++ w.rd.avail, ((w.rd.avail.length : Nat), errOf w.rd.endErr)), { w with rd := { w.rd with avail := [] } })
  write w _ p := writeAns w p
  withStack w e := wrapE w e
  isVersioned w _ := w.ver.isSome
  getVersion w _ := (w.ver.getD [], w)

/-- what the three getters of `*headerInfo` report for a header (ties `Tie_pbcmpl_headerInfo_Get*`) -/
def infoOf (h : GoSem5.Header) : PbHeaderInfo := ⟨verStr h.1, wrap64 (h.2.1 : Int), wrap64 (h.2.2 : Int)⟩

/-- the model's error class of an error value: by its cause (`none` = nil) -/
def classOf (e : Err) : Option PbErr :=
  match cause e with
  | .nil => none
  | .var "io.EOF" => some .eof
  | .var "io.ErrUnexpectedEOF" => some .unexpectedEOF
  | .var "pbcmpl.ErrInvalidHeaderSize" => some .invalidHeaderSize
  | .var "pbcmpl.ErrInvalidBodySize" => some .invalidBodySize
  | .other 0 => some .injected
  | _ => some .proto

theorem errOf_ne_nil (e : PbErr) : errOf e ≠ Err.nil := by cases e <;> simp [errOf]
theorem classOf_errOf (e : PbErr) : classOf (errOf e) = some e := by cases e <;> rfl
theorem classOf_wrapped (e : Err) (k : Nat) : classOf (.wrapped e k) = classOf e := by
  simp only [classOf, cause]
theorem classOf_nil : classOf .nil = none := rfl

/-- a world around a reader (for the Unmarshal side) -/
def ofReader (r : PbReader) : World :=
  { rd := r, wans := [], wrote := [], wcalls := 0, body := [], mErr := .nil, ver := none, got := none, uErr := .nil, stacks := 0 }

/-- a world around a message and a writer script (for the Marshal side) -/
def ofWriter (ver : Option (List Nat)) (body : List Nat) (script : List WAns) : World :=
  { rd := ⟨[], .eof⟩, wans := script, wrote := [], wcalls := 0, body := body, mErr := .nil, ver := ver, got := none, uErr := .nil, stacks := 0 }

def theReader : Obj := ⟨1⟩
def theWriter : Obj := ⟨2⟩
def theMsg : Obj := ⟨3⟩

end Low.Tie5
