import LowProofs.Lemmas.C06
import LowProofs.Tie5.Oracles
import Generated.Ssa5.pbcmpl_Size
/-
  Tie for `pbcmpl.Size(msg)` = `HeaderSize(msg) + proto.Size(msg)`: with the model oracle `proto.Size(msg) = |body|`
  (TRUSTED protobuf contract `Size(m) = len(Marshal(m))`) it is `32 + |body|`, the length of the model's frame
  (`C06L.frame_length`); the world is unchanged.  Hypothesis: `32 + |body| < 2^63` (the sum is an `int`).
-/
namespace Low
open Low.C06L Low.Tie5 GoSem5

theorem Tie_pbcmpl_Size (w : World) (msg : Obj) (hb : 32 + w.body.length < 2^63) :
    Gen.Ssa5.pbcmpl_Size X msg 32 w = (((32 + w.body.length : Nat) : Int), w) := by
  unfold Gen.Ssa5.pbcmpl_Size Gen.Ssa5.pbcmpl_HeaderSize
  have : GoSem.addI64 32 ((w.body.length : Nat) : Int) = ((32 + w.body.length : Nat) : Int) := by
    unfold GoSem.addI64
    have := wrap64_nat (32 + w.body.length) hb
    simpa using this
  simp only [X, this]

/-- … which is the length of the frame `Marshal` writes -/
theorem Tie_pbcmpl_Size_frame (w : World) (msg : Obj) (ver frame : List Nat) (hf : pbFrame ver w.body = some frame)
    (hb : 32 + w.body.length < 2^63) :
    (Gen.Ssa5.pbcmpl_Size X msg 32 w).1 = ((frame.length : Nat) : Int) := by
  obtain ⟨hv, rfl⟩ := pbFrame_some hf
  rw [Tie_pbcmpl_Size w msg hb, frame_length ver w.body hv]

example : (Gen.Ssa5.pbcmpl_Size X theMsg 32 (ofWriter none [7, 8, 9] [])).1 = 35 := by decide +kernel

end Low
