import LowProofs.Lemmas.C06
import LowProofs.Tie5.Oracles
import Generated.Ssa5.pbcmpl_newHeader
/-
  Tie for `pbcmpl.newHeader(ver, bodysize)`: the definition regenerated from go/ssa returns the struct
  `header{Version: ver padded with NULs to 16 bytes, HeaderSize: fixedSize, BodySize: bodysize}` and panics for
  `len(ver) > 16` — i.e. marshalled with the header encoding of the oracles (`Tie5.hdrBytes`) it IS the model's `pbHeader`.
  `fixedSize` (the package variable, `binary.Size(&header{})`, assigned once at package initialisation) is an argument of
  the generated definition; the ties instantiate it with 32 — TRUSTED: `binary.Size` of `struct{[16]byte; uint64; uint64}`.
  No hypothesis on `ver` or `bodysize`.
-/
namespace Low
open Low.C06L Low.Tie5

/-- the struct `newHeader` builds: `copy(h.Version[:], ver)` into the zeroed 16-byte array, the two sizes -/
theorem Tie_pbcmpl_newHeader_struct (ver : List Nat) (bs : Nat) :
    Gen.Ssa5.pbcmpl_newHeader ver bs 32 =
      if ver.length > 16 then none else some (ver ++ List.replicate (16 - ver.length) 0, 32, bs) := by
  unfold Gen.Ssa5.pbcmpl_newHeader
  by_cases h : ver.length > 16
  · have : decide (GoSem.len ver > (16 : Int)) = true := by simp [GoSem.len]; omega
    simp [this, h]
  · have : decide (GoSem.len ver > (16 : Int)) = false := by simp [GoSem.len]; omega
    have h2 : GoSem.toU64 (32 : Int) = 32 := by decide
    simp only [this, h, Bool.false_eq_true, if_false, h2]
    congr 2
    simp only [GoSem3.copyInto, GoSem3.newArray, List.length_replicate, List.drop_replicate]
    rw [List.take_of_length_le (by omega)]

/-- `newHeader` marshalled = the model's `pbHeader` (both panic exactly for `len(ver) > 16`) -/
theorem Tie_pbcmpl_newHeader (ver : List Nat) (bs : Nat) :
    (Gen.Ssa5.pbcmpl_newHeader ver bs 32).map hdrBytes = pbHeader ver bs := by
  rw [Tie_pbcmpl_newHeader_struct]
  unfold pbHeader hdrBytes
  split <;> simp

/-! non-vacuity -/
example : Gen.Ssa5.pbcmpl_newHeader [49, 46, 48] 7 32 = some ([49, 46, 48, 0, 0, 0, 0, 0, 0, 0, 0, 0, 0, 0, 0, 0], 32, 7) := by decide
example : Gen.Ssa5.pbcmpl_newHeader (List.replicate 16 65) 0 32 = some (List.replicate 16 65, 32, 0) := by decide
example : Gen.Ssa5.pbcmpl_newHeader (List.replicate 17 65) 0 32 = none := by decide

end Low
