import LowProofs.Tie5.Oracles
import Generated.Ssa5.pbcmpl_HeaderSize
/-
  Tie for `pbcmpl.HeaderSize(msg)`: the package variable `fixedSize` (an argument of the generated definition), i.e. 32 —
  the length of every header the model's `pbHeader` builds.
-/
namespace Low
open Low.Tie5 GoSem5

theorem Tie_pbcmpl_HeaderSize (msg : Obj) (fixedSize : Int) : Gen.Ssa5.pbcmpl_HeaderSize msg fixedSize = fixedSize := rfl

example : Gen.Ssa5.pbcmpl_HeaderSize theMsg 32 = 32 := rfl

end Low
