import LowProofs.Lemmas.C06
import LowProofs.Tie5.Oracles
import LowProofs.Tie5.pbcmpl_ReadHeader
import LowProofs.Tie5.pbcmpl_headerInfo_GetVersion
import LowProofs.Tie5.pbcmpl_headerInfo_GetHeaderSize
import LowProofs.Tie5.pbcmpl_headerInfo_GetBodySize
import Generated.Ssa5.pbcmpl_Unmarshal
/-
  Tie for `pbcmpl.Unmarshal(r, msg)`.  With the model oracles `Tie5.X` and `fixedSize = 32` the definition regenerated
  from go/ssa (it calls the regenerated `ReadHeader`, the three getters through the `Header` interface, `verStr`) equals
  `some (embedU w)`: the Go results and the final world written out from the MODEL function `pbUnmarshal w.rd`:
    count = the model's `n`; version = the model's `ver`; the reader is left where the model leaves it;
    an error of class `e` in the model is the value `WithStack(errOf e)` (a fresh wrapper);
    on success the message has received exactly the model's `body` and the error is `WithStack` of what
    `proto.Unmarshal` answered (nil stays nil).
  In particular it never panics (the nil-`Header` dereference after a failed `ReadHeader` is unreachable).
  Hypotheses:
  * `17 ≤ fuel` (the loop of `verStr` over the 16 version bytes);
  * `hlen : w.rd.avail.length < 2^63` — the reader delivers fewer than 2^63 bytes before it ends.  OUTSIDE it the Go code
    computes `n += nbody` in int64 and would wrap, the model's count is an unbounded natural; such a stream cannot exist
    (it would have to be read into a `bytes.Buffer` in memory).  The domain of C06/C07 (`|body| < 2^63`, streams that are
    prefixes of frames) is inside it except for bodies of 2^63-32 … 2^63-1 bytes, which are not realisable either.
-/
namespace Low
open Low.C06L Low.Tie5 GoSem5

namespace Tie5
/-- Go results and final world of `Unmarshal`, written with the model's `pbUnmarshal` -/
def embedU (w : World) : (Int × List Nat × Err) × World :=
  let m := pbUnmarshal w.rd
  match m.err with
  | some e => (((m.n : Nat), m.ver, .wrapped (errOf e) w.stacks), { w with rd := m.rest, stacks := w.stacks + 1 })
  | none =>
    (((m.n : Nat), m.ver, (wrapE { w with rd := m.rest, got := m.body } w.uErr).1),
     (wrapE { w with rd := m.rest, got := m.body } w.uErr).2)
end Tie5

private theorem errOf_eq_eof (e : PbErr) : (errOf e = Err.var "io.EOF") ↔ e = .eof := by
  cases e <;> simp [errOf]

private theorem bind_some' {α β : Type} (a : α) (f : α → Option β) : Option.bind (some a) f = f a := by
  cases h : f a <;> simp [h]

private theorem toI64_32 : GoSem.toI64 (32 : Int) = 32 := by decide

private theorem addI64_small (a b : Nat) (h : a + b < 2^63) : GoSem.addI64 (a : Int) (b : Int) = ((a + b : Nat) : Int) := by
  unfold GoSem.addI64
  have := wrap64_nat (a + b) h
  simpa using this

namespace Tie5
/-- `Unmarshal` after a successful `ReadHeader` that left the world `w1`, in terms of the three getters' answers -/
def tailU (w1 : World) (ver : List Nat) (hsz bsz : Int) : (Int × List Nat × Err) × World :=
  if hsz ≠ 32 then ((32, ver, .wrapped (errOf .invalidHeaderSize) w1.stacks), { w1 with stacks := w1.stacks + 1 })
  else if bsz < 0 then ((32, ver, .wrapped (errOf .invalidBodySize) w1.stacks), { w1 with stacks := w1.stacks + 1 })
  else match readFull w1.rd bsz.toNat with
    | (b, some e, r'') => ((((32 + b.length : Nat) : Int), ver, .wrapped (errOf e) w1.stacks), { w1 with rd := r'', stacks := w1.stacks + 1 })
    | (b, none, r'') =>
      ((((32 + b.length : Nat) : Int), ver, (wrapE { w1 with rd := r'', got := some b } w1.uErr).1),
       (wrapE { w1 with rd := r'', got := some b } w1.uErr).2)
end Tie5

private theorem U_of_header (w w1 : World) (r msg : Obj) (fuel : Nat) (v : List Nat) (hs bs : Nat)
    (hRH : Gen.Ssa5.pbcmpl_ReadHeader X r 32 w = some ((32, some (v, hs, bs), Err.nil), w1))
    (hsz bsz : Int) (hhs : Gen.Ssa5.pbcmpl_headerInfo_GetHeaderSize (v, hs, bs) = hsz)
    (hbs : Gen.Ssa5.pbcmpl_headerInfo_GetBodySize (v, hs, bs) = bsz)
    (hv : v.length ≤ 16) (hfuel : 17 ≤ fuel) (hlen : w1.rd.avail.length + 32 < 2^63) :
    Gen.Ssa5.pbcmpl_Unmarshal fuel X r msg 32 w = some (tailU w1 (verStr v) hsz bsz) := by
  unfold Gen.Ssa5.pbcmpl_Unmarshal
  rw [hRH]
  have hgv := Tie_pbcmpl_headerInfo_GetVersion v hs bs fuel (by omega) (by omega)
  simp only [bind_some', hgv, toI64_32, hhs, hbs]
  unfold tailU
  have hnil : decide (Err.nil ≠ Err.nil) = false := by decide
  simp only [hnil, Bool.false_eq_true, if_false]
  by_cases h1 : hsz ≠ 32
  · simp [h1, X, wrapE, errOf]
  · have h1' : hsz = 32 := by omega
    subst h1'
    by_cases h2 : bsz < 0
    · simp [h2, X, wrapE, errOf]
    · obtain ⟨k, rfl⟩ := Int.eq_ofNat_of_zero_le (show 0 ≤ bsz by omega)
      simp only [h2, ne_eq, not_true_eq_false, decide_false, Bool.false_eq_true, if_false, X, Int.toNat_natCast]
      by_cases h3 : k ≤ w1.rd.avail.length
      · have hrf : readFull w1.rd k =
            (w1.rd.avail.take k, none, ⟨w1.rd.avail.drop k, w1.rd.endErr⟩) := by
          rcases readFull_cases w1.rd k with ⟨h, _⟩ | ⟨e, h, hlt⟩
          · exact h
          · omega
        have hadd : GoSem.addI64 32 ((k : Nat) : Int) = ((32 + k : Nat) : Int) :=
          addI64_small 32 _ (by omega)
        simp [h3, hrf, hadd, List.length_take, Nat.min_eq_left h3]
      · have hlt : w1.rd.avail.length < k := by omega
        have hrf : readFull w1.rd k = _ := readFull_short w1.rd.avail w1.rd.endErr k hlt
        have hadd : GoSem.addI64 32 ((w1.rd.avail.length : Nat) : Int) = ((32 + w1.rd.avail.length : Nat) : Int) :=
          addI64_small 32 _ (by omega)
        have hne := errOf_ne_nil w1.rd.endErr
        by_cases he : w1.rd.endErr = .eof
        · by_cases h0 : w1.rd.avail.length = 0
          · have hk0 : k ≠ 0 := by omega
            have ha0 : w1.rd.avail = [] := List.eq_nil_of_length_eq_zero h0
            have hadd0 : GoSem.addI64 32 0 = 32 := by simpa using addI64_small 32 0 (by omega)
            rw [ha0] at hrf
            simp [hrf, he, ha0, hk0, errOf, wrapE, hadd0]
          · simp [h3, hrf, hadd, he, h0, errOf, wrapE]
        · have he' : ¬ (errOf w1.rd.endErr = Err.var "io.EOF") := fun h => he ((errOf_eq_eof _).1 h)
          simp [h3, hrf, hadd, he, he', hne, wrapE]

/-- the complete-header case for an ABSTRACT decoded header `hi` (so that neither the elaborator nor the kernel ever
    unfolds the field decoders `wrap64 (unle …)`) -/
private theorem main_core (w : World) (r msg : Obj) (fuel : Nat) (v : List Nat) (A B : Nat) (hi : PbHeaderInfo) (r1 : PbReader)
    (hRH : Gen.Ssa5.pbcmpl_ReadHeader X r 32 w = some ((32, some (v, A, B), Err.nil), { w with rd := r1 }))
    (hver : hi.ver = verStr v) (hhs : hi.headerSize = wrap64 (A : Int)) (hbs : hi.bodySize = wrap64 (B : Int))
    (hh : pbReadHeader w.rd = (32, some hi, none, r1))
    (hv : v.length ≤ 16) (hfuel : 17 ≤ fuel) (hlen : r1.avail.length + 32 < 2^63) :
    Gen.Ssa5.pbcmpl_Unmarshal fuel X r msg 32 w = some (embedU w) := by
  have hhs' : Gen.Ssa5.pbcmpl_headerInfo_GetHeaderSize (v, A, B) = hi.headerSize := by
    rw [hhs]; exact Tie_pbcmpl_headerInfo_GetHeaderSize _ _ _
  have hbs' : Gen.Ssa5.pbcmpl_headerInfo_GetBodySize (v, A, B) = hi.bodySize := by
    rw [hbs]; exact Tie_pbcmpl_headerInfo_GetBodySize _ _ _
  rw [U_of_header w _ r msg fuel v A B hRH hi.headerSize hi.bodySize hhs' hbs' hv hfuel hlen]
  have hm := pbUnmarshal_of_header _ _ _ _ hh
  unfold embedU
  rw [hm, ← hver]
  unfold tailU
  generalize hi.headerSize = hsz
  generalize hi.bodySize = bsz
  by_cases h1 : hsz ≠ 32
  · simp [h1]
  · by_cases h2 : bsz < 0
    · simp [h1, h2]
    · simp only [h1, h2, if_false]
      rcases hq : readFull r1 bsz.toNat with ⟨b, e, r''⟩
      cases e <;> simp

theorem Tie_pbcmpl_Unmarshal (w : World) (r msg : Obj) (fuel : Nat) (hfuel : 17 ≤ fuel)
    (hlen : w.rd.avail.length < 2^63) :
    Gen.Ssa5.pbcmpl_Unmarshal fuel X r msg 32 w = some (embedU w) := by
  rcases readFull_cases w.rd 32 with ⟨h, hle⟩ | ⟨err, h, hlt⟩
  · -- a complete header
    have hl : (List.take 32 w.rd.avail).length = 32 := by simp [List.length_take]; omega
    have hrest : (List.drop 32 w.rd.avail).length + 32 = w.rd.avail.length := by simp [List.length_drop]; omega
    have hsplit : w.rd = ⟨List.take 32 w.rd.avail ++ List.drop 32 w.rd.avail, w.rd.endErr⟩ := by
      rw [List.take_append_drop]
    have hRH := Tie_pbcmpl_ReadHeader_raw w r
    have hE : embedRH w = ((32, some (hdrOf (List.take 32 w.rd.avail)), Err.nil),
        { w with rd := ⟨List.drop 32 w.rd.avail, w.rd.endErr⟩ }) := by
      unfold embedRH; rw [h]
    rw [hE] at hRH
    have hh := pbReadHeader_hdr (List.take 32 w.rd.avail) (List.drop 32 w.rd.avail) w.rd.endErr hl
    rw [← hsplit] at hh
    have hv : (List.take 16 (List.take 32 w.rd.avail)).length ≤ 16 := by simp [List.length_take]; omega
    generalize List.take 32 w.rd.avail = hdr at *
    have h1 : (hdrInfo hdr).ver = verStr (List.take 16 hdr) := by unfold hdrInfo; simp only []
    have h2 : (hdrInfo hdr).headerSize = wrap64 ((unle (List.take 8 (List.drop 16 hdr)) : Nat) : Int) := by
      unfold hdrInfo; simp only []
    have h3 : (hdrInfo hdr).bodySize = wrap64 ((unle (List.take 8 (List.drop 24 hdr)) : Nat) : Int) := by
      unfold hdrInfo; simp only []
    generalize hdrInfo hdr = hi at *
    unfold hdrOf at hRH
    exact main_core w r msg fuel _ _ _ hi ⟨List.drop 32 w.rd.avail, w.rd.endErr⟩ hRH h1 h2 h3
      hh hv hfuel (by simp only []; omega)
  · -- a short header
    unfold Gen.Ssa5.pbcmpl_Unmarshal
    rw [Tie_pbcmpl_ReadHeader_raw]
    simp only [bind_some']
    unfold embedRH embedU pbUnmarshal pbReadHeader
    rw [h]
    simp

/-! non-vacuity: a whole frame and something after it; a truncated body; a corrupt header size; body size 2^63 -/
example : Gen.Ssa5.pbcmpl_Unmarshal 17 X theReader theMsg 32
      (ofReader ⟨List.replicate 16 65 ++ le64 32 ++ le64 2 ++ [7, 8, 9], .eof⟩) =
    some ((34, List.replicate 16 65, Err.nil), { ofReader ⟨[9], .eof⟩ with got := some [7, 8] }) := by decide +kernel
example : (Gen.Ssa5.pbcmpl_Unmarshal 17 X theReader theMsg 32
      (ofReader ⟨[49, 46, 48] ++ List.replicate 13 0 ++ le64 32 ++ le64 5 ++ [7, 8], .eof⟩)).map (fun x => x.1) =
    some (34, [49, 46, 48], .wrapped (.var "io.ErrUnexpectedEOF") 0) := by decide +kernel
example : (Gen.Ssa5.pbcmpl_Unmarshal 17 X theReader theMsg 32
      (ofReader ⟨List.replicate 16 0 ++ le64 (2^32 + 32) ++ le64 0, .eof⟩)).map (fun x => x.1) =
    some (32, [], .wrapped (.var "pbcmpl.ErrInvalidHeaderSize") 0) := by decide +kernel
example : (Gen.Ssa5.pbcmpl_Unmarshal 17 X theReader theMsg 32
      (ofReader ⟨List.replicate 16 0 ++ le64 32 ++ le64 (2^63) ++ [1], .eof⟩)).map (fun x => x.1) =
    some (32, [], .wrapped (.var "pbcmpl.ErrInvalidBodySize") 0) := by decide +kernel

end Low
