import LowProofs.Lemmas.C06
import LowProofs.Tie5.Oracles
import LowProofs.Tie5.pbcmpl_newHeader
import Generated.Ssa5.pbcmpl_marshal
/-
  Tie for the unexported `pbcmpl.marshal(msg, ver)`: with the model oracles (`proto.Marshal(msg)` answers `(body, mErr)`,
  `proto.Marshal(h)` is the 32-byte little-endian encoding of the header) the regenerated definition returns
  `(nil, nil, mErr)` when `proto.Marshal(msg)` failed, panics when `len(ver) > 16`, and otherwise returns the model's
  `pbHeader ver |body|` and `body`, with error nil; the world is unchanged.
  Hypothesis: `|body| < 2^64` (`uint64(len(data))`; a Go slice is far shorter).
-/
namespace Low
open Low.C06L Low.Tie5 GoSem5

theorem Tie_pbcmpl_marshal (w : World) (msg : Obj) (ver : List Nat) (hb : w.body.length < 2^64) :
    Gen.Ssa5.pbcmpl_marshal X msg ver 32 w =
      if w.mErr ≠ .nil then some (([], [], w.mErr), w)
      else (pbHeader ver w.body.length).map fun h => ((h, w.body, Err.nil), w) := by
  unfold Gen.Ssa5.pbcmpl_marshal
  have hu : GoSem.toU64 (GoSem.len w.body) = w.body.length := by
    unfold GoSem.toU64 GoSem.len u64 M64
    omega
  simp only [X, hu, Tie_pbcmpl_newHeader_struct]
  by_cases hm : w.mErr = .nil
  · by_cases hv : ver.length > 16
    · simp [hm, hv, pbHeader]
    · simp [hm, hv, pbHeader, hdrBytes]
  · simp [hm]

example : (Gen.Ssa5.pbcmpl_marshal X theMsg [49] 32 (ofWriter none [7, 8, 9] [])).map (fun x => x.1) =
    some ([49, 0, 0, 0, 0, 0, 0, 0, 0, 0, 0, 0, 0, 0, 0, 0, 32, 0, 0, 0, 0, 0, 0, 0, 3, 0, 0, 0, 0, 0, 0, 0], [7, 8, 9], .nil) := by
  decide +kernel

end Low
