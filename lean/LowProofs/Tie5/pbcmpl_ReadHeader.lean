import LowProofs.Lemmas.C06
import LowProofs.Tie5.Oracles
import Generated.Ssa5.pbcmpl_ReadHeader
/-
  Tie for `pbcmpl.ReadHeader(r)`: with the model oracles (`Tie5.X`: `io.ReadFull` = the model's `readFull`, `proto.Unmarshal`
  into the fresh header = little-endian decoding, `errors.WithStack` = a new wrapper around a non-nil error) and
  `fixedSize = 32`, the definition regenerated from go/ssa
    * never panics,
    * returns the count of bytes read, the reader advanced exactly as the model's `readFull` says,
    * on a short read: a nil `Header` and the (wrapped) error of `readFull`;
    * otherwise the header decoded from the 32 bytes, whose three getters report the model's `PbHeaderInfo`.
  `Tie_pbcmpl_ReadHeader_raw` is the exact equation (result and final world); `Tie_pbcmpl_ReadHeader` is its projection onto
  the model function `pbReadHeader`.  No hypothesis on the reader or the world.
-/
namespace Low
open Low.C06L Low.Tie5 GoSem5

namespace Tie5
/-- result and final world of `ReadHeader`, written with the model's `readFull` -/
def embedRH (w : World) : (Int × Option GoSem5.Header × Err) × World :=
  match readFull w.rd 32 with
  | (b, some e, r') => ((((b.length : Nat) : Int), none, .wrapped (errOf e) w.stacks), { w with rd := r', stacks := w.stacks + 1 })
  | (b, none, r') => ((32, some (hdrOf b), .nil), { w with rd := r' })

/-- the view of a `ReadHeader` result at the level of the model: count, what the getters report, error class, reader -/
def viewRH (res : (Int × Option GoSem5.Header × Err) × World) : Nat × Option PbHeaderInfo × Option PbErr × PbReader :=
  (res.1.1.toNat, res.1.2.1.map infoOf, classOf res.1.2.2, res.2.rd)
end Tie5

private theorem makeSlice32 : GoSem3.makeSlice (0 : Nat) (32 : Int) = some (List.replicate 32 0) := by decide

theorem Tie_pbcmpl_ReadHeader_raw (w : World) (r : Obj) :
    Gen.Ssa5.pbcmpl_ReadHeader X r 32 w = some (embedRH w) := by
  unfold Gen.Ssa5.pbcmpl_ReadHeader embedRH
  simp only [makeSlice32, Option.bind_some, X, List.length_replicate]
  rcases readFull_cases w.rd 32 with ⟨h, hle⟩ | ⟨err, h, hlt⟩
  · rw [h]
    have hl : (List.take 32 w.rd.avail).length = 32 := by simp [List.length_take]; omega
    have h32 : GoSem.toI64 (32 : Int) = 32 := by decide
    simp [hl, h32, hdrOf]
  · rw [h]
    have hne := errOf_ne_nil err
    have hw : GoSem.toI64 ((w.rd.avail.length : Nat) : Int) = ((w.rd.avail.length : Nat) : Int) := by
      unfold GoSem.toI64; exact wrap64_nat _ (by omega)
    simp [hne, hw, wrapE]

/-- generated `ReadHeader` = the model's `pbReadHeader` (count, header info as the getters report it, error class, reader) -/
theorem Tie_pbcmpl_ReadHeader (w : World) (r : Obj) :
    (Gen.Ssa5.pbcmpl_ReadHeader X r 32 w).map viewRH = some (pbReadHeader w.rd) := by
  rw [Tie_pbcmpl_ReadHeader_raw]
  unfold embedRH pbReadHeader viewRH
  rcases hq : readFull w.rd 32 with ⟨b, err, r'⟩
  cases err with
  | some e => simp [classOf_wrapped, classOf_errOf]
  | none =>
    rcases readFull_cases w.rd 32 with ⟨h, hle⟩ | ⟨err, h, hlt⟩
    · rw [hq] at h
      have hb : b = List.take 32 w.rd.avail := by simpa using congrArg Prod.fst h
      have hl : b.length = 32 := by rw [hb]; simp [List.length_take]; omega
      simp [infoOf, hdrOf, classOf_nil, hl]
    · rw [hq] at h; simp at h

/-! non-vacuity: a full header followed by two bytes; a 3-byte stream; an empty stream with an injected error -/
example : (Gen.Ssa5.pbcmpl_ReadHeader X theReader 32 (ofReader ⟨List.replicate 16 65 ++ le64 32 ++ le64 2 ++ [7, 8], .eof⟩)).map viewRH =
    some (32, some ⟨List.replicate 16 65, 32, 2⟩, none, ⟨[7, 8], .eof⟩) := by decide +kernel
example : (Gen.Ssa5.pbcmpl_ReadHeader X theReader 32 (ofReader ⟨[1, 2, 3], .eof⟩)).map viewRH =
    some (3, none, some .unexpectedEOF, ⟨[], .eof⟩) := by decide +kernel
example : (Gen.Ssa5.pbcmpl_ReadHeader X theReader 32 (ofReader ⟨[], .injected⟩)).map (fun res => res.1.2.2) =
    some (.wrapped (.other 0) 0) := by decide +kernel

end Low
