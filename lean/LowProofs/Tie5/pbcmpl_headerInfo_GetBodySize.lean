import LowModel.Pbcmpl
import Generated.Ssa5.pbcmpl_headerInfo_GetBodySize
/-
  Tie for `(*headerInfo).GetBodySize`: `int64(hi.BodySize)`, the uint64 field reinterpreted as int64 (`wrap64`): a field
  ≥ 2^63 comes out negative (the case `Unmarshal` rejects with ErrInvalidBodySize).  No hypothesis.
-/
namespace Low

theorem Tie_pbcmpl_headerInfo_GetBodySize (v : List Nat) (hs bs : Nat) :
    Gen.Ssa5.pbcmpl_headerInfo_GetBodySize (v, hs, bs) = wrap64 (bs : Int) := rfl

example : Gen.Ssa5.pbcmpl_headerInfo_GetBodySize ([], 32, 2^63) = -2^63 := by decide +kernel
example : Gen.Ssa5.pbcmpl_headerInfo_GetBodySize ([], 32, 7) = 7 := by decide +kernel

end Low
