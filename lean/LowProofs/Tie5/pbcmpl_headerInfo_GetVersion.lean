import LowProofs.Tie4.pbcmpl_verStr
import Generated.Ssa5.pbcmpl_headerInfo_GetVersion
/-
  Tie for `(*headerInfo).GetVersion`: `verStr(hi.Version[:])` of the header the `headerInfo` points to.  A `*headerInfo` is
  represented by the header it embeds, a `*header` by the triple (Version, HeaderSize, BodySize).  Domain: the version
  array has fewer than 2^62 elements (it has 16), `fuel ≥ len + 1` (17).  The pointers are assumed non-nil.
-/
namespace Low

theorem Tie_pbcmpl_headerInfo_GetVersion (v : List Nat) (hs bs : Nat) (fuel : Nat)
    (hlen : v.length < 2^62) (hfuel : v.length + 1 ≤ fuel) :
    Gen.Ssa5.pbcmpl_headerInfo_GetVersion fuel (v, hs, bs) = some (verStr v) := by
  unfold Gen.Ssa5.pbcmpl_headerInfo_GetVersion
  simp only [Tie_pbcmpl_verStr v fuel hlen hfuel, Option.bind_some]

example : Gen.Ssa5.pbcmpl_headerInfo_GetVersion 17 ([49, 46, 48, 0, 0, 0, 0, 0, 0, 0, 0, 0, 0, 0, 0, 0], 32, 7) = some [49, 46, 48] := by
  decide +kernel

end Low
