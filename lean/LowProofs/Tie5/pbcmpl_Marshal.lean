import LowProofs.Lemmas.C06
import LowProofs.Tie5.Oracles
import LowProofs.Tie5.pbcmpl_marshal
import Generated.Ssa5.pbcmpl_Marshal
/-
  Tie for `pbcmpl.Marshal(w, msg)`.  With the model oracles (`Tie5.X`) — `msg` is a `VersionedMessage` exactly when the
  world says so and `GetVersion()` answers its version, else the version is `DefaultVer = "1.0.0"`; `proto.Marshal(msg)`
  answers `body`; the writer answers its first two `Write` calls with `a1`, `a2` (ANY two answers: short, failing, failing
  after taking everything) — the definition regenerated from go/ssa equals the model's `pbMarshalScript a1 a2 ver body`:
  same count, an error exactly when the model says `failed` (the writer's own error value, unwrapped), the writer has
  taken exactly the model's bytes, and the body is not written after a failed header write (one call instead of two).
  Both sides panic exactly for `len(ver) > 16`.
  Hypotheses: `proto.Marshal(msg)` succeeds (`Tie_pbcmpl_Marshal_encErr` covers the other case: `(0, err)`, nothing written);
  `32 + |body| < 2^63` (the count `n + n2` is computed in `int`: a Go slice is far shorter).
  `Tie_pbcmpl_Marshal_cap` is the same against the capacity writer of the model's `pbMarshal`.
-/
namespace Low
open Low.C06L Low.Tie5 GoSem5

namespace Tie5
/-- the version `Marshal` uses: `GetVersion()` of a `VersionedMessage`, else `DefaultVer` "1.0.0" -/
def verOf (w : World) : List Nat := w.ver.getD [49, 46, 48, 46, 48]

/-- did the header write fail (then the body is not written) -/
def hdrFailed (a1 : WAns) : Bool := a1.fail || decide (min a1.accept 32 < 32)

/-- Go results and final world of `Marshal`, from the model's `pbMarshalScript` -/
def embedM (w : World) (a1 a2 : WAns) (rest : List WAns) : Option ((Int × Err) × World) :=
  (pbMarshalScript a1 a2 (verOf w) w.body).map fun m =>
    ((((m.1 : Nat) : Int), if m.2.1 then wErr else Err.nil),
     { w with wans := if hdrFailed a1 then a2 :: rest else rest, wrote := w.wrote ++ m.2.2,
              wcalls := w.wcalls + if hdrFailed a1 then 1 else 2 })

/-- the answer a writer with `cap` bytes of room gives to a `Write` of `len` bytes (`wWrite` of the model) -/
def capAns (allOrNothing : Bool) (cap len : Nat) : WAns :=
  if len ≤ cap then ⟨len, false⟩ else if allOrNothing then ⟨0, true⟩ else ⟨cap, true⟩
end Tie5

private theorem toI64_nat (n : Nat) (h : n < 2^63) : GoSem.toI64 ((n : Nat) : Int) = ((n : Nat) : Int) := by
  unfold GoSem.toI64; exact wrap64_nat n h

private theorem addI64_nat (a b : Nat) (h : a + b < 2^63) : GoSem.addI64 (a : Int) (b : Int) = ((a + b : Nat) : Int) := by
  unfold GoSem.addI64
  have := wrap64_nat (a + b) h
  simpa using this

private theorem addI64_32 (b : Nat) (h : 32 + b < 2^63) : GoSem.addI64 32 (b : Int) = ((32 + b : Nat) : Int) := by
  unfold GoSem.addI64
  have := wrap64_nat (32 + b) h
  simpa using this

private theorem bind_some' {α β : Type} (a : α) (f : α → Option β) : Option.bind (some a) f = f a := by
  cases h : f a <;> simp [h]

/-- the part of `Marshal` after the version is known (block 2 of the SSA form), for any version -/
private theorem Marshal_core (w : World) (wr msg : Obj) (ver : List Nat) (a1 a2 : WAns) (rest : List WAns)
    (hw : w.wans = a1 :: a2 :: rest) (hm : w.mErr = .nil) (hb : 32 + w.body.length < 2^63) :
    (Option.bind (Gen.Ssa5.pbcmpl_marshal X msg ver 32 w) fun t5x =>
      if decide (t5x.1.2.2 ≠ Err.nil) = true then some (((0 : Int), t5x.1.2.2), t5x.2) else
      let t10x := X.write t5x.2 wr t5x.1.1
      if decide (t10x.1.2 ≠ Err.nil) = true then some ((GoSem.toI64 t10x.1.1, t10x.1.2), t10x.2) else
      let t15x := X.write t10x.2 wr t5x.1.2.1
      if decide (t15x.1.2 ≠ Err.nil) = true then some ((GoSem.toI64 (GoSem.addI64 t10x.1.1 t15x.1.1), t15x.1.2), t15x.2)
      else some ((GoSem.toI64 (GoSem.addI64 t10x.1.1 t15x.1.1), Err.nil), t15x.2)) =
    (pbMarshalScript a1 a2 ver w.body).map fun m =>
      ((((m.1 : Nat) : Int), if m.2.1 then wErr else Err.nil),
       { w with wans := if hdrFailed a1 then a2 :: rest else rest, wrote := w.wrote ++ m.2.2,
                wcalls := w.wcalls + if hdrFailed a1 then 1 else 2 }) := by
  rw [Tie_pbcmpl_marshal w msg ver (by omega)]
  simp only [hm, ne_eq, not_true_eq_false, if_false]
  unfold pbMarshalScript
  by_cases hv : ver.length ≤ 16
  · have hh := pbHeader_eq ver w.body.length hv
    have hl := pbHeader_length hh
    generalize pad16 ver ++ le64 32 ++ le64 w.body.length = hdr at hh hl
    simp only [hh, Option.map_some, bind_some', X, writeAns, hw, hl]
    by_cases h1 : (a1.fail || decide (min a1.accept 32 < 32)) = true
    · have hn : min a1.accept 32 < 2^63 := by omega
      simp [h1, wErr, hdrFailed, toI64_nat _ hn, hm]
    · have h1' : min a1.accept 32 = 32 := by
        simp only [Bool.or_eq_true, decide_eq_true_eq, not_or, Nat.not_lt] at h1; omega
      have h1f : a1.fail = false := by
        simp only [Bool.or_eq_true, not_or] at h1; simpa using h1.1
      have hn : 32 + min a2.accept w.body.length < 2^63 := by omega
      have hadd : GoSem.toI64 (GoSem.addI64 32 ((min a2.accept w.body.length : Nat) : Int)) =
          ((32 + min a2.accept w.body.length : Nat) : Int) := by
        rw [addI64_32 _ hn, toI64_nat _ hn]
      have htake : List.take 32 hdr = hdr := List.take_of_length_le (by omega)
      by_cases h2 : (a2.fail || decide (min a2.accept w.body.length < w.body.length)) = true
      · simp [h1', h1f, h2, hadd, wErr, hdrFailed, htake, hm]
      · simp [h1', h1f, h2, hadd, wErr, hdrFailed, htake, hm]
  · have hh : pbHeader ver w.body.length = none := by unfold pbHeader; simp; omega
    simp [hh]

theorem Tie_pbcmpl_Marshal (w : World) (wr msg : Obj) (a1 a2 : WAns) (rest : List WAns)
    (hw : w.wans = a1 :: a2 :: rest) (hm : w.mErr = .nil) (hb : 32 + w.body.length < 2^63) :
    Gen.Ssa5.pbcmpl_Marshal X wr msg 32 w = embedM w a1 a2 rest := by
  unfold Gen.Ssa5.pbcmpl_Marshal embedM verOf
  cases hver : w.ver with
  | none =>
    have := Marshal_core w wr msg [49, 46, 48, 46, 48] a1 a2 rest hw hm hb
    have hiv : X.isVersioned w msg = w.ver.isSome := rfl
    simp only [hiv, hver, Option.isSome_none, Bool.false_eq_true, if_false, Option.getD_none]
    simp only [hver] at this
    exact this
  | some v =>
    have := Marshal_core w wr msg v a1 a2 rest hw hm hb
    have hiv : X.isVersioned w msg = w.ver.isSome := rfl
    have hgv : X.getVersion w msg = (w.ver.getD [], w) := rfl
    simp only [hiv, hgv, hver, Option.isSome_some, if_true, Option.getD_some]
    simp only [hver] at this
    exact this

/-- `proto.Marshal(msg)` fails: `Marshal` returns `(0, that error)` and does not touch the writer. -/
theorem Tie_pbcmpl_Marshal_encErr (w : World) (wr msg : Obj) (hm : w.mErr ≠ .nil) (hb : w.body.length < 2^64) :
    Gen.Ssa5.pbcmpl_Marshal X wr msg 32 w = some ((0, w.mErr), w) := by
  unfold Gen.Ssa5.pbcmpl_Marshal
  have hiv : X.isVersioned w msg = w.ver.isSome := rfl
  have hgv : X.getVersion w msg = (w.ver.getD [], w) := rfl
  simp only [hiv, hgv, Tie_pbcmpl_marshal w msg _ hb, hm, ne_eq, not_false_eq_true, if_true, bind_some', decide_true]
  split <;> rfl

/-- the capacity writer of the model's `pbMarshal` is a scripted writer -/
theorem pbMarshal_eq_script (m : Bool) (cap : Nat) (ver body : List Nat) :
    pbMarshal m cap ver body = pbMarshalScript (capAns m cap 32) (capAns m (cap - 32) body.length) ver body := by
  unfold pbMarshal pbMarshalScript
  cases hh : pbHeader ver body.length with
  | none => rfl
  | some h =>
    have hl := pbHeader_length hh
    simp only [wWrite, capAns, hl]
    by_cases h1 : 32 ≤ cap
    · by_cases h2 : body.length ≤ cap - 32
      · have : body.length ≤ cap - min 32 32 := by omega
        simp [h1, h2]
      · cases m <;> simp [h1, h2] <;> omega
    · cases m <;> simp [h1] <;> omega

/-- `Marshal` against a writer with `cap` bytes of room (the model's `pbMarshal`, both failure modes) -/
theorem Tie_pbcmpl_Marshal_cap (w : World) (wr msg : Obj) (m : Bool) (cap : Nat) (rest : List WAns)
    (hw : w.wans = capAns m cap 32 :: capAns m (cap - 32) w.body.length :: rest) (hm : w.mErr = .nil)
    (hb : 32 + w.body.length < 2^63) :
    (Gen.Ssa5.pbcmpl_Marshal X wr msg 32 w).map (fun res => (res.1.1, decide (res.1.2 ≠ Err.nil), res.2.wrote)) =
      (pbMarshal m cap (verOf w) w.body).map (fun r => (((r.1 : Nat) : Int), r.2.1, w.wrote ++ r.2.2)) := by
  rw [Tie_pbcmpl_Marshal w wr msg _ _ rest hw hm hb, pbMarshal_eq_script]
  unfold embedM
  cases pbMarshalScript (capAns m cap 32) (capAns m (cap - 32) w.body.length) (verOf w) w.body with
  | none => rfl
  | some r => rcases r with ⟨n, f, bs⟩; cases f <;> simp [wErr]

/-! non-vacuity: a versioned message into a writer that takes everything; "1.0.0" by default; a header write that is
    taken in full AND fails; a short body write; a 17-byte version panics -/
example : Gen.Ssa5.pbcmpl_Marshal X theWriter theMsg 32 (ofWriter (some [50]) [7, 8, 9] [⟨32, false⟩, ⟨3, false⟩]) =
    some ((35, .nil), { ofWriter (some [50]) [7, 8, 9] [] with
      wrote := [50, 0, 0, 0, 0, 0, 0, 0, 0, 0, 0, 0, 0, 0, 0, 0, 32, 0, 0, 0, 0, 0, 0, 0, 3, 0, 0, 0, 0, 0, 0, 0, 7, 8, 9], wcalls := 2 }) := by
  decide +kernel
example : (Gen.Ssa5.pbcmpl_Marshal X theWriter theMsg 32 (ofWriter none [7] [⟨99, false⟩, ⟨99, false⟩])).map (fun x => (x.1, x.2.wrote.take 6)) =
    some ((33, .nil), [49, 46, 48, 46, 48, 0]) := by decide +kernel
example : (Gen.Ssa5.pbcmpl_Marshal X theWriter theMsg 32 (ofWriter none [7, 8, 9] [⟨32, true⟩, ⟨3, false⟩])).map (fun x => (x.1, x.2.wcalls, x.2.wrote.length)) =
    some ((32, wErr), 1, 32) := by decide +kernel
example : (Gen.Ssa5.pbcmpl_Marshal X theWriter theMsg 32 (ofWriter none [7, 8, 9] [⟨32, false⟩, ⟨2, false⟩])).map (fun x => (x.1, x.2.wcalls, x.2.wrote.length)) =
    some ((34, wErr), 2, 34) := by decide +kernel
example : Gen.Ssa5.pbcmpl_Marshal X theWriter theMsg 32 (ofWriter (some (List.replicate 17 65)) [] [⟨32, false⟩, ⟨0, false⟩]) = none := by
  decide +kernel

end Low
