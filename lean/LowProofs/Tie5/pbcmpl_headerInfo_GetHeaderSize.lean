import LowModel.Pbcmpl
import Generated.Ssa5.pbcmpl_headerInfo_GetHeaderSize
/-
  Tie for `(*headerInfo).GetHeaderSize`: `int64(hi.HeaderSize)`, the uint64 field reinterpreted as int64 (`wrap64`), as in
  the model's `pbReadHeader`.  No hypothesis.  The pointers are assumed non-nil.
-/
namespace Low

theorem Tie_pbcmpl_headerInfo_GetHeaderSize (v : List Nat) (hs bs : Nat) :
    Gen.Ssa5.pbcmpl_headerInfo_GetHeaderSize (v, hs, bs) = wrap64 (hs : Int) := rfl

example : Gen.Ssa5.pbcmpl_headerInfo_GetHeaderSize ([], 2^64 - 1, 5) = -1 := by decide +kernel

end Low
