import Generated.Ssa.bmtree_Height
import LowModel.Bmtree.Path
import LowProofs.Tie.Lemmas
/-
  Tie: the definition regenerated from the SSA form of `bmtree.Height` equals the hand-written model `height`.
-/
namespace Low
open Low.GoSem Low.TieL

/-- Domain: `bitmapSize` any non-negative `int32` (the model takes a `Nat`; the equation needs no bound).
    Total: the Go function cannot panic. -/
theorem Tie_bmtree_Height (t : Nat) : Gen.Ssa.bmtree_Height (t : Int) = height t := by
  have hl : lz (t % M32) 32 ≤ 32 := lz_le _ _
  rw [Gen.Ssa.bmtree_Height, height]
  simp only [toU32, u32_ofNat, leadingZeros32]
  generalize lz (t % M32) 32 = l at hl
  rw [subI64, wrap64_id (by omega) (by omega), toI32, wrap32_id (by omega) (by omega)]

example : Gen.Ssa.bmtree_Height 16 = 4 := by decide
example : height 16 = 4 := by decide

end Low
