import Generated.Ssa.bmtree_PathBits
import LowModel.Bmtree.Path
import LowProofs.Tie.Lemmas
/-
  Tie: the definition regenerated from the SSA form of `bmtree.PathBits` equals the hand-written model `pathBits`.
-/
namespace Low
open Low.GoSem Low.TieL

/-- Domain: every `path`.  Total: no panic. -/
theorem Tie_bmtree_PathBits (p : Nat) : Gen.Ssa.bmtree_PathBits p = pathBits p := by
  rw [Gen.Ssa.bmtree_PathBits, pathBits]
  simp only [shrU64_lt p (by omega : 32 < 64)]

example : Gen.Ssa.bmtree_PathBits 0x5_0000000e = 5 := by decide

end Low
