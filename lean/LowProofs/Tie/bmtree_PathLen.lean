import Generated.Ssa.bmtree_PathLen
import LowModel.Bmtree.Path
import LowProofs.Tie.Lemmas
/-
  Tie: the definition regenerated from the SSA form of `bmtree.PathLen` equals the hand-written model `pathLen`.
-/
namespace Low
open Low.GoSem Low.TieL

/-- Domain: every `p` (the equation does not even need `p < 2^64`).  Total: no panic. -/
theorem Tie_bmtree_PathLen (p : Nat) : Gen.Ssa.bmtree_PathLen p = ((pathLen p : Nat) : Int) := by
  have hl : popc (p % M32) 32 ≤ 32 := popc_le _ _
  rw [Gen.Ssa.bmtree_PathLen, pathLen]
  simp only [toU32, u32_ofNat, onesCount32]
  exact toI32_ofNat_lt (by omega)

example : Gen.Ssa.bmtree_PathLen 0x5_0000000e = 3 := by decide
example : pathLen 0x5_0000000e = 3 := by decide

end Low
