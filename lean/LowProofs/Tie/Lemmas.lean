import LowModel.GoSem
import LowProofs.Lemmas.Bits
/-
  Helper lemmas for the tie proofs (`LowProofs/Tie/*.lean`): what the `GoSem` operations compute on
  in-range arguments, in terms of plain `Nat` / `Int` arithmetic.
-/
namespace Low.TieL
open Low Low.GoSem

/-! ### wraps and conversions -/

theorem wrap32_id {x : Int} (h1 : -2147483648 ≤ x) (h2 : x < 2147483648) : wrap32 x = x := by
  unfold wrap32; simp only [M32]; omega

theorem wrap64_id {x : Int} (h1 : -9223372036854775808 ≤ x) (h2 : x < 9223372036854775808) : wrap64 x = x := by
  unfold wrap64; simp only [M64]; omega

theorem wrap32_ofNat {n : Nat} (h : n < 2147483648) : wrap32 (n : Int) = n := wrap32_id (by omega) (by omega)

theorem wrap64_ofNat {n : Nat} (h : n < 9223372036854775808) : wrap64 (n : Int) = n := wrap64_id (by omega) (by omega)

theorem u32_ofNat (n : Nat) : u32 (n : Int) = n % M32 := by
  unfold u32; simp only [M32]; omega

theorem u64_ofNat (n : Nat) : u64 (n : Int) = n % M64 := by
  unfold u64; simp only [M64]; omega

theorem u32_ofNat_lt {n : Nat} (h : n < 4294967296) : u32 (n : Int) = n := by
  rw [u32_ofNat]; exact Nat.mod_eq_of_lt h

theorem u64_ofNat_lt {n : Nat} (h : n < 18446744073709551616) : u64 (n : Int) = n := by
  rw [u64_ofNat]; exact Nat.mod_eq_of_lt h

/-- the low bit of the int32 conversion of a natural number -/
theorem wrap32_ofNat_mod_two (n : Nat) : wrap32 (n : Int) % 2 = ((n % 2 : Nat) : Int) := by
  unfold wrap32; simp only [M32]; omega

/-! ### unfolding lemmas for the unsigned operations
  Stated as theorems (not `rfl`-lemmas) on purpose: `simp only [andU64]` would unfold by definitional equality
  and leave the kernel to re-discover it, which can send its `Nat.land` literal reduction into huge symbolic terms. -/
theorem andU64_eq (x y : Nat) : andU64 x y = x &&& y := by rw [andU64]
theorem orU64_eq (x y : Nat) : orU64 x y = x ||| y := by rw [orU64]
theorem shlU64_eq (x s : Nat) : shlU64 x s = shl64 x s := by rw [shlU64]
theorem shrU64_eq (x s : Nat) : shrU64 x s = shr64 x s := by rw [shrU64]
theorem shrU64_lt (x : Nat) {s : Nat} (h : s < 64) : shrU64 x s = x >>> s := by rw [shrU64, shr64, if_pos h]
theorem toU64_ofNat_lt {n : Nat} (h : n < 18446744073709551616) : toU64 (n : Int) = n := by
  rw [toU64]; exact u64_ofNat_lt h
theorem toU32_ofNat_lt {n : Nat} (h : n < 4294967296) : toU32 (n : Int) = n := by
  rw [toU32]; exact u32_ofNat_lt h
theorem toI32_ofNat_lt {n : Nat} (h : n < 2147483648) : toI32 (n : Int) = n := by
  rw [toI32]; exact wrap32_ofNat h

theorem lz_le (w n : Nat) : lz w n ≤ n := by unfold lz; omega

/-! ### slices and tables -/

theorem index_ofNat {α : Type} (xs : List α) (k : Nat) : index xs (k : Int) = xs[k]? := by
  unfold index; simp; omega

theorem index_neg {α : Type} (xs : List α) {k : Int} (h : k < 0) : index xs k = none := by
  unfold index; simp [h]

theorem index_toNat {α : Type} (xs : List α) {k : Int} (h : 0 ≤ k) : index xs k = xs[k.toNat]? := by
  unfold index; simp; omega

theorem tbl_ofNat {n : Nat} {f : Nat → Nat} {k : Nat} (h : k < n) : tbl n f (k : Int) = some (f k) := by
  unfold tbl; simp; omega

theorem tblMask_ofNat {k : Nat} (h : k < 65) : tblMask (k : Int) = some (mask k) := tbl_ofNat h
theorem tblBit_ofNat {k : Nat} (h : k < 64) : tblBit (k : Int) = some (bit k) := tbl_ofNat h

/-! ### int32 shifts and masks -/

theorem shrI32_ofNat (n s : Nat) : shrI32 (n : Int) s = ((n >>> s : Nat) : Int) := by
  unfold shrI32; rfl

theorem shrI32_eq_div (x : Int) (s : Nat) : shrI32 x s = x / ((2 ^ s : Nat) : Int) := by
  unfold shrI32; exact Int.shiftRight_eq_div_pow x s

theorem shr_6 (n : Nat) : n >>> 6 = n / 64 := by rw [Nat.shiftRight_eq_div_pow]
theorem shr_7 (n : Nat) : n >>> 7 = n / 128 := by rw [Nat.shiftRight_eq_div_pow]
theorem shr_3 (n : Nat) : n >>> 3 = n / 8 := by rw [Nat.shiftRight_eq_div_pow]
theorem shrI32_6 (x : Int) : shrI32 x 6 = x / 64 := by rw [shrI32_eq_div]; rfl
theorem shrI32_7 (x : Int) : shrI32 x 7 = x / 128 := by rw [shrI32_eq_div]; rfl
theorem shrI32_3 (x : Int) : shrI32 x 3 = x / 8 := by rw [shrI32_eq_div]; rfl
theorem shrI32_6_ofNat (n : Nat) : shrI32 (n : Int) 6 = ((n / 64 : Nat) : Int) := by rw [shrI32_ofNat, shr_6]
theorem shrI32_7_ofNat (n : Nat) : shrI32 (n : Int) 7 = ((n / 128 : Nat) : Int) := by rw [shrI32_ofNat, shr_7]
theorem shrI32_3_ofNat (n : Nat) : shrI32 (n : Int) 3 = ((n / 8 : Nat) : Int) := by rw [shrI32_ofNat, shr_3]

/-- `x & y` on non-negative int32 values is the `Nat` conjunction -/
theorem andI32_ofNat {a b : Nat} (ha : a < 2147483648) (hb : b < 2147483648) :
    andI32 (a : Int) (b : Int) = ((a &&& b : Nat) : Int) := by
  unfold andI32
  rw [u32_ofNat_lt (by omega), u32_ofNat_lt (by omega)]
  apply wrap32_ofNat
  have : a &&& b ≤ a := Nat.and_le_left
  omega

theorem mulI32_natCast (a b : Nat) : mulI32 (a : Int) (b : Int) = wrap32 ((a * b : Nat) : Int) := by
  rw [mulI32, Int.natCast_mul]

theorem and_63 (n : Nat) : n &&& 63 = n % 64 := Nat.and_two_pow_sub_one_eq_mod n 6
theorem and_7 (n : Nat) : n &&& 7 = n % 8 := Nat.and_two_pow_sub_one_eq_mod n 3
theorem and_1 (n : Nat) : n &&& 1 = n % 2 := Nat.and_two_pow_sub_one_eq_mod n 1

/-- `i & 63` on any int32 (two's complement): the Euclidean remainder -/
theorem andI32_63 (x : Int) : andI32 x 63 = x % 64 := by
  unfold andI32
  have h63 : u32 63 = 63 := by decide
  rw [h63, and_63]
  unfold u32; simp only [M32]
  apply (wrap32_id (by omega) (by omega)).trans
  omega

/-- `x & 1` on any int32 -/
theorem andI32_1 (x : Int) : andI32 x 1 = x % 2 := by
  unfold andI32
  have h1 : u32 1 = 1 := by decide
  rw [h1, and_1]
  unfold u32; simp only [M32]
  apply (wrap32_id (by omega) (by omega)).trans
  omega

theorem andI32_63_ofNat (n : Nat) : andI32 (n : Int) 63 = ((n % 64 : Nat) : Int) := by
  rw [andI32_63]; omega

/-- `x & -8` (i.e. `x & ^7`) on a non-negative int32 clears the low three bits -/
theorem and_neg8 {n : Nat} (h : n < 4294967296) : n &&& 4294967288 = n / 8 * 8 := by
  have e : (4294967288 : Nat) = (2^29 - 1) <<< 3 := by decide
  have e2 : n / 8 * 8 = (n >>> 3) <<< 3 := by rw [Nat.shiftLeft_eq, shr_3]
  apply Nat.eq_of_testBit_eq; intro k
  rw [e, e2, Nat.testBit_and, Nat.testBit_shiftLeft, Nat.testBit_shiftLeft, Nat.testBit_two_pow_sub_one,
    Nat.testBit_shiftRight]
  by_cases hk : 3 ≤ k
  · have e3 : 3 + (k - 3) = k := by omega
    rw [e3]
    by_cases hk2 : k < 32
    · have : k - 3 < 29 := by omega
      simp [hk, this]
    · have h32 : (2 : Nat) ^ 32 ≤ 2 ^ k := Nat.pow_le_pow_right (by omega) (by omega)
      have : n.testBit k = false := Nat.testBit_lt_two_pow (Nat.lt_of_lt_of_le h h32)
      simp [this]
  · simp [hk]

theorem andI32_neg8_ofNat {n : Nat} (h : n < 2147483648) : andI32 (n : Int) (-8) = ((n / 8 * 8 : Nat) : Int) := by
  have hm : u32 (-8) = 4294967288 := by decide
  rw [andI32, u32_ofNat_lt (by omega), hm, and_neg8 (by omega)]
  exact wrap32_ofNat (by omega)

theorem addI32_ofNat {a b : Nat} (h : a + b < 2147483648) : addI32 (a : Int) (b : Int) = ((a + b : Nat) : Int) := by
  rw [addI32]; exact (wrap32_id (by omega) (by omega)).trans (by omega)

theorem subI32_ofNat {a b : Nat} (hle : b ≤ a) (h : a < 2147483648) :
    subI32 (a : Int) (b : Int) = ((a - b : Nat) : Int) := by
  rw [subI32]; exact (wrap32_id (by omega) (by omega)).trans (by omega)

/-! ### bytes of a string -/

theorem index_getD (s : List Nat) {k : Nat} (h : k < s.length) : index s (k : Int) = some (s.getD k 0) := by
  rw [index_ofNat, List.getD_eq_getElem?_getD, List.getElem?_eq_getElem h]; rfl

theorem getD_lt {s : List Nat} (hs : ∀ b ∈ s, b < 256) (k : Nat) : s.getD k 0 < 256 := by
  rw [List.getD_eq_getElem?_getD]
  cases h : s[k]? with
  | none => simp
  | some b => exact hs b (List.mem_of_getElem? h)

/-- a byte shifted left by at most 32 fits a uint64: no truncation -/
theorem shl64_byte {x sh : Nat} (hx : x < 256) (hs : sh ≤ 32) : shl64 x sh = x <<< sh := by
  have h1 : (2 : Nat) ^ sh ≤ 2 ^ 32 := Nat.pow_le_pow_right (by omega) hs
  have h2 : x * 2 ^ sh ≤ 255 * 2 ^ 32 := Nat.mul_le_mul (by omega) h1
  rw [shl64, if_pos (by omega), Nat.shiftLeft_eq]
  apply Nat.mod_eq_of_lt
  simp only [M64]
  omega

end Low.TieL
