import Generated.Ssa.bmtree_PathMask
import LowModel.Bmtree.Path
import LowProofs.Tie.Lemmas
/-
  Tie: the definition regenerated from the SSA form of `bmtree.PathMask` equals the hand-written model `pathMask`.
-/
namespace Low
open Low.GoSem Low.TieL

/-- Domain: every `path`.  Total: no panic. -/
theorem Tie_bmtree_PathMask (p : Nat) : Gen.Ssa.bmtree_PathMask p = pathMask p := by
  rw [Gen.Ssa.bmtree_PathMask, pathMask]
  simp only [andU64_eq]

example : Gen.Ssa.bmtree_PathMask 0x5_0000000e = 0xe := by decide

end Low
