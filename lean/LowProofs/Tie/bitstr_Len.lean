import Generated.Ssa.bitstr_Len
import LowModel.Bitstr
import LowProofs.Tie.Lemmas
/-
  Tie: the definition regenerated from the SSA form of `bitstr.Len` equals the hand-written model `bsLen`.
-/
namespace Low
open Low.GoSem Low.TieL

/-- Domain: `len(bs) < 2^28`, so that `int32(len(bs)) << 3` does not overflow (the project's bound for
    bitstr/sigbits strings).  For the empty slice both sides are `none` (the Go function panics on `bs[-1]`).
    The equation does not need the bytes to be `< 256`. -/
theorem Tie_bitstr_Len (bs : List Nat) (hlen : bs.length < 2^28) :
    Gen.Ssa.bitstr_Len bs = bsLen bs := by
  rw [Gen.Ssa.bitstr_Len, bsLen, List.getLast?_eq_getElem?]
  have h1 : toI32 (len bs) = (bs.length : Int) := by rw [len]; exact toI32_ofNat_lt (by omega)
  have h2 : shlI32 (bs.length : Int) 3 = (bs.length : Int) * 8 := by
    rw [shlI32]; exact wrap32_id (by omega) (by omega)
  have h3 : subI32 ((bs.length : Int) * 8) 16 = (bs.length : Int) * 8 - 16 := by
    rw [subI32]; exact wrap32_id (by omega) (by omega)
  have h4 : subI64 (len bs) 1 = (bs.length : Int) - 1 := by
    rw [subI64, len]; exact wrap64_id (by omega) (by omega)
  simp only [h1, h2, h3, h4]
  by_cases h0 : bs.length = 0
  · have : bs = [] := List.eq_nil_of_length_eq_zero h0
    subst this
    rfl
  · have hi : index bs ((bs.length : Int) - 1) = bs[bs.length - 1]? := by
      have ht : ((bs.length : Int) - 1).toNat = bs.length - 1 := by omega
      rw [index_toNat bs (by omega), ht]
    rw [hi]
    cases bs[bs.length - 1]? with
    | none => rfl
    | some m =>
      have hp : popc m 8 ≤ 8 := popc_le _ _
      have h5 : toI32 (onesCount8 m) = ((popc m 8 : Nat) : Int) := by
        rw [onesCount8]; exact toI32_ofNat_lt (by omega)
      have h6 : addI32 ((bs.length : Int) * 8 - 16) ((popc m 8 : Nat) : Int)
          = (bs.length : Int) * 8 - 16 + ((popc m 8 : Nat) : Int) := by
        rw [addI32]; exact wrap32_id (by omega) (by omega)
      simp only [Option.bind_some, h5, h6]

example : Gen.Ssa.bitstr_Len [0x61, 0x60, 0xf0] = some 12 := by decide
example : bsLen [0x61, 0x60, 0xf0] = some 12 := by decide
example : Gen.Ssa.bitstr_Len [] = none := by decide

end Low
