import Generated.Ssa.bmtree_PathHeight
import LowModel.Bmtree.Path
import LowProofs.Tie.Lemmas
/-
  Tie: the definition regenerated from the SSA form of `bmtree.PathHeight` equals the hand-written model
  `pathHeight`.
-/
namespace Low
open Low.GoSem Low.TieL

/-- Domain: every `path` (the equation does not even need `path < 2^64`).  Total: no panic. -/
theorem Tie_bmtree_PathHeight (p : Nat) : Gen.Ssa.bmtree_PathHeight p = ((pathHeight p : Nat) : Int) := by
  have hl : lz (p % M32) 32 ≤ 32 := lz_le _ _
  rw [Gen.Ssa.bmtree_PathHeight, pathHeight]
  simp only [toU32, u32_ofNat, leadingZeros32]
  generalize lz (p % M32) 32 = l at hl
  rw [subI64, wrap64_id (by omega) (by omega), toI32, wrap32_id (by omega) (by omega)]
  omega

example : Gen.Ssa.bmtree_PathHeight 0x5_0000000e = 4 := by decide
example : pathHeight 0x5_0000000e = 4 := by decide

end Low
