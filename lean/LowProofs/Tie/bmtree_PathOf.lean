import Generated.Ssa.bmtree_PathOf
import LowModel.Bmtree.Path
import LowProofs.Tie.Lemmas
import LowProofs.Tie.bitmap_FromStr32
import LowProofs.Tie.bmtree_NewPath
/-
  Tie: the definition regenerated from the SSA form of `bmtree.PathOf` equals the hand-written model `pathOf`.
  The generated definition calls the generated `bitmap_FromStr32` and `bmtree_NewPath`; the proof composes their ties.
-/
namespace Low
open Low.GoSem Low.TieL

/-- the number of bits `FromStr32` reports never exceeds the requested width -/
theorem fromStr32_fst_le (s : List Nat) (f t : Nat) : (fromStr32 s f t).1 ≤ t - f := by
  simp only [fromStr32]
  by_cases c1 : (s.length : Int) * 8 - (f : Int) > ((t - f : Nat) : Int)
  · by_cases c2 : ((t - f : Nat) : Int) ≤ 0
    · simp only [c1, c2, ↓reduceIte]; exact Nat.zero_le _
    · simp only [c1, c2, ↓reduceIte]; omega
  · by_cases c2 : (s.length : Int) * 8 - (f : Int) ≤ 0
    · simp only [c1, c2, ↓reduceIte]; exact Nat.zero_le _
    · simp only [c1, c2, ↓reduceIte]; omega

/-- Domain: `frombit ≥ 0`, `height ≤ 32` (contract of `FromStr32`), `frombit + height + 7` an `int32`,
    `len(s) < 2^28`, every element of `s` a byte.  `= some …`: no panic on the domain. -/
theorem Tie_bmtree_PathOf (s : List Nat) (f h : Nat)
    (hh : h ≤ 32) (hf : f + h + 7 < 2^31) (hlen : s.length < 2^28) (hbytes : ∀ b ∈ s, b < 256) :
    Gen.Ssa.bmtree_PathOf s (f : Int) (h : Int) = some (pathOf s f h) := by
  have h0 : addI32 (f : Int) (h : Int) = ((f + h : Nat) : Int) := addI32_ofNat (by omega)
  have hle := fromStr32_fst_le s f (f + h)
  rw [Gen.Ssa.bmtree_PathOf, pathOf]
  simp only [h0, Tie_bitmap_FromStr32 s f (f + h) (by omega) (by omega) (by omega) hlen hbytes, Option.bind_some,
    Tie_bmtree_NewPath (fromStr32 s f (f + h)).2 (fromStr32 s f (f + h)).1 h (by omega) (by omega) (by omega)]

example : Gen.Ssa.bmtree_PathOf [0x61, 0x62, 0x63] 5 7 = some 0x16_0000007f := by decide

end Low
