import Generated.Ssa.iohelper_SectionWriter_Seek
import LowModel.Iohelper
import LowProofs.Tie.Lemmas
/-
  Tie: the definition regenerated from the SSA form of `(*iohelper.SectionWriter).Seek` equals the hand-written
  model `SectionWriter.seek`.  The generated definition takes the receiver's fields `base`, `off`, `limit` and
  returns `(result, error, final value of off)`: `off` is the only field the method stores to, so `base` and `limit`
  are unchanged by construction of the translation (and in the model: second conjunct).
-/
namespace Low
open Low.GoSem Low.TieL

/-- the identity of the Go error value that the model's error enum stands for (`GoSem.Err`) -/
def ioErrId : Option IoErr → GoSem.Err
  | none => none
  | some .whence => some "iohelper.errWhence"
  | some .offset => some "iohelper.errOffset"
  | some .shortWrite => some "io.ErrShortWrite"
  | some .underlying => some "(error of the underlying writer)"

/-- Domain: every receiver state, every `offset : int64`, every `whence : int` (all `int64` sums wrap on both
    sides).  Total: no panic. -/
theorem Tie_iohelper_SectionWriter_Seek (s : SectionWriter) (offset whence : Int) :
    Gen.Ssa.iohelper_SectionWriter_Seek s.base s.off s.limit offset whence
      = ((s.seek offset whence).2.n, ioErrId (s.seek offset whence).2.err, (s.seek offset whence).1.off)
    ∧ (s.seek offset whence).1.base = s.base ∧ (s.seek offset whence).1.limit = s.limit := by
  rw [Gen.Ssa.iohelper_SectionWriter_Seek, SectionWriter.seek]
  simp only [addI64, subI64]
  by_cases h0 : whence = 0
  · by_cases hb : wrap64 (offset + s.base) < s.base <;> simp [h0, hb, ioErrId]
  · by_cases h1 : whence = 1
    · by_cases hb : wrap64 (offset + s.off) < s.base <;> simp [h1, hb, ioErrId]
    · by_cases h2 : whence = 2
      · by_cases hb : wrap64 (offset + s.limit) < s.base <;> simp [h2, hb, ioErrId]
      · simp [h0, h1, h2, ioErrId]

example : Gen.Ssa.iohelper_SectionWriter_Seek 10 12 110 5 1 = (7, none, 17) := by decide
example : Gen.Ssa.iohelper_SectionWriter_Seek 10 12 110 (-5) 0 = (0, some "iohelper.errOffset", 12) := by decide
example : Gen.Ssa.iohelper_SectionWriter_Seek 10 12 110 5 3 = (0, some "iohelper.errWhence", 12) := by decide

end Low
