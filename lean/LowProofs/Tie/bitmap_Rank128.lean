import Generated.Ssa.bitmap_Rank128
import LowModel.Bitmap.Rank
import LowProofs.Tie.Lemmas
/-
  Tie: the definition regenerated from the SSA form of `bitmap.Rank128` equals the hand-written model `rank128`.
-/
namespace Low
open Low.GoSem Low.TieL

/-- Domain: `i ≥ 0` with `i + 64` still an `int32` (the Go code computes `(i+64)>>7` in `int32`; true for every
    position of a bitmap of fewer than `2^25` words, the project's `BmDom`); every index entry `n` satisfies
    `n + 64 ≤ 2^31`, so that `n - atRight*cnt1 + OnesCount64(…)` cannot overflow (true for every index built by
    `IndexRank128` in `BmDom`).  No hypothesis on `ws` or on the lengths: where the Go function panics (index out
    of range) both sides are `none`.  The equation does not need `w < 2^64` for the words. -/
theorem Tie_bitmap_Rank128 (ws idx : List Nat) (i : Nat) (hi : i + 64 < 2^31)
    (hidx : ∀ n ∈ idx, n + 64 ≤ 2^31) :
    Gen.Ssa.bitmap_Rank128 ws (idx.map Int.ofNat) (i : Int)
      = (rank128 ws idx i).map (fun p => (p.1, (p.2 : Int))) := by
  have hj : i % 64 < 64 := Nat.mod_lt _ (by omega)
  have h64 : addI32 (i : Int) 64 = ((i + 64 : Nat) : Int) := by
    rw [addI32]; exact wrap32_id (by omega) (by omega)
  have hr : andI32 ((i / 64 : Nat) : Int) 1 = ((i / 64 % 2 : Nat) : Int) := by
    rw [andI32_1]; omega
  rw [Gen.Ssa.bitmap_Rank128, rank128]
  simp only [shrI32_6_ofNat, andI32_63_ofNat, h64, shrI32_7_ofNat, hr, index_ofNat,
    toU32_ofNat_lt (Nat.lt_trans hj (by omega)), toU64_ofNat_lt (Nat.lt_trans hj (by omega)),
    tblMask_ofNat (Nat.lt_trans hj (by omega)), shrU64_lt _ hj, andU64_eq, List.getElem?_map]
  cases hn : idx[(i + 64) / 128]? with
  | none => rfl
  | some n =>
    cases hw : ws[i / 64]? with
    | none => rfl
    | some w =>
      have hn' : n + 64 ≤ 2^31 := hidx n (List.mem_of_getElem? hn)
      have hp : popc (w &&& mask (i % 64)) 64 ≤ i % 64 := by
        rw [popc_and_mask]; exact Nat.le_trans (popc_le _ _) (Nat.min_le_right _ _)
      have hq : popc w 64 ≤ 64 := popc_le _ _
      have hc : toI32 (onesCount64 (w &&& mask (i % 64))) = ((popc (w &&& mask (i % 64)) 64 : Nat) : Int) := by
        rw [onesCount64]; exact toI32_ofNat_lt (by omega)
      have hd : toI32 (onesCount64 w) = ((popc w 64 : Nat) : Int) := by
        rw [onesCount64]; exact toI32_ofNat_lt (by omega)
      have ha : i / 64 % 2 * popc w 64 ≤ 64 := by
        rcases Nat.mod_two_eq_zero_or_one (i / 64) with h | h <;> rw [h] <;> omega
      have hb : andI32 (toI32 ((w >>> (i % 64) : Nat) : Int)) 1 = ((w >>> (i % 64) % 2 : Nat) : Int) := by
        rw [andI32_1, toI32, wrap32_ofNat_mod_two]
      have hcnt : addI32 (subI32 (Int.ofNat n) (mulI32 ((i / 64 % 2 : Nat) : Int) ((popc w 64 : Nat) : Int)))
            ((popc (w &&& mask (i % 64)) 64 : Nat) : Int)
          = (n : Int) - ((i / 64 % 2 : Nat) : Int) * ((popc w 64 : Nat) : Int)
              + ((popc (w &&& mask (i % 64)) 64 : Nat) : Int) := by
        rw [mulI32_natCast, ← Int.natCast_mul]
        generalize i / 64 % 2 * popc w 64 = a at ha
        generalize popc (w &&& mask (i % 64)) 64 = p at hp
        generalize i % 64 = j at hj hp
        rw [wrap32_ofNat (by omega), subI32, Int.ofNat_eq_natCast,
          wrap32_id (by omega) (by omega), addI32, wrap32_id (by omega) (by omega)]
      simp only [Option.map_some, Option.bind_some, hc, hd, hcnt, hb]
      rfl

example : Gen.Ssa.bitmap_Rank128 [0xff, 0x5, 0x1] ([0, 10, 11].map Int.ofNat) 66 = some (9, 1) := by decide
example : rank128 [0xff, 0x5, 0x1] [0, 10, 11] 66 = some (9, 1) := by decide

end Low
