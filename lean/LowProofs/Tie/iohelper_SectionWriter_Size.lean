import Generated.Ssa.iohelper_SectionWriter_Size
import LowModel.Iohelper
import LowProofs.Tie.Lemmas
/-
  Tie: the definition regenerated from the SSA form of `(*iohelper.SectionWriter).Size` equals the hand-written
  model `SectionWriter.size`.  The generated definition takes the receiver's fields `base`, `off`, `limit`.
-/
namespace Low
open Low.GoSem Low.TieL

/-- Domain: every receiver state (the `int64` subtraction wraps on both sides).  Total: no panic; the method
    stores to no field (the generated definition returns only the result). -/
theorem Tie_iohelper_SectionWriter_Size (s : SectionWriter) :
    Gen.Ssa.iohelper_SectionWriter_Size s.base s.off s.limit = s.size := by
  rw [Gen.Ssa.iohelper_SectionWriter_Size, SectionWriter.size, subI64]

example : Gen.Ssa.iohelper_SectionWriter_Size 10 12 110 = 100 := by decide

end Low
