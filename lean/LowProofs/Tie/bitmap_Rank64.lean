import Generated.Ssa.bitmap_Rank64
import LowModel.Bitmap.Rank
import LowProofs.Tie.Lemmas
/-
  Tie: the definition regenerated from the SSA form of `bitmap.Rank64` equals the hand-written model `rank64`.
-/
namespace Low
open Low.GoSem Low.TieL

/-- Domain: `i` any non-negative `int32`; every index entry `n` satisfies `n + 64 ≤ 2^31`, so that the `int32`
    sum `n + OnesCount64(…)` cannot overflow (true for every index built by `IndexRank64` over fewer than `2^25`
    words, the project's `BmDom`: entries are at most `64 * len(words) ≤ 2^31 - 64`).
    No hypothesis on `ws`, on the lengths or on `i < 64 * len(ws)`: where the Go function panics (index out of
    range in `rindex` or `words`) both sides are `none`.  The equation does not need `w < 2^64` for the words. -/
theorem Tie_bitmap_Rank64 (ws idx : List Nat) (i : Nat) (hidx : ∀ n ∈ idx, n + 64 ≤ 2^31) :
    Gen.Ssa.bitmap_Rank64 ws (idx.map Int.ofNat) (i : Int)
      = (rank64 ws idx i).map (fun p => ((p.1 : Int), (p.2 : Int))) := by
  have hj : i % 64 < 64 := Nat.mod_lt _ (by omega)
  rw [Gen.Ssa.bitmap_Rank64, rank64]
  simp only [shrI32_6_ofNat, andI32_63_ofNat, index_ofNat, toU32_ofNat_lt (Nat.lt_trans hj (by omega)),
    toU64_ofNat_lt (Nat.lt_trans hj (by omega)), tblMask_ofNat (Nat.lt_trans hj (by omega)), shrU64_lt _ hj,
    andU64_eq, List.getElem?_map]
  cases hn : idx[i / 64]? with
  | none => rfl
  | some n =>
    cases hw : ws[i / 64]? with
    | none => rfl
    | some w =>
      have hn' : n + 64 ≤ 2^31 := hidx n (List.mem_of_getElem? hn)
      have hp : popc (w &&& mask (i % 64)) 64 ≤ i % 64 := by
        rw [popc_and_mask]; exact Nat.le_trans (popc_le _ _) (Nat.min_le_right _ _)
      have hc : toI32 (onesCount64 (w &&& mask (i % 64))) = ((popc (w &&& mask (i % 64)) 64 : Nat) : Int) := by
        rw [onesCount64]; exact toI32_ofNat_lt (by omega)
      have hs : addI32 (Int.ofNat n) ((popc (w &&& mask (i % 64)) 64 : Nat) : Int)
          = ((n + popc (w &&& mask (i % 64)) 64 : Nat) : Int) := by
        rw [addI32, Int.ofNat_eq_natCast, ← Int.natCast_add]; exact wrap32_ofNat (by omega)
      have hb : andI32 (toI32 ((w >>> (i % 64) : Nat) : Int)) 1 = ((w >>> (i % 64) % 2 : Nat) : Int) := by
        rw [andI32_1, toI32, wrap32_ofNat_mod_two]
      simp only [Option.map_some, Option.bind_some, hc, hs, hb]
      rfl

example : Gen.Ssa.bitmap_Rank64 [0xff, 0x5] ([0, 8].map Int.ofNat) 66 = some (9, 1) := by decide
example : rank64 [0xff, 0x5] [0, 8] 66 = some (9, 1) := by decide

end Low
