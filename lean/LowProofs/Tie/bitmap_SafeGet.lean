import Generated.Ssa.bitmap_SafeGet
import LowModel.Bitmap.Get
import LowProofs.Tie.Lemmas
/-
  Tie: the definition regenerated from the SSA form of `bitmap.SafeGet` equals the hand-written model `safeGet`.
-/
namespace Low
open Low.GoSem Low.TieL

/-- Domain: `i` any `int32` (negative ones included; the equation needs no bound on `i`), `len(bm) < 2^31`
    (the Go code converts `len(bm)` to `int32`).  `= some …`: the Go function never panics. -/
theorem Tie_bitmap_SafeGet (bm : List Nat) (i : Int) (hlen : bm.length < 2^31) :
    Gen.Ssa.bitmap_SafeGet bm i = some (safeGet bm i) := by
  have hl : toI32 (len bm) = (bm.length : Int) := by rw [len]; exact toI32_ofNat_lt (by omega)
  rw [Gen.Ssa.bitmap_SafeGet, safeGet]
  simp only [shrI32_6, andI32_63, hl]
  by_cases h1 : i / 64 < 0
  · simp only [h1, decide_true, if_true, true_or]
  · by_cases h2 : i / 64 ≥ (bm.length : Int)
    · simp only [h1, h2, decide_true, decide_false, if_true, or_true]; rfl
    · have hw : index bm (i / 64) = some (bm.getD (i / 64).toNat 0) := by
        rw [index_toNat bm (by omega), List.getD_eq_getElem?_getD,
          List.getElem?_eq_getElem (by omega)]; rfl
      have hb : tblBit (i % 64) = some (bit (i % 64).toNat) := by
        have := tblBit_ofNat (k := (i % 64).toNat) (by omega)
        rwa [Int.toNat_of_nonneg (by omega)] at this
      simp only [h1, h2, decide_false, hw, hb, andU64_eq, or_self, if_false]
      rfl

example : Gen.Ssa.bitmap_SafeGet [5, 0x8000000000000000] 127 = some 0x8000000000000000 := by decide
example : Gen.Ssa.bitmap_SafeGet [5, 0x8000000000000000] (-1) = some 0 := by decide
example : Gen.Ssa.bitmap_SafeGet [5, 0x8000000000000000] 128 = some 0 := by decide

end Low
