import Generated.Ssa.bitmap_FromStr32
import LowModel.Bitmap.FromStr32
import LowProofs.Tie.Lemmas
/-
  Tie: the definition regenerated from the SSA form of `bitmap.FromStr32` equals the hand-written model
  `fromStr32`.
-/
namespace Low
set_option linter.unusedSimpArgs false
open Low.GoSem Low.TieL

/-- Domain: `0 ≤ frombit ≤ tobit` (the model's domain), `tobit - frombit ≤ 32` (the documented contract of
    `FromStr32`; it also keeps `Mask[size]` in range and `40 - spanSize` positive), `tobit + 7` an `int32`,
    `len(s) < 2^28` so that `int32(len(s) << 3)` does not overflow (the project's bound for FromStr32 strings),
    and `s` a string, i.e. every element a byte.  `= some …`: no panic on the domain (every `s[i]` read is
    guarded by `i < l ≤ len(s)`). -/
theorem Tie_bitmap_FromStr32 (s : List Nat) (f t : Nat)
    (hft : f ≤ t) (hsize : t - f ≤ 32) (ht : t + 7 < 2^31) (hlen : s.length < 2^28) (hbytes : ∀ b ∈ s, b < 256) :
    Gen.Ssa.bitmap_FromStr32 s (f : Int) (t : Int)
      = some (((fromStr32 s f t).1 : Int), (fromStr32 s f t).2) := by
  -- arithmetic side conditions first (small context for `omega`)
  have a1 : t < 2147483648 := by omega
  have a2 : f < 2147483648 := by omega
  have a3 : f / 8 * 8 ≤ t := by omega
  have a4 : t - f / 8 * 8 ≤ 40 := by omega
  have a5 : t + 7 < 2147483648 := by omega
  have a6 : f / 8 + 1 < 2147483648 := by omega
  have a7 : f / 8 + 1 + 1 < 2147483648 := by omega
  have a8 : f / 8 + 2 + 1 < 2147483648 := by omega
  have a9 : f / 8 + 3 + 1 < 2147483648 := by omega
  have a10 : t - f < 65 := by omega
  have a11 : 40 - (t - f / 8 * 8) < 18446744073709551616 := by omega
  have a12 : s.length < 2147483648 := by omega
  have hcases : min s.length ((t + 7) / 8) ≤ f / 8 ∨ min s.length ((t + 7) / 8) = f / 8 + 1
      ∨ min s.length ((t + 7) / 8) = f / 8 + 2 ∨ min s.length ((t + 7) / 8) = f / 8 + 3
      ∨ min s.length ((t + 7) / 8) = f / 8 + 4 ∨ f / 8 + 5 ≤ min s.length ((t + 7) / 8) := by omega
  have h4 : shlI64 (len s) 3 = (s.length : Int) * 8 := by
    rw [shlI64, len]; exact wrap64_id (by omega) (by omega)
  have h5 : toI32 ((s.length : Int) * 8) = (s.length : Int) * 8 := by
    rw [toI32]; exact wrap32_id (by omega) (by omega)
  have h6 : subI32 ((s.length : Int) * 8) (f : Int) = (s.length : Int) * 8 - (f : Int) := by
    rw [subI32]; exact wrap32_id (by omega) (by omega)
  have h0 : subI32 (t : Int) (f : Int) = ((t - f : Nat) : Int) := subI32_ofNat hft a1
  have h1 : andI32 (f : Int) (-8) = ((f / 8 * 8 : Nat) : Int) := andI32_neg8_ofNat a2
  have h2 : subI32 (t : Int) ((f / 8 * 8 : Nat) : Int) = ((t - f / 8 * 8 : Nat) : Int) := subI32_ofNat a3 a1
  have h11 : toI32 (len s) = (s.length : Int) := by rw [len]; exact toI32_ofNat_lt a12
  have h12 : addI32 (t : Int) 7 = ((t + 7 : Nat) : Int) := addI32_ofNat (a := t) (b := 7) a5
  have h25 : subI32 40 ((t - f / 8 * 8 : Nat) : Int) = ((40 - (t - f / 8 * 8) : Nat) : Int) :=
    subI32_ofNat (a := 40) a4 (by decide)
  have h26 : toU64 ((40 - (t - f / 8 * 8) : Nat) : Int) = 40 - (t - f / 8 * 8) := toU64_ofNat_lt a11
  have h28 : tblMask ((t - f : Nat) : Int) = some (mask (t - f)) := tblMask_ofNat a10
  have ha1 : addI32 ((f / 8 : Nat) : Int) 1 = ((f / 8 + 1 : Nat) : Int) := addI32_ofNat (b := 1) a6
  have ha2 : addI32 ((f / 8 + 1 : Nat) : Int) 1 = ((f / 8 + 2 : Nat) : Int) := addI32_ofNat (b := 1) a7
  have ha3 : addI32 ((f / 8 + 2 : Nat) : Int) 1 = ((f / 8 + 3 : Nat) : Int) := addI32_ofNat (b := 1) a8
  have ha4 : addI32 ((f / 8 + 3 : Nat) : Int) 1 = ((f / 8 + 4 : Nat) : Int) := addI32_ofNat (b := 1) a9
  have hget : ∀ k, toU64 ((s.getD k 0 : Nat) : Int) = s.getD k 0 := fun k =>
    toU64_ofNat_lt (Nat.lt_trans (getD_lt hbytes k) (by decide))
  have hshl : ∀ k sh, sh ≤ 32 → shlU64 (s.getD k 0) sh = s.getD k 0 <<< sh := fun k sh h => by
    rw [shlU64_eq]; exact shl64_byte (getD_lt hbytes k) h
  rw [Gen.Ssa.bitmap_FromStr32]
  simp only [h0, h1, h2, h4, h5, h6, h11, h12, shrI32_3_ofNat, h25, h26, h28, Option.bind_some, shrU64_eq, andU64_eq,
    ha1, ha2, ha3, ha4, decide_eq_true_eq]
  simp only [fromStr32]
  clear h0 h1 h2 h4 h5 h6 h11 h12 h25 h26 h28 ha1 ha2 ha3 ha4 a1 a2 a3 a4 a5 a6 a7 a8 a9 a10 a11 a12
  by_cases c1 : (s.length : Int) * 8 - (f : Int) > ((t - f : Nat) : Int)
  · by_cases c2 : t - f = 0
    · simp (disch := omega) only [↓if_pos]
      rfl
    · by_cases c3 : s.length > (t + 7) / 8 <;> rcases hcases with h | h | h | h | h | h <;>
        simp (disch := omega) only [↓if_pos, ↓if_neg, index_getD, Option.bind_some, hget, hshl, orU64_eq,
          Nat.zero_or, Nat.or_zero, Nat.shiftLeft_zero, Int.toNat_natCast] <;> rfl
  · by_cases c2 : (s.length : Int) * 8 - (f : Int) ≤ 0
    · simp (disch := omega) only [↓if_pos, ↓if_neg]
      rfl
    · by_cases c3 : s.length > (t + 7) / 8 <;> rcases hcases with h | h | h | h | h | h <;>
        simp (disch := omega) only [↓if_pos, ↓if_neg, index_getD, Option.bind_some, hget, hshl, orU64_eq,
          Nat.zero_or, Nat.or_zero, Nat.shiftLeft_zero, Int.toNat_of_nonneg] <;> rfl

example : Gen.Ssa.bitmap_FromStr32 [0x61, 0x62, 0x63] 5 12 = some (7, 0x16) := by decide
example : fromStr32 [0x61, 0x62, 0x63] 5 12 = (7, 0x16) := by decide
example : Gen.Ssa.bitmap_FromStr32 [0x61, 0x62, 0x63] 20 40 = some (4, 0x30000) := by decide

end Low
