import Generated.Ssa.bitmap_Getw
import LowModel.Bitmap.Get
import LowProofs.Tie.Lemmas
/-
  Tie: the definition regenerated from the SSA form of `bitmap.Getw` equals the hand-written model `getw`.
-/
namespace Low
open Low.GoSem Low.TieL

/-- Domain: `w ≤ 64` (the Go function indexes `Mask[w]`, a `[65]uint64`; its documentation asks for
    `w ∈ {1,2,4,…,64}`) and `i * w` an `int32` (the Go code computes `i *= w` in `int32`).
    Outside `i * w < 64 * len(bm)` both sides are `none` (panic). -/
theorem Tie_bitmap_Getw (bm : List Nat) (i w : Nat) (hw : w ≤ 64) (hiw : i * w < 2^31) :
    Gen.Ssa.bitmap_Getw bm (i : Int) (w : Int) = getw bm i w := by
  have hmul : mulI32 (i : Int) (w : Int) = ((i * w : Nat) : Int) := by
    rw [mulI32, ← Int.natCast_mul]; exact wrap32_ofNat (by omega)
  have hj : i * w % 64 < 64 := Nat.mod_lt _ (by omega)
  rw [Gen.Ssa.bitmap_Getw, getw]
  simp only [hmul, shrI32_6_ofNat, andI32_63_ofNat, index_ofNat, toU64_ofNat_lt (Nat.lt_trans hj (by omega)),
    shrU64_lt _ hj, tblMask_ofNat (Nat.lt_succ_of_le hw), andU64_eq]
  rfl

example : Gen.Ssa.bitmap_Getw [0x0123456789abcdef, 0xfedcba9876543210] 5 16 = some 0x7654 := by decide
example : getw [0x0123456789abcdef, 0xfedcba9876543210] 5 16 = some 0x7654 := by decide

end Low
