import Generated.Ssa.bmtree_NewPath
import LowModel.Bmtree.Path
import LowProofs.Tie.Lemmas
/-
  Tie: the definition regenerated from the SSA form of `bmtree.NewPath` equals the hand-written model `newPath`.
-/
namespace Low
open Low.GoSem Low.TieL

/-- Domain: `length ≤ height` (the model's domain; otherwise the Go shift count `uint(height-length)` is huge),
    `length ≤ 64` (the Go function indexes `bitmap.Mask[length]`, a `[65]uint64`, and panics beyond),
    `height` an `int32`.  `= some …`: no panic on the domain.  No bound on `searchingBits` is needed. -/
theorem Tie_bmtree_NewPath (bits length h : Nat) (hlh : length ≤ h) (hl : length ≤ 64) (hh : h < 2^31) :
    Gen.Ssa.bmtree_NewPath bits (length : Int) (h : Int) = some (newPath bits length h) := by
  have hs : subI32 (h : Int) (length : Int) = ((h - length : Nat) : Int) := by
    rw [subI32]; exact (wrap32_id (by omega) (by omega)).trans (by omega)
  rw [Gen.Ssa.bmtree_NewPath, newPath]
  simp only [tblMask_ofNat (Nat.lt_succ_of_le hl), hs, toU64_ofNat_lt (by omega : h - length < 18446744073709551616),
    shlU64_eq, orU64_eq]
  rfl

example : Gen.Ssa.bmtree_NewPath 5 3 4 = some 0x5_0000000e := by decide
example : newPath 5 3 4 = 0x5_0000000e := by decide

end Low
