import Generated.Ssa.bitmap_SafeGet1
import LowModel.Bitmap.Get
import LowProofs.Tie.Lemmas
/-
  Tie: the definition regenerated from the SSA form of `bitmap.SafeGet1` equals the hand-written model `safeGet1`.
-/
namespace Low
open Low.GoSem Low.TieL

/-- Domain: `i` any `int32` (negative ones included; the equation needs no bound on `i`), `len(bm) < 2^31`
    (the Go code converts `len(bm)` to `int32`).  `= some …`: the Go function never panics. -/
theorem Tie_bitmap_SafeGet1 (bm : List Nat) (i : Int) (hlen : bm.length < 2^31) :
    Gen.Ssa.bitmap_SafeGet1 bm i = some (safeGet1 bm i) := by
  have hl : toI32 (len bm) = (bm.length : Int) := by rw [len]; exact toI32_ofNat_lt (by omega)
  rw [Gen.Ssa.bitmap_SafeGet1, safeGet1]
  simp only [shrI32_6, andI32_63, hl]
  by_cases h1 : i / 64 < 0
  · simp only [h1, decide_true, if_true, true_or]
  · by_cases h2 : i / 64 ≥ (bm.length : Int)
    · simp only [h1, h2, decide_true, decide_false, if_true, or_true]; rfl
    · have hw : index bm (i / 64) = some (bm.getD (i / 64).toNat 0) := by
        rw [index_toNat bm (by omega), List.getD_eq_getElem?_getD,
          List.getElem?_eq_getElem (by omega)]; rfl
      have hj : (i % 64).toNat < 64 := by omega
      have hu : toU64 (i % 64) = (i % 64).toNat := by
        have := toU64_ofNat_lt (n := (i % 64).toNat) (by omega)
        rwa [Int.toNat_of_nonneg (by omega)] at this
      simp only [h1, h2, decide_false, hw, hu, shrU64_lt _ hj, andU64_eq, and_1, or_self, if_false]
      rfl

example : Gen.Ssa.bitmap_SafeGet1 [5, 0x8000000000000000] 127 = some 1 := by decide
example : Gen.Ssa.bitmap_SafeGet1 [5, 0x8000000000000000] (-1) = some 0 := by decide
example : Gen.Ssa.bitmap_SafeGet1 [5, 0x8000000000000000] 128 = some 0 := by decide

end Low
