import Generated.Ssa.bitmap_Get
import LowModel.Bitmap.Get
import LowProofs.Tie.Lemmas
/-
  Tie: the definition regenerated from the SSA form of `bitmap.Get` equals the hand-written model `get`.
-/
namespace Low
open Low.GoSem Low.TieL

/-- Domain: `i` any non-negative `int32` (the equation needs no bound on `i`; only `i < 2^31` is a Go value).
    No hypothesis on `bm`: outside `i < 64 * len(bm)` both sides are `none` (the Go function panics, index out
    of range). -/
theorem Tie_bitmap_Get (bm : List Nat) (i : Nat) :
    Gen.Ssa.bitmap_Get bm (i : Int) = get bm i := by
  have hj : i % 64 < 64 := Nat.mod_lt _ (by omega)
  rw [Gen.Ssa.bitmap_Get, get]
  simp only [shrI32_6_ofNat, andI32_63_ofNat, index_ofNat, tblBit_ofNat hj, andU64_eq]
  rfl

/-- Outside the model's domain: a negative position makes the Go function panic. -/
theorem Tie_bitmap_Get_neg (bm : List Nat) (i : Int) (hi : i < 0) :
    Gen.Ssa.bitmap_Get bm i = none := by
  have h : shrI32 i 6 < 0 := by rw [shrI32_6]; omega
  rw [Gen.Ssa.bitmap_Get]
  simp only [index_neg bm h]
  rfl

example : Gen.Ssa.bitmap_Get [5, 0x8000000000000000] 127 = some 0x8000000000000000 := by decide
example : get [5, 0x8000000000000000] 127 = some 0x8000000000000000 := by decide

end Low
