import Generated.Ssa.bitmap_Get1
import LowModel.Bitmap.Get
import LowProofs.Tie.Lemmas
/-
  Tie: the definition regenerated from the SSA form of `bitmap.Get1` equals the hand-written model `get1`.
-/
namespace Low
open Low.GoSem Low.TieL

/-- Domain: `i` any non-negative `int32` (the equation needs no bound on `i`; only `i < 2^31` is a Go value).
    Outside `i < 64 * len(bm)` both sides are `none` (panic). -/
theorem Tie_bitmap_Get1 (bm : List Nat) (i : Nat) :
    Gen.Ssa.bitmap_Get1 bm (i : Int) = get1 bm i := by
  have hj : i % 64 < 64 := Nat.mod_lt _ (by omega)
  rw [Gen.Ssa.bitmap_Get1, get1]
  simp only [shrI32_6_ofNat, andI32_63_ofNat, index_ofNat, toU64_ofNat_lt (Nat.lt_trans hj (by omega)),
    shrU64_lt _ hj, andU64_eq, and_1]
  rfl

/-- Outside the model's domain: a negative position makes the Go function panic. -/
theorem Tie_bitmap_Get1_neg (bm : List Nat) (i : Int) (hi : i < 0) :
    Gen.Ssa.bitmap_Get1 bm i = none := by
  have h : shrI32 i 6 < 0 := by rw [shrI32_6]; omega
  rw [Gen.Ssa.bitmap_Get1]
  simp only [index_neg bm h]
  rfl

example : Gen.Ssa.bitmap_Get1 [5, 0x8000000000000000] 127 = some 1 := by decide
example : get1 [5, 0x8000000000000000] 127 = some 1 := by decide

end Low
