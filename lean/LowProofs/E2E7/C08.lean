import LowProofs.E2E2.C08
import LowProofs.Tie7.bitword_newBW
import LowProofs.Tie7.bitword_init
import LowProofs.Tie7.bitword_bitWord_FromStrs
import LowProofs.Tie7.bitword_bitWord_ToStrs
/-
  C08 end to end INCLUDING THE TABLE `bitword.BitWord` AND THE CONSTRUCTOR `newBW`: the theorems of E2E/C08.lean and
  E2E2/C08.lean are stated about the regenerated methods applied to the receiver fields `(n, 8/n, bwWordMask n)`; here
  the receiver is what the REGENERATED package initialiser (`Generated/Ssa7/bitword_init.lean`, calling the regenerated
  `newBW`) stores under key `n` in the map `BitWord` — the value a caller obtains with `bitword.BitWord[n]`.  Also
  the element-wise clause of C08 for `FromStrs` / `ToStrs` on generated code.
-/
namespace Low
open Low.GoSem7

private theorem wc {n : Nat} (hn : n ∈ [1,2,4,8]) : n = 1 ∨ n = 2 ∨ n = 4 ∨ n = 8 := by
  simp only [List.mem_cons, List.not_mem_nil, or_false] at hn; exact hn

/-- `bitword.BitWord[n]` as the generated initialiser builds it: the fields of the `bitWord` stored under key `n` -/
def genBitWord (n : Int) : Option (Int × Int × Nat) := Gen.Ssa7.bitword_init.bind (fun m => mapLookup m n)

/-- the receiver the package provides for each of its four widths carries the fields the ties assume -/
theorem E2E_C08_BitWord (n : Nat) (hn : n ∈ [1,2,4,8]) :
    genBitWord (n : Int) = some ((n : Int), ((8 / n : Nat) : Int), bwWordMask n) :=
  Tie_bitword_BitWord_lookup n (wc hn)

/-- the same receiver from a direct call of the generated constructor -/
theorem E2E_C08_newBW (n : Nat) (hn : n ∈ [1,2,4,8]) : Gen.Ssa7.bitword_newBW (n : Int) = genBitWord (n : Int) := by
  rw [E2E_C08_BitWord n hn, Tie_bitword_newBW n (wc hn)]

/-- `C08_roundtrip` through the table: with `w := BitWord[n]`, `w.ToStr(w.FromStr(s)) = s`, all four steps (table
    initialiser, constructor, `FromStr`, `ToStr`) regenerated code. -/
theorem E2E_C08_BitWord_roundtrip (n : Nat) (hn : n ∈ [1,2,4,8]) (s : List Nat) (hs : BytesOK s) (hlen : s.length < 2^29)
    (fuel fuel' : Nat) (hfuel : s.length + 9 ≤ fuel) (hfuel' : 8 * s.length / n + 9 ≤ fuel') :
    (genBitWord (n : Int)).bind (fun w =>
      (Gen.Ssa3.bitword_bitWord_FromStr fuel w.1 w.2.1 w.2.2 s).bind
        (Gen.Ssa3.bitword_bitWord_ToStr fuel' w.1 w.2.1 w.2.2)) = some s := by
  rw [E2E_C08_BitWord n hn, Option.bind_some]
  exact E2E_C08_roundtrip n hn s hs hlen fuel fuel' hfuel hfuel'

/-- `FromStrs` is `FromStr` element-wise (C08, last clause), on generated code: the result has one entry per string
    and entry `k` is what the generated `FromStr` returns for `strs[k]`. -/
theorem E2E_C08_fromStrs (n : Nat) (hn : n ∈ [1,2,4,8]) (strs : List (List Nat)) (fuel : Nat)
    (hlen : ∀ s ∈ strs, s.length < 2^32) (hN : strs.length < 2^62) (hfuel1 : strs.length + 1 ≤ fuel)
    (hfuel2 : ∀ s ∈ strs, s.length + 9 ≤ fuel) :
    ∃ wss, (genBitWord (n : Int)).bind (fun w => Gen.Ssa7.bitword_bitWord_FromStrs fuel w.1 w.2.1 w.2.2 strs) = some wss ∧
      wss.length = strs.length ∧
      ∀ k (hk : k < strs.length),
        Gen.Ssa3.bitword_bitWord_FromStr fuel (n : Int) ((8 / n : Nat) : Int) (bwWordMask n) strs[k] = wss[k]? := by
  refine ⟨strs.map (bwFromStr n), ?_, by simp, ?_⟩
  · rw [E2E_C08_BitWord n hn, Option.bind_some]
    exact Tie_bitword_bitWord_FromStrs n strs fuel (wc hn) hlen hN hfuel1 hfuel2
  · intro k hk
    have hmem : strs[k] ∈ strs := List.getElem_mem hk
    rw [Tie_bitword_bitWord_FromStr n strs[k] fuel (wc hn) (hlen _ hmem) (hfuel2 _ hmem)]
    simp [hk]

/-- `ToStrs` is `ToStr` element-wise, on generated code. -/
theorem E2E_C08_toStrs (n : Nat) (hn : n ∈ [1,2,4,8]) (bss : List (List Nat)) (fuel : Nat)
    (hlen : ∀ s ∈ bss, s.length < 2^32) (hN : bss.length < 2^62) (hfuel1 : bss.length + 1 ≤ fuel)
    (hfuel2 : ∀ s ∈ bss, s.length + 9 ≤ fuel) :
    ∃ ss, (genBitWord (n : Int)).bind (fun w => Gen.Ssa7.bitword_bitWord_ToStrs fuel w.1 w.2.1 w.2.2 bss) = some ss ∧
      ss.length = bss.length ∧
      ∀ k (hk : k < bss.length),
        Gen.Ssa3.bitword_bitWord_ToStr fuel (n : Int) ((8 / n : Nat) : Int) (bwWordMask n) bss[k] = ss[k]? := by
  refine ⟨bss.map (bwToStr n), ?_, by simp, ?_⟩
  · rw [E2E_C08_BitWord n hn, Option.bind_some]
    exact Tie_bitword_bitWord_ToStrs n bss fuel (wc hn) hlen hN hfuel1 hfuel2
  · intro k hk
    have hmem : bss[k] ∈ bss := List.getElem_mem hk
    rw [Tie_bitword_bitWord_ToStr n bss[k] fuel (wc hn) (hlen _ hmem) (hfuel2 _ hmem)]
    simp [hk]

/-- `ToStrs(FromStrs(strs)) = strs` on generated code (strings of bytes, each shorter than `2^29`). -/
theorem E2E_C08_strs_roundtrip (n : Nat) (hn : n ∈ [1,2,4,8]) (strs : List (List Nat)) (fuel fuel' : Nat)
    (hs : ∀ s ∈ strs, BytesOK s) (hlen : ∀ s ∈ strs, s.length < 2^29) (hN : strs.length < 2^62)
    (hfuel1 : strs.length + 1 ≤ fuel) (hfuel2 : ∀ s ∈ strs, s.length + 9 ≤ fuel)
    (hfuel1' : strs.length + 1 ≤ fuel') (hfuel2' : ∀ s ∈ strs, 8 * s.length / n + 9 ≤ fuel') :
    (Gen.Ssa7.bitword_bitWord_FromStrs fuel (n : Int) ((8 / n : Nat) : Int) (bwWordMask n) strs).bind
      (Gen.Ssa7.bitword_bitWord_ToStrs fuel' (n : Int) ((8 / n : Nat) : Int) (bwWordMask n)) = some strs := by
  have hlen32 : ∀ s ∈ strs, s.length < 2^32 := fun s h => by have := hlen s h; omega
  rw [Tie_bitword_bitWord_FromStrs n strs fuel (wc hn) hlen32 hN hfuel1 hfuel2, Option.bind_some]
  have hl : ∀ s ∈ strs, (bwFromStr n s).length = 8 * s.length / n := fun s h => (C08_fromStr n hn s (hs s h)).1
  have hle : ∀ s : List Nat, 8 * s.length / n ≤ 8 * s.length := fun s => Nat.div_le_self _ _
  rw [Tie_bitword_bitWord_ToStrs n (strs.map (bwFromStr n)) fuel' (wc hn)
    (by intro b hb; obtain ⟨s, hsm, rfl⟩ := List.mem_map.mp hb; rw [hl s hsm]; have := hlen s hsm; have := hle s; omega)
    (by simpa using hN) (by simpa using hfuel1')
    (by intro b hb; obtain ⟨s, hsm, rfl⟩ := List.mem_map.mp hb; rw [hl s hsm]; exact hfuel2' s hsm)]
  congr 1
  rw [List.map_map]
  conv => rhs; rw [← List.map_id strs]
  apply List.map_congr_left
  intro s hsm
  exact C08_roundtrip n hn s (hs s hsm)

example : (genBitWord 2).bind (fun w => Gen.Ssa3.bitword_bitWord_FromStr 11 w.1 w.2.1 w.2.2 [0x1b, 0xe4])
    = some [0, 1, 2, 3, 3, 2, 1, 0] := by decide +kernel
example : genBitWord 3 = none := by decide +kernel

end Low
