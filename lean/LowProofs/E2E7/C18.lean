import LowProofs.E2E.C18
import LowProofs.Tie7.iohelper_NewSectionWriter
import LowProofs.Tie7.iohelper_AtToWriter
/-
  C18 end to end INCLUDING THE CONSTRUCTORS: `E2E_C18_refine` (E2E/C18.lean) runs any call sequence through the four
  regenerated methods from a state satisfying `SwInv`; here the state is the one the REGENERATED constructor returns
  (`Generated/Ssa7/iohelper_NewSectionWriter.lean`, `…_AtToWriter.lean`: the tuple `(base, off, limit)` of the fields of
  the struct the Go constructor allocates).  No model function occurs in the statements: generated constructor, generated
  methods, reference cursor machine `RefSW` of `LowModel/Spec.lean`.
-/
namespace Low

/-- the receiver whose fields are the tuple a generated constructor returns -/
def swOfTuple (t : Int × Int × Int) : SectionWriter := ⟨t.1, t.2.1, t.2.2⟩

theorem swOfTuple_new (off n : Int) : swOfTuple (Gen.Ssa7.iohelper_NewSectionWriter off n) = newSectionWriter off n := by
  rw [Tie_iohelper_NewSectionWriter]; rfl
theorem swOfTuple_atToWriter (off : Int) : swOfTuple (Gen.Ssa7.iohelper_AtToWriter off) = atToWriter off := by
  rw [Tie_iohelper_AtToWriter]; rfl

/-- C18 from `NewSectionWriter(w, off, n)`: for every section with `0 ≤ off`, `0 ≤ n`, `off + n` an int64 (property C18:
    "every section (start off, length n)"), ANY sequence of `Write` / `WriteAt` / `Seek` / `Size` calls (buffers of a
    length that fits an `int`, requested positions int64: `RefSW.runOK`), any behaviour of the underlying writer:
    the code regenerated from the constructor followed by the code regenerated from the methods never panics and
    returns, call by call, exactly what the reference cursor machine started at `⟨off, off, off + n⟩` returns. -/
theorem E2E_C18_new_refine (off n : Int) (h0 : 0 ≤ off) (hn : 0 ≤ n) (h : off + n ≤ 9223372036854775807)
    (calls : List GenCall)
    (hp : ∀ c ∈ calls, match c with
      | .write p _ _ => p.length < 2^63 | .writeAt p _ _ _ => p.length < 2^63 | _ => True)
    (hok : (⟨off, off, off + n⟩ : RefSW).runOK (calls.map GenCall.toRef) = true) :
    genRun (swOfTuple (Gen.Ssa7.iohelper_NewSectionWriter off n)) calls
      = some (((⟨off, off, off + n⟩ : RefSW).run (calls.map GenCall.toRef)).map refOutGo) := by
  obtain ⟨hinv, href⟩ := C18_init off n h0 hn h
  rw [swOfTuple_new]
  have := E2E_C18_refine calls (newSectionWriter off n) hinv hp (by rw [href]; exact hok)
  rw [href] at this
  exact this

/-- C18 from `AtToWriter(w, off)`: "a section from off with no practical end": the reference machine starts at
    `⟨off, off, MaxInt64⟩`. -/
theorem E2E_C18_atToWriter_refine (off : Int) (h0 : 0 ≤ off) (h1 : off ≤ 9223372036854775807)
    (calls : List GenCall)
    (hp : ∀ c ∈ calls, match c with
      | .write p _ _ => p.length < 2^63 | .writeAt p _ _ _ => p.length < 2^63 | _ => True)
    (hok : (⟨off, off, 9223372036854775807⟩ : RefSW).runOK (calls.map GenCall.toRef) = true) :
    genRun (swOfTuple (Gen.Ssa7.iohelper_AtToWriter off)) calls
      = some (((⟨off, off, 9223372036854775807⟩ : RefSW).run (calls.map GenCall.toRef)).map refOutGo) := by
  obtain ⟨hinv, href⟩ := C18_atToWriter off h0 h1
  rw [swOfTuple_atToWriter]
  have := E2E_C18_refine calls (atToWriter off) hinv hp (by rw [href]; exact hok)
  rw [href] at this
  exact this

/-- `Size()` right after the generated constructor returns `n` ("Size returns n"). -/
theorem E2E_C18_new_size (off n : Int) (h0 : 0 ≤ off) (hn : 0 ≤ n) (h : off + n ≤ 9223372036854775807) :
    let t := Gen.Ssa7.iohelper_NewSectionWriter off n
    Gen.Ssa.iohelper_SectionWriter_Size t.1 t.2.1 t.2.2 = n := by
  intro t
  obtain ⟨hinv, href⟩ := C18_init off n h0 hn h
  obtain ⟨e1, e2⟩ := E2E_C18_size (newSectionWriter off n) hinv
  have ht : t = ((newSectionWriter off n).base, (newSectionWriter off n).off, (newSectionWriter off n).limit) :=
    Tie_iohelper_NewSectionWriter off n
  rw [ht]
  show Gen.Ssa.iohelper_SectionWriter_Size (newSectionWriter off n).base (newSectionWriter off n).off
    (newSectionWriter off n).limit = n
  rw [e1, e2]
  have : toRef (newSectionWriter off n) = ⟨off, off, off + n⟩ := href
  simp only [toRef, RefSW.mk.injEq] at this
  omega

/-! non-vacuity: constructor and methods, all generated -/
example : genRun (swOfTuple (Gen.Ssa7.iohelper_NewSectionWriter 5 3))
    [.write [1, 2, 3] 3 false, .write [4] 1 false, .seek (-1) 1, .write [5, 6] 2 false, .size] =
    some [(3, none, some (5, 3)), (0, some "io.ErrShortWrite", none), (2, none, none),
      (1, some "io.ErrShortWrite", some (7, 1)), (3, none, none)] := by
  decide +kernel
example : genRun (swOfTuple (Gen.Ssa7.iohelper_AtToWriter 100)) [.write [1, 2, 3] 3 false, .writeAt [9] 7 1 false] =
    some [(3, none, some (100, 3)), (1, none, some (107, 1))] := by
  decide +kernel

end Low
