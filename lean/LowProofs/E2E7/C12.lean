import LowProofs.E2E2.C12Builder
import LowProofs.Tie7.bitmap_NewBuilder
/-
  C12 (Builder) end to end INCLUDING THE CONSTRUCTOR: `E2E_C12_builder` (E2E2/C12Builder.lean) runs any sequence of
  `Extend` calls through the regenerated method from the literal `⟨[], 0⟩`; here it starts from what the REGENERATED
  constructor `NewBuilder(n)` returns (`Generated/Ssa7/bitmap_NewBuilder.lean`: the tuple `(Words, Offset)`), for every
  pre-size `n ≥ 0` ("pre-sized builders": the preallocated capacity is not observable).
-/
namespace Low


/-- constructor (generated) followed by a sequence of `Extend` calls (generated method) -/
def genNewExtendAll (fuel : Nat) (n : Int) (segs : List (List Int × Int)) : Option Builder :=
  (Gen.Ssa7.bitmap_NewBuilder n).bind (fun r => genExtendAll fuel ⟨r.1, r.2⟩ segs)

theorem genNewExtendAll_eq (fuel : Nat) (n : Int) (segs : List (List Int × Int)) (h0 : 0 ≤ n) :
    genNewExtendAll fuel n segs = genExtendAll fuel ⟨[], 0⟩ segs := by
  rw [genNewExtendAll, Tie_bitmap_NewBuilder n h0]; rfl

/-- `C12_builder` on generated code from `NewBuilder(n)`, `n ≥ 0`: same hypotheses and conclusions as `E2E_C12_builder`. -/
theorem E2E_C12_new_builder (n : Int) (h0 : 0 ≤ n) (segs : List (List Int × Int)) (fuel B : Nat)
    (hseg : ∀ s ∈ segs, s.1.Pairwise (· ≤ ·) ∧ (∀ p ∈ s.1, 0 ≤ p) ∧ 0 ≤ s.2 ∧ s.1.length < 2^63 ∧ s.1.length + 1 ≤ fuel)
    (hB : B < 2^31) (hfuel1 : (B + 63) / 64 + 1 ≤ fuel)
    (hdom : ∀ k ps size, segs[k]? = some (ps, size) →
      segOff segs k + size ≤ B ∧ ∀ p ∈ ps, segOff segs k + p < B) :
    ∃ b, genNewExtendAll fuel n segs = some b ∧
      b.offset = (segs.map Prod.snd).sum ∧ WordsOK b.words ∧ b.offset ≤ 64 * (b.words.length : Int) ∧
      ∀ i : Nat, (bitAt b.words i = true ↔
        ∃ k ps size, segs[k]? = some (ps, size) ∧ ∃ p ∈ ps, (i : Int) = segOff segs k + p) := by
  rw [genNewExtendAll_eq fuel n segs h0]
  exact E2E_C12_builder segs fuel B hseg hB hfuel1 hdom

/-- `Builder.Set` right after the generated constructor -/
theorem E2E_C12_new_set (n pos value : Int) (fuel : Nat) (h0 : 0 ≤ n) (hp : 0 ≤ pos) (hhi : pos < 2^31 - 1)
    (hfuel : pos.toNat / 64 + 2 ≤ fuel) :
    ∃ b', (Gen.Ssa7.bitmap_NewBuilder n).bind (fun r => genSet fuel ⟨r.1, r.2⟩ pos value) = some b' ∧
      b'.offset = pos + 1 ∧ b'.words.length = pos.toNat / 64 + 1 ∧
      ∀ i : Nat, (bitAt b'.words i = true ↔ ((i : Int) = pos ∧ value % 2 = 1)) := by
  obtain ⟨b', e1, e2, e3, _, e5⟩ := E2E_C12_builder_set ⟨[], 0⟩ pos value fuel hp hhi hfuel
  refine ⟨b', ?_, ?_, ?_, ?_⟩
  · rw [Tie_bitmap_NewBuilder n h0]; exact e1
  · rw [e2]; simp only; omega
  · rw [e3]; simp
  · intro i; rw [e5 i]; simp [bitAt]

/-- OUTSIDE the domain: `NewBuilder(n)` with `n < 0` panics. -/
theorem E2E_C12_new_neg (n : Int) (h : n < 0) (fuel : Nat) (segs : List (List Int × Int)) :
    genNewExtendAll fuel n segs = none := by
  rw [genNewExtendAll, Tie_bitmap_NewBuilder_neg n h]; rfl

example : (genNewExtendAll 4 1000 [([1, 70], 64), ([], 0), ([0], 3)]).map (fun b => (b.words, b.offset))
    = some ([2, 2^6 + 1], 67) := by decide +kernel

end Low
