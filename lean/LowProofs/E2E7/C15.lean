import LowProofs.E2E2.C15
import LowProofs.Tie7.bitmap_NewTailBitmap
/-
  C15 end to end INCLUDING THE CONSTRUCTOR: `E2E_C15_history` (E2E2/C15.lean) runs any `Set` / `Compact` history through
  the regenerated methods from the literal `newTailBitmap o`; here the history starts from what the REGENERATED
  constructor `NewTailBitmap` returns (`Generated/Ssa7/bitmap_NewTailBitmap.lean`: the tuple `(Offset, Words, reclaimed)`
  of the fields of the struct the Go constructor allocates).  "Starting from NewTailBitmap(o) …" is now a statement about
  generated code only.
-/
namespace Low
open Low.C15L Low.E2E2L

/-- constructor (generated) followed by a history (generated methods); `thr0` is the value of `reclaimThreshold` when the
    constructor runs (it sizes the preallocation), `thr` its value during the history -/
def genTbNewRun (fuel : Nat) (thr0 thr o : Int) (ops : List TbOp) : Option TailBitmap :=
  (Gen.Ssa7.bitmap_NewTailBitmap o thr0).bind (fun r => genTbRun fuel thr ⟨r.1, r.2.1, r.2.2⟩ ops)

theorem genTbNewRun_eq (fuel : Nat) (thr0 thr o : Int) (ops : List TbOp) (h0 : 0 ≤ thr0) :
    genTbNewRun fuel thr0 thr o ops = genTbRun fuel thr (newTailBitmap o) ops := by
  rw [genTbNewRun, Tie_bitmap_NewTailBitmap o thr0 h0]; rfl

/-- C15, main statement, from the generated constructor: for every initial offset `o` (multiple of 64, on the input
    domain `TbBounds`), every non-negative `reclaimThreshold` at construction time and ANY history of `Set` / `Compact`
    calls: neither the constructor nor any call panics, and the final receiver answers `Get1` / `Get` (generated) as the
    abstract set `{j < o} ∪ {indices set}` says; `Offset` is a multiple of 64, at least `o`, everything below it is a
    member; the first word is not all-ones.  Same conclusions as `E2E_C15_history`. -/
theorem E2E_C15_new_history (thr0 thr o U : Int) (fuel : Nat) (h0 : 0 ≤ thr0) (hb : TbBounds o U fuel) (ops : List TbOp)
    (hops : ∀ i, TbOp.set i ∈ ops → i < U) :
    ∃ tb, genTbNewRun fuel thr0 thr o ops = some tb ∧
      (∀ j, -2^63 ≤ j → j < 2^63 →
        (j < tbEnd tb → genGet1 tb j = some (if mem o ops j then 1 else 0) ∧
          genGet tb j = some (if mem o ops j then 2 ^ (j % 64).toNat else 0)) ∧
        (tbEnd tb ≤ j → genGet1 tb j = none ∧ genGet tb j = none)) ∧
      (∀ i, TbOp.set i ∈ ops → i < tbEnd tb) ∧
      (64 : Int) ∣ tb.offset ∧ o ≤ tb.offset ∧ (∀ j, j < tb.offset → mem o ops j) ∧
      tb.words.head? ≠ some allOnes64 ∧ WordsOK tb.words ∧ tbEnd tb ≤ U := by
  rw [genTbNewRun_eq fuel thr0 thr o ops h0]
  exact E2E_C15_history thr o U fuel hb ops hops

/-- right after the constructor (empty history): no stored words, `Get1(j) = 1` exactly below `o` is vacuous above —
    every index at or above `o` panics until it has been covered by a `Set`; `Offset = o`. -/
theorem E2E_C15_new_empty (thr0 o : Int) (h0 : 0 ≤ thr0) :
    Gen.Ssa7.bitmap_NewTailBitmap o thr0 = some (o, [], o) := by
  rw [Tie_bitmap_NewTailBitmap o thr0 h0]; rfl

/-- OUTSIDE the property's domain: a negative `reclaimThreshold` (only the `verif` build hook can set one) makes the
    constructor panic. -/
theorem E2E_C15_new_neg (thr0 thr o : Int) (fuel : Nat) (ops : List TbOp) (h : thr0 < 0) :
    genTbNewRun fuel thr0 thr o ops = none := by
  rw [genTbNewRun, Tie_bitmap_NewTailBitmap_neg o thr0 h]; rfl

example : (genTbNewRun 9 65536 128 128 C15_demoOps).map (fun tb => (tb.offset, tb.words.length, tb.reclaimed))
    = (genTbRun 9 128 (newTailBitmap 128) C15_demoOps).map (fun tb => (tb.offset, tb.words.length, tb.reclaimed)) := by
  decide +kernel
example : (genTbNewRun 9 65536 128 128 C15_demoOps).bind (fun tb => genGet1 tb 200) = some 1 := by decide +kernel

end Low
