import LowProofs.Tie7.bitmap_initMasks
import LowProofs.Tie7.bitmap_initSelectLookup
import LowProofs.Tie7.bmtree_init
/-
  The lookup tables, end to end.  The definitions regenerated from the READERS (generations 1-4: `Rank128`, `Select32`,
  `PathToIndex`, `IndexToPath`, `Join`, `TailBitmap.Set`, …) read the package-level tables through the vocabulary
  functions `GoSem.tblMask`, `tblRMask`, `tblMaskUpto`, `tblRMaskUpto`, `tblBit`, (`tblRBit`), `GoSem2.tblSelect8`,
  `GoSem2.tblIdxToPath`, whose CONTENTS used to be trusted (DESIGN.md 4.1, 6).  This file states, in one theorem about
  regenerated code only, that each of these functions IS the bounds-checked read of the table that the regenerated
  INITIALISER of the package builds — for every index, in range or out of range.  Together with the checks the translator
  makes when it regenerates the initialisers (nothing else writes the tables; the initialisers run exactly once, during
  package initialisation; see tools/ssa2lean7/init7.go) this removes the table contents from the trusted base: what
  remains trusted is that package initialisation has finished before a reader runs (Go guarantees it for every
  function called from outside package initialisation).

  The readers' definitions keep calling the vocabulary functions (they are byte-identical to the earlier generations);
  every E2E theorem of C01, C02, C03, C05, C09, C10, C11, C14, C15 is therefore, by rewriting with the equations below, a
  theorem about code that reads the regenerated tables.
-/
namespace Low
open Low.GoSem

/-- the eight tables the vocabulary reads are the tables the regenerated initialisers build -/
theorem E2E_tables (fuel : Nat) (hfuel : 257 ≤ fuel) :
    (∀ j, tblMask j      = (Gen.Ssa7.bitmap_initMasks fuel).bind (fun T => index T.2.1 j)) ∧
    (∀ j, tblRMask j     = (Gen.Ssa7.bitmap_initMasks fuel).bind (fun T => index T.2.2.2.2.1 j)) ∧
    (∀ j, tblMaskUpto j  = (Gen.Ssa7.bitmap_initMasks fuel).bind (fun T => index T.2.2.1 j)) ∧
    (∀ j, tblRMaskUpto j = (Gen.Ssa7.bitmap_initMasks fuel).bind (fun T => index T.2.2.2.2.2 j)) ∧
    (∀ j, tblBit j       = (Gen.Ssa7.bitmap_initMasks fuel).bind (fun T => index T.1 j)) ∧
    (∀ j, tblRBit j      = (Gen.Ssa7.bitmap_initMasks fuel).bind (fun T => index T.2.2.2.1 j)) ∧
    (∀ j, GoSem2.tblSelect8 j = (Gen.Ssa7.bitmap_initSelectLookup fuel).bind (fun T => index T j)) ∧
    (∀ i j, GoSem2.tblIdxToPath i j
        = Gen.Ssa7.bmtree_init.bind (fun T => (index T i).bind (fun row => index row j))) :=
  have h66 : 66 ≤ fuel := by omega
  ⟨fun j => (Tie_bitmap_Mask_read fuel h66 j).symm, fun j => (Tie_bitmap_RMask_read fuel h66 j).symm,
   fun j => (Tie_bitmap_MaskUpto_read fuel h66 j).symm, fun j => (Tie_bitmap_RMaskUpto_read fuel h66 j).symm,
   fun j => (Tie_bitmap_Bit_read fuel h66 j).symm, fun j => (Tie_bitmap_RBit_read fuel h66 j).symm,
   fun j => (Tie_bitmap_select8Lookup_read fuel hfuel j).symm, fun i j => (Tie_bmtree_idxToPath_read i j).symm⟩

/-- the sizes of the tables the initialisers build are the declared array lengths -/
theorem E2E_tables_len (fuel : Nat) (hfuel : 257 ≤ fuel) :
    (Gen.Ssa7.bitmap_initMasks fuel).map (fun T => (T.1.length, T.2.1.length, T.2.2.1.length, T.2.2.2.1.length,
        T.2.2.2.2.1.length, T.2.2.2.2.2.length)) = some (64, 65, 64, 64, 65, 64) ∧
    (Gen.Ssa7.bitmap_initSelectLookup fuel).map List.length = some 2048 ∧
    Gen.Ssa7.bmtree_init.map (fun T => T.map List.length) = some [1, 1, 3, 0, 7, 0, 0, 0, 15] := by
  refine ⟨?_, ?_, ?_⟩
  · rw [Tie_bitmap_initMasks fuel (by omega)]; simp [maskTables]
  · rw [Tie_bitmap_initSelectLookup fuel hfuel, Option.map_some]
    have : select8Table.toList.length = 2048 := by decide +kernel
    rw [this]
  · rw [Tie_bmtree_init]; decide

end Low
