import LowProofs.E2E2.C16
import LowProofs.Tie7.sigbits_New
/-
  C16 (`CountPrefixes`) end to end INCLUDING THE CONSTRUCTOR `sigbits.New`: `E2E_C16_count` (E2E2/C16.lean) feeds the
  result of the regenerated `FirstDiffBits` to the regenerated method `(*SigBits).CountPrefixes` by hand; here the
  receiver is the struct the REGENERATED constructor returns (`Generated/Ssa7/sigbits_New.lean`: the tuple
  `(keys, sigbits)`), i.e. the statement is about `sigbits.New(keys).CountPrefixes(s, e, m)` as a user calls it.
-/
namespace Low
open Low.C16L

/-- `New(keys).CountPrefixes(s, e, m)`, constructor and method regenerated -/
def genNewCountPrefixes (fuel fuel' : Nat) (keys : List (List Nat)) (s e m : Int) : Option (Int × List Int) :=
  (Gen.Ssa7.sigbits_New fuel keys).bind (fun sb => Gen.Ssa3.sigbits_SigBits_CountPrefixes fuel' sb.1 sb.2 s e m)

theorem sigbits_New_unfold (fuel : Nat) (keys : List (List Nat)) :
    Gen.Ssa7.sigbits_New fuel keys = (Gen.Ssa3.sigbits_FirstDiffBits fuel keys).map (fun sig => (keys, sig)) := by
  rw [Gen.Ssa7.sigbits_New]; cases Gen.Ssa3.sigbits_FirstDiffBits fuel keys <;> rfl

/-- `C16_count` from the generated constructor: same hypotheses (inputs only) and conclusions as `E2E_C16_count`. -/
theorem E2E_C16_new_count (keys : List (List Nat)) (s e : Nat) (m : Int) (fuel fuel' : Nat)
    (hasc : strictAsc keys = true) (hok : ∀ k ∈ keys, BytesOK k) (hlen : ∀ k ∈ keys, k.length < 2^28)
    (hn : keys.length < 2^31) (hse : s + 2 ≤ e) (he : e ≤ keys.length) (hm : 1 ≤ m) (hm' : m < 2^31)
    (hfuel1 : keys.length ≤ fuel) (hfuel2 : ∀ k ∈ keys, k.length / 8 + 2 ≤ fuel)
    (hfuel' : e + m.toNat ≤ fuel') :
    ∃ (m0 : Nat) (cs : List Nat),
      genNewCountPrefixes fuel fuel' keys (s : Int) (e : Int) m = some ((m0 : Int), cs.map Int.ofNat) ∧
      m0 ∈ List.zipWith fdSpec ((keys.drop s).take (e - s)) ((keys.drop s).take (e - s)).tail ∧
      (∀ d ∈ List.zipWith fdSpec ((keys.drop s).take (e - s)) ((keys.drop s).take (e - s)).tail, m0 ≤ d) ∧
      cs.length = m.toNat ∧
      ∀ i, i < m.toNat →
        cs.getD i 0 = distinctCount (((keys.drop s).take (e - s)).map (truncBits (m0 + i))) := by
  obtain ⟨sig, m0, cs, h1, h2, h3, h4, h5, h6⟩ :=
    E2E_C16_count keys s e m fuel fuel' hasc hok hlen hn hse he hm hm' hfuel1 hfuel2 hfuel'
  refine ⟨m0, cs, ?_, h3, h4, h5, h6⟩
  rw [genNewCountPrefixes, sigbits_New_unfold, h1]
  exact h2

/-- the constructor on the empty key list panics (`make([]int32, -1)` in `FirstDiffBits`); C16 is about non-empty lists. -/
theorem E2E_C16_new_nil (fuel : Nat) : Gen.Ssa7.sigbits_New fuel [] = none := by
  rw [sigbits_New_unfold, E2E_C16_firstDiffBits_nil]; rfl

example : genNewCountPrefixes 3 6 [[0x61, 0x62], [0x61, 0x63], [0x62]] 0 3 3 = some (6, [1, 2, 2]) := by decide +kernel

end Low
