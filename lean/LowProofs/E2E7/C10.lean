import LowProofs.E2E.C10
import LowProofs.Tie7.bmtree_PathStr
/-
  C10, the `PathStr` clause, end to end: "PathStr renders exactly the l prefix bits ('' for the root)" stated about the
  definition REGENERATED from `bmtree.PathStr` (`Generated/Ssa7/bmtree_PathStr.lean`; the call of `fmt.Sprintf` is the
  vocabulary function `GoSem7.sprintfBinPad`) and, in the second theorem, about the word the regenerated `NewPath` returns.
  This was the one clause of C10 without an end-to-end form (DESIGN.md 4.1).
-/
namespace Low

/-- the bytes of the ASCII rendering of a node: '1' = 49, '0' = 48 -/
def bitChars (n : List Bool) : List Nat := n.map (fun b => if b then 49 else 48)

/-- The code of `PathStr` on the path word of the node `n` in a tree of height `h ≤ 32` returns, without panic, exactly the
    branch bits of the node as ASCII digits (the empty string for the root). -/
theorem E2E_C10_str {h : Nat} {n : List Bool} (hh : h ≤ 32) (hl : n.length ≤ h) :
    Gen.Ssa7.bmtree_PathStr (encPath h n) = some (bitChars n) := by
  rw [Tie_bmtree_PathStr, C10_str hh hl, String.toList_ofList, List.map_map, bitChars]
  congr 1
  apply List.map_congr_left
  intro b _
  cases b <;> rfl

/-- purely on generated code: `PathStr(NewPath(prefix left-aligned, l, h))` is the `l` prefix bits -/
theorem E2E_C10_str_newPath {h : Nat} {n : List Bool} (hh : h ≤ 32) (hl : n.length ≤ h) :
    (Gen.Ssa.bmtree_NewPath (bitsVal n <<< (h - n.length)) (n.length : Int) (h : Int)).bind Gen.Ssa7.bmtree_PathStr
      = some (bitChars n) := by
  rw [E2E_C10_newPath hh hl, Option.bind_some, E2E_C10_str hh hl]

example : Gen.Ssa7.bmtree_PathStr (encPath 5 [true, false, true]) = some [49, 48, 49] := by decide +kernel
example : bitChars [true, false, true] = "101".toList.map Char.toNat := by decide

end Low
