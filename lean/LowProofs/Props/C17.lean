import LowProofs.Lemmas.C17Final
/-
  C17 -- ShardByPrefix: bounded contiguous shards with ordered, unique prefixes.
  Only the property theorems and their non-vacuity examples live here; helpers are in Lemmas/C17*.lean
  (and Lemmas/C16Lcp.lean, C16Fd.lean for the first-difference bits).
  Keys are `List Nat` with `BytesOK` (every element `< 256`); the result is `(L, B)` = (prefix lengths,
  boundaries). Hypotheses named `_h…` belong to the property's domain but are not needed by the proof.
-/
namespace Low
open Low.C16L Low.C17L

/-- ShardByPrefix does not panic and does not run out of the model's fuel `len(keys)+1` (termination). -/
theorem C17_total (keys : List (List Nat)) (maxSize : Int) (hne : keys ≠ [])
    (_hasc : strictAsc keys = true) (hok : ∀ k ∈ keys, BytesOK k) (hm : 1 ≤ maxSize) :
    ∃ L B, shardByPrefix keys maxSize = some (L, B) := by
  obtain ⟨Ls, Bs, h, _⟩ := shard_valid keys maxSize hne hok hm
  exact ⟨Ls, 0 :: Bs, h⟩

/-- shape: `k+1` boundaries for `k` prefix lengths, `0 = B[0] < B[1] < … < B[k] = len(keys)`. -/
theorem C17_shape (keys : List (List Nat)) (maxSize : Int) (hne : keys ≠ [])
    (_hasc : strictAsc keys = true) (hok : ∀ k ∈ keys, BytesOK k) (hm : 1 ≤ maxSize)
    (L B : List Nat) (h : shardByPrefix keys maxSize = some (L, B)) :
    B.length = L.length + 1 ∧ B.head? = some 0 ∧ B.getLast? = some keys.length ∧
      ∀ j, j < L.length → B.getD j 0 < B.getD (j + 1) 0 := by
  obtain ⟨Ls, Bs, h', hv⟩ := shard_valid keys maxSize hne hok hm
  rw [h'] at h
  simp only [Option.some.injEq, Prod.mk.injEq] at h
  obtain ⟨rfl, rfl⟩ := h
  refine ⟨by simp [valid_length _ _ _ _ _ _ hv], rfl, valid_last _ _ _ _ _ _ hv, fun j hj => ?_⟩
  exact (valid_index _ _ _ _ _ _ hv j hj).1

/-- size: every shard `keys[B[j]:B[j+1]]` holds at most `maxSize` keys. -/
theorem C17_size (keys : List (List Nat)) (maxSize : Int) (hne : keys ≠ [])
    (_hasc : strictAsc keys = true) (hok : ∀ k ∈ keys, BytesOK k) (hm : 1 ≤ maxSize)
    (L B : List Nat) (h : shardByPrefix keys maxSize = some (L, B)) :
    ∀ j, j < L.length → ((B.getD (j + 1) 0 - B.getD j 0 : Nat) : Int) ≤ maxSize := by
  obtain ⟨Ls, Bs, h', hv⟩ := shard_valid keys maxSize hne hok hm
  rw [h'] at h
  simp only [Option.some.injEq, Prod.mk.injEq] at h
  obtain ⟨rfl, rfl⟩ := h
  intro j hj
  have := (valid_index _ _ _ _ _ _ hv j hj).2.1
  omega

/-- lcp: `L[j]` is exactly the byte length of the longest common prefix of shard `j`
    (`lcpAll` of a single key is its length). -/
theorem C17_lcp (keys : List (List Nat)) (maxSize : Int) (hne : keys ≠ [])
    (_hasc : strictAsc keys = true) (hok : ∀ k ∈ keys, BytesOK k) (hm : 1 ≤ maxSize)
    (L B : List Nat) (h : shardByPrefix keys maxSize = some (L, B)) :
    ∀ j, j < L.length →
      L.getD j 0 = lcpAll ((keys.drop (B.getD j 0)).take (B.getD (j + 1) 0 - B.getD j 0)) := by
  obtain ⟨Ls, Bs, h', hv⟩ := shard_valid keys maxSize hne hok hm
  rw [h'] at h
  simp only [Option.some.injEq, Prod.mk.injEq] at h
  obtain ⟨rfl, rfl⟩ := h
  intro j hj
  exact (valid_index _ _ _ _ _ _ hv j hj).2.2

/-- order: the shard prefixes `keys[B[j]][:L[j]]` are strictly ascending in byte order … -/
theorem C17_order (keys : List (List Nat)) (maxSize : Int) (hne : keys ≠ [])
    (hasc : strictAsc keys = true) (hok : ∀ k ∈ keys, BytesOK k) (hm : 1 ≤ maxSize)
    (L B : List Nat) (h : shardByPrefix keys maxSize = some (L, B)) :
    strictAsc ((List.range L.length).map fun j => (keys.getD (B.getD j 0) []).take (L.getD j 0)) = true := by
  obtain ⟨Ls, Bs, h', hv, hp⟩ := shard_ordered keys maxSize hne hasc hok hm
  rw [h'] at h
  simp only [Option.some.injEq, Prod.mk.injEq] at h
  obtain ⟨rfl, rfl⟩ := h
  rw [PL_eq_map keys Ls Bs 0 (valid_length _ _ _ _ _ _ hv)]
  exact strictAsc_of_pairwise _ hp

/-- … hence pairwise distinct. -/
theorem C17_unique (keys : List (List Nat)) (maxSize : Int) (hne : keys ≠ [])
    (hasc : strictAsc keys = true) (hok : ∀ k ∈ keys, BytesOK k) (hm : 1 ≤ maxSize)
    (L B : List Nat) (h : shardByPrefix keys maxSize = some (L, B)) :
    ((List.range L.length).map fun j => (keys.getD (B.getD j 0) []).take (L.getD j 0)).Pairwise (· ≠ ·) := by
  have := pairwise_of_strictAsc _ (C17_order keys maxSize hne hasc hok hm L B h)
  refine this.imp ?_
  intro a b hab e
  exact bytesCompare_irrefl a (by rw [← e] at hab; exact hab)

/-- All clauses at once, through the checkable predicate `shardOK` of `LowModel/Spec.lean` (the predicate the
    correspondence harness evaluates on the Go result): no panic, shape, size, lcp and strict order. -/
theorem C17_shardByPrefix (keys : List (List Nat)) (maxSize : Int) (hne : keys ≠ [])
    (hasc : strictAsc keys = true) (hok : ∀ k ∈ keys, BytesOK k) (hm : 1 ≤ maxSize) :
    ∃ L B, shardByPrefix keys maxSize = some (L, B) ∧ shardOK keys maxSize.toNat L B = true := by
  obtain ⟨Ls, Bs, h, hpost⟩ := shard_ordered keys maxSize hne hasc hok hm
  exact ⟨Ls, 0 :: Bs, h, shardOK_of_post keys maxSize.toNat Ls Bs hpost⟩

/-! non-vacuity: a key list with a key that is the common prefix of its successors, NUL bytes and a
    split that restarts (`maxSize = 2`) -/
example : strictAsc [[97], [97, 0], [97, 1], [98], [98, 1, 1], [98, 1, 2], [98, 2]] = true := by decide
example : ∀ k ∈ ([[97], [97, 0], [97, 1], [98], [98, 1, 1], [98, 1, 2], [98, 2]] : List (List Nat)), BytesOK k := by
  simp [BytesOK]
example : shardByPrefix [[97], [97, 0], [97, 1], [98], [98, 1, 1], [98, 1, 2], [98, 2]] 2 =
    some ([1, 2, 2, 1, 2, 2], [0, 1, 2, 3, 4, 6, 7]) := by
  have h : firstDiffBits [[97], [97, 0], [97, 1], [98], [98, 1, 1], [98, 1, 2], [98, 2]] =
      some [8, 15, 6, 8, 22, 14] := by decide
  simp [shardByPrefix, h, shardDfs, shardEach, shardScan]
example : shardOK [[97], [97, 0], [97, 1], [98], [98, 1, 1], [98, 1, 2], [98, 2]] 2
    [1, 2, 2, 1, 2, 2] [0, 1, 2, 3, 4, 6, 7] = true := by decide
example : shardByPrefix [[97], [97, 0], [97, 1], [98], [98, 1, 1], [98, 1, 2], [98, 2]] 3 =
    some ([1, 1, 2, 2], [0, 3, 4, 6, 7]) := by
  have h : firstDiffBits [[97], [97, 0], [97, 1], [98], [98, 1, 1], [98, 1, 2], [98, 2]] =
      some [8, 15, 6, 8, 22, 14] := by decide
  simp [shardByPrefix, h, shardDfs, shardEach, shardScan]
/-- the order clause is not implied by shape/size/lcp: a valid-looking partition with unordered prefixes -/
example : shardOK [[97], [97, 98], [98]] 2 [1, 0] [0, 1, 3] = false := by decide

end Low
