import LowProofs.Lemmas.C17Main
/-
  C17 -- ShardByPrefix: bounded contiguous shards with ordered, unique prefixes.
  Only the property theorems and their non-vacuity examples live here; helpers are in Lemmas/C17*.lean
  (and Lemmas/C16Lcp.lean, C16Fd.lean for the first-difference bits).
  Keys are `List Nat` with `BytesOK` (every element `< 256`); the result is `(L, B)` = (prefix lengths,
  boundaries). Hypotheses named `_h…` belong to the property's domain but are not needed by the proof.
-/
namespace Low
open Low.C16L Low.C17L

/-- ShardByPrefix does not panic and does not run out of the model's fuel `len(keys)+1` (termination). -/
theorem C17_total (keys : List (List Nat)) (maxSize : Int) (hne : keys ≠ [])
    (_hasc : strictAsc keys = true) (hok : ∀ k ∈ keys, BytesOK k) (hm : 1 ≤ maxSize) :
    ∃ L B, shardByPrefix keys maxSize = some (L, B) := by
  obtain ⟨Ls, Bs, h, _⟩ := shard_valid keys maxSize hne hok hm
  exact ⟨Ls, 0 :: Bs, h⟩

/-- shape: `k+1` boundaries for `k` prefix lengths, `0 = B[0] < B[1] < … < B[k] = len(keys)`. -/
theorem C17_shape (keys : List (List Nat)) (maxSize : Int) (hne : keys ≠ [])
    (_hasc : strictAsc keys = true) (hok : ∀ k ∈ keys, BytesOK k) (hm : 1 ≤ maxSize)
    (L B : List Nat) (h : shardByPrefix keys maxSize = some (L, B)) :
    B.length = L.length + 1 ∧ B.head? = some 0 ∧ B.getLast? = some keys.length ∧
      ∀ j, j < L.length → B.getD j 0 < B.getD (j + 1) 0 := by
  obtain ⟨Ls, Bs, h', hv⟩ := shard_valid keys maxSize hne hok hm
  rw [h'] at h
  simp only [Option.some.injEq, Prod.mk.injEq] at h
  obtain ⟨rfl, rfl⟩ := h
  refine ⟨by simp [valid_length _ _ _ _ _ _ hv], rfl, valid_last _ _ _ _ _ _ hv, fun j hj => ?_⟩
  exact (valid_index _ _ _ _ _ _ hv j hj).1

/-- size: every shard `keys[B[j]:B[j+1]]` holds at most `maxSize` keys. -/
theorem C17_size (keys : List (List Nat)) (maxSize : Int) (hne : keys ≠ [])
    (_hasc : strictAsc keys = true) (hok : ∀ k ∈ keys, BytesOK k) (hm : 1 ≤ maxSize)
    (L B : List Nat) (h : shardByPrefix keys maxSize = some (L, B)) :
    ∀ j, j < L.length → ((B.getD (j + 1) 0 - B.getD j 0 : Nat) : Int) ≤ maxSize := by
  obtain ⟨Ls, Bs, h', hv⟩ := shard_valid keys maxSize hne hok hm
  rw [h'] at h
  simp only [Option.some.injEq, Prod.mk.injEq] at h
  obtain ⟨rfl, rfl⟩ := h
  intro j hj
  have := (valid_index _ _ _ _ _ _ hv j hj).2.1
  omega

/-- lcp: `L[j]` is exactly the byte length of the longest common prefix of shard `j`
    (`lcpAll` of a single key is its length). -/
theorem C17_lcp (keys : List (List Nat)) (maxSize : Int) (hne : keys ≠ [])
    (_hasc : strictAsc keys = true) (hok : ∀ k ∈ keys, BytesOK k) (hm : 1 ≤ maxSize)
    (L B : List Nat) (h : shardByPrefix keys maxSize = some (L, B)) :
    ∀ j, j < L.length →
      L.getD j 0 = lcpAll ((keys.drop (B.getD j 0)).take (B.getD (j + 1) 0 - B.getD j 0)) := by
  obtain ⟨Ls, Bs, h', hv⟩ := shard_valid keys maxSize hne hok hm
  rw [h'] at h
  simp only [Option.some.injEq, Prod.mk.injEq] at h
  obtain ⟨rfl, rfl⟩ := h
  intro j hj
  exact (valid_index _ _ _ _ _ _ hv j hj).2.2

end Low
