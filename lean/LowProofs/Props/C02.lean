import LowProofs.Lemmas.C02Loops
/-
  C02 -- Select is exact and inverse to rank (Select32, Select32R64).
  Only the property theorems and their non-vacuity examples live here; the proofs are in
  `LowProofs/Lemmas/C02{Spec,Idx,Word,Scan,Loops}.lean` (namespace `Low.C02L`).
  `n` of the property is `(ones ws).length`; "position of the i-th 1-bit" is `(ones ws)[i]`.
  (The model uses unbounded naturals; it represents the int32 code for `BmDom ws`, see DESIGN 3.1.
   `WordsOK ws` = every word is a uint64; it is only assumed where the proof needs it.)
-/
namespace Low
open Low.C02L

/-- Pure spec fact: the i-th entry of `ones` is a 1-bit and exactly `i` 1-bits precede it,
    i.e. rank(select(i)) = i and the selected bit is 1. (No `WordsOK` needed.) -/
theorem C02_rank_select (ws : List Nat) (i : Nat) (hi : i < (ones ws).length) :
    rank ws ((ones ws)[i]) = i ∧ bitAt ws ((ones ws)[i]) = true := by
  obtain ⟨_, h2, h3⟩ := ones_getElem? (List.getElem?_eq_getElem hi)
  exact ⟨h3, h2⟩

/-- IndexSelect32 lists the position of every 32nd 1-bit: ceil(n/32) entries, entry k is the
    position of the (32k)-th 1-bit. (No `WordsOK` needed.) -/
theorem C02_indexSelect32 (ws : List Nat) :
    indexSelect32 ws =
      (List.range (((ones ws).length + 31) / 32)).map (fun k => (ones ws).getD (32 * k) 0) :=
  indexSelect32_eq ws

/-- IndexSelect32R64 returns the same select index together with IndexRank64(words, true). -/
theorem C02_indexSelect32R64 (ws : List Nat) :
    indexSelect32R64 ws = (indexSelect32 ws, indexRank64 ws true) := rfl

/-- Select32 with the IndexSelect32 index does not panic and returns exactly
    (position of the i-th 1-bit, position of the (i+1)-th 1-bit or 64*len when i is the last). -/
theorem C02_select32 (ws : List Nat) (hok : WordsOK ws) (i : Nat) (hi : i < (ones ws).length) :
    select32 ws (indexSelect32 ws) i =
      some ((ones ws)[i], (ones ws).getD (i + 1) (64 * ws.length)) := by
  obtain ⟨a, b, h, hb, hr, hn⟩ := select32_spec hok hi
  obtain ⟨_, e1, e2⟩ := ones_pair hb hr hn
  rw [h, e1, e2]

/-- Select32R64 with the two IndexSelect32R64 indexes does not panic and returns the same pair. -/
theorem C02_select32R64 (ws : List Nat) (hok : WordsOK ws) (i : Nat) (hi : i < (ones ws).length) :
    select32R64 ws (indexSelect32 ws) (indexRank64 ws true) i =
      some ((ones ws)[i], (ones ws).getD (i + 1) (64 * ws.length)) := by
  obtain ⟨a, b, h, hb, hr, hn⟩ := select32R64_spec hok hi
  obtain ⟨_, e1, e2⟩ := ones_pair hb hr hn
  rw [h, e1, e2]

/-- the same, stated through the pair actually returned by IndexSelect32R64 -/
theorem C02_select32R64_pair (ws : List Nat) (hok : WordsOK ws) (i : Nat) (hi : i < (ones ws).length) :
    select32R64 ws (indexSelect32R64 ws).1 (indexSelect32R64 ws).2 i =
      some ((ones ws)[i], (ones ws).getD (i + 1) (64 * ws.length)) :=
  C02_select32R64 ws hok i hi

/-! non-vacuity: 66 one-bits over three words with an empty word in the middle; selects that cross
    the 32-checkpoint, the word boundary, the empty word, and the last 1-bit (tail `l<<6`). -/
example : WordsOK [2^64 - 1, 0, 2^63 + 1] := by unfold WordsOK; decide
example : (ones [2^64 - 1, 0, 2^63 + 1]).length = 66 := by decide +kernel
example : indexSelect32 [2^64 - 1, 0, 2^63 + 1] = [0, 32, 128] := by decide +kernel
example : indexSelect32R64 [2^64 - 1, 0, 2^63 + 1] = ([0, 32, 128], [0, 64, 64, 66]) := by decide +kernel
example : select32 [2^64 - 1, 0, 2^63 + 1] (indexSelect32 [2^64 - 1, 0, 2^63 + 1]) 63 = some (63, 128) := by
  decide +kernel
example : select32 [2^64 - 1, 0, 2^63 + 1] (indexSelect32 [2^64 - 1, 0, 2^63 + 1]) 65 = some (191, 192) := by
  decide +kernel
example : select32R64 [2^64 - 1, 0, 2^63 + 1] (indexSelect32 [2^64 - 1, 0, 2^63 + 1])
    (indexRank64 [2^64 - 1, 0, 2^63 + 1] true) 64 = some (128, 191) := by decide +kernel
example : select32R64 [2^64 - 1, 0, 2^63 + 1] (indexSelect32 [2^64 - 1, 0, 2^63 + 1])
    (indexRank64 [2^64 - 1, 0, 2^63 + 1] true) 65 = some (191, 192) := by decide +kernel
/-- the theorems' hypotheses are satisfiable on that bitmap (i = 65 is the last 1-bit) -/
example := C02_select32 [2^64 - 1, 0, 2^63 + 1] (by unfold WordsOK; decide) 65 (by decide +kernel)
example := C02_select32R64 [2^64 - 1, 0, 2^63 + 1] (by unfold WordsOK; decide) 31 (by decide +kernel)
example := C02_rank_select [2^64 - 1, 0, 2^63 + 1] 64 (by decide +kernel)
example : rank [2^64 - 1, 0, 2^63 + 1] 191 = 65 ∧ bitAt [2^64 - 1, 0, 2^63 + 1] 191 = true := by
  decide +kernel

end Low
