import LowProofs.Lemmas.C03Contracts
import LowProofs.Lemmas.C03Order
/-
  C03 -- PathToIndex is the pre-order rank of a tree node among the stored nodes.

  Domain (all theorems): a level mask `T` with `1 ≤ T < 2^31`, `h` its height as computed by the
  model's own `height` (`height T = h`, i.e. `2^h ≤ T < 2^(h+1)`, see `C03L.height_spec`), and a node
  `n : List Bool` (branch list, `false` = left) of depth `n.length ≤ h`; its path word is `encPath h n`.
  Only the property theorems and their non-vacuity examples live here; helpers are in
  `LowProofs/Lemmas/C03*.lean`.
-/
namespace Low
open Low.C03L

/-- The number of stored nodes is the bitmap size `T`. -/
theorem C03_preorder_length (T h : Nat) (hT1 : 1 ≤ T) (hT31 : T < 2^31) (hh : height T = (h : Int)) :
    (preorder T h 0 []).length = T := by
  have ⟨_, hi, _⟩ := height_spec hT1 hT31 hh
  rw [preorder_length_of_lt [] (by rw [Nat.zero_add]; exact hi), Nat.shiftRight_zero]

example : (preorder 0x72 6 0 []).length = 0x72 :=
  C03_preorder_length 0x72 6 (by decide) (by decide) (by decide)

/-- `preIdx T 0 n` IS the position of the stored node `n` in the recursive pre-order enumeration of
    the stored nodes. -/
theorem C03_preorder_index (T h : Nat) (n : List Bool) (hT1 : 1 ≤ T) (hT31 : T < 2^31)
    (hh : height T = (h : Int)) (hn : n.length ≤ h) (hs : T.testBit n.length = true) :
    (preorder T h 0 [])[preIdx T 0 n]? = some n := by
  have ⟨_, hi, _⟩ := height_spec hT1 hT31 hh
  have := preorder_index T h 0 [] n (by rw [Nat.zero_add]; exact hi) hn (by rw [Nat.zero_add]; exact hs)
  simpa using this

example : (preorder 5 2 0 [])[preIdx 5 0 [true, false]]? = some [true, false] :=
  C03_preorder_index 5 2 [true, false] (by decide) (by decide) (by decide) (by decide) (by decide)

/-- Consequences: the index of a stored node is `< T`, and distinct stored nodes have distinct indexes. -/
theorem C03_index_lt (T h : Nat) (n : List Bool) (hT1 : 1 ≤ T) (hT31 : T < 2^31)
    (hh : height T = (h : Int)) (hn : n.length ≤ h) (hs : T.testBit n.length = true) :
    preIdx T 0 n < T := by
  have h1 := C03_preorder_index T h n hT1 hT31 hh hn hs
  have h2 := C03_preorder_length T h hT1 hT31 hh
  rcases Nat.lt_or_ge (preIdx T 0 n) (preorder T h 0 []).length with h | h
  · omega
  · rw [List.getElem?_eq_none h] at h1; cases h1

theorem C03_index_inj (T h : Nat) (n n' : List Bool) (hT1 : 1 ≤ T) (hT31 : T < 2^31)
    (hh : height T = (h : Int)) (hn : n.length ≤ h) (hs : T.testBit n.length = true)
    (hn' : n'.length ≤ h) (hs' : T.testBit n'.length = true) (he : preIdx T 0 n = preIdx T 0 n') :
    n = n' := by
  have h1 := C03_preorder_index T h n hT1 hT31 hh hn hs
  have h2 := C03_preorder_index T h n' hT1 hT31 hh hn' hs'
  rw [he, h2] at h1
  exact (Option.some.inj h1).symm

example : preIdx 0x72 0 [true, false, true, true] < 0x72 :=
  C03_index_lt 0x72 6 _ (by decide) (by decide) (by decide) (by decide) (by decide)

/-- Every position `i < T` is the index of a stored node (with the two theorems above: `preIdx` is a
    bijection from the stored nodes onto `[0, T)`), and that node is the `i`-th of the enumeration. -/
theorem C03_index_surj (T h i : Nat) (hT1 : 1 ≤ T) (hT31 : T < 2^31) (hh : height T = (h : Int))
    (hi : i < T) :
    ∃ n : List Bool, n.length ≤ h ∧ T.testBit n.length = true ∧ preIdx T 0 n = i ∧
      (preorder T h 0 [])[i]? = some n := by
  have ⟨_, hi2, _⟩ := height_spec hT1 hT31 hh
  have hlen := C03_preorder_length T h hT1 hT31 hh
  have ⟨s, h1, h2, h3, h4⟩ := preorder_surj T h 0 [] i (by rw [Nat.zero_add]; exact hi2) (by omega)
  exact ⟨s, h2, by simpa using h3, h4, by simpa using h1⟩

example : ∃ n : List Bool, n.length ≤ 6 ∧ Nat.testBit 0x72 n.length = true ∧ preIdx 0x72 0 n = 100 ∧
    (preorder 0x72 6 0 [])[100]? = some n :=
  C03_index_surj 0x72 6 100 (by decide) (by decide) (by decide) (by decide)

/-- The index is strictly monotone for the pre-order on nodes given directly (not through the list):
    `n` precedes `n'` when `n` is a proper prefix of `n'`, or when at the first difference `n` goes
    left and `n'` goes right. -/
theorem C03_index_strictMono (T h : Nat) (n n' : List Bool) (hT1 : 1 ≤ T) (hT31 : T < 2^31)
    (hh : height T = (h : Int)) (hn : n.length ≤ h) (hs : T.testBit n.length = true)
    (hn' : n'.length ≤ h) (hs' : T.testBit n'.length = true) (hlt : preLt n n' = true) :
    preIdx T 0 n < preIdx T 0 n' := by
  have ⟨_, hi, _⟩ := height_spec hT1 hT31 hh
  exact preIdx_strictMono T h n n' 0 (by rw [Nat.zero_add]; exact hi)
    (by omega) (by simpa using hs) (by omega) (by simpa using hs') hlt

example : preIdx 0x72 0 [false, true, true, true] < preIdx 0x72 0 [true, false, false, false, false] :=
  C03_index_strictMono 0x72 6 _ _ (by decide) (by decide) (by decide) (by decide) (by decide)
    (by decide) (by decide) (by decide)

/-- PathToIndexLoose (release build) returns (number of stored nodes before the node in pre-order,
    1 iff the node's own level is stored). Covers the full-tree closed form, the leaf-only branch
    and the general `shiftMulti` branch. -/
theorem C03_loose (T h : Nat) (n : List Bool) (hT1 : 1 ≤ T) (hT31 : T < 2^31)
    (hh : height T = (h : Int)) (hn : n.length ≤ h) :
    pathToIndexLoose T (encPath h n) = ((preIdx T 0 n : Int), (T.testBit n.length).toNat) := by
  have v : Valid T h n := Valid.of_height hT1 hT31 hh hn
  simp only [pathToIndexLoose, core_eq v true,
    pathLen_encPath h n v.len (by have := v.h30; omega), shiftRight_mod_two]

example : pathToIndexLoose 0x72 (encPath 6 [true, false, true]) = (72, 0) := by
  rw [C03_loose 0x72 6 _ (by decide) (by decide) (by decide) (by decide)]; decide
example : pathToIndexLoose 0x7f (encPath 6 [true, false, true]) = (81, 1) := by
  rw [C03_loose 0x7f 6 _ (by decide) (by decide) (by decide) (by decide)]; decide
example : pathToIndexLoose 0x40 (encPath 6 [true, false, true, true, false, true]) = (45, 1) := by
  rw [C03_loose 0x40 6 _ (by decide) (by decide) (by decide) (by decide)]; decide

/-- PathToIndex (release build) returns the same index for every node on a stored level. -/
theorem C03_strict (T h : Nat) (n : List Bool) (hT1 : 1 ≤ T) (hT31 : T < 2^31)
    (hh : height T = (h : Int)) (hn : n.length ≤ h) (_hs : T.testBit n.length = true) :
    pathToIndex T (encPath h n) = (preIdx T 0 n : Int) :=
  core_eq (Valid.of_height hT1 hT31 hh hn) false

example : pathToIndex 0x72 (encPath 6 [true, false, true, true]) = 79 := by
  rw [C03_strict 0x72 6 _ (by decide) (by decide) (by decide) (by decide) (by decide)]; decide

/-- No `-tags debug` contract fires on a valid input. -/
theorem C03_contracts (T h : Nat) (n : List Bool) (hT1 : 1 ≤ T) (hT31 : T < 2^31)
    (hh : height T = (h : Int)) (hn : n.length ≤ h) :
    contractsLoose T (encPath h n) = true ∧
    (T.testBit n.length = true → contractsStrict T (encPath h n) = true) :=
  have v : Valid T h n := Valid.of_height hT1 hT31 hh hn
  ⟨contractsLoose_ok v, contractsStrict_ok v⟩

example : contractsLoose 0x72 (encPath 6 [true, false, true]) = true :=
  (C03_contracts 0x72 6 _ (by decide) (by decide) (by decide) (by decide)).1
example : contractsStrict 0x72 (encPath 6 [true, false, true, true]) = true :=
  (C03_contracts 0x72 6 _ (by decide) (by decide) (by decide) (by decide)).2 (by decide)

/-- The debug build of PathToIndexLoose does not panic and returns the release value. -/
theorem C03_loose_debug (T h : Nat) (n : List Bool) (hT1 : 1 ≤ T) (hT31 : T < 2^31)
    (hh : height T = (h : Int)) (hn : n.length ≤ h) :
    pathToIndexLooseDebug T (encPath h n) = some (pathToIndexLoose T (encPath h n)) ∧
    pathToIndexLooseDebug T (encPath h n) = some ((preIdx T 0 n : Int), (T.testBit n.length).toNat) := by
  have hc := (C03_contracts T h n hT1 hT31 hh hn).1
  simp only [pathToIndexLooseDebug, hc, if_true, C03_loose T h n hT1 hT31 hh hn, and_self]

-- height 30 (the largest), deepest right-most leaf: full tree and root+leaves tree
example : pathToIndexLooseDebug 0x7fffffff (encPath 30 (List.replicate 30 true)) = some (2147483646, 1) := by
  rw [(C03_loose_debug 0x7fffffff 30 _ (by decide) (by decide) (by decide) (by decide)).2]
  decide
example : pathToIndexLooseDebug 0x40000001 (encPath 30 (List.replicate 30 true)) = some (1073741824, 1) := by
  rw [(C03_loose_debug 0x40000001 30 _ (by decide) (by decide) (by decide) (by decide)).2]
  decide

/-- The debug build of PathToIndex does not panic and returns the release value. -/
theorem C03_strict_debug (T h : Nat) (n : List Bool) (hT1 : 1 ≤ T) (hT31 : T < 2^31)
    (hh : height T = (h : Int)) (hn : n.length ≤ h) (hs : T.testBit n.length = true) :
    pathToIndexDebug T (encPath h n) = some (pathToIndex T (encPath h n)) ∧
    pathToIndexDebug T (encPath h n) = some (preIdx T 0 n : Int) := by
  have hc := (C03_contracts T h n hT1 hT31 hh hn).2 hs
  simp only [pathToIndexDebug, hc, if_true, C03_strict T h n hT1 hT31 hh hn hs, and_self]

example : pathToIndexDebug 0xfd49 (encPath 15 [true, true, false]) = some 48631 := by
  rw [(C03_strict_debug 0xfd49 15 _ (by decide) (by decide) (by decide) (by decide) (by decide)).2]
  decide

end Low
