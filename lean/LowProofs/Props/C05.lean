import LowProofs.Lemmas.C05Short
/-
  C05 -- IndexToPath inverts PathToIndex on full trees of every height.

  Domain of the property: heights `h ≤ 30`, indexes `idx < 2^(h+1) - 1` (= size of the full tree).
  Specification (LowModel/Spec.lean): nodes are branch lists, `preIdx (2^(h+1)-1) 0 n` is the pre-order
  index of node `n` in the full tree, `nodeAt h idx` the node at pre-order position `idx`,
  `encPath h n` the path word of `n`.

  * `C05_nodeAt`, `C05_nodeAt'` : `nodeAt h` and `preIdx (full h) 0` are mutually inverse bijections between
    `[0, 2^(h+1)-1)` and the nodes of depth ≤ h (pure specification facts, true for every `h`).
  * `C05_inverse`  : `IndexToPath(h, idx)` does not panic and returns exactly the path word of `nodeAt h idx`,
    a well-formed path word of height `h` by construction (`encPath`), whose pre-order index is `idx`.
  * `C05_inverse'` : the "equivalently" clause: `IndexToPath(h, preIdx n) = encPath h n` for every node.
  Together with C03 (`pathToIndex (full h) (encPath h n) = preIdx (full h) 0 n`, proved separately as C03)
  these are both directions of the English statement.

  Proof structure (LowProofs/Lemmas/C05*.lean): C05Spec (spec facts), C05Word (two-halves view of a path
  word, path word of a concatenation, the explicit first `f` branches of `nodeAt`), C05Loop (phase B: the
  descent loop with fuel 64, phase C: the 1+1+3+7+15 table entries by `decide`), C05Short (phase A: the
  common-prefix shortcut for h > 4, including the "may overflow but ok" int32 subtraction, and the assembly).
  The quantifier over `idx` is handled by proof throughout; `decide` is used only for the 27 table entries
  and for closed numeric constants.
-/
namespace Low
open Low.C05L

/-- `nodeAt` inverts `preIdx` on the full tree and yields a node of the tree.
    (Holds for every `h`; the property's `h ≤ 30` is not needed for this specification fact.) -/
theorem C05_nodeAt {h idx : Nat} (hi : idx < 2 ^ (h + 1) - 1) :
    (nodeAt h idx).length ≤ h ∧ preIdx (2 ^ (h + 1) - 1) 0 (nodeAt h idx) = idx :=
  nodeAt_spec h idx hi

/-- the other direction: every node of depth ≤ h is `nodeAt` of its pre-order index (every `h`) -/
theorem C05_nodeAt' {h : Nat} {n : List Bool} (hn : n.length ≤ h) :
    nodeAt h (preIdx (2 ^ (h + 1) - 1) 0 n) = n :=
  nodeAt_preIdx h n hn

/-- the pre-order index of a node of the full tree is an index of the full tree -/
theorem C05_preIdx_lt {h : Nat} {n : List Bool} (hn : n.length ≤ h) :
    preIdx (2 ^ (h + 1) - 1) 0 n < 2 ^ (h + 1) - 1 :=
  preIdx_full_lt h n hn

/-- `IndexToPath(h, idx)` returns (without panic) the path word of the node at pre-order position `idx` -/
theorem C05_inverse {h idx : Nat} (hh : h ≤ 30) (hi : idx < 2 ^ (h + 1) - 1) :
    indexToPath h (idx : Int) = some (encPath h (nodeAt h idx)) :=
  inverse hh hi

/-- `IndexToPath(h, index of n) = path word of n` for every node `n` of the full tree -/
theorem C05_inverse' {h : Nat} {n : List Bool} (hh : h ≤ 30) (hn : n.length ≤ h) :
    indexToPath h ((preIdx (2 ^ (h + 1) - 1) 0 n : Nat) : Int) = some (encPath h n) := by
  rw [C05_inverse hh (C05_preIdx_lt hn), C05_nodeAt' hn]

/-- the existential form of DESIGN 7.5: the result is the path word of a node of the tree whose
    pre-order index is `idx` -/
theorem C05_inverse_exists {h idx : Nat} (hh : h ≤ 30) (hi : idx < 2 ^ (h + 1) - 1) :
    ∃ n : List Bool, n.length ≤ h ∧ indexToPath h (idx : Int) = some (encPath h n) ∧
      preIdx (2 ^ (h + 1) - 1) 0 n = idx :=
  ⟨nodeAt h idx, (C05_nodeAt hi).1, C05_inverse hh hi, (C05_nodeAt hi).2⟩

/-! non-vacuity: concrete instances (height 6: shortcut not taken for idx 3, taken for idx 100;
    height 30, idx 1500000000: shortcut copies 22 branches, loop does 4, table the last 4) -/

example : (nodeAt 6 100).length ≤ 6 ∧ preIdx (2 ^ (6 + 1) - 1) 0 (nodeAt 6 100) = 100 :=
  C05_nodeAt (by decide)
example : nodeAt 6 100 = [true, true, false, false, false, false] := by decide
example : nodeAt 6 (preIdx (2 ^ (6 + 1) - 1) 0 [true, false, true]) = [true, false, true] :=
  C05_nodeAt' (by decide)
example : preIdx (2 ^ (6 + 1) - 1) 0 [true, false, true] = 81 := by decide
example : indexToPath 6 ((100 : Nat) : Int) = some (encPath 6 (nodeAt 6 100)) :=
  C05_inverse (by decide) (by decide)
example : indexToPath 6 100 = some 0x300000003f := by decide
example : encPath 6 (nodeAt 6 100) = 0x300000003f := by decide
example : indexToPath 30 ((1500000000 : Nat) : Int) = some (encPath 30 (nodeAt 30 1500000000)) :=
  C05_inverse (by decide) (by decide)
example : indexToPath 30 1500000000 = some 3221225443008970751 := by decide +kernel
example : (pre 30 1500000000).2.2 = 245 ∧ (pre 30 7).1 = 0 := by decide +kernel
example : indexToPath 6 ((preIdx (2 ^ (6 + 1) - 1) 0 [true, false, true] : Nat) : Int)
    = some (encPath 6 [true, false, true]) :=
  C05_inverse' (by decide) (by decide)
example : ∃ n : List Bool, n.length ≤ 5 ∧ indexToPath 5 ((62 : Nat) : Int) = some (encPath 5 n) ∧
    preIdx (2 ^ (5 + 1) - 1) 0 n = 62 :=
  C05_inverse_exists (by decide) (by decide)

end Low
