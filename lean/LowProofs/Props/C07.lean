import LowProofs.Lemmas.C07
/-
  C07 -- pbcmpl reports truncation, write failure and corrupt headers as errors.
  Model: LowModel/Pbcmpl.lean (the code as repaired: a negative body size is ErrInvalidBodySize, the body is
  read incrementally, a short body read after at least one byte is io.ErrUnexpectedEOF).
  "frame of (ver, body)" is `pbFrame ver body = some frame` (which forces `ver.length ≤ 16`);
  `body.length < 2^63` because a Go slice length is an `int`.  A reader is (bytes it will deliver, end error);
  a writer is a capacity with two failure modes (see `wWrite`).
  Header fields of a byte string `bs`, as the code decodes them:
    header size = `wrap64 (unle ((bs.drop 16).take 8))`, body size = `wrap64 (unle ((bs.drop 24).take 8))`.
-/
namespace Low
open C06L C07L

/-- Any strict prefix of a frame, then EOF: never success; the count is the number of bytes that were
    available; the error is io.EOF when nothing was available or for the cut exactly after the 32-byte header,
    io.ErrUnexpectedEOF otherwise; the reader is drained. -/
theorem C07_truncated (ver body frame : List Nat) (k : Nat)
    (hf : pbFrame ver body = some frame) (hb : body.length < 2 ^ 63) (hk : k < frame.length) :
    (pbUnmarshal ⟨frame.take k, .eof⟩).n = k ∧
    (pbUnmarshal ⟨frame.take k, .eof⟩).body = none ∧
    (pbUnmarshal ⟨frame.take k, .eof⟩).err = some (if k = 0 ∨ k = 32 then .eof else .unexpectedEOF) ∧
    (pbUnmarshal ⟨frame.take k, .eof⟩).rest = ⟨[], .eof⟩ := by
  obtain ⟨hv, rfl⟩ := pbFrame_some hf
  rw [frame_length ver body hv] at hk
  rw [pbUnmarshal_cut ver body .eof k hv hb hk]
  simp [cutErr]

example : (pbFrame [49, 46, 48] [7, 8, 9]).map (fun f => (List.range 35).map fun k => (pbUnmarshal ⟨f.take k, .eof⟩).err) =
    some ((List.range 35).map fun k => some (if k = 0 ∨ k = 32 then PbErr.eof else PbErr.unexpectedEOF)) := by decide
example : (pbFrame [49, 46, 48] [7, 8, 9]).map (fun f => (List.range 35).map fun k => (pbUnmarshal ⟨f.take k, .eof⟩).n) =
    some (List.range 35) := by decide

/-- Any strict prefix of a frame, then a reader error: that error is returned with the count of bytes
    that were available, never success. -/
theorem C07_readError (ver body frame : List Nat) (k : Nat)
    (hf : pbFrame ver body = some frame) (hb : body.length < 2 ^ 63) (hk : k < frame.length) :
    (pbUnmarshal ⟨frame.take k, .injected⟩).n = k ∧
    (pbUnmarshal ⟨frame.take k, .injected⟩).body = none ∧
    (pbUnmarshal ⟨frame.take k, .injected⟩).err = some .injected ∧
    (pbUnmarshal ⟨frame.take k, .injected⟩).rest = ⟨[], .injected⟩ := by
  obtain ⟨hv, rfl⟩ := pbFrame_some hf
  rw [frame_length ver body hv] at hk
  rw [pbUnmarshal_cut ver body .injected k hv hb hk]
  simp [cutErr]

example : (pbFrame [49, 46, 48] [7, 8, 9]).map (fun f => (List.range 35).map fun k =>
      ((pbUnmarshal ⟨f.take k, .injected⟩).n, (pbUnmarshal ⟨f.take k, .injected⟩).err)) =
    some ((List.range 35).map fun k => (k, some PbErr.injected)) := by decide

/-- A header whose recorded header size is not 32 (any 32 bytes, followed by anything):
    ErrInvalidHeaderSize after consuming exactly 32 bytes. -/
theorem C07_headerSize (hdr rest : List Nat) (e : PbErr) (hl : hdr.length = 32)
    (hs : wrap64 (unle ((hdr.drop 16).take 8)) ≠ 32) :
    pbUnmarshal ⟨hdr ++ rest, e⟩ = ⟨32, verStr (hdr.take 16), none, some .invalidHeaderSize, ⟨rest, e⟩⟩ := by
  have hh := pbReadHeader_hdr hdr rest e hl
  rw [hdrInfo_of_length hdr hl] at hh
  have hs' : hsField hdr ≠ 32 := hs
  generalize hsField hdr = x at hh hs'
  generalize bsField hdr = y at hh
  rw [pbUnmarshal_of_header _ _ _ _ hh, if_pos hs']

example : pbUnmarshal ⟨List.replicate 16 65 ++ le64 33 ++ le64 0 ++ [1, 2], .eof⟩ =
    ⟨32, List.replicate 16 65, none, some .invalidHeaderSize, ⟨[1, 2], .eof⟩⟩ := by decide
example : wrap64 (unle (((List.replicate 16 65 ++ le64 33 ++ le64 0).drop 16).take 8)) ≠ 32 := by decide

/-- (not named in the property text, but part of its quantifier: body-size fields ≥ 2^63)
    A header with header size 32 whose body-size field is negative as an int64:
    ErrInvalidBodySize after consuming exactly 32 bytes -- nothing is allocated or read. -/
theorem C07_bodySize (hdr rest : List Nat) (e : PbErr) (hl : hdr.length = 32)
    (hs : wrap64 (unle ((hdr.drop 16).take 8)) = 32) (hbs : wrap64 (unle ((hdr.drop 24).take 8)) < 0) :
    pbUnmarshal ⟨hdr ++ rest, e⟩ = ⟨32, verStr (hdr.take 16), none, some .invalidBodySize, ⟨rest, e⟩⟩ := by
  have hh := pbReadHeader_hdr hdr rest e hl
  rw [hdrInfo_of_length hdr hl] at hh
  have hs' : hsField hdr = 32 := hs
  have hbs' : bsField hdr < 0 := hbs
  generalize hsField hdr = x at hh hs'
  generalize bsField hdr = y at hh hbs'
  rw [pbUnmarshal_of_header _ _ _ _ hh, if_neg (not_not_intro hs'), if_pos hbs']

example : pbUnmarshal ⟨List.replicate 16 0 ++ le64 32 ++ le64 (2 ^ 63) ++ [1, 2], .eof⟩ =
    ⟨32, [], none, some .invalidBodySize, ⟨[1, 2], .eof⟩⟩ := by decide

/-- Unmarshal and ReadHeader return normally on arbitrary input. In the model of the repaired code they are
    total functions -- there is no panic outcome, nothing is allocated from the header. What can be stated:
    for ALL bytes and end errors the count never exceeds the bytes available, the reader is left exactly
    after the counted bytes, and there is an error exactly when no body (resp. header) is returned. -/
theorem C07_total (bytes : List Nat) (e : PbErr) :
    (pbUnmarshal ⟨bytes, e⟩).n ≤ bytes.length ∧
    ((pbUnmarshal ⟨bytes, e⟩).err = none ↔ (pbUnmarshal ⟨bytes, e⟩).body ≠ none) ∧
    (pbUnmarshal ⟨bytes, e⟩).rest = ⟨bytes.drop (pbUnmarshal ⟨bytes, e⟩).n, e⟩ := by
  by_cases h : bytes.length < 32
  · rw [pbUnmarshal_short bytes e h]; simp
  · rcases pbUnmarshal_long_cases bytes e (by omega) with ⟨_, hu⟩ | ⟨_, _, hu⟩ | ⟨_, _, _, err, hu⟩ | ⟨_, _, hlen, hu⟩
    · rw [hu]; simp; omega
    · rw [hu]; simp; omega
    · rw [hu]; simp
    · rw [hu]; simp; omega

theorem C07_total_readHeader (bytes : List Nat) (e : PbErr) :
    (pbReadHeader ⟨bytes, e⟩).1 ≤ bytes.length ∧
    ((pbReadHeader ⟨bytes, e⟩).2.2.1 = none ↔ (pbReadHeader ⟨bytes, e⟩).2.1 ≠ none) ∧
    (pbReadHeader ⟨bytes, e⟩).2.2.2 = ⟨bytes.drop (pbReadHeader ⟨bytes, e⟩).1, e⟩ := by
  by_cases h : bytes.length < 32
  · rw [pbReadHeader_short bytes e h]; simp
  · rw [pbReadHeader_long bytes e (by omega)]; simp; omega

/-- corrupted size fields of every magnitude, 2^63 and 2^64-1 included: an error, never more than the input consumed -/
example : ([0, 2, 3, 33, 2 ^ 31, 2 ^ 63 - 1, 2 ^ 63, 2 ^ 64 - 1].map fun s =>
      (pbUnmarshal ⟨List.replicate 16 0 ++ le64 32 ++ le64 s ++ [1, 2], .eof⟩).err) =
    [none, none, some .unexpectedEOF, some .unexpectedEOF, some .unexpectedEOF, some .unexpectedEOF,
      some .invalidBodySize, some .invalidBodySize] := by decide

/-- Unmarshal succeeds only if a complete frame was present: 32 header bytes whose header-size field is 32
    and whose body-size field is the length of the body returned, followed by exactly those body bytes;
    the count is the length of that frame. -/
theorem C07_success_complete (bytes b : List Nat) (e : PbErr)
    (h : (pbUnmarshal ⟨bytes, e⟩).body = some b) :
    32 + b.length ≤ bytes.length ∧
    wrap64 (unle ((bytes.drop 16).take 8)) = 32 ∧
    wrap64 (unle ((bytes.drop 24).take 8)) = (b.length : Int) ∧
    (bytes.drop 32).take b.length = b ∧
    (pbUnmarshal ⟨bytes, e⟩).n = 32 + b.length ∧
    (pbUnmarshal ⟨bytes, e⟩).err = none ∧
    (pbUnmarshal ⟨bytes, e⟩).rest = ⟨bytes.drop (32 + b.length), e⟩ := by
  by_cases hlt : bytes.length < 32
  · rw [pbUnmarshal_short bytes e hlt] at h; simp at h
  · rcases pbUnmarshal_long_cases bytes e (by omega) with ⟨_, hu⟩ | ⟨_, _, hu⟩ | ⟨_, _, _, err, hu⟩ | ⟨h1, h2, hlen, hu⟩
    · rw [hu] at h; simp at h
    · rw [hu] at h; simp at h
    · rw [hu] at h; simp at h
    · rw [hu] at h ⊢
      simp only [Option.some.injEq] at h
      have hbl : b.length = (bsField bytes).toNat := by
        rw [← h]; simp only [List.length_take, List.length_drop]; omega
      have hbs : bsField bytes = (b.length : Int) := by omega
      refine ⟨by omega, h1, hbs, ?_, ?_, rfl, ?_⟩
      · rw [hbl]; exact h
      · simp only [hbl]
      · simp only [hbl]

example : (pbUnmarshal ⟨List.replicate 16 0 ++ le64 32 ++ le64 2 ++ [1, 2, 3], .eof⟩).body = some [1, 2] := by decide

/-- The destination writer fails after accepting k bytes (it has room for `cap` < |frame| bytes):
    Marshal reports the failure and the count k, having emitted exactly the first k bytes of the frame.
    Partial-accept writer: k = cap.  All-or-nothing writer: k = 0 when the header does not fit, else 32. -/
theorem C07_writer (ver body frame : List Nat) (cap : Nat)
    (hf : pbFrame ver body = some frame) (hc : cap < frame.length) :
    pbMarshal false cap ver body = some (cap, true, frame.take cap) ∧
    pbMarshal true cap ver body =
      some (if cap < 32 then 0 else 32, true, frame.take (if cap < 32 then 0 else 32)) := by
  obtain ⟨hv, rfl⟩ := pbFrame_some hf
  rw [frame_length ver body hv] at hc
  have hh := pbHeader_eq ver body.length hv
  have hl := pbHeader_length hh
  generalize pad16 ver ++ le64 32 ++ le64 body.length = hdr at hh hl
  by_cases h32 : cap < 32
  · rw [pbMarshal_hdrfail hh h32, pbMarshal_hdrfail hh h32]
    simp only [h32, if_true, Bool.false_eq_true, if_false, List.take_zero, and_true]
    rw [List.take_append_of_le_length (by omega)]
  · rw [pbMarshal_bodyfail hh (by omega) hc, pbMarshal_bodyfail hh (by omega) hc]
    simp only [h32, if_true, Bool.false_eq_true, if_false, List.take_zero, List.append_nil, Nat.add_zero]
    have e1 : 32 + (cap - 32) = cap := by omega
    have t1 : (hdr ++ body).take cap = hdr ++ body.take (cap - 32) := by
      rw [List.take_append, hl, List.take_of_length_le (by omega)]
    have t2 : (hdr ++ body).take 32 = hdr := List.take_left' hl
    rw [t1, t2, e1]
    exact ⟨rfl, rfl⟩

example : ∀ cap < 35, pbMarshal false cap [49] [7, 8, 9] =
    (pbFrame [49] [7, 8, 9]).map fun f => (cap, true, f.take cap) := by decide
example : pbMarshal true 34 [49] [7, 8, 9] =
    some (32, true, [49, 0, 0, 0, 0, 0, 0, 0, 0, 0, 0, 0, 0, 0, 0, 0, 32, 0, 0, 0, 0, 0, 0, 0, 3, 0, 0, 0, 0, 0, 0, 0]) := by decide
example : pbMarshal true 31 [49] [7, 8, 9] = some (0, true, []) := by decide

/-- ANY destination writer, scripted call by call (`a1` answers the header write, `a2` the body write; an
    answer may be short, may fail, and may even fail after taking the whole buffer -- all legal for io.Writer):
    the count Marshal returns is exactly the number of bytes the writer took, those bytes are exactly the first
    k bytes of the frame, the writer's failure is reported, and the body is not written after a failed header
    write. -/
theorem C07_writer_any (ver body frame : List Nat) (a1 a2 : WAns) (hf : pbFrame ver body = some frame) :
    pbMarshalScript a1 a2 ver body =
      if (a1.fail || decide (min a1.accept 32 < 32)) = true
      then some (min a1.accept 32, true, frame.take (min a1.accept 32))
      else some (32 + min a2.accept body.length, a2.fail || decide (min a2.accept body.length < body.length),
                 frame.take (32 + min a2.accept body.length)) := by
  obtain ⟨hv, rfl⟩ := pbFrame_some hf
  have hh := pbHeader_eq ver body.length hv
  have hl := pbHeader_length hh
  generalize pad16 ver ++ le64 32 ++ le64 body.length = hdr at hh hl
  simp only [pbMarshalScript, hh, hl]
  split
  · rw [List.take_append_of_le_length (by omega)]
  · have t : (hdr ++ body).take (32 + min a2.accept body.length) = hdr ++ body.take (min a2.accept body.length) := by
      rw [List.take_append, hl, List.take_of_length_le (by omega)]
      congr 2; omega
    rename_i hnf
    have h32 : min a1.accept 32 = 32 := by
      simp only [Bool.or_eq_true, decide_eq_true_eq, not_or, Nat.not_lt] at hnf
      omega
    rw [t, h32]

/-- the case the io.Writer contract allows and a capacity-style test writer never produces: the header write
    is taken in full AND reports an error -- Marshal stops there with count 32 -/
example : pbMarshalScript ⟨32, true⟩ ⟨3, false⟩ [49] [7, 8, 9] =
    (pbFrame [49] [7, 8, 9]).map fun f => (32, true, f.take 32) := by decide
example : pbMarshalScript ⟨32, false⟩ ⟨3, true⟩ [49] [7, 8, 9] =
    (pbFrame [49] [7, 8, 9]).map fun f => (35, true, f) := by decide

end Low
