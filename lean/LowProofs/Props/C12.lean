import LowProofs.Lemmas.C12Build
/-
  C12 -- Bitmap construction and inspection agree on which bits are set.
  Only the property vocabulary (`shiftedConcat`, `extendAll`, `segOff`), the property theorems and their
  non-vacuity examples live here; helpers are in Lemmas/C12Bits.lean, C12.lean, C12Build.lean (namespace Low.C12L).

  A bitmap `ws` denotes the set `{i | bitAt ws i = true}`; `ones ws` is the specification of its ascending
  enumeration.  Positions are `Int` (Go `int32`), `none` = Go panic, so `= some _` also proves panic-freedom.
  (The model uses unbounded integers; it represents the int32 code for `BmDom`, see DESIGN 3.1. No theorem
  below needs `BmDom` as a hypothesis: the model has no overflow to exclude.)
  "ascending" is `List.Pairwise (· ≤ ·)` (duplicates allowed) unless a theorem says strictly ascending.
-/
namespace Low
open Low.C12L

/-! ### Get / Get1 / SafeGet / SafeGet1 -/

/-- Get returns the bit in place, Get1 the bit as 0/1, for every position inside the bitmap (no panic). -/
theorem C12_get (ws : List Nat) (i : Nat) (hi : i < 64 * ws.length) :
    get ws i = some ((bitAt ws i).toNat <<< (i % 64)) ∧ get1 ws i = some (bitAt ws i).toNat :=
  get_spec hi

/-- outside the bitmap Get and Get1 panic (index out of range) -- which is what the Safe variants avoid. -/
theorem C12_get_oob (ws : List Nat) (i : Nat) (hi : 64 * ws.length ≤ i) : get ws i = none ∧ get1 ws i = none :=
  get_oob hi

/-- SafeGet / SafeGet1 are total: the same answers as Get / Get1 inside, 0 for negative positions and
    positions at or beyond the end. -/
theorem C12_safeGet (ws : List Nat) (i : Int) :
    safeGet ws i = (if 0 ≤ i ∧ i < 64 * (ws.length : Int) then (bitAt ws i.toNat).toNat <<< (i.toNat % 64) else 0) ∧
    safeGet1 ws i = (if 0 ≤ i ∧ i < 64 * (ws.length : Int) then (bitAt ws i.toNat).toNat else 0) :=
  safeGet_spec ws i

/-- inside the bitmap the Safe variants agree with the panicking ones. -/
theorem C12_safeGet_eq_get (ws : List Nat) (i : Nat) (hi : i < 64 * ws.length) :
    get ws i = some (safeGet ws i) ∧ get1 ws i = some (safeGet1 ws i) := by
  have h : (0 : Int) ≤ (i : Int) ∧ (i : Int) < 64 * (ws.length : Int) := by omega
  rw [(C12_safeGet ws i).1, (C12_safeGet ws i).2, if_pos h, if_pos h]
  exact C12_get ws i hi

/-! ### Of -/

/-- Of(ps, n?) for ascending non-negative `ps` and any optional `n` (negative, smaller or larger than last+1):
    does not panic, returns ceil(max(n, last+1, 0)/64) words, all uint64, in which exactly the listed bits are 1. -/
theorem C12_of (ps : List Int) (nOpt : Option Int) (hs : ps.Pairwise (· ≤ ·)) (h0 : ∀ p ∈ ps, 0 ≤ p) :
    ∃ ws, bmOf ps nOpt = some ws ∧
      ws.length = ((max (max (nOpt.getD 0) (match ps.getLast? with | none => 0 | some l => l + 1)) 0 + 63) / 64).toNat ∧
      WordsOK ws ∧ ∀ i : Nat, (bitAt ws i = true ↔ (i : Int) ∈ ps) := by
  obtain ⟨ws, h1, h2, h3, h4⟩ := bmOf_spec ps nOpt hs h0
  exact ⟨ws, h1, h2, h3, h4⟩

/-! ### ToArray and the round trips -/

/-- ToArray returns exactly the set bits in ascending order: it is `ones`, whose members are the positions
    inside the bitmap with a 1-bit, strictly ascending. -/
theorem C12_toArray (ws : List Nat) :
    toArray ws = ones ws ∧ (∀ i, i ∈ ones ws ↔ (i < 64 * ws.length ∧ bitAt ws i = true)) ∧
    (ones ws).Pairwise (· < ·) :=
  ⟨toArray_eq_ones ws, mem_ones ws, ones_sorted ws⟩

/-- ToArray(Of(l, n?)) = l for strictly ascending non-negative `l` (any optional size). -/
theorem C12_rt1 (ps : List Int) (nOpt : Option Int) (hs : ps.Pairwise (· < ·)) (h0 : ∀ p ∈ ps, 0 ≤ p) :
    ∃ ws, bmOf ps nOpt = some ws ∧ toArray ws = ps.map Int.toNat ∧ (toArray ws).map Int.ofNat = ps := by
  obtain ⟨ws, h1, _, _, h4⟩ := bmOf_spec ps nOpt (hs.imp (fun h => by omega)) h0
  have := toArray_of hs h0 h4
  exact ⟨ws, h1, this, by rw [this]; exact map_ofNat_toNat h0⟩

/-- Of(ToArray(b)) = b up to trailing zero words: it does not panic, denotes the same set, is not longer,
    does not end in a zero word, and (for uint64 words) `b` is it followed by zero words only. -/
theorem C12_rt2 (ws : List Nat) :
    ∃ ws', bmOf ((toArray ws).map Int.ofNat) none = some ws' ∧ (∀ i, bitAt ws' i = bitAt ws i) ∧
      ws'.length ≤ ws.length ∧ ws'.getLast? ≠ some 0 ∧
      (WordsOK ws → ws = ws' ++ zeros (ws.length - ws'.length)) := by
  rw [toArray_eq_ones]
  obtain ⟨ws', h1, h2, h3, h4⟩ := bmOf_spec _ none (ones_ofNat_sorted ws) (ones_ofNat_nonneg ws)
  have hbits : ∀ i, bitAt ws' i = bitAt ws i := by
    intro i
    have := (h4 i).trans (mem_ones_ofNat ws i)
    cases ha : bitAt ws' i <;> cases hb : bitAt ws i <;> simp_all
  have hlen : ws'.length ≤ ws.length := by
    rw [h2]
    unfold ofLen lastEnd
    cases hl : ((ones ws).map Int.ofNat).getLast? with
    | none => simp
    | some l =>
      obtain ⟨x, hx, e⟩ := List.mem_map.mp (List.mem_of_getLast? hl)
      have := ((mem_ones ws x).mp hx).1
      subst e
      simp only [Int.ofNat_eq_natCast, Option.getD_none]
      omega
  refine ⟨ws', h1, hbits, hlen, getLast_ne_zero h2 (ones_ofNat_nonneg ws) h4, ?_⟩
  intro hok
  apply words_ext hok (wordsOK_append_zeros h3 _)
  · simp only [zeros, List.length_append, List.length_replicate]; omega
  · intro i; rw [bitAt_append_zeros, hbits]

/-! ### OfMany -/

/-- SPEC: the positions of all sub-lists, each rebased by the running sum of the preceding sizes -/
def shiftedConcat : List (List Int) → List Int → Int → List Int
  | [], _, _ => []
  | _ :: _, [], _ => []
  | e :: subs, s :: sizes, base => e.map (base + ·) ++ shiftedConcat subs sizes (base + s)

theorem ofManyFlat_eq : ∀ (subs : List (List Int)) (sizes : List Int) (base : Int), subs.length ≤ sizes.length →
    ofManyFlat subs sizes base = some (shiftedConcat subs sizes base, base + (sizes.take subs.length).sum)
  | [], _, base, _ => by simp [ofManyFlat, shiftedConcat]
  | _ :: _, [], _, h => by simp at h
  | e :: subs, s :: sizes, base, h => by
    have ih := ofManyFlat_eq subs sizes (base + s) (by simpa using h)
    simp only [ofManyFlat, ih, shiftedConcat, List.length_cons, List.take_succ_cons, List.sum_cons]
    congr 2; omega

/-- OfMany(subs, sizes), when there is a size for every sub-list, is `Of` of the shifted concatenation with
    n = the sum of those sizes (extra sizes are ignored). -/
theorem C12_ofMany (subs : List (List Int)) (sizes : List Int) (h : subs.length ≤ sizes.length) :
    ofMany subs sizes = bmOf (shiftedConcat subs sizes 0) (some (sizes.take subs.length).sum) := by
  simp only [ofMany, ofManyFlat_eq subs sizes 0 h, Int.zero_add]

/-- hence, when the shifted concatenation is ascending and non-negative, OfMany does not panic and its result
    has exactly those bits, in ceil(max(Σ sizes, last+1, 0)/64) uint64 words. -/
theorem C12_ofMany_bits (subs : List (List Int)) (sizes : List Int) (h : subs.length ≤ sizes.length)
    (hs : (shiftedConcat subs sizes 0).Pairwise (· ≤ ·)) (h0 : ∀ p ∈ shiftedConcat subs sizes 0, 0 ≤ p) :
    ∃ ws, ofMany subs sizes = some ws ∧
      ws.length = ((max (max ((sizes.take subs.length).sum)
        (match (shiftedConcat subs sizes 0).getLast? with | none => 0 | some l => l + 1)) 0 + 63) / 64).toNat ∧
      WordsOK ws ∧ ∀ i : Nat, (bitAt ws i = true ↔ (i : Int) ∈ shiftedConcat subs sizes 0) := by
  rw [C12_ofMany subs sizes h]
  exact C12_of _ _ hs h0

/-- with fewer sizes than sub-lists OfMany panics (`sizes[i]` out of range). -/
theorem C12_ofMany_short : ∀ (subs : List (List Int)) (sizes : List Int), sizes.length < subs.length →
    ofMany subs sizes = none := by
  have key : ∀ (subs : List (List Int)) (sizes : List Int) (base : Int), sizes.length < subs.length →
      ofManyFlat subs sizes base = none := by
    intro subs
    induction subs with
    | nil => intro sizes base h; simp at h
    | cons e subs ih =>
      intro sizes base h
      cases sizes with
      | nil => rfl
      | cons s sizes => simp only [ofManyFlat, ih sizes (base + s) (by simpa using h)]
  intro subs sizes h
  simp only [ofMany, key subs sizes 0 h]

/-! ### Builder -/

/-- a sequence of `Extend(ps, size)` calls; `none` as soon as one panics -/
def extendAll (b : Builder) : List (List Int × Int) → Option Builder
  | [] => some b
  | (ps, size) :: rest =>
    match b.extend ps size with
    | none => none
    | some b' => extendAll b' rest

/-- the running sum of the sizes of the segments before segment `k` -/
def segOff (segs : List (List Int × Int)) (k : Nat) : Int := ((segs.take k).map Prod.snd).sum

/-- Any sequence of Extend calls from any builder with Offset ≥ 0 (each segment ascending, non-negative,
    size ≥ 0; positions may exceed the size, sizes may be 0): no panic, Offset advances by the sum of the sizes,
    the bits are the old ones plus every position rebased by the old Offset and the running sum of the
    preceding sizes, words stay uint64, never shrink, and cover Offset. -/
theorem C12_builder_from : ∀ (segs : List (List Int × Int)) (b0 : Builder), 0 ≤ b0.offset →
    (∀ s ∈ segs, s.1.Pairwise (· ≤ ·) ∧ (∀ p ∈ s.1, 0 ≤ p) ∧ 0 ≤ s.2) →
    ∃ b, extendAll b0 segs = some b ∧
      b.offset = b0.offset + (segs.map Prod.snd).sum ∧
      (WordsOK b0.words → WordsOK b.words) ∧
      b0.words.length ≤ b.words.length ∧
      ((segs ≠ [] ∨ b0.offset ≤ 64 * (b0.words.length : Int)) → b.offset ≤ 64 * (b.words.length : Int)) ∧
      ∀ i : Nat, (bitAt b.words i = true ↔ (bitAt b0.words i = true ∨
        ∃ k ps size, segs[k]? = some (ps, size) ∧ ∃ p ∈ ps, (i : Int) = b0.offset + segOff segs k + p))
  | [], b0, _, _ => by
    refine ⟨b0, rfl, by simp, id, Nat.le_refl _, ?_, ?_⟩
    · rintro (h | h)
      · exact absurd rfl h
      · exact h
    · intro i; simp
  | (ps, size) :: rest, b0, hb, hseg => by
    obtain ⟨hs, h0, hsz⟩ := hseg (ps, size) List.mem_cons_self
    obtain ⟨b1, e1, o1, l1, ok1, bits1⟩ := extend_spec b0 ps size hb hsz hs h0
    obtain ⟨b, e2, o2, ok2, l2, c2, bits2⟩ := C12_builder_from rest b1 (by omega)
      (fun s hs' => hseg s (List.mem_cons_of_mem _ hs'))
    refine ⟨b, by simp only [extendAll, e1, e2], ?_, fun h => ok2 (ok1 h), by omega, ?_, ?_⟩
    · simp only [o2, o1, List.map_cons, List.sum_cons]; omega
    · intro _
      apply c2
      right
      rw [o1, l1]
      have : max size (lastEnd ps) ≥ size := by omega
      omega
    · intro i
      rw [bits2, bits1, o1]
      constructor
      · rintro ((h | ⟨p, hp, e⟩) | ⟨k, ps', size', hk, p, hp, e⟩)
        · exact Or.inl h
        · exact Or.inr ⟨0, ps, size, rfl, p, hp, by simp only [segOff, List.take_zero, List.map_nil, List.sum_nil]; omega⟩
        · refine Or.inr ⟨k + 1, ps', size', by simpa using hk, p, hp, ?_⟩
          simp only [segOff, List.take_succ_cons, List.map_cons, List.sum_cons] at e ⊢
          omega
      · rintro (h | ⟨k, ps', size', hk, p, hp, e⟩)
        · exact Or.inl (Or.inl h)
        · cases k with
          | zero =>
            simp only [List.getElem?_cons_zero, Option.some.injEq, Prod.mk.injEq] at hk
            obtain ⟨rfl, rfl⟩ := hk
            refine Or.inl (Or.inr ⟨p, hp, ?_⟩)
            simp only [segOff, List.take_zero, List.map_nil, List.sum_nil] at e
            omega
          | succ k =>
            refine Or.inr ⟨k, ps', size', by simpa using hk, p, hp, ?_⟩
            simp only [segOff, List.take_succ_cons, List.map_cons, List.sum_cons] at e ⊢
            omega

/-- Builder from `NewBuilder(n)` (empty words, Offset 0; the preallocated capacity is not observable):
    after any sequence of Extend calls, Offset = Σ size_k, the bits are exactly
    { off_k + p | p ∈ ps_k } with off_k = Σ_{j<k} size_j, the words are uint64 and there are enough of them
    for Offset (and, by `bitAt_oob`, for every bit). -/
theorem C12_builder (segs : List (List Int × Int))
    (hseg : ∀ s ∈ segs, s.1.Pairwise (· ≤ ·) ∧ (∀ p ∈ s.1, 0 ≤ p) ∧ 0 ≤ s.2) :
    ∃ b, extendAll ⟨[], 0⟩ segs = some b ∧
      b.offset = (segs.map Prod.snd).sum ∧ WordsOK b.words ∧ b.offset ≤ 64 * (b.words.length : Int) ∧
      ∀ i : Nat, (bitAt b.words i = true ↔
        ∃ k ps size, segs[k]? = some (ps, size) ∧ ∃ p ∈ ps, (i : Int) = segOff segs k + p) := by
  obtain ⟨b, h1, h2, h3, _, h5, h6⟩ := C12_builder_from segs ⟨[], 0⟩ (Int.le_refl _) hseg
  refine ⟨b, h1, by simpa using h2, h3 (by intro x hx; cases hx), h5 (Or.inr (by simp)), ?_⟩
  intro i
  rw [h6 i]
  simp only [bitAt_nil, Bool.false_eq_true, false_or, Int.zero_add]

/-- every set bit lies inside the words ("enough words for every bit"), for any bitmap. -/
theorem C12_bit_inside (ws : List Nat) (i : Nat) (h : bitAt ws i = true) : i < 64 * ws.length := by
  rcases Nat.lt_or_ge i (64 * ws.length) with h' | h'
  · exact h'
  · rw [bitAt_oob h'] at h; cases h

/-- the builder's result is the bitmap Of would build from the shifted positions: same bits as
    `Of(positions, Σ sizes)` whenever that call is defined (i.e. the shifted concatenation is ascending). -/
theorem C12_builder_eq_of (segs : List (List Int × Int))
    (hseg : ∀ s ∈ segs, s.1.Pairwise (· ≤ ·) ∧ (∀ p ∈ s.1, 0 ≤ p) ∧ 0 ≤ s.2)
    (hs : (shiftedConcat (segs.map Prod.fst) (segs.map Prod.snd) 0).Pairwise (· ≤ ·)) :
    ∃ b ws, extendAll ⟨[], 0⟩ segs = some b ∧
      bmOf (shiftedConcat (segs.map Prod.fst) (segs.map Prod.snd) 0) (some (segs.map Prod.snd).sum) = some ws ∧
      ∀ i, bitAt b.words i = bitAt ws i := by
  -- membership in the shifted concatenation, generalised over the base
  have key : ∀ (segs : List (List Int × Int)) (base x : Int),
      x ∈ shiftedConcat (segs.map Prod.fst) (segs.map Prod.snd) base ↔
        ∃ k ps size, segs[k]? = some (ps, size) ∧ ∃ p ∈ ps, x = base + segOff segs k + p := by
    intro segs
    induction segs with
    | nil => intro base x; simp [shiftedConcat]
    | cons s rest ih =>
      intro base x
      obtain ⟨ps, size⟩ := s
      simp only [List.map_cons, shiftedConcat, List.mem_append, List.mem_map, ih]
      constructor
      · rintro (⟨p, hp, e⟩ | ⟨k, ps', size', hk, p, hp, e⟩)
        · exact ⟨0, ps, size, rfl, p, hp, by simp only [segOff, List.take_zero, List.map_nil, List.sum_nil]; omega⟩
        · refine ⟨k + 1, ps', size', by simpa using hk, p, hp, ?_⟩
          simp only [segOff, List.take_succ_cons, List.map_cons, List.sum_cons] at e ⊢
          omega
      · rintro ⟨k, ps', size', hk, p, hp, e⟩
        cases k with
        | zero =>
          simp only [List.getElem?_cons_zero, Option.some.injEq, Prod.mk.injEq] at hk
          obtain ⟨rfl, rfl⟩ := hk
          refine Or.inl ⟨p, hp, ?_⟩
          simp only [segOff, List.take_zero, List.map_nil, List.sum_nil] at e
          omega
        | succ k =>
          refine Or.inr ⟨k, ps', size', by simpa using hk, p, hp, ?_⟩
          simp only [segOff, List.take_succ_cons, List.map_cons, List.sum_cons] at e ⊢
          omega
  obtain ⟨b, h1, h2, _, _, h6⟩ := C12_builder segs hseg
  have hnn : ∀ p ∈ shiftedConcat (segs.map Prod.fst) (segs.map Prod.snd) 0, 0 ≤ p := by
    intro x hx
    obtain ⟨k, ps, size, hk, p, hp, e⟩ := (key segs 0 x).mp hx
    have hp0 := (hseg _ (List.mem_of_getElem? hk)).2.1 p hp
    have hoff : 0 ≤ segOff segs k := by
      apply sum_nonneg
      intro y hy
      obtain ⟨s, hs', e'⟩ := List.mem_map.mp hy
      subst e'
      exact (hseg s (List.mem_of_mem_take hs')).2.2
    omega
  obtain ⟨ws, w1, _, _, w4⟩ := bmOf_spec _ (some (segs.map Prod.snd).sum) hs hnn
  refine ⟨b, ws, h1, w1, ?_⟩
  intro i
  have : bitAt b.words i = true ↔ bitAt ws i = true := by
    rw [h6, w4, key segs 0]
    simp only [Int.zero_add]
  cases ha : bitAt b.words i <;> cases hb : bitAt ws i <;> simp_all

/-- Builder.Set(pos, value) for pos ≥ 0 (any builder, any value): no panic, ORs the single bit `pos` in iff
    `value` is odd (`value & 1`), leaves all other bits, moves Offset to max(Offset, pos+1), keeps uint64 words. -/
theorem C12_builder_set (b : Builder) (pos value : Int) (hp : 0 ≤ pos) :
    ∃ b', b.set pos value = some b' ∧ b'.offset = max b.offset (pos + 1) ∧
      b'.words.length = max b.words.length (pos.toNat / 64 + 1) ∧
      (WordsOK b.words → WordsOK b'.words) ∧
      ∀ i : Nat, (bitAt b'.words i = true ↔ (bitAt b.words i = true ∨ ((i : Int) = pos ∧ value % 2 = 1))) :=
  builder_set_spec b pos value hp

/-- a negative position makes Builder.Set panic. -/
theorem C12_builder_set_neg (b : Builder) (pos value : Int) (hp : pos < 0) : b.set pos value = none := by
  simp [Builder.set, hp]

/-! ### non-vacuity -/

example : bmOf [0, 63, 64, 65, 200] (some (-5)) = some [2 ^ 63 + 1, 3, 0, 2 ^ 8] := by decide +kernel
example : [0, 63, 64, 65, 200].Pairwise (· ≤ ·) ∧ ∀ p ∈ ([0, 63, 64, 65, 200] : List Int), 0 ≤ p := by decide
example : bmOf [] (some 65) = some [0, 0] := by decide +kernel
example : toArray [2 ^ 63 + 1, 3, 0, 2 ^ 8] = [0, 63, 64, 65, 200] := by decide +kernel
example : bmOf ((toArray [5, 0, 2, 0, 0]).map Int.ofNat) none = some [5, 0, 2] := by decide +kernel
example : get [5, 2 ^ 63] 127 = some (2 ^ 63) ∧ get1 [5, 2 ^ 63] 127 = some 1 ∧ get1 [5, 2 ^ 63] 1 = some 0 := by
  decide +kernel
example : safeGet [5, 2 ^ 63] 127 = 2 ^ 63 ∧ safeGet [5] (-1) = 0 ∧ safeGet1 [5] 64 = 0 ∧ safeGet1 [5] 2 = 1 := by
  decide +kernel
example : ofMany [[1, 70], [], [0]] [64, 0, 3, 9] = bmOf [1, 70, 64] (some 67) := by decide +kernel
example : shiftedConcat [[1, 70], [], [0]] [64, 0, 3, 9] 0 = [1, 70, 64] := by decide +kernel
example : ofMany [[1], [2]] [64] = none := by decide +kernel
example : extendAll ⟨[], 0⟩ [([1, 70], 64), ([], 0), ([0], 3)] = some ⟨[2, 2 ^ 6 + 1], 67⟩ := by decide +kernel
example : segOff [([1, 70], 64), ([], 0), ([0], 3)] 2 = 64 := by decide +kernel
example : (⟨[2], 5⟩ : Builder).set 70 3 = some ⟨[2, 2 ^ 6], 71⟩ ∧ (⟨[2], 5⟩ : Builder).set 3 (-2) = some ⟨[2], 5⟩ ∧
    (⟨[2], 5⟩ : Builder).set 3 (-1) = some ⟨[10], 5⟩ := by decide +kernel

-- the theorems instantiated on those values (their hypotheses are satisfiable and decidable)
example := C12_of [0, 63, 64, 65, 200] (some (-5)) (by decide) (by decide)
example := C12_rt1 [0, 63, 64, 65, 200] (some 1000) (by decide) (by decide)
example := C12_rt2 [5, 0, 2, 0, 0]
example := C12_ofMany [[1, 70], [], [0]] [64, 0, 3, 9] (by decide)
example := C12_ofMany_bits [[1, 5], [], [0]] [64, 0, 3, 9] (by decide) (by decide +kernel) (by decide +kernel)
example := C12_builder [([1, 70], 64), ([], 0), ([0], 3)] (by decide)
example := C12_builder_eq_of [([1, 5], 64), ([], 0), ([0], 3)] (by decide) (by decide +kernel)
example := C12_builder_set ⟨[2], 5⟩ 70 3 (by decide)

end Low
