import LowProofs.Lemmas.C08
/-
  C08 -- bitword: n-bit word split/join round-trips and indexes consistently (bitword/bitword.go).
  Byte strings are `List Nat` with `BytesOK` (every element < 256); the width is `n ∈ [1,2,4,8]`
  (the four instances in the Go map `BitWord`).  Specification: `bwWordAt n s i` = value of the bits
  `[i*n, i*n+n)` of `bitsBE s` (most significant bit of each byte first), `LowModel/Bitword.lean`.
  Only the property theorems and their non-vacuity examples live here.
-/
namespace Low
open C08L

/-- FromStr(s) has 8*len(s)/n words; word i is the n bits of s starting at bit i*n (MSB first)
    and equals Get(s,i) (which does not panic for these i). -/
theorem C08_fromStr (n : Nat) (hn : n ∈ [1,2,4,8]) (s : List Nat) (hs : BytesOK s) :
    (bwFromStr n s).length = 8 * s.length / n ∧
    ∀ i, i < 8 * s.length / n →
      (bwFromStr n s)[i]? = some (bwWordAt n s i) ∧ bwGet n s i = some (bwWordAt n s i) := by
  rw [words_eq hn, fromStr_eq_map hn s hs]
  refine ⟨by simp, ?_⟩
  intro i hi
  refine ⟨?_, get_eq hn s hs i hi⟩
  rw [List.getElem?_map, List.getElem?_range hi]; rfl

example : bwFromStr 2 [0xb4, 0x1e] = [2, 3, 1, 0, 0, 1, 3, 2] ∧ bwGet 2 [0xb4, 0x1e] 6 = some 3
    ∧ bwWordAt 2 [0xb4, 0x1e] 6 = 3 := by decide

/-- ToStr(FromStr(s)) = s. -/
theorem C08_roundtrip (n : Nat) (hn : n ∈ [1,2,4,8]) (s : List Nat) (hs : BytesOK s) :
    bwToStr n (bwFromStr n s) = s := by
  apply bitsBE_inj _ _ (toStr_ok hn _) hs
  rw [toStr_bits hn _ (fromStr_lt hn s), fromStr_bits hn s hs]
  have hl : (bwFromStr n s).length = s.length * (8 / n) := by
    rw [fromStr_eq_map hn s hs]; simp
  have h0 : ((bwFromStr n s).length + 8 / n - 1) / (8 / n) * (8 / n) - (bwFromStr n s).length = 0 := by
    rw [hl]
    simp only [List.mem_cons, List.mem_nil_iff, or_false] at hn
    rcases hn with rfl | rfl | rfl | rfl <;> omega
  rw [h0]; simp

example : bwToStr 4 (bwFromStr 4 [0xff, 0x80, 0x01]) = [0xff, 0x80, 0x01] := by decide

/-- ToStr of any slice of in-range words packs them MSB-first (each word contributes its `n` bits, most
    significant first) and pads the last byte with zero bits up to the byte boundary; the result is a
    byte string. (Its length is `(len(ws) + 8/n - 1) / (8/n)` by definition of the model, hence the
    `8*ceil(len(ws)*n/8)` bits on the right.) -/
theorem C08_toStr (n : Nat) (hn : n ∈ [1,2,4,8]) (ws : List Nat) (hws : ∀ w ∈ ws, w < 2 ^ n) :
    bitsBE (bwToStr n ws) =
      ws.flatMap (fun w => (List.range n).map fun j => w.testBit (n - 1 - j)) ++
        List.replicate (8 * ((ws.length * n + 7) / 8) - ws.length * n) false ∧
    BytesOK (bwToStr n ws) := by
  refine ⟨?_, toStr_ok hn ws⟩
  rw [toStr_bits hn ws hws]
  have : ((ws.length + 8 / n - 1) / (8 / n) * (8 / n) - ws.length) * n =
      8 * ((ws.length * n + 7) / 8) - ws.length * n := by
    simp only [List.mem_cons, List.mem_nil_iff, or_false] at hn
    rcases hn with rfl | rfl | rfl | rfl <;> omega
  rw [this]; rfl

example : bwToStr 2 [3, 0, 1, 2, 1] = [0xc6, 0x40] := by decide

/-- FirstDiff(a,b,from,end), for `0 ≤ from` and ANY `end` (also `end = -1`, `end` beyond either string,
    `end ≤ from`, negative `end`): with `lim = min(end', words(a), words(b))`, `end' = words(a)` if
    `end = -1` and `end` otherwise, the call does not panic and returns `r` such that
    * either `r = lim`, or `from ≤ r < lim` and word `r` of `a` and `b` differ, and
    * the words of `a` and `b` agree at every index in `[from, r)`;
    that is, `r` is the smallest index in `[from, lim)` at which they differ, or `lim` if there is none. -/
theorem C08_firstDiff (n : Nat) (hn : n ∈ [1,2,4,8]) (a b : List Nat) (ha : BytesOK a) (hb : BytesOK b)
    (frm e : Int) (hfrm : 0 ≤ frm) :
    let wa : Int := ((8 * a.length / n : Nat) : Int)
    let wb : Int := ((8 * b.length / n : Nat) : Int)
    let lim : Int := min (min (if e = -1 then wa else e) wa) wb
    ∃ r, bwFirstDiff n a b frm e = some r ∧
      (r = lim ∨ (frm ≤ r ∧ r < lim ∧ bwWordAt n a r.toNat ≠ bwWordAt n b r.toNat)) ∧
      ∀ j, frm ≤ j → j < r → bwWordAt n a j.toNat = bwWordAt n b j.toNat := by
  intro wa wb lim
  have hwa : wa = ((a.length * (8 / n) : Nat) : Int) := by simp only [wa, words_eq hn]
  have hwb : wb = ((b.length * (8 / n) : Nat) : Int) := by simp only [wb, words_eq hn]
  have hlim : bwFirstDiff n a b frm e = bwFirstDiffLoop n a b lim (lim - frm).toNat frm := by
    have e1 : (if (if e = -1 then wa else e) > wa then wa else (if e = -1 then wa else e)) =
        min (if e = -1 then wa else e) wa := by
      simp only [Int.min_def]; split <;> split <;> omega
    have e2 : (if min (if e = -1 then wa else e) wa > wb then wb else min (if e = -1 then wa else e) wa) =
        lim := by
      simp only [lim, Int.min_def]; split <;> split <;> omega
    simp only [bwFirstDiff]
    rw [show ((a.length : Int) * ((8 / n : Nat) : Int)) = wa by rw [hwa]; simp,
      show ((b.length : Int) * ((8 / n : Nat) : Int)) = wb by rw [hwb]; simp, e1, e2]
  rw [hlim]
  exact firstDiffLoop_spec hn a b ha hb lim (by rw [← hwa]; simp only [lim, Int.min_def]; split <;> split <;> omega)
    (by rw [← hwb]; simp only [lim, Int.min_def]; split <;> split <;> omega) _ frm hfrm rfl

/-- In particular an empty window (`from ≥ lim`, e.g. `from ≥ end`) yields `lim` itself. -/
theorem C08_firstDiff_empty (n : Nat) (hn : n ∈ [1,2,4,8]) (a b : List Nat) (ha : BytesOK a) (hb : BytesOK b)
    (frm e : Int) (hfrm : 0 ≤ frm) :
    let wa : Int := ((8 * a.length / n : Nat) : Int)
    let wb : Int := ((8 * b.length / n : Nat) : Int)
    let lim : Int := min (min (if e = -1 then wa else e) wa) wb
    lim ≤ frm → bwFirstDiff n a b frm e = some lim := by
  intro wa wb lim h
  obtain ⟨r, hr, h1, -⟩ := C08_firstDiff n hn a b ha hb frm e hfrm
  rcases h1 with h1 | ⟨h1, h2, -⟩
  · rw [hr, h1]
  · exfalso
    have : r < lim := h2
    omega

example : bwFirstDiff 4 [0x12, 0x34, 0x56] [0x12, 0x35, 0x56, 0x78] 1 (-1) = some 3
    ∧ bwFirstDiff 4 [0x12, 0x34, 0x56] [0x12, 0x35, 0x56, 0x78] 4 (-1) = some 6
    ∧ bwFirstDiff 4 [0x12, 0x34, 0x56] [0x12, 0x35, 0x56, 0x78] 1 3 = some 3
    ∧ bwFirstDiff 4 [0x12, 0x34, 0x56] [0x12, 0x35, 0x56, 0x78] 5 2 = some 2 := by decide

/-
  C08_map: "FromStrs/ToStrs apply the conversions element-wise".  The Go loops
  `for i, s := range strs { rst[i] = w.FromStr(s) }` have no model function of their own: the driver
  (`LowModel/Driver/Strs.lean`, `hBwStrs`) evaluates them literally as `List.map (bwFromStr n)` /
  `List.map (bwToStr n)`, so the clause holds by definition of the model; that the Go functions behave like this
  map is checked by the correspondence run only.  What Lean adds is the element-wise consequence of the
  theorems above:
-/
/-- ToStrs(FromStrs(strs)) = strs, and FromStrs(strs)[k] is the word list described by `C08_fromStr`. -/
theorem C08_map (n : Nat) (hn : n ∈ [1,2,4,8]) (ss : List (List Nat)) (hss : ∀ s ∈ ss, BytesOK s) :
    (ss.map (bwFromStr n)).map (bwToStr n) = ss ∧
    ss.map (bwFromStr n) = ss.map fun s => (List.range (8 * s.length / n)).map (bwWordAt n s) := by
  constructor
  · rw [List.map_map]
    conv => rhs; rw [← List.map_id ss]
    apply List.map_congr_left
    intro s hs
    exact C08_roundtrip n hn s (hss s hs)
  · apply List.map_congr_left
    intro s hs
    rw [words_eq hn, fromStr_eq_map hn s (hss s hs)]

example : ([[0xa5], [], [0x0f, 0xf0]].map (bwFromStr 4)).map (bwToStr 4) = [[0xa5], [], [0x0f, 0xf0]] := by decide

end Low
