import LowProofs.Lemmas.C15
/-
  C15 -- TailBitmap never forgets a set bit nor invents one, across any Set/Compact history.
  Only the property vocabulary (`TbOp`, `tbRun`, `mem`, `tbEnd`), the property theorems and their
  non-vacuity examples live here; helpers are in Lemmas/C15.lean (namespace Low.C15L).

  Model: `TailBitmap` (offset : Int, words, reclaimed); `thr` is the package variable `reclaimThreshold`
  and is arbitrary in every theorem (it only influences the unobservable field `reclaimed`).
  The initial offset `o` is any multiple of 64 (any sign); indices `j`, `i` are arbitrary integers.
  `none` = Go panic (index out of range), so every `= some _` below is also panic-freedom.
-/
namespace Low
open Low.C15L

/-- the mutating operations of a history -/
inductive TbOp where
  | set (i : Int)
  | compact
deriving DecidableEq, Repr

def tbStep (thr : Int) (tb : TailBitmap) : TbOp → TailBitmap
  | .set i => tb.set thr i
  | .compact => tb.compact thr

/-- run a history, left to right -/
def tbRun (thr : Int) (tb : TailBitmap) (ops : List TbOp) : TailBitmap := ops.foldl (tbStep thr) tb

/-- SPEC: the abstract set after history `ops` from `NewTailBitmap(o)`: everything below `o`, plus every index set -/
def mem (o : Int) (ops : List TbOp) (j : Int) : Prop := j < o ∨ TbOp.set j ∈ ops

instance (o : Int) (ops : List TbOp) (j : Int) : Decidable (mem o ops j) := by unfold mem; infer_instance

/-- one past the last stored bit -/
def tbEnd (tb : TailBitmap) : Int := tb.offset + 64 * tb.words.length

/-- running a history and then a continuation is running the concatenation (so the last clause of
    `C15_offset` says: the offset after any prefix of a history is ≤ the offset after the whole history) -/
theorem tbRun_append (thr : Int) (tb : TailBitmap) (ops ops' : List TbOp) :
    tbRun thr (tbRun thr tb ops) ops' = tbRun thr tb (ops ++ ops') := by
  simp only [tbRun, List.foldl_append]

theorem mem_snoc (o : Int) (ops : List TbOp) (op : TbOp) (j : Int) :
    mem o (ops ++ [op]) j ↔ (mem o ops j ∨ op = TbOp.set j) := by
  simp only [mem, List.mem_append, List.mem_singleton]
  constructor
  · rintro (h | h | h)
    · exact Or.inl (Or.inl h)
    · exact Or.inl (Or.inr h)
    · exact Or.inr h.symm
  · rintro ((h | h) | h)
    · exact Or.inl h
    · exact Or.inr (Or.inl h)
    · exact Or.inr (Or.inr h.symm)

/-- one step keeps the invariant (w.r.t. the extended history) and never lowers the offset -/
theorem C15_inv_step (thr o : Int) (ops : List TbOp) (tb : TailBitmap) (op : TbOp) (h : Inv (mem o ops) tb) :
    Inv (mem o (ops ++ [op])) (tbStep thr tb op) ∧ tb.offset ≤ (tbStep thr tb op).offset := by
  cases op with
  | set i =>
    obtain ⟨h1, h2⟩ := set_spec thr i h
    refine ⟨h1.congr ?_, h2⟩
    intro j; rw [mem_snoc]
    constructor
    · rintro (h' | h')
      · exact Or.inl h'
      · subst h'; exact Or.inr rfl
    · rintro (h' | h')
      · exact Or.inl h'
      · injection h' with h'; exact Or.inr h'.symm
  | compact =>
    obtain ⟨h1, h2, _⟩ := compact_spec thr h.pre
    refine ⟨h1.congr ?_, h2⟩
    intro j; rw [mem_snoc]
    constructor
    · exact Or.inl
    · rintro (h' | h')
      · exact h'
      · cases h'

/-- the invariant is preserved along any history; the offset is monotone along it -/
theorem C15_inv_run (thr o : Int) : ∀ (ops ops0 : List TbOp) (tb : TailBitmap), Inv (mem o ops0) tb →
    Inv (mem o (ops0 ++ ops)) (tbRun thr tb ops) ∧ tb.offset ≤ (tbRun thr tb ops).offset
  | [], ops0, tb, h => by simpa [tbRun] using h
  | op :: rest, ops0, tb, h => by
    obtain ⟨h1, h2⟩ := C15_inv_step thr o ops0 tb op h
    obtain ⟨h3, h4⟩ := C15_inv_run thr o rest (ops0 ++ [op]) _ h1
    rw [List.append_assoc, List.singleton_append] at h3
    exact ⟨h3, Int.le_trans h2 h4⟩

/-- `C15_inv`: the representation invariant holds after `NewTailBitmap(o)` and any finite history. -/
theorem C15_inv (thr o : Int) (ho : (64 : Int) ∣ o) (ops : List TbOp) :
    Inv (mem o ops) (tbRun thr (newTailBitmap o) ops) := by
  have := (C15_inv_run thr o ops [] (newTailBitmap o) ((inv_new ho).congr (by intro j; simp [mem]))).1
  simpa using this

/-- Get1(j) is 1 exactly when `j < o` or `j` has been set, for every `j` below the end of the stored words
    (any sign of `j`, any history, any threshold), and does not panic there. -/
theorem C15_get1 (thr o : Int) (ho : (64 : Int) ∣ o) (ops : List TbOp) (j : Int)
    (hj : j < tbEnd (tbRun thr (newTailBitmap o) ops)) :
    (tbRun thr (newTailBitmap o) ops).get1 j = some (if mem o ops j then 1 else 0) :=
  get1_spec (C15_inv thr o ho ops).pre j hj

/-- Get(j) returns that bit at position `j mod 64`. -/
theorem C15_get (thr o : Int) (ho : (64 : Int) ∣ o) (ops : List TbOp) (j : Int)
    (hj : j < tbEnd (tbRun thr (newTailBitmap o) ops)) :
    (tbRun thr (newTailBitmap o) ops).get j = some (if mem o ops j then 2 ^ (j % 64).toNat else 0) :=
  get_spec (C15_inv thr o ho ops).pre j hj

/-- every index ever set lies below the end of the stored words ... -/
theorem C15_covers (thr o : Int) (ho : (64 : Int) ∣ o) (ops : List TbOp) (i : Int) (hi : TbOp.set i ∈ ops) :
    i < tbEnd (tbRun thr (newTailBitmap o) ops) :=
  (C15_inv thr o ho ops).pre.covers i (Or.inr hi)

/-- ... hence every `j` up to the highest index ever set is answered (with the membership bit). -/
theorem C15_get1_upto (thr o : Int) (ho : (64 : Int) ∣ o) (ops : List TbOp) (i j : Int)
    (hi : TbOp.set i ∈ ops) (hji : j ≤ i) :
    (tbRun thr (newTailBitmap o) ops).get1 j = some (if mem o ops j then 1 else 0) ∧
    (tbRun thr (newTailBitmap o) ops).get j = some (if mem o ops j then 2 ^ (j % 64).toNat else 0) := by
  have := C15_covers thr o ho ops i hi
  exact ⟨C15_get1 thr o ho ops j (by omega), C15_get thr o ho ops j (by omega)⟩

/-- Offset stays a multiple of 64, never goes below the initial offset, never moves past a position that is
    still 0 (everything below it is a member), and never decreases under any continuation of the history. -/
theorem C15_offset (thr o : Int) (ho : (64 : Int) ∣ o) (ops : List TbOp) :
    (64 : Int) ∣ (tbRun thr (newTailBitmap o) ops).offset ∧
    o ≤ (tbRun thr (newTailBitmap o) ops).offset ∧
    (∀ j, j < (tbRun thr (newTailBitmap o) ops).offset → mem o ops j) ∧
    (∀ ops' : List TbOp, (tbRun thr (newTailBitmap o) ops).offset ≤
        (tbRun thr (tbRun thr (newTailBitmap o) ops) ops').offset) := by
  have h := C15_inv thr o ho ops
  refine ⟨h.pre.dvd, ?_, h.pre.below, ?_⟩
  · have := (C15_inv_run thr o ops [] (newTailBitmap o) ((inv_new ho).congr (by intro j; simp [mem]))).2
    simpa [newTailBitmap] using this
  · intro ops'
    exact (C15_inv_run thr o ops' ops _ h).2

/-- the first stored word is never all-ones (in particular after every Set). -/
theorem C15_firstWord (thr o : Int) (ho : (64 : Int) ∣ o) (ops : List TbOp) :
    (tbRun thr (newTailBitmap o) ops).words.head? ≠ some allOnes64 :=
  (C15_inv thr o ho ops).head

/-- all stored words are uint64 values -/
theorem C15_wordsOK (thr o : Int) (ho : (64 : Int) ∣ o) (ops : List TbOp) :
    WordsOK (tbRun thr (newTailBitmap o) ops).words :=
  (C15_inv thr o ho ops).pre.ok

/-- Compact changes no Get/Get1 result (for any threshold `thr'`, also one different from the history's),
    and keeps the end of the stored words. -/
theorem C15_compact (thr thr' o : Int) (ho : (64 : Int) ∣ o) (ops : List TbOp) :
    (∀ j, j < tbEnd (tbRun thr (newTailBitmap o) ops) →
      ((tbRun thr (newTailBitmap o) ops).compact thr').get1 j = (tbRun thr (newTailBitmap o) ops).get1 j ∧
      ((tbRun thr (newTailBitmap o) ops).compact thr').get j = (tbRun thr (newTailBitmap o) ops).get j) ∧
    tbEnd ((tbRun thr (newTailBitmap o) ops).compact thr') = tbEnd (tbRun thr (newTailBitmap o) ops) := by
  have h := C15_inv thr o ho ops
  obtain ⟨h1, _, h3⟩ := compact_spec thr' h.pre
  refine ⟨?_, h3⟩
  intro j hj
  have hj' : j < ((tbRun thr (newTailBitmap o) ops).compact thr').offset +
      64 * ((((tbRun thr (newTailBitmap o) ops).compact thr').words.length : Nat) : Int) := by
    rw [h3]; exact hj
  rw [get1_spec h1.pre j hj', get_spec h1.pre j hj', get1_spec h.pre j hj, get_spec h.pre j hj]
  exact ⟨rfl, rfl⟩

/-- Compact changes no Get/Get1 result at all: also at or beyond the end both calls panic before and after. -/
theorem C15_compact_all (thr thr' o : Int) (ho : (64 : Int) ∣ o) (ops : List TbOp) (j : Int) :
    ((tbRun thr (newTailBitmap o) ops).compact thr').get1 j = (tbRun thr (newTailBitmap o) ops).get1 j ∧
    ((tbRun thr (newTailBitmap o) ops).compact thr').get j = (tbRun thr (newTailBitmap o) ops).get j := by
  obtain ⟨h1, h2⟩ := C15_compact thr thr' o ho ops
  by_cases hj : j < tbEnd (tbRun thr (newTailBitmap o) ops)
  · exact h1 j hj
  · have a := get_oob (tb := tbRun thr (newTailBitmap o) ops) (j := j) (by unfold tbEnd at hj; omega)
    have b := get_oob (tb := (tbRun thr (newTailBitmap o) ops).compact thr') (j := j)
      (by unfold tbEnd at hj h2; omega)
    rw [a.1, a.2, b.1, b.2]; exact ⟨rfl, rfl⟩

/-! ### non-vacuity: concrete histories -/

/-- a history that fills the first word out of order (so that `Set` compacts), sets below the offset,
    repeats, and crosses a 2-word reclaim threshold -/
def C15_demoOps : List TbOp :=
  (List.range 64).reverse.map (fun (i : Nat) => TbOp.set (128 + (i : Int))) ++
    [TbOp.set 5, TbOp.set 200, TbOp.compact, TbOp.set 200, TbOp.set 192, TbOp.set 450]

example : (64 : Int) ∣ 128 := by decide
example : (tbRun 128 (newTailBitmap 128) C15_demoOps).offset = 192 := by decide +kernel
example : tbEnd (tbRun 128 (newTailBitmap 128) C15_demoOps) = 512 := by decide +kernel
example : (tbRun 128 (newTailBitmap 128) C15_demoOps).reclaimed = 128 := by decide +kernel
example : (tbRun 64 (newTailBitmap 128) C15_demoOps).reclaimed = 192 := by decide +kernel
-- inside the stored words: a set bit, an unset bit, a bit below the (moved) offset, a negative index
example : (tbRun 128 (newTailBitmap 128) C15_demoOps).get1 200 = some 1 := by
  rw [C15_get1 128 128 (by decide) _ _ (by decide +kernel)]; decide +kernel
example : (tbRun 128 (newTailBitmap 128) C15_demoOps).get1 201 = some 0 := by
  rw [C15_get1 128 128 (by decide) _ _ (by decide +kernel)]; decide +kernel
example : (tbRun 128 (newTailBitmap 128) C15_demoOps).get 450 = some (2 ^ 2) := by
  rw [C15_get 128 128 (by decide) _ _ (by decide +kernel)]; decide +kernel
example : (tbRun 128 (newTailBitmap 128) C15_demoOps).get1 (-3) = some 1 := by
  rw [C15_get1 128 128 (by decide) _ _ (by decide +kernel)]; decide +kernel
example : TbOp.set 450 ∈ C15_demoOps := by decide +kernel
example : (tbRun 128 (newTailBitmap 128) C15_demoOps).get1 512 = none := by decide +kernel
example : (tbRun 128 (newTailBitmap 128) C15_demoOps).words.head? = some (2 ^ 0 + 2 ^ 8) := by decide +kernel

end Low
