import LowProofs.Lemmas.C04Main
import LowProofs.Props.C03
/-
  C04 -- AllPaths and Decode enumerate exactly the stored nodes, in order.

  Domain (all theorems): a level mask `T` with `1 ≤ T < 2^31`, `h` its height as computed by the model's
  own `height` (`height T = h`, i.e. `2^h ≤ T < 2^(h+1)`, `h ≤ 30`), `to < 2^64` (a uint64; `frm` may be
  any natural number, the proofs never need its bound), `bm` any word list (shorter, equal or longer
  than `T` bits).  The specification is `storedPaths T h = (preorder T h 0 []).map (encPath h)`
  (LowModel/Spec.lean): the path words of the nodes of depth `≤ h` on a stored level, in recursive
  pre-order.  The model functions are total here (no panic is possible in `AllPaths`/`Decode` on this
  domain: the only indexing, `bm[wordI]`, is guarded by `len(bm) > wordI`, and the index is `≥ 0`).
  Only the property theorems and their non-vacuity examples live here; helpers are in
  `LowProofs/Lemmas/C04*.lean`.
-/
namespace Low
open Low.C04L

/-- The stored path words in pre-order are strictly ascending (hence without duplicates):
    pre-order is numeric order. -/
theorem C04_sorted (T h : Nat) (hT1 : 1 ≤ T) (hT31 : T < 2^31) (hh : height T = (h : Int)) :
    (storedPaths T h).Pairwise (· < ·) := by
  have ⟨_, _, h30⟩ := C03L.height_spec hT1 hT31 hh
  exact storedPaths_sorted T h (by omega)

example : (storedPaths 0x72 6).Pairwise (· < ·) := C04_sorted 0x72 6 (by decide) (by decide) (by decide)
example : storedPaths 5 2 = [0, 0x3, 0x100000003, 0x200000003, 0x300000003] := by decide

/-- What the members of `storedPaths` are: exactly the path words of the nodes (branch lists) of depth
    `≤ h` whose level is stored. -/
theorem C04_storedPaths_mem (T h p : Nat) :
    p ∈ storedPaths T h ↔ ∃ n : List Bool, n.length ≤ h ∧ T.testBit n.length = true ∧ p = encPath h n := by
  unfold storedPaths
  rw [List.mem_map]
  constructor
  · rintro ⟨n, hn, rfl⟩
    have := (mem_preorder_root T h n).mp hn
    exact ⟨n, this.1, this.2, rfl⟩
  · rintro ⟨n, h1, h2, rfl⟩
    exact ⟨n, (mem_preorder_root T h n).mpr ⟨h1, h2⟩, rfl⟩

example : encPath 6 [true, false, true, true] ∈ storedPaths 0x72 6 :=
  (C04_storedPaths_mem 0x72 6 _).mpr ⟨[true, false, true, true], by decide, by decide, rfl⟩

/-- AllPaths(T, from, to) returns exactly the stored path words `p` with `from ≤ p < to`, in pre-order
    (= strictly ascending, by `C04_sorted`); `from`/`to` need not be path words. -/
theorem C04_allPaths (T h frm to : Nat) (hT1 : 1 ≤ T) (hT31 : T < 2^31) (hh : height T = (h : Int))
    (hto : to < 2^64) :
    allPaths T frm to = (storedPaths T h).filter (fun p => decide (frm ≤ p ∧ p < to)) :=
  allPaths_eq T h frm to hT1 hT31 hh hto

-- `from`, `to` off actual paths, cutting inside the rows of search values 1 and 2
example : allPaths 5 0x100000001 0x200000004 = [0x100000003, 0x200000003] := by
  rw [C04_allPaths 5 2 _ _ (by decide) (by decide) (by decide) (by decide)]; decide
example : allPaths 0x72 0 0x0000000100000000 = (storedPaths 0x72 6).filter (fun p => decide (0 ≤ p ∧ p < 0x0000000100000000)) :=
  C04_allPaths 0x72 6 _ _ (by decide) (by decide) (by decide) (by decide)

/-- Consequences spelled out: the result is strictly ascending (no duplicates) ... -/
theorem C04_allPaths_ascending (T h frm to : Nat) (hT1 : 1 ≤ T) (hT31 : T < 2^31)
    (hh : height T = (h : Int)) (hto : to < 2^64) :
    (allPaths T frm to).Pairwise (· < ·) := by
  rw [C04_allPaths T h frm to hT1 hT31 hh hto]
  exact (C04_sorted T h hT1 hT31 hh).filter _

/-- ... and its members are exactly the well-formed paths on stored levels inside `[from, to)`. -/
theorem C04_allPaths_mem (T h frm to p : Nat) (hT1 : 1 ≤ T) (hT31 : T < 2^31)
    (hh : height T = (h : Int)) (hto : to < 2^64) :
    p ∈ allPaths T frm to ↔
      (∃ n : List Bool, n.length ≤ h ∧ T.testBit n.length = true ∧ p = encPath h n) ∧ frm ≤ p ∧ p < to := by
  rw [C04_allPaths T h frm to hT1 hT31 hh hto, List.mem_filter, C04_storedPaths_mem, decide_eq_true_eq]

example : (allPaths 0x72 0x500000000 0x900000031).Pairwise (· < ·) :=
  C04_allPaths_ascending 0x72 6 _ _ (by decide) (by decide) (by decide) (by decide)
example : encPath 6 [false, false, true, true] ∈ allPaths 0x72 0x500000000 0xc00000044 :=
  (C04_allPaths_mem 0x72 6 _ _ _ (by decide) (by decide) (by decide) (by decide)).mpr
    ⟨⟨[false, false, true, true], by decide, by decide, rfl⟩, by decide, by decide⟩

/-- The full range (the call made by `Decode` is `to = 2^63`): every stored path word, in pre-order. -/
theorem C04_allPaths_all (T h to : Nat) (hT1 : 1 ≤ T) (hT31 : T < 2^31) (hh : height T = (h : Int))
    (hto : to < 2^64) (hto' : 2^62 ≤ to) :
    allPaths T 0 to = storedPaths T h :=
  allPaths_all T h to hT1 hT31 hh hto hto'

example : allPaths 5 0 (2^63) = [0, 0x3, 0x100000003, 0x200000003, 0x300000003] := by
  rw [C04_allPaths_all 5 2 _ (by decide) (by decide) (by decide) (by decide) (by decide)]; decide
-- height 0 (root only) and the largest height
example : allPaths 1 0 (2^63) = [0] := by
  rw [C04_allPaths_all 1 0 _ (by decide) (by decide) (by decide) (by decide) (by decide)]; decide
example : allPaths 0x7fffffff 0 (2^64 - 1) = storedPaths 0x7fffffff 30 :=
  C04_allPaths_all 0x7fffffff 30 _ (by decide) (by decide) (by decide) (by decide) (by decide)

/-- Decode(T, bm) returns, in pre-order (ascending), exactly the stored path words whose PathToIndex
    bit is 1 in `bm`; `bitAt` reads 0 beyond `bm.length` words, and bits at or beyond `T` are never
    consulted because every index is `< T` (`C03_index_lt`). -/
theorem C04_decode (T h : Nat) (bm : List Nat) (hT1 : 1 ≤ T) (hT31 : T < 2^31)
    (hh : height T = (h : Int)) :
    decode T bm = (storedPaths T h).filter (fun p => bitAt bm (pathToIndex T p).toNat) := by
  rw [decode, allPaths_all T h (2^63) hT1 hT31 hh (by decide) (by decide)]
  apply List.filter_congr
  intro p hp
  obtain ⟨n, hn, hs, rfl⟩ := (C04_storedPaths_mem T h p).mp hp
  simp only [C03_strict T h n hT1 hT31 hh hn hs, Int.toNat_natCast]
  exact decode_pred bm (preIdx T 0 n)

/-- Under `-tags debug` the `PathToIndex` calls made by `Decode` pass all their contracts and return
    the release value, so the debug build of `Decode` does not panic and agrees with `decode`. -/
theorem C04_decode_debug_safe (T h p : Nat) (hT1 : 1 ≤ T) (hT31 : T < 2^31) (hh : height T = (h : Int))
    (hp : p ∈ allPaths T 0 (2^63)) :
    pathToIndexDebug T p = some (pathToIndex T p) := by
  rw [allPaths_all T h (2^63) hT1 hT31 hh (by decide) (by decide)] at hp
  obtain ⟨n, hn, hs, rfl⟩ := (C04_storedPaths_mem T h p).mp hp
  exact (C03_strict_debug T h n hT1 hT31 hh hn hs).1

/-- The same, stated over nodes with the specification index `preIdx` (= PathToIndex by C03). -/
theorem C04_decode_nodes (T h : Nat) (bm : List Nat) (hT1 : 1 ≤ T) (hT31 : T < 2^31)
    (hh : height T = (h : Int)) :
    decode T bm = ((preorder T h 0 []).filter (fun n => bitAt bm (preIdx T 0 n))).map (encPath h) := by
  rw [C04_decode T h bm hT1 hT31 hh, storedPaths, List.filter_map]
  congr 1
  apply List.filter_congr
  intro n hn
  obtain ⟨hl, hs⟩ := (mem_preorder_root T h n).mp hn
  simp only [Function.comp, C03_strict T h n hT1 hT31 hh hl hs, Int.toNat_natCast]

/-- Decode's result is strictly ascending. -/
theorem C04_decode_ascending (T h : Nat) (bm : List Nat) (hT1 : 1 ≤ T) (hT31 : T < 2^31)
    (hh : height T = (h : Int)) :
    (decode T bm).Pairwise (· < ·) := by
  rw [C04_decode T h bm hT1 hT31 hh]
  exact (C04_sorted T h hT1 hT31 hh).filter _

-- T = 5 (root + 4 leaves): bits 0, 2, 4 set; once with an exact-size word, once with an empty bitmap
-- (all words beyond len(bm) read 0), once with garbage at and beyond bit T and extra words
example : decode 5 [0b10101] = [0, 0x100000003, 0x300000003] := by
  rw [C04_decode_nodes 5 2 _ (by decide) (by decide) (by decide)]; decide
example : decode 5 [] = [] := by
  rw [C04_decode_nodes 5 2 _ (by decide) (by decide) (by decide)]; decide
example : decode 5 [0xffffffffffffffe0 + 0b10101, 0xffff] = [0, 0x100000003, 0x300000003] := by
  rw [C04_decode_nodes 5 2 _ (by decide) (by decide) (by decide)]; decide
example : decode 0x72 [0, 1] =
    (storedPaths 0x72 6).filter (fun p => bitAt [0, 1] (pathToIndex 0x72 p).toNat) :=
  C04_decode 0x72 6 _ (by decide) (by decide) (by decide)

/-- Encode-then-decode is the identity on sets of stored nodes: for a set `S` of stored nodes (a sub-list
    of the pre-order enumeration) and ANY bitmap `bm` whose bits below `T` are exactly
    `{PathToIndex(p) | p ∈ S}` (bits at or beyond `T`, and the number of words, are arbitrary),
    `Decode` returns exactly the path words of `S`, in order. -/
theorem C04_roundtrip (T h : Nat) (S : List (List Bool)) (bm : List Nat) (hT1 : 1 ≤ T) (hT31 : T < 2^31)
    (hh : height T = (h : Int)) (hS : S.Sublist (preorder T h 0 []))
    (hbm : ∀ i, i < T → (bitAt bm i = true ↔ ∃ n, n ∈ S ∧ preIdx T 0 n = i)) :
    decode T bm = S.map (encPath h) := by
  have hsorted := C04_sorted T h hT1 hT31 hh
  have hstored : ∀ n, n ∈ S → n.length ≤ h ∧ T.testBit n.length = true :=
    fun n hn => (mem_preorder_root T h n).mp (hS.subset hn)
  apply sorted_ext
  · exact C04_decode_ascending T h bm hT1 hT31 hh
  · exact hsorted.sublist (hS.map (encPath h))
  · intro p
    rw [C04_decode_nodes T h bm hT1 hT31 hh]
    simp only [List.mem_map, List.mem_filter]
    constructor
    · rintro ⟨n, ⟨hn, hb⟩, rfl⟩
      obtain ⟨hl, hs⟩ := (mem_preorder_root T h n).mp hn
      obtain ⟨n', hn', he⟩ := (hbm _ (C03_index_lt T h n hT1 hT31 hh hl hs)).mp hb
      obtain ⟨hl', hs'⟩ := hstored n' hn'
      have := C03_index_inj T h n' n hT1 hT31 hh hl' hs' hl hs he
      subst this
      exact ⟨n', hn', rfl⟩
    · rintro ⟨n, hn, rfl⟩
      obtain ⟨hl, hs⟩ := hstored n hn
      refine ⟨n, ⟨hS.subset hn, ?_⟩, rfl⟩
      exact (hbm _ (C03_index_lt T h n hT1 hT31 hh hl hs)).mpr ⟨n, hn, rfl⟩

/-- The round trip with the path words named through the model's own `pathToIndex` (what the Go
    caller does: `bm[PathToIndex(p)] = 1` for each `p` of the set). -/
theorem C04_roundtrip_paths (T h : Nat) (P : List Nat) (bm : List Nat) (hT1 : 1 ≤ T) (hT31 : T < 2^31)
    (hh : height T = (h : Int)) (hP : P.Sublist (storedPaths T h))
    (hbm : ∀ i, i < T → (bitAt bm i = true ↔ ∃ p, p ∈ P ∧ pathToIndex T p = (i : Int))) :
    decode T bm = P := by
  have hsorted := C04_sorted T h hT1 hT31 hh
  apply sorted_ext
  · exact C04_decode_ascending T h bm hT1 hT31 hh
  · exact hsorted.sublist hP
  · intro p
    rw [C04_decode T h bm hT1 hT31 hh, List.mem_filter]
    constructor
    · rintro ⟨hp, hb⟩
      obtain ⟨n, hl, hs, rfl⟩ := (C04_storedPaths_mem T h p).mp hp
      rw [C03_strict T h n hT1 hT31 hh hl hs, Int.toNat_natCast] at hb
      obtain ⟨p', hp', he⟩ := (hbm _ (C03_index_lt T h n hT1 hT31 hh hl hs)).mp hb
      obtain ⟨n', hl', hs', rfl⟩ := (C04_storedPaths_mem T h p').mp (hP.subset hp')
      rw [C03_strict T h n' hT1 hT31 hh hl' hs'] at he
      have := C03_index_inj T h n' n hT1 hT31 hh hl' hs' hl hs (by omega)
      subst this
      exact hp'
    · intro hp
      have hp' := hP.subset hp
      refine ⟨hp', ?_⟩
      obtain ⟨n, hl, hs, rfl⟩ := (C04_storedPaths_mem T h p).mp hp'
      have hi := C03_strict T h n hT1 hT31 hh hl hs
      rw [hi, Int.toNat_natCast]
      exact (hbm _ (C03_index_lt T h n hT1 hT31 hh hl hs)).mpr ⟨_, hp, hi⟩

-- S = {root, leaf 01, leaf 11} under T = 5: indexes 0, 2, 4; bm has garbage from bit 5 on
example : decode 5 [0xffffffffffffffe0 + 0b10101] = [[], [false, true], [true, true]].map (encPath 2) :=
  C04_roundtrip 5 2 [[], [false, true], [true, true]] _ (by decide) (by decide) (by decide) (by decide)
    (by decide)

end Low
