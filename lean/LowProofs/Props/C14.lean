import LowProofs.Lemmas.C14
/-
  C14 -- Join/Getw pack fixed-width words losslessly; Slice copies a bit range.
  Only the property theorems and their non-vacuity examples live here; helpers are in Lemmas/C14.lean.
  (The model uses unbounded naturals; it represents the int32 code for `BmDom ws`, see DESIGN 3.1.
   `bmSlice` models slice.go as repaired: `l := ((to - from) + 63) >> 6`.
   Getw computes `i*w` in int32, Slice its positions in int32: the theorems speak for the Go code when
   `len(values)*w < 2^31` resp. `BmDom ws`; the unbounded model needs neither as a hypothesis.
   No `WordsOK` is assumed of the inputs: values / words with bits above 2^64 cannot occur in Go, and the
   statements hold for arbitrary naturals anyway.)
-/
namespace Low
open Low.C14L

/-- Slice(words, from, to) for `0 ≤ from ≤ to ≤ 64*len(words)`: does not panic, returns exactly
    `ceil((to-from)/64)` words (each a valid uint64) whose bit `j` is bit `from+j` of the input for
    `j < to-from` and 0 for every other `j`. (The input is unchanged: the model is a pure function.) -/
theorem C14_slice (ws : List Nat) (frm to : Nat) (hft : frm ≤ to) (hto : to ≤ 64 * ws.length) :
    ∃ r, bmSlice ws frm to = some r ∧ r.length = (to - frm + 63) / 64 ∧ WordsOK r ∧
      ∀ j, bitAt r j = (decide (j < to - frm) && bitAt ws (frm + j)) := by
  obtain ⟨r, h1, h2, h3, h4⟩ := sliceLoop_spec (frm := frm) hto (to - frm) frm (zeros ((to - frm + 63) / 64))
    (Nat.le_refl _) (by omega) (by rw [length_zeros]; omega) (WordsOK_zeros _)
    (by intro j; rw [bitAt_zeros]; simp)
  exact ⟨r, h1, by rw [h2, length_zeros], h3, h4⟩


/-- Join(values, w) for a legal width: does not panic, returns exactly `ceil(len*w/64)` words (each a valid
    uint64) such that Getw(result, i, w) (which does not panic either) is the low `w` bits of `values[i]` for
    every index, and no bit at or above `len*w` is set -- with the Getw clause this accounts for every bit.
    (Values may have bits above `w` set: `vs` is arbitrary.) -/
theorem C14_join (vs : List Nat) (w : Nat) (hw : w ∈ [1, 2, 4, 8, 16, 32, 64]) :
    ∃ r, bmJoin vs w = some r ∧ r.length = (vs.length * w + 63) / 64 ∧ WordsOK r ∧
      (∀ i (hi : i < vs.length), getw r i w = some (vs[i] % 2^w)) ∧
      (∀ j, vs.length * w ≤ j → bitAt r j = false) := by
  obtain ⟨hpos, hns⟩ := width_ok hw
  have hcomm : w * vs.length = vs.length * w := Nat.mul_comm _ _
  obtain ⟨r, h1, h2, h3, h4, h5⟩ := joinLoop_spec (vs := vs) hpos hns vs.length 0
    (zeros ((vs.length * w + 63) / 64)) rfl (Nat.zero_le _) (by rw [length_zeros]; omega) (WordsOK_zeros _)
    (by intro a t ha; omega) (by intro j _; exact bitAt_zeros _ _)
  rw [length_zeros] at h2
  refine ⟨r, ?_, h2, h3, ?_, h5⟩
  · simpa [bmJoin, hcomm] using h1
  · intro i hi
    have hle : (i + 1) * w ≤ vs.length * w := Nat.mul_le_mul_right w hi
    have hmul : (i + 1) * w = i * w + w := Nat.succ_mul i w
    apply getw_spec (hns i) (by omega) hpos
    intro t ht
    rw [h4 i t hi ht]
    simp [List.getD, hi]

/-! ### non-vacuity -/

-- unaligned, multi-word range: bits 60..129 of a 3-word bitmap; two result words
example : bmSlice [2^60 + 2^63, 1, 2] 60 130 = some [1 + 2^3 + 2^4, 2^5] := by decide +kernel
example : ∃ r, bmSlice [2^60 + 2^63, 1, 2] 60 130 = some r ∧ r.length = (130 - 60 + 63) / 64 ∧ WordsOK r ∧
      ∀ j, bitAt r j = (decide (j < 130 - 60) && bitAt [2^60 + 2^63, 1, 2] (60 + j)) :=
  C14_slice _ 60 130 (by decide) (by decide)
-- empty range gives the empty bitmap
example : bmSlice [5] 3 3 = some [] := by decide

-- width 16, five values (two result words), values with bits above the width set
example : bmJoin [0x1ffff, 2, 0xabcd, 0x7fff0004, 5] 16 = some [0x0004abcd0002ffff, 5] := by decide +kernel
example : getw [0x0004abcd0002ffff, 5] 3 16 = some (0x7fff0004 % 2^16) := by decide +kernel
example : ∃ r, bmJoin [0x1ffff, 2, 0xabcd, 0x7fff0004, 5] 16 = some r ∧ r.length = (5 * 16 + 63) / 64 ∧ WordsOK r ∧
      (∀ i (hi : i < 5), getw r i 16 = some ([0x1ffff, 2, 0xabcd, 0x7fff0004, 5][i] % 2^16)) ∧
      (∀ j, 5 * 16 ≤ j → bitAt r j = false) :=
  C14_join [0x1ffff, 2, 0xabcd, 0x7fff0004, 5] 16 (by decide)
-- width 64: one word per value
example : bmJoin [7, 2^64 + 9] 64 = some [7, 9] := by decide +kernel

end Low
