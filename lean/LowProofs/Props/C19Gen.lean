import Generated.Effects
/-
  C19, layer 2: theorems over the effect table REGENERATED from /repo's source on every C19 run
  (tools/effects, go/ssa). They are re-checked by the kernel each time; a new write to an argument,
  to a package-level variable or through an unknown pointer, or a call to something not on the
  reviewed list of pure callees, makes them fail.
  This module is deliberately NOT imported by LowProofs.lean: only the C19 check builds it, so a change
  of the table can never disturb another property's check.
-/
namespace Low
open Low.Gen

/-- callees outside the five packages that the query/codec functions may call: pure functions of their
    arguments (math/bits, bytes.Compare, fmt.Sprintf, strings.Join, reflect inspection in bitmap.Fmt) and the
    no-op contract stubs of openacid/must in a release build -/
def pureCallees : List String := [
  "math/bits.LeadingZeros32", "math/bits.LeadingZeros64", "math/bits.OnesCount8", "math/bits.OnesCount16",
  "math/bits.OnesCount32", "math/bits.OnesCount64", "math/bits.Reverse8", "math/bits.TrailingZeros8",
  "math/bits.TrailingZeros64", "math/bits.TrailingZeros32", "math/bits.LeadingZeros8", "math/bits.Len64", "math/bits.Len32",
  "math/bits.Len", "math/bits.Len8", "math/bits.Len16", "math/bits.LeadingZeros16", "math/bits.LeadingZeros",
  "math/bits.TrailingZeros16", "math/bits.TrailingZeros", "math/bits.OnesCount", "math/bits.Reverse16", "math/bits.Reverse32",
  "math/bits.Reverse64", "math/bits.ReverseBytes16", "math/bits.ReverseBytes32", "math/bits.ReverseBytes64",
  "math/bits.RotateLeft8", "math/bits.RotateLeft16", "math/bits.RotateLeft32", "math/bits.RotateLeft64",
  "math/bits.Add64", "math/bits.Sub64", "math/bits.Mul64",
  "bytes.Compare", "bytes.Equal", "bytes.HasPrefix", "bytes.HasSuffix", "bytes.Index", "bytes.IndexByte", "bytes.LastIndexByte",
  "bytes.Count", "bytes.Contains",
  "fmt.Sprintf", "strings.Join", "strings.Repeat", "strings.HasPrefix", "strings.HasSuffix", "strings.Index", "strings.IndexByte",
  "strings.LastIndex", "strings.LastIndexByte", "strings.Compare", "strings.Contains", "strings.Count", "strings.TrimRight",
  "strings.TrimLeft", "strings.Trim", "strings.TrimPrefix", "strings.TrimSuffix", "strings.Split", "strings.EqualFold",
  "strconv.FormatUint", "strconv.FormatInt", "strconv.Itoa", "strconv.ParseUint", "strconv.ParseInt", "strconv.Atoi", "strconv.Quote",
  "unicode/utf8.RuneCountInString", "unicode/utf8.DecodeRuneInString", "unicode/utf8.DecodeLastRuneInString",
  "unicode/utf8.ValidString", "unicode/utf8.RuneLen", "unicode/utf8.RuneCount", "unicode/utf8.DecodeRune", "unicode/utf8.Valid",
  "(encoding/binary.bigEndian).Uint16", "(encoding/binary.bigEndian).Uint32", "(encoding/binary.bigEndian).Uint64",
  "(encoding/binary.littleEndian).Uint16", "(encoding/binary.littleEndian).Uint32", "(encoding/binary.littleEndian).Uint64",
  "reflect.ValueOf", "(reflect.Value).Index", "(reflect.Value).Interface", "(reflect.Value).Kind", "(reflect.Value).Len",
  "(*github.com/openacid/must/disabled.foo).Equal", "(*github.com/openacid/must/disabled.foo).NotEqual",
  "(*github.com/openacid/must/disabled.foo).OK", "(*github.com/openacid/must/disabled.foo).True"]

/-- every memory write a query or codec function of bitmap, bmtree, bitstr, bitword, sigbits can perform
    (outside package initialisation) goes to memory allocated by that same call: never to an argument,
    a string, a package-level table or through a pointer of unknown origin -/
theorem C19_effects_ok : ∀ e ∈ effects, e.root = Root.owned ∨ e.initOnly = true := by decide

/-- every call leaving the analysed functions (outside package initialisation) is to a reviewed pure callee;
    there is no dynamic call, goroutine, defer, channel operation or map iteration -/
theorem C19_calls_ok : ∀ c ∈ extCalls, c.initOnly = true ∨ c.callee ∈ pureCallees := by decide +kernel

/-- the listed query functions are among the analysed ones -/
theorem C19_analysed_covers : ∀ f ∈ [
    "github.com/openacid/low/bitmap.Rank64", "github.com/openacid/low/bitmap.Rank128",
    "github.com/openacid/low/bitmap.Select32", "github.com/openacid/low/bitmap.Select32R64",
    "github.com/openacid/low/bitmap.NextOne", "github.com/openacid/low/bitmap.PrevOne",
    "github.com/openacid/low/bitmap.Slice", "github.com/openacid/low/bitmap.ToArray",
    "github.com/openacid/low/bitmap.Getw", "github.com/openacid/low/bitmap.FromStr32",
    "github.com/openacid/low/bmtree.PathToIndex", "github.com/openacid/low/bmtree.PathToIndexLoose",
    "github.com/openacid/low/bmtree.IndexToPath", "github.com/openacid/low/bmtree.AllPaths",
    "github.com/openacid/low/bmtree.Decode",
    "github.com/openacid/low/bitstr.Cmp", "github.com/openacid/low/bitstr.CmpUpto", "github.com/openacid/low/bitstr.StrCmpUpto",
    "github.com/openacid/low/sigbits.FirstDiffBits", "github.com/openacid/low/sigbits.ShardByPrefix",
    "(*github.com/openacid/low/sigbits.SigBits).CountPrefixes",
    "(*github.com/openacid/low/bitword.bitWord).FromStr", "(*github.com/openacid/low/bitword.bitWord).ToStr",
    "(*github.com/openacid/low/bitword.bitWord).Get", "(*github.com/openacid/low/bitword.bitWord).FirstDiff"],
    f ∈ analysed := by decide

end Low
