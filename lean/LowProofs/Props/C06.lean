import LowProofs.Lemmas.C06
/-
  C06 -- pbcmpl frames round-trip: Marshal then Unmarshal returns message, version, size.
  Model: LowModel/Pbcmpl.lean.  The protobuf encoding of the message is the parameter `body`
  (the message round trip is `decode (encode m) = m` of the protobuf library, trusted base);
  the version string is the parameter `ver`.
  Domain: `ver.length ≤ 16` (else `newHeader` panics), `body.length < 2^63` (a Go slice length is an
  `int`), and for the clauses that return the version, `ver` does not end in NUL.
  No theorem needs the elements to be bytes (`< 256`); `C06_frame_bytes` shows that the frame consists
  of bytes whenever `ver` and `body` do.

  C06_default: trivial in this model -- the default version "1.0.0" is just the `ver` argument chosen by
  the caller of `pbMarshal` (Go: `ver := DefaultVer` unless the message has `GetVersion`); it has length
  5 ≤ 16 and does not end in NUL, so every theorem below applies to it (see the examples).
-/
namespace Low
open C06L

/-- the wire format written out: version, NUL padding to 16 bytes, header size 32 and body size
    as little-endian uint64, then the body -/
def frameBytes (ver body : List Nat) : List Nat :=
  ver ++ List.replicate (16 - ver.length) 0 ++ le64 32 ++ le64 body.length ++ body

/-- Marshal into a writer with enough room writes exactly the frame, reports no error, and returns the count
    `32 + |body|` (= `Size` = `HeaderSize` (32) + encoded length), which is the number of bytes on the wire. -/
theorem C06_marshal (allOrNothing : Bool) (cap : Nat) (ver body : List Nat)
    (hv : ver.length ≤ 16) (hcap : 32 + body.length ≤ cap) :
    pbMarshal allOrNothing cap ver body = some (32 + body.length, false, frameBytes ver body) ∧
    pbFrame ver body = some (frameBytes ver body) ∧
    (frameBytes ver body).length = 32 + body.length := by
  have hh := pbHeader_eq ver body.length hv
  refine ⟨?_, pbFrame_eq ver body hv, frame_length ver body hv⟩
  rw [pbMarshal_fit hh hcap]
  simp [frameBytes, pad16]

example : pbMarshal true 40 [49, 46, 48, 46, 48] [7, 8, 9] =
    some (35, false, [49, 46, 48, 46, 48, 0, 0, 0, 0, 0, 0, 0, 0, 0, 0, 0, 32, 0, 0, 0, 0, 0, 0, 0, 3, 0, 0, 0, 0, 0, 0, 0, 7, 8, 9]) := by
  decide
example : pbMarshal false 35 [49, 46, 48, 46, 48] [7, 8, 9] = some (35, false, frameBytes [49, 46, 48, 46, 48] [7, 8, 9]) :=
  (C06_marshal false 35 [49, 46, 48, 46, 48] [7, 8, 9] (by decide) (by decide)).1

/-- the frame consists of bytes -/
theorem C06_frame_bytes (ver body : List Nat) (h1 : BytesOK ver) (h2 : BytesOK body) :
    BytesOK (frameBytes ver body) := by
  intro b hb
  simp only [frameBytes, List.mem_append, List.mem_replicate] at hb
  rcases hb with (((hb | hb) | hb) | hb) | hb
  · exact h1 b hb
  · omega
  · exact le64_bytesOK 32 b hb
  · exact le64_bytesOK _ b hb
  · exact h2 b hb

/-- ReadHeader on a frame (followed by anything): 32 bytes consumed, the version, header size 32 and
    body size = encoded length; the reader is left at the start of the body. -/
theorem C06_readHeader (ver body rest : List Nat) (e : PbErr)
    (hv : ver.length ≤ 16) (hnz : ver.getLast? ≠ some 0) (hb : body.length < 2 ^ 63) :
    pbReadHeader ⟨frameBytes ver body ++ rest, e⟩ =
      (32, some ⟨ver, 32, body.length⟩, none, ⟨body ++ rest, e⟩) := by
  have hl : (pad16 ver ++ le64 32 ++ le64 body.length).length = 32 :=
    pbHeader_length (pbHeader_eq ver body.length hv)
  have := pbReadHeader_hdr (pad16 ver ++ le64 32 ++ le64 body.length) (body ++ rest) e hl
  rw [hdrInfo_frame ver body.length hv hb] at this
  have hver : verStr ver = ver := by simpa using verStr_pad ver 0 hnz
  rw [hver] at this
  simpa [frameBytes, pad16] using this

example : pbReadHeader ⟨frameBytes [49, 46, 48] [7, 8, 9] ++ [5, 5], .injected⟩ =
    (32, some ⟨[49, 46, 48], 32, 3⟩, none, ⟨[7, 8, 9, 5, 5], .injected⟩) := by decide

/-- Unmarshal on a frame followed by anything: the same body bytes, the same version, count = 32 + |body|
    = length of the frame, and the reader has consumed exactly the frame. -/
theorem C06_unmarshal (ver body rest : List Nat) (e : PbErr)
    (hv : ver.length ≤ 16) (hnz : ver.getLast? ≠ some 0) (hb : body.length < 2 ^ 63) :
    pbUnmarshal ⟨frameBytes ver body ++ rest, e⟩ =
      ⟨32 + body.length, ver, some body, none, ⟨rest, e⟩⟩ := by
  have hh := C06_readHeader ver body rest e hv hnz hb
  rw [pbUnmarshal_of_header _ _ _ _ hh]
  have hr := readFull_append body rest e
  simp only [Int.toNat_natCast, hr]
  simp

example : pbUnmarshal ⟨frameBytes [49, 46, 48, 46, 48] [7, 8, 9] ++ [5, 5], .eof⟩ =
    ⟨35, [49, 46, 48, 46, 48], some [7, 8, 9], none, ⟨[5, 5], .eof⟩⟩ := by decide
/-- empty version, empty body -/
example : pbUnmarshal ⟨frameBytes [] [], .eof⟩ = ⟨32, [], some [], none, ⟨[], .eof⟩⟩ := by decide
/-- the hypothesis on the version is needed: a trailing NUL is lost -/
example : (pbUnmarshal ⟨frameBytes [49, 0] [7], .eof⟩).ver = [49] := by decide

/-- without the hypothesis on the last byte, the version comes back with its trailing NULs stripped -/
theorem C06_unmarshal_anyver (ver body rest : List Nat) (e : PbErr)
    (hv : ver.length ≤ 16) (hb : body.length < 2 ^ 63) :
    pbUnmarshal ⟨frameBytes ver body ++ rest, e⟩ =
      ⟨32 + body.length, verStr ver, some body, none, ⟨rest, e⟩⟩ := by
  have hl : (pad16 ver ++ le64 32 ++ le64 body.length).length = 32 :=
    pbHeader_length (pbHeader_eq ver body.length hv)
  have hh := pbReadHeader_hdr (pad16 ver ++ le64 32 ++ le64 body.length) (body ++ rest) e hl
  rw [hdrInfo_frame ver body.length hv hb] at hh
  have e1 : frameBytes ver body ++ rest = pad16 ver ++ le64 32 ++ le64 body.length ++ (body ++ rest) := by
    simp [frameBytes, pad16]
  rw [e1, pbUnmarshal_of_header _ _ _ _ hh]
  have hr := readFull_append body rest e
  simp only [Int.toNat_natCast, hr]
  simp

/-! ### several frames in one stream -/

/-- frames written back to back -/
def streamOf : List (List Nat × List Nat) → List Nat
  | [] => []
  | (v, b) :: fs => frameBytes v b ++ streamOf fs

/-- call Unmarshal `fuel` times on the same reader, collecting the results -/
def unmarshalAll : Nat → PbReader → List PbResult
  | 0, _ => []
  | fuel + 1, r => pbUnmarshal r :: unmarshalAll fuel (pbUnmarshal r).rest

/-- what the calls must return: one frame per call, in order, each leaving exactly the later frames in
    the reader; then count 0 and the reader's end error -/
def expectAll (e : PbErr) : List (List Nat × List Nat) → List PbResult
  | [] => [⟨0, [], none, some e, ⟨[], e⟩⟩]
  | (v, b) :: fs => ⟨32 + b.length, v, some b, none, ⟨streamOf fs, e⟩⟩ :: expectAll e fs

/-- the domain of C06 for one (version, body) pair -/
def FrameOK (p : List Nat × List Nat) : Prop :=
  p.1.length ≤ 16 ∧ p.1.getLast? ≠ some 0 ∧ p.2.length < 2 ^ 63

theorem C06_stream_anyEnd (e : PbErr) : ∀ (fs : List (List Nat × List Nat)), (∀ p ∈ fs, FrameOK p) →
    unmarshalAll (fs.length + 1) ⟨streamOf fs, e⟩ = expectAll e fs
  | [], _ => by
    have h := pbUnmarshal_short [] e (by simp)
    have he : (if e = PbErr.eof then PbErr.eof else e) = e := by split <;> simp_all
    simp only [List.length_nil, if_true, he] at h
    simp [unmarshalAll, streamOf, expectAll, h]
  | (v, b) :: fs, h => by
    obtain ⟨h1, h2, h3⟩ := h (v, b) (by simp)
    have ih := C06_stream_anyEnd e fs (fun p hp => h p (by simp [hp]))
    have hu := C06_unmarshal v b (streamOf fs) e h1 h2 h3
    simp only [unmarshalAll, streamOf, expectAll, List.length_cons, hu, ih]

/-- Frames written back to back are returned one per call, in order, each call consuming exactly one
    frame; the call after the last frame returns count 0 and io.EOF. -/
theorem C06_stream (fs : List (List Nat × List Nat)) (h : ∀ p ∈ fs, FrameOK p) :
    unmarshalAll (fs.length + 1) ⟨streamOf fs, .eof⟩ = expectAll .eof fs :=
  C06_stream_anyEnd .eof fs h

example : unmarshalAll 4 ⟨streamOf [([49], [7, 8]), ([], []), ([50, 0, 51], [1])], .eof⟩ =
    [⟨34, [49], some [7, 8], none, ⟨streamOf [([], []), ([50, 0, 51], [1])], .eof⟩⟩,
     ⟨32, [], some [], none, ⟨streamOf [([50, 0, 51], [1])], .eof⟩⟩,
     ⟨33, [50, 0, 51], some [1], none, ⟨[], .eof⟩⟩,
     ⟨0, [], none, some .eof, ⟨[], .eof⟩⟩] := by decide
example : ∀ p ∈ [(([49] : List Nat), ([7, 8] : List Nat)), ([], []), ([50, 0, 51], [1])], FrameOK p := by
  simp [FrameOK]

end Low
