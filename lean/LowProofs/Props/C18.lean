import LowModel
/-
  C18 -- SectionWriter confines and accounts for every byte across any call sequence.
  Model: LowModel/Iohelper.lean (int64 arithmetic with wrap64, underlying writer scripted by the environment).
  Reference: `RefSW` in LowModel/Spec.lean (plain integers, a cursor machine one can read in a minute).
-/
namespace Low

theorem wrap64_id {x : Int} (h1 : -9223372036854775808 ≤ x) (h2 : x ≤ 9223372036854775807) : wrap64 x = x := by
  unfold wrap64; simp only [M64]; split <;> omega

/-- the section: start and end are non-negative int64 positions, the cursor never lies before the start -/
def SwInv (s : SectionWriter) : Prop :=
  0 ≤ s.base ∧ s.base ≤ s.off ∧ s.base ≤ s.limit ∧ s.limit ≤ 9223372036854775807 ∧ s.off ≤ 9223372036854775807

def toRef (s : SectionWriter) : RefSW := ⟨s.base, s.off, s.limit⟩

def errName : Option IoErr → Option String
  | none => none
  | some .shortWrite => some "ShortWrite"
  | some .whence => some "Whence"
  | some .offset => some "Offset"
  | some .underlying => some "Underlying"

theorem errName_ite (c : Prop) [Decidable c] (a b : Option IoErr) :
    errName (if c then a else b) = if c then errName a else errName b := by split <;> rfl

def toRefOut (r : Ret) (u : Option UCall) : RefOut := ⟨r.n, errName r.err, u.map fun c => (c.off, c.len)⟩

def toRefCall : SwCall → RefCall
  | .write plen ans => .write plen ans.accept ans.fail
  | .writeAt plen off ans => .writeAt plen off ans.accept ans.fail
  | .seek offset whence => .seek offset whence
  | .size => .size

/-- NewSectionWriter(w, off, n) with 0 ≤ off, 0 ≤ n, off + n an int64 satisfies the invariant -/
theorem C18_init (off n : Int) (h0 : 0 ≤ off) (hn : 0 ≤ n) (h : off + n ≤ 9223372036854775807) :
    SwInv (newSectionWriter off n) ∧ toRef (newSectionWriter off n) = ⟨off, off, off + n⟩ := by
  have : wrap64 (off + n) = off + n := wrap64_id (by omega) h
  simp only [newSectionWriter, SwInv, toRef, this]
  refine ⟨⟨h0, Int.le_refl _, ?_, ?_, ?_⟩, trivial⟩ <;> omega

/-- one step: on a call inside the int64 domain the model behaves exactly like the reference machine
    (so no int64 sum wraps), and the invariant is preserved -/
theorem step_refines (s : SectionWriter) (c : SwCall) (hi : SwInv s) (hc : (toRef s).callOK (toRefCall c) = true) :
    let (s', r, u) := s.step c
    SwInv s' ∧ ((toRef s).step (toRefCall c)) = (toRef s', toRefOut r u) := by
  obtain ⟨h0, h1, h2, h3, h4⟩ := hi
  cases c with
  | write plen ans =>
    simp only [SectionWriter.step, SectionWriter.write, toRefCall, RefSW.step, RefSW.write, toRef]
    by_cases hge : s.off ≥ s.limit
    · simp [hge, SwInv, toRefOut, errName, *]
    · have hmx : wrap64 (s.limit - s.off) = s.limit - s.off := wrap64_id (by omega) (by omega)
      simp only [hge, ↓reduceIte, hmx, UAns.apply, refAccept]
      by_cases hp : (plen : Int) > s.limit - s.off
      · have hroom : min plen (s.limit - s.off).toNat = (s.limit - s.off).toNat := by omega
        have hgt : plen > (s.limit - s.off).toNat := by omega
        have hw : wrap64 (s.off + ((min ans.accept (s.limit - s.off).toNat : Nat) : Int)) =
            s.off + ((min ans.accept (s.limit - s.off).toNat : Nat) : Int) := wrap64_id (by omega) (by omega)
        simp only [hp, ↓reduceIte, hroom, hgt, hw, SwInv, toRefOut]
        refine ⟨⟨h0, by omega, h2, h3, by omega⟩, ?_⟩
        simp only [errName_ite]; split <;> simp_all [errName]
      · have hroom : min plen (s.limit - s.off).toNat = plen := by omega
        have hgt : ¬ plen > (s.limit - s.off).toNat := by omega
        have hw : wrap64 (s.off + ((min ans.accept plen : Nat) : Int)) = s.off + ((min ans.accept plen : Nat) : Int) :=
          wrap64_id (by omega) (by omega)
        simp only [hp, ↓reduceIte, hroom, hgt, hw, SwInv, toRefOut]
        refine ⟨⟨h0, by omega, h2, h3, by omega⟩, ?_⟩
        simp only [errName_ite]; split <;> simp_all [errName]
  | writeAt plen off ans =>
    simp only [toRefCall, RefSW.callOK, Bool.and_eq_true, decide_eq_true_eq, toRef] at hc
    have hsz : wrap64 (s.limit - s.base) = s.limit - s.base := wrap64_id (by omega) (by omega)
    simp only [SectionWriter.step, SectionWriter.writeAt, toRefCall, RefSW.step, RefSW.writeAt, toRef, hsz]
    by_cases hout : off < 0 ∨ off ≥ s.limit - s.base
    · simp [hout, SwInv, toRefOut, errName, *]
    · have ho : wrap64 (off + s.base) = off + s.base := wrap64_id (by omega) (by omega)
      have hmx : wrap64 (s.limit - (off + s.base)) = s.limit - (off + s.base) := wrap64_id (by omega) (by omega)
      have hroomeq : (s.limit - s.base - off) = s.limit - (off + s.base) := by omega
      simp only [hout, ↓reduceIte, ho, hmx, UAns.apply, refAccept, hroomeq]
      by_cases hp : (plen : Int) > s.limit - (off + s.base)
      · have hroom : min plen (s.limit - (off + s.base)).toNat = (s.limit - (off + s.base)).toNat := by omega
        have hgt : plen > (s.limit - (off + s.base)).toNat := by omega
        simp only [hp, ↓reduceIte, hroom, hgt, SwInv, toRefOut]
        refine ⟨⟨h0, h1, h2, h3, h4⟩, ?_⟩
        have e : s.base + off = off + s.base := by omega
        simp only [errName_ite, e]; split <;> simp_all [errName]
      · have hroom : min plen (s.limit - (off + s.base)).toNat = plen := by omega
        have hgt : ¬ plen > (s.limit - (off + s.base)).toNat := by omega
        simp only [hp, ↓reduceIte, hroom, hgt, SwInv, toRefOut]
        refine ⟨⟨h0, h1, h2, h3, h4⟩, ?_⟩
        have e : s.base + off = off + s.base := by omega
        simp only [errName_ite, e]; split <;> simp_all [errName] <;> rw [if_neg (by omega)]
  | seek offset whence =>
    simp only [toRefCall, RefSW.callOK, toRef, Bool.or_eq_true, decide_eq_true_eq, Bool.and_eq_true] at hc
    simp only [SectionWriter.step, SectionWriter.seek, toRefCall, RefSW.step, RefSW.seek, toRef]
    by_cases w0 : whence = 0
    · subst w0
      have hc' : -9223372036854775808 ≤ offset + s.base ∧ offset + s.base ≤ 9223372036854775807 := by
        rcases hc with (h | h) | h
        · omega
        · omega
        · simpa using h
      have hw : wrap64 (offset + s.base) = offset + s.base := wrap64_id hc'.1 hc'.2
      simp only [↓reduceIte, hw]
      by_cases hlt : offset + s.base < s.base
      · simp [hlt, SwInv, toRefOut, errName, *]
      · have hw2 : wrap64 (offset + s.base - s.base) = offset + s.base - s.base := wrap64_id (by omega) (by omega)
        simp only [hlt, ↓reduceIte, hw2, SwInv, toRefOut]
        refine ⟨⟨h0, by omega, h2, h3, by omega⟩, ?_⟩
        simp [errName]
    · by_cases w1 : whence = 1
      · subst w1
        have hc' : -9223372036854775808 ≤ offset + s.off ∧ offset + s.off ≤ 9223372036854775807 := by
          rcases hc with (h | h) | h
          · omega
          · omega
          · simpa using h
        have hw : wrap64 (offset + s.off) = offset + s.off := wrap64_id hc'.1 hc'.2
        simp only [show ¬ ((1 : Int) = 0) by omega, ↓reduceIte, hw]
        by_cases hlt : offset + s.off < s.base
        · simp [hlt, SwInv, toRefOut, errName, *]
        · have hw2 : wrap64 (offset + s.off - s.base) = offset + s.off - s.base := wrap64_id (by omega) (by omega)
          simp only [hlt, ↓reduceIte, hw2, SwInv, toRefOut, errName]
          refine ⟨⟨h0, by omega, h2, h3, by omega⟩, ?_⟩
          simp [errName]
      · by_cases w2 : whence = 2
        · subst w2
          have hc' : -9223372036854775808 ≤ offset + s.limit ∧ offset + s.limit ≤ 9223372036854775807 := by
            rcases hc with (h | h) | h
            · omega
            · omega
            · simpa using h
          have hw : wrap64 (offset + s.limit) = offset + s.limit := wrap64_id hc'.1 hc'.2
          simp only [show ¬ ((2 : Int) = 0) by omega, show ¬ ((2 : Int) = 1) by omega, ↓reduceIte, hw]
          by_cases hlt : offset + s.limit < s.base
          · simp [hlt, SwInv, toRefOut, errName, *]
          · have hw2 : wrap64 (offset + s.limit - s.base) = offset + s.limit - s.base := wrap64_id (by omega) (by omega)
            simp only [hlt, ↓reduceIte, hw2, SwInv, toRefOut, errName]
            refine ⟨⟨h0, by omega, h2, h3, by omega⟩, ?_⟩
            simp [errName]
        · have hne : whence ≠ 0 ∧ whence ≠ 1 ∧ whence ≠ 2 := ⟨w0, w1, w2⟩
          simp [w0, w1, w2, SwInv, toRefOut, errName, *]
  | size =>
    have hsz : wrap64 (s.limit - s.base) = s.limit - s.base := wrap64_id (by omega) (by omega)
    simp [SectionWriter.step, SectionWriter.size, toRefCall, RefSW.step, toRef, hsz, SwInv, toRefOut, errName, *]

/-- the model's run over a call sequence -/
def swRun (s : SectionWriter) : List SwCall → List (Ret × Option UCall)
  | [] => []
  | c :: r => let (s', ret, u) := s.step c; (ret, u) :: swRun s' r

/-- C18 (refinement): along ANY sequence of Write / WriteAt / Seek / Size calls whose requested positions are
    int64 values, with an underlying writer that may fail or write short at any call, every return value, every
    error and every call made on the underlying writer (offset and number of leading bytes of the caller's
    buffer) is exactly what the reference cursor machine predicts. -/
theorem C18_refine : ∀ (calls : List SwCall) (s : SectionWriter), SwInv s →
    (toRef s).runOK (calls.map toRefCall) = true →
    (swRun s calls).map (fun p => toRefOut p.1 p.2) = (toRef s).run (calls.map toRefCall)
  | [], _, _, _ => rfl
  | c :: r, s, hi, hok => by
    simp only [List.map_cons, RefSW.runOK, Bool.and_eq_true] at hok
    have hs := step_refines s c hi hok.1
    simp only [swRun, List.map_cons, RefSW.run]
    generalize hstep : s.step c = st at hs
    obtain ⟨s', ret, u⟩ := st
    simp only at hs
    rw [hs.2] at hok ⊢
    simp only [List.map_cons]
    rw [C18_refine r s' hs.1 hok.2]

/-- C18 (confinement): a non-empty write reaches the underlying writer only inside [base, limit) -/
theorem C18_confine (s : SectionWriter) (c : SwCall) (hi : SwInv s) (hc : (toRef s).callOK (toRefCall c) = true)
    (o : Int) (len : Nat) (hu : (s.step c).2.2 = some ⟨o, len⟩) (hl : 0 < len) :
    s.base ≤ o ∧ o + len ≤ s.limit := by
  obtain ⟨h0, h1, h2, h3, h4⟩ := hi
  cases c with
  | write plen ans =>
    simp only [SectionWriter.step, SectionWriter.write] at hu
    by_cases hge : s.off ≥ s.limit
    · simp [hge] at hu
    · have hmx : wrap64 (s.limit - s.off) = s.limit - s.off := wrap64_id (by omega) (by omega)
      simp only [hge, ↓reduceIte, hmx] at hu
      by_cases hp : (plen : Int) > s.limit - s.off
      · simp only [hp, ↓reduceIte, Option.some.injEq, UCall.mk.injEq] at hu
        omega
      · simp only [hp, ↓reduceIte, Option.some.injEq, UCall.mk.injEq] at hu
        omega
  | writeAt plen off ans =>
    simp only [toRefCall, RefSW.callOK, Bool.and_eq_true, decide_eq_true_eq, toRef] at hc
    have hsz : wrap64 (s.limit - s.base) = s.limit - s.base := wrap64_id (by omega) (by omega)
    simp only [SectionWriter.step, SectionWriter.writeAt, hsz] at hu
    by_cases hout : off < 0 ∨ off ≥ s.limit - s.base
    · simp [hout] at hu
    · have ho : wrap64 (off + s.base) = off + s.base := wrap64_id (by omega) (by omega)
      have hmx : wrap64 (s.limit - (off + s.base)) = s.limit - (off + s.base) := wrap64_id (by omega) (by omega)
      simp only [hout, ↓reduceIte, ho, hmx] at hu
      by_cases hp : (plen : Int) > s.limit - (off + s.base)
      · simp only [hp, ↓reduceIte, Option.some.injEq, UCall.mk.injEq] at hu
        omega
      · simp only [hp, ↓reduceIte, Option.some.injEq, UCall.mk.injEq] at hu
        omega
  | seek offset whence =>
    simp only [SectionWriter.step] at hu
    cases hu
  | size => simp [SectionWriter.step] at hu

/-! The reference machine says what the property says (read these off `RefSW` directly): -/

/-- ErrShortWrite, with a non-failing underlying writer: exactly when the request is truncated by,
    or starts at or beyond, the section end; the count is the number of bytes passed through. -/
theorem C18_short_write (s : RefSW) (plen accept : Nat) (ha : plen ≤ accept) :
    let o := (s.write plen accept false).2
    (o.err = some "ShortWrite" ↔ (s.off ≥ s.limit ∨ (plen : Int) > s.limit - s.off)) ∧
    (o.err = none ∨ o.err = some "ShortWrite") ∧
    o.n = (if s.off ≥ s.limit then 0 else min (plen : Int) (s.limit - s.off)) := by
  simp only [RefSW.write, refAccept]
  by_cases hge : s.off ≥ s.limit
  · simp [hge]
  · simp only [hge, ↓reduceIte, Bool.false_or, false_or]
    have hlt : ¬ accept < min plen (s.limit - s.off).toNat := by omega
    simp only [hlt, decide_false, Bool.false_eq_true, ↓reduceIte]
    by_cases hp : plen > (s.limit - s.off).toNat
    · simp [hp]; omega
    · simp [hp]; omega

theorem C18_short_writeAt (s : RefSW) (plen accept : Nat) (off : Int) (ha : plen ≤ accept) (h0 : 0 ≤ off) :
    let o := s.writeAt plen off accept false
    (o.err = some "ShortWrite" ↔ (off ≥ s.limit - s.base ∨ (plen : Int) > s.limit - s.base - off)) ∧
    (o.err = none ∨ o.err = some "ShortWrite") := by
  simp only [RefSW.writeAt, refAccept]
  by_cases hge : off < 0 ∨ off ≥ s.limit - s.base
  · have : off ≥ s.limit - s.base := by omega
    simp [hge, this]
  · simp only [hge, ↓reduceIte, Bool.false_or]
    have hlt : ¬ accept < min plen (s.limit - s.base - off).toNat := by omega
    simp only [hlt, decide_false, Bool.false_eq_true, ↓reduceIte]
    by_cases hp : plen > (s.limit - s.base - off).toNat
    · simp [hp]; omega
    · simp [hp]; omega

/-- an error of the underlying writer is propagated, with the count it reported -/
theorem C18_underlying_error (s : RefSW) (plen accept : Nat) (h : s.off < s.limit) :
    (s.write plen accept true).2.err = some "Underlying" ∧
    (s.write plen accept true).2.n = min accept (min plen (s.limit - s.off).toNat) := by
  simp [RefSW.write, refAccept, Int.not_le.mpr h]

/-- Seek: io.Seeker arithmetic relative to the section; invalid whence and positions before the start are
    rejected and leave the cursor unchanged. -/
theorem C18_seek (s : RefSW) (offset whence : Int) :
    let (s', o) := s.seek offset whence
    let target := offset + (if whence = 0 then s.base else if whence = 1 then s.off else s.limit)
    (whence ≠ 0 ∧ whence ≠ 1 ∧ whence ≠ 2 → o.err = some "Whence" ∧ s' = s) ∧
    ((whence = 0 ∨ whence = 1 ∨ whence = 2) → target < s.base → o.err = some "Offset" ∧ s' = s) ∧
    ((whence = 0 ∨ whence = 1 ∨ whence = 2) → s.base ≤ target →
        o.err = none ∧ o.n = target - s.base ∧ s'.off = target ∧ s'.base = s.base ∧ s'.limit = s.limit) := by
  simp only [RefSW.seek]
  by_cases hw : whence ≠ 0 ∧ whence ≠ 1 ∧ whence ≠ 2
  · simp [hw]
  · simp only [hw, ↓reduceIte]
    have hw' : whence = 0 ∨ whence = 1 ∨ whence = 2 := by omega
    by_cases ht : offset + (if whence = 0 then s.base else if whence = 1 then s.off else s.limit) < s.base
    · simp [ht, hw]
    · simp [ht, hw]

/-- AtToWriter(w, off) is the section from `off` to the largest int64 -/
theorem C18_atToWriter (off : Int) (h0 : 0 ≤ off) (h1 : off ≤ 9223372036854775807) :
    SwInv (atToWriter off) ∧ toRef (atToWriter off) = ⟨off, off, 9223372036854775807⟩ := by
  have e1 : wrap64 (maxOffset - off) = maxOffset - off := wrap64_id (by simp [maxOffset]; omega) (by simp [maxOffset]; omega)
  have := C18_init off (maxOffset - off) h0 (by simp [maxOffset]; omega) (by simp [maxOffset]; omega)
  simp only [atToWriter, e1]
  refine ⟨this.1, ?_⟩
  rw [this.2]; simp only [maxOffset, RefSW.mk.injEq, true_and]; omega

/-! non-vacuity: a section [5, 8): write 3 (fills it), write 1 (short), seek back 1, write 2 (truncated to 1) -/
example : (swRun (newSectionWriter 5 3) [.write 3 ⟨3, false⟩, .write 1 ⟨1, false⟩, .seek (-1) 1, .write 2 ⟨2, false⟩]).map
    (fun p => toRefOut p.1 p.2) =
    [⟨3, none, some (5, 3)⟩, ⟨0, some "ShortWrite", none⟩, ⟨2, none, none⟩, ⟨1, some "ShortWrite", some (7, 1)⟩] := by
  decide

end Low
