import LowModel.Conc
/-
  C19 -- purity and safety for concurrent readers, layer 1 (see DESIGN 7.19): the generic theorem.
  For programs whose writes all go to memory they allocated themselves (`WritesOwned`) and which read only
  shared memory or their own (`ReadsVisible`), EVERY schedule
    * leaves every shared address unchanged,
    * gives each thread exactly the local state (hence the results) of running alone for as many steps, and
    * contains no two conflicting accesses (different threads, same address, at least one write).
  That the Go functions have this shape is NOT proved here: it is the regenerated effect table
  (Generated/Effects.lean, theorems C19_effects_ok / C19_calls_ok) plus the race-detector runs.
-/
namespace Low
open Low.Conc

theorem solo_mem_other {σ} (P : Prog σ) (own : Own) (hW : WritesOwned P own) (t : Tid) (s0 : σ) (m0 : Mem) :
    ∀ k a, own a ≠ some t → (solo P t k s0 m0).2 a = m0 a
  | 0, _, _ => rfl
  | k+1, a, h => by
    have ih := solo_mem_other P own hW t s0 m0 k a h
    simp only [solo, stepT]
    split
    · exact ih
    · exact ih
    · rename_i a' v kk hn
      have := hW t _ a' v kk hn
      have hne : a ≠ a' := by intro e; subst e; exact h this
      simp [hne, ih]

/-- progress-indexed invariant: the system state is the superposition of the solo runs -/
def Inv {σ} (P : Prog σ) (own : Own) (L0 : Tid → σ) (M0 : Mem) (S : Sys σ) (k : Tid → Nat) : Prop :=
  (∀ t, S.loc t = (solo P t (k t) (L0 t) M0).1) ∧
  (∀ a, own a = none → S.mem a = M0 a) ∧
  (∀ a t, own a = some t → S.mem a = (solo P t (k t) (L0 t) M0).2 a)

theorem inv_step {σ} (P : Prog σ) (own : Own) (hW : WritesOwned P own) (hR : ReadsVisible P own)
    (L0 : Tid → σ) (M0 : Mem) (S : Sys σ) (k : Tid → Nat) (t : Tid) (h : Inv P own L0 M0 S k) :
    Inv P own L0 M0 (stepS P t S) (fun u => if u = t then k t + 1 else k u) := by
  obtain ⟨hl, hs, ho⟩ := h
  -- thread t's solo memory agrees with the system memory wherever t may look
  have hvis : ∀ a, own a = none ∨ own a = some t → S.mem a = (solo P t (k t) (L0 t) M0).2 a := by
    intro a h
    rcases h with h | h
    · rw [hs a h, solo_mem_other P own hW t (L0 t) M0 (k t) a (by simp [h])]
    · exact ho a t h
  refine ⟨?_, ?_, ?_⟩
  · intro u
    by_cases hu : u = t
    · subst hu
      simp only [stepS, ↓reduceIte, solo, hl u, stepT]
      split
      · rfl
      · rename_i a kk hn
        simp only
        rw [hvis a (hR u _ a kk hn)]
      · rfl
    · simp [stepS, hu, hl u]
  · intro a ha
    simp only [stepS, stepT]
    split
    · exact hs a ha
    · exact hs a ha
    · rename_i a' v kk hn
      have := hW t _ a' v kk hn
      have hne : a ≠ a' := by intro e; subst e; simp [ha] at this
      simp [hne, hs a ha]
  · intro a u hau
    by_cases hu : u = t
    · subst hu
      simp only [stepS, ↓reduceIte, solo, stepT, hl u]
      split
      · exact ho a u hau
      · exact ho a u hau
      · rename_i a' v kk hn
        simp only
        by_cases hx : a = a'
        · simp [hx]
        · simp [hx, ho a u hau]
    · simp only [stepS, stepT, hu, ↓reduceIte]
      split
      · exact ho a u hau
      · exact ho a u hau
      · rename_i a' v kk hn
        have := hW t _ a' v kk hn
        have hne : a ≠ a' := by
          intro e; subst e; rw [hau] at this; exact hu (Option.some.inj this)
        simp [hne, ho a u hau]

theorem inv_run {σ} (P : Prog σ) (own : Own) (hW : WritesOwned P own) (hR : ReadsVisible P own)
    (L0 : Tid → σ) (M0 : Mem) : ∀ (sched : List Tid) (S : Sys σ) (k : Tid → Nat), Inv P own L0 M0 S k →
    Inv P own L0 M0 (run P sched S) (fun u => k u + sched.count u)
  | [], S, k, h => by simpa [run] using h
  | t :: r, S, k, h => by
    have := inv_run P own hW hR L0 M0 r _ _ (inv_step P own hW hR L0 M0 S k t h)
    simp only [run]
    have e : (fun u => (if u = t then k t + 1 else k u) + List.count u r) = (fun u => k u + List.count u (t :: r)) := by
      funext u
      by_cases hu : u = t
      · subst hu; simp [List.count_cons_self]; omega
      · have : (t == u) = false := by simp [Ne.symm hu]
        simp [hu, List.count_cons, this]
    rw [e] at this
    exact this

/-- C19 (schedule independence): for every schedule, shared memory is unchanged and every thread ends in the
    local state it reaches by running ALONE for as many steps as the schedule gave it -- so every result
    equals the sequential one, whatever the interleaving. -/
theorem C19_schedule_independent {σ} (P : Prog σ) (own : Own) (hW : WritesOwned P own) (hR : ReadsVisible P own)
    (L0 : Tid → σ) (M0 : Mem) (sched : List Tid) :
    let S := run P sched ⟨M0, L0⟩
    (∀ a, own a = none → S.mem a = M0 a) ∧
    (∀ t, S.loc t = (solo P t (sched.count t) (L0 t) M0).1) := by
  have h0 : Inv P own L0 M0 ⟨M0, L0⟩ (fun _ => 0) := ⟨fun _ => rfl, fun _ _ => rfl, fun _ _ _ => rfl⟩
  have := inv_run P own hW hR L0 M0 sched _ _ h0
  simp only [Nat.zero_add] at this
  exact ⟨this.2.1, this.1⟩

/-- C19 (no conflicting access): two different threads never access the same address with at least one
    of the accesses being a write -- in any states, hence at any point of any execution. -/
theorem C19_no_conflict {σ} (P : Prog σ) (own : Own) (hW : WritesOwned P own) (hR : ReadsVisible P own)
    (t1 t2 : Tid) (s1 s2 : σ) (a : Addr) (w2 : Bool) (hne : t1 ≠ t2)
    (h1 : access P t1 s1 = some (a, true)) (h2 : access P t2 s2 = some (a, w2)) : False := by
  have o1 : own a = some t1 := by
    unfold access at h1
    split at h1
    · cases h1
    · cases h1
    · rename_i a' v k hn
      cases h1; exact hW t1 s1 a v k hn
  unfold access at h2
  split at h2
  · cases h2
  · rename_i a' k hn
    cases h2
    rcases hR t2 s2 a k hn with h | h
    · rw [o1] at h; cases h
    · rw [o1] at h; exact hne (Option.some.inj h)
  · rename_i a' v k hn
    cases h2
    have := hW t2 s2 a v k hn
    rw [o1] at this; exact hne (Option.some.inj this)

/-! non-vacuity: two threads, each summing the shared cells 0 and 1 into its own cell 10+t;
    the hypotheses hold and an interleaved schedule gives both the sequential result 7 -/
namespace C19Example
def own : Own := fun a => if a = 10 then some 0 else if a = 11 then some 1 else none
/-- local state: (program counter, accumulator) -/
def P : Prog (Nat × Nat) where
  next t s := match s.1 with
    | 0 => some (.read 0, fun v => (1, v))
    | 1 => some (.read 1, fun v => (2, s.2 + v))
    | 2 => if t ≤ 1 then some (.write (10 + t) s.2, fun _ => (3, s.2)) else none
    | _ => none
theorem hW : WritesOwned P own := by
  intro t s a v k h
  simp only [P] at h
  split at h
  · cases h
  · cases h
  · split at h
    · rename_i ht
      simp only [Option.some.injEq, Prod.mk.injEq, Act.write.injEq] at h
      obtain ⟨⟨rfl, _⟩, _⟩ := h
      match t, ht with
      | 0, _ => simp [own]
      | 1, _ => simp [own]
      | n+2, h => exact absurd h (by simp)
    · cases h
  · cases h
theorem hR : ReadsVisible P own := by
  intro t s a k h
  simp only [P] at h
  split at h
  · cases h; left; simp [own]
  · cases h; left; simp [own]
  · split at h <;> cases h
  · cases h
def M0 : Mem := fun a => if a = 0 then 3 else if a = 1 then 4 else 0
example : ((run P [0, 1, 1, 0, 0, 1] ⟨M0, fun _ => (0, 0)⟩).loc 0).2 = 7 ∧
          ((run P [0, 1, 1, 0, 0, 1] ⟨M0, fun _ => (0, 0)⟩).loc 1).2 = 7 ∧
          (run P [0, 1, 1, 0, 0, 1] ⟨M0, fun _ => (0, 0)⟩).mem 11 = 7 := by decide
end C19Example

end Low
