import LowModel
/-
  C20 -- size.Of is the structural sum of a value's parts.
  `sizeOf` follows the two switches of `sizeof` in size/sizeof.go (as repaired: uint and uintptr are scalars);
  `structSize` is the property's table.
-/
namespace Low

mutual
theorem sizeOf_eq : ∀ v : GoVal, v.supported = true → sizeOf v = some (structSize v)
  | .scalar w, _ => by simp [sizeOf, structSize]
  | .str n, _ => by simp [sizeOf, structSize]; omega
  | .arr es, h => by
    have := sizeOfList_eq es (by simpa [GoVal.supported] using h)
    simp [sizeOf, structSize, this]
  | .slice es, h => by
    have := sizeOfList_eq es (by simpa [GoVal.supported] using h)
    simp [sizeOf, structSize, this]; omega
  | .map ps, h => by
    have := sizeOfPairs_eq ps (by simpa [GoVal.supported] using h)
    simp [sizeOf, structSize, this]; omega
  | .ptr none, _ => by simp [sizeOf, structSize]
  | .ptr (some v), h => by
    have := sizeOf_eq v (by simpa [GoVal.supported] using h)
    simp [sizeOf, structSize, this]; omega
  | .iface none, _ => by simp [sizeOf, structSize]
  | .iface (some v), h => by
    have := sizeOf_eq v (by simpa [GoVal.supported] using h)
    simp [sizeOf, structSize, this]; omega
  | .struct fs, h => by
    have := sizeOfList_eq fs (by simpa [GoVal.supported] using h)
    simp [sizeOf, structSize, this]
  | .unsupported, h => by simp [GoVal.supported] at h
theorem sizeOfList_eq : ∀ l : List GoVal, supportedList l = true → sizeOfList l = some (structSizeList l)
  | [], _ => by simp [sizeOfList, structSizeList]
  | v :: r, h => by
    simp only [supportedList, Bool.and_eq_true] at h
    simp [sizeOfList, structSizeList, sizeOf_eq v h.1, sizeOfList_eq r h.2]
theorem sizeOfPairs_eq : ∀ l : List (GoVal × GoVal), supportedPairs l = true → sizeOfPairs l = some (structSizePairs l)
  | [], _ => by simp [sizeOfPairs, structSizePairs]
  | (k, v) :: r, h => by
    simp only [supportedPairs, Bool.and_eq_true] at h
    simp [sizeOfPairs, structSizePairs, sizeOf_eq k h.1.1, sizeOf_eq v h.1.2, sizeOfPairs_eq r h.2]
end

/-- size.Of returns the structural sum (and does not panic) for every value built from the supported kinds. -/
theorem C20_of (v : GoVal) (h : v.supported = true) : sizeOfTop (some v) = some (structSize v) := by
  simpa [sizeOfTop] using sizeOf_eq v h

/-- a nil argument has size 0 -/
theorem C20_nil : sizeOfTop none = some 0 := rfl

/-- the first line of Stat reports the same number for the same value -/
theorem C20_stat (v : GoVal) (h : v.supported = true) : statHeader (some v) = some (some (structSize v)) := by
  simp [statHeader, sizeOf_eq v h]

/-- the structural sum is what the property's table says, clause by clause -/
theorem C20_table :
    (∀ w, structSize (.scalar w) = w) ∧
    (∀ n, structSize (.str n) = 16 + n) ∧
    (∀ es, structSize (.slice es) = 24 + structSizeList es) ∧
    (∀ ps, structSize (.map ps) = 8 + structSizePairs ps) ∧
    (structSize (.ptr none) = 8 ∧ ∀ v, structSize (.ptr (some v)) = 8 + structSize v) ∧
    (structSize (.iface none) = 16 ∧ ∀ v, structSize (.iface (some v)) = 16 + structSize v) ∧
    (∀ es, structSize (.arr es) = structSizeList es) ∧
    (∀ fs, structSize (.struct fs) = structSizeList fs) ∧
    (structSizeList [] = 0 ∧ ∀ v r, structSizeList (v :: r) = structSize v + structSizeList r) ∧
    (structSizePairs [] = 0 ∧ ∀ k v r, structSizePairs ((k, v) :: r) = structSize k + structSize v + structSizePairs r) := by
  simp [structSize, structSizeList, structSizePairs]

/-- additivity: a slice of `xs ++ ys` costs one header plus both parts -/
theorem structSizeList_append (xs ys : List GoVal) :
    structSizeList (xs ++ ys) = structSizeList xs + structSizeList ys := by
  induction xs with
  | nil => simp [structSizeList]
  | cons x r ih => simp [structSizeList, ih]; omega

theorem C20_slice_append (xs ys : List GoVal) (h : (GoVal.slice (xs ++ ys)).supported = true) :
    sizeOfTop (some (.slice (xs ++ ys))) = some (24 + structSizeList xs + structSizeList ys) := by
  rw [C20_of _ h]; simp [structSize, structSizeList_append]; omega

/-! non-vacuity: []struct{ P *int32; S string }{{nil, "ab"}, {new(int32), ""}} -/
example : sizeOfTop (some (.slice [.struct [.ptr none, .str 2], .struct [.ptr (some (.scalar 4)), .str 0]])) = some 78 := by
  decide
example : (GoVal.slice [.struct [.ptr none, .str 2], .struct [.ptr (some (.scalar 4)), .str 0]]).supported = true := by
  decide

end Low
