import LowProofs.Lemmas.C11
import LowProofs.Props.C10
/-
  C11 -- FromStr32/PathOf extract exactly the requested bits of a string.
  Strings are byte lists `s : List Nat` with `BytesOK s` (every byte < 256); `bitsBE s` is the specification of
  "the bits of s, most significant bit of each byte first". Natural subtraction clamps at 0, so
  `min (8 * s.length - frm) w` is `clamp (8*len(s) - from, 0, w)`.
  A w-bit value "whose top k bits are bits [frm, frm+k) of s and whose other bits are 0" is stated as
  `bitsVal (those k bits ++ (w - k) zeros)` (`bitsVal` = big-endian value of a bit list).
  Only the property theorems and their non-vacuity examples live here.
-/
namespace Low
open Low.C10L Low.C11L

/-- FromStr32 returns `k = clamp (8|s| - frm, 0, w)` and the `w`-bit value whose top `k` bits are bits
    `[frm, frm+k)` of `s` and whose remaining `w - k` bits are 0. -/
theorem C11_fromStr32 {s : List Nat} (hs : BytesOK s) (frm w : Nat) (hw : w ≤ 32) :
    fromStr32 s frm (frm + w) =
      (min (8 * s.length - frm) w,
       bitsVal (((bitsBE s).drop frm).take (min (8 * s.length - frm) w) ++
         List.replicate (w - min (8 * s.length - frm) w) false)) := by
  unfold fromStr32
  simp only []
  have e1 : frm + w - frm = w := by omega
  have e2 : frm + w - frm / 8 * 8 = w + frm % 8 := by omega
  rw [e1, e2]
  by_cases hk : min (8 * s.length - frm) w = 0
  · have hb : (if (s.length * 8 - frm : Int) > w then (w : Int) else s.length * 8 - frm) ≤ 0 := by
      split <;> omega
    rw [if_pos hb, hk]
    simp [bitsVal_replicate_false]
  · have hb : ¬ (if (s.length * 8 - frm : Int) > w then (w : Int) else s.length * 8 - frm) ≤ 0 := by
      split <;> omega
    rw [if_neg hb]
    refine Prod.ext ?_ ?_
    · show Int.toNat _ = _
      split <;> omega
    · show shr64 _ _ &&& mask w = _
      rw [gather_rd, shr64, if_pos (by omega), mask, Nat.and_two_pow_sub_one_eq_mod]
      exact value_eq hs frm w _ hw (by split <;> omega)

/-- "abc" = 61 62 63: bits 4..15 are 0001 0110 0010; a 12-bit window starting at bit 20 runs off the end after 4 bits -/
example : fromStr32 [0x61, 0x62, 0x63] 4 16 = (12, 0b000101100010)
    ∧ fromStr32 [0x61, 0x62, 0x63] 20 32 = (4, 0b001100000000)
    ∧ fromStr32 [0x61, 0x62, 0x63] 30 40 = (0, 0) := by decide
example : (min (8 * [0x61, 0x62, 0x63].length - 20) 12,
    bitsVal (((bitsBE [0x61, 0x62, 0x63]).drop 20).take (min (8 * [0x61, 0x62, 0x63].length - 20) 12) ++
      List.replicate (12 - min (8 * [0x61, 0x62, 0x63].length - 20) 12) false)) = (4, 0b001100000000) := by decide

/-- The same statement bit by bit, without `bitsVal`: the value has `w` bits; for `j < k` its bit `w-1-j`
    (counting from the least significant) is bit `frm + j` of the string; for `k ≤ j < w` it is 0. -/
theorem C11_fromStr32_bits {s : List Nat} (hs : BytesOK s) (frm w : Nat) (hw : w ≤ 32) :
    (fromStr32 s frm (frm + w)).1 = min (8 * s.length - frm) w ∧
    (fromStr32 s frm (frm + w)).2 < 2 ^ w ∧
    (∀ j, j < min (8 * s.length - frm) w →
      (bitsBE s)[frm + j]? = some ((fromStr32 s frm (frm + w)).2.testBit (w - 1 - j))) ∧
    (∀ j, min (8 * s.length - frm) w ≤ j → j < w → (fromStr32 s frm (frm + w)).2.testBit (w - 1 - j) = false) := by
  rw [C11_fromStr32 hs frm w hw]
  generalize hk : min (8 * s.length - frm) w = k
  generalize hL : ((bitsBE s).drop frm).take k ++ List.replicate (w - k) false = L
  have hlt : (((bitsBE s).drop frm).take k).length = k := by simp [bitsBE_length]; omega
  have hlen : L.length = w := by rw [← hL, List.length_append, hlt]; simp; omega
  refine ⟨rfl, ?_, ?_, ?_⟩
  · have := bitsVal_lt L; rwa [hlen] at this
  · intro j hj
    have hin : frm + j < (bitsBE s).length := by rw [bitsBE_length]; omega
    have e : w - 1 - (w - 1 - j) = j := by omega
    have hw' : w - 1 - j < w := by omega
    show _ = some ((bitsVal L).testBit _)
    rw [testBit_bitsVal, hlen, e, ← hL, List.getElem?_append, hlt, if_pos hj, List.getElem?_take_of_lt hj,
      List.getElem?_drop, List.getElem?_eq_getElem hin]
    simp [hw']
  · intro j hj hjw
    have e : w - 1 - (w - 1 - j) = j := by omega
    have hr : j - k < w - k := by omega
    show (bitsVal L).testBit _ = false
    rw [testBit_bitsVal, hlen, e, ← hL, List.getElem?_append, hlt, if_neg (by omega)]
    simp [hr]

example : (bitsBE [0x61, 0x62, 0x63])[20 + 2]? = some ((fromStr32 [0x61, 0x62, 0x63] 20 (20 + 12)).2.testBit (12 - 1 - 2)) :=
  (C11_fromStr32_bits (by simp [BytesOK]) 20 12 (by decide)).2.2.1 2 (by decide)

/-- PathOf is the path word of height `h` of the node spelled by bits `[frm, frm+k)` of `s`. -/
theorem C11_pathOf {s : List Nat} (hs : BytesOK s) (frm h : Nat) (hh : h ≤ 32) :
    pathOf s frm h = encPath h (((bitsBE s).drop frm).take (min (8 * s.length - frm) h)) := by
  generalize hT : ((bitsBE s).drop frm).take (min (8 * s.length - frm) h) = T
  have hlen : T.length = min (8 * s.length - frm) h := by
    rw [← hT]; simp [bitsBE_length]
  have hl : T.length ≤ h := by omega
  simp only [pathOf, C11_fromStr32 hs frm h hh, hT]
  rw [← hlen, bitsVal_append, bitsVal_replicate_false, List.length_replicate, Nat.add_zero, ← Nat.shiftLeft_eq]
  exact C10_newPath hh hl

example : pathOf [0x61, 0x62, 0x63] 20 12 = encPath 12 [false, false, true, true] := by decide

/-- Hence PathStr (PathOf s frm h) is the bit string `s[frm, frm+k)`. -/
theorem C11_pathStr {s : List Nat} (hs : BytesOK s) (frm h : Nat) (hh : h ≤ 32) :
    pathStr (pathOf s frm h) =
      String.ofList ((((bitsBE s).drop frm).take (min (8 * s.length - frm) h)).map
        (fun b => if b then '1' else '0')) := by
  rw [C11_pathOf hs frm h hh]
  exact C10_str hh (by simp [bitsBE_length]; omega)

example : pathStr (pathOf [0x61, 0x62, 0x63] 20 12) = "0011" := by
  rw [C11_pathStr (by simp [BytesOK]) 20 12 (by decide)]; decide

/-- SPEC: `adjDedupFrom prev ps` drops every element of `ps` equal to its predecessor, `prev` preceding the head -/
def adjDedupFrom (prev : Nat) : List Nat → List Nat
  | [] => []
  | x :: r => if x = prev then adjDedupFrom x r else x :: adjDedupFrom x r

/-- SPEC: drop every element equal to its predecessor (the head has none and is kept) -/
def adjDedup : List Nat → List Nat
  | [] => []
  | x :: r => x :: adjDedupFrom x r

example : adjDedup [1, 1, 2, 2, 2, 1, 3, 3] = [1, 2, 1, 3] := by decide

theorem pathsOfGo_nodedup (frm h : Nat) : ∀ (keys : List (List Nat)) (prev : Option Nat),
    pathsOfGo frm h false keys prev = keys.map (fun s => pathOf s frm h)
  | [], _ => rfl
  | s :: r, prev => by simp [pathsOfGo, pathsOfGo_nodedup frm h r]

theorem pathsOfGo_dedup (frm h : Nat) : ∀ (keys : List (List Nat)) (q : Nat),
    pathsOfGo frm h true keys (some q) = adjDedupFrom q (keys.map (fun s => pathOf s frm h))
  | [], _ => rfl
  | s :: r, q => by
    by_cases e : pathOf s frm h = q
    · simp [pathsOfGo, adjDedupFrom, pathsOfGo_dedup frm h r, e]
    · have e' : ¬ q = pathOf s frm h := fun x => e x.symm
      simp [pathsOfGo, adjDedupFrom, pathsOfGo_dedup frm h r, e, e']

/-- PathsOf maps PathOf over the keys and, when `dedup`, drops every path equal to its predecessor.
    (No hypothesis on keys, frm, h is needed: this is about the loop. It is a theorem of the repaired loop only,
    see DESIGN 7.11 / finding D4.) -/
theorem C11_pathsOf (keys : List (List Nat)) (frm h : Nat) (dedup : Bool) :
    pathsOf keys frm h dedup =
      (if dedup then adjDedup (keys.map (fun s => pathOf s frm h)) else keys.map (fun s => pathOf s frm h)) := by
  cases dedup
  · simp [pathsOf, pathsOfGo_nodedup]
  · cases keys with
    | nil => rfl
    | cons s r => simp [pathsOf, pathsOfGo, adjDedup, pathsOfGo_dedup]

example : pathsOf [[0x61], [0x61, 0x00], [0x62], [0x62], [0x61]] 0 8 true = [0x61000000ff, 0x62000000ff, 0x61000000ff]
    ∧ pathsOf [[0x61], [0x61, 0x00], [0x62]] 0 8 false = [0x61000000ff, 0x61000000ff, 0x62000000ff] := by decide
/-- the case the unrepaired loop got wrong: height 32, first key of 32 one-bits -/
example : pathsOf [[0xff, 0xff, 0xff, 0xff]] 0 32 true = [0xffffffffffffffff] := by decide

end Low
