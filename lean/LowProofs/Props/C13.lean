import LowProofs.Lemmas.C13
/-
  C13 -- NextOne/PrevOne find the nearest 1-bit inside a range.
  Only the property theorems and their non-vacuity examples live here; helpers are in Lemmas/C13.lean.
  (The model uses unbounded naturals; it represents the int32 code for `BmDom ws`, see DESIGN 3.1.
   No theorem below needs `BmDom` as a hypothesis: the model has no overflow to exclude.
   The hypotheses are the property's quantifier domain; those named `_h…` are part of that domain but
   are not needed by the proof, i.e. the model satisfies the conclusion without them.)
-/
namespace Low
open Low.C13L

/-- NextOne(bm, i, end), for `0 ≤ i ≤ end ≤ 64*len(bm)` and `i` inside the bitmap: does not panic and
    returns `-1` exactly when `[i, end)` holds no 1-bit, otherwise the smallest position of a 1-bit in `[i, end)`. -/
theorem C13_next (ws : List Nat) (i e : Nat) (hok : WordsOK ws)
    (_hie : i ≤ e) (he : e ≤ 64 * ws.length) (hi : i < 64 * ws.length) :
    ∃ r : Int, nextOne ws i e = some r ∧
      ((r = -1 ∧ ∀ p, i ≤ p → p < e → bitAt ws p = false) ∨
       (∃ q : Nat, r = (q : Int) ∧ i ≤ q ∧ q < e ∧ bitAt ws q = true ∧
          ∀ p, i ≤ p → p < q → bitAt ws p = false)) := by
  have hk : i / 64 < ws.length := by omega
  have hw : ws[i / 64]? = some ws[i / 64] := List.getElem?_eq_getElem hk
  obtain ⟨nxt, hn, hspec⟩ := nextOne_scan hok (i := i) he hw
  rw [nextOne_eq hw, hn, Option.bind_some]
  rcases hspec with ⟨hrn, hall⟩ | ⟨q, hq, hq1, hq2, hq3⟩
  · subst hrn
    exact ⟨-1, rfl, Or.inl ⟨rfl, hall⟩⟩
  · subst hq
    by_cases hqe : q ≥ e
    · refine ⟨-1, by simp [hqe], Or.inl ⟨rfl, ?_⟩⟩
      intro p h1 h2
      exact hq3 p h1 (by omega)
    · refine ⟨(q : Int), by simp [hqe], Or.inr ⟨q, rfl, hq1, by omega, hq2, hq3⟩⟩

/-- PrevOne(bm, i, end), for `0 ≤ i ≤ end ≤ 64*len(bm)`, `i` inside the bitmap and `end ≥ 1`: does not panic and
    returns `-1` exactly when `[i, end)` holds no 1-bit, otherwise the largest position of a 1-bit in `[i, end)`. -/
theorem C13_prev (ws : List Nat) (i e : Nat) (hok : WordsOK ws)
    (_hie : i ≤ e) (he : e ≤ 64 * ws.length) (_hi : i < 64 * ws.length) (he1 : 1 ≤ e) :
    ∃ r : Int, prevOne ws i e = some r ∧
      ((r = -1 ∧ ∀ p, i ≤ p → p < e → bitAt ws p = false) ∨
       (∃ q : Nat, r = (q : Int) ∧ i ≤ q ∧ q < e ∧ bitAt ws q = true ∧
          ∀ p, q < p → p < e → bitAt ws p = false)) := by
  have hk : (e - 1) / 64 < ws.length := by omega
  have hw : ws[(e - 1) / 64]? = some ws[(e - 1) / 64] := List.getElem?_eq_getElem hk
  obtain ⟨prv, hn, hspec⟩ := prevOne_scan hok (i := i) (e1 := e - 1) hw
  have hne : ¬ e = 0 := by omega
  rw [prevOne_eq hne hw, hn, Option.bind_some]
  rcases hspec with ⟨hrn, hall⟩ | ⟨q, hq, hq1, hq2, hq3⟩
  · subst hrn
    refine ⟨-1, rfl, Or.inl ⟨rfl, ?_⟩⟩
    intro p h1 h2; exact hall p h1 (by omega)
  · subst hq
    by_cases hqi : q < i
    · refine ⟨-1, by simp [hqi], Or.inl ⟨rfl, ?_⟩⟩
      intro p h1 h2
      exact hq3 p (by omega) (by omega)
    · refine ⟨(q : Int), by simp [hqi], Or.inr ⟨q, rfl, by omega, by omega, hq2, ?_⟩⟩
      intro p h1 h2; exact hq3 p h1 (by omega)

/-! ### non-vacuity: concrete evaluations (multi-word skip, clipping, empty range, word boundaries) -/

-- skips two all-zero words, finds bit 63 of word 2
example : nextOne [1, 0, 0, 2^63] 1 256 = some 255 := by decide
-- hit beyond `end` is clipped to -1
example : nextOne [1, 0, 0, 2^63] 1 255 = some (-1) := by decide
-- i on a word boundary, first word re-read
example : nextOne [0, 6] 64 128 = some 65 := by decide
example : prevOne [1, 0, 0, 2^63] 0 255 = some 0 := by decide
example : prevOne [1, 0, 0, 2^63] 1 255 = some (-1) := by decide
example : prevOne [6, 0] 0 128 = some 2 := by decide
-- the hypotheses of the theorems are satisfiable on such an input
example : ∃ r : Int, nextOne [1, 0, 0, 2^63] 1 256 = some r ∧
      ((r = -1 ∧ ∀ p, 1 ≤ p → p < 256 → bitAt [1, 0, 0, 2^63] p = false) ∨
       (∃ q : Nat, r = (q : Int) ∧ 1 ≤ q ∧ q < 256 ∧ bitAt [1, 0, 0, 2^63] q = true ∧
          ∀ p, 1 ≤ p → p < q → bitAt [1, 0, 0, 2^63] p = false)) :=
  C13_next [1, 0, 0, 2^63] 1 256 (by intro w hw; simp at hw; rcases hw with h | h | h <;> subst h <;> decide)
    (by decide) (by decide) (by decide)
example : ∃ r : Int, prevOne [1, 0, 0, 2^63] 0 255 = some r ∧
      ((r = -1 ∧ ∀ p, 0 ≤ p → p < 255 → bitAt [1, 0, 0, 2^63] p = false) ∨
       (∃ q : Nat, r = (q : Int) ∧ 0 ≤ q ∧ q < 255 ∧ bitAt [1, 0, 0, 2^63] q = true ∧
          ∀ p, q < p → p < 255 → bitAt [1, 0, 0, 2^63] p = false)) :=
  C13_prev [1, 0, 0, 2^63] 0 255 (by intro w hw; simp at hw; rcases hw with h | h | h <;> subst h <;> decide)
    (by decide) (by decide) (by decide) (by decide)

end Low
