import LowProofs.Lemmas.C10Order
/-
  C10 -- Path words are self-consistent and their numeric order is pre-order.
  Nodes are branch lists `n : List Bool` (`false` = left, root = `[]`); `encPath h n` (LowModel/Spec.lean) is the
  specification of the path word; `bitsVal n <<< (h - n.length)` is "the prefix left-aligned in h bits".
  Every l-bit prefix is `bitsVal n` of exactly one `n` of length `l`, so quantifying over `n` covers
  "all heights h ≤ 32, all lengths l ≤ h, all l-bit prefixes".
  Only the property theorems and their non-vacuity examples live here.
-/
namespace Low
open Low.C10L

/-- NewPath of the left-aligned prefix is the specified path word. -/
theorem C10_newPath {h : Nat} {n : List Bool} (hh : h ≤ 32) (hl : n.length ≤ h) :
    newPath (bitsVal n <<< (h - n.length)) n.length h = encPath h n := by
  have hlo : lo h n.length < 2 ^ 64 :=
    Nat.lt_of_lt_of_le (lo_lt hl) (Nat.pow_le_pow_right (by omega) (by omega))
  have hhi : hi h n * 2 ^ 32 < 2 ^ 64 := by
    have h1 := hi_lt hl
    have h2 : 2 ^ h * 2 ^ 32 ≤ 2 ^ 64 := by
      rw [← Nat.pow_add]; exact Nat.pow_le_pow_right (by omega) (by omega)
    have h3 : hi h n * 2 ^ 32 < 2 ^ h * 2 ^ 32 := Nat.mul_lt_mul_of_lt_of_le h1 (Nat.le_refl _) (Nat.two_pow_pos _)
    omega
  have e64 : M64 = 2 ^ 64 := by decide
  have s1 : h - n.length < 64 := by omega
  simp only [newPath, shl64, mask, encPath, s1, if_true, show (32 : Nat) < 64 by omega, e64]
  rw [Nat.shiftLeft_eq, Nat.shiftLeft_eq, Nat.shiftLeft_eq]
  show (hi h n * 2 ^ 32) % 2 ^ 64 ||| lo h n.length % 2 ^ 64 = hi h n * 2 ^ 32 ||| lo h n.length
  rw [Nat.mod_eq_of_lt hhi, Nat.mod_eq_of_lt hlo]

example : newPath (bitsVal [true, false, true] <<< (5 - 3)) 3 5 = 0x140000001c
    ∧ encPath 5 [true, false, true] = 0x140000001c := by decide

/-- PathLen of a path word is the length of the node. -/
theorem C10_len {h : Nat} {n : List Bool} (hh : h ≤ 32) (hl : n.length ≤ h) :
    pathLen (encPath h n) = n.length := by
  have e32 : M32 = 2 ^ 32 := by decide
  rw [pathLen, e32, encPath_mod hh hl, popc_lo hh hl]

example : pathLen (encPath 5 [true, false, true]) = 3 := by decide

/-- PathHeight of a non-root path word is the tree height. -/
theorem C10_height {h : Nat} {n : List Bool} (hh : h ≤ 32) (hl : n.length ≤ h) (hn : n ≠ []) :
    pathHeight (encPath h n) = h := by
  have e32 : M32 = 2 ^ 32 := by decide
  have hp : 0 < n.length := List.length_pos_iff.mpr hn
  rw [pathHeight, e32, encPath_mod hh hl, lz, bitLen_lo hh hl hp]; omega

example : pathHeight (encPath 5 [true, false, true]) = 5 := by decide
/-- the root is excluded for a reason: its word is 0 whatever the height -/
example : pathHeight (encPath 5 []) = 0 := by decide

/-- PathBits / PathMask are the upper / lower 32-bit halves of any word ... -/
theorem C10_halves_word (p : Nat) : pathBits p = p >>> 32 ∧ pathMask p = p % 2 ^ 32 := by
  refine ⟨rfl, ?_⟩
  rw [pathMask, show (0xffffffff : Nat) = 2 ^ 32 - 1 by decide, Nat.and_two_pow_sub_one_eq_mod]

/-- ... and for a path word these halves are the left-aligned prefix and the left-aligned run of `|n|` ones. -/
theorem C10_halves {h : Nat} {n : List Bool} (hh : h ≤ 32) (hl : n.length ≤ h) :
    pathBits (encPath h n) = bitsVal n <<< (h - n.length) ∧
    pathMask (encPath h n) = (2 ^ n.length - 1) <<< (h - n.length) := by
  rw [(C10_halves_word _).1, (C10_halves_word _).2, encPath_shr hh hl, encPath_mod hh hl,
    Nat.shiftLeft_eq, Nat.shiftLeft_eq]
  exact ⟨rfl, rfl⟩

example : pathBits (encPath 5 [true, false, true]) = 0b10100 ∧ pathMask (encPath 5 [true, false, true]) = 0b11100 := by
  decide

/-- PathStr renders exactly the branch bits of the node (the empty string for the root). -/
theorem C10_str {h : Nat} {n : List Bool} (hh : h ≤ 32) (hl : n.length ≤ h) :
    pathStr (encPath h n) = String.ofList (n.map (fun b => if b then '1' else '0')) := by
  cases n with
  | nil => simp [pathStr, C10_len hh hl]
  | cons x a =>
    have hlen := C10_len hh hl
    have hhei := C10_height hh hl (by simp)
    have hne : (x :: a).length ≠ 0 := by simp
    have s1 : 32 + h - (x :: a).length < 64 := by
      have : 0 < (x :: a).length := by simp
      omega
    have e : 32 + h - (x :: a).length = 32 + (h - (x :: a).length) := by omega
    have hv : encPath h (x :: a) >>> (32 + h - (x :: a).length) = bitsVal (x :: a) := by
      rw [e, Nat.shiftRight_add, encPath_shr hh hl, hi, Nat.shiftRight_eq_div_pow,
        Nat.mul_div_cancel _ (Nat.two_pow_pos _)]
    simp only [pathStr, hlen, hhei, hne, if_false, shr64, s1, if_true, hv, fmtBin_eq]
    rw [show (x :: a).length = a.length + 1 from rfl, pad_bitsVal a.length (x :: a) rfl]
    rfl

example : pathStr (encPath 5 [true, false, true]) = "101" ∧ pathStr (encPath 5 []) = "" := by
  constructor
  · rw [C10_str (by decide) (by decide)]; rfl
  · rw [C10_str (by decide) (by decide)]; rfl

/-- Among path words of one height, unsigned numeric order is pre-order of the nodes
    (`lexCmp`: a proper prefix, i.e. an ancestor, first; then left before right). -/
theorem C10_order {h : Nat} {a b : List Bool} (hh : h ≤ 32) (ha : a.length ≤ h) (hb : b.length ≤ h) :
    (encPath h a < encPath h b ↔ lexCmp a b = -1) :=
  encPath_lt_iff a b h hh ha hb

example : encPath 3 [false, true] < encPath 3 [true] ∧ lexCmp [false, true] [true] = -1 := by decide

/-- Corollary: distinct nodes have distinct path words. -/
theorem C10_inj {h : Nat} {a b : List Bool} (hh : h ≤ 32) (ha : a.length ≤ h) (hb : b.length ≤ h)
    (e : encPath h a = encPath h b) : a = b := by
  have h1 := (C10_order hh ha hb).mpr
  have h2 := (C10_order hh hb ha).mpr
  rcases lexCmp_trichotomy a b with t | t | t
  · have := h1 t; omega
  · exact lexCmp_eq_zero a b t
  · have := h2 t; omega

/-- Corollary: a node sorts before all its descendants. -/
theorem C10_ancestor_first {h : Nat} {a d : List Bool} (hh : h ≤ 32) (hl : (a ++ d).length ≤ h) (hd : d ≠ []) :
    encPath h a < encPath h (a ++ d) :=
  (C10_order hh (by simp at hl; omega) hl).mpr (lexCmp_prefix a d hd)

/-- Corollary: the whole left subtree of a node sorts before its whole right subtree. -/
theorem C10_left_before_right {h : Nat} {a x y : List Bool} (hh : h ≤ 32)
    (hx : (a ++ false :: x).length ≤ h) (hy : (a ++ true :: y).length ≤ h) :
    encPath h (a ++ false :: x) < encPath h (a ++ true :: y) :=
  (C10_order hh hx hy).mpr (lexCmp_branch a x y)

example : encPath 4 [true] < encPath 4 ([true] ++ [false, true]) :=
  C10_ancestor_first (by decide) (by decide) (by decide)
example : encPath 4 ([true] ++ false :: [true, true]) < encPath 4 ([true] ++ true :: []) :=
  C10_left_before_right (by decide) (by decide) (by decide)

end Low
