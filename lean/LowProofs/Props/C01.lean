import LowProofs.Lemmas.Count
/-
  C01 -- Rank is exact: Rank64/Rank128 count the 1-bits before any position.
  Only the property theorems and their non-vacuity examples live here.
  (The model uses unbounded naturals; it represents the int32 code for `BmDom ws`, see DESIGN 3.1.)
-/
namespace Low

theorem indexRank64Go_spec (t : Bool) : ∀ (ws pre : List Nat),
    indexRank64Go t ws (rank (pre ++ ws) (64 * pre.length)) =
      (List.range' pre.length (ws.length + t.toNat)).map (fun k => rank (pre ++ ws) (64 * k))
  | [], pre => by cases t <;> simp [indexRank64Go]
  | w :: r, pre => by
    have hw := getElem?_append_mid pre w r
    have hr := rank_word hw 64 (by omega)
    have ih := indexRank64Go_spec t r (pre ++ [w])
    simp only [List.append_assoc, List.singleton_append, List.length_append, List.length_singleton] at ih
    have e : 64 * (pre.length + 1) = 64 * pre.length + 64 := by omega
    rw [e, hr] at ih
    simp only [indexRank64Go, ih, List.length_cons]
    have e2 : r.length + 1 + t.toNat = (r.length + t.toNat) + 1 := by omega
    rw [e2, List.range'_succ]; simp

/-- IndexRank64: one entry per word, entry k = number of 1-bits before position 64k,
    plus a final grand-total entry when `trailing`. -/
theorem C01_indexRank64 (ws : List Nat) (t : Bool) :
    indexRank64 ws t = (List.range (ws.length + t.toNat)).map (fun k => rank ws (64 * k)) := by
  have := indexRank64Go_spec t ws []
  simpa [indexRank64, rank, List.range_eq_range'] using this

theorem indexRank128Go_spec : ∀ (ws pre : List Nat), pre.length % 2 = 0 →
    indexRank128Go ws (rank (pre ++ ws) (64 * pre.length)) =
      (List.range' (pre.length / 2) (ws.length / 2 + 1)).map (fun k => rank (pre ++ ws) (128 * k))
  | [], pre, h => by
    have e : 128 * (pre.length / 2) = 64 * pre.length := by omega
    simp [indexRank128Go, e]
  | [w], pre, h => by
    have e : 128 * (pre.length / 2) = 64 * pre.length := by omega
    simp [indexRank128Go, e]
  | w0 :: w1 :: r, pre, h => by
    have hw0 := getElem?_append_mid pre w0 (w1 :: r)
    have hw1 : (pre ++ w0 :: w1 :: r)[pre.length + 1]? = some w1 := by
      have := getElem?_append_mid (pre ++ [w0]) w1 r
      simpa using this
    have hr0 := rank_word hw0 64 (by omega)
    have hr1 := rank_word hw1 64 (by omega)
    have ih := indexRank128Go_spec r (pre ++ [w0, w1]) (by simp; omega)
    simp only [List.append_assoc, List.cons_append, List.nil_append, List.length_append, List.length_cons, List.length_nil] at ih
    have e : 64 * (pre.length + (0 + 1 + 1)) = 64 * (pre.length + 1) + 64 := by omega
    have e' : 64 * (pre.length + 1) = 64 * pre.length + 64 := by omega
    have e2 : (r.length + 1 + 1) / 2 + 1 = (r.length / 2 + 1) + 1 := by omega
    have e3 : (pre.length + (0 + 1 + 1)) / 2 = pre.length / 2 + 1 := by omega
    have e4 : 128 * (pre.length / 2) = 64 * pre.length := by omega
    rw [e, hr1, e', hr0, e3] at ih
    simp only [indexRank128Go, ih, List.length_cons]
    rw [e2, show List.range' (pre.length / 2) (r.length / 2 + 1 + 1) =
      pre.length / 2 :: List.range' (pre.length / 2 + 1) (r.length / 2 + 1) from List.range'_succ, List.map_cons, e4]

/-- IndexRank128: len/2+1 entries, entry k = number of 1-bits before position 128k. -/
theorem C01_indexRank128 (ws : List Nat) :
    indexRank128 ws = (List.range (ws.length / 2 + 1)).map (fun k => rank ws (128 * k)) := by
  have := indexRank128Go_spec ws [] (by simp)
  simpa [indexRank128, rank, List.range_eq_range'] using this

/-- Rank64 with the index built by IndexRank64 (either value of `trailing`) returns exactly
    (number of 1-bits before i, bit i), and does not panic, for every position inside the bitmap. -/
theorem C01_rank64 (ws : List Nat) (t : Bool) (i : Nat) (hi : i < 64 * ws.length) :
    rank64 ws (indexRank64 ws t) i = some (rank ws i, (bitAt ws i).toNat) := by
  have hk : i / 64 < ws.length := by omega
  have hw : ws[i / 64]? = some ws[i / 64] := List.getElem?_eq_getElem hk
  have hidx : (indexRank64 ws t)[i / 64]? = some (rank ws (64 * (i / 64))) := by
    rw [C01_indexRank64, List.getElem?_map, List.getElem?_range (by omega)]; rfl
  have hr := rank_word hw (i % 64) (by omega)
  have e : 64 * (i / 64) + i % 64 = i := by omega
  rw [e] at hr
  simp only [rank64, hidx, hw, Option.bind_eq_bind, Option.bind_some, popc_and_mask,
    shiftRight_mod_two, bitAt_eq hw]
  have : min 64 (i % 64) = i % 64 := by omega
  rw [this, hr]

/-- Rank128 with the index built by IndexRank128 returns exactly (number of 1-bits before i, bit i). -/
theorem C01_rank128 (ws : List Nat) (i : Nat) (hi : i < 64 * ws.length) :
    rank128 ws (indexRank128 ws) i = some ((rank ws i : Int), (bitAt ws i).toNat) := by
  have hk : i / 64 < ws.length := by omega
  have hw : ws[i / 64]? = some ws[i / 64] := List.getElem?_eq_getElem hk
  have hidx : (indexRank128 ws)[(i + 64) / 128]? = some (rank ws (128 * ((i + 64) / 128))) := by
    rw [C01_indexRank128, List.getElem?_map, List.getElem?_range (by omega)]; rfl
  have hr := rank_word hw (i % 64) (by omega)
  have hr64 := rank_word hw 64 (by omega)
  have e : 64 * (i / 64) + i % 64 = i := by omega
  rw [e] at hr
  simp only [rank128, hidx, hw, Option.bind_eq_bind, Option.bind_some, popc_and_mask,
    shiftRight_mod_two, bitAt_eq hw]
  have hmin : min 64 (i % 64) = i % 64 := by omega
  rw [hmin]
  rcases Nat.mod_two_eq_zero_or_one (i / 64) with hp | hp
  · have e1 : 128 * ((i + 64) / 128) = 64 * (i / 64) := by omega
    rw [e1, hp, hr]; simp
  · have e1 : 128 * ((i + 64) / 128) = 64 * (i / 64) + 64 := by omega
    rw [e1, hp, hr64, hr]; simp

/-! non-vacuity: a concrete two-word bitmap and positions in both halves of a 128-bit block -/
example : rank64 [5, 2^63] (indexRank64 [5, 2^63] true) 127 = some (2, 1) := by decide
example : rank128 [5, 2^63] (indexRank128 [5, 2^63]) 64 = some (2, 0) := by decide
example : indexRank128 [1, 3, 7] = [0, 3] ∧ indexRank64 [1, 3, 7] true = [0, 1, 3, 6] := by decide

end Low
