import LowProofs.Lemmas.C16Main
/-
  C16 -- sigbits: first-difference bits and prefix counts match the keys' bit strings.
  Only the property theorems and their non-vacuity examples live here; helpers are in Lemmas/C16*.lean.
  Keys are `List Nat` with `BytesOK` (every element `< 256`).
-/
namespace Low
open Low.C16L

/-- `sFirstDiffBit a b` is the length of the longest common prefix of the two big-endian bit strings:
    the index of the first differing bit, or `8 * min len` when one key is a byte prefix of the other. -/
theorem C16_sFirstDiffBit (a b : List Nat) (ha : BytesOK a) (hb : BytesOK b) :
    sFirstDiffBit a b = fdSpec a b :=
  sFirstDiffBit_eq ha hb

/-- the reading of `fdSpec` used in the English statement: when `a` is a byte prefix of `b` (or the
    reverse) the value is `8 * min len`; otherwise it is a bit position inside the shorter key at which the
    keys differ, all earlier bits being equal. -/
theorem C16_fdSpec_prefix (a t : List Nat) : fdSpec a (a ++ t) = 8 * a.length ∧ fdSpec (a ++ t) a = 8 * a.length := by
  have h : fdSpec a (a ++ t) = 8 * a.length := by
    have := lcp_append_left (bitsBE a) [] (bitsBE t)
    simp only [List.append_nil, lcp_nil_left] at this
    simp only [fdSpec, bitsBE_append, this, bitsBE_length]; omega
  refine ⟨h, ?_⟩
  simp only [fdSpec] at h ⊢
  rw [lcp_comm]; exact h

/-- reading of `fdSpec`, continued: the keys agree on the first `fdSpec a b` bits, and when that position lies
    inside both keys the bits there differ (so it is the index of the first differing bit). -/
theorem C16_fdSpec_first_diff (a b : List Nat) :
    (bitsBE a).take (fdSpec a b) = (bitsBE b).take (fdSpec a b) ∧
      (fdSpec a b < 8 * a.length → fdSpec a b < 8 * b.length →
        (bitsBE a)[fdSpec a b]? ≠ (bitsBE b)[fdSpec a b]?) := by
  refine ⟨lcp_take _ _, fun h1 h2 => ?_⟩
  exact lcp_getElem?_ne _ _ (by rw [bitsBE_length]; exact h1) (by rw [bitsBE_length]; exact h2)

/-- reading of `fdSpec`, continued: when neither key is a byte prefix of the other, the first differing bit
    lies inside the shorter key. -/
theorem C16_fdSpec_not_prefix (a b : List Nat) (ha : BytesOK a) (hb : BytesOK b)
    (h1 : ¬ a <+: b) (h2 : ¬ b <+: a) : fdSpec a b < 8 * min a.length b.length := by
  apply Nat.lt_of_not_le
  intro h
  have ht := take_eq_of_le_lcp_bits (min a.length b.length) a b ha hb h
  by_cases c : a.length ≤ b.length
  · rw [Nat.min_eq_left c, List.take_length] at ht
    exact h1 (ht ▸ List.take_prefix _ _)
  · rw [Nat.min_eq_right (by omega), List.take_length] at ht
    exact h2 (ht ▸ List.take_prefix _ _)

example : sFirstDiffBit [97, 98] [97, 98, 0, 0, 0, 0, 0, 0, 0, 1] = 16 := by decide
example : fdSpec [97, 98] [97, 98, 0, 0, 0, 0, 0, 0, 0, 1] = 16 := by decide
example : fdSpec [1, 2, 3, 4, 5, 6, 7, 8, 0x10] [1, 2, 3, 4, 5, 6, 7, 8, 0x18, 3] = 68 := by decide

/-- FirstDiffBits: for a non-empty key list, one entry per adjacent pair, the first differing bit. -/
theorem C16_firstDiffBits (keys : List (List Nat)) (hne : keys ≠ []) (hok : ∀ k ∈ keys, BytesOK k) :
    firstDiffBits keys = some (List.zipWith fdSpec keys keys.tail) :=
  firstDiffBits_eq hne hok

example : firstDiffBits [[97], [97, 0], [97, 1], [98]] = some [8, 15, 6] := by decide
example : List.zipWith fdSpec [[97], [97, 0], [97, 1], [98]] [[97, 0], [97, 1], [98]] = [8, 15, 6] := by decide

/-- CountPrefixes(s, e, m) on `New(keys)`, for strictly ascending keys, at least two keys in `[s, e)` and
    `m ≥ 1`: does not panic; `m0` is the smallest first-difference value among the adjacent pairs of
    `keys[s:e]`; there are `m` counters and the `i`-th is the number of distinct `(m0+i)`-bit prefixes of
    `keys[s:e]` (`truncBits n k` is the whole key when it has fewer than `n` bits).

    `hdom` is the int32 domain of the package (bit positions are `int32`): every key is shorter than 2^28
    bytes. The model computes first differences in unbounded naturals but starts the minimum at
    `0x7fffffff` as the code does; `hdom` is what makes `m0` the true minimum. (Not needed for
    `C16_sFirstDiffBit` / `C16_firstDiffBits`.) -/
theorem C16_count (keys : List (List Nat)) (s e : Nat) (m : Int)
    (hasc : strictAsc keys = true) (hok : ∀ k ∈ keys, BytesOK k)
    (hdom : ∀ k ∈ keys, 8 * k.length ≤ 0x7fffffff)
    (hse : s + 2 ≤ e) (he : e ≤ keys.length) (hm : 1 ≤ m) :
    ∃ m0 cs, sbCountPrefixes keys s e m = some (m0, cs) ∧
      m0 ∈ List.zipWith fdSpec ((keys.drop s).take (e - s)) ((keys.drop s).take (e - s)).tail ∧
      (∀ d ∈ List.zipWith fdSpec ((keys.drop s).take (e - s)) ((keys.drop s).take (e - s)).tail, m0 ≤ d) ∧
      cs.length = m.toNat ∧
      ∀ i, i < m.toNat →
        cs.getD i 0 = distinctCount (((keys.drop s).take (e - s)).map (truncBits (m0 + i))) :=
  count_main keys s e m hasc hok hdom hse he hm

example : strictAsc [[97], [97, 0], [97, 1], [98]] = true := by decide
example : sbCountPrefixes [[97], [97, 0], [97, 1], [98]] 1 4 12 = some (6, [1, 2, 2, 2, 2, 2, 2, 2, 2, 2, 3, 3]) := by
  decide
example : (List.range 12).map (fun i => distinctCount
    ((([[97], [97, 0], [97, 1], [98]] : List (List Nat)).drop 1).take 3 |>.map (truncBits (6 + i)))) =
    [1, 2, 2, 2, 2, 2, 2, 2, 2, 2, 3, 3] := by decide

end Low
