import LowProofs.Lemmas.C16Fd
/-
  C16 -- sigbits: first-difference bits and prefix counts match the keys' bit strings.
  Only the property theorems and their non-vacuity examples live here; helpers are in Lemmas/C16*.lean.
  Keys are `List Nat` with `BytesOK` (every element `< 256`).
-/
namespace Low
open Low.C16L

/-- `sFirstDiffBit a b` is the length of the longest common prefix of the two big-endian bit strings:
    the index of the first differing bit, or `8 * min len` when one key is a byte prefix of the other. -/
theorem C16_sFirstDiffBit (a b : List Nat) (ha : BytesOK a) (hb : BytesOK b) :
    sFirstDiffBit a b = fdSpec a b :=
  sFirstDiffBit_eq ha hb

/-- the reading of `fdSpec` used in the English statement: when `a` is a byte prefix of `b` (or the
    reverse) the value is `8 * min len`; otherwise it is a bit position inside the shorter key at which the
    keys differ, all earlier bits being equal. -/
theorem C16_fdSpec_prefix (a t : List Nat) : fdSpec a (a ++ t) = 8 * a.length ∧ fdSpec (a ++ t) a = 8 * a.length := by
  have h : fdSpec a (a ++ t) = 8 * a.length := by
    have := lcp_append_left (bitsBE a) [] (bitsBE t)
    simp only [List.append_nil, lcp_nil_left] at this
    simp only [fdSpec, bitsBE_append, this, bitsBE_length]; omega
  refine ⟨h, ?_⟩
  simp only [fdSpec] at h ⊢
  rw [lcp_comm]; exact h

example : sFirstDiffBit [97, 98] [97, 98, 0, 0, 0, 0, 0, 0, 0, 1] = 16 := by decide
example : fdSpec [97, 98] [97, 98, 0, 0, 0, 0, 0, 0, 0, 1] = 16 := by decide
example : fdSpec [1, 2, 3, 4, 5, 6, 7, 8, 0x10] [1, 2, 3, 4, 5, 6, 7, 8, 0x18, 3] = 68 := by decide

/-- FirstDiffBits: for a non-empty key list, one entry per adjacent pair, the first differing bit. -/
theorem C16_firstDiffBits (keys : List (List Nat)) (hne : keys ≠ []) (hok : ∀ k ∈ keys, BytesOK k) :
    firstDiffBits keys = some (List.zipWith fdSpec keys keys.tail) :=
  firstDiffBits_eq hne hok

example : firstDiffBits [[97], [97, 0], [97, 1], [98]] = some [8, 15, 6] := by decide
example : List.zipWith fdSpec [[97], [97, 0], [97, 1], [98]] [[97, 0], [97, 1], [98]] = [8, 15, 6] := by decide

end Low
