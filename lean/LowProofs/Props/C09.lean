import LowProofs.Lemmas.C09
/-
  C09 -- bitstr: encoded bit strings order and truncate-compare like the bits they hold (bitstr/bitstr.go).
  Byte strings are `List Nat` with `BytesOK` (every element < 256).  Specification (`LowModel`):
  `bsPayload s f t` = the bits `[8*(f/8), t)` of `bitsBE s` (most significant bit of each byte first);
  `lexCmp` = lexicographic comparison of bit lists with values -1/0/1, `false < true`, a proper prefix first.
  Domain of the property: `f ≤ t ≤ 8 * len(s)`.
  (The model uses unbounded naturals; it represents the int32 code of `New`/`Len` as long as `toBit + 7` and
  `8 * len(enc)` fit an int32, i.e. for strings below 256 MiB -- cf. DESIGN 3.1.)
  Only the property theorems and their non-vacuity examples live here.
-/
namespace Low
open C08L C09L

/-- the bit string `s[8*floor(f/8), t)` has `t - 8*floor(f/8)` bits -/
theorem C09_payload_length (s : List Nat) (f t : Nat) (ht : t ≤ 8 * s.length) :
    (bsPayload s f t).length = t - 8 * (f / 8) := by
  simp only [bsPayload, List.length_take, List.length_drop, length_bitsBE]; omega

/-- New(s,from,to) does not panic and returns a byte string that encodes the bit string
    `s[8*floor(from/8), to)`: Len returns its length in bits, `to - 8*floor(from/8)`, and the first Len bits
    of the encoding are exactly that bit string. (That the encoding *orders* like the bit string is `C09_cmp`.) -/
theorem C09_new (s : List Nat) (hs : BytesOK s) (f t : Nat) (hft : f ≤ t) (ht : t ≤ 8 * s.length) :
    ∃ enc, bsNew s f t = some enc ∧ BytesOK enc ∧
      bsLen enc = some ((t : Int) - 8 * ((f / 8 : Nat) : Int)) ∧
      (bitsBE enc).take (t - 8 * (f / 8)) = bsPayload s f t := by
  obtain ⟨enc, h1, h2⟩ := new_isEnc s hs f t hft ht
  refine ⟨enc, h1, isEnc_ok h2, ?_, ?_⟩
  · rw [isEnc_len h2, C09_payload_length s f t ht]
    congr 1; omega
  · have := isEnc_take h2
    rwa [C09_payload_length s f t ht] at this

example : bsNew [0x61, 0x62, 0x63] 5 12 = some [0x61, 0x60, 0xf0] ∧ bsLen [0x61, 0x60, 0xf0] = some 12
    ∧ bsNew [0x61, 0x62, 0x63] 16 16 = some [0xff] ∧ bsNew [0x61, 0x62, 0x63] 11 11 = some [0x60, 0xe0] := by
  decide +kernel

/-- Cmp of two encodings returns the sign of the lexicographic comparison of the two bit strings,
    a proper prefix sorting first (and does not panic). -/
theorem C09_cmp (s : List Nat) (hs : BytesOK s) (f t : Nat) (hft : f ≤ t) (ht : t ≤ 8 * s.length)
    (s' : List Nat) (hs' : BytesOK s') (f' t' : Nat) (hft' : f' ≤ t') (ht' : t' ≤ 8 * s'.length)
    (enc enc' : List Nat) (he : bsNew s f t = some enc) (he' : bsNew s' f' t' = some enc') :
    bsCmp enc enc' = some (lexCmp (bsPayload s f t) (bsPayload s' f' t')) := by
  obtain ⟨e, h1, h2⟩ := new_isEnc s hs f t hft ht
  obtain ⟨e', h1', h2'⟩ := new_isEnc s' hs' f' t' hft' ht'
  rw [he] at h1; rw [he'] at h1'
  cases h1; cases h1'
  exact isEnc_cmp h2 h2'

example : bsCmp [0x61, 0x60, 0xf0] [0x61, 0x62, 0xff] = some (-1)
    ∧ bsCmp [0x61, 0x60, 0xf0] [0x61, 0xff] = some 1 ∧ bsCmp [0xff] [0x00, 0x80] = some (-1) := by decide

/-- the theorem instantiated on the example of the Go doc comment (`New("abc", 5, 12)`) against `New("a", 0, 8)` -/
example : bsCmp [0x61, 0x60, 0xf0] [0x61, 0xff] =
    some (lexCmp (bsPayload [0x61, 0x62, 0x63] 5 12) (bsPayload [0x61] 0 8)) :=
  C09_cmp [0x61, 0x62, 0x63] (by simp [BytesOK]) 5 12 (by decide) (by decide)
    [0x61] (by simp [BytesOK]) 0 8 (by decide) (by decide) _ _ (by decide +kernel) (by decide +kernel)

/-- `lexCmp` is a total order on bit strings with values in {-1,0,1}: it is 0 exactly on equal strings,
    swapping the arguments negates it, and "less than" is transitive. With `C09_cmp` these transfer to `Cmp`
    (next three theorems). -/
theorem C09_order (a b c : List Bool) :
    (lexCmp a b = -1 ∨ lexCmp a b = 0 ∨ lexCmp a b = 1) ∧
    (lexCmp a b = 0 ↔ a = b) ∧
    lexCmp b a = - lexCmp a b ∧
    (lexCmp a b = -1 → lexCmp b c = -1 → lexCmp a c = -1) :=
  ⟨lexCmp_range a b, lexCmp_eq_zero a b, lexCmp_antisymm a b, lexCmp_trans_lt a b c⟩

example : lexCmp [true, false] [true, false, false] = -1 ∧ lexCmp [true] [false, true] = 1
    ∧ lexCmp [false, true] [false, true] = 0 := by decide

/-- Cmp = 0 exactly for equal bit strings. -/
theorem C09_cmp_eq_zero (s : List Nat) (hs : BytesOK s) (f t : Nat) (hft : f ≤ t) (ht : t ≤ 8 * s.length)
    (s' : List Nat) (hs' : BytesOK s') (f' t' : Nat) (hft' : f' ≤ t') (ht' : t' ≤ 8 * s'.length)
    (enc enc' : List Nat) (he : bsNew s f t = some enc) (he' : bsNew s' f' t' = some enc') :
    bsCmp enc enc' = some 0 ↔ bsPayload s f t = bsPayload s' f' t' := by
  rw [C09_cmp s hs f t hft ht s' hs' f' t' hft' ht' enc enc' he he', Option.some.injEq, lexCmp_eq_zero]

-- equal bit strings from different sources (bits [8,12) of "ab" and bits [0,4) of "b"): Cmp = 0
example : bsNew [0x61, 0x62] 9 12 = some [0x60, 0xf0] ∧ bsNew [0x62] 0 4 = some [0x60, 0xf0]
    ∧ bsCmp [0x60, 0xf0] [0x60, 0xf0] = some 0 := by decide +kernel

/-- Swapping the arguments of Cmp negates the result. -/
theorem C09_cmp_antisymm (s : List Nat) (hs : BytesOK s) (f t : Nat) (hft : f ≤ t) (ht : t ≤ 8 * s.length)
    (s' : List Nat) (hs' : BytesOK s') (f' t' : Nat) (hft' : f' ≤ t') (ht' : t' ≤ 8 * s'.length)
    (enc enc' : List Nat) (he : bsNew s f t = some enc) (he' : bsNew s' f' t' = some enc') :
    ∃ r, bsCmp enc enc' = some r ∧ bsCmp enc' enc = some (-r) := by
  refine ⟨_, C09_cmp s hs f t hft ht s' hs' f' t' hft' ht' enc enc' he he', ?_⟩
  rw [C09_cmp s' hs' f' t' hft' ht' s hs f t hft ht enc' enc he' he, lexCmp_antisymm]

example : bsCmp [0x61, 0x60, 0xf0] [0x61, 0xff] = some 1 ∧ bsCmp [0x61, 0xff] [0x61, 0x60, 0xf0] = some (-1) := by
  decide

/-- "Cmp = -1" is transitive. -/
theorem C09_cmp_trans (s1 : List Nat) (hs1 : BytesOK s1) (f1 t1 : Nat) (hft1 : f1 ≤ t1) (ht1 : t1 ≤ 8 * s1.length)
    (s2 : List Nat) (hs2 : BytesOK s2) (f2 t2 : Nat) (hft2 : f2 ≤ t2) (ht2 : t2 ≤ 8 * s2.length)
    (s3 : List Nat) (hs3 : BytesOK s3) (f3 t3 : Nat) (hft3 : f3 ≤ t3) (ht3 : t3 ≤ 8 * s3.length)
    (e1 e2 e3 : List Nat) (h1 : bsNew s1 f1 t1 = some e1) (h2 : bsNew s2 f2 t2 = some e2)
    (h3 : bsNew s3 f3 t3 = some e3) :
    bsCmp e1 e2 = some (-1) → bsCmp e2 e3 = some (-1) → bsCmp e1 e3 = some (-1) := by
  rw [C09_cmp s1 hs1 f1 t1 hft1 ht1 s2 hs2 f2 t2 hft2 ht2 e1 e2 h1 h2,
    C09_cmp s2 hs2 f2 t2 hft2 ht2 s3 hs3 f3 t3 hft3 ht3 e2 e3 h2 h3,
    C09_cmp s1 hs1 f1 t1 hft1 ht1 s3 hs3 f3 t3 hft3 ht3 e1 e3 h1 h3]
  simp only [Option.some.injEq]
  exact lexCmp_trans_lt _ _ _

example : bsCmp [0xff] [0x60, 0xe0] = some (-1) ∧ bsCmp [0x60, 0xe0] [0x60, 0xf0] = some (-1)
    ∧ bsCmp [0xff] [0x60, 0xf0] = some (-1) := by decide

/-- CmpUpto(a, enc) returns the sign of comparing, in the same order, the first Len(enc) bits of the plain
    bytes `a` (all of `a` when it is shorter: `List.take`) with the encoded bit string; it does not panic,
    for plain strings `a` of any length. `t - 8*(f/8)` is Len(enc) by `C09_new`. -/
theorem C09_cmpUpto (a : List Nat) (ha : BytesOK a)
    (s : List Nat) (hs : BytesOK s) (f t : Nat) (hft : f ≤ t) (ht : t ≤ 8 * s.length)
    (enc : List Nat) (he : bsNew s f t = some enc) :
    bsCmpUpto a enc = some (lexCmp ((bitsBE a).take (t - 8 * (f / 8))) (bsPayload s f t)) := by
  obtain ⟨e, h1, h2⟩ := new_isEnc s hs f t hft ht
  rw [he] at h1; cases h1
  rw [isEnc_cmpUpto a ha h2, C09_payload_length s f t ht]

example : bsCmpUpto [0x61, 0x6f, 0x00] [0x61, 0x60, 0xf0] = some 0
    ∧ bsCmpUpto [0x61] [0x61, 0x60, 0xf0] = some (-1)
    ∧ bsCmpUpto [0x61, 0x70] [0x61, 0x60, 0xf0] = some 1
    ∧ bsCmpUpto [1, 2, 3, 4, 5, 6, 7, 8, 9, 0xff] [1, 2, 3, 4, 5, 6, 7, 8, 9, 0x80, 0x80] = some 0
    ∧ bsCmpUpto [0x12, 0x34] [0xff] = some 0 := by decide

example : bsCmpUpto [0x61, 0x6f, 0x00] [0x61, 0x60, 0xf0] =
    some (lexCmp ((bitsBE [0x61, 0x6f, 0x00]).take (12 - 8 * (5 / 8))) (bsPayload [0x61, 0x62, 0x63] 5 12)) :=
  C09_cmpUpto [0x61, 0x6f, 0x00] (by simp [BytesOK]) [0x61, 0x62, 0x63] (by simp [BytesOK]) 5 12
    (by decide) (by decide) _ (by decide +kernel)

/-- StrCmpUpto and CmpUpto always agree. In the model `bsStrCmpUpto` is by definition the same function of the
    bytes, so this is `rfl`; that the `unsafe` string-header -> slice-header conversion in the Go code does not
    change the bytes seen by CmpUpto is a runtime fact that Lean does not see -- it is checked only by the
    correspondence run (which calls both functions on the same inputs). -/
theorem C09_strCmpUpto (a enc : List Nat) : bsStrCmpUpto a enc = bsCmpUpto a enc := rfl

example : bsStrCmpUpto [0x61, 0x70] [0x61, 0x60, 0xf0] = some 1 := by decide

end Low
