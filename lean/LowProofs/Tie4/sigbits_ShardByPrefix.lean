import LowProofs.Tie4.sigbits_ShardByPrefix_L
import LowProofs.Tie3.sigbits_FirstDiffBits
import LowProofs.Lemmas.C17Main
/-
  Tie: the definition regenerated from the SSA form of `sigbits.ShardByPrefix` — a function that creates the RECURSIVE
  CLOSURE `dfs`, which captures `keys`, `maxSize`, `firstDiffs` (read only), `prefixes`, `keyCnts` (appended to) and
  itself — equals the hand-written model `shardByPrefix` (`shardDfs` / `shardEach` / `shardScan`, LowModel/Sigbits.lean).

  Shape of the generated code (tools/ssa2lean4): `sigbits_ShardByPrefix_fn1_body` is the closure's body with the closure
  itself as the parameter `self` and the state `prefixes`, `keyCnts` passed in and returned; `sigbits_ShardByPrefix_fn1`
  closes the recursion with a depth counter; the loops of the closure are `…_fn1_loop5/10/17` (`_L.lean`).
  Shape of the proof: a SIMULATION by induction on the model's fuel (`fn1_sim`): whenever `shardDfs` with fuel `mf`
  returns `some r` on a range `s < e ≤ len(keys)`, the generated closure with any depth `≥ mf` (and loop fuel
  `≥ len(keys) + 1`) returns the same, converted.  That the model does return `some` for `1 ≤ maxSize` (its fuel
  `len(keys) + 1` suffices because every split point lies strictly inside the range) is `C17L.shard_post`, proved for
  property C17.  For `maxSize ≤ 0` neither side ever returns (`shardDfs_diverges`, `fn1_diverges`).
-/
namespace Low
open Low.GoSem Low.GoSem3 Low.TieL Low.Tie2L Low.Tie3L Low.C17L Low.Tie4L

theorem fn1_sim (fuel : Nat) (mx : Int) (keys : List (List Nat)) (fds : List Nat)
    (hlen : fds.length + 1 = keys.length) (hn : keys.length < 2147483648) (hk : ∀ k ∈ keys, k.length < 2147483648)
    (hfuel : keys.length + 1 ≤ fuel) :
    ∀ (mf d s e : Nat) (acc r : ShardAcc), mf ≤ d → s < e → e ≤ keys.length →
      shardDfs keys fds mx mf s e acc = some r →
      Gen.Ssa4.sigbits_ShardByPrefix_fn1 fuel mx keys (cv fds) d (s : Int) (e : Int) (cv acc.1) (cv acc.2) = some (cv2 r)
  | 0, d, s, e, acc, r, _, _, _, hm => by simp [shardDfs] at hm
  | mf+1, d, s, e, acc, r, hd, h1, h2, hm => by
    obtain ⟨d', rfl⟩ : ∃ d', d = d' + 1 := ⟨d - 1, by omega⟩
    have hs : s < keys.length := by omega
    have hks : keys[s]? = some keys[s] := List.getElem?_eq_getElem hs
    have hkl : toI32 ((keys[s].length : Nat) : Int) = ((keys[s].length : Nat) : Int) :=
      toI32_ofNat_lt (hk _ (List.getElem_mem hs))
    have e0 : subI32 (e : Int) (s : Int) = (e : Int) - (s : Int) := by
      rw [subI32_ofNat (by omega) (by omega)]; omega
    have hc1 : s + (e - 1 - s) + 1 = e := by omega
    have hc2 : s + (e - 1 - s) ≤ fds.length := by omega
    have hc3 : (e - 1 - s) + 1 ≤ fuel := by omega
    rw [shardDfs] at hm
    rw [Gen.Ssa4.sigbits_ShardByPrefix_fn1, Gen.Ssa4.sigbits_ShardByPrefix_fn1_body]
    simp only [e0, index_ofNat, hks, Option.bind_some, len_eq, hkl]
    by_cases hleaf : (e : Int) - (s : Int) ≤ mx
    · rw [if_pos hleaf] at hm
      simp only [hks] at hm
      cases hm
      simp only [hleaf, decide_true, ↓reduceIte]
      rw [loop5_eq fuel mx keys fds _ (s : Int) e _ _ _ _ (by omega) (e - 1 - s) s fuel keys[s].length hc1 hc2 hc3]
      simp [cv2, cv]
    · rw [if_neg hleaf] at hm
      simp only [hks] at hm
      simp only [hleaf, decide_false, Bool.false_eq_true, ↓reduceIte]
      simp only [slice_newArray_empty, Option.bind_some]
      have h10 := loop10_eq fuel mx keys fds
        (Gen.Ssa4.sigbits_ShardByPrefix_fn1 fuel mx keys (cv fds) d') (s : Int) e (cv acc.1) (cv acc.2) (cv acc.1) (cv acc.2)
        (by omega) (e - 1 - s) s fuel keys[s].length [] hc1 hc2 hc3
      rw [show cv [] = ([] : List Int) from rfl] at h10
      rw [h10]
      -- the split points form a strictly ascending chain in `(s, e]`
      have hsp := splitOK_cuts fds (minFold fds s (e - 1 - s) keys[s].length) (e - 1 - s) s s (Nat.le_refl _)
        (fun i hi hi' => by omega) (fun i hi hi' => minFold_le_bl fds (e - 1 - s) s _ i hi hi')
      rw [hc1, ← shardScan_eq] at hsp
      have hch := chain_of_splitOK fds _ e keys.length h2 _ s hsp
      have hcl := chain_length keys.length _ s hch
      exact loop17_sim fuel mx keys fds _ (s : Int) (e : Int) (cv acc.1) (cv acc.2) keys.length mf _ (by omega)
        (fun a b acc' r' ha hb hab => fn1_sim fuel mx keys fds hlen hn hk hfuel mf d' a b acc' r' (by omega) ha hb hab)
        (shardScan fds (e - 1 - s) s keys[s].length [] ++ [e]) 0 fuel s acc r rfl hch (by omega) hm

/-- the first split point of an oversized range lies in `(s, e]` -/
theorem first_split (fds : List Nat) (s e longest : Nat) (h1 : s < e) :
    ∃ t rest, shardScan fds (e - 1 - s) s longest [] ++ [e] = t :: rest ∧ s < t ∧ t ≤ e := by
  have hc1 : s + (e - 1 - s) + 1 = e := by omega
  have hsp := splitOK_cuts fds (minFold fds s (e - 1 - s) longest) (e - 1 - s) s s (Nat.le_refl _)
    (fun i hi hi' => by omega) (fun i hi hi' => minFold_le_bl fds (e - 1 - s) s _ i hi hi')
  rw [hc1, ← shardScan_eq] at hsp
  cases hl : shardScan fds (e - 1 - s) s longest [] ++ [e] with
  | nil => rw [hl] at hsp; simp [SplitOK] at hsp
  | cons t rest =>
    rw [hl] at hsp
    refine ⟨t, rest, rfl, ?_⟩
    cases rest with
    | nil => simp only [SplitOK] at hsp; omega
    | cons t' r' => simp only [SplitOK] at hsp; omega

/-- `maxSize ≤ 0`, the model: every non-empty range is "too large" and its first sub-range is non-empty again, so the
    recursion only ends when the model's fuel does -/
theorem shardDfs_diverges (mx : Int) (keys : List (List Nat)) (fds : List Nat) (hmx : mx ≤ 0) :
    ∀ (mf s e : Nat) (acc : ShardAcc), s < e → e ≤ keys.length → shardDfs keys fds mx mf s e acc = none
  | 0, _, _, _, _, _ => by simp [shardDfs]
  | mf+1, s, e, acc, h1, h2 => by
    have hs : s < keys.length := by omega
    have hks : keys[s]? = some keys[s] := List.getElem?_eq_getElem hs
    obtain ⟨t, rest, hl, ht1, ht2⟩ := first_split fds s e keys[s].length h1
    rw [shardDfs, if_neg (by omega)]
    simp only [hks]
    rw [hl, shardEach, shardDfs_diverges mx keys fds hmx mf s t acc ht1 (by omega)]

/-- `maxSize ≤ 0`, the generated code: the same for every recursion depth `d` (given the loop fuel of the tie): the
    closure returns `none` because the depth is used up, however large it is -/
theorem fn1_diverges (fuel : Nat) (mx : Int) (keys : List (List Nat)) (fds : List Nat) (hmx : mx ≤ 0)
    (hlen : fds.length + 1 = keys.length) (hn : keys.length < 2147483648) (hk : ∀ k ∈ keys, k.length < 2147483648)
    (hfuel : keys.length + 1 ≤ fuel) :
    ∀ (d s e : Nat) (P K : List Int), s < e → e ≤ keys.length →
      Gen.Ssa4.sigbits_ShardByPrefix_fn1 fuel mx keys (cv fds) d (s : Int) (e : Int) P K = none
  | 0, _, _, _, _, _, _ => by rw [Gen.Ssa4.sigbits_ShardByPrefix_fn1]
  | d+1, s, e, P, K, h1, h2 => by
    have hs : s < keys.length := by omega
    have hks : keys[s]? = some keys[s] := List.getElem?_eq_getElem hs
    have hkl : toI32 ((keys[s].length : Nat) : Int) = ((keys[s].length : Nat) : Int) :=
      toI32_ofNat_lt (hk _ (List.getElem_mem hs))
    have e0 : subI32 (e : Int) (s : Int) = (e : Int) - (s : Int) := by
      rw [subI32_ofNat (by omega) (by omega)]; omega
    have hnl : ¬ ((e : Int) - (s : Int) ≤ mx) := by omega
    obtain ⟨t, rest, hl, ht1, ht2⟩ := first_split fds s e keys[s].length h1
    obtain ⟨g, rfl⟩ : ∃ g, fuel = g + 1 := ⟨fuel - 1, by omega⟩
    have h10 := loop10_eq (g + 1) mx keys fds
      (Gen.Ssa4.sigbits_ShardByPrefix_fn1 (g + 1) mx keys (cv fds) d) (s : Int) e P K P K
      (by omega) (e - 1 - s) s (g + 1) keys[s].length [] (by omega) (by omega) (by omega)
    rw [show cv [] = ([] : List Int) from rfl, hl] at h10
    have ih := fn1_diverges (g + 1) mx keys fds hmx hlen hn hk hfuel d s t P K ht1 (by omega)
    rw [Gen.Ssa4.sigbits_ShardByPrefix_fn1, Gen.Ssa4.sigbits_ShardByPrefix_fn1_body]
    simp only [e0, index_ofNat, hks, Option.bind_some, len_eq, hkl, hnl, decide_false, Bool.false_eq_true, ↓reduceIte, slice_newArray_empty]
    rw [h10, Gen.Ssa4.sigbits_ShardByPrefix_fn1_loop17]
    have hpos : (0 : Int) < (((t :: rest).length : Nat) : Int) := by simp only [List.length_cons]; omega
    simp only [len_eq, List.length_map, hpos, decide_true, ↓reduceIte]
    rw [show (0 : Int) = ((0 : Nat) : Int) from rfl, index_ofNat]
    simp only [cv, List.map_cons, List.getElem?_cons_zero, Option.bind_some]
    have ih' : Gen.Ssa4.sigbits_ShardByPrefix_fn1 (g + 1) mx keys (List.map Int.ofNat fds) d (s : Int) (Int.ofNat t) P K
        = none := ih
    rw [ih', Option.bind_none]

/-- the parent function, given what `FirstDiffBits` returned: whenever the model's `shardDfs` (with the model's own
    fuel `mf`) succeeds on the whole range, the generated code returns the same two slices -/
theorem parent_sim (fuel : Nat) (mx : Int) (keys : List (List Nat)) (fds : List Nat) (r : ShardAcc) (mf : Nat)
    (hfd : Gen.Ssa3.sigbits_FirstDiffBits fuel keys = some (cv fds))
    (hlen : fds.length + 1 = keys.length) (hn : keys.length < 2147483648) (hk : ∀ k ∈ keys, k.length < 2147483648)
    (hfuel : keys.length + 1 ≤ fuel) (hmf : mf ≤ fuel)
    (hm : shardDfs keys fds mx mf 0 (fds.length + 1) ([], [0]) = some r) :
    Gen.Ssa4.sigbits_ShardByPrefix fuel keys mx = some (cv2 r) := by
  have e1 : addI64 ((fds.length : Nat) : Int) 1 = ((fds.length + 1 : Nat) : Int) := addI64_one_ofNat (by omega)
  have e2 : toI32 ((fds.length + 1 : Nat) : Int) = ((fds.length + 1 : Nat) : Int) := toI32_ofNat_lt (by omega)
  have e3 : quoI64 ((keys.length : Nat) : Int) (32 : Int) = some ((keys.length / 32 : Nat) : Int) := by
    rw [quoI64, if_neg (by omega), show (32 : Int) = ((32 : Nat) : Int) from rfl, ← Int.ofNat_tdiv, wrap64_ofNat (by omega)]
  have hsim := fn1_sim fuel mx keys fds hlen hn hk hfuel mf fuel 0 (fds.length + 1) ([], [0]) r hmf (by omega) (by omega) hm
  rw [Gen.Ssa4.sigbits_ShardByPrefix]
  simp only [hfd, Option.bind_some, len_eq, List.length_map, e1, e2, e3, makeSliceCap_zero, setIdx_newArray_one,
    List.nil_append]
  have hsim' : Gen.Ssa4.sigbits_ShardByPrefix_fn1 fuel mx keys (cv fds) fuel 0 ((fds.length + 1 : Nat) : Int) [] [0]
      = some (cv2 r) := hsim
  rw [hsim', Option.bind_some]

/-- **Tie of `sigbits.ShardByPrefix`** (with its recursive closure `dfs`).
    Domain: `keys` byte strings (bytes `< 256`), each shorter than `2^28` bytes (the domain of `FirstDiffBits`),
    `len(keys) < 2^31` (the key indices are `int32`), and `1 ≤ maxSize`.  `keys` need NOT be sorted or distinct.
    Fuel: every `fuel` with `len(keys) + 1 ≤ fuel` (the recursion depth of `dfs` — each level strictly shrinks the range —
    and the iterations of its three loops, of the loop of `FirstDiffBits`) and `len(k)/8 + 2 ≤ fuel` for every key
    (the loop of `sFirstDiffBit`).
    For `keys = []` Go panics (`FirstDiffBits` makes a slice of length `-1`); both sides are `none`.
    The hypothesis `1 ≤ maxSize` is NOT an artefact: for `maxSize ≤ 0` the Go function never terminates (`dfs(s, s+1)`
    calls `dfs(s, s+1)`: stack overflow), see `Tie_sigbits_ShardByPrefix_diverges`. -/
theorem Tie_sigbits_ShardByPrefix (keys : List (List Nat)) (maxSize : Int) (fuel : Nat)
    (hbytes : ∀ k ∈ keys, ∀ x ∈ k, x < 256) (hlen : ∀ k ∈ keys, k.length < 2^28) (hn : keys.length < 2^31)
    (hm : 1 ≤ maxSize) (hfuel1 : keys.length + 1 ≤ fuel) (hfuel2 : ∀ k ∈ keys, k.length / 8 + 2 ≤ fuel) :
    Gen.Ssa4.sigbits_ShardByPrefix fuel keys maxSize
      = (shardByPrefix keys maxSize).map (fun r => (r.1.map Int.ofNat, r.2.map Int.ofNat)) := by
  have hfd := Tie_sigbits_FirstDiffBits keys fuel hbytes hlen (by omega) (by omega) hfuel2
  by_cases hne : keys = []
  · subst hne
    rw [Gen.Ssa4.sigbits_ShardByPrefix, hfd]
    simp [shardByPrefix, firstDiffBits]
  · obtain ⟨Ls, Bs, hsome, -⟩ := shard_post keys maxSize hne hbytes hm (fun _ _ _ _ => True)
      (fun _ _ _ _ _ => trivial) (fun _ _ _ _ _ _ _ _ _ _ => trivial)
    have hfm : firstDiffBits keys = some (fdsOf keys) := C16L.firstDiffBits_eq hne hbytes
    rw [hsome]
    rw [shardByPrefix, hfm] at hsome
    rw [hfm] at hfd
    have := parent_sim fuel maxSize keys (fdsOf keys) (Ls, 0 :: Bs) (keys.length + 1) hfd (fdsOf_length keys hne) hn
      (fun k hk => by have := hlen k hk; omega) hfuel1 hfuel1 hsome
    rw [this]; rfl

/-- **FINDING (Go code / domain of the model).**  For `maxSize ≤ 0` and at least one key, `ShardByPrefix` does not
    terminate: every non-empty range is "too large", and a range of one key is split into itself (`dfs(s, s+1)` calls
    `dfs(s, s+1)`), so Go recurses until the stack overflows (a fatal error, not a panic that can be recovered).
    Generated code and model agree also here, but only because both run out of fuel: the generated definition is
    `none` for EVERY `fuel` above the bound of the tie, the model's `shardDfs` is `none` for every fuel, in particular for
    the model's own `len(keys) + 1`.  (For `keys = []` both are `none` because `FirstDiffBits` panics.) -/
theorem Tie_sigbits_ShardByPrefix_diverges (keys : List (List Nat)) (maxSize : Int) (fuel : Nat)
    (hbytes : ∀ k ∈ keys, ∀ x ∈ k, x < 256) (hlen : ∀ k ∈ keys, k.length < 2^28) (hn : keys.length < 2^31)
    (hm : maxSize ≤ 0) (hfuel1 : keys.length + 1 ≤ fuel) (hfuel2 : ∀ k ∈ keys, k.length / 8 + 2 ≤ fuel) :
    Gen.Ssa4.sigbits_ShardByPrefix fuel keys maxSize = none ∧ shardByPrefix keys maxSize = none := by
  have hfd := Tie_sigbits_FirstDiffBits keys fuel hbytes hlen (by omega) (by omega) hfuel2
  by_cases hne : keys = []
  · subst hne
    rw [Gen.Ssa4.sigbits_ShardByPrefix, hfd]
    simp [shardByPrefix, firstDiffBits]
  · have hfm : firstDiffBits keys = some (fdsOf keys) := C16L.firstDiffBits_eq hne hbytes
    have hl := fdsOf_length keys hne
    have hpos : 0 < keys.length := by
      cases keys with
      | nil => exact absurd rfl hne
      | cons => simp
    rw [hfm] at hfd
    constructor
    · have e1 : addI64 (((fdsOf keys).length : Nat) : Int) 1 = (((fdsOf keys).length + 1 : Nat) : Int) :=
        addI64_one_ofNat (by omega)
      have e2 : toI32 (((fdsOf keys).length + 1 : Nat) : Int) = (((fdsOf keys).length + 1 : Nat) : Int) :=
        toI32_ofNat_lt (by omega)
      have e3 : quoI64 ((keys.length : Nat) : Int) (32 : Int) = some ((keys.length / 32 : Nat) : Int) := by
        rw [quoI64, if_neg (by omega), show (32 : Int) = ((32 : Nat) : Int) from rfl, ← Int.ofNat_tdiv,
          wrap64_ofNat (by omega)]
      have hdiv := fn1_diverges fuel maxSize keys (fdsOf keys) hm hl hn (fun k hk => by have := hlen k hk; omega) hfuel1
        fuel 0 ((fdsOf keys).length + 1) [] [0] (by omega) (by omega)
      rw [Gen.Ssa4.sigbits_ShardByPrefix]
      simp only [hfd, Option.map_some, Option.bind_some, len_eq, List.length_map, e1, e2, e3, makeSliceCap_zero,
        setIdx_newArray_one, List.nil_append]
      have hdiv' : Gen.Ssa4.sigbits_ShardByPrefix_fn1 fuel maxSize keys (cv (fdsOf keys)) fuel 0
          (((fdsOf keys).length + 1 : Nat) : Int) [] [0] = none := hdiv
      rw [hdiv', Option.bind_none]
    · rw [shardByPrefix, hfm]
      exact shardDfs_diverges maxSize keys (fdsOf keys) hm _ 0 _ _ (by omega) (by omega)

/-- the tie without a hypothesis on `maxSize` (see the two theorems above for what it means on each side of `1`) -/
theorem Tie_sigbits_ShardByPrefix_all (keys : List (List Nat)) (maxSize : Int) (fuel : Nat)
    (hbytes : ∀ k ∈ keys, ∀ x ∈ k, x < 256) (hlen : ∀ k ∈ keys, k.length < 2^28) (hn : keys.length < 2^31)
    (hfuel1 : keys.length + 1 ≤ fuel) (hfuel2 : ∀ k ∈ keys, k.length / 8 + 2 ≤ fuel) :
    Gen.Ssa4.sigbits_ShardByPrefix fuel keys maxSize
      = (shardByPrefix keys maxSize).map (fun r => (r.1.map Int.ofNat, r.2.map Int.ofNat)) := by
  by_cases hm : 1 ≤ maxSize
  · exact Tie_sigbits_ShardByPrefix keys maxSize fuel hbytes hlen hn hm hfuel1 hfuel2
  · obtain ⟨h1, h2⟩ := Tie_sigbits_ShardByPrefix_diverges keys maxSize fuel hbytes hlen hn (by omega) hfuel1 hfuel2
    rw [h1, h2]; rfl

-- non-vacuity: concrete values (the same as the Go code returns), on the generated side by evaluation …
example : Gen.Ssa4.sigbits_ShardByPrefix 5 [[1, 2, 3], [1, 2, 7, 9], [1, 2, 7, 9, 0], [2]] 2
    = some ([3, 4, 1], [0, 1, 3, 4]) := by decide +kernel
example : Gen.Ssa4.sigbits_ShardByPrefix 7 [[1, 2, 3], [1, 2, 7, 9], [1, 2, 7, 9, 0], [2], [2, 5], [3]] 1
    = some ([3, 4, 5, 1, 2, 1], [0, 1, 2, 3, 4, 5, 6]) := by decide +kernel
-- … and on the model side through the tie theorem, whose hypotheses are therefore satisfiable
example : (shardByPrefix [[1, 2, 3], [1, 2, 7, 9], [1, 2, 7, 9, 0], [2]] 2).map
    (fun r => (r.1.map Int.ofNat, r.2.map Int.ofNat)) = some ([3, 4, 1], [0, 1, 3, 4]) := by
  rw [← Tie_sigbits_ShardByPrefix _ 2 5 (by decide) (by decide) (by decide) (by decide) (by decide) (by decide)]
  decide +kernel
-- the fuel bound `len(keys) + 1` is tight: a range that splits into `len(keys)` single keys needs `len(keys) + 1`
-- iterations of the loop over the split points
example : Gen.Ssa4.sigbits_ShardByPrefix 5 [[1], [2], [3], [4]] 1 = some ([1, 1, 1, 1], [0, 1, 2, 3, 4]) := by decide +kernel
example : Gen.Ssa4.sigbits_ShardByPrefix 4 [[1], [2], [3], [4]] 1 = none := by decide +kernel
-- no keys: panic; maxSize = 0: divergence (whatever the fuel)
example : Gen.Ssa4.sigbits_ShardByPrefix 9 [] 3 = none := by decide +kernel
example : Gen.Ssa4.sigbits_ShardByPrefix 50 [[1, 2, 3], [1, 2, 7, 9]] 0 = none := by decide +kernel
example : shardByPrefix [[1, 2, 3], [1, 2, 7, 9]] 0 = none :=
  (Tie_sigbits_ShardByPrefix_diverges _ 0 3 (by decide) (by decide) (by decide) (by decide) (by decide) (by decide)).2

end Low
