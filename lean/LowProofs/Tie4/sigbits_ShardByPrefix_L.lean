import Generated.Ssa4.sigbits_ShardByPrefix
import LowModel.Sigbits
import LowProofs.Tie3.Lemmas
import LowProofs.Lemmas.C17Scan
/-
  Loop lemmas for the tie of `sigbits.ShardByPrefix` (see `sigbits_ShardByPrefix.lean`): the three loops of the
  closure `dfs` (`ShardByPrefix$1`) as the translator emits them.
    * `loop5`  — the leaf: minimum of `len(keys[s])` and `firstDiffs[i]>>3` over the range, then the two appends;
    * `loop10` — the scan that collects the split points in `endsAt` (with the reset `endsAt = endsAt[0:0]`);
    * `loop17` — the loop over the split points that calls the closure (`self`) and threads `prefixes`, `keyCnts`.
  `int32` values are `Int` in the generated code and `Nat` in the model: `cv` converts.
-/
namespace Low.Tie4L
open Low Low.GoSem Low.GoSem3 Low.TieL Low.Tie2L Low.Tie3L Low.C17L

/-- `[]int32` of the model (`Nat`) as the generated code sees it (`Int`) -/
abbrev cv (l : List Nat) : List Int := l.map Int.ofNat

/-- the type of the closure `dfs` in the generated code: `s`, `e`, then the state `prefixes`, `keyCnts` -/
abbrev SelfT := Int → Int → List Int → List Int → Option (List Int × List Int)

theorem cv_getElem? (l : List Nat) (i : Nat) (h : i < l.length) : (cv l)[i]? = some ((l[i] : Nat) : Int) := by
  simp [cv, List.getElem?_eq_getElem h]

theorem sub_one_ofNat {e : Nat} (h1 : 1 ≤ e) (h : e < 2147483648) : subI32 (e : Int) 1 = ((e - 1 : Nat) : Int) :=
  subI32_ofNat (b := 1) h1 h

theorem add_one_ofNat {i : Nat} (h : i + 1 < 2147483648) : addI32 (i : Int) 1 = ((i + 1 : Nat) : Int) :=
  addI32_ofNat (b := 1) h

/-- `make([]T, 0, N)` with a constant `N`: go/ssa allocates an array of `N` elements and slices it `[:0]` -/
theorem slice_newArray_empty {α : Type} (z : α) (n : Nat) :
    GoSem2.slice (newArray z n) (0 : Int) (0 : Int) = some [] := by
  simp [GoSem2.slice]

/-- the leaf loop: `min` over `firstDiffs[i] >> 3` for `i` in `[i, e-1)`, then `prefixes = append(prefixes, min)`,
    `keyCnts = append(keyCnts, e)` -/
theorem loop5_eq (fuel : Nat) (mx : Int) (keys : List (List Nat)) (fds : List Nat) (self : SelfT) (s0 : Int) (e : Nat)
    (P0 K0 P K : List Int) (he : e < 2147483648) :
    ∀ (cnt i gas m : Nat), i + cnt + 1 = e → i + cnt ≤ fds.length → cnt + 1 ≤ gas →
      Gen.Ssa4.sigbits_ShardByPrefix_fn1_loop5 fuel mx keys (cv fds) self s0 (e : Int) P0 K0 gas (m : Int) (i : Int) P K
        = some (P ++ [((((fds.drop i).take cnt).foldl (fun mn d => if mn > d / 8 then d / 8 else mn) m : Nat) : Int)],
            K ++ [(e : Int)])
  | 0, i, gas, m, h1, h2, hg => by
    obtain ⟨g, rfl⟩ : ∃ g, gas = g + 1 := ⟨gas - 1, by omega⟩
    have e0 := sub_one_ofNat (e := e) (by omega) he
    have hn : ¬ (i < e - 1) := by omega
    rw [Gen.Ssa4.sigbits_ShardByPrefix_fn1_loop5]
    simp only [e0, Int.ofNat_lt, hn, decide_false, Bool.false_eq_true, ↓reduceIte, setIdx_newArray_one, Option.bind_some,
      List.take_zero, List.foldl_nil]
  | cnt+1, i, gas, m, h1, h2, hg => by
    obtain ⟨g, rfl⟩ : ∃ g, gas = g + 1 := ⟨gas - 1, by omega⟩
    have e0 := sub_one_ofNat (e := e) (by omega) he
    have hlt : i < e - 1 := by omega
    have hi : i < fds.length := by omega
    have e1 := add_one_ofNat (i := i) (by omega)
    have hd : (fds.drop i).take (cnt + 1) = fds[i] :: (fds.drop (i + 1)).take cnt := by
      rw [List.drop_eq_getElem_cons hi, List.take_succ_cons]
    rw [Gen.Ssa4.sigbits_ShardByPrefix_fn1_loop5]
    simp only [e0, Int.ofNat_lt, hlt, decide_true, ↓reduceIte, index_ofNat, cv_getElem? fds i hi, Option.bind_some,
      shrI32_3_ofNat, e1, gt_iff_lt]
    rw [hd, List.foldl_cons]
    by_cases hc : fds[i] / 8 < m
    · have ih := loop5_eq fuel mx keys fds self s0 e P0 K0 P K he cnt (i + 1) g (fds[i] / 8) (by omega) (by omega) (by omega)
      simp only [hc, decide_true, ↓reduceIte]
      exact ih
    · have ih := loop5_eq fuel mx keys fds self s0 e P0 K0 P K he cnt (i + 1) g m (by omega) (by omega) (by omega)
      simp only [hc, decide_false, Bool.false_eq_true, ↓reduceIte]
      exact ih

/-- the scan of an oversized range: `longest` / `endsAt` as `shardScan` computes them; at the end `e` is appended and
    the loop over the split points (`loop17`) is entered with `s` and index `0` -/
theorem loop10_eq (fuel : Nat) (mx : Int) (keys : List (List Nat)) (fds : List Nat) (self : SelfT) (s0 : Int) (e : Nat)
    (P0 K0 P K : List Int) (he : e < 2147483648) :
    ∀ (cnt i gas longest : Nat) (ends : List Nat), i + cnt + 1 = e → i + cnt ≤ fds.length → cnt + 1 ≤ gas →
      Gen.Ssa4.sigbits_ShardByPrefix_fn1_loop10 fuel mx keys (cv fds) self s0 (e : Int) P0 K0 gas (longest : Int) (cv ends)
          (i : Int) P K
        = Gen.Ssa4.sigbits_ShardByPrefix_fn1_loop17 fuel mx keys (cv fds) self s0 (e : Int) P0 K0 fuel s0 0
            (cv (shardScan fds cnt i longest ends ++ [e])) P K
  | 0, i, gas, longest, ends, h1, h2, hg => by
    obtain ⟨g, rfl⟩ : ∃ g, gas = g + 1 := ⟨gas - 1, by omega⟩
    have e0 := sub_one_ofNat (e := e) (by omega) he
    have hn : ¬ (i < e - 1) := by omega
    rw [Gen.Ssa4.sigbits_ShardByPrefix_fn1_loop10]
    simp only [e0, Int.ofNat_lt, hn, decide_false, Bool.false_eq_true, ↓reduceIte, setIdx_newArray_one, Option.bind_some,
      shardScan, cv, List.map_append, List.map_cons, List.map_nil]
    rfl
  | cnt+1, i, gas, longest, ends, h1, h2, hg => by
    obtain ⟨g, rfl⟩ : ∃ g, gas = g + 1 := ⟨gas - 1, by omega⟩
    have e0 := sub_one_ofNat (e := e) (by omega) he
    have hlt : i < e - 1 := by omega
    have hi : i < fds.length := by omega
    have e1 := add_one_ofNat (i := i) (by omega)
    have hg' : fds.getD i 0 = fds[i] := by simp [List.getD, List.getElem?_eq_getElem hi]
    rw [Gen.Ssa4.sigbits_ShardByPrefix_fn1_loop10]
    simp only [e0, Int.ofNat_lt, hlt, decide_true, ↓reduceIte, index_ofNat, cv_getElem? fds i hi, Option.bind_some,
      shrI32_3_ofNat, e1, setIdx_newArray_one, List.nil_append]
    rw [shardScan]
    simp only [hg']
    by_cases hc : fds[i] / 8 < longest
    · have ih := loop10_eq fuel mx keys fds self s0 e P0 K0 P K he cnt (i + 1) g (fds[i] / 8) [i + 1]
        (by omega) (by omega) (by omega)
      simp only [hc, decide_true, ↓reduceIte]
      exact ih
    · by_cases hq : fds[i] / 8 = longest
      · have ih := loop10_eq fuel mx keys fds self s0 e P0 K0 P K he cnt (i + 1) g longest (ends ++ [i + 1])
          (by omega) (by omega) (by omega)
        have hq' : ((fds[i] / 8 : Nat) : Int) = (longest : Int) := by rw [hq]
        simp only [hc, decide_false, Bool.false_eq_true, ↓reduceIte, hq', decide_true]
        simp only [hq, ↓reduceIte]
        rw [← ih]
        simp [cv]
      · have ih := loop10_eq fuel mx keys fds self s0 e P0 K0 P K he cnt (i + 1) g longest ends
          (by omega) (by omega) (by omega)
        have hq' : ¬ ((fds[i] / 8 : Nat) : Int) = (longest : Int) := by omega
        simp only [hc, decide_false, Bool.false_eq_true, ↓reduceIte, hq', hq]
        exact ih

/-- a strictly ascending chain `s < t₁ < t₂ < … ≤ n` (the split points of a range) -/
def Chain (n : Nat) : Nat → List Nat → Prop
  | _, [] => True
  | s, t :: es => s < t ∧ t ≤ n ∧ Chain n t es

theorem chain_of_splitOK (fds : List Nat) (lam e n : Nat) (he : e ≤ n) :
    ∀ (es : List Nat) (s : Nat), SplitOK fds lam e s es → Chain n s es
  | [], _, h => by simp [SplitOK] at h
  | [t], s, h => by
    simp only [SplitOK] at h
    exact ⟨h.2.1, by omega, trivial⟩
  | t :: t' :: es, s, h => by
    simp only [SplitOK] at h
    exact ⟨h.1, by omega, chain_of_splitOK fds lam e n he (t' :: es) t h.2.2.2.2⟩

theorem chain_length (n : Nat) : ∀ (es : List Nat) (s : Nat), Chain n s es → es.length ≤ n - s
  | [], s, _ => by simp
  | t :: es, s, h => by
    have := chain_length n es t h.2.2
    have := h.1
    have := h.2.1
    simp only [List.length_cons]; omega

/-- the pair of result slices, converted -/
abbrev cv2 (r : ShardAcc) : List Int × List Int := (cv r.1, cv r.2)

/-- the loop over the split points: whenever the model's `shardEach` succeeds, the generated loop, given a `self` that
    follows `shardDfs` on every range, returns the same state -/
theorem loop17_sim (fuel : Nat) (mx : Int) (keys : List (List Nat)) (fds : List Nat) (self : SelfT) (s0 e0 : Int)
    (P0 K0 : List Int) (n mf : Nat) (L : List Nat) (hL : L.length < 4611686018427387904)
    (hself : ∀ (a b : Nat) (acc r : ShardAcc), a < b → b ≤ n → shardDfs keys fds mx mf a b acc = some r →
      self (a : Int) (b : Int) (cv acc.1) (cv acc.2) = some (cv2 r)) :
    ∀ (es : List Nat) (j gas s' : Nat) (acc r : ShardAcc), es = L.drop j → Chain n s' es → es.length + 1 ≤ gas →
      shardEach keys fds mx mf s' es acc = some r →
      Gen.Ssa4.sigbits_ShardByPrefix_fn1_loop17 fuel mx keys (cv fds) self s0 e0 P0 K0 gas (s' : Int) (j : Int) (cv L)
        (cv acc.1) (cv acc.2) = some (cv2 r)
  | [], j, gas, s', acc, r, hd, hc, hg, hm => by
    obtain ⟨g, rfl⟩ : ∃ g, gas = g + 1 := ⟨gas - 1, by omega⟩
    have hj : L.length ≤ j := drop_eq_nil_le hd
    have hn : ¬ (j < L.length) := by omega
    rw [shardEach] at hm
    cases hm
    rw [Gen.Ssa4.sigbits_ShardByPrefix_fn1_loop17]
    simp only [len_eq, cv, List.length_map, Int.ofNat_lt, hn, decide_false, Bool.false_eq_true, ↓reduceIte]
  | t :: rest, j, gas, s', acc, r, hd, hc, hg, hm => by
    obtain ⟨g, rfl⟩ : ∃ g, gas = g + 1 := ⟨gas - 1, by omega⟩
    have hj : j < L.length := drop_eq_cons_lt hd
    have ht : L[j]? = some t := getElem?_of_drop_eq_cons hd
    have ht' : (cv L)[j]? = some (t : Int) := by simp [cv, ht]
    have e1 : addI64 (j : Int) 1 = ((j + 1 : Nat) : Int) := addI64_one_ofNat (by omega)
    rw [shardEach] at hm
    cases hdfs : shardDfs keys fds mx mf s' t acc with
    | none => rw [hdfs] at hm; cases hm
    | some acc' =>
      rw [hdfs] at hm
      have hs := hself s' t acc acc' hc.1 hc.2.1 hdfs
      have ih := loop17_sim fuel mx keys fds self s0 e0 P0 K0 n mf L hL hself rest (j + 1) g t acc' r
        (drop_succ_of_drop_eq_cons hd) hc.2.2 (by simp only [List.length_cons] at hg; omega) hm
      rw [Gen.Ssa4.sigbits_ShardByPrefix_fn1_loop17]
      simp only [len_eq, List.length_map, Int.ofNat_lt, hj, decide_true, ↓reduceIte, index_ofNat, ht', Option.bind_some, hs, e1]
      exact ih

end Low.Tie4L
