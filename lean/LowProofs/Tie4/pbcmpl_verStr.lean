import LowModel.Pbcmpl
import Generated.Ssa4.pbcmpl_verStr
/-
  Tie for `pbcmpl.verStr` (strip the trailing NUL bytes of the 16-byte version field): the definition regenerated from
  the function's go/ssa form equals the model function `Low.verStr`, for every byte list shorter than 2^62 and every
  fuel ≥ len+1 (the loop runs at most len+1 times).
-/
namespace Low

private theorem wrap64_small {x : Int} (h0 : -9223372036854775808 ≤ x) (h1 : x < 9223372036854775808) : wrap64 x = x := by
  unfold wrap64 M64
  simp only []
  split <;> omega

private theorem verStr_snoc_zero (l : List Nat) : verStr (l ++ [0]) = verStr l := by
  simp [verStr, List.reverse_append]

private theorem verStr_snoc_ne (l : List Nat) (x : Nat) (hx : x ≠ 0) : verStr (l ++ [x]) = l ++ [x] := by
  simp [verStr, List.reverse_append, hx]

private theorem take_succ_eq (buf : List Nat) (k : Nat) (hk : k < buf.length) :
    buf.take (k + 1) = buf.take k ++ [buf[k]] := by
  rw [List.take_add_one, List.getElem?_eq_getElem hk]; rfl

private theorem loop_eq (fuel : Nat) (buf : List Nat) (hlen : buf.length < 2^62) :
    ∀ (k gas : Nat), k ≤ buf.length → k + 1 ≤ gas →
      Gen.Ssa4.pbcmpl_verStr_loop3 fuel buf gas ((k : Int) - 1) = some (verStr (buf.take k))
  | 0, gas + 1, _, _ => by
    unfold Gen.Ssa4.pbcmpl_verStr_loop3
    have h7 : decide ((0 : Int) - 1 ≥ 0) = false := by decide
    have e0 : ((0 : Nat) : Int) - 1 = (0 : Int) - 1 := rfl
    rw [e0]
    simp only [h7, Bool.false_eq_true, if_false]
    have : GoSem.addI64 ((0 : Int) - 1) 1 = 0 := by decide
    rw [this]
    simp [GoSem2.slice, verStr]
  | k + 1, gas + 1, hk, hg => by
    unfold Gen.Ssa4.pbcmpl_verStr_loop3
    have hkl : k < buf.length := by omega
    have e6 : ((k + 1 : Nat) : Int) - 1 = (k : Int) := by omega
    rw [e6]
    have h7 : decide ((k : Int) ≥ 0) = true := by simp
    have hidx : GoSem.index buf (k : Int) = some buf[k] := by
      simp [GoSem.index, List.getElem?_eq_getElem hkl]
    simp only [h7, if_true, hidx, Option.bind_some]
    by_cases hz : buf[k] = 0
    · have : decide (buf[k] = (0 : Nat)) = true := by simp [hz]
      simp only [this, if_true]
      have e2 : GoSem.subI64 (k : Int) 1 = (k : Int) - 1 := by
        unfold GoSem.subI64; apply wrap64_small <;> omega
      rw [e2, loop_eq fuel buf hlen k gas (by omega) (by omega), take_succ_eq buf k hkl, hz, verStr_snoc_zero]
    · have : decide (buf[k] = (0 : Nat)) = false := by simp [hz]
      simp only [this, Bool.false_eq_true, if_false]
      have e3 : GoSem.addI64 (k : Int) 1 = ((k + 1 : Nat) : Int) := by
        unfold GoSem.addI64; rw [wrap64_small] <;> omega
      rw [e3]
      have hs : GoSem2.slice buf 0 ((k + 1 : Nat) : Int) = some (buf.take (k + 1)) := by
        unfold GoSem2.slice
        have h : (0 : Int) ≤ 0 ∧ (0 : Int) ≤ ((k + 1 : Nat) : Int) ∧ ((k + 1 : Nat) : Int) ≤ (buf.length : Int) := by omega
        rw [if_pos h]; simp
      simp only [hs, Option.bind_some]
      rw [take_succ_eq buf k hkl, verStr_snoc_ne _ _ hz]

/-- `verStr` as regenerated from its go/ssa form equals the model's `verStr` (trailing NUL bytes stripped), for every
    byte list shorter than 2^62 and every `fuel ≥ len + 1`; it never panics. -/
theorem Tie_pbcmpl_verStr (buf : List Nat) (fuel : Nat) (hlen : buf.length < 2^62) (hfuel : buf.length + 1 ≤ fuel) :
    Gen.Ssa4.pbcmpl_verStr fuel buf = some (verStr buf) := by
  unfold Gen.Ssa4.pbcmpl_verStr
  have e1 : GoSem.subI64 (GoSem.len buf) 1 = ((buf.length : Nat) : Int) - 1 := by
    unfold GoSem.subI64 GoSem.len; apply wrap64_small <;> omega
  simp only [e1]
  rw [loop_eq fuel buf hlen buf.length fuel (Nat.le_refl _) hfuel, List.take_length]

/-! non-vacuity: "1.0.0" padded to 16 bytes, and an all-NUL field -/
example : Gen.Ssa4.pbcmpl_verStr 17 [49, 46, 48, 46, 48, 0, 0, 0, 0, 0, 0, 0, 0, 0, 0, 0] = some [49, 46, 48, 46, 48] := by
  decide +kernel
example : Gen.Ssa4.pbcmpl_verStr 17 [49, 0, 48, 0] = some [49, 0, 48] := by decide +kernel
example : Gen.Ssa4.pbcmpl_verStr 5 [0, 0, 0] = some [] := by decide +kernel

end Low
