import LowProofs.Lemmas.C03Spec
/- C03 helpers, part 2: `tz`, `bitLen`, `height`, `wrap32`, and the bits of `encPath` -/
namespace Low.C03L
open Low

theorem two_pow_32 : (2:Nat)^32 = 4294967296 := by decide
theorem two_pow_31 : (2:Nat)^31 = 2147483648 := by decide
theorem two_pow_64 : (2:Nat)^64 = 18446744073709551616 := by decide

/-! ### tz -/

theorem tz_zero : ∀ m, tz 0 m = m
  | 0 => rfl
  | m+1 => by
    have := tz_zero m
    simp only [tz, Nat.zero_testBit, Nat.zero_shiftRight, this]
    simp; omega

theorem tz_low : ∀ (m w k : Nat), k < tz w m → w.testBit k = false
  | 0, w, k, h => by simp [tz] at h
  | m+1, w, k, h => by
    simp only [tz] at h
    split at h
    · omega
    · rename_i h0
      cases k with
      | zero => exact Bool.eq_false_iff.mpr h0
      | succ k =>
        have := tz_low m (w >>> 1) k (by omega)
        rw [Nat.testBit_shiftRight] at this
        rw [Nat.add_comm]; exact this

theorem tz_spec : ∀ (m w : Nat), w ≠ 0 → w < 2^m → tz w m < m ∧ w.testBit (tz w m) = true
  | 0, w, h0, h => by simp at h; omega
  | m+1, w, h0, h => by
    simp only [tz]
    split
    · rename_i hb; exact ⟨by omega, hb⟩
    · rename_i hb
      have hb' : w % 2 = 0 := by
        rw [Nat.testBit_zero] at hb; simp at hb; omega
      have hw : w >>> 1 ≠ 0 := by
        rw [Nat.shiftRight_eq_div_pow]; omega
      have hlt : w >>> 1 < 2^m := by
        rw [Nat.shiftRight_eq_div_pow]; rw [Nat.pow_succ] at h; omega
      have ⟨a, b⟩ := tz_spec m (w >>> 1) hw hlt
      rw [Nat.testBit_shiftRight] at b
      exact ⟨by omega, b⟩

/-- a set bit below a power-of-two bound -/
theorem lt_of_testBit_of_lt {w k n : Nat} (hb : w.testBit k = true) (hw : w < 2^n) : k < n := by
  rcases Nat.lt_or_ge k n with h | h
  · exact h
  · have : w < 2^k := Nat.lt_of_lt_of_le hw (Nat.pow_le_pow_right (by omega) h)
    rw [Nat.testBit_lt_two_pow this] at hb; cases hb

/-! ### bitLen, height -/

theorem bitLen_le (w : Nat) : ∀ n, bitLen w n ≤ n
  | 0 => by simp [bitLen]
  | n+1 => by
    have := bitLen_le w n
    simp only [bitLen]; split <;> omega

theorem testBit_of_range {w j : Nat} (h1 : 2^j ≤ w) (h2 : w < 2^(j+1)) : w.testBit j = true := by
  rw [Nat.testBit_eq_decide_div_mod_eq]
  have : w / 2^j = 1 := Nat.div_eq_of_lt_le (by omega) (by rw [Nat.pow_succ] at h2; omega)
  rw [this]; rfl

theorem bitLen_of_range {w j : Nat} (h1 : 2^j ≤ w) (h2 : w < 2^(j+1)) : ∀ n, j < n → bitLen w n = j + 1
  | 0, h => by omega
  | n+1, h => by
    simp only [bitLen]
    by_cases hj : n = j
    · subst hj; rw [testBit_of_range h1 h2]; simp
    · have : w.testBit n = false :=
        Nat.testBit_lt_two_pow (Nat.lt_of_lt_of_le h2 (Nat.pow_le_pow_right (by omega) (by omega)))
      rw [this]; simp; exact bitLen_of_range h1 h2 n (by omega)

theorem bitLen_range {w : Nat} (h0 : w ≠ 0) : ∀ n, w < 2^n →
    1 ≤ bitLen w n ∧ 2^(bitLen w n - 1) ≤ w ∧ w < 2^(bitLen w n)
  | 0, h => by simp at h; omega
  | n+1, h => by
    simp only [bitLen]
    split
    · rename_i hb
      exact ⟨by omega, Nat.ge_two_pow_of_testBit hb, h⟩
    · rename_i hb
      have hb' : w.testBit n = false := Bool.eq_false_iff.mpr hb
      have : w < 2^n := by
        apply Nat.lt_pow_two_of_testBit
        intro i hi
        by_cases he : i = n
        · subst he; exact hb'
        · exact Nat.testBit_lt_two_pow (Nat.lt_of_lt_of_le h (Nat.pow_le_pow_right (by omega) (by omega)))
      exact bitLen_range h0 n this

/-- what `height T = h` means -/
theorem height_spec {T h : Nat} (h1 : 1 ≤ T) (h31 : T < 2^31) (hh : height T = (h : Int)) :
    2^h ≤ T ∧ T < 2^(h+1) ∧ h ≤ 30 := by
  have hlt : T < 2^32 := by rw [two_pow_31] at h31; rw [two_pow_32]; omega
  have hm : T % M32 = T := Nat.mod_eq_of_lt (by rw [two_pow_32] at hlt; exact hlt)
  have ⟨a, b, c⟩ := bitLen_range (w := T) (by omega) 32 hlt
  have hle := bitLen_le T 32
  simp only [height, lz, hm] at hh
  have e : bitLen T 32 = h + 1 := by omega
  rw [e] at b c
  refine ⟨by simpa using b, c, ?_⟩
  have : h < 31 := (Nat.pow_lt_pow_iff_right (a := 2) (by omega)).mp (Nat.lt_of_le_of_lt (by simpa using b) h31)
  omega

theorem height_of_range {T h : Nat} (h1 : 2^h ≤ T) (h2 : T < 2^(h+1)) (h30 : h ≤ 30) :
    height T = (h : Int) := by
  have hlt : T < 2^32 := Nat.lt_of_lt_of_le h2 (Nat.pow_le_pow_right (by omega) (by omega))
  have hm : T % M32 = T := Nat.mod_eq_of_lt (by rw [two_pow_32] at hlt; exact hlt)
  simp only [height, lz, hm, bitLen_of_range h1 h2 32 (by omega)]
  omega

/-! ### wrap32 -/

theorem wrap32_id {x : Int} (h0 : 0 ≤ x) (h1 : x < 2147483648) : wrap32 x = x := by
  have : x % ((M32 : Nat) : Int) = x := Int.emod_eq_of_lt h0 (by simp only [M32]; omega)
  simp only [wrap32, this]
  split <;> omega

/-! ### popc helpers -/

theorem popc_mask (l : Nat) : ∀ n, popc (2^l - 1) n = min n l
  | 0 => by simp [popc]
  | n+1 => by
    simp only [popc, popc_mask l n, Nat.testBit_two_pow_sub_one]
    by_cases h : n < l <;> simp [h] <;> omega

theorem popc_shiftLeft (x e m : Nat) : popc (x <<< e) (e + m) = popc x m := by
  rw [popc_add, Nat.shiftLeft_shiftRight]
  have : popc (x <<< e) e = popc 0 e := by
    apply popc_congr; intro k hk; simp [Nat.testBit_shiftLeft]; omega
  rw [this, popc_zero]; omega

/-- complementing the low `n` bits -/
theorem popc_compl {x w : Nat} : ∀ {n : Nat}, (∀ k, k < n → x.testBit k = !w.testBit k) →
    popc x n + popc w n = n
  | 0, _ => rfl
  | n+1, h => by
    have ih := popc_compl (n := n) (fun k hk => h k (by omega))
    simp only [popc, h n (by omega)]
    cases w.testBit n <;> simp <;> omega

/-! ### the path word `encPath h n` -/

/-- path bits (high half) -/
def pbits (h : Nat) (n : List Bool) : Nat := bitsVal n <<< (h - n.length)
/-- path mask (low half) -/
def pmask (h : Nat) (n : List Bool) : Nat := (2 ^ n.length - 1) <<< (h - n.length)

theorem pow_split {h l : Nat} (hl : l ≤ h) : 2^h = 2^l * 2^(h - l) := by
  rw [← Nat.pow_add]; congr 1; omega

theorem pbits_lt {h : Nat} {n : List Bool} (hn : n.length ≤ h) : pbits h n < 2^h := by
  unfold pbits
  rw [Nat.shiftLeft_eq, pow_split hn]
  exact Nat.mul_lt_mul_of_lt_of_le (bitsVal_lt n) (Nat.le_refl _) (Nat.two_pow_pos _)

theorem pmask_lt {h : Nat} {n : List Bool} (hn : n.length ≤ h) : pmask h n < 2^h := by
  unfold pmask
  rw [Nat.shiftLeft_eq, pow_split hn]
  have := Nat.two_pow_pos n.length
  exact Nat.mul_lt_mul_of_lt_of_le (by omega) (Nat.le_refl _) (Nat.two_pow_pos _)

theorem pmask_ge {h : Nat} {n : List Bool} (hn : n.length ≤ h) (h1 : 1 ≤ n.length) :
    2^(h-1) ≤ pmask h n := by
  unfold pmask
  have e : 2^(h-1) = 2^(n.length - 1) * 2^(h - n.length) := by
    rw [← Nat.pow_add]; congr 1; omega
  rw [Nat.shiftLeft_eq, e]
  apply Nat.mul_le_mul_right
  have : 2^n.length = 2 * 2^(n.length - 1) := by
    rw [Nat.mul_comm, ← Nat.pow_succ]; congr 1; omega
  have := Nat.two_pow_pos (n.length - 1)
  omega

theorem testBit_pmask (h : Nat) (n : List Bool) (hn : n.length ≤ h) (k : Nat) :
    (pmask h n).testBit k = decide (h - n.length ≤ k ∧ k < h) := by
  unfold pmask
  rw [Nat.testBit_shiftLeft, Nat.testBit_two_pow_sub_one]
  by_cases h1 : h - n.length ≤ k <;> by_cases h2 : k < h <;> simp [h1, h2] <;> omega

theorem testBit_pbits_imp (h : Nat) (n : List Bool) (hn : n.length ≤ h) (k : Nat)
    (hb : (pbits h n).testBit k = true) : (pmask h n).testBit k = true := by
  unfold pbits at hb
  rw [Nat.testBit_shiftLeft] at hb
  simp only [Bool.and_eq_true, decide_eq_true_eq] at hb
  have := lt_of_testBit_of_lt hb.2 (bitsVal_lt n)
  rw [testBit_pmask h n hn]; simp; omega

theorem encPath_eq (h : Nat) (n : List Bool) (hn : n.length ≤ h) (h32 : h ≤ 32) :
    encPath h n = pbits h n * 4294967296 + pmask h n ∧ pmask h n < 4294967296 := by
  have hlt : pmask h n < 2^32 := Nat.lt_of_lt_of_le (pmask_lt hn) (Nat.pow_le_pow_right (by omega) h32)
  refine ⟨?_, by rw [two_pow_32] at hlt; exact hlt⟩
  show (pbits h n <<< 32) ||| pmask h n = _
  rw [← Nat.shiftLeft_add_eq_or_of_lt hlt, Nat.shiftLeft_eq, two_pow_32]

theorem encPath_shr (h : Nat) (n : List Bool) (hn : n.length ≤ h) (h32 : h ≤ 32) :
    encPath h n >>> 32 = pbits h n := by
  have ⟨e, hl⟩ := encPath_eq h n hn h32
  rw [Nat.shiftRight_eq_div_pow, two_pow_32, e]; omega

theorem encPath_mod (h : Nat) (n : List Bool) (hn : n.length ≤ h) (h32 : h ≤ 32) :
    encPath h n % M32 = pmask h n := by
  have ⟨e, hl⟩ := encPath_eq h n hn h32
  rw [e]; simp only [M32]; omega

theorem popc_pmask (h : Nat) (n : List Bool) (hn : n.length ≤ h) (h32 : h ≤ 32) :
    popc (pmask h n) 32 = n.length := by
  unfold pmask
  have : 32 = (h - n.length) + (32 - (h - n.length)) := by omega
  rw [this, popc_shiftLeft, popc_mask]; omega

theorem pathLen_encPath (h : Nat) (n : List Bool) (hn : n.length ≤ h) (h32 : h ≤ 32) :
    pathLen (encPath h n) = n.length := by
  rw [pathLen, encPath_mod h n hn h32, popc_pmask h n hn h32]

theorem pmask_eq_zero_iff (h : Nat) (n : List Bool) : pmask h n = 0 ↔ n.length = 0 := by
  unfold pmask
  rw [Nat.shiftLeft_eq]
  have h1 := Nat.two_pow_pos (h - n.length)
  constructor
  · intro hz
    rcases Nat.mul_eq_zero.mp hz with h2 | h2
    · rcases Nat.eq_zero_or_pos n.length with h3 | h3
      · exact h3
      · have : 2 ≤ 2^n.length := by
          have := Nat.pow_le_pow_right (n := 2) (by omega) h3
          simpa using this
        omega
    · omega
  · intro hz; rw [hz]; simp

theorem bitLen_pmask (h : Nat) (n : List Bool) (hn : n.length ≤ h) (h1 : 1 ≤ n.length) (h31 : h ≤ 31) :
    bitLen (pmask h n) 32 = h := by
  have := bitLen_of_range (pmask_ge hn h1) (by
    have : h - 1 + 1 = h := by omega
    rw [this]; exact pmask_lt hn) 32 (by omega)
  omega

end Low.C03L
