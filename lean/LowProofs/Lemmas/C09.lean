import LowProofs.Lemmas.C09Table
/- C09 helpers: the shape of a bitstr encoding (`IsEnc`) and what `New` produces -/
namespace Low.C09L
open Low Low.C08L

/-- `enc` encodes the bit string `B`: payload bytes whose bits are `B` followed by `k < 8` zero bits,
    then the mask byte `0xff << k` -/
def IsEnc (B : List Bool) (enc : List Nat) : Prop :=
  ∃ body k, enc = body ++ [256 - 2 ^ k] ∧ BytesOK body ∧ k < 8 ∧ bitsBE body = B ++ zeros k

theorem bitsBE_drop : ∀ (j : Nat) (s : List Nat), (bitsBE s).drop (8 * j) = bitsBE (s.drop j)
  | 0, s => by simp
  | j+1, [] => by simp [bitsBE]
  | j+1, b :: s => by
    rw [bitsBE_cons, List.drop_succ_cons, ← bitsBE_drop j s, List.drop_append,
      List.drop_eq_nil_of_le (by simp; omega)]
    simp only [length_byteBits, List.nil_append]
    congr 1

theorem split_at {α} (l : List α) (i : Nat) (h : i < l.length) :
    ∃ pre y post, l = pre ++ y :: post ∧ pre.length = i :=
  ⟨l.take i, l[i], l.drop (i + 1), by rw [← List.drop_eq_getElem_cons h, List.take_append_drop],
    by simp; omega⟩

theorem new_isEnc (s : List Nat) (hs : BytesOK s) (f t : Nat) (hft : f ≤ t) (ht : t ≤ 8 * s.length) :
    ∃ enc, bsNew s f t = some enc ∧ IsEnc (bsPayload s f t) enc := by
  by_cases h0 : f = t ∧ f % 8 = 0
  · refine ⟨[0xff], by rw [bsNew, if_pos h0], [], 0, by simp, by simp [BytesOK], by omega, ?_⟩
    have : t - 8 * (f / 8) = 0 := by omega
    simp [bsPayload, this, bitsBE]
  · have hT : (t + 7) / 8 ≤ s.length := by omega
    obtain ⟨l1, hl1⟩ : ∃ l1, (t + 7) / 8 - f / 8 = l1 + 1 := ⟨(t + 7) / 8 - f / 8 - 1, by omega⟩
    obtain ⟨pre, y, post, hsplit, hpre⟩ := split_at (s.drop (f / 8)) l1 (by simp; omega)
    have hk : (8 - t % 8) % 8 < 8 := by omega
    obtain ⟨hm, -, -⟩ := mask_table _ hk
    generalize hkk : (8 - t % 8) % 8 = k at hk hm
    have hmem : ∀ z ∈ pre ++ y :: post, z < 256 := by
      intro z hz; rw [← hsplit] at hz; exact hs z (List.mem_of_mem_drop hz)
    have hy : y < 256 := hmem y (by simp)
    have hand : y &&& (256 - 2 ^ k) < 256 := Nat.lt_of_le_of_lt Nat.and_le_left hy
    refine ⟨pre ++ [y &&& (256 - 2 ^ k), 256 - 2 ^ k], ?_, pre ++ [y &&& (256 - 2 ^ k)], k, by simp, ?_, hk, ?_⟩
    · have c1 : ¬ ((t + 7) / 8 > s.length ∨ f / 8 > (t + 7) / 8) := by omega
      simp only [bsNew, h0, if_false, c1, hl1, hsplit, hkk, hm]
      simp [List.take_append, hpre, List.take_of_length_le (show pre.length ≤ l1 + 1 by omega)]
    · intro z hz
      rcases List.mem_append.mp hz with h | h
      · exact hmem z (by simp [h])
      · simp at h; subst h; exact hand
    · have hL : t - 8 * (f / 8) = 8 * l1 + (8 - k) := by omega
      have hP : bsPayload s f t = bitsBE pre ++ (byteBits y).take (8 - k) := by
        rw [bsPayload, bitsBE_drop, hsplit, hL, bitsBE_append, bitsBE_cons,
          List.take_append, length_bitsBE, hpre, List.take_of_length_le (by rw [length_bitsBE, hpre]; omega),
          show 8 * l1 + (8 - k) - 8 * l1 = 8 - k by omega,
          List.take_append_of_le_length (by simp)]
      have h1 : bitsBE [y &&& (256 - 2 ^ k)] = (byteBits y).take (8 - k) ++ zeros k := by
        rw [← and_mask_table k hk y hy]; simp [bitsBE]
      rw [hP, bitsBE_append, h1, List.append_assoc]


theorem isEnc_bits_len {B : List Bool} {body : List Nat} {k : Nat} (h : bitsBE body = B ++ zeros k) :
    8 * body.length = B.length + k := by
  have := congrArg List.length h
  simpa [length_bitsBE] using this

theorem isEnc_ok {B : List Bool} {enc : List Nat} (h : IsEnc B enc) : BytesOK enc := by
  obtain ⟨body, k, rfl, hb, hk, -⟩ := h
  intro z hz
  rcases List.mem_append.mp hz with h | h
  · exact hb z h
  · simp at h; subst h
    have := Nat.two_pow_pos k; omega

theorem isEnc_len {B : List Bool} {enc : List Nat} (h : IsEnc B enc) : bsLen enc = some (B.length : Int) := by
  obtain ⟨body, k, rfl, hb, hk, hbits⟩ := h
  have hl := isEnc_bits_len hbits
  obtain ⟨-, hp, -⟩ := mask_table k hk
  simp only [bsLen, List.getLast?_concat, hp, List.length_append, List.length_singleton]
  congr 1; omega

/-- the first `Len` bits of the encoding are the bit string -/
theorem isEnc_take {B : List Bool} {enc : List Nat} (h : IsEnc B enc) : (bitsBE enc).take B.length = B := by
  obtain ⟨body, k, rfl, hb, hk, hbits⟩ := h
  rw [bitsBE_append, hbits, List.append_assoc, List.take_left' rfl]

theorem bitsBE_enc {B : List Bool} {body : List Nat} {k : Nat} (hk : k < 8) (h : bitsBE body = B ++ zeros k) :
    bitsBE (body ++ [256 - 2 ^ k]) = B ++ pad k := by
  obtain ⟨-, -, hm⟩ := mask_table k hk
  rw [bitsBE_append, h, List.append_assoc]
  congr 1
  simp [bitsBE, hm]

theorem isEnc_cmp {B B' : List Bool} {e e' : List Nat} (h : IsEnc B e) (h' : IsEnc B' e') :
    bsCmp e e' = some (lexCmp B B') := by
  have hok := isEnc_ok h
  have hok' := isEnc_ok h'
  obtain ⟨body, k, rfl, hb, hk, hbits⟩ := h
  obtain ⟨body', k', rfl, hb', hk', hbits'⟩ := h'
  have hl := isEnc_bits_len hbits
  have hl' := isEnc_bits_len hbits'
  by_cases heq : body.length = body'.length
  · have : (body ++ [256 - 2 ^ k]).length = (body' ++ [256 - 2 ^ k']).length := by simp [heq]
    rw [bsCmp, if_pos this, bytesCompare_eq _ _ hok hok', bitsBE_enc hk hbits, bitsBE_enc hk' hbits',
      lexCmp_pad B B' k k' (by omega) (by omega) (by omega)]
  · have hne : ¬ (body ++ [256 - 2 ^ k]).length = (body' ++ [256 - 2 ^ k']).length := by simp [heq]
    have hz : ¬ ((body ++ [256 - 2 ^ k]).length = 0 ∨ (body' ++ [256 - 2 ^ k']).length = 0) := by simp
    rw [bsCmp, if_neg hne, if_neg hz]
    simp only [List.length_append, List.length_singleton, Nat.add_sub_cancel, List.take_left' rfl]
    rw [bytesCompare_eq _ _ hb hb', hbits, hbits']
    congr 1
    by_cases hlt : body.length < body'.length
    · exact lexCmp_pad_short B B' k _ (by omega)
    · rw [lexCmp_antisymm, lexCmp_pad_short B' B k' _ (by omega), ← lexCmp_antisymm]

theorem cmpBytesShort_eq : ∀ (a b : List Nat), a.length ≤ b.length → cmpBytesShort a b = some (bytesCompare a b)
  | [], [], _ => rfl
  | [], _ :: _, _ => rfl
  | _ :: _, [], h => by simp at h
  | x :: a, y :: b, h => by
    have ih := cmpBytesShort_eq a b (by simpa using h)
    simp only [cmpBytesShort, bytesCompare, ih]
    split
    · rfl
    · split <;> rfl

theorem cmpBytes_eq (a b : List Nat) (h : a.length ≤ b.length) : cmpBytes a b = some (bytesCompare a b) := by
  rw [cmpBytes]; split
  · exact cmpBytesShort_eq a b h
  · rfl

theorem isEnc_cmpUpto {B : List Bool} {e : List Nat} (a : List Nat) (ha : BytesOK a) (h : IsEnc B e) :
    bsCmpUpto a e = some (lexCmp ((bitsBE a).take B.length) B) := by
  obtain ⟨body, k, rfl, hb, hk, hbits⟩ := h
  have hl := isEnc_bits_len hbits
  rcases List.eq_nil_or_concat body with rfl | ⟨bpre, y, rfl⟩
  · -- the empty bit string
    have hB : B = [] := by
      have : B.length = 0 := by simp at hl; omega
      exact List.eq_nil_of_length_eq_zero this
    subst hB
    simp [bsCmpUpto, lexCmp]
  · rw [List.concat_eq_append] at hb hbits hl ⊢
    have hlen : (bpre ++ [y] ++ [256 - 2 ^ k]).length = bpre.length + 2 := by simp
    have hy : y < 256 := hb y (by simp)
    have hbpre : BytesOK bpre := fun z hz => hb z (by simp [hz])
    simp only [List.length_append, List.length_singleton] at hl
    -- the bit string is the bits of `bpre` and the first `8-k` bits of `y`; the rest of `y` is zero
    have hsplitB : B = bitsBE bpre ++ (byteBits y).take (8 - k) ∧ zeros k = (byteBits y).drop (8 - k) := by
      have e1 : bitsBE (bpre ++ [y]) =
          (bitsBE bpre ++ (byteBits y).take (8 - k)) ++ (byteBits y).drop (8 - k) := by
        rw [bitsBE_append, List.append_assoc, List.take_append_drop]; simp [bitsBE]
      rw [e1] at hbits
      have := List.append_inj hbits.symm (by simp [length_bitsBE]; omega)
      exact this
    obtain ⟨hB, hz⟩ := hsplitB
    have hyb : byteBits y = (byteBits y).take (8 - k) ++ zeros k := by
      rw [hz, List.take_append_drop]
    simp only [bsCmpUpto, hlen]
    rw [if_neg (by omega), if_neg (by omega)]
    simp only [show bpre.length + 2 - 1 = bpre.length + 1 by omega,
      show bpre.length + 2 - 2 = bpre.length by omega, show bpre.length + 1 - 1 = bpre.length by omega]
    by_cases hla : a.length < bpre.length + 1
    · -- `a` is shorter than the payload: plain comparison
      rw [if_pos hla]
      have ht : (bpre ++ [y] ++ [256 - 2 ^ k]).take (bpre.length + 1) = bpre ++ [y] :=
        List.take_left' (by simp)
      rw [ht, cmpBytes_eq _ _ (by simp; omega), bytesCompare_eq _ _ ha hb, hbits,
        List.take_of_length_le (by rw [length_bitsBE]; omega),
        lexCmp_prefix_short _ _ _ (by rw [length_bitsBE]; omega)]
    · rw [if_neg hla]
      obtain ⟨apre, x, apost, rfl, hapre⟩ := split_at a bpre.length (by omega)
      have hx : x < 256 := ha x (by simp)
      have hapreOK : BytesOK apre := fun z hz => ha z (by simp [hz])
      have t1 : (apre ++ x :: apost).take bpre.length = apre := List.take_left' hapre
      have t2 : (bpre ++ [y] ++ [256 - 2 ^ k]).take bpre.length = bpre := by
        rw [List.append_assoc]; exact List.take_left' rfl
      have g1 : (apre ++ x :: apost)[bpre.length]? = some x := by
        rw [List.getElem?_append_right (by omega)]; simp [hapre]
      have g2 : (bpre ++ [y] ++ [256 - 2 ^ k])[bpre.length + 1]? = some (256 - 2 ^ k) := by
        rw [List.getElem?_append_right (by simp)]; simp
      have g3 : (bpre ++ [y] ++ [256 - 2 ^ k])[bpre.length]? = some y := by
        rw [List.append_assoc, List.getElem?_append_right (by omega)]; simp
      rw [t1, t2, cmpBytes_eq _ _ (by omega), bytesCompare_eq _ _ hapreOK hbpre]
      simp only [g1, g2, g3]
      -- the specification side
      have hA : (bitsBE (apre ++ x :: apost)).take B.length = bitsBE apre ++ (byteBits x).take (8 - k) := by
        rw [bitsBE_append, bitsBE_cons, List.take_append, length_bitsBE,
          List.take_of_length_le (by rw [length_bitsBE]; omega),
          show B.length - 8 * apre.length = 8 - k by omega, List.take_append_of_le_length (by simp)]
      rw [hA, hB, lexCmp_append _ _ _ _ (by simp [length_bitsBE, hapre])]
      by_cases hr : lexCmp (bitsBE apre) (bitsBE bpre) ≠ 0
      · simp only [hr, ne_eq, not_false_eq_true, if_true]
      · simp only [hr, if_false]
        have hxm := and_mask_table k hk x hx
        have hand : x &&& (256 - 2 ^ k) < 256 := Nat.lt_of_le_of_lt Nat.and_le_left hx
        have hc := lexCmp_byteBits hand hy
        rw [hxm, hyb, lexCmp_append_same _ (by simp)] at hc
        rw [hc]
        by_cases c1 : x &&& (256 - 2 ^ k) > y
        · have : ¬ x &&& (256 - 2 ^ k) < y := by omega
          simp [c1, this]
        · by_cases c2 : x &&& (256 - 2 ^ k) < y
          · simp [c1, c2]
          · simp [c1, c2]

end Low.C09L
