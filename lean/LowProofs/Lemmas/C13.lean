import LowProofs.Lemmas.Count
/-
  Helper lemmas for C13 (NextOne / PrevOne): `tz` is the least set bit, `bitLen - 1` the greatest,
  `rmask` / `maskUpto` keep the bits at or above / at or below a position, and the invariants of the
  whole-word loops `nextLoop` / `prevLoop`.
-/
namespace Low.C13L
open Low

/-! ### tz : least set bit -/

theorem tz_le : ∀ (n w : Nat), tz w n ≤ n
  | 0, _ => by simp [tz]
  | n+1, w => by
    simp only [tz]
    split
    · omega
    · have := tz_le n (w >>> 1); omega

/-- no set bit below `tz w n` -/
theorem tz_lt_false : ∀ (n w j : Nat), j < tz w n → w.testBit j = false
  | 0, _, j, h => by simp [tz] at h
  | n+1, w, j, h => by
    simp only [tz] at h
    split at h
    · omega
    · rename_i h0
      cases j with
      | zero => simpa using h0
      | succ j =>
        have := tz_lt_false n (w >>> 1) j (by omega)
        rw [Nat.testBit_shiftRight] at this
        rwa [Nat.add_comm] at this

/-- if `tz w n` is inside the window, the bit there is set -/
theorem tz_testBit : ∀ (n w : Nat), tz w n < n → w.testBit (tz w n) = true
  | 0, _, h => by simp [tz] at h
  | n+1, w, h => by
    simp only [tz] at h ⊢
    split
    · rename_i h0; exact h0
    · rename_i h0
      rw [if_neg h0] at h
      have := tz_testBit n (w >>> 1) (by omega)
      rw [Nat.testBit_shiftRight] at this
      exact this

theorem tz_le_of_testBit {n w k : Nat} (hk : w.testBit k = true) : tz w n ≤ k := by
  apply Nat.le_of_not_lt
  intro h
  have := tz_lt_false n w k h
  rw [hk] at this; cases this

/-- a non-zero word below `2^n` has a set bit below `n` -/
theorem exists_bit_lt {w n : Nat} (h0 : w ≠ 0) (hn : w < 2^n) : ∃ k, k < n ∧ w.testBit k = true := by
  obtain ⟨k, hk⟩ := Nat.exists_testBit_of_ne_zero h0
  refine ⟨k, ?_, hk⟩
  apply Nat.lt_of_not_le
  intro hle
  have h1 : w < 2^k := Nat.lt_of_lt_of_le hn (Nat.pow_le_pow_right (by omega) hle)
  rw [Nat.testBit_lt_two_pow h1] at hk; cases hk

theorem tz_lt {w n : Nat} (h0 : w ≠ 0) (hn : w < 2^n) : tz w n < n := by
  obtain ⟨k, hk, hb⟩ := exists_bit_lt h0 hn
  have := tz_le_of_testBit (n := n) hb
  omega

/-! ### bitLen : greatest set bit, plus one -/

theorem bitLen_le (w : Nat) : ∀ n, bitLen w n ≤ n
  | 0 => by simp [bitLen]
  | n+1 => by
    simp only [bitLen]
    split
    · omega
    · have := bitLen_le w n; omega

/-- no set bit in `[bitLen w n, n)` -/
theorem bitLen_ge_false (w : Nat) : ∀ (n k : Nat), bitLen w n ≤ k → k < n → w.testBit k = false
  | 0, k, _, h => by omega
  | n+1, k, h1, h2 => by
    simp only [bitLen] at h1
    split at h1
    · omega
    · rename_i hb
      by_cases hk : k = n
      · subst hk; simpa using hb
      · exact bitLen_ge_false w n k h1 (by omega)

theorem bitLen_testBit (w : Nat) : ∀ n, 0 < bitLen w n → w.testBit (bitLen w n - 1) = true
  | 0, h => by simp [bitLen] at h
  | n+1, h => by
    simp only [bitLen] at h ⊢
    split
    · rename_i hb; simpa using hb
    · rename_i hb
      rw [if_neg hb] at h
      exact bitLen_testBit w n h

theorem bitLen_pos {w n : Nat} (h0 : w ≠ 0) (hn : w < 2^n) : 0 < bitLen w n := by
  obtain ⟨k, hk, hb⟩ := exists_bit_lt h0 hn
  apply Nat.lt_of_not_le
  intro hle
  have := bitLen_ge_false w n k (by omega) hk
  rw [hb] at this; cases this

/-! ### masks -/

theorem testBit_rmask (j k : Nat) (hj : j ≤ 64) :
    (rmask j).testBit k = (decide (j ≤ k) && decide (k < 64)) := by
  have e : M64 - 1 = 2^64 - 1 := by decide
  simp only [rmask, not64, mask, e, Nat.testBit_xor, Nat.testBit_two_pow_sub_one]
  by_cases h1 : k < 64 <;> by_cases h2 : k < j <;> simp [h1, h2] <;> omega

theorem testBit_and_rmask (w j k : Nat) (hj : j ≤ 64) :
    (w &&& rmask j).testBit k = (w.testBit k && (decide (j ≤ k) && decide (k < 64))) := by
  rw [Nat.testBit_and, testBit_rmask j k hj]

theorem testBit_and_maskUpto (w j k : Nat) :
    (w &&& maskUpto j).testBit k = (w.testBit k && decide (k ≤ j)) := by
  simp only [maskUpto, Nat.testBit_and, Nat.testBit_two_pow_sub_one]
  by_cases h : k ≤ j
  · have : k < j + 1 := by omega
    simp [h, this]
  · have : ¬ k < j + 1 := by omega
    simp [h, this]

theorem and_lt_of_lt {w m : Nat} (hw : w < 2^64) : w &&& m < 2^64 :=
  Nat.lt_of_le_of_lt Nat.and_le_left hw

/-! ### bitmap positions -/

theorem getElem?_of_WordsOK {ws : List Nat} (hok : WordsOK ws) {k w : Nat} (h : ws[k]? = some w) : w < 2^64 :=
  hok w (List.mem_of_getElem? h)

/-- all bits of a zero word are clear -/
theorem bitAt_zero_word {ws : List Nat} {k : Nat} (hw : ws[k]? = some 0) {p : Nat}
    (h1 : 64 * k ≤ p) (h2 : p < 64 * k + 64) : bitAt ws p = false := by
  have : p / 64 = k := by omega
  have hw' : ws[p / 64]? = some 0 := by rw [this]; exact hw
  rw [bitAt_eq hw']; simp

/-! ### nextLoop -/

/-- Invariant of the whole-word loop of `NextOne`, started at word `k` (position `64*k`):
    it does not panic, and either it finds nothing and `[64k, e)` is clear, or it returns the
    least set position `q ≥ 64k` (possibly `≥ e`; the caller clips). -/
theorem nextLoop_spec {ws : List Nat} (hok : WordsOK ws) {e : Nat} (he : e ≤ 64 * ws.length) :
    ∀ (n k : Nat), n = ws.length - k → k ≤ ws.length →
      ∃ r, nextLoop e (ws.drop k) (64 * k) = some r ∧
        ((r = none ∧ ∀ p, 64 * k ≤ p → p < e → bitAt ws p = false) ∨
         (∃ q, r = some q ∧ 64 * k ≤ q ∧ bitAt ws q = true ∧
            ∀ p, 64 * k ≤ p → p < q → bitAt ws p = false))
  | 0, k, hn, hk => by
    have hd : ws.drop k = [] := List.drop_eq_nil_of_le (by omega)
    have hne : ¬ 64 * k < e := by omega
    refine ⟨none, ?_, Or.inl ⟨rfl, ?_⟩⟩
    · simp [hd, nextLoop, hne]
    · intro p h1 h2; omega
  | n+1, k, hn, hk => by
    have hlt : k < ws.length := by omega
    have hd : ws.drop k = ws[k] :: ws.drop (k + 1) := List.drop_eq_getElem_cons hlt
    have hw : ws[k]? = some ws[k] := List.getElem?_eq_getElem hlt
    have hw64 : ws[k] < 2^64 := getElem?_of_WordsOK hok hw
    rw [hd]
    simp only [nextLoop]
    by_cases hie : 64 * k < e
    · rw [if_pos hie]
      by_cases h0 : ws[k] ≠ 0
      · rw [if_pos h0]
        have ht := tz_lt h0 hw64
        refine ⟨some (64 * k + tz ws[k] 64), rfl, Or.inr ⟨_, rfl, by omega, ?_, ?_⟩⟩
        · rw [bitAt_word hw ht]; exact tz_testBit 64 _ ht
        · intro p h1 h2
          have e1 : p = 64 * k + (p - 64 * k) := by omega
          rw [e1, bitAt_word hw (by omega)]
          exact tz_lt_false 64 _ _ (by omega)
      · rw [if_neg h0]
        have h0' : ws[k] = 0 := by
          apply Classical.byContradiction; intro h; exact h0 h
        have hw0 : ws[k]? = some 0 := by rw [hw, h0']
        obtain ⟨r, hr, hspec⟩ := nextLoop_spec hok he n (k + 1) (by omega) (by omega)
        have e64 : 64 * k + 64 = 64 * (k + 1) := by omega
        rw [e64]
        refine ⟨r, hr, ?_⟩
        rcases hspec with ⟨hrn, hall⟩ | ⟨q, hq, hq1, hq2, hq3⟩
        · refine Or.inl ⟨hrn, ?_⟩
          intro p h1 h2
          by_cases hp : p < 64 * k + 64
          · exact bitAt_zero_word hw0 h1 hp
          · exact hall p (by omega) h2
        · refine Or.inr ⟨q, hq, by omega, hq2, ?_⟩
          intro p h1 h2
          by_cases hp : p < 64 * k + 64
          · exact bitAt_zero_word hw0 h1 hp
          · exact hq3 p (by omega) h2
    · rw [if_neg hie]
      refine ⟨none, rfl, Or.inl ⟨rfl, ?_⟩⟩
      intro p h1 h2; omega

/-! ### prevLoop -/

theorem take_succ_reverse {ws : List Nat} {k : Nat} (hlt : k < ws.length) :
    (ws.take (k + 1)).reverse = ws[k] :: (ws.take k).reverse := by
  rw [List.take_add_one, List.getElem?_eq_getElem hlt]
  simp

/-- Invariant of the backward whole-word loop of `PrevOne`, started below word `k`
    (positions `< 64*k`): no panic, and either nothing found and `[i, 64k)` is clear, or the
    greatest set position `q < 64k` (possibly `< i`; the caller clips). -/
theorem prevLoop_spec {ws : List Nat} (hok : WordsOK ws) (i : Nat) :
    ∀ (k : Nat), k ≤ ws.length →
      ∃ r, prevLoop i ((ws.take k).reverse) k = some r ∧
        ((r = none ∧ ∀ p, i ≤ p → p < 64 * k → bitAt ws p = false) ∨
         (∃ q, r = some q ∧ q < 64 * k ∧ bitAt ws q = true ∧
            ∀ p, q < p → p < 64 * k → bitAt ws p = false))
  | 0, _ => by
    refine ⟨none, ?_, Or.inl ⟨rfl, ?_⟩⟩
    · simp [prevLoop]
    · intro p h1 h2; omega
  | k+1, hk => by
    have hlt : k < ws.length := by omega
    have hw : ws[k]? = some ws[k] := List.getElem?_eq_getElem hlt
    have hw64 : ws[k] < 2^64 := getElem?_of_WordsOK hok hw
    rw [take_succ_reverse hlt]
    simp only [prevLoop]
    by_cases hie : 64 * (k + 1) > i
    · rw [if_pos hie]
      by_cases h0 : ws[k] ≠ 0
      · rw [if_pos h0]
        have hb := bitLen_pos h0 hw64
        have hb2 := bitLen_le ws[k] 64
        have eq : 64 * (k + 1) - 1 - lz ws[k] 64 = 64 * k + (bitLen ws[k] 64 - 1) := by
          simp only [lz]; omega
        refine ⟨some (64 * k + (bitLen ws[k] 64 - 1)), by rw [eq], Or.inr ⟨_, rfl, by omega, ?_, ?_⟩⟩
        · rw [bitAt_word hw (by omega)]; exact bitLen_testBit _ 64 hb
        · intro p h1 h2
          have e1 : p = 64 * k + (p - 64 * k) := by omega
          rw [e1, bitAt_word hw (by omega)]
          exact bitLen_ge_false _ 64 _ (by omega) (by omega)
      · rw [if_neg h0]
        have h0' : ws[k] = 0 := by
          apply Classical.byContradiction; intro h; exact h0 h
        have hw0 : ws[k]? = some 0 := by rw [hw, h0']
        obtain ⟨r, hr, hspec⟩ := prevLoop_spec hok i k (by omega)
        have e64 : k + 1 - 1 = k := by omega
        rw [e64]
        refine ⟨r, hr, ?_⟩
        rcases hspec with ⟨hrn, hall⟩ | ⟨q, hq, hq1, hq2, hq3⟩
        · refine Or.inl ⟨hrn, ?_⟩
          intro p h1 h2
          by_cases hp : 64 * k ≤ p
          · exact bitAt_zero_word hw0 hp (by omega)
          · exact hall p h1 (by omega)
        · refine Or.inr ⟨q, hq, by omega, hq2, ?_⟩
          intro p h1 h2
          by_cases hp : 64 * k ≤ p
          · exact bitAt_zero_word hw0 hp (by omega)
          · exact hq3 p h1 (by omega)
    · rw [if_neg hie]
      refine ⟨none, rfl, Or.inl ⟨rfl, ?_⟩⟩
      intro p h1 h2; omega

/-! ### the scans of NextOne / PrevOne before the final clipping -/

/-- first (masked) word plus whole-word loop of `NextOne`: least set position `≥ i`, if any below `e` -/
theorem nextOne_scan {ws : List Nat} (hok : WordsOK ws) {i e w0 : Nat} (he : e ≤ 64 * ws.length)
    (hw : ws[i / 64]? = some w0) :
    ∃ nxt, (if w0 &&& rmask (i % 64) ≠ 0 then some (some (i / 64 * 64 + tz (w0 &&& rmask (i % 64)) 64))
            else nextLoop e (ws.drop ((i + 63) / 64 * 64 / 64)) ((i + 63) / 64 * 64)) = some nxt ∧
      ((nxt = none ∧ ∀ p, i ≤ p → p < e → bitAt ws p = false) ∨
       (∃ q, nxt = some q ∧ i ≤ q ∧ bitAt ws q = true ∧ ∀ p, i ≤ p → p < q → bitAt ws p = false)) := by
  have hw64 : w0 < 2^64 := getElem?_of_WordsOK hok hw
  have hlen : i / 64 < ws.length := by
    rcases Nat.lt_or_ge (i / 64) ws.length with h | h
    · exact h
    · rw [List.getElem?_eq_none h] at hw; cases hw
  have hj : i % 64 ≤ 64 := by omega
  by_cases h0 : w0 &&& rmask (i % 64) ≠ 0
  · rw [if_pos h0]
    have ht := tz_lt h0 (and_lt_of_lt hw64)
    have hb := tz_testBit 64 _ ht
    rw [testBit_and_rmask _ _ _ hj] at hb
    simp only [Bool.and_eq_true, decide_eq_true_eq] at hb
    obtain ⟨hb1, hb2, _⟩ := hb
    refine ⟨_, rfl, Or.inr ⟨_, rfl, by omega, ?_, ?_⟩⟩
    · have e1 : i / 64 * 64 + tz (w0 &&& rmask (i % 64)) 64 = 64 * (i / 64) + tz (w0 &&& rmask (i % 64)) 64 := by omega
      rw [e1, bitAt_word hw ht]; exact hb1
    · intro p h1 h2
      have e1 : p = 64 * (i / 64) + (p - 64 * (i / 64)) := by omega
      have hlt : p - 64 * (i / 64) < tz (w0 &&& rmask (i % 64)) 64 := by omega
      have hf := tz_lt_false 64 _ _ hlt
      rw [testBit_and_rmask _ _ _ hj] at hf
      rw [e1, bitAt_word hw (by omega)]
      have hd1 : decide (i % 64 ≤ p - 64 * (i / 64)) = true := by simp; omega
      have hd2 : decide (p - 64 * (i / 64) < 64) = true := by simp; omega
      rw [hd1, hd2] at hf
      simpa using hf
  · rw [if_neg h0]
    have h0' : w0 &&& rmask (i % 64) = 0 := by
      apply Classical.byContradiction; intro h; exact h0 h
    -- the rest of word i/64 is clear
    have hclear : ∀ p, i ≤ p → p < 64 * (i / 64) + 64 → bitAt ws p = false := by
      intro p h1 h2
      have e1 : p = 64 * (i / 64) + (p - 64 * (i / 64)) := by omega
      have hf : (w0 &&& rmask (i % 64)).testBit (p - 64 * (i / 64)) = false := by rw [h0']; simp
      rw [testBit_and_rmask _ _ _ hj] at hf
      rw [e1, bitAt_word hw (by omega)]
      have hd1 : decide (i % 64 ≤ p - 64 * (i / 64)) = true := by simp; omega
      have hd2 : decide (p - 64 * (i / 64) < 64) = true := by simp; omega
      rw [hd1, hd2] at hf
      simpa using hf
    have ek : (i + 63) / 64 * 64 / 64 = (i + 63) / 64 := by omega
    have ek2 : (i + 63) / 64 * 64 = 64 * ((i + 63) / 64) := by omega
    rw [ek, ek2]
    obtain ⟨r, hr, hspec⟩ := nextLoop_spec hok he (ws.length - (i + 63) / 64) ((i + 63) / 64) rfl (by omega)
    refine ⟨r, hr, ?_⟩
    rcases hspec with ⟨hrn, hall⟩ | ⟨q, hq, hq1, hq2, hq3⟩
    · refine Or.inl ⟨hrn, ?_⟩
      intro p h1 h2
      by_cases hp : 64 * ((i + 63) / 64) ≤ p
      · exact hall p hp h2
      · exact hclear p h1 (by omega)
    · refine Or.inr ⟨q, hq, by omega, hq2, ?_⟩
      intro p h1 h2
      by_cases hp : 64 * ((i + 63) / 64) ≤ p
      · exact hq3 p hp h2
      · exact hclear p h1 (by omega)

/-- last (masked) word plus backward whole-word loop of `PrevOne`: greatest set position `≤ e1`, if any `≥ i` -/
theorem prevOne_scan {ws : List Nat} (hok : WordsOK ws) {i e1 w0 : Nat}
    (hw : ws[e1 / 64]? = some w0) :
    ∃ prv, (if w0 &&& maskUpto (e1 % 64) ≠ 0 then some (some (e1 / 64 * 64 + 63 - lz (w0 &&& maskUpto (e1 % 64)) 64))
            else prevLoop i ((ws.take (e1 / 64)).reverse) (e1 / 64)) = some prv ∧
      ((prv = none ∧ ∀ p, i ≤ p → p ≤ e1 → bitAt ws p = false) ∨
       (∃ q, prv = some q ∧ q ≤ e1 ∧ bitAt ws q = true ∧ ∀ p, q < p → p ≤ e1 → bitAt ws p = false)) := by
  have hw64 : w0 < 2^64 := getElem?_of_WordsOK hok hw
  have hlen : e1 / 64 < ws.length := by
    rcases Nat.lt_or_ge (e1 / 64) ws.length with h | h
    · exact h
    · rw [List.getElem?_eq_none h] at hw; cases hw
  by_cases h0 : w0 &&& maskUpto (e1 % 64) ≠ 0
  · rw [if_pos h0]
    have hpos := bitLen_pos h0 (and_lt_of_lt hw64)
    have hle := bitLen_le (w0 &&& maskUpto (e1 % 64)) 64
    have hb := bitLen_testBit _ 64 hpos
    rw [testBit_and_maskUpto] at hb
    simp only [Bool.and_eq_true, decide_eq_true_eq] at hb
    obtain ⟨hb1, hb2⟩ := hb
    have eq : e1 / 64 * 64 + 63 - lz (w0 &&& maskUpto (e1 % 64)) 64
        = 64 * (e1 / 64) + (bitLen (w0 &&& maskUpto (e1 % 64)) 64 - 1) := by
      simp only [lz]; omega
    rw [eq]
    refine ⟨_, rfl, Or.inr ⟨_, rfl, by omega, ?_, ?_⟩⟩
    · rw [bitAt_word hw (by omega)]; exact hb1
    · intro p h1 h2
      have e1' : p = 64 * (e1 / 64) + (p - 64 * (e1 / 64)) := by omega
      have hf := bitLen_ge_false (w0 &&& maskUpto (e1 % 64)) 64 (p - 64 * (e1 / 64)) (by omega) (by omega)
      rw [testBit_and_maskUpto] at hf
      rw [e1', bitAt_word hw (by omega)]
      have hd1 : decide (p - 64 * (e1 / 64) ≤ e1 % 64) = true := by simp; omega
      rw [hd1] at hf
      simpa using hf
  · rw [if_neg h0]
    have h0' : w0 &&& maskUpto (e1 % 64) = 0 := by
      apply Classical.byContradiction; intro h; exact h0 h
    have hclear : ∀ p, 64 * (e1 / 64) ≤ p → p ≤ e1 → bitAt ws p = false := by
      intro p h1 h2
      have e1' : p = 64 * (e1 / 64) + (p - 64 * (e1 / 64)) := by omega
      have hf : (w0 &&& maskUpto (e1 % 64)).testBit (p - 64 * (e1 / 64)) = false := by rw [h0']; simp
      rw [testBit_and_maskUpto] at hf
      rw [e1', bitAt_word hw (by omega)]
      have hd1 : decide (p - 64 * (e1 / 64) ≤ e1 % 64) = true := by simp; omega
      rw [hd1] at hf
      simpa using hf
    obtain ⟨r, hr, hspec⟩ := prevLoop_spec hok i (e1 / 64) (by omega)
    refine ⟨r, hr, ?_⟩
    rcases hspec with ⟨hrn, hall⟩ | ⟨q, hq, hq1, hq2, hq3⟩
    · refine Or.inl ⟨hrn, ?_⟩
      intro p h1 h2
      by_cases hp : 64 * (e1 / 64) ≤ p
      · exact hclear p hp h2
      · exact hall p h1 (by omega)
    · refine Or.inr ⟨q, hq, by omega, hq2, ?_⟩
      intro p h1 h2
      by_cases hp : 64 * (e1 / 64) ≤ p
      · exact hclear p hp h2
      · exact hq3 p h1 (by omega)

/-! ### `nextOne` / `prevOne` as scan followed by clipping (undoes the do-notation join point) -/

theorem nextOne_eq {ws : List Nat} {i e w0 : Nat} (hw : ws[i / 64]? = some w0) : nextOne ws i e =
      (if w0 &&& rmask (i % 64) ≠ 0 then some (some (i / 64 * 64 + tz (w0 &&& rmask (i % 64)) 64))
            else nextLoop e (ws.drop ((i + 63) / 64 * 64 / 64)) ((i + 63) / 64 * 64)).bind fun nxt =>
        match nxt with
        | none => some (-1)
        | some p => if p ≥ e then some (-1) else some (p : Int) := by
  simp only [nextOne, hw, Option.bind_eq_bind, Option.bind_some]
  split <;> rfl
theorem prevOne_eq {ws : List Nat} {i e w0 : Nat} (he : e ≠ 0) (hw : ws[(e - 1) / 64]? = some w0) : prevOne ws i e =
      (if w0 &&& maskUpto ((e - 1) % 64) ≠ 0 then some (some ((e - 1) / 64 * 64 + 63 - lz (w0 &&& maskUpto ((e - 1) % 64)) 64))
            else prevLoop i ((ws.take ((e - 1) / 64)).reverse) ((e - 1) / 64)).bind fun prv =>
        match prv with
        | none => some (-1)
        | some p => if p < i then some (-1) else some (p : Int) := by
  simp only [prevOne, if_neg he, hw, Option.bind_eq_bind, Option.bind_some]
  split <;> rfl

end Low.C13L
