import LowProofs.Lemmas.C10
/- helper lemmas for C11 (FromStr32): bits of a byte string, bits of `bitsVal`, the 5-byte gather -/
namespace Low.C11L
open Low Low.C10L

/-! ### bits of a byte string -/

theorem byteBits_length (b : Nat) : (byteBits b).length = 8 := by simp [byteBits]

theorem bitsBE_cons (b : Nat) (r : List Nat) : bitsBE (b :: r) = byteBits b ++ bitsBE r := by
  simp [bitsBE]

theorem bitsBE_length : ∀ s : List Nat, (bitsBE s).length = 8 * s.length
  | [] => by simp [bitsBE]
  | b :: r => by rw [bitsBE_cons, List.length_append, byteBits_length, bitsBE_length r, List.length_cons]; omega

theorem byteBits_getD (b p : Nat) (hp : p < 8) : (byteBits b)[p]?.getD false = b.testBit (7 - p) := by
  simp [byteBits, List.getElem?_map, List.getElem?_range hp]

/-- bit `p` of the string is bit `7 - p % 8` of byte `p / 8` (both sides are `false` beyond the end) -/
theorem bitsBE_getD : ∀ (s : List Nat) (p : Nat),
    (bitsBE s)[p]?.getD false = (s[p / 8]?.getD 0).testBit (7 - p % 8)
  | [], p => by simp [bitsBE]
  | b :: r, p => by
    rw [bitsBE_cons, List.getElem?_append, byteBits_length]
    by_cases hp : p < 8
    · have e : p / 8 = 0 := by omega
      have e' : p % 8 = p := by omega
      simp only [hp, if_true, e, e', byteBits_getD b p hp]; simp
    · obtain ⟨q, rfl⟩ : ∃ q, p = q + 8 := ⟨p - 8, by omega⟩
      have ih := bitsBE_getD r q
      have e : (q + 8) / 8 = q / 8 + 1 := by omega
      have e' : (q + 8) % 8 = q % 8 := by omega
      simp only [hp, if_false, Nat.add_sub_cancel, ih, e, e']; simp

/-! ### bits of `bitsVal` -/

theorem testBit_bitsVal : ∀ (L : List Bool) (p : Nat),
    (bitsVal L).testBit p = (decide (p < L.length) && L[L.length - 1 - p]?.getD false)
  | [], p => by simp [bitsVal]
  | b :: r, p => by
    have ih := testBit_bitsVal r p
    simp only [bitsVal]
    rw [Nat.mul_comm, Nat.testBit_two_pow_mul_add _ (bitsVal_lt r)]
    by_cases h : p < r.length
    · have e : (b :: r).length - 1 - p = (r.length - 1 - p) + 1 := by simp; omega
      have h' : p < (b :: r).length := by simp; omega
      rw [e]
      simp only [h, if_true, ih, h', List.getElem?_cons_succ]
    · by_cases e : p = r.length
      · subst e; cases b <;> simp
      · have h' : ¬ p < (b :: r).length := by simp; omega
        have hb : b.toNat < 2 ^ (p - r.length) := by
          have : 2 ^ 1 ≤ 2 ^ (p - r.length) := Nat.pow_le_pow_right (by omega) (by omega)
          cases b <;> simp <;> omega
        simp only [h, if_false, h', Nat.testBit_lt_two_pow hb]; simp

theorem bitsVal_replicate_false (m : Nat) : bitsVal (List.replicate m false) = 0 := by
  induction m with
  | zero => rfl
  | succ m ih => simp [List.replicate_succ, bitsVal, ih]

/-! ### the big-endian gather of five bytes -/

def gather (g : Nat → Nat) : Nat := g 0 <<< 32 ||| g 1 <<< 24 ||| g 2 <<< 16 ||| g 3 <<< 8 ||| g 4 <<< 0

theorem testBit_gather (g : Nat → Nat) (hg : ∀ m, g m < 256) (t : Nat) (ht : t < 40) :
    (gather g).testBit (39 - t) = (g (t / 8)).testBit (7 - t % 8) := by
  have hz : ∀ m q, 8 ≤ q → (g m).testBit q = false := fun m q hq =>
    Nat.testBit_lt_two_pow (Nat.lt_of_lt_of_le (hg m) (Nat.pow_le_pow_right (by omega) hq : 2 ^ 8 ≤ 2 ^ q))
  have key : ∀ m sh, sh = 32 - 8 * m → m < 5 →
      (decide (39 - t ≥ sh) && (g m).testBit (39 - t - sh)) = (decide (t / 8 = m) && (g m).testBit (7 - t % 8)) := by
    intro m sh hsh hm
    by_cases e : t / 8 = m
    · have e1 : 39 - t ≥ sh := by omega
      have e2 : 39 - t - sh = 7 - t % 8 := by omega
      simp [e, e1, e2]
    · by_cases lt : t / 8 < m
      · have e1 : 8 ≤ 39 - t - sh := by omega
        simp [e, hz m _ e1]
      · have e1 : ¬ 39 - t ≥ sh := by omega
        simp [e, e1]
  simp only [gather, Nat.testBit_or, Nat.testBit_shiftLeft]
  rw [key 0 32 (by omega) (by omega), key 1 24 (by omega) (by omega), key 2 16 (by omega) (by omega),
    key 3 8 (by omega) (by omega), key 4 0 (by omega) (by omega)]
  have : t / 8 = 0 ∨ t / 8 = 1 ∨ t / 8 = 2 ∨ t / 8 = 3 ∨ t / 8 = 4 := by omega
  rcases this with h | h | h | h | h <;> simp [h]

/-! ### the value computed by FromStr32 -/

/-- the byte the model reads at offset `m` from byte `i`, given the clamped length `l` -/
def rd (s : List Nat) (l i m : Nat) : Nat := if i + m < l then s.getD (i + m) 0 else 0

theorem ite_shl (c : Prop) [Decidable c] (x sh : Nat) :
    (if c then x <<< sh else 0) = (if c then x else 0) <<< sh := by split <;> simp

theorem gather_rd (s : List Nat) (l i : Nat) :
    ((((if i < l then s.getD i 0 <<< 32 else 0) ||| (if i + 1 < l then s.getD (i + 1) 0 <<< 24 else 0)) |||
      (if i + 2 < l then s.getD (i + 2) 0 <<< 16 else 0)) ||| (if i + 3 < l then s.getD (i + 3) 0 <<< 8 else 0)) |||
      (if i + 4 < l then s.getD (i + 4) 0 <<< 0 else 0) = gather (rd s l i) := by
  simp only [gather, rd, ite_shl, Nat.add_zero]

theorem getD_lt {s : List Nat} (hs : BytesOK s) (k : Nat) : s[k]?.getD 0 < 256 := by
  by_cases h : k < s.length
  · rw [List.getElem?_eq_getElem h]; exact hs _ (List.getElem_mem h)
  · rw [List.getElem?_eq_none (by omega)]; decide

theorem rd_lt {s : List Nat} (hs : BytesOK s) (l i m : Nat) : rd s l i m < 256 := by
  unfold rd; split
  · rw [List.getD_eq_getElem?_getD]; exact getD_lt hs _
  · decide

theorem value_eq {s : List Nat} (hs : BytesOK s) (frm w l : Nat) (hw : w ≤ 32)
    (hl : l = min s.length ((frm + w + 7) / 8)) :
    (gather (rd s l (frm / 8)) >>> (40 - (w + frm % 8))) % 2 ^ w =
      bitsVal (((bitsBE s).drop frm).take (min (8 * s.length - frm) w) ++
        List.replicate (w - min (8 * s.length - frm) w) false) := by
  generalize hk : min (8 * s.length - frm) w = k
  have hL : (((bitsBE s).drop frm).take k ++ List.replicate (w - k) false).length = w := by
    simp [bitsBE_length]; omega
  apply Nat.eq_of_testBit_eq; intro p
  rw [Nat.testBit_mod_two_pow, Nat.testBit_shiftRight, testBit_bitsVal, hL]
  by_cases hp : p < w
  · obtain ⟨j, hj⟩ : ∃ j, j = w - 1 - p := ⟨_, rfl⟩
    have e1 : 40 - (w + frm % 8) + p = 39 - (frm % 8 + j) := by omega
    have e2 : frm / 8 + (frm % 8 + j) / 8 = (frm + j) / 8 := by omega
    have e3 : (frm % 8 + j) % 8 = (frm + j) % 8 := by omega
    rw [e1, testBit_gather _ (rd_lt hs l _) _ (by omega), ← hj, e3]
    simp only [hp, decide_true, Bool.true_and, rd, e2, List.getD_eq_getElem?_getD]
    rw [List.getElem?_append]
    have hlt : (((bitsBE s).drop frm).take k).length = k := by simp [bitsBE_length]; omega
    rw [hlt]
    by_cases hjk : j < k
    · have hin : (frm + j) / 8 < l := by omega
      simp only [hjk, hin, if_true, List.getElem?_take_of_lt hjk, List.getElem?_drop, bitsBE_getD]
    · have hout : ¬ (frm + j) / 8 < l := by omega
      have hr : j - k < w - k := by omega
      simp [hjk, hout, hr]
  · simp [hp]

end Low.C11L
