import LowModel
/- C04 helpers, part 1: generic list facts.
   * two strictly ascending lists with the same members are equal
   * `scan`: "skip while `p < frm`, stop at the first `p ≥ to`, else emit" over a list, accumulating in
     reverse -- the control flow shared by the two loops of `AllPaths`; on an ascending list it is a filter -/
namespace Low.C04L
open Low

/-- two strictly ascending lists with the same members are equal -/
theorem sorted_ext : ∀ (l1 l2 : List Nat), l1.Pairwise (· < ·) → l2.Pairwise (· < ·) →
    (∀ x, x ∈ l1 ↔ x ∈ l2) → l1 = l2
  | [], [], _, _, _ => rfl
  | [], b :: l2, _, _, h => by have := (h b).mpr (by simp); simp at this
  | a :: l1, [], _, _, h => by have := (h a).mp (by simp); simp at this
  | a :: l1, b :: l2, h1, h2, h => by
    rw [List.pairwise_cons] at h1 h2
    have hab : a = b := by
      have ha := (h a).mp (by simp)
      have hb := (h b).mpr (by simp)
      rw [List.mem_cons] at ha hb
      rcases ha with ha | ha
      · exact ha
      · rcases hb with hb | hb
        · exact hb.symm
        · have := h2.1 a ha; have := h1.1 b hb; omega
    subst hab
    have ht : ∀ x, x ∈ l1 ↔ x ∈ l2 := by
      intro x
      constructor
      · intro hx
        have hlt := h1.1 x hx
        have := (h x).mp (List.mem_cons_of_mem _ hx)
        rw [List.mem_cons] at this
        rcases this with e | e
        · omega
        · exact e
      · intro hx
        have hlt := h2.1 x hx
        have := (h x).mpr (List.mem_cons_of_mem _ hx)
        rw [List.mem_cons] at this
        rcases this with e | e
        · omega
        · exact e
    rw [sorted_ext l1 l2 h1.2 h2.2 ht]

/-- the clipping control flow of `AllPaths` over a list of candidate paths:
    returns (accumulator, stopped) -/
def scan (frm to : Nat) : List Nat → List Nat → List Nat × Bool
  | [], acc => (acc, false)
  | p :: r, acc =>
      if p < frm then scan frm to r acc
      else if p ≥ to then (acc, true)
      else scan frm to r (p :: acc)

theorem scan_append (frm to : Nat) : ∀ (l1 l2 acc : List Nat),
    scan frm to (l1 ++ l2) acc =
      if (scan frm to l1 acc).2 then ((scan frm to l1 acc).1, true) else scan frm to l2 (scan frm to l1 acc).1
  | [], l2, acc => by simp [scan]
  | p :: r, l2, acc => by
    simp only [List.cons_append, scan]
    by_cases h1 : p < frm
    · simp only [h1, if_true]; exact scan_append frm to r l2 acc
    · by_cases h2 : p ≥ to
      · simp [h1, h2]
      · simp only [h1, h2, if_false]; exact scan_append frm to r l2 (p :: acc)

/-- once stopped, the accumulator is final whatever follows -/
theorem scan_fst_append_of_stop (frm to : Nat) (l1 l2 acc : List Nat) (h : (scan frm to l1 acc).2 = true) :
    (scan frm to (l1 ++ l2) acc).1 = (scan frm to l1 acc).1 := by
  rw [scan_append, h]; rfl

/-- on an ascending list the clipped scan is a filter -/
theorem scan_sorted (frm to : Nat) : ∀ (l acc : List Nat), l.Pairwise (· < ·) →
    (scan frm to l acc).1 = (l.filter (fun p => decide (frm ≤ p ∧ p < to))).reverse ++ acc
  | [], acc, _ => by simp [scan]
  | p :: r, acc, hs => by
    rw [List.pairwise_cons] at hs
    simp only [scan]
    by_cases h1 : p < frm
    · have : decide (frm ≤ p ∧ p < to) = false := by simp; omega
      simp only [h1, if_true, List.filter_cons, this]
      exact scan_sorted frm to r acc hs.2
    · by_cases h2 : p ≥ to
      · have : decide (frm ≤ p ∧ p < to) = false := by simp; omega
        have hr : r.filter (fun p => decide (frm ≤ p ∧ p < to)) = [] := by
          rw [List.filter_eq_nil_iff]
          intro a ha
          have := hs.1 a ha
          simp; omega
        rw [List.filter_cons, this, hr]
        simp only [h1, h2, if_false, if_true]
        simp
      · have : decide (frm ≤ p ∧ p < to) = true := by simp; omega
        simp only [h1, h2, if_false, List.filter_cons, this, if_true]
        rw [scan_sorted frm to r (p :: acc) hs.2]
        simp

end Low.C04L
