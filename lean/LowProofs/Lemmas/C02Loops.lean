import LowProofs.Lemmas.C02Scan
import LowProofs.Lemmas.C02Idx
import LowProofs.Props.C01
/- C02 helpers, part 5: the word-skipping loops and the two select functions end to end -/
namespace Low.C02L
open Low

/-! ### popcount of a masked word -/

theorem masked_popc_low {w0 c w : Nat} (hm : Masked w0 c w) : ∀ j, j ≤ c → popc w j = 0
  | 0, _ => rfl
  | j+1, h => by
    have hd : decide (c ≤ j) = false := by simp; omega
    simp only [popc, masked_popc_low hm j (by omega), hm j, hd]; simp

theorem masked_popc {w0 c w : Nat} (hm : Masked w0 c w) : ∀ j, c ≤ j → popc w j + popc w0 c = popc w0 j
  | 0, h => by
    have : c = 0 := by omega
    subst this; rfl
  | j+1, h => by
    by_cases hc : c = j + 1
    · subst hc; rw [masked_popc_low hm (j+1) (Nat.le_refl _)]; omega
    · have ih := masked_popc hm j (by omega)
      have hd : decide (c ≤ j) = true := by simp; omega
      simp only [popc, hm j, hd, Bool.and_true]; omega

theorem rank_word_masked {ws : List Nat} {wI w0 c w : Nat} (hw : ws[wI]? = some w0)
    (hm : Masked w0 c w) (hc : c ≤ 64) :
    rank ws (64 * wI + 64) = rank ws (64 * wI + c) + popc w 64 := by
  rw [rank_word hw 64 (by omega), rank_word hw c hc]
  have := masked_popc hm 64 hc
  omega

/-! ### `Select32`: skip whole words by popcount -/

theorem sel32Skip_spec {ws : List Nat} {i : Nat} (hi : i < rank ws (64 * ws.length)) :
    ∀ (rest : List Nat) (w wI f w0 c : Nat), ws.drop (wI+1) = rest → ws[wI]? = some w0 →
      Masked w0 c w → c ≤ 64 → f + rank ws (64 * wI + c) = i →
      ∃ w' wI' f' w0' c', sel32Skip rest w wI f = some (w', wI', f') ∧ ws[wI']? = some w0' ∧
        Masked w0' c' w' ∧ c' ≤ 64 ∧ f' + rank ws (64 * wI' + c') = i ∧ f' < popc w' 64 := by
  intro rest
  induction rest with
  | nil =>
    intro w wI f w0 c hd hw hm hc hf
    have hlt : wI < ws.length := (List.getElem?_eq_some_iff.mp hw).1
    rw [sel32Skip]
    by_cases hp : popc w 64 ≤ f
    · exfalso
      have h1 : ws.length ≤ wI + 1 := List.drop_eq_nil_iff.mp hd
      have h2 : 64 * ws.length = 64 * wI + 64 := by omega
      rw [h2, rank_word_masked hw hm hc] at hi
      omega
    · rw [if_neg hp]
      exact ⟨w, wI, f, w0, c, rfl, hw, hm, hc, hf, by omega⟩
  | cons w1 r ih =>
    intro w wI f w0 c hd hw hm hc hf
    rw [sel32Skip]
    by_cases hp : popc w 64 ≤ f
    · rw [if_pos hp]
      obtain ⟨hw1, _, hdr⟩ := drop_cons_facts hd
      have hr := rank_word_masked hw hm hc
      have e : 64 * (wI + 1) + 0 = 64 * wI + 64 := by omega
      exact ih w1 (wI+1) (f - popc w 64) w1 0 hdr hw1 (masked_refl w1) (by omega)
        (by rw [e, hr]; omega)
    · rw [if_neg hp]
      exact ⟨w, wI, f, w0, c, rfl, hw, hm, hc, hf, by omega⟩

/-! ### the select index entry used for `i` -/

theorem sidx_entry {ws : List Nat} {i : Nat} (hi : i < (ones ws).length) :
    ∃ p0, (indexSelect32 ws)[i / 32]? = some p0 ∧ i / 32 < (indexSelect32 ws).length ∧
      p0 < 64 * ws.length ∧ bitAt ws p0 = true ∧ rank ws p0 = 32 * (i / 32) := by
  have h32 : 32 * (i / 32) < (ones ws).length := by omega
  have hk : i / 32 < ((ones ws).length + 31) / 32 := by omega
  have hg : (ones ws)[32 * (i / 32)]? = some (ones ws)[32 * (i / 32)] := List.getElem?_eq_getElem h32
  obtain ⟨h1, h2, h3⟩ := ones_getElem? hg
  refine ⟨(ones ws)[32 * (i / 32)], ?_, ?_, h1, h2, h3⟩
  · rw [indexSelect32_eq, List.getElem?_map, List.getElem?_range hk]
    simp [List.getD, hg]
  · rw [indexSelect32_eq]; simpa using hk

/-- facts about the position found by `selWord` in a masked word -/
theorem sel_in_word {ws : List Nat} {wI w0 c w f a0 i : Nat} (hw : ws[wI]? = some w0)
    (hm : Masked w0 c w) (hc : c ≤ 64) (hf : f + rank ws (64 * wI + c) = i)
    (hs : IsSel w f a0) (ha : a0 < 64) :
    bitAt ws (64 * wI + a0) = true ∧ rank ws (64 * wI + a0) = i ∧ c ≤ a0 := by
  obtain ⟨hs1, hs2⟩ := hs
  rw [hm a0] at hs1
  have hs1' : w0.testBit a0 = true ∧ c ≤ a0 := by simpa using hs1
  refine ⟨by rw [bitAt_word hw ha]; exact hs1'.1, ?_, hs1'.2⟩
  have hp := masked_popc hm a0 hs1'.2
  rw [rank_word hw a0 (by omega)]
  rw [rank_word hw c hc] at hf
  omega

theorem select32_spec {ws : List Nat} (hok : WordsOK ws) {i : Nat} (hi : i < (ones ws).length) :
    ∃ a b, select32 ws (indexSelect32 ws) i = some (a, b) ∧ bitAt ws a = true ∧ rank ws a = i ∧
      IsNext ws a b := by
  obtain ⟨p0, hidx, hlen, hp0lt, _, hp0r⟩ := sidx_entry hi
  have hi' : i < rank ws (64 * ws.length) := by rw [← ones_length]; exact hi
  have hwlt : p0 / 64 < ws.length := by omega
  have hw0 : ws[p0 / 64]? = some ws[p0 / 64] := List.getElem?_eq_getElem hwlt
  have hw064 : ws[p0 / 64] < 2^64 := hok _ (List.mem_of_getElem? hw0)
  have hm0 : Masked ws[p0 / 64] (p0 % 64) (ws[p0 / 64] &&& not64 (mask (p0 % 64))) := by
    have := masked_and (d := p0 % 64) hw064 (masked_refl ws[p0 / 64])
    rwa [Nat.zero_max] at this
  have hf0 : i % 32 + rank ws (64 * (p0 / 64) + p0 % 64) = i := by
    have e : 64 * (p0 / 64) + p0 % 64 = p0 := by omega
    rw [e, hp0r]; omega
  obtain ⟨w', wI', f', w0', c', hskip, hw', hm', hc', hf', hlt'⟩ :=
    sel32Skip_spec hi' _ _ _ _ _ _ rfl hw0 hm0 (by omega) hf0
  obtain ⟨a0, hsel, hs, ha0⟩ := selWord_spec hlt'
  obtain ⟨hbit, hrank, hca⟩ := sel_in_word hw' hm' hc' hf' hs ha0
  have hw'64 : w0' < 2^64 := hok _ (List.mem_of_getElem? hw')
  have hm2 : Masked w0' (a0 + 1) (w' &&& not64 (maskUpto a0)) := by
    have := masked_and (d := a0 + 1) hw'64 hm'
    have e : max c' (a0 + 1) = a0 + 1 := by omega
    rwa [e] at this
  have hnext := next_spec hok hw' ha0 hm2
  have ea : a0 + wI' * 64 = 64 * wI' + a0 := by omega
  have e1 : (64 * wI' + a0) % 64 = a0 := by omega
  have e2 : (64 * wI' + a0) / 64 = wI' := by omega
  have hnl : ¬ (i / 32 ≥ (indexSelect32 ws).length) := by omega
  refine ⟨64 * wI' + a0, _, ?_, hbit, hrank, hnext⟩
  simp only [select32, hnl, if_false, hidx, hw0, hskip, hsel, Option.bind_eq_bind, Option.bind_some,
    ea, e1, e2]
  split <;> rfl

/-! ### `Select32R64`: advance along the rank index -/

theorem ridx_get {ws : List Nat} {k : Nat} (hk : k ≤ ws.length) :
    (indexRank64 ws true)[k]? = some (rank ws (64 * k)) := by
  rw [C01_indexRank64, List.getElem?_map, List.getElem?_range (by simp; omega)]; rfl

theorem ridx_length (ws : List Nat) : (indexRank64 ws true).length = ws.length + 1 := by
  rw [C01_indexRank64]; simp

theorem r64Skip_spec {ws : List Nat} {i : Nat} (hi : i < rank ws (64 * ws.length)) :
    ∀ (rest : List Nat) (wI : Nat), (indexRank64 ws true).drop (wI+1) = rest →
      rank ws (64 * wI) ≤ i →
      ∃ wI', r64Skip i rest wI = some wI' ∧ wI' < ws.length ∧ rank ws (64 * wI') ≤ i ∧
        i < rank ws (64 * (wI' + 1)) := by
  intro rest
  induction rest with
  | nil =>
    intro wI hd hr
    exfalso
    have h1 := List.drop_eq_nil_iff.mp hd
    rw [ridx_length] at h1
    have := rank_mono ws (a := 64 * ws.length) (b := 64 * wI) (by omega)
    omega
  | cons r rest ih =>
    intro wI hd hr
    obtain ⟨h1, h2, h3⟩ := drop_cons_facts hd
    rw [ridx_length] at h2
    rw [ridx_get (by omega)] at h1
    have hr1 : rank ws (64 * (wI + 1)) = r := Option.some.inj h1
    simp only [r64Skip]
    by_cases hle : r ≤ i
    · rw [if_pos hle]
      exact ih (wI + 1) h3 (by omega)
    · rw [if_neg hle]
      exact ⟨wI, rfl, by omega, hr, by omega⟩

theorem select32R64_spec {ws : List Nat} (hok : WordsOK ws) {i : Nat} (hi : i < (ones ws).length) :
    ∃ a b, select32R64 ws (indexSelect32 ws) (indexRank64 ws true) i = some (a, b) ∧
      bitAt ws a = true ∧ rank ws a = i ∧ IsNext ws a b := by
  obtain ⟨p0, hidx, _, hp0lt, _, hp0r⟩ := sidx_entry hi
  have hi' : i < rank ws (64 * ws.length) := by rw [← ones_length]; exact hi
  have hstart : rank ws (64 * (p0 / 64)) ≤ i := by
    have := rank_mono ws (a := 64 * (p0 / 64)) (b := p0) (by omega)
    omega
  obtain ⟨wI, hskip, hwlt, hlo, hhi⟩ := r64Skip_spec hi' _ _ rfl hstart
  have hw : ws[wI]? = some ws[wI] := List.getElem?_eq_getElem hwlt
  have hr : (indexRank64 ws true)[wI]? = some (rank ws (64 * wI)) := ridx_get (by omega)
  have hw64 : ws[wI] < 2^64 := hok _ (List.mem_of_getElem? hw)
  have hpop : i - rank ws (64 * wI) < popc ws[wI] 64 := by
    have := rank_word hw 64 (by omega)
    have e : 64 * (wI + 1) = 64 * wI + 64 := by omega
    rw [e] at hhi; omega
  obtain ⟨a0, hsel, hs, ha0⟩ := selWord_spec hpop
  obtain ⟨hbit, hrank, _⟩ := sel_in_word (c := 0) (i := i) hw (masked_refl _) (by omega)
    (by simp only [Nat.add_zero]; omega) hs ha0
  have hm2 : Masked ws[wI] (a0 + 1) (ws[wI] &&& rmaskUpto a0) := by
    have := masked_and (d := a0 + 1) hw64 (masked_refl ws[wI])
    rwa [Nat.zero_max] at this
  have hnext := next_spec hok hw ha0 hm2
  have ea : a0 + wI * 64 = 64 * wI + a0 := by omega
  have e1 : (64 * wI + a0) % 64 = a0 := by omega
  have hnl : ¬ (i < rank ws (64 * wI)) := by omega
  refine ⟨64 * wI + a0, _, ?_, hbit, hrank, hnext⟩
  simp only [select32R64, hidx, hskip, hw, hr, hnl, if_false, hsel, Option.bind_eq_bind,
    Option.bind_some, ea, e1]
  split <;> rfl

end Low.C02L
