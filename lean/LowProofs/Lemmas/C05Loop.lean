import LowProofs.Lemmas.C05Word
/-
  C05, part 3: phases B (descent loop) and C (tables).
  Started from `(p2, mask of level r, index i)` with `i` an index of the full subtree of height `r`,
  the loop followed by the table lookup returns `(p2 >>> 1) ||| encPath r (nodeAt r i)`.
-/
namespace Low.C05L
open Low

/-- the loop mask `0x0100000001 << r`: bit `r` of each half -/
def mskR (r : Nat) : Nat := W (2 ^ r) (2 ^ r)

/-- what `indexToPath` does after the loop -/
def fin : Nat × Nat × Int → Option Nat
  | (p2, msk, index) =>
    if index < 0 then none else
    match (idxToPathRow (msk &&& 15))[index.toNat]? with
    | none => none
    | some v => some ((p2 >>> 1) ||| v)

theorem and_two_pow (n i : Nat) : n &&& 2 ^ i = (n.testBit i).toNat * 2 ^ i := by
  apply Nat.eq_of_testBit_eq; intro k
  rw [Nat.testBit_and, Nat.testBit_two_pow]
  by_cases h : i = k
  · subst h
    cases hb : n.testBit i <;> simp
  · cases hb : n.testBit i <;> simp [h]

theorem pow_lt_32 {r : Nat} (hr : r ≤ 30) : 2 ^ r ≤ 1073741824 := by
  have := pow_le_pow hr; simpa using this

theorem mskR_and15_ge {r : Nat} (hr : 4 ≤ r) : mskR r &&& 15 = 0 := by
  have e : (15 : Nat) = 2 ^ 4 - 1 := rfl
  rw [e, Nat.and_two_pow_sub_one_eq_mod]
  obtain ⟨k, rfl⟩ : ∃ k, r = 4 + k := ⟨r - 4, by omega⟩
  simp only [mskR, W, Nat.pow_add]
  generalize 2 ^ k = x
  omega

theorem mskR_and15_lt {r : Nat} (hr : r < 4) : mskR r &&& 15 = 2 ^ r := by
  have : r = 0 ∨ r = 1 ∨ r = 2 ∨ r = 3 := by omega
  rcases this with rfl | rfl | rfl | rfl <;> decide

theorem mskR_shr1 (r : Nat) : mskR (r + 1) >>> 1 = mskR r := by
  simp only [mskR, Nat.pow_succ, Nat.mul_comm _ 2, W_shr1]

/-- phase C: every table row is the list of path words of the full tree of that height, in pre-order -/
theorem table_spec : ∀ r : Fin 4, ∀ i : Fin 15, i.val < 2 ^ (r.val + 1) - 1 →
    (idxToPathRow (2 ^ r.val))[i.val]? = some (encPath r.val (nodeAt r.val i.val)) := by
  decide

/-- leaving the loop: the table lookup finishes the subtree of height `r` -/
theorem fin_exit {r i : Nat} (p2 : Nat) (hi : i < 2 ^ (r + 1) - 1) (hx : r < 4 ∨ i = 0) :
    fin (p2, mskR r, (i : Int)) = some ((p2 >>> 1) ||| encPath r (nodeAt r i)) := by
  have hneg : ¬ ((i : Int) < 0) := by omega
  simp only [fin, hneg, if_false, Int.toNat_natCast]
  by_cases hr : r < 4
  · have hi15 : i < 15 := by
      have : r = 0 ∨ r = 1 ∨ r = 2 ∨ r = 3 := by omega
      rcases this with rfl | rfl | rfl | rfl <;> simp at hi <;> omega
    have := table_spec ⟨r, hr⟩ ⟨i, hi15⟩ hi
    simp only at this
    rw [mskR_and15_lt hr, this]
  · have h0 : i = 0 := by omega
    subst h0
    rw [mskR_and15_ge (by omega), nodeAt_zero, encPath_nil]
    simp [idxToPathRow]

/-- `uint64(index) << 32 | 0xffffffff` -/
theorem idxWord {i : Nat} (hi : i < 2147483648) :
    shl64 (u64 (i : Int)) 32 ||| 0xffffffff = W i 0xffffffff := by
  have h1 : shl64 (u64 (i : Int)) 32 = W i 0 := by
    rw [u64_nat (by omega)]
    unfold shl64
    rw [if_pos (by decide)]
    simp only [W, Nat.shiftLeft_eq, M64]; omega
  rw [h1]
  simp only [W, Nat.add_zero]
  exact (Nat.two_pow_add_eq_or_of_lt (by decide) i).symm

/-- one iteration of the loop at level `r+1 ≥ 4`, index `i > 0`: branch = bit `r+1` of `i` -/
theorem loop_step {r i : Nat} (fuel p2 : Nat) (hr4 : 4 ≤ r + 1) (hr : r + 1 ≤ 30)
    (hi0 : 0 < i) (hi : i < 2 ^ (r + 1 + 1) - 1) :
    i2pLoop (fuel + 1) p2 (mskR (r + 1)) (i : Int) =
      i2pLoop fuel (p2 ||| W ((i.testBit (r + 1)).toNat * 2 ^ (r + 1)) (2 ^ (r + 1))) (mskR r)
        ((if i.testBit (r + 1) then i - 2 ^ (r + 1) else i - 1 : Nat) : Int) := by
  have hp := pow_lt_32 hr
  have hp1 : 2 ^ (r + 1 + 1) = 2 * 2 ^ (r + 1) := by rw [Nat.pow_succ]; omega
  have hi31 : i < 2147483648 := by omega
  have hcond : mskR (r + 1) &&& 15 = 0 ∧ (i : Int) > 0 := ⟨mskR_and15_ge hr4, by omega⟩
  have hm32 : 2 ^ (r + 1) < 2 ^ 32 := by omega
  -- maskAndPathBit
  have hmpb : (shl64 (u64 (i : Int)) 32 ||| 0xffffffff) &&& mskR (r + 1) =
      W ((i.testBit (r + 1)).toNat * 2 ^ (r + 1)) (2 ^ (r + 1)) := by
    rw [idxWord hi31, mskR, W_and (by decide) hm32, and_two_pow, and_two_pow]
    have hb : (4294967295 : Nat).testBit (r + 1) = true := by
      have e : (4294967295 : Nat) = 2 ^ 32 - 1 := by decide
      rw [e, Nat.testBit_two_pow_sub_one]; simp; omega
    simp [hb]
  rw [i2pLoop, if_pos hcond]
  simp only [hmpb, W_shr32 hm32, mskR_shr1]
  cases hb : i.testBit (r + 1)
  · have e0 : wrap32 (((false.toNat * 2 ^ (r + 1) : Nat) : Int)) = 0 := by simp [wrap32]
    have e1 : wrap32 ((i : Int) - 1) = ((i - 1 : Nat) : Int) := by
      rw [wrap32_id (by omega) (by omega)]; omega
    simp only [e0, if_true, e1, Bool.false_eq_true, if_false]
  · have hge : 2 ^ (r + 1) ≤ i := Nat.ge_two_pow_of_testBit hb
    have e0 : wrap32 (((true.toNat * 2 ^ (r + 1) : Nat) : Int)) = ((2 ^ (r + 1) : Nat) : Int) := by
      simp only [Bool.toNat_true, Nat.one_mul]
      rw [wrap32_id (by omega) (by omega)]
    have hne : ¬ (((2 ^ (r + 1) : Nat) : Int) = 0) := by
      have := Nat.two_pow_pos (r + 1); omega
    have e1 : wrap32 ((i : Int) - ((2 ^ (r + 1) : Nat) : Int)) = ((i - 2 ^ (r + 1) : Nat) : Int) := by
      rw [wrap32_id (by omega) (by omega)]; omega
    simp only [e0, hne, if_false, e1, if_true]

/-- the half-shifted contribution of one iteration is the first branch of the path word -/
theorem encPath_cons {r : Nat} (b : Bool) {rest : List Bool} (hl : rest.length ≤ r) (hr : r + 1 ≤ 32) :
    encPath (r + 1) (b :: rest) =
      (W (b.toNat * 2 ^ (r + 1)) (2 ^ (r + 1)) >>> 1) ||| encPath r rest := by
  have h := encPath_append (f := 1) (r := r) (pfx := [b]) (rest := rest) rfl hl (by omega)
  have e1 : 1 + r = r + 1 := by omega
  rw [e1] at h
  simp only [List.singleton_append] at h
  rw [h]
  congr 1
  have e2 : 2 ^ (r + 1) = 2 * 2 ^ r := by rw [Nat.pow_succ]; omega
  have e3 : b.toNat * (2 * 2 ^ r) = 2 * (b.toNat * 2 ^ r) := by
    rw [Nat.mul_left_comm]
  rw [e2, e3, W_shr1]
  congr 1
  · simp [bitsVal]
  · omega

/-- phases B + C: the loop with enough fuel, then the table -/
theorem loop_spec : ∀ (fuel r p2 i : Nat), r ≤ fuel → r ≤ 30 → i < 2 ^ (r + 1) - 1 →
    fin (i2pLoop fuel p2 (mskR r) (i : Int)) = some ((p2 >>> 1) ||| encPath r (nodeAt r i))
  | 0, r, p2, i, hf, _, hi => by
    have : r = 0 := by omega
    subst this
    rw [i2pLoop]
    exact fin_exit p2 hi (Or.inl (by omega))
  | fuel + 1, r, p2, i, hf, hr, hi => by
    by_cases hx : r < 4 ∨ i = 0
    · have hcond : ¬ (mskR r &&& 15 = 0 ∧ (i : Int) > 0) := by
        rcases hx with h | h
        · rw [mskR_and15_lt h]
          have := Nat.two_pow_pos r; omega
        · omega
      rw [i2pLoop, if_neg hcond]
      exact fin_exit p2 hi hx
    · obtain ⟨r', rfl⟩ : ∃ r', r = r' + 1 := ⟨r - 1, by omega⟩
      have hi0 : 0 < i := by omega
      have hp1 : 2 ^ (r' + 1 + 1) = 2 * 2 ^ (r' + 1) := by rw [Nat.pow_succ]; omega
      rw [loop_step fuel p2 (by omega) hr hi0 hi]
      have hlen : ∀ j, j < 2 ^ (r' + 1) - 1 → (nodeAt r' j).length ≤ r' := fun j hj =>
        (nodeAt_spec r' j hj).1
      rw [nodeAt_succ, if_neg (show ¬ i = 0 by omega)]
      cases hb : i.testBit (r' + 1)
      · have hlt : i < 2 ^ (r' + 1) := by
          apply Decidable.by_contra; intro hge
          have := Nat.testBit_of_two_pow_le_and_two_pow_add_one_gt (n := i) (i := r' + 1)
            (by omega) (by omega)
          rw [hb] at this; cases this
        have hc : i - 1 < 2 ^ (r' + 1) - 1 := by omega
        simp only [Bool.false_eq_true, if_false, if_pos hc]
        rw [loop_spec fuel r' _ (i - 1) (by omega) (by omega) hc,
          encPath_cons false (hlen _ hc) (by omega), Nat.shiftRight_or_distrib, Nat.or_assoc]
      · have hge : 2 ^ (r' + 1) ≤ i := Nat.ge_two_pow_of_testBit hb
        have hc : ¬ (i - 1 < 2 ^ (r' + 1) - 1) := by omega
        have hc' : i - 2 ^ (r' + 1) < 2 ^ (r' + 1) - 1 := by omega
        simp only [if_true, if_neg hc]
        rw [loop_spec fuel r' _ (i - 2 ^ (r' + 1)) (by omega) (by omega) hc',
          encPath_cons true (hlen _ hc') (by omega), Nat.shiftRight_or_distrib, Nat.or_assoc]

end Low.C05L
