import LowModel
/- C08/C09 helpers: bit lists of fixed width, `bitsVal`, `byteBits` (core Lean only) -/
namespace Low.C08L
open Low

/-- the low `n` bits of `w`, most significant first -/
def wordBits (n w : Nat) : List Bool := (List.range n).map fun j => w.testBit (n - 1 - j)

theorem wordBits_zero (w : Nat) : wordBits 0 w = [] := rfl

theorem wordBits_succ (n w : Nat) : wordBits (n + 1) w = w.testBit n :: wordBits n w := by
  simp only [wordBits, List.range_succ_eq_map, List.map_cons, List.map_map]
  congr 1
  apply List.map_congr_left
  intro j _
  simp only [Function.comp, Nat.succ_eq_add_one]
  congr 1; omega

@[simp] theorem length_wordBits (n w : Nat) : (wordBits n w).length = n := by simp [wordBits]

theorem byteBits_eq (b : Nat) : byteBits b = wordBits 8 b := rfl

@[simp] theorem length_byteBits (b : Nat) : (byteBits b).length = 8 := by simp [byteBits]

theorem length_bitsBE (s : List Nat) : (bitsBE s).length = 8 * s.length := by
  induction s with
  | nil => rfl
  | cons b s ih => simp [bitsBE, List.flatMap_cons] at ih ⊢; omega

theorem bitsBE_cons (b : Nat) (s : List Nat) : bitsBE (b :: s) = byteBits b ++ bitsBE s := by
  simp [bitsBE]

theorem bitsBE_append (s t : List Nat) : bitsBE (s ++ t) = bitsBE s ++ bitsBE t := by
  simp [bitsBE]

theorem bitsVal_append : ∀ (l1 l2 : List Bool), bitsVal (l1 ++ l2) = bitsVal l1 * 2 ^ l2.length + bitsVal l2
  | [], l2 => by simp [bitsVal]
  | b :: r, l2 => by
    simp only [List.cons_append, bitsVal, bitsVal_append r l2, List.length_append, Nat.pow_add,
      Nat.add_mul, Nat.mul_assoc, Nat.add_assoc]

theorem bitsVal_lt : ∀ (l : List Bool), bitsVal l < 2 ^ l.length
  | [] => by simp [bitsVal]
  | b :: r => by
    have := bitsVal_lt r
    simp only [bitsVal, List.length_cons, Nat.pow_succ]
    cases b <;> simp <;> omega

theorem bitsVal_replicate_false : ∀ k, bitsVal (List.replicate k false) = 0
  | 0 => rfl
  | k+1 => by simp [List.replicate_succ, bitsVal, bitsVal_replicate_false k]

theorem wordBits_mod (n w : Nat) : wordBits n (w % 2 ^ n) = wordBits n w := by
  simp only [wordBits]
  apply List.map_congr_left
  intro j hj
  have : j < n := by simpa using hj
  rw [Nat.testBit_mod_two_pow]
  have : n - 1 - j < n := by omega
  simp [this]

theorem wordBits_congr {n a b : Nat} (h : a % 2 ^ n = b % 2 ^ n) : wordBits n a = wordBits n b := by
  rw [← wordBits_mod n a, ← wordBits_mod n b, h]

theorem bitsVal_wordBits : ∀ (n w : Nat), bitsVal (wordBits n w) = w % 2 ^ n
  | 0, w => by simp [wordBits_zero, bitsVal, Nat.mod_one]
  | n+1, w => by
    rw [wordBits_succ, bitsVal, bitsVal_wordBits n w, length_wordBits, Nat.mod_pow_succ,
      Nat.testBit_eq_decide_div_mod_eq]
    have : w / 2 ^ n % 2 = 0 ∨ w / 2 ^ n % 2 = 1 := by omega
    rcases this with h | h <;> simp [h] <;> omega

theorem wordBits_bitsVal : ∀ (n : Nat) (l : List Bool), l.length = n → wordBits n (bitsVal l) = l
  | 0, [], _ => rfl
  | n+1, b :: r, h => by
    have hr : r.length = n := by simpa using h
    have hlt := bitsVal_lt r
    rw [hr] at hlt
    rw [wordBits_succ, bitsVal, hr]
    have e : b.toNat * 2 ^ n + bitsVal r = 2 ^ n * b.toNat + bitsVal r := by rw [Nat.mul_comm]
    congr 1
    · rw [e, Nat.testBit_two_pow_mul_add _ hlt]
      cases b <;> simp
    · have : wordBits n (b.toNat * 2 ^ n + bitsVal r) = wordBits n (bitsVal r) := by
        apply wordBits_congr
        rw [Nat.add_comm, Nat.add_mul_mod_self_right]
      rw [this, wordBits_bitsVal n r hr]

theorem wordBits_inj {n a b : Nat} (ha : a < 2 ^ n) (hb : b < 2 ^ n) (h : wordBits n a = wordBits n b) : a = b := by
  have := congrArg bitsVal h
  rwa [bitsVal_wordBits, bitsVal_wordBits, Nat.mod_eq_of_lt ha, Nat.mod_eq_of_lt hb] at this

theorem byteBits_bitsVal (l : List Bool) (h : l.length = 8) : byteBits (bitsVal l) = l :=
  wordBits_bitsVal 8 l h

theorem bitsVal_byteBits {b : Nat} (h : b < 256) : bitsVal (byteBits b) = b := by
  rw [byteBits_eq, bitsVal_wordBits]; omega

end Low.C08L
