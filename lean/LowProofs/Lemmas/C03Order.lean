import LowProofs.Lemmas.C03Spec
/- C03 helpers, part 6: surjectivity of `preIdx` onto the positions, and strict monotonicity for the
   pre-order on nodes given directly -/
namespace Low.C03L
open Low

theorem preIdx_lt (T : Nat) (r d : Nat) (m : List Bool) (hT : T < 2^(d+r+1)) (hm : m.length ≤ r)
    (hs : T.testBit (d + m.length) = true) : preIdx T d m < T >>> d := by
  have h1 := preorder_index T r d [] m hT hm hs
  have h2 := preorder_length_of_lt (r := r) (d := d) [] hT
  rcases Nat.lt_or_ge (preIdx T d m) (preorder T r d []).length with h | h
  · omega
  · rw [List.getElem?_eq_none h] at h1; cases h1

/-- every position of the enumeration holds a stored node whose `preIdx` is that position -/
theorem preorder_surj (T : Nat) : ∀ (r d : Nat) (pfx : List Bool) (i : Nat),
    T < 2^(d+r+1) → i < (preorder T r d pfx).length →
    ∃ s : List Bool, (preorder T r d pfx)[i]? = some (pfx ++ s) ∧ s.length ≤ r ∧
      T.testBit (d + s.length) = true ∧ preIdx T d s = i
  | 0, d, pfx, i, _, hi => by
    simp only [preorder] at hi ⊢
    by_cases ht : T.testBit d = true
    · simp only [ht, if_true, List.length_singleton] at hi ⊢
      have : i = 0 := by omega
      subst this
      exact ⟨[], by simp, by simp, by simpa using ht, rfl⟩
    · simp [ht] at hi
  | r+1, d, pfx, i, hT, hi => by
    have hT' : T < 2^(d+1+r+1) := by
      have : d+1+r+1 = d+(r+1)+1 := by omega
      rw [this]; exact hT
    have hL := preorder_length_of_lt (pfx ++ [false]) hT'
    have hR := preorder_length_of_lt (pfx ++ [true]) hT'
    have hA : (if T.testBit d then [pfx] else []).length = (T.testBit d).toNat := by
      cases T.testBit d <;> rfl
    simp only [preorder, List.length_append, hA, hL, hR] at hi
    simp only [preorder]
    by_cases h1 : i < (T.testBit d).toNat
    · have ht : T.testBit d = true := by
        cases h : T.testBit d with
        | true => rfl
        | false => rw [h] at h1; simp at h1
      have : i = 0 := by rw [ht] at h1; simp at h1; omega
      subst this
      exact ⟨[], by simp [ht], by simp, by simpa using ht, rfl⟩
    · by_cases h2 : i < (T.testBit d).toNat + T >>> (d+1)
      · have ⟨s, a, b, c, e⟩ := preorder_surj T r (d+1) (pfx ++ [false]) (i - (T.testBit d).toNat) hT'
          (by rw [hL]; omega)
        refine ⟨false :: s, ?_, by simp only [List.length_cons]; omega, ?_, ?_⟩
        · rw [List.append_assoc, List.getElem?_append_right (by rw [hA]; omega), hA,
            List.getElem?_append_left (by rw [hL]; omega), a]
          simp
        · have : d + (false :: s).length = d + 1 + s.length := by simp only [List.length_cons]; omega
          rw [this]; exact c
        · simp only [preIdx, e]; simp; omega
      · have ⟨s, a, b, c, e⟩ := preorder_surj T r (d+1) (pfx ++ [true])
          (i - (T.testBit d).toNat - T >>> (d+1)) hT' (by rw [hR]; omega)
        refine ⟨true :: s, ?_, by simp only [List.length_cons]; omega, ?_, ?_⟩
        · rw [List.getElem?_append_right (by simp only [List.length_append, hA, hL]; omega)]
          simp only [List.length_append, hA, hL]
          have : i - ((T.testBit d).toNat + T >>> (d + 1)) = i - (T.testBit d).toNat - T >>> (d+1) := by
            omega
          rw [this, a]; simp
        · have : d + (true :: s).length = d + 1 + s.length := by simp only [List.length_cons]; omega
          rw [this]; exact c
        · simp only [preIdx, e]; simp; omega

/-- pre-order on nodes, given directly: an ancestor precedes its descendants; otherwise the node that
    goes left at the first difference precedes the one that goes right -/
def preLt : List Bool → List Bool → Bool
  | [], [] => false
  | [], _ :: _ => true
  | _ :: _, [] => false
  | a :: r, b :: s => if a = b then preLt r s else (!a && b)

theorem preIdx_strictMono (T : Nat) : ∀ (r : Nat) (n n' : List Bool) (d : Nat), T < 2^(d+r+1) →
    n.length ≤ r → T.testBit (d + n.length) = true →
    n'.length ≤ r → T.testBit (d + n'.length) = true →
    preLt n n' = true → preIdx T d n < preIdx T d n'
  | _, [], [], _, _, _, _, _, _, h => by simp [preLt] at h
  | _, [], b :: s, d, _, _, hs, _, _, _ => by
    simp only [List.length_nil, Nat.add_zero] at hs
    simp only [preIdx, hs]; simp; omega
  | _, _ :: _, [], _, _, _, _, _, _, h => by simp [preLt] at h
  | 0, a :: m, b :: s, d, _, hn, _, _, _, _ => by simp at hn
  | r+1, a :: m, b :: s, d, hT, hn, hs, hn', hs', h => by
    have hT' : T < 2^(d+1+r+1) := by
      have : d+1+r+1 = d+(r+1)+1 := by omega
      rw [this]; exact hT
    have hm : m.length ≤ r := by simp only [List.length_cons] at hn; omega
    have hm' : s.length ≤ r := by simp only [List.length_cons] at hn'; omega
    have hsm : T.testBit (d + 1 + m.length) = true := by
      have : d + 1 + m.length = d + (a :: m).length := by simp only [List.length_cons]; omega
      rw [this]; exact hs
    have hss : T.testBit (d + 1 + s.length) = true := by
      have : d + 1 + s.length = d + (b :: s).length := by simp only [List.length_cons]; omega
      rw [this]; exact hs'
    simp only [preLt] at h
    by_cases hab : a = b
    · subst hab
      simp only [if_true] at h
      have := preIdx_strictMono T r m s (d+1) hT' hm hsm hm' hss h
      simp only [preIdx]; omega
    · simp only [hab, if_false, Bool.and_eq_true, Bool.not_eq_true'] at h
      obtain ⟨ha, hb⟩ := h
      subst ha; subst hb
      have := preIdx_lt T r (d+1) m hT' hm hsm
      simp only [preIdx]; simp; omega

end Low.C03L
