import LowProofs.Lemmas.C12Bits
/-
  Helper lemmas for C15 (TailBitmap): the representation invariant, stated against an abstract
  membership predicate `S : Int → Prop`, its preservation by `dropOnes`/`compact`/`set`, and what
  `get`/`get1` return under it.
-/
namespace Low.C15L
open Low Low.C12L

/-- the invariant on the raw pair (offset, words), without the first-word clause -/
structure Pre (S : Int → Prop) (o : Int) (ws : List Nat) : Prop where
  dvd : (64 : Int) ∣ o
  ok : WordsOK ws
  below : ∀ j, j < o → S j
  bits : ∀ k : Nat, k < 64 * ws.length → (bitAt ws k = true ↔ S (o + k))
  covers : ∀ j, S j → j < o + 64 * ws.length

/-- representation invariant of a `TailBitmap` w.r.t. the abstract set `S` -/
structure Inv (S : Int → Prop) (tb : TailBitmap) : Prop where
  pre : Pre S tb.offset tb.words
  head : tb.words.head? ≠ some allOnes64

theorem Pre.congr {S S' : Int → Prop} {o : Int} {ws : List Nat} (e : ∀ j, S j ↔ S' j) (h : Pre S o ws) :
    Pre S' o ws :=
  ⟨h.dvd, h.ok, fun j hj => (e j).mp (h.below j hj), fun k hk => (h.bits k hk).trans (e _),
   fun j hj => h.covers j ((e j).mpr hj)⟩

theorem Inv.congr {S S' : Int → Prop} {tb : TailBitmap} (e : ∀ j, S j ↔ S' j) (h : Inv S tb) : Inv S' tb :=
  ⟨h.pre.congr e, h.head⟩

theorem allOnes64_eq : allOnes64 = 2 ^ 64 - 1 := by decide

theorem allOnes64_testBit {k : Nat} (hk : k < 64) : allOnes64.testBit k = true := by
  rw [allOnes64_eq, Nat.testBit_two_pow_sub_one]; simp [hk]

theorem inv_new {o : Int} (ho : (64 : Int) ∣ o) : Inv (fun j => j < o) (newTailBitmap o) := by
  refine ⟨⟨ho, ?_, ?_, ?_, ?_⟩, ?_⟩
  · intro x hx; cases hx
  · intro j hj; exact hj
  · intro k hk; simp [newTailBitmap] at hk
  · intro j hj; simp [newTailBitmap]; exact hj
  · simp [newTailBitmap]

/-- `dropOnes` removes a prefix of all-ones words: each moves 64 members below the offset -/
theorem dropOnes_spec {S : Int → Prop} : ∀ (ws : List Nat) (o : Int), Pre S o ws →
    Pre S (dropOnes ws o).2 (dropOnes ws o).1 ∧ (dropOnes ws o).1.head? ≠ some allOnes64 ∧
    o ≤ (dropOnes ws o).2 ∧ (dropOnes ws o).2 + 64 * ((dropOnes ws o).1.length : Int) = o + 64 * (ws.length : Int)
  | [], o, h => by
    simp only [dropOnes]
    exact ⟨h, by simp, Int.le_refl _, by simp⟩
  | w :: r, o, h => by
    simp only [dropOnes]
    split
    · rename_i hw
      have hp : Pre S (o + 64) r := by
        refine ⟨?_, ?_, ?_, ?_, ?_⟩
        · have := h.dvd; omega
        · intro x hx; exact h.ok x (List.mem_cons_of_mem _ hx)
        · intro j hj
          by_cases hjo : j < o
          · exact h.below j hjo
          · have hk : (j - o).toNat < 64 := by omega
            have hb := (h.bits (j - o).toNat (by simp only [List.length_cons]; omega)).mp
              (by rw [bitAt_cons_lt w r hk, hw]; exact allOnes64_testBit hk)
            have e : o + ((j - o).toNat : Int) = j := by omega
            rwa [e] at hb
        · intro k hk
          have hb := h.bits (k + 64) (by simp only [List.length_cons]; omega)
          rw [bitAt_cons_add] at hb
          have e : o + ((k + 64 : Nat) : Int) = o + 64 + (k : Int) := by omega
          rwa [e] at hb
        · intro j hj
          have := h.covers j hj
          simp only [List.length_cons] at this
          omega
      obtain ⟨h1, h2, h3, h4⟩ := dropOnes_spec r (o + 64) hp
      refine ⟨h1, h2, by omega, ?_⟩
      simp only [List.length_cons]; omega
    · rename_i hw
      refine ⟨h, ?_, Int.le_refl _, rfl⟩
      simp only [List.head?_cons, ne_eq, Option.some.injEq]; exact hw

theorem compact_words (thr : Int) (tb : TailBitmap) : (tb.compact thr).words = (dropOnes tb.words tb.offset).1 := rfl
theorem compact_offset (thr : Int) (tb : TailBitmap) : (tb.compact thr).offset = (dropOnes tb.words tb.offset).2 := rfl

/-- `Compact` re-establishes the full invariant from the head-less one, never lowers the offset, keeps the end -/
theorem compact_spec (thr : Int) {S : Int → Prop} {tb : TailBitmap} (h : Pre S tb.offset tb.words) :
    Inv S (tb.compact thr) ∧ tb.offset ≤ (tb.compact thr).offset ∧
    (tb.compact thr).offset + 64 * ((tb.compact thr).words.length : Int) = tb.offset + 64 * (tb.words.length : Int) := by
  obtain ⟨h1, h2, h3, h4⟩ := dropOnes_spec tb.words tb.offset h
  rw [compact_words, compact_offset]
  exact ⟨⟨h1, h2⟩, h3, h4⟩

/-- grow with zero words up to word `k/64`, then OR bit `k`: inserts `o + k` -/
theorem pre_orBit {S : Int → Prop} {o : Int} {ws : List Nat} (h : Pre S o ws) (k : Nat) :
    Pre (fun j => S j ∨ j = o + k) o
      ((ws ++ zeros (k / 64 + 1 - ws.length)).set (k / 64)
        ((ws ++ zeros (k / 64 + 1 - ws.length)).getD (k / 64) 0 ||| bit (k % 64))) := by
  have hlen : (ws ++ zeros (k / 64 + 1 - ws.length)).length = max ws.length (k / 64 + 1) := by
    simp [zeros]; omega
  have hq : k / 64 < (ws ++ zeros (k / 64 + 1 - ws.length)).length := by omega
  have hw := List.getElem?_eq_getElem hq
  generalize hws1 : ws ++ zeros (k / 64 + 1 - ws.length) = ws1 at *
  have hg : ws1.getD (k / 64) 0 = ws1[k / 64] := by simp [List.getD, hw]
  rw [hg]
  generalize ws1[k / 64] = w1 at *
  have hok1 : WordsOK ws1 := by rw [← hws1]; exact wordsOK_append_zeros h.ok _
  have hb1 : ∀ m, bitAt ws1 m = bitAt ws m := by intro m; rw [← hws1]; exact bitAt_append_zeros _ _ _
  refine ⟨h.dvd, ?_, ?_, ?_, ?_⟩
  · exact wordsOK_set hok1 _ _ (or_bit_lt (getElem?_of_wordsOK hok1 hw) (by omega))
  · intro j hj; exact Or.inl (h.below j hj)
  · intro m hm
    simp only [bit]
    rw [bitAt_set_or hw, hb1]
    simp only [Bool.or_eq_true, decide_eq_true_eq]
    by_cases hmw : m < 64 * ws.length
    · rw [h.bits m hmw]
      constructor
      · rintro (h' | h')
        · exact Or.inl h'
        · subst h'; exact Or.inr rfl
      · rintro (h' | h')
        · exact Or.inl h'
        · right; omega
    · rw [bitAt_oob (by omega)]
      constructor
      · rintro (h' | h')
        · cases h'
        · subst h'; exact Or.inr rfl
      · rintro (h' | h')
        · have := h.covers _ h'; omega
        · right; omega
  · intro j hj
    simp only [List.length_set, hlen]
    rcases hj with h' | h'
    · have := h.covers j h'; omega
    · omega

theorem set_lt (thr : Int) {tb : TailBitmap} {i : Int} (h : i < tb.offset) : tb.set thr i = tb := by
  simp [TailBitmap.set, h]

/-- `Set idx` inserts `idx` into the abstract set, keeps the invariant, never lowers the offset -/
theorem set_spec (thr : Int) {S : Int → Prop} {tb : TailBitmap} (i : Int) (h : Inv S tb) :
    Inv (fun j => S j ∨ j = i) (tb.set thr i) ∧ tb.offset ≤ (tb.set thr i).offset := by
  by_cases hi : i < tb.offset
  · rw [set_lt thr hi]
    refine ⟨⟨⟨h.pre.dvd, h.pre.ok, fun j hj => Or.inl (h.pre.below j hj), ?_, ?_⟩, h.head⟩, Int.le_refl _⟩
    · intro k hk
      rw [h.pre.bits k hk]
      constructor
      · exact Or.inl
      · rintro (h' | h')
        · exact h'
        · omega
    · rintro j (h' | h')
      · exact h.pre.covers j h'
      · have : (0 : Int) ≤ 64 * (tb.words.length : Int) := by omega
        omega
  · have hk : tb.offset + (((i - tb.offset).toNat : Nat) : Int) = i := by omega
    have hp := pre_orBit h.pre (i - tb.offset).toNat
    rw [hk] at hp
    simp only [TailBitmap.set, if_neg hi]
    generalize (i - tb.offset).toNat = k at *
    split
    · rename_i hq
      generalize (tb.words ++ zeros (k / 64 + 1 - tb.words.length)).set (k / 64)
        ((tb.words ++ zeros (k / 64 + 1 - tb.words.length)).getD (k / 64) 0 ||| bit (k % 64)) = ws2 at *
      have := compact_spec thr (tb := { tb with words := ws2 }) hp
      exact ⟨this.1, this.2.1⟩
    · rename_i hq
      refine ⟨⟨hp, ?_⟩, Int.le_refl _⟩
      have hh := h.head
      show List.head? (List.set _ _ _) ≠ _
      simp only [List.head?_eq_getElem?] at hh ⊢
      rw [List.getElem?_set_ne hq, List.getElem?_append]
      split
      · exact hh
      · simp only [zeros, List.getElem?_replicate]
        split
        · simp [allOnes64]
        · simp

/-- `Get1` under the invariant: 1 exactly for members, for every index below the end of the stored words -/
theorem get1_spec {S : Int → Prop} {tb : TailBitmap} (h : Pre S tb.offset tb.words) (j : Int)
    [Decidable (S j)] (hj : j < tb.offset + 64 * (tb.words.length : Int)) :
    tb.get1 j = some (if S j then 1 else 0) := by
  by_cases hjo : j < tb.offset
  · simp [TailBitmap.get1, hjo, h.below j hjo]
  · have hk : tb.offset + (((j - tb.offset).toNat : Nat) : Int) = j := by omega
    have hlt : (j - tb.offset).toNat < 64 * tb.words.length := by omega
    simp only [TailBitmap.get1, if_neg hjo]
    generalize (j - tb.offset).toNat = k at *
    have hw := List.getElem?_eq_getElem (show k / 64 < tb.words.length by omega)
    have hb := h.bits k hlt
    rw [hk, bitAt_eq hw] at hb
    rw [hw]
    simp only [shiftRight_mod_two]
    by_cases hs : S j
    · rw [if_pos hs, hb.mpr hs]; rfl
    · rw [if_neg hs]
      have : tb.words[k / 64].testBit (k % 64) = false := by
        cases hc : tb.words[k / 64].testBit (k % 64)
        · rfl
        · exact absurd (hb.mp hc) hs
      rw [this]; rfl

/-- `Get` under the invariant: the membership bit at position `j mod 64` -/
theorem get_spec {S : Int → Prop} {tb : TailBitmap} (h : Pre S tb.offset tb.words) (j : Int)
    [Decidable (S j)] (hj : j < tb.offset + 64 * (tb.words.length : Int)) :
    tb.get j = some (if S j then 2 ^ (j % 64).toNat else 0) := by
  by_cases hjo : j < tb.offset
  · simp [TailBitmap.get, hjo, h.below j hjo, bit]
  · have hk : tb.offset + (((j - tb.offset).toNat : Nat) : Int) = j := by omega
    have hlt : (j - tb.offset).toNat < 64 * tb.words.length := by omega
    have hd := h.dvd
    have hm : (j % 64).toNat = (j - tb.offset).toNat % 64 := by omega
    simp only [TailBitmap.get, if_neg hjo]
    rw [hm]
    generalize (j - tb.offset).toNat = k at *
    have hw := List.getElem?_eq_getElem (show k / 64 < tb.words.length by omega)
    have hb := h.bits k hlt
    rw [hk, bitAt_eq hw] at hb
    rw [hw]
    simp only [bit, and_two_pow_eq]
    by_cases hs : S j
    · rw [if_pos hs, hb.mpr hs]; simp [Nat.shiftLeft_eq]
    · rw [if_neg hs]
      have : tb.words[k / 64].testBit (k % 64) = false := by
        cases hc : tb.words[k / 64].testBit (k % 64)
        · rfl
        · exact absurd (hb.mp hc) hs
      rw [this]; simp

/-- at or beyond the end of the stored words both readers panic (index out of range) -/
theorem get_oob {tb : TailBitmap} {j : Int} (hj : tb.offset + 64 * (tb.words.length : Int) ≤ j) :
    tb.get j = none ∧ tb.get1 j = none := by
  have hjo : ¬ j < tb.offset := by omega
  have hlt : tb.words.length ≤ (j - tb.offset).toNat / 64 := by omega
  simp only [TailBitmap.get, TailBitmap.get1, if_neg hjo, List.getElem?_eq_none hlt, and_self]

end Low.C15L
