import LowProofs.Lemmas.C06
/-
  Helper lemmas for C07 (pbcmpl error paths): `pbUnmarshal` on an arbitrary byte string in terms of
  the fields of its first 32 bytes, and on a strict prefix of a frame.
-/
namespace Low.C07L
open Low Low.C06L

/-- header-size field of a byte string, as the Go code decodes it (uint64 little-endian at 16, then int64()) -/
def hsField (bytes : List Nat) : Int := wrap64 (unle ((bytes.drop 16).take 8))
/-- body-size field (at offset 24) -/
def bsField (bytes : List Nat) : Int := wrap64 (unle ((bytes.drop 24).take 8))

theorem hdrInfo_take32 (bytes : List Nat) :
    hdrInfo (bytes.take 32) = ⟨verStr (bytes.take 16), hsField bytes, bsField bytes⟩ := by
  unfold hdrInfo hsField bsField
  rw [List.take_take, List.drop_take, List.take_take, List.drop_take, List.take_take]
  rfl

theorem hdrInfo_of_length (hdr : List Nat) (h : hdr.length = 32) :
    hdrInfo hdr = ⟨verStr (hdr.take 16), hsField hdr, bsField hdr⟩ := by
  have := hdrInfo_take32 hdr
  rwa [List.take_of_length_le (by omega)] at this

/-- `pbReadHeader` when at least 32 bytes are available -/
theorem pbReadHeader_long (bytes : List Nat) (e : PbErr) (h : 32 ≤ bytes.length) :
    pbReadHeader ⟨bytes, e⟩ =
      (32, some ⟨verStr (bytes.take 16), hsField bytes, bsField bytes⟩, none, ⟨bytes.drop 32, e⟩) := by
  have hl : (bytes.take 32).length = 32 := by simp; omega
  have := pbReadHeader_hdr (bytes.take 32) (bytes.drop 32) e hl
  rwa [List.take_append_drop, hdrInfo_take32] at this

/-- `pbUnmarshal` when at least 32 bytes are available, in terms of the two size fields
    (the fields are passed as variables `hs`, `bs`: unfolding `wrap64 (unle …)` inside a decidable
    `if` sends the kernel into deep recursion) -/
theorem pbUnmarshal_long (bytes : List Nat) (e : PbErr) (h : 32 ≤ bytes.length) (hs bs : Int)
    (hhs : hsField bytes = hs) (hbs : bsField bytes = bs) :
    pbUnmarshal ⟨bytes, e⟩ =
      if hs ≠ 32 then ⟨32, verStr (bytes.take 16), none, some .invalidHeaderSize, ⟨bytes.drop 32, e⟩⟩ else
      if bs < 0 then ⟨32, verStr (bytes.take 16), none, some .invalidBodySize, ⟨bytes.drop 32, e⟩⟩ else
      match readFull ⟨bytes.drop 32, e⟩ bs.toNat with
      | (b, some err, r'') => ⟨32 + b.length, verStr (bytes.take 16), none, some err, r''⟩
      | (b, none, r'') => ⟨32 + b.length, verStr (bytes.take 16), some b, none, r''⟩ := by
  have hh := pbReadHeader_long bytes e h
  rw [hhs, hbs] at hh
  exact pbUnmarshal_of_header _ _ _ _ hh

/-- the four possible outcomes of `pbUnmarshal` when at least 32 bytes are available -/
theorem pbUnmarshal_long_cases (bytes : List Nat) (e : PbErr) (h : 32 ≤ bytes.length) :
    (hsField bytes ≠ 32 ∧
      pbUnmarshal ⟨bytes, e⟩ = ⟨32, verStr (bytes.take 16), none, some .invalidHeaderSize, ⟨bytes.drop 32, e⟩⟩) ∨
    (hsField bytes = 32 ∧ bsField bytes < 0 ∧
      pbUnmarshal ⟨bytes, e⟩ = ⟨32, verStr (bytes.take 16), none, some .invalidBodySize, ⟨bytes.drop 32, e⟩⟩) ∨
    (hsField bytes = 32 ∧ 0 ≤ bsField bytes ∧ bytes.length < 32 + (bsField bytes).toNat ∧ ∃ err,
      pbUnmarshal ⟨bytes, e⟩ = ⟨bytes.length, verStr (bytes.take 16), none, some err, ⟨[], e⟩⟩) ∨
    (hsField bytes = 32 ∧ 0 ≤ bsField bytes ∧ 32 + (bsField bytes).toNat ≤ bytes.length ∧
      pbUnmarshal ⟨bytes, e⟩ = ⟨32 + (bsField bytes).toNat, verStr (bytes.take 16),
        some ((bytes.drop 32).take (bsField bytes).toNat), none, ⟨bytes.drop (32 + (bsField bytes).toNat), e⟩⟩) := by
  rw [pbUnmarshal_long bytes e h _ _ rfl rfl]
  generalize hsField bytes = hs
  generalize bsField bytes = bs
  by_cases h1 : hs ≠ 32
  · left; exact ⟨h1, by rw [if_pos h1]⟩
  · right
    have h1' : hs = 32 := Decidable.not_not.mp h1
    rw [if_neg h1]
    by_cases h2 : bs < 0
    · left; exact ⟨h1', h2, by rw [if_pos h2]⟩
    · right
      rw [if_neg h2]
      have h2' : 0 ≤ bs := by omega
      generalize bs.toNat = n
      rcases readFull_cases ⟨bytes.drop 32, e⟩ n with ⟨hr, hn⟩ | ⟨err, hr, hn⟩
      · right
        simp only [List.length_drop] at hn
        refine ⟨h1', h2', by omega, ?_⟩
        rw [hr]
        simp only [List.length_take, List.length_drop, List.drop_drop]
        rw [Nat.min_eq_left hn]
      · left
        simp only [List.length_drop] at hn
        refine ⟨h1', h2', by omega, err, ?_⟩
        rw [hr]
        simp only [List.length_drop]
        have : 32 + (bytes.length - 32) = bytes.length := by omega
        rw [this]

/-! ### strict prefixes of a frame -/

/-- the error `io.ReadFull`/`io.CopyN` report when the stream ends after `k` bytes of a frame -/
def cutErr (e : PbErr) (k : Nat) : PbErr :=
  if e = .eof then (if k = 0 ∨ k = 32 then .eof else .unexpectedEOF) else e

/-- Unmarshal on the first `k` bytes of a frame, `k` less than its length -/
theorem pbUnmarshal_cut (ver body : List Nat) (e : PbErr) (k : Nat)
    (hv : ver.length ≤ 16) (hb : body.length < 2 ^ 63) (hk : k < 32 + body.length) :
    pbUnmarshal ⟨(pad16 ver ++ le64 32 ++ le64 body.length ++ body).take k, e⟩ =
      ⟨k, if k < 32 then [] else verStr ver, none, some (cutErr e k), ⟨[], e⟩⟩ := by
  have hl : (pad16 ver ++ le64 32 ++ le64 body.length).length = 32 :=
    pbHeader_length (pbHeader_eq ver body.length hv)
  generalize hH : pad16 ver ++ le64 32 ++ le64 body.length = hdr at hl
  by_cases h32 : k < 32
  · have hlen : ((hdr ++ body).take k).length = k := by simp [hl]; omega
    rw [pbUnmarshal_short _ e (by omega), hlen]
    simp only [h32, if_true, cutErr]
    have : (k = 0 ∨ k = 32) ↔ k = 0 := by omega
    simp only [this]
  · have ht : (hdr ++ body).take k = hdr ++ body.take (k - 32) := by
      rw [List.take_append, hl, List.take_of_length_le (by omega)]
    have hi : hdrInfo hdr = ⟨verStr ver, 32, (body.length : Int)⟩ := by
      rw [← hH]; exact hdrInfo_frame ver body.length hv hb
    have hh := pbReadHeader_hdr hdr (body.take (k - 32)) e hl
    rw [hi] at hh
    rw [ht, pbUnmarshal_of_header _ _ _ _ hh]
    have hs : (body.take (k - 32)).length < body.length := by simp; omega
    have hr := readFull_short (body.take (k - 32)) e body.length hs
    have hnn : ¬ ((body.length : Int) < 0) := by omega
    simp only [Int.toNat_natCast, hr, hnn, if_false, ne_eq, not_true_eq_false]
    have hlen : (body.take (k - 32)).length = k - 32 := by simp; omega
    simp only [hlen, h32, if_false, cutErr]
    have e1 : 32 + (k - 32) = k := by omega
    have e2 : (k - 32 = 0) ↔ (k = 0 ∨ k = 32) := by omega
    simp only [e1, e2]

end Low.C07L
