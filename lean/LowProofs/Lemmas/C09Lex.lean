import LowProofs.Lemmas.C08Bits
/- C09 helpers: `lexCmp` is a total order on bit strings; padding lemmas; bridge from byte order to bit order -/
namespace Low.C09L
open Low Low.C08L

theorem lexCmp_self : ∀ a, lexCmp a a = 0
  | [] => rfl
  | x :: a => by simp [lexCmp, lexCmp_self a]

theorem lexCmp_eq_zero : ∀ a b, lexCmp a b = 0 ↔ a = b
  | [], [] => by simp [lexCmp]
  | [], _ :: _ => by simp [lexCmp]
  | _ :: _, [] => by simp [lexCmp]
  | x :: a, y :: b => by
    have ih := lexCmp_eq_zero a b
    cases x <;> cases y <;> simp [lexCmp, ih]

theorem lexCmp_antisymm : ∀ a b, lexCmp b a = - lexCmp a b
  | [], [] => by simp [lexCmp]
  | [], _ :: _ => by simp [lexCmp]
  | _ :: _, [] => by simp [lexCmp]
  | x :: a, y :: b => by
    have ih := lexCmp_antisymm a b
    cases x <;> cases y <;> simp [lexCmp, ih]

theorem lexCmp_range : ∀ a b, lexCmp a b = -1 ∨ lexCmp a b = 0 ∨ lexCmp a b = 1
  | [], [] => by simp [lexCmp]
  | [], _ :: _ => by simp [lexCmp]
  | _ :: _, [] => by simp [lexCmp]
  | x :: a, y :: b => by
    have ih := lexCmp_range a b
    cases x <;> cases y <;> simp [lexCmp, ih]

theorem lexCmp_trans_lt : ∀ a b c, lexCmp a b = -1 → lexCmp b c = -1 → lexCmp a c = -1
  | [], [], _, h, _ => by simp [lexCmp] at h
  | [], _ :: _, [], _, h => by simp [lexCmp] at h
  | [], _ :: _, _ :: _, _, _ => by simp [lexCmp]
  | _ :: _, [], _, h, _ => by simp [lexCmp] at h
  | _ :: _, _ :: _, [], _, h => by simp [lexCmp] at h
  | x :: a, y :: b, z :: c, h1, h2 => by
    have ih := lexCmp_trans_lt a b c
    cases x <;> cases y <;> cases z <;> simp [lexCmp] at h1 h2 ⊢ <;> exact ih h1 h2

theorem lexCmp_append_left : ∀ (c a b : List Bool), lexCmp (c ++ a) (c ++ b) = lexCmp a b
  | [], a, b => rfl
  | x :: c, a, b => by simp [lexCmp, lexCmp_append_left c a b]

/-- equal-length heads decide first -/
theorem lexCmp_append : ∀ (a b c d : List Bool), a.length = b.length →
    lexCmp (a ++ c) (b ++ d) = if lexCmp a b ≠ 0 then lexCmp a b else lexCmp c d
  | [], [], c, d, _ => by simp [lexCmp]
  | [], _ :: _, _, _, h => by simp at h
  | _ :: _, [], _, _, h => by simp at h
  | x :: a, y :: b, c, d, h => by
    have ih := lexCmp_append a b c d (by simpa using h)
    cases x <;> cases y <;> simp [lexCmp, ih]

theorem lexCmp_append_same {a b : List Bool} (c : List Bool) (h : a.length = b.length) :
    lexCmp (a ++ c) (b ++ c) = lexCmp a b := by
  rw [lexCmp_append a b c c h, lexCmp_self]
  split
  · rfl
  · rename_i h'; simp at h'; exact h'.symm

abbrev zeros (k : Nat) : List Bool := List.replicate k false
abbrev ones (k : Nat) : List Bool := List.replicate k true

/-- `k` zero bits sort before anything longer -/
theorem lexCmp_zeros_lt : ∀ (k : Nat) (Y : List Bool), k < Y.length → lexCmp (zeros k) Y = -1
  | 0, [], h => by simp at h
  | 0, _ :: _, _ => by simp [lexCmp]
  | k+1, [], h => by simp at h
  | k+1, y :: Y, h => by
    have ih := lexCmp_zeros_lt k Y (by simpa using h)
    cases y <;> simp [List.replicate_succ, lexCmp, ih]

/-- zero padding of the shorter side does not change the comparison as long as it stays shorter -/
theorem lexCmp_pad_short : ∀ (B B' : List Bool) (k : Nat) (W : List Bool), B.length + k < B'.length →
    lexCmp (B ++ zeros k) (B' ++ W) = lexCmp B B'
  | [], [], _, _, h => by simp at h
  | [], y :: B', k, W, h => by
    rw [List.nil_append, lexCmp_zeros_lt k _ (by simp at h ⊢; omega)]; simp [lexCmp]
  | _ :: _, [], _, _, h => by simp at h
  | x :: B, y :: B', k, W, h => by
    have ih := lexCmp_pad_short B B' k W (by simp at h ⊢; omega)
    cases x <;> cases y <;> simp [lexCmp, ih]

theorem lexCmp_prefix_short (A B W : List Bool) (h : A.length < B.length) :
    lexCmp A (B ++ W) = lexCmp A B := by
  have := lexCmp_pad_short A B 0 W (by simpa using h)
  simpa using this

/-- the bits that follow the payload in an encoding: `k` zero bits, then the mask byte `1^(8-k) 0^k` -/
abbrev pad (k : Nat) : List Bool := zeros k ++ (ones (8 - k) ++ zeros k)

theorem lexCmp_pad_lt : ∀ (Y : List Bool) (j k k' : Nat), Y.length = j → k' < k → k ≤ 8 →
    lexCmp (zeros j ++ (ones (8 - k) ++ zeros k)) (Y ++ (ones (8 - k') ++ zeros k')) = -1
  | [], j, k, k', hj, hk, hk8 => by
    have hj : j = 0 := by simpa using hj.symm
    subst hj
    have e : 8 - k' = (8 - k) + (k - k') := by omega
    obtain ⟨k1, rfl⟩ : ∃ k1, k = k1 + 1 := ⟨k - 1, by omega⟩
    obtain ⟨d, hd⟩ : ∃ d, k1 + 1 - k' = d + 1 := ⟨k1 - k', by omega⟩
    simp only [List.replicate_zero, List.nil_append]
    have e2 : ones (8 - (k1 + 1) + (k1 + 1 - k')) = ones (8 - (k1 + 1)) ++ ones (k1 + 1 - k') :=
      List.replicate_append_replicate.symm
    rw [e, e2, List.append_assoc, lexCmp_append_left, hd]
    simp [List.replicate_succ, lexCmp]
  | y :: Y, j, k, k', hj, hk, hk8 => by
    obtain ⟨j1, rfl⟩ : ∃ j1, j = j1 + 1 := ⟨j - 1, by simp at hj; omega⟩
    have ih := lexCmp_pad_lt Y j1 k k' (by simpa using hj) hk hk8
    cases y
    · simpa [List.replicate_succ, lexCmp] using ih
    · simp [List.replicate_succ, lexCmp]

/-- with the trailing mask byte appended, two encodings of equal total length compare like their payloads -/
theorem lexCmp_pad : ∀ (B B' : List Bool) (k k' : Nat), B.length + k = B'.length + k' → k ≤ 8 → k' ≤ 8 →
    lexCmp (B ++ pad k) (B' ++ pad k') = lexCmp B B'
  | [], [], k, k', h, _, _ => by
    have : k = k' := by simpa using h
    subst this; simp [lexCmp_self, lexCmp]
  | [], y :: B', k, k', h, hk, hk' => by
    have h1 : (y :: B' ++ zeros k').length = k := by simp at h ⊢; omega
    have := lexCmp_pad_lt (y :: B' ++ zeros k') k k k' h1 (by simp at h; omega) hk
    simp only [pad, List.nil_append, List.append_assoc] at this ⊢
    rw [this]; simp [lexCmp]
  | x :: B, [], k, k', h, hk, hk' => by
    have h1 : (x :: B ++ zeros k).length = k' := by simp at h ⊢; omega
    have := lexCmp_pad_lt (x :: B ++ zeros k) k' k' k h1 (by simp at h; omega) hk'
    rw [lexCmp_antisymm]
    simp only [pad, List.nil_append, List.append_assoc] at this ⊢
    rw [this]; simp [lexCmp]
  | x :: B, y :: B', k, k', h, hk, hk' => by
    have ih := lexCmp_pad B B' k k' (by simp at h; omega) hk hk'
    cases x <;> cases y <;> simp [lexCmp, ih]

/-- on equal lengths the lexicographic order is the numeric order of the values -/
theorem lexCmp_bitsVal : ∀ (u v : List Bool), u.length = v.length →
    lexCmp u v = if bitsVal u < bitsVal v then -1 else if bitsVal u > bitsVal v then 1 else 0
  | [], [], _ => by simp [lexCmp, bitsVal]
  | [], _ :: _, h => by simp at h
  | _ :: _, [], h => by simp at h
  | x :: u, y :: v, h => by
    have hl : u.length = v.length := by simpa using h
    have ih := lexCmp_bitsVal u v hl
    have hu := bitsVal_lt u
    have hv := bitsVal_lt v
    rw [hl] at hu
    simp only [bitsVal, hl]
    generalize 2 ^ v.length = P at hu hv
    cases x <;> cases y <;> simp [lexCmp, ih] <;> (repeat' split) <;> omega

/-- bytes compare like their bits -/
theorem lexCmp_byteBits {x y : Nat} (hx : x < 256) (hy : y < 256) :
    lexCmp (byteBits x) (byteBits y) = if x < y then -1 else if x > y then 1 else 0 := by
  rw [lexCmp_bitsVal _ _ (by simp), bitsVal_byteBits hx, bitsVal_byteBits hy]

/-- `bytes.Compare` is the lexicographic order of the bit strings -/
theorem bytesCompare_eq : ∀ (a b : List Nat), BytesOK a → BytesOK b →
    bytesCompare a b = lexCmp (bitsBE a) (bitsBE b)
  | [], [], _, _ => by simp [bytesCompare, bitsBE, lexCmp]
  | [], y :: b, _, _ => by
    simp [bytesCompare, byteBits, List.range_succ_eq_map, bitsBE, lexCmp]
  | x :: a, [], _, _ => by
    simp [bytesCompare, byteBits, List.range_succ_eq_map, bitsBE, lexCmp]
  | x :: a, y :: b, ha, hb => by
    have hx : x < 256 := ha x (by simp)
    have hy : y < 256 := hb y (by simp)
    have ih := bytesCompare_eq a b (fun z hz => ha z (by simp [hz])) (fun z hz => hb z (by simp [hz]))
    rw [bitsBE_cons, bitsBE_cons, lexCmp_append _ _ _ _ (by simp), lexCmp_byteBits hx hy, bytesCompare, ih]
    by_cases h1 : x < y
    · simp [h1]
    · by_cases h2 : x > y
      · simp [h1, h2]
      · simp [h1, h2]

end Low.C09L
