import LowProofs.Lemmas.C02Spec
/- C02 helpers, part 2: `selIdxGo` picks every 32nd element of the filtered list -/
namespace Low.C02L
open Low

/-- keep the elements whose running counter is a multiple of 32 -/
def pick : Nat → List Nat → List Nat
  | _, [] => []
  | c, x :: xs => if c % 32 = 0 then x :: pick (c+1) xs else pick (c+1) xs

theorem selIdxGo_eq_pick (ws : List Nat) : ∀ (l : List Nat) (c : Nat),
    selIdxGo ws l c = pick c (l.filter (bitAt ws))
  | [], c => by simp [selIdxGo, pick]
  | i :: r, c => by
    by_cases hb : bitAt ws i = true
    · simp only [selIdxGo, hb, if_true, List.filter_cons_of_pos, pick, selIdxGo_eq_pick ws r (c+1)]
    · simp only [selIdxGo, hb, Bool.false_eq_true, if_false, selIdxGo_eq_pick ws r c]
      rw [List.filter_cons_of_neg (by simpa using hb)]

/-- index of the first picked element when the counter starts at `c` -/
def firstIdx (c : Nat) : Nat := (32 - c % 32) % 32

theorem pick_eq : ∀ (L : List Nat) (c : Nat),
    pick c L = (List.range ((L.length - firstIdx c + 31) / 32)).map (fun k => L.getD (firstIdx c + 32 * k) 0)
  | [], c => by simp [pick]
  | x :: xs, c => by
    have ih := pick_eq xs (c+1)
    by_cases hc : c % 32 = 0
    · have hd : firstIdx c = 0 := by simp [firstIdx, hc]
      have hd' : firstIdx (c+1) = 31 := by simp only [firstIdx]; omega
      simp only [pick, hc, if_true, ih, hd, hd', List.length_cons]
      have e : (xs.length + 1 - 0 + 31) / 32 = (xs.length - 31 + 31) / 32 + 1 := by omega
      rw [e, List.range_succ_eq_map, List.map_cons, List.map_map]
      congr 1
      apply List.map_congr_left
      intro k _
      have e2 : 0 + 32 * (k + 1) = (31 + 32 * k) + 1 := by omega
      simp only [Function.comp, Nat.succ_eq_add_one, e2, List.getD, List.getElem?_cons_succ]
    · have hd' : firstIdx c = firstIdx (c+1) + 1 := by simp only [firstIdx]; omega
      simp only [pick, hc, if_false, ih, List.length_cons]
      have e : xs.length + 1 - firstIdx c = xs.length - firstIdx (c+1) := by omega
      rw [e]
      apply List.map_congr_left
      intro k _
      have e2 : firstIdx c + 32 * k = (firstIdx (c+1) + 32 * k) + 1 := by omega
      simp only [e2, List.getD, List.getElem?_cons_succ]

theorem indexSelect32_eq (ws : List Nat) :
    indexSelect32 ws =
      (List.range (((ones ws).length + 31) / 32)).map (fun k => (ones ws).getD (32 * k) 0) := by
  have e : ws.length * 64 = 64 * ws.length := by omega
  simp only [indexSelect32, selIdxGo_eq_pick, pick_eq, firstIdx, e]
  simp [ones]

end Low.C02L
