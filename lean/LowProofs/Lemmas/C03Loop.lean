import LowProofs.Lemmas.C03Bits
/- C03 helpers, part 3: `shiftMulti a b s = Σ_{k ∈ bits b} a >>> (s - k)` (loop invariant) -/
namespace Low.C03L
open Low

theorem S_zero (a s : Nat) : S a 0 s = 0 :=
  sumBits_zero_of_low (fun _ _ => Nat.zero_testBit _)

/-- drop `n` low zero bits of the index operand -/
theorem S_skip (a c s n : Nat) (hz : ∀ k, k < n → c.testBit k = false) (hn : n ≤ s) :
    S a c s = S a (c >>> n) (s - n) := by
  unfold S
  have e : s + 1 = n + (s - n + 1) := by omega
  rw [e, sumBits_skip hz]
  apply sumBits_congr; intro k hk; congr 1; omega

/-- peel a set bit 0 -/
theorem S_odd (a b s : Nat) (hb : b.testBit 0 = true) : S a b s = a >>> s + S a (b - 1) s := by
  have hb1 : b % 2 = 1 := by rw [Nat.testBit_zero] at hb; simpa using hb
  have h0 : (b - 1).testBit 0 = false := by rw [Nat.testBit_zero]; simp; omega
  have h1 : (b - 1) >>> 1 = b >>> 1 := by
    rw [Nat.shiftRight_eq_div_pow, Nat.shiftRight_eq_div_pow]; omega
  unfold S
  rw [sumBits_shift, sumBits_shift (a := b - 1), hb, h0, h1]
  simp

theorem loop_zero (a s rst : Nat) : ∀ fuel, shiftMultiLoop fuel a 0 s rst = rst
  | 0 => rfl
  | _+1 => by simp [shiftMultiLoop]

theorem sub64_of_le {x y : Nat} (h : y ≤ x) (hx : x < 64) : sub64 x y = x - y := by
  simp only [sub64, M64]; omega

/-- the loop invariant: `b` is zero or odd, its bits lie at or below `shift` -/
theorem loop_spec (a : Nat) : ∀ (fuel b shift rst : Nat), b < 2^fuel → (b = 0 ∨ b.testBit 0 = true) →
    b < 2^(shift+1) → shift < 64 → rst < M64 →
    shiftMultiLoop fuel a b shift rst = (rst + S a b shift) % M64
  | 0, b, shift, rst, hf, _, _, _, hr => by
    have : b = 0 := by simp at hf; omega
    subst this
    rw [S_zero, shiftMultiLoop]; simp only [M64] at hr ⊢; omega
  | fuel+1, b, shift, rst, hf, hodd, hb, hs, hr => by
    by_cases hb0 : b = 0
    · subst hb0
      rw [S_zero, loop_zero]; simp only [M64] at hr ⊢; omega
    · have hbit : b.testBit 0 = true := by rcases hodd with h | h; exact absurd h hb0; exact h
      have hb1 : b % 2 = 1 := by rw [Nat.testBit_zero] at hbit; simpa using hbit
      have hshr : shr64 a shift = a >>> shift := by simp [shr64, hs]
      rw [shiftMultiLoop, if_neg hb0, S_odd a b shift hbit]
      simp only [hshr]
      by_cases hone : b = 1
      · subst hone
        have : shr64 1 64 = 0 := by simp [shr64]
        simp only [Nat.sub_self, tz_zero, this, loop_zero, S_zero, add64, Nat.add_zero]
      · have hne : b - 1 ≠ 0 := by omega
        have h64 : b - 1 < 2^64 :=
          Nat.lt_of_lt_of_le (Nat.lt_of_le_of_lt (Nat.sub_le _ _) hb) (Nat.pow_le_pow_right (by omega) (by omega))
        have ⟨hn64, hnb⟩ := tz_spec 64 (b - 1) hne h64
        have hlow := tz_low 64 (b - 1)
        generalize tz (b - 1) 64 = n at hn64 hnb hlow
        have hn1 : 1 ≤ n := by
          rcases Nat.eq_zero_or_pos n with h | h
          · subst h; rw [Nat.testBit_zero] at hnb; simp at hnb; omega
          · exact h
        have hns : n < shift + 1 :=
          lt_of_testBit_of_lt hnb (Nat.lt_of_le_of_lt (Nat.sub_le _ _) hb)
        have hshift : (b - 1) >>> n = b >>> n := by
          have e : n = 1 + (n - 1) := by omega
          rw [e, Nat.shiftRight_add, Nat.shiftRight_add]
          congr 1
          rw [Nat.shiftRight_eq_div_pow, Nat.shiftRight_eq_div_pow]; omega
        have hshr2 : shr64 b n = b >>> n := by simp [shr64, hn64]
        rw [hshr2, sub64_of_le (by omega) hs, S_skip a (b - 1) shift n hlow (by omega), hshift]
        have hodd' : (b >>> n).testBit 0 = true := by
          rw [← hshift, Nat.testBit_shiftRight]; simpa using hnb
        have hf' : b >>> n < 2^fuel := by
          have : b >>> n < 2^(fuel + 1 - n) := shiftRight_lt_two_pow (by
            have : n + (fuel + 1 - n) = fuel + 1 ∨ fuel + 1 < n := by omega
            rcases this with h | h
            · rw [h]; exact hf
            · exact Nat.lt_of_lt_of_le hf (Nat.pow_le_pow_right (by omega) (by omega)))
          exact Nat.lt_of_lt_of_le this (Nat.pow_le_pow_right (by omega) (by omega))
        have hb' : b >>> n < 2^(shift - n + 1) := shiftRight_lt_two_pow (by
          have : n + (shift - n + 1) = shift + 1 := by omega
          rw [this]; exact hb)
        have hr' : add64 rst (a >>> shift) < M64 := Nat.mod_lt _ (by decide)
        rw [loop_spec a fuel (b >>> n) (shift - n) _ hf' (Or.inr hodd') hb' (by omega) hr']
        simp only [add64, M64]; omega

/-- `shiftMulti` is the bit-indexed sum (mod 2^64) -/
theorem shiftMulti_spec (a b s : Nat) (hb : b < 2^(s+1)) (hs : s < 64) :
    shiftMulti a b s = S a b s % M64 := by
  unfold shiftMulti
  by_cases hb0 : b = 0
  · subst hb0
    have : shr64 0 64 = 0 := by simp [shr64]
    simp only [tz_zero, this, loop_zero, S_zero]; rfl
  · have h64 : b < 2^64 := Nat.lt_of_lt_of_le hb (Nat.pow_le_pow_right (by omega) (by omega))
    have ⟨hn64, hnb⟩ := tz_spec 64 b hb0 h64
    have hlow := tz_low 64 b
    generalize tz b 64 = n at hn64 hnb hlow
    have hns : n < s + 1 := lt_of_testBit_of_lt hnb hb
    have hshr : shr64 b n = b >>> n := by simp [shr64, hn64]
    simp only [hshr]
    rw [sub64_of_le (by omega) hs]
    have hodd : (b >>> n).testBit 0 = true := by rw [Nat.testBit_shiftRight]; simpa using hnb
    have hf : b >>> n < 2^65 :=
      Nat.lt_of_le_of_lt (Nat.shiftRight_le _ _) (Nat.lt_of_lt_of_le h64 (Nat.pow_le_pow_right (by omega) (by omega)))
    have hb' : b >>> n < 2^(s - n + 1) := shiftRight_lt_two_pow (by
      have : n + (s - n + 1) = s + 1 := by omega
      rw [this]; exact hb)
    rw [loop_spec a 65 (b >>> n) (s - n) 0 hf (Or.inr hodd) hb' (by omega) (by decide),
      ← S_skip a b s n hlow (by omega), Nat.zero_add]

end Low.C03L
