import LowProofs.Lemmas.C03Order
import LowProofs.Lemmas.C10Order
import LowProofs.Lemmas.C04List
/- C04 helpers, part 2: facts about the specification `storedPaths`:
   membership in `preorder`, pre-order = numeric order of the path words, every bit string is the
   `bitsVal` of a node, and the characterisation of the stored path words by (search value, level). -/
namespace Low.C04L
open Low

/-! ### membership in `preorder` -/

theorem mem_preorder (T : Nat) : ∀ (r d : Nat) (pfx m : List Bool),
    m ∈ preorder T r d pfx ↔ ∃ s, m = pfx ++ s ∧ s.length ≤ r ∧ T.testBit (d + s.length) = true
  | 0, d, pfx, m => by
    simp only [preorder]
    constructor
    · intro hm
      by_cases ht : T.testBit d = true
      · simp only [ht, if_true, List.mem_singleton] at hm
        exact ⟨[], by simp [hm], by simp, by simpa using ht⟩
      · simp [ht] at hm
    · rintro ⟨s, rfl, hs, ht⟩
      have : s = [] := List.eq_nil_of_length_eq_zero (by omega)
      subst this
      simp only [List.length_nil, Nat.add_zero] at ht
      simp [ht]
  | r+1, d, pfx, m => by
    simp only [preorder, List.mem_append, mem_preorder T r]
    constructor
    · rintro ((hm | ⟨s, rfl, hs, ht⟩) | ⟨s, rfl, hs, ht⟩)
      · by_cases ht : T.testBit d = true
        · simp only [ht, if_true, List.mem_singleton] at hm
          exact ⟨[], by simp [hm], by simp, by simpa using ht⟩
        · simp [ht] at hm
      · refine ⟨false :: s, by simp, by simp only [List.length_cons]; omega, ?_⟩
        have : d + (false :: s).length = d + 1 + s.length := by simp only [List.length_cons]; omega
        rw [this]; exact ht
      · refine ⟨true :: s, by simp, by simp only [List.length_cons]; omega, ?_⟩
        have : d + (true :: s).length = d + 1 + s.length := by simp only [List.length_cons]; omega
        rw [this]; exact ht
    · rintro ⟨s, rfl, hs, ht⟩
      match s, hs, ht with
      | [], _, ht =>
        simp only [List.length_nil, Nat.add_zero] at ht
        left; left; simp [ht]
      | false :: s, hs, ht =>
        left; right
        refine ⟨s, by simp, by simp only [List.length_cons] at hs; omega, ?_⟩
        have : d + (false :: s).length = d + 1 + s.length := by simp only [List.length_cons]; omega
        rw [← this]; exact ht
      | true :: s, hs, ht =>
        right
        refine ⟨s, by simp, by simp only [List.length_cons] at hs; omega, ?_⟩
        have : d + (true :: s).length = d + 1 + s.length := by simp only [List.length_cons]; omega
        rw [← this]; exact ht

/-- members of the whole enumeration: exactly the nodes of depth `≤ h` on a stored level -/
theorem mem_preorder_root (T h : Nat) (m : List Bool) :
    m ∈ preorder T h 0 [] ↔ m.length ≤ h ∧ T.testBit m.length = true := by
  rw [mem_preorder]
  constructor
  · rintro ⟨s, rfl, hs, ht⟩
    exact ⟨hs, by simpa using ht⟩
  · rintro ⟨hs, ht⟩
    exact ⟨m, by simp, hs, by simpa using ht⟩

/-! ### the enumeration is ascending for `lexCmp`, hence for the path words -/

theorem preorder_lex (T : Nat) : ∀ (r d : Nat) (pfx : List Bool),
    (preorder T r d pfx).Pairwise (fun a b => lexCmp a b = -1)
  | 0, d, pfx => by
    simp only [preorder]
    split <;> simp
  | r+1, d, pfx => by
    simp only [preorder]
    rw [List.pairwise_append, List.pairwise_append]
    refine ⟨⟨?_, preorder_lex T r (d+1) _, ?_⟩, preorder_lex T r (d+1) _, ?_⟩
    · split <;> simp
    · intro a ha b hb
      have ea : a = pfx := by
        by_cases ht : T.testBit d = true
        · simpa [ht] using ha
        · simp [ht] at ha
      obtain ⟨s, rfl, _, _⟩ := (mem_preorder T r (d+1) _ b).mp hb
      subst ea
      rw [List.append_assoc]
      exact C10L.lexCmp_prefix a _ (by simp)
    · intro a ha b hb
      obtain ⟨s', rfl, _, _⟩ := (mem_preorder T r (d+1) _ b).mp hb
      rw [List.mem_append] at ha
      rcases ha with ha | ha
      · have ea : a = pfx := by
          by_cases ht : T.testBit d = true
          · simpa [ht] using ha
          · simp [ht] at ha
        subst ea
        rw [List.append_assoc]
        exact C10L.lexCmp_prefix a _ (by simp)
      · obtain ⟨s, rfl, _, _⟩ := (mem_preorder T r (d+1) _ a).mp ha
        rw [List.append_assoc, List.append_assoc]
        exact C10L.lexCmp_branch pfx s s'

/-- C04_sorted: the stored path words in pre-order are strictly ascending -/
theorem storedPaths_sorted (T h : Nat) (h32 : h ≤ 32) : (storedPaths T h).Pairwise (· < ·) := by
  unfold storedPaths
  rw [List.pairwise_map]
  refine List.Pairwise.imp_of_mem ?_ (preorder_lex T h 0 [])
  intro a b ha hb hab
  have ha' := ((mem_preorder_root T h a).mp ha).1
  have hb' := ((mem_preorder_root T h b).mp hb).1
  exact (C10L.encPath_lt_iff a b h h32 ha' hb').mpr hab

/-! ### every `l`-bit value is `bitsVal` of a node of depth `l` -/

/-- the `l` low bits of `v`, most significant first -/
def toBits : Nat → Nat → List Bool
  | 0, _ => []
  | l+1, v => toBits l (v / 2) ++ [decide (v % 2 = 1)]

theorem toBits_length : ∀ (l v : Nat), (toBits l v).length = l
  | 0, _ => rfl
  | l+1, v => by simp [toBits, toBits_length l]

theorem bitsVal_toBits : ∀ (l v : Nat), v < 2^l → bitsVal (toBits l v) = v
  | 0, v, hv => by simp at hv; simp [toBits, bitsVal, hv]
  | l+1, v, hv => by
    rw [Nat.pow_succ] at hv
    rw [toBits, C10L.bitsVal_concat, bitsVal_toBits l (v / 2) (by omega)]
    by_cases h : v % 2 = 1 <;> simp [h] <;> omega

/-! ### the word built by `AllPaths` for search value `i` and `k` trailing levels cut off -/

/-- `p := (i << 32) | (fullPathMask ^ Mask[k])` -/
def pword (h i k : Nat) : Nat := (shl64 i 32) ||| (mask h ^^^ mask k)

theorem mask_xor (h k : Nat) (hk : k ≤ h) : mask h ^^^ mask k = C10L.lo h (h - k) := by
  apply Nat.eq_of_testBit_eq
  intro j
  rw [Nat.testBit_xor, C10L.testBit_lo (by omega)]
  simp only [mask, Nat.testBit_two_pow_sub_one]
  by_cases h1 : j < h <;> by_cases h2 : j < k <;> simp [h1, h2] <;> omega

theorem pword_eq {h i k : Nat} (h32 : h ≤ 32) (hk : k ≤ h) (hi : i < 2^32) :
    pword h i k = i * 2^32 + C10L.lo h (h - k) := by
  have hlo : C10L.lo h (h - k) < 2^32 :=
    Nat.lt_of_lt_of_le (C10L.lo_lt (by omega)) (C10L.pow_le_32 h32)
  have e64 : M64 = 2^32 * 2^32 := by decide
  have hs : shl64 i 32 = i <<< 32 := by
    simp only [shl64, show (32:Nat) < 64 by omega, if_true]
    apply Nat.mod_eq_of_lt
    rw [Nat.shiftLeft_eq, e64]
    exact Nat.mul_lt_mul_of_lt_of_le hi (Nat.le_refl _) (Nat.two_pow_pos _)
  rw [pword, mask_xor h k hk, hs, ← Nat.shiftLeft_add_eq_or_of_lt hlo, Nat.shiftLeft_eq]

/-- bounds: the word of search value `i` lies in `[i*2^32, (i+1)*2^32)` -/
theorem pword_bounds {h i k : Nat} (h32 : h ≤ 32) (hk : k ≤ h) (hi : i < 2^32) :
    i * 2^32 ≤ pword h i k ∧ pword h i k < (i + 1) * 2^32 := by
  have hlo : C10L.lo h (h - k) < 2^32 :=
    Nat.lt_of_lt_of_le (C10L.lo_lt (by omega)) (C10L.pow_le_32 h32)
  rw [pword_eq h32 hk hi, Nat.add_mul]
  omega

/-- cutting more trailing levels gives a smaller word -/
theorem pword_lt_of_gt {h i k k' : Nat} (h32 : h ≤ 32) (hk : k ≤ h) (hkk : k' < k) (hi : i < 2^32) :
    pword h i k < pword h i k' := by
  rw [pword_eq h32 hk hi, pword_eq h32 (by omega) hi, C10L.lo_eq (by omega), C10L.lo_eq (by omega)]
  have e1 : h - (h - k) = k := by omega
  have e2 : h - (h - k') = k' := by omega
  rw [e1, e2]
  have h1 : 2^k' < 2^k := Nat.pow_lt_pow_right (by omega) hkk
  have h2 : 2^k ≤ 2^h := Nat.pow_le_pow_right (by omega) hk
  omega

/-! ### the stored path words, characterised by (search value, cut) -/

theorem mem_storedPaths (T h p : Nat) (h32 : h ≤ 32) :
    p ∈ storedPaths T h ↔
      ∃ i k, i < 2^h ∧ k ≤ h ∧ i % 2^k = 0 ∧ T.testBit (h - k) = true ∧ p = pword h i k := by
  have hp32 := C10L.pow_le_32 h32
  unfold storedPaths
  rw [List.mem_map]
  constructor
  · rintro ⟨n, hn, rfl⟩
    obtain ⟨hl, ht⟩ := (mem_preorder_root T h n).mp hn
    have hhi := C10L.hi_lt hl
    refine ⟨C10L.hi h n, h - n.length, hhi, by omega, ?_, ?_, ?_⟩
    · unfold C10L.hi; exact Nat.mul_mod_left _ _
    · have : h - (h - n.length) = n.length := by omega
      rw [this]; exact ht
    · rw [pword_eq h32 (by omega) (by omega), C10L.encPath_eq h32 hl]
      have : h - (h - n.length) = n.length := by omega
      rw [this]
  · rintro ⟨i, k, hi, hk, hm, ht, rfl⟩
    have hv : i / 2^k < 2^(h - k) := by
      apply Nat.div_lt_of_lt_mul
      rw [← Nat.pow_add]
      have : k + (h - k) = h := by omega
      rw [this]; exact hi
    have hik : i / 2^k * 2^k = i := by
      have := Nat.div_add_mod i (2^k)
      rw [hm, Nat.add_zero, Nat.mul_comm] at this; exact this
    refine ⟨toBits (h - k) (i / 2^k), ?_, ?_⟩
    · rw [mem_preorder_root, toBits_length]
      exact ⟨by omega, ht⟩
    · have hl : (toBits (h - k) (i / 2^k)).length ≤ h := by rw [toBits_length]; omega
      rw [pword_eq h32 hk (by omega), C10L.encPath_eq h32 hl]
      unfold C10L.hi
      rw [toBits_length, bitsVal_toBits _ _ hv]
      have : h - (h - k) = k := by omega
      rw [this, hik]

/-! ### `tz` against divisibility -/

theorem le_tz_iff : ∀ (m w k : Nat), k ≤ m → (k ≤ tz w m ↔ w % 2^k = 0)
  | 0, w, k, hk => by
    have : k = 0 := by omega
    subst this; simp [tz, Nat.mod_one]
  | m+1, w, 0, _ => by simp [Nat.mod_one]
  | m+1, w, k+1, hk => by
    have ih := le_tz_iff m (w >>> 1) k (by omega)
    have e : w % 2^(k+1) = w % 2 + 2 * (w / 2 % 2^k) := by
      rw [Nat.pow_succ, Nat.mul_comm, Nat.mod_mul]
    rw [Nat.shiftRight_eq_div_pow, Nat.pow_one] at ih
    simp only [tz]
    by_cases hb : w.testBit 0 = true
    · have : w % 2 = 1 := by rw [Nat.testBit_zero] at hb; simpa using hb
      simp only [hb, if_true]
      omega
    · have : w % 2 = 0 := by rw [Nat.testBit_zero] at hb; simp at hb; omega
      simp only [hb]
      rw [Nat.shiftRight_eq_div_pow, Nat.pow_one]
      simp only [Bool.false_eq_true, if_false]
      omega

end Low.C04L
