import LowProofs.Lemmas.C16Count
/-
  Helper lemmas for C16, part 3: assembling `sbCountPrefixes`.
-/
namespace Low.C16L
open Low

theorem forall_mem_zipWith {α β γ} (f : α → β → γ) (P : γ → Prop) : ∀ (l : List α) (l' : List β),
    (∀ a ∈ l, ∀ b, P (f a b)) → ∀ d ∈ List.zipWith f l l', P d
  | [], _, _, d, hd => by simp at hd
  | _ :: _, [], _, d, hd => by simp at hd
  | a :: l, b :: l', h, d, hd => by
    simp only [List.zipWith_cons_cons, List.mem_cons] at hd
    rcases hd with e | hd
    · subst e; exact h a (by simp) b
    · exact forall_mem_zipWith f P l l' (fun a ha b => h a (by simp [ha]) b) d hd

theorem count_main (keys : List (List Nat)) (s e : Nat) (m : Int)
    (hasc : strictAsc keys = true) (hok : ∀ k ∈ keys, BytesOK k)
    (hdom : ∀ k ∈ keys, 8 * k.length ≤ 0x7fffffff)
    (hse : s + 2 ≤ e) (he : e ≤ keys.length) (hm : 1 ≤ m) :
    ∃ m0 cs, sbCountPrefixes keys s e m = some (m0, cs) ∧
      m0 ∈ List.zipWith fdSpec ((keys.drop s).take (e - s)) ((keys.drop s).take (e - s)).tail ∧
      (∀ d ∈ List.zipWith fdSpec ((keys.drop s).take (e - s)) ((keys.drop s).take (e - s)).tail, m0 ≤ d) ∧
      cs.length = m.toNat ∧
      ∀ i, i < m.toNat →
        cs.getD i 0 = distinctCount (((keys.drop s).take (e - s)).map (truncBits (m0 + i))) := by
  have hne : keys ≠ [] := by
    intro h; rw [h] at he; simp at he; omega
  have hfd := firstDiffBits_eq hne hok
  have hlen : (List.zipWith fdSpec keys keys.tail).length + 1 = keys.length := by
    cases keys with
    | nil => exact absurd rfl hne
    | cons k ks => simp
  have hcond : ¬ (e = 0 ∨ s > e - 1 ∨ e - 1 > (List.zipWith fdSpec keys keys.tail).length) := by omega
  have hes : e - 1 - s + 1 = e - s := by omega
  rw [sbCountPrefixes, hfd]
  simp only [hcond, if_false]
  rw [sig_slice, hes, countPrefixes_spec _ _ hm]
  generalize hsub : (keys.drop s).take (e - s) = sub
  have hsublen : sub.length = e - s := by rw [← hsub]; simp; omega
  have hsl : sub.Sublist keys := by
    rw [← hsub]; exact (List.take_sublist _ _).trans (List.drop_sublist _ _)
  have hoksub : ∀ k ∈ sub, BytesOK k := fun k hk => hok k (hsl.subset hk)
  have hascsub : strictAsc sub = true :=
    strictAsc_of_pairwise sub ((pairwise_of_strictAsc keys hasc).sublist hsl)
  have hsubne : sub ≠ [] := by intro h; rw [h] at hsublen; simp at hsublen; omega
  generalize hfds : List.zipWith fdSpec sub sub.tail = fds
  have hfdslen : fds.length = e - s - 1 := by rw [← hfds]; simp [hsublen]
  have hbound : ∀ d ∈ fds, d ≤ 0x7fffffff := by
    rw [← hfds]
    apply forall_mem_zipWith
    intro a ha b
    have h1 := lcp_le_left (bitsBE a) (bitsBE b)
    rw [bitsBE_length] at h1
    have h2 := hdom a (hsl.subset ha)
    simp only [fdSpec]; omega
  obtain ⟨h1, h2, h3⟩ := foldl_min_spec fds 0x7fffffff
  generalize List.foldl (fun mn d => if mn > d then d else mn) 0x7fffffff fds = mn at *
  have hmem : mn ∈ fds := by
    rcases h3 with h3 | h3
    · cases hf : fds with
      | nil => rw [hf] at hfdslen; simp at hfdslen; omega
      | cons d0 r =>
        have hd0 : d0 ∈ fds := by rw [hf]; simp
        have := h2 d0 hd0
        have := hbound d0 hd0
        have : d0 = mn := by omega
        rw [← this]; simp
    · exact h3
  refine ⟨mn, _, rfl, hmem, h2, by simp, ?_⟩
  intro i hi
  rw [distinct_trunc (mn + i) sub hsubne hoksub hascsub, hfds]
  have hf : fds.filter (fun d => decide (d - mn < i)) = fds.filter (fun d => decide (d < mn + i)) := by
    apply List.filter_congr
    intro d hd
    have := h2 d hd
    simp only [decide_eq_decide]; omega
  simp [List.getD, List.getElem?_map, List.getElem?_range hi, hf]

end Low.C16L
