import LowProofs.Lemmas.C17Scan
/-
  Helper lemmas for C17, part 2: an induction principle for `shardDfs` / `shardEach` that also shows that
  the fuel `keys.length + 1` suffices (every split point lies strictly inside the range).
-/
namespace Low.C17L
open Low Low.C16L

/-- the minimum computed for the range `[s, e)`: `len(keys[s])` and all adjacent common-prefix lengths -/
def lam (keys : List (List Nat)) (fds : List Nat) (s e : Nat) : Nat :=
  minFold fds s (e - 1 - s) (keys.getD s []).length

/-- the results of consecutive ranges `[s, t1), [t1, t2), …` concatenated -/
def Groups (Post : Nat → Nat → List Nat → List Nat → Prop) : Nat → List Nat → List Nat → List Nat → Prop
  | _, [], Ls, Bs => Ls = [] ∧ Bs = []
  | s, t :: es, Ls, Bs => ∃ L1 B1 L2 B2, Ls = L1 ++ L2 ∧ Bs = B1 ++ B2 ∧ Post s t L1 B1 ∧ Groups Post t es L2 B2

section
variable (keys : List (List Nat)) (fds : List Nat) (mx : Nat)
variable (Post : Nat → Nat → List Nat → List Nat → Prop)

theorem each_of_dfs (fuel : Nat)
    (hD : ∀ s e acc, s < e → e ≤ keys.length → e - s ≤ fuel →
      ∃ Ls Bs, shardDfs keys fds (mx : Int) fuel s e acc = some (acc.1 ++ Ls, acc.2 ++ Bs) ∧ Post s e Ls Bs) :
    ∀ (es : List Nat) (s : Nat) (acc : ShardAcc), Asc fuel keys.length s es →
      ∃ Ls Bs, shardEach keys fds (mx : Int) fuel s es acc = some (acc.1 ++ Ls, acc.2 ++ Bs) ∧
        Groups Post s es Ls Bs
  | [], s, acc, _ => ⟨[], [], by simp [shardEach], rfl, rfl⟩
  | t :: es, s, acc, h => by
    obtain ⟨h1, h2, h3, h4⟩ := h
    obtain ⟨L1, B1, e1, p1⟩ := hD s t acc h1 h2 h3
    obtain ⟨L2, B2, e2, p2⟩ := each_of_dfs fuel hD es t (acc.1 ++ L1, acc.2 ++ B1) h4
    refine ⟨L1 ++ L2, B1 ++ B2, ?_, L1, B1, L2, B2, rfl, rfl, p1, p2⟩
    rw [shardEach, e1]
    simp only [e2, List.append_assoc]

/-- Induction principle for `shardDfs`. `leaf` handles a range that fits, `split` a range that is cut at
    the positions described by `SplitOK`. The conclusion includes that the recursion does not run out of fuel. -/
theorem dfs_ind (hmx : 1 ≤ mx) (hlen : fds.length + 1 = keys.length)
    (hbl : ∀ t, t + 1 < keys.length → bl fds t ≤ (keys.getD t []).length)
    (leaf : ∀ s e, s < e → e ≤ keys.length → e - s ≤ mx → Post s e [lam keys fds s e] [e])
    (split : ∀ s e es Ls Bs, s < e → e ≤ keys.length → mx < e - s →
      SplitOK fds (lam keys fds s e) e s es → Groups Post s es Ls Bs → Post s e Ls Bs) :
    ∀ (fuel s e : Nat) (acc : ShardAcc), s < e → e ≤ keys.length → e - s ≤ fuel →
      ∃ Ls Bs, shardDfs keys fds (mx : Int) fuel s e acc = some (acc.1 ++ Ls, acc.2 ++ Bs) ∧ Post s e Ls Bs
  | 0, s, e, acc, h1, _, h3 => by omega
  | fuel+1, s, e, acc, h1, h2, h3 => by
    have hk : keys[s]? = some (keys.getD s []) := by
      simp [List.getD, List.getElem?_eq_getElem (show s < keys.length by omega)]
    rw [shardDfs]
    by_cases hsz : e - s ≤ mx
    · have hi : ((e : Int) - (s : Int) ≤ (mx : Int)) := by omega
      rw [if_pos hi]
      simp only [hk]
      rw [leaf_fold fds s (e - 1 - s) _ (by omega)]
      exact ⟨[lam keys fds s e], [e], rfl, leaf s e h1 h2 hsz⟩
    · have hi : ¬ ((e : Int) - (s : Int) ≤ (mx : Int)) := by omega
      rw [if_neg hi]
      simp only [hk]
      rw [shardScan_eq]
      have he : s + (e - 1 - s) + 1 = e := by omega
      have hsp := splitOK_cuts fds (lam keys fds s e) (e - 1 - s) s s (Nat.le_refl _)
        (fun i hi hi' => by omega)
        (fun i hi hi' => minFold_le_bl fds (e - 1 - s) s _ i hi hi')
      rw [he] at hsp
      have hlen2 : 2 ≤ (cuts fds (lam keys fds s e) s (e - 1 - s) ++ [e]).length := by
        cases hc : cuts fds (lam keys fds s e) s (e - 1 - s) with
        | cons => simp
        | nil =>
          exfalso
          rw [hc] at hsp
          have hall : ∀ i, s ≤ i → i + 1 < e → lam keys fds s e < bl fds i := hsp.2.2
          have hs := hall s (Nat.le_refl _) (by omega)
          rcases minFold_attained fds (e - 1 - s) s (keys.getD s []).length with h | ⟨t, t1, t2, t3⟩
          · have := hbl s (by omega)
            simp only [lam] at hs; omega
          · have := hall t t1 (by omega)
            simp only [lam] at this; omega
      have hasc := asc_of_splitOK fds (lam keys fds s e) e keys.length fuel s h2 (by omega) _ s hsp
        (Or.inr ⟨rfl, hlen2⟩)
      obtain ⟨Ls, Bs, e1, p1⟩ := each_of_dfs keys fds mx Post fuel
        (fun s e acc a b c => dfs_ind hmx hlen hbl leaf split fuel s e acc a b c) _ s acc hasc
      exact ⟨Ls, Bs, e1, split s e _ Ls Bs h1 h2 (by omega) hsp p1⟩

end

end Low.C17L
