import LowProofs.Lemmas.C04Loop
import LowProofs.Lemmas.C03Cases
/- C04 helpers, part 4: `allPaths` is the clipped `storedPaths`; the `Decode` predicate is `bitAt` -/
namespace Low.C04L
open Low

theorem height_toNat {T h : Nat} (hh : height T = (h : Int)) : (height T).toNat = h := by
  rw [hh]; exact Int.toNat_natCast h

/-- `AllPaths(T, frm, to)` = the stored path words `p` with `frm ≤ p < to`, in pre-order -/
theorem allPaths_eq (T h frm to : Nat) (hT1 : 1 ≤ T) (hT31 : T < 2^31) (hh : height T = (h : Int))
    (hto : to < 2^64) :
    allPaths T frm to = (storedPaths T h).filter (fun p => decide (frm ≤ p ∧ p < to)) := by
  have ⟨_, _, h30⟩ := C03L.height_spec hT1 hT31 hh
  have h32 : h ≤ 32 := by omega
  have hp30 : 2^h ≤ 2^30 := Nat.pow_le_pow_right (by omega) h30
  have e30 : (2:Nat)^30 = 1073741824 := by decide
  have e32 := C03L.two_pow_32
  have e64 := C03L.two_pow_64
  have eadd : add64 (to >>> 32) 1 = to / 4294967296 + 1 := by
    simp only [add64, Nat.shiftRight_eq_div_pow, e32, M64]
    omega
  simp only [allPaths, height_toNat hh, bit, eadd]
  generalize htt : (if to / 4294967296 + 1 > 2^h then 2^h else to / 4294967296 + 1) = tt
  have htt1 : tt ≤ 2^h := by rw [← htt]; split <;> omega
  have htt2 : tt ≤ to / 4294967296 + 1 := by rw [← htt]; split <;> omega
  have htt3 : ∀ i, i < 2^h → i ≤ to / 4294967296 → i < tt := by
    intro i h1 h2; rw [← htt]; split <;> omega
  have hb : ∀ i, frm >>> 32 ≤ i → i < frm >>> 32 + (tt - frm >>> 32) → i < 2^32 := by
    intro i h1 h2; omega
  have hs := rows_sorted T h (frm >>> 32) (tt - frm >>> 32) h32 hb
  rw [outer_eq_scan, scan_sorted frm to _ _ hs, List.append_nil, List.reverse_reverse]
  apply sorted_ext _ _ (hs.filter _) ((storedPaths_sorted T h h32).filter _)
  intro x
  simp only [List.mem_filter, List.mem_flatMap, List.mem_range'_1, mem_row T h _ x h32,
    mem_storedPaths T h x h32, decide_eq_true_eq]
  constructor
  · rintro ⟨⟨i, ⟨ha, hi⟩, k, hk, hm, ht, rfl⟩, hP⟩
    exact ⟨⟨i, k, by omega, hk, hm, ht, rfl⟩, hP⟩
  · rintro ⟨⟨i, k, hi, hk, hm, ht, rfl⟩, hP⟩
    have hbd := pword_bounds (h := h) (i := i) (k := k) h32 hk (by omega)
    rw [e32] at hbd
    refine ⟨⟨i, ⟨?_, ?_⟩, k, hk, hm, ht, rfl⟩, hP⟩
    · rw [Nat.shiftRight_eq_div_pow, e32]; omega
    · have h1 : frm >>> 32 ≤ i := by rw [Nat.shiftRight_eq_div_pow, e32]; omega
      have h2 : i < tt := htt3 i hi (by omega)
      omega

/-- every stored path word is below `2^62` -/
theorem storedPaths_lt (T h p : Nat) (h30 : h ≤ 30) (hp : p ∈ storedPaths T h) : p < 2^62 := by
  obtain ⟨i, k, hi, hk, _, _, rfl⟩ := (mem_storedPaths T h p (by omega)).mp hp
  have hp30 : 2^h ≤ 2^30 := Nat.pow_le_pow_right (by omega) h30
  have e30 : (2:Nat)^30 = 1073741824 := by decide
  have hbd := pword_bounds (h := h) (i := i) (k := k) (by omega) hk (by omega)
  have e32 := C03L.two_pow_32
  have e62 : (2:Nat)^62 = 4611686018427387904 := by decide
  rw [e32] at hbd; rw [e62]; omega

/-- the unfiltered enumeration, as `Decode` calls it -/
theorem allPaths_all (T h to : Nat) (hT1 : 1 ≤ T) (hT31 : T < 2^31) (hh : height T = (h : Int))
    (hto : to < 2^64) (hto' : 2^62 ≤ to) :
    allPaths T 0 to = storedPaths T h := by
  have ⟨_, _, h30⟩ := C03L.height_spec hT1 hT31 hh
  rw [allPaths_eq T h 0 to hT1 hT31 hh hto, List.filter_eq_self]
  intro p hp
  have := storedPaths_lt T h p h30 hp
  simp; omega

/-- the bitmap test of `Decode` for a non-negative `int32` index is `bitAt` -/
theorem decode_pred (bm : List Nat) (idx : Nat) :
    (decide ((bm.length : Int) > (idx : Int) / 64) && decide ((idx : Int) / 64 ≥ 0) &&
      (bm.getD ((idx : Int) / 64).toNat 0).testBit ((idx : Int) % 64).toNat) = bitAt bm idx := by
  have e1 : ((idx : Int) / 64).toNat = idx / 64 := by omega
  have e2 : ((idx : Int) % 64).toNat = idx % 64 := by omega
  rw [e1, e2]
  unfold bitAt
  by_cases hl : idx / 64 < bm.length
  · have h1 : (bm.length : Int) > (idx : Int) / 64 := by omega
    have h2 : (idx : Int) / 64 ≥ 0 := by omega
    simp [h1, h2]
  · have h1 : ¬ (bm.length : Int) > (idx : Int) / 64 := by omega
    have : bm.getD (idx / 64) 0 = 0 := by
      simp only [List.getD]
      rw [List.getElem?_eq_none (by omega)]; rfl
    rw [this]
    simp [h1]

end Low.C04L
