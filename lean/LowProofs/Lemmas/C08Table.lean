import LowProofs.Lemmas.C08Bits
/- C08: per-byte tables, checked by kernel evaluation over all 256 byte values and the four widths -/
namespace Low.C08L
open Low

/-- SPEC helper: word `j` of a single byte -/
def byteWord (n b j : Nat) : Nat := bitsVal (((byteBits b).drop (j * n)).take n)

theorem byte_from_table : ∀ n ∈ [1,2,4,8], ∀ b, b < 256 → ∀ j, j < 8 / n →
    (b >>> (8 - n * j - n)) &&& bwWordMask n = byteWord n b j := by decide +kernel

theorem byte_bits_table : ∀ n ∈ [1,2,4,8], ∀ b, b < 256 →
    ((List.range (8 / n)).map (byteWord n b)).flatMap (wordBits n) = byteBits b := by decide +kernel

end Low.C08L
