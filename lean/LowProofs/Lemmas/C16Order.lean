import LowProofs.Lemmas.C16Lcp
/-
  Helper lemmas for C16/C17: byte order (`bytesCompare`) versus bit order (`lexCmp` of `bitsBE`),
  strictly ascending key lists.
-/
namespace Low.C16L
open Low

/-! ### bytesCompare -/

theorem bytesCompare_cons_lt (x y : Nat) (a b : List Nat) :
    bytesCompare (x :: a) (y :: b) = -1 ↔ x < y ∨ (x = y ∧ bytesCompare a b = -1) := by
  simp only [bytesCompare]
  by_cases h1 : x < y
  · simp [h1]
  · by_cases h2 : x > y
    · have : ¬ x = y := by omega
      simp [h1, h2, this]
    · have : x = y := by omega
      simp [this]

theorem bytesCompare_nil_lt (b : List Nat) : bytesCompare [] b = -1 ↔ b ≠ [] := by
  cases b <;> simp [bytesCompare]

theorem bytesCompare_lt_nil (a : List Nat) : ¬ bytesCompare a [] = -1 := by
  cases a <;> simp [bytesCompare]

theorem bytesCompare_trans : ∀ (a b c : List Nat), bytesCompare a b = -1 → bytesCompare b c = -1 →
    bytesCompare a c = -1
  | _, [], _, h, _ => absurd h (bytesCompare_lt_nil _)
  | _, _ :: _, [], _, h => absurd h (bytesCompare_lt_nil _)
  | [], _ :: _, _ :: _, _, _ => by simp [bytesCompare]
  | x :: a, y :: b, z :: c, h1, h2 => by
    rw [bytesCompare_cons_lt] at h1 h2 ⊢
    rcases h1 with h1 | ⟨e1, h1⟩
    · rcases h2 with h2 | ⟨e2, h2⟩
      · left; omega
      · left; omega
    · rcases h2 with h2 | ⟨e2, h2⟩
      · left; omega
      · right; exact ⟨by omega, bytesCompare_trans a b c h1 h2⟩

theorem bytesCompare_irrefl : ∀ (a : List Nat), ¬ bytesCompare a a = -1
  | [] => by simp [bytesCompare]
  | x :: a => by
    rw [bytesCompare_cons_lt]
    rintro (h | ⟨_, h⟩)
    · omega
    · exact bytesCompare_irrefl a h

theorem strictAsc_cons_cons (a b : List Nat) (r : List (List Nat)) :
    strictAsc (a :: b :: r) = true ↔ bytesCompare a b = -1 ∧ strictAsc (b :: r) = true := by
  simp [strictAsc, keyLt]

theorem pairwise_of_strictAsc : ∀ (keys : List (List Nat)), strictAsc keys = true →
    keys.Pairwise (fun a b => bytesCompare a b = -1)
  | [], _ => List.Pairwise.nil
  | [a], _ => by simp
  | a :: b :: r, h => by
    obtain ⟨h1, h2⟩ := (strictAsc_cons_cons a b r).1 h
    have ih := pairwise_of_strictAsc (b :: r) h2
    refine List.Pairwise.cons ?_ ih
    intro x hx
    rcases List.mem_cons.1 hx with e | hx
    · subst e; exact h1
    · exact bytesCompare_trans a b x h1 ((List.pairwise_cons.1 ih).1 x hx)

theorem strictAsc_of_pairwise : ∀ (keys : List (List Nat)),
    keys.Pairwise (fun a b => bytesCompare a b = -1) → strictAsc keys = true
  | [], _ => rfl
  | [a], _ => rfl
  | a :: b :: r, h => by
    obtain ⟨h1, h2⟩ := List.pairwise_cons.1 h
    exact (strictAsc_cons_cons a b r).2 ⟨h1 b (by simp), strictAsc_of_pairwise (b :: r) h2⟩

/-! ### lexCmp on bit lists -/

theorem lexCmp_cons (a b : Bool) (as bs : List Bool) :
    lexCmp (a :: as) (b :: bs) = if a = b then lexCmp as bs else if a = false then -1 else 1 := rfl

theorem lexCmp_nil_left (y : List Bool) : lexCmp [] y ≠ 1 := by
  cases y <;> simp [lexCmp]

/-- truncation is monotone -/
theorem lexCmp_take : ∀ (n : Nat) (x y : List Bool), lexCmp x y ≠ 1 → lexCmp (x.take n) (y.take n) ≠ 1
  | 0, _, _, _ => by simp [lexCmp]
  | n+1, [], y, _ => by simpa using lexCmp_nil_left _
  | n+1, _ :: _, [], h => by simp [lexCmp] at h
  | n+1, a :: x, b :: y, h => by
    rw [lexCmp_cons] at h
    rw [List.take_succ_cons, List.take_succ_cons, lexCmp_cons]
    by_cases e : a = b
    · rw [if_pos e] at h ⊢; exact lexCmp_take n x y h
    · rw [if_neg e] at h ⊢; exact h

theorem lexCmp_antisymm : ∀ (x y : List Bool), lexCmp x y ≠ 1 → lexCmp y x ≠ 1 → x = y
  | [], [], _, _ => rfl
  | [], _ :: _, _, h => by simp [lexCmp] at h
  | _ :: _, [], h, _ => by simp [lexCmp] at h
  | a :: x, b :: y, h1, h2 => by
    rw [lexCmp_cons] at h1 h2
    by_cases e : a = b
    · subst e
      rw [if_pos rfl] at h1 h2
      rw [lexCmp_antisymm x y h1 h2]
    · have e' : ¬ b = a := fun h => e h.symm
      rw [if_neg e] at h1
      rw [if_neg e'] at h2
      cases a <;> cases b <;> simp at e h1 h2

theorem lexCmp_append_self : ∀ (u r r' : List Bool), lexCmp (u ++ r) (u ++ r') = lexCmp r r'
  | [], _, _ => rfl
  | a :: u, r, r' => by
    simp only [List.cons_append, lexCmp_cons, if_true]
    exact lexCmp_append_self u r r'

theorem lexCmp_append_lt : ∀ (u v r r' : List Bool), u.length = v.length → bitsVal u < bitsVal v →
    lexCmp (u ++ r) (v ++ r') = -1
  | [], [], _, _, _, h => by simp [bitsVal] at h
  | [], _ :: _, _, _, h, _ => by simp at h
  | _ :: _, [], _, _, h, _ => by simp at h
  | a :: u, b :: v, r, r', hl, h => by
    have hl' : u.length = v.length := by simpa using hl
    have hu := bitsVal_lt u
    have hv := bitsVal_lt v
    simp only [bitsVal] at h
    rw [hl'] at h hu
    simp only [List.cons_append, lexCmp_cons]
    by_cases e : a = b
    · subst e
      rw [if_pos rfl]
      exact lexCmp_append_lt u v r r' hl' (by omega)
    · rw [if_neg e]
      cases a <;> cases b <;> simp at e h ⊢
      omega

/-- byte order implies bit order -/
theorem lexCmp_bits_of_lt : ∀ (a b : List Nat), BytesOK a → BytesOK b → bytesCompare a b = -1 →
    lexCmp (bitsBE a) (bitsBE b) = -1
  | _, [], _, _, h => absurd h (bytesCompare_lt_nil _)
  | [], y :: b, _, _, _ => by
    have : ∃ c t, byteBits y = c :: t := by
      cases e : byteBits y with
      | nil => have := byteBits_length y; simp [e] at this
      | cons c t => exact ⟨c, t, rfl⟩
    obtain ⟨c, t, e⟩ := this
    simp [bitsBE_nil, bitsBE_cons, e, lexCmp]
  | x :: a, y :: b, hxa, hyb, h => by
    obtain ⟨hx, ha⟩ := bytesOK_cons.1 hxa
    obtain ⟨hy, hb⟩ := bytesOK_cons.1 hyb
    rw [bitsBE_cons, bitsBE_cons]
    rcases (bytesCompare_cons_lt x y a b).1 h with h1 | ⟨e, h1⟩
    · exact lexCmp_append_lt _ _ _ _ (by simp [byteBits_length])
        (by rw [bitsVal_byteBits hx, bitsVal_byteBits hy]; exact h1)
    · subst e
      rw [lexCmp_append_self]
      exact lexCmp_bits_of_lt a b ha hb h1

theorem bitsBE_inj : ∀ (a b : List Nat), BytesOK a → BytesOK b → bitsBE a = bitsBE b → a = b
  | [], [], _, _, _ => rfl
  | [], y :: b, _, _, h => by
    have := congrArg List.length h
    simp [bitsBE_length] at this
  | x :: a, [], _, _, h => by
    have := congrArg List.length h
    simp [bitsBE_length] at this
  | x :: a, y :: b, hxa, hyb, h => by
    obtain ⟨hx, ha⟩ := bytesOK_cons.1 hxa
    obtain ⟨hy, hb⟩ := bytesOK_cons.1 hyb
    rw [bitsBE_cons, bitsBE_cons] at h
    obtain ⟨h1, h2⟩ := List.append_inj h (by simp [byteBits_length])
    rw [byteBits_inj hx hy h1, bitsBE_inj a b ha hb h2]

/-- equal truncations: the lists are equal or agree on `n` elements -/
theorem take_eq_iff {α} [DecidableEq α] (n : Nat) (x y : List α) :
    x.take n = y.take n ↔ x = y ∨ n ≤ lcp x y := by
  constructor
  · intro h
    by_cases hx : n ≤ x.length
    · by_cases hy : n ≤ y.length
      · exact Or.inr ((le_lcp_iff n x y).2 ⟨hx, hy, h⟩)
      · left
        have := congrArg List.length h
        simp only [List.length_take] at this
        have e1 : y.take n = y := List.take_of_length_le (by omega)
        have e2 : x.take n = x := List.take_of_length_le (by omega)
        rw [e1, e2] at h; exact h
    · left
      have := congrArg List.length h
      simp only [List.length_take] at this
      have e1 : y.take n = y := List.take_of_length_le (by omega)
      have e2 : x.take n = x := List.take_of_length_le (by omega)
      rw [e1, e2] at h; exact h
  · rintro (h | h)
    · rw [h]
    · exact ((le_lcp_iff n x y).1 h).2.2

/-- for different keys, the `n`-bit truncations differ exactly when the first difference is before bit `n` -/
theorem truncBits_ne_iff {a b : List Nat} (ha : BytesOK a) (hb : BytesOK b) (hne : a ≠ b) (n : Nat) :
    truncBits n a ≠ truncBits n b ↔ fdSpec a b < n := by
  simp only [truncBits, fdSpec, ne_eq, take_eq_iff]
  constructor
  · intro h
    have : ¬ n ≤ lcp (bitsBE a) (bitsBE b) := fun h' => h (Or.inr h')
    omega
  · rintro h (h' | h')
    · exact hne (bitsBE_inj a b ha hb h')
    · omega

end Low.C16L
