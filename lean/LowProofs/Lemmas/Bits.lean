import LowModel
/- bit-level lemmas: popc, masks, tz, bitLen (core Lean only) -/
namespace Low

theorem popc_congr {a b : Nat} : ∀ {n : Nat}, (∀ k, k < n → a.testBit k = b.testBit k) → popc a n = popc b n
  | 0, _ => rfl
  | n+1, h => by
    simp only [popc]
    rw [popc_congr (fun k hk => h k (by omega)), h n (by omega)]

theorem popc_le (w : Nat) : ∀ n, popc w n ≤ n
  | 0 => by simp [popc]
  | n+1 => by
    simp only [popc]
    have := popc_le w n
    cases w.testBit n <;> simp <;> omega

theorem popc_mono (w : Nat) {m n : Nat} (h : m ≤ n) : popc w m ≤ popc w n := by
  induction n with
  | zero => have : m = 0 := by omega
            subst this; exact Nat.le_refl _
  | succ n ih =>
    by_cases hm : m = n + 1
    · subst hm; exact Nat.le_refl _
    · have := ih (by omega); simp only [popc]; omega

theorem testBit_and_mask (w j k : Nat) : (w &&& mask j).testBit k = (w.testBit k && decide (k < j)) := by
  simp [mask, Bool.and_comm]

theorem popc_and_mask (w j : Nat) : ∀ n, popc (w &&& mask j) n = popc w (min n j)
  | 0 => by simp [popc]
  | n+1 => by
    simp only [popc, popc_and_mask w j n, testBit_and_mask]
    by_cases h : n < j
    · have h1 : min (n+1) j = n + 1 := by omega
      have h2 : min n j = n := by omega
      simp [h1, h2, popc, h]
    · have h1 : min (n+1) j = j := by omega
      have h2 : min n j = j := by omega
      simp [h1, h2, h]

theorem popc_add (w m : Nat) : ∀ n, popc w (m + n) = popc w m + popc (w >>> m) n
  | 0 => by simp [popc]
  | n+1 => by
    have : m + (n + 1) = (m + n) + 1 := by omega
    rw [this]; simp only [popc, popc_add w m n, Nat.testBit_shiftRight]; omega

theorem popc_zero (n : Nat) : popc 0 n = 0 := by
  induction n with
  | zero => rfl
  | succ n ih => simp [popc, ih]

theorem popc_lt_two_pow {w n : Nat} (h : w < 2^n) : ∀ m, n ≤ m → popc w m = popc w n := by
  intro m hm
  induction m with
  | zero => have : n = 0 := by omega
            subst this; rfl
  | succ m ih =>
    by_cases hn : n = m + 1
    · subst hn; rfl
    · have hb : w.testBit m = false := Nat.testBit_lt_two_pow (Nat.lt_of_lt_of_le h (Nat.pow_le_pow_right (by omega) (by omega)))
      simp only [popc, hb, ih (by omega)]; simp

theorem shiftRight_mod_two (w j : Nat) : (w >>> j) % 2 = (w.testBit j).toNat := by
  rw [Nat.testBit_eq_decide_div_mod_eq, Nat.shiftRight_eq_div_pow]
  have : w / 2^j % 2 = 0 ∨ w / 2^j % 2 = 1 := by omega
  rcases this with h | h <;> simp [h]

end Low
