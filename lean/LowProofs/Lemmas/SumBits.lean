
import LowModel
/- sumBits: sums indexed by the set bits of a number; the symmetry lemma behind PathToIndex vs PathToIndexLoose (C03) -/
namespace Low

def sumBits (f : Nat → Nat) (b : Nat) : Nat → Nat
  | 0 => 0
  | n+1 => sumBits f b n + (if b.testBit n then f n else 0)

theorem sumBits_congr {f g : Nat → Nat} {b n : Nat} (h : ∀ k, k < n → f k = g k) :
    sumBits f b n = sumBits g b n := by
  induction n with
  | zero => rfl
  | succ n ih => simp only [sumBits]; rw [ih (fun k hk => h k (by omega)), h n (by omega)]

theorem sumBits_congr_b {f : Nat → Nat} {b c n : Nat} (h : ∀ k, k < n → b.testBit k = c.testBit k) :
    sumBits f b n = sumBits f c n := by
  induction n with
  | zero => rfl
  | succ n ih => simp only [sumBits]; rw [ih (fun k hk => h k (by omega)), h n (by omega)]

theorem sumBits_add (f g : Nat → Nat) (b n : Nat) :
    sumBits (fun k => f k + g k) b n = sumBits f b n + sumBits g b n := by
  induction n with
  | zero => rfl
  | succ n ih => simp only [sumBits, ih]; split <;> omega

theorem sumBits_mul (c : Nat) (f : Nat → Nat) (b n : Nat) :
    sumBits (fun k => c * f k) b n = c * sumBits f b n := by
  induction n with
  | zero => rfl
  | succ n ih => simp only [sumBits, ih]; split <;> simp [Nat.mul_add]

theorem sumBits_pow (b n : Nat) : sumBits (fun k => 2^k) b n = b % 2^n := by
  induction n with
  | zero => simp [sumBits, Nat.mod_one]
  | succ n ih =>
    simp only [sumBits, ih]
    rw [Nat.mod_pow_succ (x := b) (b := 2) (k := n)]
    have : b.testBit n = decide (b / 2^n % 2 = 1) := Nat.testBit_eq_decide_div_mod_eq
    rw [this]
    have h2 : b / 2^n % 2 = 0 ∨ b / 2^n % 2 = 1 := by omega
    rcases h2 with h | h <;> simp [h]

/-- peel bit 0 -/
theorem sumBits_shift (f : Nat → Nat) (a n : Nat) :
    sumBits f a (n+1) = (if a.testBit 0 then f 0 else 0) + sumBits (fun j => f (j+1)) (a >>> 1) n := by
  induction n with
  | zero => simp [sumBits]
  | succ n ih =>
    rw [sumBits, ih]; simp only [sumBits, Nat.testBit_shiftRight]
    have : 1 + n = n + 1 := by omega
    rw [this]; omega

def S (a b s : Nat) : Nat := sumBits (fun k => a >>> (s - k)) b (s+1)

/-- shifting the sum one level: S a b (s+1) restricted to b's low s+1 bits -/
theorem S_succ_low (a b s : Nat) :
    sumBits (fun k => a >>> (s + 1 - k)) b (s+1) = S (a >>> 1) b s := by
  unfold S
  apply sumBits_congr
  intro k hk
  have : s + 1 - k = 1 + (s - k) := by omega
  rw [this, Nat.shiftRight_add]

theorem S_symm (s : Nat) : ∀ a b, a < 2^(s+1) → b < 2^(s+1) → S a b s = S b a s := by
  induction s with
  | zero =>
    intro a b ha hb
    have ha' : a = 0 ∨ a = 1 := by omega
    have hb' : b = 0 ∨ b = 1 := by omega
    rcases ha' with rfl | rfl <;> rcases hb' with rfl | rfl <;> decide
  | succ s ih =>
    intro a b ha hb
    -- left side
    have hL : S a b (s+1) = S (a >>> 1) (b % 2^(s+1)) s + (if b.testBit (s+1) then a else 0) := by
      show sumBits (fun k => a >>> (s + 1 - k)) b (s+1+1) = _
      rw [sumBits, S_succ_low]
      have : S (a >>> 1) b s = S (a >>> 1) (b % 2^(s+1)) s := by
        unfold S; apply sumBits_congr_b; intro k hk
        simp [Nat.testBit_mod_two_pow, hk]
      rw [this]; simp
    -- right side
    have hb' : b % 2^(s+1) < 2^(s+1) := Nat.mod_lt _ (Nat.two_pow_pos _)
    have ha1 : a >>> 1 < 2^(s+1) := by
      rw [Nat.shiftRight_eq_div_pow]; rw [Nat.pow_succ] at ha; omega
    have hR : S b a (s+1) = (if b.testBit (s+1) then a else 0) + S (b % 2^(s+1)) (a >>> 1) s := by
      show sumBits (fun j => b >>> (s + 1 - j)) a (s+1+1) = _
      -- split b
      have hsplit : ∀ j, j < s+1+1 → b >>> (s+1-j) = (b / 2^(s+1)) * 2^j + (b % 2^(s+1)) >>> (s+1-j) := by
        intro j hj
        rw [Nat.shiftRight_eq_div_pow, Nat.shiftRight_eq_div_pow]
        have h1 : 2^(s+1) = 2^(s+1-j) * 2^j := by rw [← Nat.pow_add]; congr 1; omega
        have hpos : 0 < 2^(s+1-j) := Nat.two_pow_pos _
        conv => lhs; rw [← Nat.div_add_mod b (2^(s+1))]
        rw [h1, Nat.mul_assoc, Nat.mul_add_div hpos]
        rw [← h1, Nat.mul_comm]
      rw [sumBits_congr hsplit, sumBits_add, sumBits_mul, sumBits_pow]
      rw [Nat.mod_eq_of_lt ha, sumBits_shift]
      have hz : (b % 2^(s+1)) >>> (s+1-0) = 0 := by
        rw [Nat.shiftRight_eq_div_pow]; exact Nat.div_eq_of_lt hb'
      simp only [hz, ite_self, Nat.zero_add]
      have hbt : b / 2^(s+1) = if b.testBit (s+1) then 1 else 0 := by
        have : b / 2^(s+1) < 2 := by
          apply Nat.div_lt_of_lt_mul; rw [Nat.pow_succ] at hb; exact hb
        rw [Nat.testBit_eq_decide_div_mod_eq]
        generalize b / 2^(s+1) = q at this ⊢
        have h2 : q = 0 ∨ q = 1 := by omega
        rcases h2 with h | h <;> simp [h]
      rw [hbt]
      congr 1
      · split <;> simp
      · unfold S; apply sumBits_congr; intro k hk; congr 1; omega
    rw [hL, hR, ih _ _ ha1 hb']; omega

end Low
