import LowProofs.Lemmas.C03Loop
/- C03 helpers, part 4: the three code paths of `pathToIndexCore` evaluated on `encPath h n` -/
namespace Low.C03L
open Low

/-! ### the sum for the two special masks -/

/-- full tree: `Σ_{k ∈ b} (2^(k+1) - 1) + popcount b = 2 b` -/
theorem S_full (b h : Nat) : S (2^(h+1) - 1) b h + popc b (h+1) = 2 * (b % 2^(h+1)) := by
  unfold S
  rw [← sumBits_one, ← sumBits_add, ← sumBits_pow, ← sumBits_mul]
  apply sumBits_congr
  intro k hk
  have : (2^(h+1) - 1) >>> (h - k) = 2^(k+1) - 1 := by
    apply Nat.eq_of_testBit_eq; intro i
    rw [Nat.testBit_shiftRight, Nat.testBit_two_pow_sub_one, Nat.testBit_two_pow_sub_one]
    congr 1; apply propext; omega
  rw [this, Nat.pow_succ]
  have := Nat.two_pow_pos k
  omega

/-- leaf-only tree: `Σ_{k ∈ b} 2^k = b` -/
theorem S_leaf (b h : Nat) : S (2^h) b h = b % 2^(h+1) := by
  unfold S
  rw [← sumBits_pow]
  apply sumBits_congr
  intro k hk
  rw [Nat.shiftRight_eq_div_pow, Nat.pow_div (by omega) (by omega)]
  congr 1; omega

/-! ### common facts about a valid input -/

structure Valid (T h : Nat) (n : List Bool) : Prop where
  lo : 2^h ≤ T
  hi : T < 2^(h+1)
  h30 : h ≤ 30
  len : n.length ≤ h

theorem Valid.of_height {T h : Nat} {n : List Bool} (h1 : 1 ≤ T) (h31 : T < 2^31)
    (hh : height T = (h : Int)) (hn : n.length ≤ h) : Valid T h n :=
  have ⟨a, b, c⟩ := height_spec h1 h31 hh
  ⟨a, b, c, hn⟩

theorem Valid.lt31 {T h : Nat} {n : List Bool} (v : Valid T h n) : T < 2147483648 := by
  have : T < 2^31 := Nat.lt_of_lt_of_le v.hi (Nat.pow_le_pow_right (by omega) (by have := v.h30; omega))
  rw [two_pow_31] at this; exact this

theorem Valid.pbits_lt30 {T h : Nat} {n : List Bool} (v : Valid T h n) : pbits h n < 1073741824 := by
  have : pbits h n < 2^30 := Nat.lt_of_lt_of_le (pbits_lt v.len) (Nat.pow_le_pow_right (by omega) v.h30)
  have e : (2:Nat)^30 = 1073741824 := by decide
  rw [e] at this; exact this

theorem Valid.pmask_lt30 {T h : Nat} {n : List Bool} (v : Valid T h n) : pmask h n < 1073741824 := by
  have : pmask h n < 2^30 := Nat.lt_of_lt_of_le (pmask_lt v.len) (Nat.pow_le_pow_right (by omega) v.h30)
  have e : (2:Nat)^30 = 1073741824 := by decide
  rw [e] at this; exact this

theorem Valid.preIdx_lt {T h : Nat} {n : List Bool} (v : Valid T h n) : preIdx T 0 n < 2147483648 := by
  have := preIdx_le T n 0
  rw [Nat.shiftRight_zero] at this
  have := v.lt31; omega

/-! ### popcount of `path ^ 0xffffffff00000000` -/

theorem popc_xor_const {T h : Nat} {n : List Bool} (v : Valid T h n) :
    popc (encPath h n ^^^ 0xffffffff00000000) 64 + popc (pbits h n) 32 = n.length + 32 := by
  have h32 : h ≤ 32 := by have := v.h30; omega
  have hc : (0xffffffff00000000 : Nat) = (2^32 - 1) <<< 32 := by decide
  have e : (64 : Nat) = 32 + 32 := rfl
  rw [e, popc_add]
  have hlow : popc (encPath h n ^^^ 0xffffffff00000000) 32 = n.length := by
    rw [← popc_pmask h n v.len h32, ← encPath_mod h n v.len h32]
    apply popc_congr; intro k hk
    have : M32 = 2^32 := by decide
    rw [this, hc, Nat.testBit_xor, Nat.testBit_shiftLeft, Nat.testBit_mod_two_pow]
    have hk' : ¬ 32 ≤ k := by omega
    simp [hk, hk']
  have hhigh : popc ((encPath h n ^^^ 0xffffffff00000000) >>> 32) 32 + popc (pbits h n) 32 = 32 := by
    apply popc_compl; intro k hk
    rw [Nat.shiftRight_xor_distrib, encPath_shr h n v.len h32, hc, Nat.shiftLeft_shiftRight,
      Nat.testBit_xor, Nat.testBit_two_pow_sub_one]
    simp [hk]
  omega

/-! ### the three branches -/

theorem full_arith (p l X c idx S : Nat) (hp : p < 1073741824) (hx : X + c = l + 32)
    (hidx : idx = l + S) (hS : S + c = 2 * p) (hlt : idx < 2147483648) :
    wrap32 (wrap32 (wrap32 ((p : Nat) : Int) * 2) + (X : Int) - 32) = (idx : Int) := by
  have w1 : wrap32 ((p : Nat) : Int) = (p : Nat) := wrap32_id (by omega) (by omega)
  have w2 : wrap32 (((p : Nat) : Int) * 2) = (p : Nat) * 2 := wrap32_id (by omega) (by omega)
  rw [w1, w2, wrap32_id (by omega) (by omega)]
  omega

theorem core_full {T h : Nat} {n : List Bool} (v : Valid T h n) (hT : T = 2^(h+1) - 1) :
    wrap32 (wrap32 (wrap32 ((pbits h n : Nat) : Int) * 2) +
      (popc (encPath h n ^^^ 0xffffffff00000000) 64 : Int) - 32) = (preIdx T 0 n : Int) := by
  have hp := v.pbits_lt30
  have hx := popc_xor_const v
  have hidx : preIdx T 0 n = popc T n.length + S T (pbits h n) h := preIdx_eq_S T h n v.len
  have hlt := v.preIdx_lt
  have hpl : popc T n.length = n.length := by
    rw [hT, popc_mask]; have := v.len; omega
  have hS := S_full (pbits h n) h
  have hpm : pbits h n % 2^(h+1) = pbits h n :=
    Nat.mod_eq_of_lt (Nat.lt_of_lt_of_le (pbits_lt v.len) (Nat.pow_le_pow_right (by omega) (by omega)))
  have hpp : popc (pbits h n) (h+1) = popc (pbits h n) 32 := by
    rw [popc_lt_two_pow (pbits_lt v.len) (h+1) (by omega),
      popc_lt_two_pow (pbits_lt v.len) 32 (by have := v.h30; omega)]
  rw [hpm, hpp, ← hT] at hS
  rw [hpl] at hidx
  exact full_arith _ _ _ _ _ _ hp hx hidx hS hlt

theorem core_leaf {T h : Nat} {n : List Bool} (v : Valid T h n) (hT : T = 2^h) :
    wrap32 ((pbits h n : Nat) : Int) = (preIdx T 0 n : Int) := by
  have hp := v.pbits_lt30
  have hidx : preIdx T 0 n = popc T n.length + S T (pbits h n) h := preIdx_eq_S T h n v.len
  have hpl : popc T n.length = 0 := by
    rw [← popc_zero n.length]
    apply popc_congr; intro k hk
    rw [hT, Nat.testBit_two_pow, Nat.zero_testBit]
    have := v.len; simp; omega
  have hS := S_leaf (pbits h n) h
  have hpm : pbits h n % 2^(h+1) = pbits h n :=
    Nat.mod_eq_of_lt (Nat.lt_of_lt_of_le (pbits_lt v.len) (Nat.pow_le_pow_right (by omega) (by omega)))
  rw [hpm, ← hT] at hS
  rw [wrap32_id (by omega) (by omega)]
  omega

theorem core_general {T h : Nat} {n : List Bool} (v : Valid T h n) (swap : Bool) :
    wrap32 ((add64 (if swap then shiftMulti (pbits h n) T h else shiftMulti T (pbits h n) h)
      (popc (T &&& mask n.length) 64) : Nat) : Int) = (preIdx T 0 n : Int) := by
  have hidx : preIdx T 0 n = popc T n.length + S T (pbits h n) h := preIdx_eq_S T h n v.len
  have hlt := v.preIdx_lt
  have hp1 : pbits h n < 2^(h+1) :=
    Nat.lt_of_lt_of_le (pbits_lt v.len) (Nat.pow_le_pow_right (by omega) (by omega))
  have hs : h < 64 := by have := v.h30; omega
  have h1 : shiftMulti T (pbits h n) h = S T (pbits h n) h % M64 := shiftMulti_spec _ _ _ hp1 hs
  have h2 : shiftMulti (pbits h n) T h = S T (pbits h n) h % M64 := by
    rw [shiftMulti_spec _ _ _ v.hi hs, S_symm h _ _ hp1 v.hi]
  have hidx' : (if swap then shiftMulti (pbits h n) T h else shiftMulti T (pbits h n) h)
      = S T (pbits h n) h % M64 := by cases swap <;> simp [h1, h2]
  have hpm : popc (T &&& mask n.length) 64 = popc T n.length := by
    rw [popc_and_mask]; congr 1; have := v.len; have := v.h30; omega
  rw [hidx', hpm]
  have : add64 (S T (pbits h n) h % M64) (popc T n.length) = preIdx T 0 n := by
    simp only [add64, M64]; omega
  rw [this, wrap32_id (by omega) (by omega)]

theorem height_toNat {T h : Nat} {n : List Bool} (v : Valid T h n) : (height T).toNat = h := by
  rw [height_of_range v.lo v.hi v.h30]; rfl

/-- all branches: the release value is the pre-order index -/
theorem core_eq {T h : Nat} {n : List Bool} (v : Valid T h n) (swap : Bool) :
    pathToIndexCore swap T (encPath h n) = (preIdx T 0 n : Int) := by
  have h32 : h ≤ 32 := by have := v.h30; omega
  simp only [pathToIndexCore, height_toNat v, encPath_shr h n v.len h32, pathLen_encPath h n v.len h32,
    maskUpto, bit]
  split
  · rename_i hT; exact core_full v hT
  · split
    · rename_i hT; exact core_leaf v hT
    · exact core_general v swap

end Low.C03L
