import LowProofs.Lemmas.C16Order
import LowProofs.Lemmas.C16Fd
/-
  Helper lemmas for C16, part 2: `countPrefixes` (minimum, histogram, prefix sums) and the number of
  distinct elements of a sorted list.
-/
namespace Low.C16L
open Low

/-! ### distinct elements of a sorted list -/

/-- number of adjacent pairs with different members -/
def adjNe {α : Type} [DecidableEq α] : List α → Nat
  | a :: b :: r => (if a = b then 0 else 1) + adjNe (b :: r)
  | _ => 0

section
variable {α : Type} [DecidableEq α] (le : α → α → Prop) (anti : ∀ x y, le x y → le y x → x = y)
include anti

theorem filter_ne_sorted : ∀ (as : List α) (a : α), (a :: as).Pairwise le →
    as.filter (fun b => !(b == a)) = as.dropWhile (· == a)
  | [], _, _ => rfl
  | x :: as, a, h => by
    obtain ⟨h1, h2⟩ := List.pairwise_cons.1 h
    obtain ⟨h3, h4⟩ := List.pairwise_cons.1 h2
    by_cases e : x = a
    · subst e
      have ih := filter_ne_sorted as x (List.Pairwise.cons (fun y hy => h1 y (by simp [hy])) h4)
      simp [ih]
    · have hall : ∀ y ∈ as, y ≠ a := fun y hy ey =>
        e (anti x a (ey ▸ h3 y hy) (h1 x (by simp)))
      have hf : as.filter (fun b => !(b == a)) = as := by
        apply List.filter_eq_self.2
        intro y hy
        simpa using hall y hy
      simp [e, hf]

theorem eraseDups_sorted_step (as : List α) (a : α) (h : (a :: as).Pairwise le) :
    (a :: as).eraseDups.length = 1 + (as.dropWhile (· == a)).eraseDups.length := by
  rw [List.eraseDups_cons, filter_ne_sorted le anti as a h]
  simp; omega

/-- in a sorted list, the number of distinct elements is one more than the number of adjacent changes -/
theorem eraseDups_sorted : ∀ (as : List α) (a : α), (a :: as).Pairwise le →
    (a :: as).eraseDups.length = 1 + adjNe (a :: as)
  | [], a, _ => by simp [List.eraseDups_cons, adjNe]
  | x :: as, a, h => by
    have h2 := (List.pairwise_cons.1 h).2
    have ih := eraseDups_sorted as x h2
    rw [eraseDups_sorted_step le anti (x :: as) a h]
    by_cases e : x = a
    · subst e
      have := eraseDups_sorted_step le anti as x h2
      simp only [List.dropWhile_cons, beq_self_eq_true, if_true, adjNe]
      omega
    · have e' : ¬ a = x := fun h => e h.symm
      simp only [List.dropWhile_cons, beq_iff_eq, e, if_false, adjNe, e']
      omega

end

/-! ### the minimum -/

theorem foldl_min_spec : ∀ (fds : List Nat) (m0 : Nat),
    fds.foldl (fun mn d => if mn > d then d else mn) m0 ≤ m0 ∧
    (∀ d ∈ fds, fds.foldl (fun mn d => if mn > d then d else mn) m0 ≤ d) ∧
    (fds.foldl (fun mn d => if mn > d then d else mn) m0 = m0 ∨
      fds.foldl (fun mn d => if mn > d then d else mn) m0 ∈ fds)
  | [], m0 => by simp
  | d :: fds, m0 => by
    obtain ⟨h1, h2, h3⟩ := foldl_min_spec fds (if m0 > d then d else m0)
    simp only [List.foldl_cons]
    generalize List.foldl (fun mn d => if mn > d then d else mn) (if m0 > d then d else m0) fds = r at *
    refine ⟨by split at h1 <;> omega, ?_, ?_⟩
    · intro x hx
      rcases List.mem_cons.1 hx with e | hx
      · subst e; split at h1 <;> omega
      · exact h2 x hx
    · rcases h3 with h3 | h3
      · by_cases c : m0 > d
        · rw [if_pos c] at h3; right; simp [h3]
        · rw [if_neg c] at h3; left; exact h3
      · right; simp [h3]

/-! ### histogram and prefix sums -/

theorem filter_lt_succ (l : List Nat) (f : Nat → Nat) (j : Nat) :
    (l.filter (fun d => f d < j + 1)).length =
      (l.filter (fun d => f d < j)).length + (l.filter (fun d => f d = j)).length := by
  induction l with
  | nil => rfl
  | cons d l ih =>
    simp only [← List.countP_eq_length_filter] at ih ⊢
    simp only [List.countP_cons, decide_eq_true_eq]
    rw [ih]
    split <;> split <;> split <;> omega

theorem rst_fold (P cnt : Nat → Nat) (hP : ∀ j, P (j + 1) = P j + cnt j) : ∀ (n j0 : Nat) (pre : List Nat),
    ((List.range' j0 n).map cnt).foldl
        (fun (acc : List Nat × Nat) c => (acc.1 ++ [acc.2 + c], acc.2 + c)) (pre, P j0) =
      (pre ++ (List.range' (j0 + 1) n).map P, P (j0 + n))
  | 0, j0, pre => by simp
  | n+1, j0, pre => by
    rw [List.range'_succ, List.map_cons, List.foldl_cons]
    simp only [← hP]
    rw [rst_fold P cnt hP n (j0 + 1) (pre ++ [P (j0 + 1)]),
      show List.range' (j0 + 1) (n + 1) = (j0 + 1) :: List.range' (j0 + 1 + 1) n from List.range'_succ]
    have : j0 + 1 + n = j0 + (n + 1) := by omega
    rw [this]
    simp

theorem countPrefixes_spec (fds : List Nat) (m : Int) (hm : 1 ≤ m) :
    countPrefixes fds m = some (fds.foldl (fun mn d => if mn > d then d else mn) 0x7fffffff,
      (List.range m.toNat).map (fun i => 1 + (fds.filter
        (fun d => d - fds.foldl (fun mn d => if mn > d then d else mn) 0x7fffffff < i)).length)) := by
  have hm' : ¬ m < 1 := by omega
  simp only [countPrefixes, hm', if_false]
  generalize fds.foldl (fun mn d => if mn > d then d else mn) 0x7fffffff = mn
  have hP : ∀ j, (fun i => 1 + (fds.filter (fun d => d - mn < i)).length) (j + 1) =
      (fun i => 1 + (fds.filter (fun d => d - mn < i)).length) j +
        (fun j => (fds.filter (fun d => d - mn = j)).length) j := by
    intro j
    simp only [filter_lt_succ fds (fun d => d - mn) j]; omega
  obtain ⟨k, hk⟩ : ∃ k, m.toNat = k + 1 := ⟨m.toNat - 1, by omega⟩
  have := rst_fold (fun i => 1 + (fds.filter (fun d => d - mn < i)).length)
    (fun j => (fds.filter (fun d => d - mn = j)).length) hP k 0 [1]
  have h0 : List.filter (fun (_ : Nat) => false) fds = [] := by simp
  simp only [Nat.not_lt_zero, decide_false, h0, List.length_nil, Nat.add_zero, Nat.zero_add] at this
  rw [hk, Nat.add_sub_cancel, List.range_eq_range', this, List.range_eq_range',
    show List.range' 0 (k + 1) = 0 :: List.range' (0 + 1) k from List.range'_succ]
  simp

/-! ### the slice of the first-difference list -/

theorem zipWith_take_succ {α β γ} (f : α → β → γ) : ∀ (c : Nat) (l : List α) (l' : List β),
    List.zipWith f (l.take (c + 1)) (l'.take c) = List.zipWith f (l.take c) (l'.take c)
  | 0, _, _ => by simp
  | c+1, [], _ => by simp
  | c+1, _ :: _, [] => by simp
  | c+1, a :: l, b :: l' => by
    simp only [List.take_succ_cons, List.zipWith_cons_cons]
    rw [zipWith_take_succ f c l l']

theorem sig_slice {α β} (f : α → α → β) (keys : List α) (s c : Nat) :
    ((List.zipWith f keys keys.tail).drop s).take c =
      List.zipWith f ((keys.drop s).take (c + 1)) ((keys.drop s).take (c + 1)).tail := by
  have ht : ∀ (l : List α) (c : Nat), (l.take (c + 1)).tail = l.tail.take c := by
    intro l c; cases l <;> simp
  rw [List.drop_zipWith, List.take_zipWith, ht, zipWith_take_succ, List.drop_tail, List.tail_drop]

/-- the adjacent-change count of the truncations, in terms of the first differences -/
theorem adjNe_trunc (n : Nat) : ∀ (sub : List (List Nat)), (∀ k ∈ sub, BytesOK k) → strictAsc sub = true →
    adjNe (sub.map (truncBits n)) = ((List.zipWith fdSpec sub sub.tail).filter (fun d => d < n)).length
  | [], _, _ => rfl
  | [a], _, _ => rfl
  | a :: b :: r, hok, h => by
    obtain ⟨h1, h2⟩ := (strictAsc_cons_cons a b r).1 h
    have ih := adjNe_trunc n (b :: r) (fun k hk => hok k (by simp [hk])) h2
    have hne : a ≠ b := fun e => bytesCompare_irrefl a (e ▸ h1)
    have hiff := truncBits_ne_iff (hok a (by simp)) (hok b (by simp)) hne n
    simp only [List.map_cons, adjNe, List.tail_cons, List.zipWith_cons_cons, List.filter_cons] at ih ⊢
    by_cases c : fdSpec a b < n
    · have : ¬ truncBits n a = truncBits n b := hiff.2 c
      simp only [this, c, if_false, decide_true, if_true, List.length_cons, ih]; omega
    · have : truncBits n a = truncBits n b := by
        by_cases e : truncBits n a = truncBits n b
        · exact e
        · exact absurd (hiff.1 e) c
      simp only [this, c, if_true, decide_false, ih]
      simp

/-- distinct truncations of a strictly ascending key list -/
theorem distinct_trunc (n : Nat) (sub : List (List Nat)) (hne : sub ≠ []) (hok : ∀ k ∈ sub, BytesOK k)
    (h : strictAsc sub = true) :
    distinctCount (sub.map (truncBits n)) =
      1 + ((List.zipWith fdSpec sub sub.tail).filter (fun d => d < n)).length := by
  rw [← adjNe_trunc n sub hok h]
  have hp := pairwise_of_strictAsc sub h
  have hp2 : (sub.map (truncBits n)).Pairwise (fun x y => lexCmp x y ≠ 1) := by
    rw [List.pairwise_map]
    refine hp.imp_of_mem ?_
    intro a b ha hb hab
    have := lexCmp_bits_of_lt a b (hok a ha) (hok b hb) hab
    exact lexCmp_take n _ _ (by rw [this]; decide)
  cases sub with
  | nil => exact absurd rfl hne
  | cons a r =>
    simp only [List.map_cons] at hp2 ⊢
    exact eraseDups_sorted (fun x y => lexCmp x y ≠ 1) lexCmp_antisymm _ _ hp2

end Low.C16L
