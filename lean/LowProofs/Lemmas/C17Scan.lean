import LowProofs.Lemmas.C16Fd
/-
  Helper lemmas for C17, part 1: the scan of an oversized range (`shardScan`) and the minimum it computes.
-/
namespace Low.C17L
open Low Low.C16L

/-- common-prefix byte length of the adjacent pair `(t, t+1)`, as the code computes it -/
def bl (fds : List Nat) (t : Nat) : Nat := fds.getD t 0 / 8

/-- running minimum of `bl` over `[i, i+cnt)` starting from `m` -/
def minFold (fds : List Nat) (i cnt m : Nat) : Nat :=
  (List.range' i cnt).foldl (fun m t => min m (bl fds t)) m

theorem minFold_zero (fds : List Nat) (i m : Nat) : minFold fds i 0 m = m := rfl

theorem minFold_succ (fds : List Nat) (i cnt m : Nat) :
    minFold fds i (cnt + 1) m = minFold fds (i + 1) cnt (min m (bl fds i)) := by
  simp [minFold, List.range'_succ]

theorem minFold_le_init (fds : List Nat) : ∀ (cnt i m : Nat), minFold fds i cnt m ≤ m
  | 0, _, _ => Nat.le_refl _
  | cnt+1, i, m => by
    have := minFold_le_init fds cnt (i + 1) (min m (bl fds i))
    rw [minFold_succ]; omega

theorem minFold_le_bl (fds : List Nat) : ∀ (cnt i m t : Nat), i ≤ t → t < i + cnt → minFold fds i cnt m ≤ bl fds t
  | 0, _, _, _, h1, h2 => by omega
  | cnt+1, i, m, t, h1, h2 => by
    rw [minFold_succ]
    by_cases e : t = i
    · subst e
      have := minFold_le_init fds cnt (t + 1) (min m (bl fds t)); omega
    · exact minFold_le_bl fds cnt (i + 1) _ t (by omega) (by omega)

/-- the minimum is the start value or is attained -/
theorem minFold_attained (fds : List Nat) : ∀ (cnt i m : Nat),
    minFold fds i cnt m = m ∨ ∃ t, i ≤ t ∧ t < i + cnt ∧ minFold fds i cnt m = bl fds t
  | 0, _, _ => Or.inl rfl
  | cnt+1, i, m => by
    rw [minFold_succ]
    rcases minFold_attained fds cnt (i + 1) (min m (bl fds i)) with h | ⟨t, h1, h2, h3⟩
    · by_cases hm : m ≤ bl fds i
      · left; rw [h]; omega
      · right; exact ⟨i, by omega, by omega, by rw [h]; omega⟩
    · right; exact ⟨t, by omega, by omega, h3⟩

/-- positions `t+1` for `t` in `[i, i+cnt)` whose adjacent pair has common-prefix length `lam` -/
def cuts (fds : List Nat) (lam i cnt : Nat) : List Nat :=
  ((List.range' i cnt).filter (fun t => bl fds t = lam)).map (· + 1)

theorem cuts_zero (fds : List Nat) (lam i : Nat) : cuts fds lam i 0 = [] := rfl

theorem cuts_succ (fds : List Nat) (lam i cnt : Nat) :
    cuts fds lam i (cnt + 1) = (if bl fds i = lam then [i + 1] else []) ++ cuts fds lam (i + 1) cnt := by
  by_cases h : bl fds i = lam <;> simp [cuts, List.range'_succ, h]

/-- the scan returns exactly the positions where the final minimum is attained -/
theorem shardScan_spec (fds : List Nat) : ∀ (cnt i longest : Nat) (ends : List Nat),
    shardScan fds cnt i longest ends =
      (if minFold fds i cnt longest < longest then [] else ends) ++ cuts fds (minFold fds i cnt longest) i cnt
  | 0, i, longest, ends => by simp [shardScan, minFold_zero, cuts_zero]
  | cnt+1, i, longest, ends => by
    rw [shardScan, minFold_succ, cuts_succ]
    show (if bl fds i < longest then shardScan fds cnt (i + 1) (bl fds i) [i + 1]
      else if bl fds i = longest then shardScan fds cnt (i + 1) longest (ends ++ [i + 1])
      else shardScan fds cnt (i + 1) longest ends) = _
    by_cases h1 : bl fds i < longest
    · have e : min longest (bl fds i) = bl fds i := by omega
      have hle := minFold_le_init fds cnt (i + 1) (bl fds i)
      rw [if_pos h1, shardScan_spec fds cnt (i + 1) (bl fds i) [i + 1], e]
      generalize minFold fds (i + 1) cnt (bl fds i) = mf at *
      have c1 : mf < longest := by omega
      by_cases h2 : mf < bl fds i
      · have c2 : ¬ bl fds i = mf := by omega
        simp [c1, h2, c2]
      · have c2 : bl fds i = mf := by omega
        simp [c1, c2]
    · have e : min longest (bl fds i) = longest := by omega
      have hle := minFold_le_init fds cnt (i + 1) longest
      rw [if_neg h1, e]
      by_cases h2 : bl fds i = longest
      · rw [if_pos h2, shardScan_spec fds cnt (i + 1) longest (ends ++ [i + 1])]
        generalize minFold fds (i + 1) cnt longest = mf at *
        by_cases h3 : mf < longest
        · have c2 : ¬ bl fds i = mf := by omega
          simp [h3, c2]
        · have c2 : bl fds i = mf := by omega
          simp [h3, c2]
      · rw [if_neg h2, shardScan_spec fds cnt (i + 1) longest ends]
        generalize minFold fds (i + 1) cnt longest = mf at *
        have c2 : ¬ bl fds i = mf := by omega
        simp [c2]

theorem shardScan_eq (fds : List Nat) (cnt i longest : Nat) :
    shardScan fds cnt i longest [] = cuts fds (minFold fds i cnt longest) i cnt := by
  rw [shardScan_spec]; simp

/-! ### the list of split points, described recursively -/

/-- `SplitOK lam e s es`: `es` is a strictly ascending list of positions in `(s, e]` ending in `e`; every
    member except the last is a position whose adjacent pair `(t-1, t)` has common-prefix length `lam`; every
    other adjacent pair inside `[s, e)` has a longer common prefix. -/
def SplitOK (fds : List Nat) (lam e : Nat) : Nat → List Nat → Prop
  | _, [] => False
  | s, [t] => t = e ∧ s < t ∧ ∀ i, s ≤ i → i + 1 < t → lam < bl fds i
  | s, t :: t' :: es => s < t ∧ t < e ∧ bl fds (t - 1) = lam ∧ (∀ i, s ≤ i → i + 1 < t → lam < bl fds i) ∧
      SplitOK fds lam e t (t' :: es)

theorem splitOK_cuts (fds : List Nat) (lam : Nat) : ∀ (cnt s0 s : Nat), s0 ≤ s →
    (∀ i, s0 ≤ i → i < s → lam < bl fds i) → (∀ i, s ≤ i → i < s + cnt → lam ≤ bl fds i) →
    SplitOK fds lam (s + cnt + 1) s0 (cuts fds lam s cnt ++ [s + cnt + 1])
  | 0, s0, s, h0, h1, _ => by
    show _ = _ ∧ _ ∧ _
    exact ⟨rfl, by omega, fun i hi hi' => h1 i hi (by omega)⟩
  | cnt+1, s0, s, h0, h1, h2 => by
    rw [cuts_succ]
    have ih1 := splitOK_cuts fds lam cnt (s + 1) (s + 1) (Nat.le_refl _) (fun i _ _ => by omega)
      (fun i hi hi' => h2 i (by omega) (by omega))
    have e : s + 1 + cnt + 1 = s + (cnt + 1) + 1 := by omega
    rw [e] at ih1
    by_cases hb : bl fds s = lam
    · rw [if_pos hb]
      cases hc : cuts fds lam (s + 1) cnt ++ [s + (cnt + 1) + 1] with
      | nil => simp at hc
      | cons t' es =>
        rw [hc] at ih1
        rw [List.append_assoc, hc]
        show _ ∧ _ ∧ _ ∧ _ ∧ _
        exact ⟨by omega, by omega, by simpa using hb, fun i hi hi' => h1 i hi (by omega), ih1⟩
    · rw [if_neg hb, List.nil_append]
      have ih2 := splitOK_cuts fds lam cnt s0 (s + 1) (by omega)
        (fun i hi hi' => by
          by_cases e : i = s
          · subst e; have := h2 i (by omega) (by omega); omega
          · exact h1 i hi (by omega))
        (fun i hi hi' => h2 i (by omega) (by omega))
      rw [e] at ih2; exact ih2

/-- chain used for fuel: `s :: es` strictly ascending, below `n`, with gaps at most `fuel` -/
def Asc (fuel n : Nat) : Nat → List Nat → Prop
  | _, [] => True
  | s, t :: es => s < t ∧ t ≤ n ∧ t - s ≤ fuel ∧ Asc fuel n t es

theorem asc_of_splitOK (fds : List Nat) (lam e n fuel s0 : Nat) (he : e ≤ n) (hf : e - s0 - 1 ≤ fuel) :
    ∀ (es : List Nat) (s : Nat), SplitOK fds lam e s es → (s0 < s ∨ (s0 = s ∧ 2 ≤ es.length)) → Asc fuel n s es
  | [], _, h, _ => by simp [SplitOK] at h
  | [t], s, h, h0 => by
    simp only [SplitOK] at h
    simp only [Asc, and_true]
    simp at h0
    omega
  | t :: t' :: es, s, h, h0 => by
    simp only [SplitOK] at h
    refine ⟨h.1, by omega, by omega, ?_⟩
    exact asc_of_splitOK fds lam e n fuel s0 he hf (t' :: es) t h.2.2.2.2 (by omega)

theorem splitOK_last (fds : List Nat) (lam e : Nat) : ∀ (es : List Nat) (s : Nat), SplitOK fds lam e s es →
    (s :: es).getLast? = some e
  | [], _, h => by simp [SplitOK] at h
  | [t], s, h => by simp only [SplitOK] at h; simp [h.1]
  | t :: t' :: es, s, h => by
    simp only [SplitOK] at h
    have := splitOK_last fds lam e (t' :: es) t h.2.2.2.2
    rw [List.getLast?_cons_cons]; exact this

/-! ### the leaf expression -/

theorem take_drop_eq_map (l : List Nat) (s c : Nat) (h : s + c ≤ l.length) :
    (l.drop s).take c = (List.range' s c).map (fun t => l.getD t 0) := by
  apply List.ext_getElem
  · simp; omega
  · intro i h1 h2
    simp only [List.length_map, List.length_range'] at h2
    simp [List.getD, List.getElem?_eq_getElem (show s + i < l.length by omega)]

theorem leaf_fold (fds : List Nat) (s c m : Nat) (h : s + c ≤ fds.length) :
    ((fds.drop s).take c).foldl (fun mn d => if mn > d / 8 then d / 8 else mn) m = minFold fds s c m := by
  rw [take_drop_eq_map fds s c h, List.foldl_map, minFold]
  congr 1
  funext mn t
  simp only [bl]
  split <;> omega

end Low.C17L
