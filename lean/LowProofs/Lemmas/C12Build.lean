import LowProofs.Lemmas.C12
/-
  Helper lemmas for C12, second part: the two round trips ToArray∘Of and Of∘ToArray, word-list
  extensionality, and the single-step specifications of `Builder.extend` / `Builder.set`.
-/
namespace Low.C12L
open Low

/-! ### round trips -/

theorem map_toNat_sorted {ps : List Int} (hs : ps.Pairwise (· < ·)) (h0 : ∀ p ∈ ps, 0 ≤ p) :
    (ps.map Int.toNat).Pairwise (· < ·) := by
  rw [List.pairwise_map]
  refine List.Pairwise.imp_of_mem ?_ hs
  intro a b ha hb hab
  have := h0 a ha; have := h0 b hb
  omega

theorem map_ofNat_toNat : ∀ {ps : List Int}, (∀ p ∈ ps, 0 ≤ p) → (ps.map Int.toNat).map Int.ofNat = ps
  | [], _ => rfl
  | a :: r, h => by
    have ha := h a List.mem_cons_self
    have ih := map_ofNat_toNat (ps := r) (fun p hp => h p (List.mem_cons_of_mem _ hp))
    simp only [List.map_cons, ih]
    congr 1
    simp only [Int.ofNat_eq_natCast]; omega

/-- ToArray(Of(l)) = l for strictly ascending `l` -/
theorem toArray_of {ps : List Int} {ws : List Nat} (hs : ps.Pairwise (· < ·)) (h0 : ∀ p ∈ ps, 0 ≤ p)
    (hb : ∀ i : Nat, (bitAt ws i = true ↔ (i : Int) ∈ ps)) : toArray ws = ps.map Int.toNat := by
  rw [toArray_eq_ones]
  apply eq_of_sorted_of_mem_iff (ones_sorted ws) (map_toNat_sorted hs h0)
  intro x
  rw [mem_ones', hb, List.mem_map]
  constructor
  · intro h; exact ⟨x, h, by simp⟩
  · rintro ⟨p, hp, e⟩
    have := h0 p hp
    have : (x : Int) = p := by omega
    rw [this]; exact hp

theorem ones_ofNat_sorted (ws : List Nat) : ((ones ws).map Int.ofNat).Pairwise (· ≤ ·) := by
  rw [List.pairwise_map]
  refine List.Pairwise.imp ?_ (ones_sorted ws)
  intro a b hab
  simp only [Int.ofNat_eq_natCast]; omega

theorem ones_ofNat_nonneg (ws : List Nat) : ∀ p ∈ (ones ws).map Int.ofNat, 0 ≤ p := by
  intro p hp
  obtain ⟨x, _, e⟩ := List.mem_map.mp hp
  subst e; simp only [Int.ofNat_eq_natCast]; omega

theorem mem_ones_ofNat (ws : List Nat) (i : Nat) : (i : Int) ∈ (ones ws).map Int.ofNat ↔ bitAt ws i = true := by
  rw [List.mem_map, ← mem_ones']
  constructor
  · rintro ⟨x, hx, e⟩
    simp only [Int.ofNat_eq_natCast] at e
    have : x = i := by omega
    subst this; exact hx
  · intro h; exact ⟨i, h, rfl⟩

/-- two uint64 word lists of the same length that denote the same set are equal -/
theorem words_ext {a b : List Nat} (ha : WordsOK a) (hb : WordsOK b) (hl : a.length = b.length)
    (h : ∀ i, bitAt a i = bitAt b i) : a = b := by
  apply List.ext_getElem hl
  intro k h1 h2
  have hwa := List.getElem?_eq_getElem h1
  have hwb := List.getElem?_eq_getElem h2
  apply Nat.eq_of_testBit_eq
  intro j
  by_cases hj : j < 64
  · rw [← bitAt_word hwa hj, ← bitAt_word hwb hj, h]
  · have hp : 2 ^ 64 ≤ 2 ^ j := Nat.pow_le_pow_right (by omega) (by omega)
    rw [Nat.testBit_lt_two_pow (Nat.lt_of_lt_of_le (ha _ (List.getElem_mem h1)) hp),
      Nat.testBit_lt_two_pow (Nat.lt_of_lt_of_le (hb _ (List.getElem_mem h2)) hp)]

/-- the last position listed by `ones` lies in the last word `Of` allocates, so that word is not 0 -/
theorem getLast_ne_zero {ws' : List Nat} {ps : List Int} (hlen : ws'.length = ofLen ps none)
    (h0 : ∀ p ∈ ps, 0 ≤ p) (hb : ∀ i : Nat, (bitAt ws' i = true ↔ (i : Int) ∈ ps)) :
    ws'.getLast? ≠ some 0 := by
  intro hz
  cases hl : ps.getLast? with
  | none =>
    simp [ofLen, lastEnd, hl] at hlen
    subst hlen; cases hz
  | some l =>
    have hlm := List.mem_of_getLast? hl
    have hl0 := h0 l hlm
    have hbit := (hb l.toNat).mpr (by rw [Int.toNat_of_nonneg hl0]; exact hlm)
    have hidx : l.toNat / 64 = ws'.length - 1 := by
      simp only [ofLen, lastEnd, hl, Option.getD_none] at hlen
      omega
    rw [List.getLast?_eq_getElem?, ← hidx] at hz
    rw [bitAt_eq hz] at hbit
    simp at hbit

/-! ### Builder -/

theorem sum_nonneg : ∀ {l : List Int}, (∀ x ∈ l, 0 ≤ x) → 0 ≤ l.sum
  | [], _ => by simp
  | a :: r, h => by
    have := h a List.mem_cons_self
    have := sum_nonneg (l := r) (fun x hx => h x (List.mem_cons_of_mem _ hx))
    simp only [List.sum_cons]; omega

theorem growTo_length (ws : List Nat) (e : Int) :
    (growTo ws e).length = max ws.length ((e + 63) / 64).toNat := by
  simp only [growTo, zeros, List.length_append, List.length_replicate]; omega

/-- `Extend` with the `end` it grows to written as `Offset + max size (last+1)` (for `size ≥ 0`) -/
theorem extend_eq (b : Builder) (ps : List Int) (size : Int) (hsz : 0 ≤ size) :
    b.extend ps size =
      (orBits (growTo b.words (b.offset + max size (lastEnd ps))) (ps.map (b.offset + ·))).map
        (fun ws' => { words := ws', offset := b.offset + size }) := by
  unfold Builder.extend lastEnd
  cases hl : ps.getLast? with
  | none =>
    simp only
    have e : b.offset + size = b.offset + max size 0 := by omega
    rw [← e]
    cases orBits (growTo b.words (b.offset + size)) (ps.map (b.offset + ·)) <;> rfl
  | some l =>
    simp only
    have e : (if l ≥ size then b.offset + l + 1 else b.offset + size) = b.offset + max size (l + 1) := by
      split <;> omega
    rw [e]
    cases orBits (growTo b.words (b.offset + max size (l + 1))) (ps.map (b.offset + ·)) <;> rfl

/-- one `Extend`: never panics, advances Offset by `size`, ORs in the positions rebased by the old Offset,
    and leaves at least `Offset + max size (last+1)` bits of words -/
theorem extend_spec (b : Builder) (ps : List Int) (size : Int) (hb : 0 ≤ b.offset) (hsz : 0 ≤ size)
    (hs : ps.Pairwise (· ≤ ·)) (h0 : ∀ p ∈ ps, 0 ≤ p) :
    ∃ b', b.extend ps size = some b' ∧ b'.offset = b.offset + size ∧
      b'.words.length = max b.words.length ((b.offset + max size (lastEnd ps) + 63) / 64).toNat ∧
      (WordsOK b.words → WordsOK b'.words) ∧
      ∀ i : Nat, (bitAt b'.words i = true ↔ (bitAt b.words i = true ∨ ∃ p ∈ ps, (i : Int) = b.offset + p)) := by
  have hlen := growTo_length b.words (b.offset + max size (lastEnd ps))
  have hin : ∀ q ∈ ps.map (b.offset + ·), 0 ≤ q ∧
      q < 64 * ((growTo b.words (b.offset + max size (lastEnd ps))).length : Int) := by
    intro q hq
    obtain ⟨p, hp, e⟩ := List.mem_map.mp hq
    subst e
    have hp0 := h0 p hp
    refine ⟨by omega, ?_⟩
    rw [hlen]
    unfold lastEnd
    cases hl : ps.getLast? with
    | none => rw [List.getLast?_eq_none_iff] at hl; subst hl; cases hp
    | some l =>
      have := le_getLast hs l hl p hp
      simp only
      omega
  obtain ⟨ws', h1, h2, h3, h4⟩ := orBits_spec _ _ hin
  refine ⟨⟨ws', b.offset + size⟩, ?_, rfl, ?_, ?_, ?_⟩
  · rw [extend_eq b ps size hsz, h1]; rfl
  · simp only [h2, hlen]
  · intro hok
    exact h3 (by unfold growTo; exact wordsOK_append_zeros hok _)
  · intro i
    simp only
    rw [h4]
    unfold growTo
    rw [bitAt_append_zeros, List.mem_map]
    constructor
    · rintro (h' | ⟨p, hp, e⟩)
      · exact Or.inl h'
      · exact Or.inr ⟨p, hp, e.symm⟩
    · rintro (h' | ⟨p, hp, e⟩)
      · exact Or.inl h'
      · exact Or.inr ⟨p, hp, e.symm⟩

/-- OR-ing `b << (i%64)` (b a single bit) into word `i/64` inserts `i` iff `b = 1` -/
theorem bitAt_set_or_bool {ws : List Nat} {i w : Nat} (hw : ws[i / 64]? = some w) (c : Bool) (m : Nat) :
    bitAt (ws.set (i / 64) (w ||| (c.toNat <<< (i % 64)))) m = (bitAt ws m || (c && decide (m = i))) := by
  cases c
  · simp only [Bool.toNat_false, Nat.zero_shiftLeft, Nat.or_zero, Bool.false_and, Bool.or_false]
    have : ws.set (i / 64) w = ws := by
      apply List.ext_getElem? ; intro k
      rw [List.getElem?_set]
      split
      · rename_i h; subst h
        split
        · exact hw.symm
        · rename_i h'; rw [List.getElem?_eq_none (by omega)]
      · rfl
    rw [this]
  · simp only [Bool.toNat_true, Nat.one_shiftLeft, Bool.true_and]
    exact bitAt_set_or hw m

/-- one `Builder.Set(pos, value)` for `pos ≥ 0`: never panics, ORs in bit `pos` iff `value` is odd,
    moves Offset to `max Offset (pos+1)` -/
theorem builder_set_spec (b : Builder) (pos value : Int) (hp : 0 ≤ pos) :
    ∃ b', b.set pos value = some b' ∧ b'.offset = max b.offset (pos + 1) ∧
      b'.words.length = max b.words.length (pos.toNat / 64 + 1) ∧
      (WordsOK b.words → WordsOK b'.words) ∧
      ∀ i : Nat, (bitAt b'.words i = true ↔ (bitAt b.words i = true ∨ ((i : Int) = pos ∧ value % 2 = 1))) := by
  have hlen : (b.words ++ zeros (pos.toNat / 64 + 1 - b.words.length)).length =
      max b.words.length (pos.toNat / 64 + 1) := by
    simp only [zeros, List.length_append, List.length_replicate]; omega
  have hq : pos.toNat / 64 < (b.words ++ zeros (pos.toNat / 64 + 1 - b.words.length)).length := by omega
  have hw := List.getElem?_eq_getElem hq
  have hv : (value % 2).toNat = (decide (value % 2 = 1)).toNat := by
    have : value % 2 = 0 ∨ value % 2 = 1 := by omega
    rcases this with h | h <;> simp [h]
  refine ⟨Builder.mk ((b.words ++ zeros (pos.toNat / 64 + 1 - b.words.length)).set (pos.toNat / 64)
      ((b.words ++ zeros (pos.toNat / 64 + 1 - b.words.length))[pos.toNat / 64] |||
        ((value % 2).toNat <<< (pos.toNat % 64))))
    (if b.offset ≤ pos then pos + 1 else b.offset), ?_, ?_, ?_, ?_, ?_⟩
  · simp only [Builder.set, if_neg (show ¬ pos < 0 by omega), hw]
  · simp only; split <;> omega
  · simp only [List.length_set, hlen]
  · intro hok
    have hok1 := wordsOK_append_zeros hok (pos.toNat / 64 + 1 - b.words.length)
    apply wordsOK_set hok1
    rw [hv]
    apply Nat.or_lt_two_pow (hok1 _ (List.getElem_mem hq))
    cases decide (value % 2 = 1)
    · simp
    · simp only [Bool.toNat_true, Nat.one_shiftLeft]
      exact Nat.pow_lt_pow_right (by omega) (by omega)
  · intro i
    simp only
    rw [hv, bitAt_set_or_bool hw, bitAt_append_zeros]
    simp only [Bool.or_eq_true, Bool.and_eq_true, decide_eq_true_eq]
    have : i = pos.toNat ↔ (i : Int) = pos := by omega
    rw [this]
    constructor
    · rintro (h' | ⟨h1, h2⟩)
      · exact Or.inl h'
      · exact Or.inr ⟨h2, h1⟩
    · rintro (h' | ⟨h1, h2⟩)
      · exact Or.inl h'
      · exact Or.inr ⟨h2, h1⟩

end Low.C12L
