import LowProofs.Lemmas.C16Lcp
/-
  Helper lemmas for C16, part 1: `get64Bits`, `lz` of an xor, the chunk loop of `sFirstDiffBit`.
-/
namespace Low.C16L
open Low

/-! ### bitLen / lz of the xor of two bit lists -/

theorem bitLen_congr {a b : Nat} : ∀ {n : Nat}, (∀ k, k < n → a.testBit k = b.testBit k) → bitLen a n = bitLen b n
  | 0, _ => rfl
  | n+1, h => by
    simp only [bitLen]
    rw [bitLen_congr (fun k hk => h k (by omega)), h n (by omega)]

theorem bitLen_le' (w : Nat) : ∀ n, bitLen w n ≤ n
  | 0 => by simp [bitLen]
  | n+1 => by
    have := bitLen_le' w n
    simp only [bitLen]; split <;> omega

theorem testBit_hi (b : Bool) {v n : Nat} (hv : v < 2 ^ n) : (b.toNat * 2 ^ n + v).testBit n = b := by
  rw [Nat.mul_comm, Nat.testBit_two_pow_mul_add _ hv]
  cases b <;> simp

theorem testBit_lo (b : Bool) {v n k : Nat} (hv : v < 2 ^ n) (hk : k < n) :
    (b.toNat * 2 ^ n + v).testBit k = v.testBit k := by
  rw [Nat.mul_comm, Nat.testBit_two_pow_mul_add _ hv]
  simp [hk]

/-- leading zeros of the xor = length of the common prefix of the two big-endian bit lists -/
theorem lz_xor : ∀ (x y : List Bool), x.length = y.length →
    lz (bitsVal x ^^^ bitsVal y) x.length = lcp x y
  | [], [], _ => by simp [lz, bitLen, lcp]
  | [], _ :: _, h => by simp at h
  | _ :: _, [], h => by simp at h
  | b :: r, c :: t, h => by
    have hl : r.length = t.length := by simpa using h
    have ih := lz_xor r t hl
    have hr := bitsVal_lt r
    have ht := bitsVal_lt t
    rw [← hl] at ht
    simp only [lz] at ih ⊢
    simp only [bitsVal, List.length_cons, bitLen, Nat.testBit_xor, lcp_cons]
    rw [← hl, testBit_hi b hr, testBit_hi c ht]
    by_cases e : b = c
    · subst e
      have hc : bitLen ((b.toNat * 2 ^ r.length + bitsVal r) ^^^ (b.toNat * 2 ^ r.length + bitsVal t)) r.length
          = bitLen (bitsVal r ^^^ bitsVal t) r.length := by
        apply bitLen_congr
        intro k hk
        simp only [Nat.testBit_xor, testBit_lo b hr hk, testBit_lo b ht hk]
      have hle := bitLen_le' (bitsVal r ^^^ bitsVal t) r.length
      have hbb : (b != b) = false := by simp
      simp only [hbb, Bool.false_eq_true, if_false, if_true, hc]
      omega
    · have : (b != c) = true := by simpa using e
      simp [this, e]

/-! ### get64Bits -/

/-- the first `n` bytes, zero padded -/
def pad : Nat → List Nat → List Nat
  | 0, _ => []
  | n+1, [] => 0 :: pad n []
  | n+1, x :: s => x :: pad n s

theorem pad_length : ∀ (n : Nat) (s : List Nat), (pad n s).length = n
  | 0, _ => rfl
  | n+1, [] => by simp [pad, pad_length n]
  | n+1, x :: s => by simp [pad, pad_length n]

theorem pad_eq_map : ∀ (n : Nat) (s : List Nat), pad n s = (List.range n).map (fun j => s.getD j 0)
  | 0, _ => rfl
  | n+1, [] => by
    have := pad_eq_map n []
    simp only [pad, this, List.range_succ_eq_map, List.map_cons, List.map_map]
    simp
  | n+1, x :: s => by
    have := pad_eq_map n s
    simp only [pad, this, List.range_succ_eq_map, List.map_cons, List.map_map]
    simp

theorem getD_lt {s : List Nat} (h : BytesOK s) (j : Nat) : s.getD j 0 < 256 := by
  simp only [List.getD]
  cases e : s[j]? with
  | none => simp
  | some v => simpa using h v (List.mem_of_getElem? e)

theorem get64Bits_eq {s : List Nat} (h : BytesOK s) : get64Bits s = bitsVal (bitsBE (pad 8 s)) := by
  have h0 := getD_lt h 0
  have h1 := getD_lt h 1
  have h2 := getD_lt h 2
  have h3 := getD_lt h 3
  have h4 := getD_lt h 4
  have h5 := getD_lt h 5
  have h6 := getD_lt h 6
  have h7 := getD_lt h 7
  have hr : List.range 8 = [0, 1, 2, 3, 4, 5, 6, 7] := by decide
  rw [pad_eq_map, get64Bits, hr]
  simp only [List.map_cons, List.map_nil, List.foldl_cons, List.foldl_nil]
  rw [bitsVal_bitsBE_cons h0, bitsVal_bitsBE_cons h1, bitsVal_bitsBE_cons h2, bitsVal_bitsBE_cons h3,
    bitsVal_bitsBE_cons h4, bitsVal_bitsBE_cons h5, bitsVal_bitsBE_cons h6, bitsVal_bitsBE_cons h7]
  generalize s.getD 0 0 = x0 at *
  generalize s.getD 1 0 = x1 at *
  generalize s.getD 2 0 = x2 at *
  generalize s.getD 3 0 = x3 at *
  generalize s.getD 4 0 = x4 at *
  generalize s.getD 5 0 = x5 at *
  generalize s.getD 6 0 = x6 at *
  generalize s.getD 7 0 = x7 at *
  simp only [add64, shl64, Nat.shiftLeft_eq, bitsBE_nil, bitsVal, List.length_cons, List.length_nil, M64,
    Nat.reduceMul, Nat.reduceSub, Nat.reduceLT, Nat.reducePow, Nat.reduceAdd, if_true]
  omega

/-- the leading zeros of the xor of two chunks is the bit lcp of the padded chunks -/
theorem lz_chunks {a b : List Nat} (ha : BytesOK a) (hb : BytesOK b) :
    lz (get64Bits a ^^^ get64Bits b) 64 = lcp (bitsBE (pad 8 a)) (bitsBE (pad 8 b)) := by
  have h1 : (bitsBE (pad 8 a)).length = 64 := by rw [bitsBE_length, pad_length]
  have h2 : (bitsBE (pad 8 b)).length = 64 := by rw [bitsBE_length, pad_length]
  have := lz_xor (bitsBE (pad 8 a)) (bitsBE (pad 8 b)) (by rw [h1, h2])
  rw [h1] at this
  rw [get64Bits_eq ha, get64Bits_eq hb, this]

/-- comparing zero-padded chunks: clipped to the shorter key it is the true bit lcp, capped at the chunk size -/
theorem pad_lcp : ∀ (n : Nat) (a b : List Nat), BytesOK a → BytesOK b →
    min (lcp (bitsBE (pad n a)) (bitsBE (pad n b))) (8 * min a.length b.length) =
      min (lcp (bitsBE a) (bitsBE b)) (8 * n)
  | 0, a, b, _, _ => by simp [pad, bitsBE_nil, lcp_nil_left]
  | n+1, [], b, _, _ => by simp [bitsBE_nil, lcp_nil_left]
  | n+1, _ :: _, [], _, _ => by simp [bitsBE_nil, lcp_nil_right]
  | n+1, x :: a, y :: b, hxa, hyb => by
    obtain ⟨hx, ha⟩ := bytesOK_cons.1 hxa
    obtain ⟨hy, hb⟩ := bytesOK_cons.1 hyb
    simp only [pad, List.length_cons]
    by_cases e : x = y
    · subst e
      have ih := pad_lcp n a b ha hb
      rw [lcp_bits_cons_eq, lcp_bits_cons_eq]
      omega
    · have h1 := lcp_bits_cons_ne hx hy e (pad n a) (pad n b)
      have h2 := lcp_bits_cons_ne hx hy e a b
      rw [h1.1, h2.1]; omega

/-! ### the chunk loop -/

theorem lcp_bits_take_drop {a b : List Nat} {i : Nat} (h : a.take i = b.take i) (hia : i ≤ a.length) :
    lcp (bitsBE a) (bitsBE b) = 8 * i + lcp (bitsBE (a.drop i)) (bitsBE (b.drop i)) := by
  have e1 : bitsBE a = bitsBE (a.take i) ++ bitsBE (a.drop i) := by rw [← bitsBE_append, List.take_append_drop]
  have e2 : bitsBE b = bitsBE (a.take i) ++ bitsBE (b.drop i) := by rw [h, ← bitsBE_append, List.take_append_drop]
  rw [e1, e2, lcp_append_left, bitsBE_length, List.length_take, Nat.min_eq_left hia]

/-- agreeing on `8*i` bits means agreeing on `i` bytes -/
theorem take_eq_of_le_lcp_bits : ∀ (i : Nat) (a b : List Nat), BytesOK a → BytesOK b →
    8 * i ≤ lcp (bitsBE a) (bitsBE b) → a.take i = b.take i
  | 0, _, _, _, _, _ => by simp
  | i+1, [], b, _, _, h => by simp [bitsBE_nil, lcp_nil_left] at h
  | i+1, _ :: _, [], _, _, h => by simp [bitsBE_nil, lcp_nil_right] at h
  | i+1, x :: a, y :: b, hxa, hyb, h => by
    obtain ⟨hx, ha⟩ := bytesOK_cons.1 hxa
    obtain ⟨hy, hb⟩ := bytesOK_cons.1 hyb
    by_cases e : x = y
    · subst e
      rw [lcp_bits_cons_eq] at h
      simp only [List.take_succ_cons, List.cons.injEq, true_and]
      exact take_eq_of_le_lcp_bits i a b ha hb (by omega)
    · have h2 := lcp_bits_cons_ne hx hy e a b
      omega

theorem sFirstDiffLoop_done (a b : List Nat) (minl : Nat) : ∀ (fuel i : Nat),
    ¬ (i < a.length ∧ i < b.length) → sFirstDiffLoop a b minl fuel i = minl
  | 0, _, _ => rfl
  | fuel+1, i, h => by simp only [sFirstDiffLoop, h, if_false]

theorem sFirstDiffLoop_spec {a b : List Nat} (ha : BytesOK a) (hb : BytesOK b) : ∀ (fuel i : Nat),
    a.take i = b.take i → i ≤ a.length → i ≤ b.length → a.length < i + 8 * fuel →
    sFirstDiffLoop a b (min (a.length * 8) (b.length * 8)) fuel i = lcp (bitsBE a) (bitsBE b)
  | 0, i, _, h1, _, h3 => by omega
  | fuel+1, i, ht, h1, h2, h3 => by
    have hF := lcp_bits_take_drop ht h1
    have hla : (a.drop i).length = a.length - i := List.length_drop
    have hlb : (b.drop i).length = b.length - i := List.length_drop
    have hle1 := lcp_le_left (bitsBE (a.drop i)) (bitsBE (b.drop i))
    have hle2 := lcp_le_right (bitsBE (a.drop i)) (bitsBE (b.drop i))
    rw [bitsBE_length, hla] at hle1
    rw [bitsBE_length, hlb] at hle2
    by_cases hc : i < a.length ∧ i < b.length
    · have hp := pad_lcp 8 (a.drop i) (b.drop i) (bytesOK_drop ha i) (bytesOK_drop hb i)
      rw [hla, hlb] at hp
      have hc64 := lcp_le_left (bitsBE (pad 8 (a.drop i))) (bitsBE (pad 8 (b.drop i)))
      rw [bitsBE_length, pad_length] at hc64
      simp only [sFirstDiffLoop, hc, and_self, if_true, lz_chunks (bytesOK_drop ha i) (bytesOK_drop hb i)]
      generalize lcp (bitsBE (pad 8 (a.drop i))) (bitsBE (pad 8 (b.drop i))) = c at *
      generalize lcp (bitsBE (a.drop i)) (bitsBE (b.drop i)) = F' at *
      by_cases hc' : c < 64
      · simp only [hc', if_true]
        split <;> omega
      · simp only [hc', if_false]
        by_cases hn : i + 8 ≤ a.length ∧ i + 8 ≤ b.length
        · have ht' : a.take (i + 8) = b.take (i + 8) :=
            take_eq_of_le_lcp_bits (i + 8) a b ha hb (by omega)
          exact sFirstDiffLoop_spec ha hb fuel (i + 8) ht' hn.1 hn.2 (by omega)
        · rw [sFirstDiffLoop_done a b _ fuel (i + 8) (by omega)]
          omega
    · rw [sFirstDiffLoop_done a b _ (fuel + 1) i hc]
      omega

theorem sFirstDiffBit_eq {a b : List Nat} (ha : BytesOK a) (hb : BytesOK b) :
    sFirstDiffBit a b = fdSpec a b := by
  simp only [sFirstDiffBit, fdSpec]
  exact sFirstDiffLoop_spec ha hb (a.length / 8 + 1) 0 (by simp) (by omega) (by omega) (by omega)

theorem zipWith_congr_mem {α β γ} {f g : α → β → γ} : ∀ (l1 : List α) (l2 : List β),
    (∀ a ∈ l1, ∀ b ∈ l2, f a b = g a b) → List.zipWith f l1 l2 = List.zipWith g l1 l2
  | [], _, _ => by simp
  | _ :: _, [], _ => by simp
  | a :: l1, b :: l2, h => by
    simp only [List.zipWith_cons_cons]
    rw [h a (by simp) b (by simp), zipWith_congr_mem l1 l2 (fun a ha b hb => h a (by simp [ha]) b (by simp [hb]))]

theorem firstDiffBits_eq {keys : List (List Nat)} (hne : keys ≠ []) (hok : ∀ k ∈ keys, BytesOK k) :
    firstDiffBits keys = some (List.zipWith fdSpec keys keys.tail) := by
  cases keys with
  | nil => exact absurd rfl hne
  | cons k ks =>
    simp only [firstDiffBits, List.tail_cons, Option.some.injEq]
    apply zipWith_congr_mem
    intro a ha b hb
    exact sFirstDiffBit_eq (hok a ha) (hok b (by simp [hb]))

end Low.C16L
