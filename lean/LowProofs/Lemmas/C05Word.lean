import LowProofs.Lemmas.C05Spec
/-
  C05, part 2: the two-halves view of a path word, `W a m = a * 2^32 + m`, the path word of a
  concatenation, the explicit prefix of `nodeAt` (phase A's mathematics), and the int32/uint64 helpers.
-/
namespace Low.C05L
open Low

/-! ### words as (high half, low half) -/

/-- `a` in the high 32 bits, `m < 2^32` in the low 32 bits -/
def W (a m : Nat) : Nat := 2 ^ 32 * a + m

theorem W_testBit {m : Nat} (hm : m < 2 ^ 32) (a k : Nat) :
    (W a m).testBit k = if k < 32 then m.testBit k else a.testBit (k - 32) :=
  Nat.testBit_two_pow_mul_add a hm k

theorem W_or {m m' : Nat} (hm : m < 2 ^ 32) (hm' : m' < 2 ^ 32) (a a' : Nat) :
    W a m ||| W a' m' = W (a ||| a') (m ||| m') := by
  apply Nat.eq_of_testBit_eq; intro k
  rw [Nat.testBit_or, W_testBit hm, W_testBit hm', W_testBit (Nat.or_lt_two_pow hm hm')]
  split <;> simp [Nat.testBit_or]

theorem W_and {m m' : Nat} (hm : m < 2 ^ 32) (hm' : m' < 2 ^ 32) (a a' : Nat) :
    W a m &&& W a' m' = W (a &&& a') (m &&& m') := by
  apply Nat.eq_of_testBit_eq; intro k
  rw [Nat.testBit_and, W_testBit hm, W_testBit hm', W_testBit (Nat.and_lt_two_pow _ hm')]
  split <;> simp [Nat.testBit_and]

theorem W_shr32 {m : Nat} (hm : m < 2 ^ 32) (a : Nat) : W a m >>> 32 = a := by
  simp only [W, Nat.shiftRight_eq_div_pow]; omega

theorem W_mod {m : Nat} (hm : m < 2 ^ 32) (a : Nat) : W a m % 2 ^ 32 = m := by
  simp only [W]; omega

theorem W_zero_left (m : Nat) : W 0 m = m := by simp [W]

/-- halving a word whose halves are both even -/
theorem W_shr1 (a m : Nat) : W (2 * a) (2 * m) >>> 1 = W a m := by
  simp only [W, Nat.shiftRight_eq_div_pow]; omega

/-! ### masks as differences of powers -/

theorem mask_shift (a b : Nat) : (2 ^ a - 1) * 2 ^ b = 2 ^ (a + b) - 2 ^ b := by
  rw [Nat.sub_mul, ← Nat.pow_add, Nat.one_mul]

theorem pow_le_pow {a b : Nat} (h : a ≤ b) : 2 ^ a ≤ 2 ^ b := Nat.pow_le_pow_right (by omega) h

theorem testBit_pow_sub_pow {a b : Nat} (h : b ≤ a) (k : Nat) :
    (2 ^ a - 2 ^ b).testBit k = (decide (b ≤ k) && decide (k < a)) := by
  have e : 2 ^ a - 2 ^ b = (2 ^ (a - b) - 1) * 2 ^ b := by
    rw [mask_shift]; congr 2; omega
  rw [e, Nat.testBit_mul_two_pow, Nat.testBit_two_pow_sub_one]
  by_cases h1 : b ≤ k
  · by_cases h2 : k < a
    · have : k - b < a - b := by omega
      simp [h1, h2, this]
    · have : ¬ k - b < a - b := by omega
      simp [h1, h2, this]
  · simp [h1]

/-! ### path words -/

theorem bitsVal_lt : ∀ n : List Bool, bitsVal n < 2 ^ n.length
  | [] => by simp [bitsVal]
  | b :: r => by
    have ih := bitsVal_lt r
    simp only [bitsVal, List.length_cons, Nat.pow_succ]
    cases b <;> simp <;> omega

theorem bitsVal_append : ∀ p r : List Bool, bitsVal (p ++ r) = bitsVal p * 2 ^ r.length + bitsVal r
  | [], r => by simp [bitsVal]
  | b :: p, r => by
    simp only [List.cons_append, bitsVal, bitsVal_append p r, List.length_append, Nat.add_mul,
      Nat.mul_assoc, ← Nat.pow_add]
    omega

/-- the mask half of a path word -/
theorem maskHalf_lt (l : Nat) {h : Nat} (hh : h ≤ 32) : 2 ^ h - 2 ^ (h - l) < 2 ^ 32 := by
  have := pow_le_pow hh
  have := Nat.two_pow_pos (h - l)
  omega

theorem encPath_W {h : Nat} {n : List Bool} (hl : n.length ≤ h) (hh : h ≤ 32) :
    encPath h n = W (bitsVal n * 2 ^ (h - n.length)) (2 ^ h - 2 ^ (h - n.length)) := by
  have hm := maskHalf_lt n.length hh
  have e : 2 ^ h - 2 ^ (h - n.length) = (2 ^ n.length - 1) * 2 ^ (h - n.length) := by
    rw [mask_shift]; congr 2; omega
  unfold encPath W
  rw [Nat.shiftLeft_eq, Nat.shiftLeft_eq, Nat.shiftLeft_eq, ← e,
    Nat.mul_comm _ (2 ^ 32), ← Nat.two_pow_add_eq_or_of_lt hm]

theorem encPath_nil (h : Nat) : encPath h [] = 0 := by
  simp [encPath, bitsVal]

/-- the path word of `pfx ++ rest`: the prefix occupies the top `f` levels, the rest is the path word of
    `rest` in the subtree of height `r` -/
theorem encPath_append {f r : Nat} {pfx rest : List Bool} (hf : pfx.length = f) (hr : rest.length ≤ r)
    (hh : f + r ≤ 32) :
    encPath (f + r) (pfx ++ rest) =
      W (bitsVal pfx * 2 ^ r) (2 ^ (f + r) - 2 ^ r) ||| encPath r rest := by
  have hl : (pfx ++ rest).length ≤ f + r := by simp [hf]; omega
  rw [encPath_W hl hh, encPath_W hr (by omega)]
  have hm1 : 2 ^ (f + r) - 2 ^ r < 2 ^ 32 := by
    have := maskHalf_lt f hh
    simpa using this
  have hm2 := maskHalf_lt rest.length (show r ≤ 32 by omega)
  rw [W_or hm1 hm2]
  have el : f + r - (pfx ++ rest).length = r - rest.length := by simp [hf]; omega
  rw [el]
  have hpw : 2 ^ rest.length * 2 ^ (r - rest.length) = 2 ^ r := by
    rw [← Nat.pow_add]; congr 1; omega
  congr 1
  · -- high halves
    have hlt : bitsVal rest * 2 ^ (r - rest.length) < 2 ^ r := by
      rw [← hpw]
      exact Nat.mul_lt_mul_of_pos_right (bitsVal_lt rest) (Nat.two_pow_pos _)
    rw [Nat.mul_comm (bitsVal pfx) (2 ^ r), ← Nat.two_pow_add_eq_or_of_lt hlt,
      bitsVal_append, Nat.add_mul, Nat.mul_assoc, hpw, Nat.mul_comm]
  · -- mask halves
    have h1 : 2 ^ r - 2 ^ (r - rest.length) < 2 ^ r := by
      have := Nat.two_pow_pos (r - rest.length)
      have := Nat.two_pow_pos r
      omega
    have e1 : 2 ^ (f + r) - 2 ^ r = 2 ^ r * (2 ^ f - 1) := by
      rw [Nat.mul_comm, mask_shift]
    rw [e1, ← Nat.two_pow_add_eq_or_of_lt h1, ← e1]
    have := pow_le_pow (show r - rest.length ≤ r by omega)
    have := pow_le_pow (show r ≤ f + r by omega)
    omega

/-! ### the first `f` branches of `nodeAt` when the index is `A * 2^D + R` with `f ≤ R < 2^D` -/

/-- the low `f` bits of `A`, most significant first -/
def topBits : Nat → Nat → List Bool
  | 0, _ => []
  | f + 1, A => A.testBit f :: topBits f A

theorem topBits_length : ∀ f A, (topBits f A).length = f
  | 0, _ => rfl
  | f + 1, A => by simp [topBits, topBits_length f A]

theorem topBits_congr : ∀ {f A B : Nat}, (∀ k, k < f → A.testBit k = B.testBit k) →
    topBits f A = topBits f B
  | 0, _, _, _ => rfl
  | f + 1, A, B, h => by
    simp only [topBits]
    rw [h f (by omega), topBits_congr (fun k hk => h k (by omega))]

theorem bitsVal_topBits : ∀ f A, bitsVal (topBits f A) = A % 2 ^ f
  | 0, A => by simp [topBits, bitsVal, Nat.mod_one]
  | f + 1, A => by
    simp only [topBits, bitsVal, bitsVal_topBits f A, topBits_length]
    rw [Nat.mod_pow_succ (x := A) (b := 2) (k := f), Nat.testBit_eq_decide_div_mod_eq]
    have h2 : A / 2 ^ f % 2 = 0 ∨ A / 2 ^ f % 2 = 1 := by omega
    rcases h2 with h | h <;> simp [h] <;> omega

theorem nodeAt_succ (h idx : Nat) : nodeAt (h + 1) idx =
    if idx = 0 then [] else if idx - 1 < 2 ^ (h + 1) - 1 then false :: nodeAt h (idx - 1)
    else true :: nodeAt h (idx - 2 ^ (h + 1)) := by rw [nodeAt]

theorem nodeAt_prefix : ∀ (f A R D : Nat), A < 2 ^ f → R < 2 ^ D → f ≤ R →
    A * 2 ^ D + R < 2 ^ (f + D) - 1 →
    nodeAt (f + D - 1) (A * 2 ^ D + R) = topBits f A ++ nodeAt (D - 1) (R - f + popc A f) ∧
      R - f + popc A f < 2 ^ D - 1
  | 0, A, R, D, hA, hR, _, hlt => by
    have : A = 0 := by simpa using hA
    subst this
    simp only [Nat.zero_add, Nat.zero_mul] at hlt
    simp [topBits, popc, hlt]
  | f + 1, A, R, D, hA, hR, hfR, hlt => by
    have hD : D ≠ 0 := by
      intro h; subst h; simp at hR; omega
    obtain ⟨D', rfl⟩ : ∃ D', D = D' + 1 := ⟨D - 1, by omega⟩
    have eh : f + 1 + (D' + 1) - 1 = (f + D') + 1 := by omega
    have epow : 2 ^ (f + 1 + (D' + 1)) = 2 * (2 ^ f * 2 ^ (D' + 1)) := by
      rw [← Nat.pow_add, ← Nat.pow_succ']; congr 1; omega
    have epow' : 2 ^ (f + D' + 1) = 2 ^ f * 2 ^ (D' + 1) := by
      rw [← Nat.pow_add]; congr 1
    have epow'' : 2 ^ (f + (D' + 1)) = 2 ^ f * 2 ^ (D' + 1) := by
      rw [← Nat.pow_add]
    have hpD := Nat.two_pow_pos (D' + 1)
    have h0 : A * 2 ^ (D' + 1) + R ≠ 0 := by omega
    rw [eh, nodeAt_succ, if_neg h0, epow', Nat.add_sub_cancel]
    rw [epow] at hlt
    by_cases hAf : A < 2 ^ f
    · -- bit f of A is clear: left branch
      have hb : A.testBit f = false := Nat.testBit_lt_two_pow hAf
      have hlt1 : A * 2 ^ (D' + 1) + R < 2 ^ f * 2 ^ (D' + 1) := by
        have : (A + 1) * 2 ^ (D' + 1) ≤ 2 ^ f * 2 ^ (D' + 1) := Nat.mul_le_mul_right _ hAf
        rw [Nat.add_mul] at this; omega
      have hc : A * 2 ^ (D' + 1) + R - 1 < 2 ^ f * 2 ^ (D' + 1) - 1 := by omega
      have e1 : A * 2 ^ (D' + 1) + R - 1 = A * 2 ^ (D' + 1) + (R - 1) := by omega
      have ih := nodeAt_prefix f A (R - 1) (D' + 1) hAf (by omega) (by omega)
        (by rw [epow'']; omega)
      have e2 : f + (D' + 1) - 1 = f + D' := by omega
      have e3 : R - 1 - f = R - (f + 1) := by omega
      rw [e2, e3] at ih
      rw [Nat.add_sub_cancel] at ih
      rw [if_pos hc, e1, ih.1]
      simp only [topBits, hb, popc, Bool.toNat_false, Nat.add_zero, List.cons_append, true_and]
      exact ih.2
    · -- bit f of A is set: right branch
      obtain ⟨A', rfl⟩ : ∃ A', A = 2 ^ f + A' := ⟨A - 2 ^ f, by omega⟩
      have hA' : A' < 2 ^ f := by rw [Nat.pow_succ] at hA; omega
      have hb : (2 ^ f + A').testBit f = true := by
        rw [Nat.testBit_two_pow_add_eq, Nat.testBit_lt_two_pow hA']; rfl
      have hc : ¬ ((2 ^ f + A') * 2 ^ (D' + 1) + R - 1 < 2 ^ f * 2 ^ (D' + 1) - 1) := by
        rw [Nat.add_mul]; omega
      have e1 : (2 ^ f + A') * 2 ^ (D' + 1) + R - 2 ^ f * 2 ^ (D' + 1) = A' * 2 ^ (D' + 1) + R := by
        rw [Nat.add_mul]; omega
      have ih := nodeAt_prefix f A' R (D' + 1) hA' hR (by omega)
        (by rw [epow'']; rw [Nat.add_mul] at hlt; omega)
      have e2 : f + (D' + 1) - 1 = f + D' := by omega
      rw [e2] at ih
      have ht : topBits f (2 ^ f + A') = topBits f A' :=
        topBits_congr (fun k hk => Nat.testBit_two_pow_add_gt hk A')
      have hp : popc (2 ^ f + A') f = popc A' f :=
        popc_congr (fun k hk => Nat.testBit_two_pow_add_gt hk A')
      have e3 : R - (f + 1) + (popc A' f + 1) = R - f + popc A' f := by omega
      rw [Nat.add_sub_cancel] at ih
      rw [if_neg hc, e1, ih.1]
      simp only [topBits, hb, popc, hp, ht, Bool.toNat_true, e3, List.cons_append, true_and]
      exact ih.2

/-! ### Go integer conversions on the values that occur -/

theorem wrap32_id {x : Int} (h0 : -2147483648 ≤ x) (h1 : x < 2147483648) : wrap32 x = x := by
  unfold wrap32; simp only [M32]; omega

theorem u64_nat {i : Nat} (h : i < 18446744073709551616) : u64 (i : Int) = i := by
  unfold u64; simp only [M64]; omega

theorem u32_nat {i : Nat} (h : i < 4294967296) : u32 (i : Int) = i := by
  unfold u32; simp only [M32]; omega

end Low.C05L
