import LowProofs.Lemmas.C03Cases
/- C03 helpers, part 5: the `-tags debug` contracts hold on every valid input -/
namespace Low.C03L
open Low

theorem testBit_false_of_lt {x j k : Nat} (hx : x < 2^j) (hk : j ≤ k) : x.testBit k = false :=
  Nat.testBit_lt_two_pow (Nat.lt_of_lt_of_le hx (Nat.pow_le_pow_right (by omega) hk))

theorem sizeCheck_ok {T h : Nat} {n : List Bool} (v : Valid T h n) : bitmapSizeCheck T = true := by
  have h0 : T ≠ 0 := by have := v.lo; have := Nat.two_pow_pos h; omega
  have := v.h30
  simp only [bitmapSizeCheck, height_of_range v.lo v.hi v.h30]
  simp [h0]; omega

/-- `path & 0xc0000000c0000000 == 0` -/
theorem pathCheck_top {T h : Nat} {n : List Bool} (v : Valid T h n) :
    encPath h n &&& 0xc0000000c0000000 = 0 := by
  have hc : (0xc0000000c0000000 : Nat) = ((2^2 - 1) <<< 30) ||| ((2^2 - 1) <<< 62) := by decide
  have hp : pbits h n < 2^30 := Nat.lt_of_lt_of_le (pbits_lt v.len) (Nat.pow_le_pow_right (by omega) v.h30)
  have hm : pmask h n < 2^30 := Nat.lt_of_lt_of_le (pmask_lt v.len) (Nat.pow_le_pow_right (by omega) v.h30)
  apply Nat.eq_of_testBit_eq; intro k
  rw [Nat.zero_testBit, Nat.testBit_and]
  by_cases hk : k = 30 ∨ k = 31 ∨ k = 62 ∨ k = 63
  · have : (encPath h n).testBit k = false := by
      show ((pbits h n <<< 32) ||| pmask h n).testBit k = false
      rw [Nat.testBit_or, Nat.testBit_shiftLeft, testBit_false_of_lt hm (by omega)]
      by_cases h32 : k ≥ 32
      · rw [testBit_false_of_lt hp (by omega)]; simp
      · simp [h32]
    rw [this]; rfl
  · have : (0xc0000000c0000000 : Nat).testBit k = false := by
      rw [hc, Nat.testBit_or, Nat.testBit_shiftLeft, Nat.testBit_shiftLeft]
      simp only [Nat.testBit_two_pow_sub_one]
      simp; omega
    rw [this]; simp

/-- filling the trailing zeros of the mask gives `2^h - 1` -/
theorem pmask_or_pred {h : Nat} {n : List Bool} (hn : n.length ≤ h) (h1 : 1 ≤ n.length) :
    pmask h n ||| (pmask h n - 1) = 2^h - 1 := by
  have he : 2^(h - n.length) < 2^h := Nat.pow_lt_pow_right (by omega) (by omega)
  have hm : pmask h n = 2^h - 2^(h - n.length) := by
    unfold pmask
    rw [Nat.shiftLeft_eq, Nat.sub_mul, ← pow_split hn, Nat.one_mul]
  have hm1 : pmask h n - 1 = 2^h - (2^(h - n.length) + 1) := by rw [hm]; omega
  apply Nat.eq_of_testBit_eq; intro k
  rw [Nat.testBit_or, hm1, Nat.testBit_two_pow_sub_succ he, testBit_pmask h n hn,
    Nat.testBit_two_pow_sub_one, Nat.testBit_two_pow]
  by_cases a : k < h <;> by_cases b : h - n.length ≤ k <;> by_cases c : h - n.length = k <;>
    simp [a, b, c] <;> omega

theorem pathCheck_ok {T h : Nat} {n : List Bool} (v : Valid T h n) : pathCheck (encPath h n) = true := by
  have h32 : h ≤ 32 := by have := v.h30; omega
  have ⟨e, hl⟩ := encPath_eq h n v.len h32
  simp only [pathCheck, pathCheck_top v, encPath_mod h n v.len h32, encPath_shr h n v.len h32]
  simp only [beq_self_eq_true, Bool.true_and]
  split
  · rfl
  · rename_i hne
    have h1 : 1 ≤ n.length := by
      rcases Nat.eq_zero_or_pos n.length with hz | hz
      · exact absurd ((pmask_eq_zero_iff h n).mpr hz) hne
      · exact hz
    have hpos : 1 ≤ pmask h n := Nat.pos_of_ne_zero hne
    have hM : M32 = 2^32 := by decide
    -- extended
    have hext : (encPath h n ||| (encPath h n - 1)) % M32 = 2^h - 1 := by
      have e1 : encPath h n % 2^32 = pmask h n := by rw [← hM]; exact encPath_mod h n v.len h32
      have e2 : (encPath h n - 1) % 2^32 = pmask h n - 1 := by
        rw [two_pow_32, e]; omega
      rw [hM, Nat.or_mod_two_pow, e1, e2, pmask_or_pred v.len h1]
    have hlz : 32 - lz (pmask h n) 32 = h := by
      have := bitLen_pmask h n v.len h1 (by have := v.h30; omega)
      simp only [lz, this]; omega
    have hpc : popc (2^h - 1) 32 = h := by rw [popc_mask]; omega
    have hnot : (not64 (pmask h n)) % M32 &&& pbits h n = 0 := by
      apply Nat.eq_of_testBit_eq; intro k
      have h64 : M64 - 1 = 2^64 - 1 := by decide
      rw [Nat.zero_testBit, Nat.testBit_and, hM, Nat.testBit_mod_two_pow, not64, h64, Nat.testBit_xor,
        Nat.testBit_two_pow_sub_one]
      by_cases hb : (pbits h n).testBit k = true
      · rw [testBit_pbits_imp h n v.len k hb]
        by_cases hk : k < 32
        · have : k < 64 := by omega
          simp [this]
        · simp [hk]
      · have : (pbits h n).testBit k = false := Bool.eq_false_iff.mpr hb
        rw [this]; simp
    rw [hext, hlz, hpc, hnot]; simp

theorem equalHeight_ok {T h : Nat} {n : List Bool} (v : Valid T h n) :
    bitmapPathMustHaveEqualHeight T (encPath h n) = true := by
  have h32 : h ≤ 32 := by have := v.h30; omega
  simp only [bitmapPathMustHaveEqualHeight, sizeCheck_ok v, pathCheck_ok v, Bool.true_and,
    encPath_mod h n v.len h32]
  split
  · rename_i hne
    have h1 : 1 ≤ n.length := by
      rcases Nat.eq_zero_or_pos n.length with hz | hz
      · exact absurd ((pmask_eq_zero_iff h n).mpr hz) hne
      · exact hz
    have := bitLen_pmask h n v.len h1 (by have := v.h30; omega)
    simp only [height_of_range v.lo v.hi v.h30, pathHeight, encPath_mod h n v.len h32, lz, this]
    simp; omega
  · rfl

theorem contractsLoose_ok {T h : Nat} {n : List Bool} (v : Valid T h n) :
    contractsLoose T (encPath h n) = true := by
  simp [contractsLoose, sizeCheck_ok v, pathCheck_ok v, equalHeight_ok v]

theorem contractsStrict_ok {T h : Nat} {n : List Bool} (v : Valid T h n) (hs : T.testBit n.length = true) :
    contractsStrict T (encPath h n) = true := by
  have h32 : h ≤ 32 := by have := v.h30; omega
  simp [contractsStrict, contractsLoose_ok v, bitmapMustHaveLevel, pathLen_encPath h n v.len h32,
    shiftRight_mod_two, hs]

end Low.C03L
