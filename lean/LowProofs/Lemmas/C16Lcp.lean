import LowProofs.Lemmas.Bits
/-
  Helper lemmas for C16/C17: `lcp`, `bitsVal`, `byteBits`, `bitsBE`.
-/
namespace Low.C16L
open Low

/-! ### lcp -/

theorem lcp_nil_left {α} [DecidableEq α] (b : List α) : lcp [] b = 0 := by
  cases b <;> rfl

theorem lcp_nil_right {α} [DecidableEq α] (a : List α) : lcp a [] = 0 := by
  cases a <;> rfl

theorem lcp_cons {α} [DecidableEq α] (x y : α) (a b : List α) :
    lcp (x :: a) (y :: b) = if x = y then 1 + lcp a b else 0 := rfl

theorem lcp_le_left {α} [DecidableEq α] : ∀ (a b : List α), lcp a b ≤ a.length
  | [], b => by simp [lcp_nil_left]
  | _ :: _, [] => by simp [lcp_nil_right]
  | x :: a, y :: b => by
    have := lcp_le_left a b
    rw [lcp_cons]; split <;> simp <;> omega

theorem lcp_comm {α} [DecidableEq α] : ∀ (a b : List α), lcp a b = lcp b a
  | [], b => by simp [lcp_nil_left, lcp_nil_right]
  | _ :: _, [] => by simp [lcp_nil_left, lcp_nil_right]
  | x :: a, y :: b => by
    rw [lcp_cons, lcp_cons, lcp_comm a b]
    by_cases h : x = y
    · subst h; simp
    · have h' : ¬ y = x := fun e => h e.symm
      simp [h, h']

theorem lcp_le_right {α} [DecidableEq α] (a b : List α) : lcp a b ≤ b.length := by
  rw [lcp_comm]; exact lcp_le_left b a

theorem lcp_self {α} [DecidableEq α] : ∀ (a : List α), lcp a a = a.length
  | [] => rfl
  | x :: a => by rw [lcp_cons, lcp_self a]; simp; omega

theorem lcp_append_left {α} [DecidableEq α] : ∀ (p a b : List α), lcp (p ++ a) (p ++ b) = p.length + lcp a b
  | [], a, b => by simp
  | x :: p, a, b => by
    simp only [List.cons_append, lcp_cons, lcp_append_left p a b, List.length_cons]
    simp; omega

/-- two different blocks of the same length: the common prefix ends inside the block -/
theorem lcp_append_of_ne {α} [DecidableEq α] : ∀ (x y a b : List α), x.length = y.length → x ≠ y →
    lcp (x ++ a) (y ++ b) = lcp x y ∧ lcp x y < x.length
  | [], [], _, _, _, h => absurd rfl h
  | [], _ :: _, _, _, hl, _ => by simp at hl
  | _ :: _, [], _, _, hl, _ => by simp at hl
  | u :: x, v :: y, a, b, hl, h => by
    simp only [List.cons_append, lcp_cons, List.length_cons]
    by_cases e : u = v
    · subst e
      have h' : x ≠ y := fun e => h (by rw [e])
      have := lcp_append_of_ne x y a b (by simpa using hl) h'
      simp only [if_true]; omega
    · simp [e]

/-- `n ≤ lcp a b` iff both lists have at least `n` elements and agree on the first `n` -/
theorem le_lcp_iff {α} [DecidableEq α] : ∀ (n : Nat) (a b : List α),
    n ≤ lcp a b ↔ n ≤ a.length ∧ n ≤ b.length ∧ a.take n = b.take n
  | 0, a, b => by simp
  | n+1, [], b => by simp [lcp_nil_left]
  | n+1, _ :: _, [] => by simp [lcp_nil_right]
  | n+1, x :: a, y :: b => by
    rw [lcp_cons]
    by_cases e : x = y
    · subst e
      have := le_lcp_iff n a b
      simp only [if_true, List.length_cons, List.take_succ_cons, List.cons.injEq, true_and]
      constructor
      · intro h
        obtain ⟨h1, h2, h3⟩ := this.1 (by omega)
        exact ⟨by omega, by omega, h3⟩
      · rintro ⟨h1, h2, h3⟩
        have := this.2 ⟨by omega, by omega, h3⟩
        omega
    · simp [e]

theorem lcp_take {α} [DecidableEq α] (x y : List α) : x.take (lcp x y) = y.take (lcp x y) :=
  ((le_lcp_iff (lcp x y) x y).1 (Nat.le_refl _)).2.2

/-- inside both lists, the position `lcp x y` holds different elements -/
theorem lcp_getElem?_ne {α} [DecidableEq α] : ∀ (x y : List α), lcp x y < x.length → lcp x y < y.length →
    x[lcp x y]? ≠ y[lcp x y]?
  | [], _, h, _ => by simp at h
  | _ :: _, [], _, h => by simp at h
  | u :: x, v :: y, h1, h2 => by
    rw [lcp_cons] at h1 h2 ⊢
    by_cases e : u = v
    · subst e
      simp only [if_true, List.length_cons] at h1 h2 ⊢
      have := lcp_getElem?_ne x y (by omega) (by omega)
      rw [Nat.add_comm 1, List.getElem?_cons_succ, List.getElem?_cons_succ]
      exact this
    · simp [e]

/-- ultrametric inequality, in the form used to change the reference key -/
theorem min_lcp_swap {α} [DecidableEq α] {m : Nat} {a b : List α} (h : m ≤ lcp a b) (x : List α) :
    min m (lcp a x) = min m (lcp b x) := by
  have key : ∀ n, n ≤ min m (lcp a x) ↔ n ≤ min m (lcp b x) := by
    intro n
    simp only [Nat.le_min, le_lcp_iff]
    constructor
    · rintro ⟨hm, h1, h2, h3⟩
      obtain ⟨_, g2, g3⟩ := (le_lcp_iff n a b).1 (by omega)
      exact ⟨hm, g2, h2, g3.symm.trans h3⟩
    · rintro ⟨hm, h1, h2, h3⟩
      obtain ⟨g1, _, g3⟩ := (le_lcp_iff n a b).1 (by omega)
      exact ⟨hm, g1, h2, g3.trans h3⟩
  apply Nat.le_antisymm
  · exact (key _).1 (Nat.le_refl _)
  · exact (key _).2 (Nat.le_refl _)

/-! ### bitsVal -/

theorem bitsVal_lt : ∀ (l : List Bool), bitsVal l < 2 ^ l.length
  | [] => by simp [bitsVal]
  | b :: r => by
    have := bitsVal_lt r
    simp only [bitsVal, List.length_cons, Nat.pow_succ]
    cases b <;> simp <;> omega

theorem bitsVal_append : ∀ (l1 l2 : List Bool), bitsVal (l1 ++ l2) = bitsVal l1 * 2 ^ l2.length + bitsVal l2
  | [], l2 => by simp [bitsVal]
  | b :: r, l2 => by
    simp only [List.cons_append, bitsVal, bitsVal_append r l2, List.length_append, Nat.pow_add]
    rw [Nat.add_mul, Nat.mul_assoc]; omega

/-! ### byteBits, bitsBE -/

theorem byteBits_length (x : Nat) : (byteBits x).length = 8 := by simp [byteBits]

theorem bitsVal_byteBits {x : Nat} (h : x < 256) : bitsVal (byteBits x) = x := by
  have : ∀ y : Fin 256, bitsVal (byteBits y.val) = y.val := by decide +kernel
  exact this ⟨x, h⟩

theorem byteBits_inj {x y : Nat} (hx : x < 256) (hy : y < 256) (h : byteBits x = byteBits y) : x = y := by
  rw [← bitsVal_byteBits hx, ← bitsVal_byteBits hy, h]

theorem bitsBE_nil : bitsBE [] = [] := rfl

theorem bitsBE_cons (x : Nat) (s : List Nat) : bitsBE (x :: s) = byteBits x ++ bitsBE s := by
  simp [bitsBE]

theorem bitsBE_append (s t : List Nat) : bitsBE (s ++ t) = bitsBE s ++ bitsBE t := by
  simp [bitsBE]

theorem bitsBE_length : ∀ (s : List Nat), (bitsBE s).length = 8 * s.length
  | [] => rfl
  | x :: s => by simp [bitsBE_cons, byteBits_length, bitsBE_length s]; omega

theorem bytesOK_cons {x : Nat} {s : List Nat} : BytesOK (x :: s) ↔ x < 256 ∧ BytesOK s := by
  simp [BytesOK]

theorem bytesOK_nil : BytesOK [] := by simp [BytesOK]

theorem bytesOK_drop {s : List Nat} (h : BytesOK s) (i : Nat) : BytesOK (s.drop i) :=
  fun b hb => h b (List.mem_of_mem_drop hb)

theorem bytesOK_take {s : List Nat} (h : BytesOK s) (i : Nat) : BytesOK (s.take i) :=
  fun b hb => h b (List.mem_of_mem_take hb)

theorem bitsVal_bitsBE_cons {x : Nat} (h : x < 256) (s : List Nat) :
    bitsVal (bitsBE (x :: s)) = x * 2 ^ (8 * s.length) + bitsVal (bitsBE s) := by
  rw [bitsBE_cons, bitsVal_append, bitsVal_byteBits h, bitsBE_length]

/-- bit lcp of two keys with a different first byte -/
theorem lcp_bits_cons_ne {x y : Nat} (hx : x < 256) (hy : y < 256) (h : x ≠ y) (a b : List Nat) :
    lcp (bitsBE (x :: a)) (bitsBE (y :: b)) = lcp (byteBits x) (byteBits y) ∧
      lcp (byteBits x) (byteBits y) < 8 := by
  have := lcp_append_of_ne (byteBits x) (byteBits y) (bitsBE a) (bitsBE b)
    (by simp [byteBits_length]) (fun e => h (byteBits_inj hx hy e))
  rw [byteBits_length] at this
  rw [bitsBE_cons, bitsBE_cons]; exact this

theorem lcp_bits_cons_eq (x : Nat) (a b : List Nat) :
    lcp (bitsBE (x :: a)) (bitsBE (x :: b)) = 8 + lcp (bitsBE a) (bitsBE b) := by
  rw [bitsBE_cons, bitsBE_cons, lcp_append_left, byteBits_length]

/-- the bit lcp, divided by 8, is the byte lcp -/
theorem lcp_bits_div8 : ∀ (a b : List Nat), BytesOK a → BytesOK b → lcp (bitsBE a) (bitsBE b) / 8 = lcp a b
  | [], b, _, _ => by simp [bitsBE_nil, lcp_nil_left]
  | _ :: _, [], _, _ => by simp [bitsBE_nil, lcp_nil_right]
  | x :: a, y :: b, hxa, hyb => by
    obtain ⟨hx, ha⟩ := bytesOK_cons.1 hxa
    obtain ⟨hy, hb⟩ := bytesOK_cons.1 hyb
    rw [lcp_cons]
    by_cases e : x = y
    · subst e
      rw [lcp_bits_cons_eq, if_pos rfl, ← lcp_bits_div8 a b ha hb]; omega
    · have := lcp_bits_cons_ne hx hy e a b
      rw [if_neg e, this.1]; omega

end Low.C16L
