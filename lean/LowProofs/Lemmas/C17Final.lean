import LowProofs.Lemmas.C17Order
/-
  Helper lemmas for C17, part 6: the result of `shardByPrefix` satisfies the checkable predicate `shardOK`.
-/
namespace Low.C17L
open Low Low.C16L

theorem shard_ordered (keys : List (List Nat)) (maxSize : Int) (hne : keys ≠ [])
    (hasc : strictAsc keys = true) (hok : ∀ k ∈ keys, BytesOK k) (hm : 1 ≤ maxSize) :
    ∃ Ls Bs, shardByPrefix keys maxSize = some (Ls, 0 :: Bs) ∧
      Post keys maxSize.toNat 0 keys.length Ls Bs := by
  have hsorted := pairwise_of_strictAsc keys hasc
  have hbl := bl_fdsOf keys hok
  apply shard_post keys maxSize hne hok hm (Post keys maxSize.toNat)
  · intro s e h1 h2 h3
    refine ⟨⟨h1, h3, lam_eq_lcpAll keys (fdsOf keys) hbl h1 h2, rfl⟩, ?_⟩
    simp [PL]
  · intro s e es Ls Bs h1 h2 h3 hsp hg
    refine ⟨groups_valid keys _ es s e Ls Bs (groups_mono (fun _ _ _ _ h => h.1) es s Ls Bs hg)
      (splitOK_last _ _ _ es s hsp), ?_⟩
    exact (groups_order keys (fdsOf keys) _ hbl hsorted s e (lam keys (fdsOf keys) s e) h2
      (fun i hi hi' => minFold_le_bl _ _ _ _ i hi (by omega)) (minFold_le_init _ _ _ _)
      es s Ls Bs (Nat.le_refl _) hsp hg).1

theorem valid_zip_lt (keys : List (List Nat)) (mx : Nat) : ∀ (L Bs : List Nat) (s e : Nat),
    Valid keys mx s e L Bs → (List.zipWith (fun a b => decide (a < b)) (s :: Bs) Bs).all id = true
  | [], [], _, _, _ => by simp
  | [], _ :: _, _, _, h => h.elim
  | _ :: _, [], _, _, h => h.elim
  | l :: L, b :: Bs, s, e, h => by
    have := valid_zip_lt keys mx L Bs b e h.2.2.2
    simp only [List.zipWith_cons_cons, List.all_cons, this, Bool.and_true, id]
    simpa using h.1

theorem valid_zip_size (keys : List (List Nat)) (mx : Nat) : ∀ (L Bs : List Nat) (s e : Nat),
    Valid keys mx s e L Bs → (List.zipWith (fun a b => decide (b - a ≤ mx)) (s :: Bs) Bs).all id = true
  | [], [], _, _, _ => by simp
  | [], _ :: _, _, _, h => h.elim
  | _ :: _, [], _, _, h => h.elim
  | l :: L, b :: Bs, s, e, h => by
    have := valid_zip_size keys mx L Bs b e h.2.2.2
    simp only [List.zipWith_cons_cons, List.all_cons, this, Bool.and_true, id]
    simpa using h.2.1

theorem shardOK_of_post (keys : List (List Nat)) (mx : Nat) (Ls Bs : List Nat)
    (h : Post keys mx 0 keys.length Ls Bs) : shardOK keys mx Ls (0 :: Bs) = true := by
  obtain ⟨hv, hp⟩ := h
  have hl := valid_length keys mx Ls Bs 0 keys.length hv
  simp only [shardOK, Bool.and_eq_true]
  refine ⟨⟨⟨⟨⟨⟨?_, ?_⟩, ?_⟩, ?_⟩, ?_⟩, ?_⟩, ?_⟩
  · simp [hl]
  · simp
  · rw [valid_last keys mx Ls Bs 0 keys.length hv]; simp
  · exact valid_zip_lt keys mx Ls Bs 0 keys.length hv
  · exact valid_zip_size keys mx Ls Bs 0 keys.length hv
  · rw [List.all_eq_true]
    intro j hj
    have := (valid_index keys mx Ls Bs 0 keys.length hv j (List.mem_range.1 hj)).2.2
    simpa [slice] using this
  · rw [PL_eq_map keys Ls Bs 0 hl]
    exact strictAsc_of_pairwise _ hp

end Low.C17L
