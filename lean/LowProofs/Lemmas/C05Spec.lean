import LowProofs.Lemmas.Bits
/-
  C05, part 1: pure specification facts.  `nodeAt h` and `preIdx (full h) 0` are inverse bijections
  between `[0, 2^(h+1)-1)` and the nodes of depth ≤ h.  Nothing here mentions the code.
-/
namespace Low.C05L
open Low

/-- size (= level mask) of the full tree of height `h` -/
abbrev full (h : Nat) : Nat := 2 ^ (h + 1) - 1

theorem full_testBit (h d : Nat) : (full h).testBit d = decide (d ≤ h) := by
  simp only [full, Nat.testBit_two_pow_sub_one]
  by_cases hd : d ≤ h
  · have : d < h + 1 := by omega
    simp [hd, this]
  · have : ¬ d < h + 1 := by omega
    simp [hd, this]

theorem full_shiftRight_one (h : Nat) : full (h + 1) >>> 1 = full h := by
  simp only [full, Nat.shiftRight_eq_div_pow]
  have e : 2 ^ (h + 1 + 1) = 2 * 2 ^ (h + 1) := by rw [Nat.pow_succ]; omega
  have := Nat.two_pow_pos (h + 1)
  rw [e]; omega

/-- moving the depth offset into the mask -/
theorem preIdx_shift (t : Nat) : ∀ (n : List Bool) (d e : Nat),
    preIdx t (d + e) n = preIdx (t >>> d) e n
  | [], _, _ => rfl
  | b :: r, d, e => by
    have ih := preIdx_shift t r d (e + 1)
    have e1 : d + e + 1 = d + (e + 1) := by omega
    simp only [preIdx, Nat.testBit_shiftRight, e1, ih, Nat.shiftRight_add]

theorem preIdx_full_succ (h : Nat) (n : List Bool) :
    preIdx (full (h + 1)) 1 n = preIdx (full h) 0 n := by
  have := preIdx_shift (full (h + 1)) n 1 0
  rw [full_shiftRight_one] at this
  simpa using this

theorem preIdx_full_cons (h : Nat) (b : Bool) (r : List Bool) :
    preIdx (full (h + 1)) 0 (b :: r) = 1 + (if b then full h else 0) + preIdx (full h) 0 r := by
  simp only [preIdx, Nat.zero_add, preIdx_full_succ, full_shiftRight_one, full_testBit]
  simp

theorem preIdx_full_lt : ∀ (h : Nat) (n : List Bool), n.length ≤ h → preIdx (full h) 0 n < full h
  | h, [], _ => by
    have : 2 ≤ 2 ^ (h + 1) := by
      have := Nat.pow_le_pow_right (n := 2) (by omega) (show 1 ≤ h + 1 by omega)
      simpa using this
    simp only [preIdx, full]; omega
  | 0, _ :: _, hl => by simp at hl
  | h + 1, b :: r, hl => by
    have ih := preIdx_full_lt h r (by simpa using hl)
    rw [preIdx_full_cons]
    have e : 2 ^ (h + 1 + 1) = 2 * 2 ^ (h + 1) := by rw [Nat.pow_succ]; omega
    simp only [full] at ih ⊢
    rw [e]
    split <;> omega

theorem nodeAt_zero (h : Nat) : nodeAt h 0 = [] := by
  cases h <;> simp [nodeAt]

/-- `nodeAt` inverts `preIdx` on the full tree, and produces a node of the tree -/
theorem nodeAt_spec : ∀ (h idx : Nat), idx < full h →
    (nodeAt h idx).length ≤ h ∧ preIdx (full h) 0 (nodeAt h idx) = idx
  | 0, idx, hi => by
    have : idx = 0 := by simp [full] at hi; omega
    subst this; simp [nodeAt, preIdx]
  | h + 1, idx, hi => by
    have e : 2 ^ (h + 1 + 1) = 2 * 2 ^ (h + 1) := by rw [Nat.pow_succ]; omega
    have hp := Nat.two_pow_pos (h + 1)
    simp only [full] at hi
    rw [e] at hi
    unfold nodeAt
    by_cases h0 : idx = 0
    · subst h0; simp [preIdx]
    · simp only [h0, if_false]
      by_cases hl : idx - 1 < 2 ^ (h + 1) - 1
      · simp only [hl, if_true]
        have ih := nodeAt_spec h (idx - 1) hl
        rw [preIdx_full_cons]
        simp only [List.length_cons, ih.2]
        refine ⟨by omega, ?_⟩
        simp; omega
      · simp only [hl, if_false]
        have ih := nodeAt_spec h (idx - 2 ^ (h + 1)) (by simp only [full]; omega)
        rw [preIdx_full_cons]
        simp only [List.length_cons, ih.2, full]
        refine ⟨by omega, ?_⟩
        simp; omega

/-- the other direction -/
theorem nodeAt_preIdx : ∀ (h : Nat) (n : List Bool), n.length ≤ h →
    nodeAt h (preIdx (full h) 0 n) = n
  | h, [], _ => by simp [preIdx, nodeAt_zero]
  | 0, _ :: _, hl => by simp at hl
  | h + 1, b :: r, hl => by
    have hr : r.length ≤ h := by simpa using hl
    have ih := nodeAt_preIdx h r hr
    have hlt := preIdx_full_lt h r hr
    have hp := Nat.two_pow_pos (h + 1)
    rw [preIdx_full_cons]
    unfold nodeAt
    simp only [full] at hlt ih ⊢
    cases b
    · have h0 : 1 + 0 + preIdx (2 ^ (h + 1) - 1) 0 r ≠ 0 := by omega
      have h1 : 1 + 0 + preIdx (2 ^ (h + 1) - 1) 0 r - 1 = preIdx (2 ^ (h + 1) - 1) 0 r := by omega
      simp only [Bool.false_eq_true, if_false, h0, h1, hlt, if_true, ih]
    · have h0 : 1 + (2 ^ (h + 1) - 1) + preIdx (2 ^ (h + 1) - 1) 0 r ≠ 0 := by omega
      have h1 : ¬ (1 + (2 ^ (h + 1) - 1) + preIdx (2 ^ (h + 1) - 1) 0 r - 1 < 2 ^ (h + 1) - 1) := by omega
      have h2 : 1 + (2 ^ (h + 1) - 1) + preIdx (2 ^ (h + 1) - 1) 0 r - 2 ^ (h + 1)
          = preIdx (2 ^ (h + 1) - 1) 0 r := by omega
      simp only [if_true, h0, if_false, h1, h2, ih]

end Low.C05L
