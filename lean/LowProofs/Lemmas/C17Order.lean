import LowProofs.Lemmas.C17Main
import LowProofs.Lemmas.C16Order
/-
  Helper lemmas for C17, part 5: the shard prefixes are strictly ascending.
-/
namespace Low.C17L
open Low Low.C16L

/-! ### byte order and lcp -/

theorem bytesCompare_self : ∀ (a : List Nat), bytesCompare a a = 0
  | [] => rfl
  | x :: a => by simp [bytesCompare, bytesCompare_self a]

theorem bytesCompare_cons_le (x y : Nat) (a b : List Nat) :
    bytesCompare (x :: a) (y :: b) ≠ 1 ↔ x < y ∨ (x = y ∧ bytesCompare a b ≠ 1) := by
  simp only [bytesCompare]
  by_cases h1 : x < y
  · simp [h1]
  · by_cases h2 : x > y
    · have : ¬ x = y := by omega
      simp [h1, h2, this]
    · have : x = y := by omega
      simp [this]

/-- a key between two keys shares their common prefix -/
theorem lcp_mid : ∀ (a x d : List Nat), bytesCompare a x ≠ 1 → bytesCompare x d ≠ 1 →
    lcp a d ≤ lcp a x ∧ lcp a d ≤ lcp x d
  | [], _, d, _, _ => by simp [lcp_nil_left]
  | _ :: _, _, [], _, _ => by simp [lcp_nil_right]
  | u :: a, [], w :: d, h, _ => by simp [bytesCompare] at h
  | u :: a, v :: x, w :: d, h1, h2 => by
    rw [bytesCompare_cons_le] at h1 h2
    rw [lcp_cons, lcp_cons, lcp_cons]
    by_cases e : u = w
    · subst e
      have hv : u = v := by
        rcases h1 with h1 | ⟨h1, _⟩ <;> rcases h2 with h2 | ⟨h2, _⟩ <;> omega
      subst hv
      have h1' : bytesCompare a x ≠ 1 := by
        rcases h1 with h1 | ⟨_, h1⟩
        · omega
        · exact h1
      have h2' : bytesCompare x d ≠ 1 := by
        rcases h2 with h2 | ⟨_, h2⟩
        · omega
        · exact h2
      have := lcp_mid a x d h1' h2'
      simp only [if_true]; omega
    · simp [e]

/-- the larger of two different keys is longer than their common prefix -/
theorem lcp_lt_len_of_lt : ∀ (x y : List Nat), bytesCompare x y = -1 → lcp x y < y.length
  | _, [], h => absurd h (bytesCompare_lt_nil _)
  | [], _ :: _, _ => by simp [lcp_nil_left]
  | u :: x, v :: y, h => by
    rw [bytesCompare_cons_lt] at h
    rw [lcp_cons]
    rcases h with h | ⟨e, h⟩
    · have : ¬ u = v := by omega
      simp [this]
    · subst e
      have := lcp_lt_len_of_lt x y h
      simp only [if_true, List.length_cons]; omega

/-- two keys `x < y` with common prefix length `lam`; a prefix of `x` of length `≥ lam` sorts before
    a prefix of `y` of length `> lam` -/
theorem cross_lt : ∀ (x y : List Nat) (lam l l' : Nat), bytesCompare x y = -1 → lcp x y = lam →
    lam ≤ l → l ≤ x.length → lam < l' → l' ≤ y.length → bytesCompare (x.take l) (y.take l') = -1
  | _, [], _, _, _, h, _, _, _, _, _ => absurd h (bytesCompare_lt_nil _)
  | [], v :: y, lam, l, l', _, _, _, h3, h4, _ => by
    have : l = 0 := by simpa using h3
    subst this
    obtain ⟨k, rfl⟩ : ∃ k, l' = k + 1 := ⟨l' - 1, by omega⟩
    simp [bytesCompare]
  | u :: x, v :: y, lam, l, l', h, h1, h2, h3, h4, h5 => by
    rw [bytesCompare_cons_lt] at h
    rw [lcp_cons] at h1
    obtain ⟨k', rfl⟩ : ∃ k, l' = k + 1 := ⟨l' - 1, by omega⟩
    rcases h with h | ⟨e, h⟩
    · cases l with
      | zero => simp [bytesCompare]
      | succ k =>
        rw [List.take_succ_cons, List.take_succ_cons, bytesCompare_cons_lt]
        exact Or.inl h
    · subst e
      rw [if_pos rfl] at h1
      obtain ⟨k, rfl⟩ : ∃ k, l = k + 1 := ⟨l - 1, by omega⟩
      rw [List.take_succ_cons, List.take_succ_cons, bytesCompare_cons_lt]
      refine Or.inr ⟨rfl, cross_lt x y (lam - 1) k k' h (by omega) (by omega) ?_ (by omega) ?_⟩
      · simpa using h3
      · simpa using h5

/-! ### the list of shard prefixes -/

/-- the shard prefixes `keys[b].take l` of a result with boundaries `s :: Bs` and lengths `Ls` -/
def PL (keys : List (List Nat)) : Nat → List Nat → List Nat → List (List Nat)
  | s, l :: Ls, b :: Bs => (keys.getD s []).take l :: PL keys b Ls Bs
  | _, _, _ => []

theorem PL_append (keys : List (List Nat)) (mx : Nat) (L2 B2 : List Nat) : ∀ (L1 B1 : List Nat) (s t : Nat),
    Valid keys mx s t L1 B1 → PL keys s (L1 ++ L2) (B1 ++ B2) = PL keys s L1 B1 ++ PL keys t L2 B2
  | [], [], s, t, h => by
    have : s = t := h
    subst this
    cases L2 <;> cases B2 <;> simp [PL]
  | [], _ :: _, _, _, h => h.elim
  | _ :: _, [], _, _, h => h.elim
  | l :: L1, b :: B1, s, t, h => by
    simp only [List.cons_append, PL, PL_append keys mx L2 B2 L1 B1 b t h.2.2.2]

theorem PL_eq_map (keys : List (List Nat)) : ∀ (L Bs : List Nat) (s : Nat), Bs.length = L.length →
    (List.range L.length).map (fun j => (keys.getD ((s :: Bs).getD j 0) []).take (L.getD j 0)) = PL keys s L Bs
  | [], _, _, _ => by cases ‹List Nat› <;> simp [PL]
  | _ :: _, [], _, h => by simp at h
  | l :: L, b :: Bs, s, h => by
    have ih := PL_eq_map keys L Bs b (by simpa using h)
    simp only [List.length_cons, List.range_succ_eq_map, List.map_cons, List.map_map, PL,
      List.getD_cons_zero]
    rw [← ih]
    congr 1

section
variable (keys : List (List Nat)) (fds : List Nat) (mx : Nat)
variable (hbl : ∀ t, t + 1 < keys.length → bl fds t = lcp (keys.getD t []) (keys.getD (t + 1) []))
variable (hsorted : keys.Pairwise (fun a b => bytesCompare a b = -1))

include hbl in
/-- every shard prefix of a valid result for `[s, e)` is `keys[b].take l` with `b` in the range and
    `g ≤ l ≤ len(keys[b])`, for any `g` below all key lengths and adjacent common-prefix lengths of the range -/
theorem valid_members (g : Nat) : ∀ (L Bs : List Nat) (s e : Nat), Valid keys mx s e L Bs → e ≤ keys.length →
    (∀ b, s ≤ b → b < e → g ≤ (keys.getD b []).length) → (∀ i, s ≤ i → i + 1 < e → g ≤ bl fds i) →
    ∀ p ∈ PL keys s L Bs, ∃ b l, s ≤ b ∧ b < e ∧ p = (keys.getD b []).take l ∧ l ≤ (keys.getD b []).length ∧ g ≤ l
  | [], _, _, _, _, _, _, _, p, hp => by cases ‹List Nat› <;> simp [PL] at hp
  | _ :: _, [], _, _, h, _, _, _, _, _ => h.elim
  | l :: L, b :: Bs, s, e, h, he, h1, h2, p, hp => by
    obtain ⟨v1, v2, v3, v4⟩ := h
    have hbe := valid_le keys mx L Bs b e v4
    simp only [PL, List.mem_cons] at hp
    rcases hp with hp | hp
    · refine ⟨s, l, Nat.le_refl _, by omega, hp, ?_, ?_⟩
      · rw [v3, ← lam_eq_lcpAll keys fds hbl v1 (by omega)]
        exact minFold_le_init _ _ _ _
      · rw [v3, ← lam_eq_lcpAll keys fds hbl v1 (by omega), lam]
        rcases minFold_attained fds (b - 1 - s) s (keys.getD s []).length with h' | ⟨t, t1, t2, t3⟩
        · rw [h']; exact h1 s (Nat.le_refl _) (by omega)
        · rw [t3]; exact h2 t t1 (by omega)
    · obtain ⟨b', l', q1, q2, q3⟩ := valid_members g L Bs b e v4 he
        (fun c hc hc' => h1 c (by omega) hc') (fun i hi hi' => h2 i (by omega) hi') p hp
      exact ⟨b', l', by omega, q2, q3⟩

theorem groups_mono {P Q : Nat → Nat → List Nat → List Nat → Prop} (hPQ : ∀ s e L B, P s e L B → Q s e L B) :
    ∀ (es : List Nat) (s : Nat) (Ls Bs : List Nat), Groups P s es Ls Bs → Groups Q s es Ls Bs
  | [], _, _, _, h => h
  | t :: es, s, Ls, Bs, h => by
    obtain ⟨L1, B1, L2, B2, h1, h2, h3, h4⟩ := h
    exact ⟨L1, B1, L2, B2, h1, h2, hPQ _ _ _ _ h3, groups_mono hPQ es t L2 B2 h4⟩

/-- the postcondition carried through the recursion: shape/size/lcp and ordered prefixes -/
def Post (keys : List (List Nat)) (mx : Nat) (s e : Nat) (Ls Bs : List Nat) : Prop :=
  Valid keys mx s e Ls Bs ∧ (PL keys s Ls Bs).Pairwise (fun a b => bytesCompare a b = -1)

theorem getD_lt_of_lt {i j : Nat} (hij : i < j) (hj : j < keys.length)
    (hsorted : keys.Pairwise (fun a b => bytesCompare a b = -1)) :
    bytesCompare (keys.getD i []) (keys.getD j []) = -1 := by
  have hi : i < keys.length := by omega
  have := (List.pairwise_iff_getElem.1 hsorted) i j hi hj hij
  simpa [List.getD, List.getElem?_eq_getElem hi, List.getElem?_eq_getElem hj] using this

theorem getD_le_of_le {i j : Nat} (hij : i ≤ j) (hj : j < keys.length)
    (hsorted : keys.Pairwise (fun a b => bytesCompare a b = -1)) :
    bytesCompare (keys.getD i []) (keys.getD j []) ≠ 1 := by
  by_cases e : i = j
  · subst e; rw [bytesCompare_self]; decide
  · rw [getD_lt_of_lt keys (by omega) hj hsorted]; decide

include hbl hsorted in
/-- ordering of the concatenated group results. `S`, `E`, `lam` describe the range that was split:
    `lam` is at most every key length and adjacent common-prefix length in `[S, E)`. -/
theorem groups_order (S E lam : Nat) (hE : E ≤ keys.length)
    (hA : ∀ i, S ≤ i → i + 1 < E → lam ≤ bl fds i) (hB : lam ≤ (keys.getD S []).length) :
    ∀ (es : List Nat) (s : Nat) (Ls Bs : List Nat), S ≤ s → SplitOK fds lam E s es →
      Groups (Post keys mx) s es Ls Bs →
      (PL keys s Ls Bs).Pairwise (fun a b => bytesCompare a b = -1) ∧
      ∀ p ∈ PL keys s Ls Bs, ∃ b l, s ≤ b ∧ b < E ∧ p = (keys.getD b []).take l ∧
        l ≤ (keys.getD b []).length ∧ lam ≤ l ∧ (S < s → lam < l) := by
  -- facts about the range
  have hC : ∀ b, S < b → b < E → lam < (keys.getD b []).length := by
    intro b h1 h2
    have h3 := hA (b - 1) (by omega) (by omega)
    rw [hbl (b - 1) (by omega)] at h3
    have h4 := lcp_lt_len_of_lt _ _ (getD_lt_of_lt keys (show b - 1 < b - 1 + 1 by omega) (by omega) hsorted)
    have e : b - 1 + 1 = b := by omega
    rw [e] at h3 h4; omega
  have hlen : ∀ b, S ≤ b → b < E → lam ≤ (keys.getD b []).length := by
    intro b h1 h2
    by_cases e : b = S
    · subst e; exact hB
    · exact Nat.le_of_lt (hC b (by omega) h2)
  have hD : ∀ c, S + c < E → (keys.getD (S + c) []).take lam = (keys.getD S []).take lam := by
    intro c
    induction c with
    | zero => intro _; rfl
    | succ c ih =>
      intro h
      have h3 := hA (S + c) (by omega) (by omega)
      rw [hbl (S + c) (by omega)] at h3
      have := ((le_lcp_iff lam _ _).1 h3).2.2
      rw [← ih (by omega), this]; rfl
  have hlcp : ∀ b d, S ≤ b → b < E → S ≤ d → d < E → lam ≤ lcp (keys.getD b []) (keys.getD d []) := by
    intro b d b1 b2 d1 d2
    refine (le_lcp_iff lam _ _).2 ⟨hlen b b1 b2, hlen d d1 d2, ?_⟩
    have e1 := hD (b - S) (by omega)
    have e2 := hD (d - S) (by omega)
    rw [show S + (b - S) = b by omega] at e1
    rw [show S + (d - S) = d by omega] at e2
    rw [e1, e2]
  -- members of one group
  have hgroup : ∀ (s t : Nat) (L1 B1 : List Nat), S ≤ s → t ≤ E → Valid keys mx s t L1 B1 →
      (∀ i, s ≤ i → i + 1 < t → lam < bl fds i) →
      ∀ p ∈ PL keys s L1 B1, ∃ b l, s ≤ b ∧ b < t ∧ p = (keys.getD b []).take l ∧
        l ≤ (keys.getD b []).length ∧ lam ≤ l ∧ (S < s → lam < l) := by
    intro s t L1 B1 hs ht hv hin p hp
    by_cases hS : S < s
    · obtain ⟨b, l, q1, q2, q3, q4, q5⟩ := valid_members keys fds mx hbl (lam + 1) L1 B1 s t hv (by omega)
        (fun b hb hb' => hC b (by omega) (by omega)) (fun i hi hi' => hin i hi hi') p hp
      exact ⟨b, l, q1, q2, q3, q4, by omega, fun _ => by omega⟩
    · obtain ⟨b, l, q1, q2, q3, q4, q5⟩ := valid_members keys fds mx hbl lam L1 B1 s t hv (by omega)
        (fun b hb hb' => hlen b (by omega) (by omega))
        (fun i hi hi' => Nat.le_of_lt (hin i hi hi')) p hp
      exact ⟨b, l, q1, q2, q3, q4, q5, fun h => absurd h hS⟩
  intro es
  induction es with
  | nil => intro s Ls Bs _ h; exact h.elim
  | cons t es ih =>
    intro s Ls Bs hs hsp hg
    obtain ⟨L1, B1, L2, B2, rfl, rfl, ⟨hv1, hp1⟩, hg2⟩ := hg
    cases es with
    | nil =>
      obtain ⟨rfl, rfl⟩ := hg2
      obtain ⟨rfl, hst, hin⟩ := hsp
      simp only [List.append_nil]
      refine ⟨hp1, ?_⟩
      exact hgroup s t L1 B1 hs (Nat.le_refl _) hv1 hin
    | cons t' es' =>
      obtain ⟨hst, htE, hbt, hin, hsp'⟩ := hsp
      obtain ⟨ihp, ihm⟩ := ih t L2 B2 (by omega) hsp' hg2
      have hm1 := hgroup s t L1 B1 hs (by omega) hv1 hin
      rw [PL_append keys mx L2 B2 L1 B1 s t hv1]
      refine ⟨List.pairwise_append.2 ⟨hp1, ihp, ?_⟩, ?_⟩
      · intro p hp p' hp'
        obtain ⟨b, l, q1, q2, rfl, q4, q5, _⟩ := hm1 p hp
        obtain ⟨d, l', r1, r2, rfl, r4, _, r6⟩ := ihm p' hp'
        have r6' := r6 (by omega)
        have hbd := getD_lt_of_lt keys (show b < d by omega) (by omega) hsorted
        -- lcp (keys[b]) (keys[d]) = lam
        have hge := hlcp b d (by omega) (by omega) (by omega) r2
        have h1 := (lcp_mid (keys.getD b []) (keys.getD (t - 1) []) (keys.getD d [])
          (getD_le_of_le keys (by omega) (by omega) hsorted)
          (getD_le_of_le keys (by omega) (by omega) hsorted)).2
        have h2 := (lcp_mid (keys.getD (t - 1) []) (keys.getD (t - 1 + 1) []) (keys.getD d [])
          (getD_le_of_le keys (by omega) (by omega) hsorted)
          (getD_le_of_le keys (by omega) (by omega) hsorted)).1
        rw [← hbl (t - 1) (by omega), hbt] at h2
        exact cross_lt _ _ lam l l' hbd (by omega) q5 q4 r6' r4
      · intro p hp
        rcases List.mem_append.1 hp with hp | hp
        · obtain ⟨b, l, q1, q2, q3, q4, q5, q6⟩ := hm1 p hp
          exact ⟨b, l, q1, by omega, q3, q4, q5, q6⟩
        · obtain ⟨d, l', r1, r2, r3, r4, r5, r6⟩ := ihm p hp
          exact ⟨d, l', by omega, r2, r3, r4, r5, fun _ => r6 (by omega)⟩

end

end Low.C17L
