import LowProofs.Lemmas.C10
/- helper lemmas for C10: recurrence of `encPath` along the branch list, order, lexCmp facts, binary digits -/
namespace Low.C10L
open Low

/-! ### peeling the first branch -/

theorem hi_cons (g : Nat) (x : Bool) (a : List Bool) (hl : a.length ≤ g) :
    hi (g + 1) (x :: a) = x.toNat * 2 ^ g + hi g a := by
  unfold hi
  have e : g + 1 - (x :: a).length = g - a.length := by simp
  rw [e]
  simp only [bitsVal]
  rw [Nat.add_mul, Nat.mul_assoc, pow_split hl]

theorem lo_succ (g l : Nat) (hl : l ≤ g) : lo (g + 1) (l + 1) = lo g l + 2 ^ g := by
  rw [lo_eq (by omega), lo_eq hl]
  have e : g + 1 - (l + 1) = g - l := by omega
  have : 2 ^ (g - l) ≤ 2 ^ g := Nat.pow_le_pow_right (by omega) (by omega)
  rw [e, Nat.pow_succ]; omega

/-- the path word of `x :: a` in height `g+1` from the path word of `a` in height `g` -/
theorem encPath_cons {g : Nat} (x : Bool) {a : List Bool} (hg : g + 1 ≤ 32) (hl : a.length ≤ g) :
    encPath (g + 1) (x :: a) = encPath g a + x.toNat * 2 ^ (g + 32) + 2 ^ g := by
  rw [encPath_eq hg (by simpa using hl), encPath_eq (by omega) hl, hi_cons g x a hl]
  simp only [List.length_cons]
  rw [lo_succ g _ hl, Nat.add_mul, Nat.mul_assoc, ← Nat.pow_add]
  omega

theorem encPath_nil (h : Nat) : encPath h [] = 0 := by simp [encPath, bitsVal]

/-! ### order -/

theorem encPath_lt_iff : ∀ (a b : List Bool) (h : Nat), h ≤ 32 → a.length ≤ h → b.length ≤ h →
    (encPath h a < encPath h b ↔ lexCmp a b = -1)
  | [], [], h, _, _, _ => by simp [lexCmp]
  | [], y :: b, h, hh, _, hb => by
    obtain ⟨g, rfl⟩ : ∃ g, h = g + 1 := ⟨h - 1, by simp at hb; omega⟩
    have hb' : b.length ≤ g := by simpa using hb
    rw [encPath_nil, encPath_cons y hh hb']
    have := Nat.two_pow_pos g
    simp [lexCmp]; omega
  | x :: a, [], h, _, _, _ => by simp [lexCmp, encPath_nil]
  | x :: a, y :: b, h, hh, ha, hb => by
    obtain ⟨g, rfl⟩ : ∃ g, h = g + 1 := ⟨h - 1, by simp at hb; omega⟩
    have ha' : a.length ≤ g := by simpa using ha
    have hb' : b.length ≤ g := by simpa using hb
    have ih := encPath_lt_iff a b g (by omega) ha' hb'
    have la := encPath_lt (n := a) (h := g) (by omega) ha'
    have lb := encPath_lt (n := b) (h := g) (by omega) hb'
    rw [encPath_cons x hh ha', encPath_cons y hh hb']
    generalize 2 ^ (g + 32) = P at *
    generalize 2 ^ g = Q at *
    cases x <;> cases y <;> simp [lexCmp, ← ih] <;> omega

/-! ### lexCmp facts -/

theorem lexCmp_eq_zero : ∀ (a b : List Bool), lexCmp a b = 0 → a = b
  | [], [], _ => rfl
  | [], _ :: _, h => by simp [lexCmp] at h
  | _ :: _, [], h => by simp [lexCmp] at h
  | x :: a, y :: b, h => by
    by_cases e : x = y
    · subst e
      simp only [lexCmp, if_true] at h
      rw [lexCmp_eq_zero a b h]
    · simp only [lexCmp, e, if_false] at h
      split at h <;> simp at h

theorem lexCmp_trichotomy : ∀ (a b : List Bool), lexCmp a b = -1 ∨ lexCmp a b = 0 ∨ lexCmp b a = -1
  | [], [] => by simp [lexCmp]
  | [], _ :: _ => by simp [lexCmp]
  | _ :: _, [] => by simp [lexCmp]
  | x :: a, y :: b => by
    have := lexCmp_trichotomy a b
    cases x <;> cases y <;> simp [lexCmp] <;> exact this

theorem lexCmp_prefix : ∀ (a b : List Bool), b ≠ [] → lexCmp a (a ++ b) = -1
  | [], [], h => absurd rfl h
  | [], _ :: _, _ => by simp [lexCmp]
  | x :: a, b, h => by simp [lexCmp, lexCmp_prefix a b h]

theorem lexCmp_branch : ∀ (a x y : List Bool), lexCmp (a ++ false :: x) (a ++ true :: y) = -1
  | [], x, y => by simp [lexCmp]
  | z :: a, x, y => by simp [lexCmp, lexCmp_branch a x y]

/-! ### binary digits -/

/-- the digit list that `fmtBin l v` wraps into a string -/
def pad (l v : Nat) : List Char :=
  List.replicate (l - (Nat.toDigits 2 v).length) '0' ++ Nat.toDigits 2 v

theorem fmtBin_eq (l v : Nat) : fmtBin l v = String.ofList (pad l v) := rfl

theorem pad_succ {l : Nat} (hl : 0 < l) (v : Nat) :
    pad (l + 1) v = pad l (v / 2) ++ [Nat.digitChar (v % 2)] := by
  unfold pad
  by_cases hv : v < 2
  · have e0 : v / 2 = 0 := by omega
    have e1 : v % 2 = v := by omega
    obtain ⟨m, rfl⟩ : ∃ m, l = m + 1 := ⟨l - 1, by omega⟩
    rw [e0, e1, Nat.toDigits_zero, Nat.toDigits_of_lt_base hv]
    simp [List.replicate_succ']
  · rw [Nat.toDigits_of_base_le (b := 2) (n := v) (by omega) (by omega)]
    simp only [List.length_append, List.length_singleton, List.append_assoc]
    have e : l + 1 - ((Nat.toDigits 2 (v / 2)).length + 1) = l - (Nat.toDigits 2 (v / 2)).length := by omega
    rw [e]

/-- the character of a branch bit -/
def chr (b : Bool) : Char := if b then '1' else '0'

theorem digitChar_toNat (b : Bool) : Nat.digitChar b.toNat = chr b := by cases b <;> rfl

theorem pad_bitsVal : ∀ (k : Nat) (n : List Bool), n.length = k + 1 → pad (k + 1) (bitsVal n) = n.map chr
  | 0, n, hn => by
    match n, hn with
    | [b], _ =>
      cases b
      · simp [pad, bitsVal, Nat.toDigits_zero, chr]
      · simp [pad, bitsVal, Nat.toDigits_of_lt_base (b := 2) (n := 1) (by omega), chr]
  | k+1, n, hn => by
    rcases List.eq_nil_or_concat n with rfl | ⟨m, b, rfl⟩
    · simp at hn
    · rw [List.concat_eq_append] at hn ⊢
      have hm : m.length = k + 1 := by simpa using hn
      rw [pad_succ (by omega), bitsVal_concat]
      have e0 : (2 * bitsVal m + b.toNat) / 2 = bitsVal m := by cases b <;> simp <;> omega
      have e1 : (2 * bitsVal m + b.toNat) % 2 = b.toNat := by cases b <;> simp <;> omega
      rw [e0, e1, pad_bitsVal k m hm, digitChar_toNat]; simp

end Low.C10L
