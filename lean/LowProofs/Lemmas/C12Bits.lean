import LowProofs.Lemmas.Count
/-
  Shared bit-set lemmas for C12 and C15: what `bitAt` sees after appending zero words and after
  OR-ing one bit into a word ("OR a bit into word i/64" = set insertion), and `WordsOK` preservation.
-/
namespace Low.C12L
open Low

theorem bitAt_getD (ws : List Nat) (i : Nat) : bitAt ws i = (ws[i / 64]?.getD 0).testBit (i % 64) := by
  simp [bitAt, List.getD]

theorem bitAt_nil (i : Nat) : bitAt [] i = false := by simp [bitAt_getD]

theorem bitAt_zeros (n i : Nat) : bitAt (zeros n) i = false := by
  simp only [bitAt_getD, zeros, List.getElem?_replicate]
  split <;> simp

theorem bitAt_append_zeros (ws : List Nat) (n i : Nat) : bitAt (ws ++ zeros n) i = bitAt ws i := by
  simp only [bitAt_getD, zeros, List.getElem?_append, List.getElem?_replicate]
  split
  · rfl
  · have h : ws.length ≤ i / 64 := by omega
    rw [List.getElem?_eq_none h]
    split <;> simp

theorem bitAt_cons_add (w : Nat) (r : List Nat) (k : Nat) : bitAt (w :: r) (k + 64) = bitAt r k := by
  have h1 : (k + 64) / 64 = k / 64 + 1 := by omega
  have h2 : (k + 64) % 64 = k % 64 := by omega
  simp [bitAt_getD, h1, h2]

theorem bitAt_cons_lt (w : Nat) (r : List Nat) {k : Nat} (hk : k < 64) : bitAt (w :: r) k = w.testBit k := by
  have h1 : k / 64 = 0 := by omega
  have h2 : k % 64 = k := by omega
  simp [bitAt_getD, h1, h2]

/-- OR-ing `2^(i%64)` into word `i/64` inserts position `i` into the denoted set -/
theorem bitAt_set_or {ws : List Nat} {i w : Nat} (hw : ws[i / 64]? = some w) (m : Nat) :
    bitAt (ws.set (i / 64) (w ||| 2 ^ (i % 64))) m = (bitAt ws m || decide (m = i)) := by
  simp only [bitAt_getD, List.getElem?_set]
  by_cases h : i / 64 = m / 64
  · have hlt : i / 64 < ws.length := by
      rcases Nat.lt_or_ge (i / 64) ws.length with h' | h'
      · exact h'
      · rw [List.getElem?_eq_none h'] at hw; cases hw
    rw [if_pos h, if_pos hlt, ← h, hw]
    simp only [Option.getD_some, Nat.testBit_or, Nat.testBit_two_pow]
    congr 1
    by_cases hm : m = i
    · subst hm; simp
    · have : i % 64 ≠ m % 64 := by omega
      simp [hm, this]
  · rw [if_neg h]
    have : m ≠ i := by intro e; subst e; exact h rfl
    simp [this]

theorem wordsOK_set {ws : List Nat} (h : WordsOK ws) (k v : Nat) (hv : v < 2 ^ 64) : WordsOK (ws.set k v) := by
  intro x hx
  rcases List.mem_or_eq_of_mem_set hx with h' | h'
  · exact h x h'
  · subst h'; exact hv

theorem wordsOK_append_zeros {ws : List Nat} (h : WordsOK ws) (n : Nat) : WordsOK (ws ++ zeros n) := by
  intro x hx
  rcases List.mem_append.mp hx with h' | h'
  · exact h x h'
  · simp only [zeros, List.mem_replicate] at h'
    rw [h'.2]; exact Nat.two_pow_pos 64

theorem wordsOK_zeros (n : Nat) : WordsOK (zeros n) := by
  have := wordsOK_append_zeros (ws := []) (by intro x hx; cases hx) n
  simpa using this

theorem or_bit_lt {w j : Nat} (hw : w < 2 ^ 64) (hj : j < 64) : w ||| 2 ^ j < 2 ^ 64 :=
  Nat.or_lt_two_pow hw (Nat.pow_lt_pow_right (by omega) hj)

theorem getElem?_of_wordsOK {ws : List Nat} (h : WordsOK ws) {k w : Nat} (hw : ws[k]? = some w) : w < 2 ^ 64 :=
  h w (List.mem_of_getElem? hw)

/-- `w &&& 2^j` is the bit in place -/
theorem and_two_pow_eq (w j : Nat) : w &&& 2 ^ j = (w.testBit j).toNat <<< j := by
  apply Nat.eq_of_testBit_eq
  intro k
  rw [Nat.testBit_and, Nat.testBit_two_pow, Nat.testBit_shiftLeft]
  by_cases hk : j = k
  · subst hk; cases w.testBit j <;> simp
  · by_cases hge : k ≥ j
    · have : k - j ≠ 0 := by omega
      have e : k - j = (k - j - 1) + 1 := by omega
      cases w.testBit j
      · simp [hk]
      · simp only [hk, decide_false, Bool.and_false, Bool.toNat_true, hge, decide_true, Bool.true_and]
        rw [e, Nat.testBit_succ]; simp
    · simp [hk, hge]

end Low.C12L
