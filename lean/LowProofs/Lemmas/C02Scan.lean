import LowProofs.Lemmas.C02Word
/- C02 helpers, part 4: masked words, `tz` as least set bit, and the next-1 scan `nextNonZero` -/
namespace Low.C02L
open Low

/-- `w` is `w0` with the bits below `c` cleared -/
def Masked (w0 c w : Nat) : Prop := ∀ j, w.testBit j = (w0.testBit j && decide (c ≤ j))

theorem masked_refl (w0 : Nat) : Masked w0 0 w0 := by intro j; simp

theorem testBit_not64_mask (c j : Nat) :
    (not64 (mask c)).testBit j = (decide (j < 64) ^^ decide (j < c)) := by
  have : not64 (mask c) = (2^64 - 1) ^^^ (2^c - 1) := rfl
  rw [this, Nat.testBit_xor, Nat.testBit_two_pow_sub_one, Nat.testBit_two_pow_sub_one]

theorem testBit_ge64 {w0 j : Nat} (h0 : w0 < 2^64) (hj : 64 ≤ j) : w0.testBit j = false :=
  Nat.testBit_lt_two_pow (Nat.lt_of_lt_of_le h0 (Nat.pow_le_pow_right (by omega) hj))

theorem masked_and {w0 c w d : Nat} (h0 : w0 < 2^64) (hm : Masked w0 c w) :
    Masked w0 (max c d) (w &&& not64 (mask d)) := by
  intro j
  rw [Nat.testBit_and, hm j, testBit_not64_mask d j]
  by_cases h64 : j < 64
  · have e1 : decide (max c d ≤ j) = (decide (c ≤ j) && decide (d ≤ j)) := by
      simp only [Nat.max_le, Bool.decide_and]
    have e2 : decide (j < d) = !decide (d ≤ j) := by
      by_cases h : d ≤ j
      · have h' : ¬ j < d := by omega
        simp [h, h']
      · have h' : j < d := by omega
        simp [h, h']
    rw [e1, e2]; simp [h64, Bool.and_assoc]
  · simp [testBit_ge64 h0 (by omega : 64 ≤ j)]

theorem masked_exists_bit {w0 c w : Nat} (h0 : w0 < 2^64) (hm : Masked w0 c w) (hz : w ≠ 0) :
    ∃ j, j < 64 ∧ w.testBit j = true := by
  obtain ⟨j, hj⟩ := Nat.exists_testBit_of_ne_zero hz
  refine ⟨j, ?_, hj⟩
  rcases Nat.lt_or_ge j 64 with h | h
  · exact h
  · rw [hm j, testBit_ge64 h0 h] at hj; simp at hj

/-- `tz w n` is the least set bit of `w` when there is one below `n` -/
theorem tz_spec : ∀ (n w : Nat), (∃ j, j < n ∧ w.testBit j = true) →
    tz w n < n ∧ w.testBit (tz w n) = true ∧ ∀ j, j < tz w n → w.testBit j = false
  | 0, w, ⟨j, hj, _⟩ => by omega
  | n+1, w, ⟨j, hj, hb⟩ => by
    simp only [tz]
    by_cases h0 : w.testBit 0 = true
    · simp [h0]
    · have h0' : w.testBit 0 = false := by simpa using h0
      have hj0 : j ≠ 0 := by
        intro e; subst e; rw [hb] at h0'; cases h0'
      have e1 : 1 + (j - 1) = j := by omega
      obtain ⟨h1, h2, h3⟩ := tz_spec n (w >>> 1)
        ⟨j - 1, by omega, by rw [Nat.testBit_shiftRight, e1]; exact hb⟩
      rw [if_neg h0]
      rw [Nat.testBit_shiftRight] at h2
      refine ⟨by omega, h2, ?_⟩
      intro k hk
      rcases Nat.eq_zero_or_pos k with rfl | hk0
      · exact h0'
      · have := h3 (k - 1) (by omega)
        rw [Nat.testBit_shiftRight] at this
        have e : 1 + (k - 1) = k := by omega
        rwa [e] at this

theorem drop_cons_facts {ws : List Nat} {wI w : Nat} {r : List Nat} (hd : ws.drop wI = w :: r) :
    ws[wI]? = some w ∧ wI < ws.length ∧ ws.drop (wI + 1) = r := by
  have h1 : ws[wI]? = some w := by
    have := congrArg (fun l => l[0]?) hd
    simpa [List.getElem?_drop] using this
  have h2 : wI < ws.length := (List.getElem?_eq_some_iff.mp h1).1
  refine ⟨h1, h2, ?_⟩
  have : (ws.drop wI).drop 1 = r := by rw [hd]; rfl
  rwa [List.drop_drop] at this

/-- the scan over the following words finds the first 1-bit at or after `64*wI`, or the bit length -/
theorem nextNonZero_spec {ws : List Nat} (hok : WordsOK ws) : ∀ (rest : List Nat) (wI : Nat),
    ws.drop wI = rest → wI ≤ ws.length →
    64 * wI ≤ nextNonZero ws.length rest wI ∧ nextNonZero ws.length rest wI ≤ 64 * ws.length ∧
      (nextNonZero ws.length rest wI < 64 * ws.length → bitAt ws (nextNonZero ws.length rest wI) = true) ∧
      ∀ c, 64 * wI ≤ c → c < nextNonZero ws.length rest wI → bitAt ws c = false
  | [], wI, hd, hle => by
    have : ws.length ≤ wI := List.drop_eq_nil_iff.mp hd
    have e : wI = ws.length := by omega
    subst e
    simp only [nextNonZero]
    exact ⟨by omega, by omega, by omega, by intros; omega⟩
  | w :: r, wI, hd, hle => by
    obtain ⟨hw, hlt, hdr⟩ := drop_cons_facts hd
    have hw64 : w < 2^64 := hok w (List.mem_of_getElem? hw)
    simp only [nextNonZero]
    by_cases hz : w = 0
    · subst hz
      simp only [ne_eq, not_true, if_false]
      obtain ⟨h1, h2, h3, h4⟩ := nextNonZero_spec hok r (wI+1) hdr (by omega)
      refine ⟨by omega, h2, h3, ?_⟩
      intro c hc1 hc2
      by_cases hc : 64*(wI+1) ≤ c
      · exact h4 c hc hc2
      · have e : c / 64 = wI := by omega
        rw [bitAt_eq (by rw [e]; exact hw)]; simp
    · rw [if_pos hz]
      obtain ⟨t1, t2, t3⟩ := tz_spec 64 w (masked_exists_bit hw64 (masked_refl w) hz)
      have e0 : wI * 64 + tz w 64 = 64 * wI + tz w 64 := by omega
      rw [e0]
      refine ⟨by omega, by omega, fun _ => ?_, ?_⟩
      · rw [bitAt_word hw t1]; exact t2
      · intro c hc1 hc2
        have e : c = 64 * wI + (c - 64*wI) := by omega
        rw [e, bitAt_word hw (by omega)]; exact t3 _ (by omega)

/-- the shared tail of `Select32` / `Select32R64`: after clearing the bits up to and including the
    selected one, either the same word or the scan yields the next 1-bit -/
theorem next_spec {ws : List Nat} (hok : WordsOK ws) {wI a0 w0 w' : Nat} (hw : ws[wI]? = some w0)
    (ha : a0 < 64) (hm : Masked w0 (a0+1) w') :
    IsNext ws (64*wI + a0)
      (if w' ≠ 0 then wI * 64 + tz w' 64 else nextNonZero ws.length (ws.drop (wI+1)) (wI+1)) := by
  have hlt : wI < ws.length := (List.getElem?_eq_some_iff.mp hw).1
  have hw64 : w0 < 2^64 := hok w0 (List.mem_of_getElem? hw)
  by_cases hz : w' = 0
  · rw [if_neg (by simpa using hz)]
    obtain ⟨h1, h2, h3, h4⟩ := nextNonZero_spec hok (ws.drop (wI+1)) (wI+1) rfl (by omega)
    refine ⟨by omega, h2, h3, ?_⟩
    intro c hc1 hc2
    by_cases hc : 64*(wI+1) ≤ c
    · exact h4 c hc hc2
    · have e : c = 64 * wI + (c - 64*wI) := by omega
      rw [e, bitAt_word hw (by omega)]
      have := hm (c - 64*wI)
      rw [hz] at this
      have hd : decide (a0 + 1 ≤ c - 64 * wI) = true := by simp; omega
      rw [hd] at this
      simpa using this.symm
  · rw [if_pos hz]
    obtain ⟨t1, t2, t3⟩ := tz_spec 64 w' (masked_exists_bit hw64 hm hz)
    have e0 : wI * 64 + tz w' 64 = 64 * wI + tz w' 64 := by omega
    rw [e0]
    have hmt := hm (tz w' 64)
    rw [t2] at hmt
    have hmt' : w0.testBit (tz w' 64) = true ∧ a0 + 1 ≤ tz w' 64 := by simpa using hmt.symm
    refine ⟨by omega, by omega, fun _ => ?_, ?_⟩
    · rw [bitAt_word hw t1]; exact hmt'.1
    · intro c hc1 hc2
      have e : c = 64 * wI + (c - 64*wI) := by omega
      rw [e, bitAt_word hw (by omega)]
      have h3 := t3 (c - 64*wI) (by omega)
      rw [hm (c - 64*wI)] at h3
      have hd : decide (a0 + 1 ≤ c - 64 * wI) = true := by simp; omega
      rw [hd] at h3
      simpa using h3

end Low.C02L
