import LowProofs.Lemmas.C04Spec
import LowProofs.Lemmas.C03Bits
/- C04 helpers, part 3: the two loops of `AllPaths` as a clipped scan over the candidate words, row by row -/
namespace Low.C04L
open Low

/-- the candidate words of search value `i` for `tz` running from `k` down to 0, in loop order (no clipping) -/
def rowFrom (t h i : Nat) : Nat → List Nat
  | 0 => if t.testBit h then [pword h i 0] else []
  | k+1 => (if t.testBit (h - (k+1)) then [pword h i (k+1)] else []) ++ rowFrom t h i k

/-- all candidate words of search value `i` -/
def row (t h i : Nat) : List Nat := rowFrom t h i (min (tz i 64) h)

/-! ### the loops are scans -/

theorem inner_eq_scan (t h frm to i : Nat) : ∀ (k : Nat) (acc : List Nat),
    allPathsInner t h frm to i k acc = scan frm to (rowFrom t h i k) acc
  | 0, acc => by
    rw [allPathsInner]
    simp only [rowFrom, Nat.sub_zero]
    by_cases ht : t.testBit h = true
    · simp only [ht, if_true, scan, pword]
      by_cases h1 : (shl64 i 32 ||| (mask h ^^^ mask 0)) < frm
      · simp [h1]
      · by_cases h2 : (shl64 i 32 ||| (mask h ^^^ mask 0)) ≥ to
        · simp [h1, h2]
        · simp [h1, h2]
    · simp [ht, scan]
  | k+1, acc => by
    rw [allPathsInner]
    simp only [rowFrom]
    by_cases ht : t.testBit (h - (k+1)) = true
    · simp only [ht, if_true, List.singleton_append, scan, pword]
      by_cases h1 : (shl64 i 32 ||| (mask h ^^^ mask (k+1))) < frm
      · simp only [h1, if_true]; exact inner_eq_scan t h frm to i k acc
      · by_cases h2 : (shl64 i 32 ||| (mask h ^^^ mask (k+1))) ≥ to
        · simp [h1, h2]
        · simp only [h1, h2, if_false]; exact inner_eq_scan t h frm to i k _
    · simp only [ht, Bool.false_eq_true, if_false, List.nil_append]
      exact inner_eq_scan t h frm to i k acc

theorem outer_eq_scan (t h frm to : Nat) : ∀ (cnt i : Nat) (acc : List Nat),
    allPathsOuter t h frm to cnt i acc = (scan frm to ((List.range' i cnt).flatMap (row t h)) acc).1
  | 0, i, acc => by simp [allPathsOuter, scan]
  | cnt+1, i, acc => by
    rw [allPathsOuter, List.range'_succ, List.flatMap_cons, scan_append]
    simp only [inner_eq_scan]
    show (if (scan frm to (row t h i) acc).2 = true then (scan frm to (row t h i) acc).1
        else allPathsOuter t h frm to cnt (i + 1) (scan frm to (row t h i) acc).1) = _
    by_cases hs : (scan frm to (row t h i) acc).2 = true
    · simp only [hs, if_true]
    · simp only [hs, if_false, Bool.false_eq_true]
      exact outer_eq_scan t h frm to cnt (i+1) _

/-! ### members and order of the rows -/

theorem mem_rowFrom (t h i p : Nat) : ∀ (k : Nat),
    p ∈ rowFrom t h i k ↔ ∃ k', k' ≤ k ∧ t.testBit (h - k') = true ∧ p = pword h i k'
  | 0 => by
    simp only [rowFrom]
    constructor
    · intro hp
      by_cases ht : t.testBit h = true
      · simp only [ht, if_true, List.mem_singleton] at hp
        exact ⟨0, Nat.le_refl _, by simpa using ht, hp⟩
      · simp [ht] at hp
    · rintro ⟨k', hk, ht, rfl⟩
      have : k' = 0 := by omega
      subst this
      simp only [Nat.sub_zero] at ht
      simp [ht]
  | k+1 => by
    simp only [rowFrom, List.mem_append, mem_rowFrom t h i p k]
    constructor
    · rintro (hp | ⟨k', hk, ht, rfl⟩)
      · by_cases ht : t.testBit (h - (k+1)) = true
        · simp only [ht, if_true, List.mem_singleton] at hp
          exact ⟨k+1, Nat.le_refl _, ht, hp⟩
        · simp [ht] at hp
      · exact ⟨k', by omega, ht, rfl⟩
    · rintro ⟨k', hk, ht, rfl⟩
      by_cases e : k' = k + 1
      · subst e; left; simp [ht]
      · right; exact ⟨k', by omega, ht, rfl⟩

theorem rowFrom_sorted (t h i : Nat) (h32 : h ≤ 32) (hi : i < 2^32) : ∀ (k : Nat), k ≤ h →
    (rowFrom t h i k).Pairwise (· < ·)
  | 0, _ => by simp only [rowFrom]; split <;> simp
  | k+1, hk => by
    simp only [rowFrom]
    rw [List.pairwise_append]
    refine ⟨by split <;> simp, rowFrom_sorted t h i h32 hi k (by omega), ?_⟩
    intro a ha b hb
    have ea : a = pword h i (k+1) := by
      by_cases ht : t.testBit (h - (k+1)) = true
      · simpa [ht] using ha
      · simp [ht] at ha
    obtain ⟨k', hk', _, rfl⟩ := (mem_rowFrom t h i b k).mp hb
    rw [ea]
    exact pword_lt_of_gt h32 hk (by omega) hi

theorem mem_row (t h i p : Nat) (h32 : h ≤ 32) :
    p ∈ row t h i ↔ ∃ k, k ≤ h ∧ i % 2^k = 0 ∧ t.testBit (h - k) = true ∧ p = pword h i k := by
  unfold row
  rw [mem_rowFrom]
  constructor
  · rintro ⟨k, hk, ht, rfl⟩
    exact ⟨k, by omega, (le_tz_iff 64 i k (by omega)).mp (by omega), ht, rfl⟩
  · rintro ⟨k, hk, hm, ht, rfl⟩
    have := (le_tz_iff 64 i k (by omega)).mpr hm
    exact ⟨k, by omega, ht, rfl⟩

theorem row_sorted (t h i : Nat) (h32 : h ≤ 32) (hi : i < 2^32) : (row t h i).Pairwise (· < ·) :=
  rowFrom_sorted t h i h32 hi _ (Nat.min_le_right _ _)

/-- every word of row `i` lies in `[i*2^32, (i+1)*2^32)` -/
theorem row_bounds (t h i p : Nat) (h32 : h ≤ 32) (hi : i < 2^32) (hp : p ∈ row t h i) :
    i * 2^32 ≤ p ∧ p < (i + 1) * 2^32 := by
  obtain ⟨k, hk, _, _, rfl⟩ := (mem_row t h i p h32).mp hp
  exact pword_bounds h32 hk hi

/-- consecutive rows, concatenated, are strictly ascending -/
theorem rows_sorted (t h a cnt : Nat) (h32 : h ≤ 32) (hb : ∀ i, a ≤ i → i < a + cnt → i < 2^32) :
    ((List.range' a cnt).flatMap (row t h)).Pairwise (· < ·) := by
  rw [List.pairwise_flatMap]
  constructor
  · intro i hi
    rw [List.mem_range'_1] at hi
    exact row_sorted t h i h32 (hb i hi.1 hi.2)
  · refine List.Pairwise.imp_of_mem ?_ (List.pairwise_lt_range' (s := a) (n := cnt))
    intro i j hi hj hij x hx y hy
    rw [List.mem_range'_1] at hi hj
    have bx := row_bounds t h i x h32 (hb i hi.1 hi.2) hx
    have by' := row_bounds t h j y h32 (hb j hj.1 hj.2) hy
    have : (i + 1) * 2^32 ≤ j * 2^32 := Nat.mul_le_mul_right _ (by omega)
    omega

end Low.C04L
