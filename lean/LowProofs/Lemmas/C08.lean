import LowProofs.Lemmas.C08Table
/- C08 helpers: bitword FromStr / Get / ToStr / FirstDiff against the bit-string specification -/
namespace Low.C08L
open Low

theorem width_facts : ∀ n ∈ [1,2,4,8], 8 / n * n = 8 ∧ 0 < n ∧ n ≤ 8 ∧ 0 < 8 / n ∧ bwWordMask n = 2 ^ n - 1 := by decide

theorem get_shift : ∀ n ∈ [1,2,4,8], ∀ j, j < 8 / n → 7 - (n * j + n - 1) % 8 = 8 - n * j - n := by decide

theorem wordAt_cons_lt {n j : Nat} (b : Nat) (s : List Nat) (h : j * n + n ≤ 8) :
    bwWordAt n (b :: s) j = byteWord n b j := by
  simp only [bwWordAt, byteWord, bitsBE_cons]
  rw [List.drop_append_of_le_length (by simp; omega), List.take_append_of_le_length (by simp; omega)]

theorem wordAt_cons_ge {n m : Nat} (b : Nat) (s : List Nat) (i : Nat) (h : m * n = 8) :
    bwWordAt n (b :: s) (m + i) = bwWordAt n s i := by
  simp only [bwWordAt, bitsBE_cons]
  have : (m + i) * n = 8 + i * n := by rw [Nat.add_mul, h]
  rw [this, List.drop_append, List.drop_eq_nil_of_le (by simp)]
  simp

theorem lt_words {n m j : Nat} (h : m * n = 8) (hj : j < m) : j * n + n ≤ 8 := by
  have : (j + 1) * n ≤ m * n := Nat.mul_le_mul_right n hj
  rw [Nat.add_mul] at this; omega

theorem fromStr_cons (n b : Nat) (s : List Nat) :
    bwFromStr n (b :: s) =
      ((List.range (8 / n)).map fun j => (b >>> (8 - n * j - n)) &&& bwWordMask n) ++ bwFromStr n s := by
  simp [bwFromStr]

theorem fromStr_eq_map {n : Nat} (hn : n ∈ [1,2,4,8]) : ∀ s, BytesOK s →
    bwFromStr n s = (List.range (s.length * (8 / n))).map (bwWordAt n s)
  | [], _ => by simp [bwFromStr]
  | b :: s, hs => by
    obtain ⟨hmn, -, -, -, -⟩ := width_facts n hn
    have hb : b < 256 := hs b (by simp)
    have ih := fromStr_eq_map hn s (fun x hx => hs x (by simp [hx]))
    rw [fromStr_cons, ih, List.length_cons, Nat.add_mul, Nat.one_mul, Nat.add_comm, List.range_add,
      List.map_append, List.map_map]
    congr 1
    · apply List.map_congr_left
      intro j hj
      have hj : j < 8 / n := by simpa using hj
      rw [byte_from_table n hn b hb j hj, wordAt_cons_lt b s (lt_words hmn hj)]
    · apply List.map_congr_left
      intro i _
      simp only [Function.comp]
      rw [wordAt_cons_ge b s i hmn]

theorem get_cons_ge {n : Nat} (hn : n ∈ [1,2,4,8]) (b : Nat) (s : List Nat) (i : Nat) :
    bwGet n (b :: s) (8 / n + i) = bwGet n s i := by
  have e1 : (n * (8 / n + i)) / 8 = n * i / 8 + 1 := by
    obtain ⟨hmn, -⟩ := width_facts n hn
    rw [Nat.mul_add, Nat.mul_comm n (8 / n), hmn]; omega
  have e2 : (n * (8 / n + i) + n - 1) % 8 = (n * i + n - 1) % 8 := by
    obtain ⟨hmn, hpos, -⟩ := width_facts n hn
    rw [Nat.mul_add, Nat.mul_comm n (8 / n), hmn]; omega
  simp only [bwGet, e1, e2, List.getElem?_cons_succ]

theorem get_eq {n : Nat} (hn : n ∈ [1,2,4,8]) : ∀ (s : List Nat), BytesOK s → ∀ i, i < s.length * (8 / n) →
    bwGet n s i = some (bwWordAt n s i)
  | [], _, i, hi => by simp at hi
  | b :: s, hs, i, hi => by
    obtain ⟨hmn, hpos, -, -, -⟩ := width_facts n hn
    have hb : b < 256 := hs b (by simp)
    by_cases h : i < 8 / n
    · have hle := lt_words hmn h
      have e0 : n * i / 8 = 0 := by
        rw [Nat.mul_comm]; apply Nat.div_eq_of_lt; omega
      simp only [bwGet, e0, List.getElem?_cons_zero]
      rw [get_shift n hn i h, byte_from_table n hn b hb i h, wordAt_cons_lt b s hle]
    · have e : i = 8 / n + (i - 8 / n) := by omega
      rw [e, get_cons_ge hn, wordAt_cons_ge b s _ hmn]
      apply get_eq hn s (fun x hx => hs x (by simp [hx]))
      simp only [List.length_cons, Nat.add_mul, Nat.one_mul] at hi
      omega

theorem words_eq {n : Nat} (hn : n ∈ [1,2,4,8]) (l : Nat) : 8 * l / n = l * (8 / n) := by
  simp only [List.mem_cons, List.mem_nil_iff, or_false] at hn
  rcases hn with rfl | rfl | rfl | rfl <;> omega



/-- bits contributed by slot `k` of a word list (a zero word past its end) -/
def slotBits (n : Nat) (bs : List Nat) (k : Nat) : List Bool :=
  match bs[k]? with
  | some x => wordBits n x
  | none => List.replicate n false

@[simp] theorem length_slotBits (n : Nat) (bs : List Nat) (k : Nat) : (slotBits n bs k).length = n := by
  unfold slotBits; split <;> simp

theorem length_flatMap_range {α} (f : Nat → List α) (n : Nat) (h : ∀ j, (f j).length = n) :
    ∀ k, ((List.range k).flatMap f).length = k * n
  | 0 => by simp
  | k+1 => by
    rw [List.range_succ, List.flatMap_append, List.length_append, length_flatMap_range f n h k]
    simp [h, Nat.add_mul]

/-- the inner loop of `ToStr` computes the value of the concatenated word bits -/
theorem packFold_eq {n : Nat} (hn : n ∈ [1,2,4,8]) (bs : List Nat) (hbs : ∀ w ∈ bs, w < 2 ^ n) (o : Nat) :
    ∀ k, k ≤ 8 / n →
    (List.range k).foldl (fun b j =>
      match bs[o + j]? with
      | some x => ((b <<< n) + x) % 256
      | none => (b <<< n) % 256) 0
      = bitsVal ((List.range k).flatMap fun j => slotBits n bs (o + j))
  | 0, _ => by simp [bitsVal]
  | k+1, hk => by
    obtain ⟨hmn, -, -, -, -⟩ := width_facts n hn
    have ih := packFold_eq hn bs hbs o k (by omega)
    rw [List.range_succ, List.foldl_append, List.flatMap_append, ih, bitsVal_append]
    simp only [List.foldl_cons, List.foldl_nil, List.flatMap_cons, List.flatMap_nil, List.append_nil,
      length_slotBits]
    have hlen := length_flatMap_range (fun j => slotBits n bs (o + j)) n (by simp) k
    have hB := bitsVal_lt ((List.range k).flatMap fun j => slotBits n bs (o + j))
    rw [hlen] at hB
    generalize bitsVal ((List.range k).flatMap fun j => slotBits n bs (o + j)) = B at hB ⊢
    have hle : 2 ^ (k * n + n) ≤ 2 ^ 8 := by
      apply Nat.pow_le_pow_right (by omega)
      have := lt_words hmn (show k < 8 / n by omega); omega
    have hmul : (B + 1) * 2 ^ n ≤ 2 ^ (k * n) * 2 ^ n := Nat.mul_le_mul_right _ hB
    rw [← Nat.pow_add] at hmul
    have hP := Nat.two_pow_pos n
    rw [Nat.add_mul] at hmul
    simp only [slotBits, Nat.shiftLeft_eq]
    cases hx : bs[o + k]? with
    | none =>
      simp only [bitsVal_replicate_false]
      generalize B * 2 ^ n = Y at *
      omega
    | some x =>
      have hxlt : x < 2 ^ n := hbs x (List.mem_of_getElem? hx)
      simp only [bitsVal_wordBits, Nat.mod_eq_of_lt hxlt]
      generalize B * 2 ^ n = Y at *
      omega

theorem flatMap_range_mul {α} (f : Nat → List α) (m : Nat) : ∀ sz,
    (List.range sz).flatMap (fun i => (List.range m).flatMap fun j => f (i * m + j)) =
      (List.range (sz * m)).flatMap f
  | 0 => by simp
  | sz+1 => by
    rw [List.range_succ, List.flatMap_append, flatMap_range_mul f m sz, Nat.add_mul, Nat.one_mul,
      List.range_add, List.flatMap_append, List.flatMap_map]
    simp

theorem flatMap_slots_self (n : Nat) : ∀ bs : List Nat,
    (List.range bs.length).flatMap (slotBits n bs) = bs.flatMap (wordBits n)
  | [] => by simp
  | b :: bs => by
    have h0 : slotBits n (b :: bs) 0 = wordBits n b := by simp [slotBits]
    have hs : ∀ k, slotBits n (b :: bs) (k + 1) = slotBits n bs k := fun k => by simp [slotBits]
    rw [List.length_cons, List.range_succ_eq_map, List.flatMap_cons, List.flatMap_map, List.flatMap_cons,
      ← flatMap_slots_self n bs, h0]
    simp only [Nat.succ_eq_add_one, hs]

theorem flatMap_replicate {α} (a : α) (n : Nat) : ∀ d,
    (List.range d).flatMap (fun _ => List.replicate n a) = List.replicate (d * n) a
  | 0 => by simp
  | d+1 => by
    rw [List.range_succ, List.flatMap_append, flatMap_replicate a n d, Nat.add_mul, Nat.one_mul,
      ← List.replicate_append_replicate]
    simp

theorem flatMap_congr' {α β} {f g : α → List β} : ∀ {l : List α}, (∀ a ∈ l, f a = g a) → l.flatMap f = l.flatMap g
  | [], _ => rfl
  | a :: l, h => by
    rw [List.flatMap_cons, List.flatMap_cons, h a (by simp), flatMap_congr' (fun x hx => h x (by simp [hx]))]

theorem flatMap_slots (n : Nat) (bs : List Nat) (L : Nat) (h : bs.length ≤ L) :
    (List.range L).flatMap (slotBits n bs) =
      bs.flatMap (wordBits n) ++ List.replicate ((L - bs.length) * n) false := by
  have e : L = bs.length + (L - bs.length) := by omega
  rw [e, List.range_add, List.flatMap_append, flatMap_slots_self, List.flatMap_map,
    ← flatMap_replicate false n (bs.length + (L - bs.length) - bs.length)]
  congr 1
  have : bs.length + (L - bs.length) - bs.length = L - bs.length := by omega
  rw [this]
  apply flatMap_congr'
  intro k _
  simp [slotBits]

theorem packByte_lt (n : Nat) (bs : List Nat) (i m : Nat) (hm : 0 < m) : bwPackByte n bs i m < 256 := by
  obtain ⟨m', rfl⟩ : ∃ m', m = m' + 1 := ⟨m - 1, by omega⟩
  simp only [bwPackByte, List.range_succ, List.foldl_append, List.foldl_cons, List.foldl_nil]
  split <;> omega

theorem toStr_bits {n : Nat} (hn : n ∈ [1,2,4,8]) (bs : List Nat) (hbs : ∀ w ∈ bs, w < 2 ^ n) :
    bitsBE (bwToStr n bs) = bs.flatMap (wordBits n) ++
      List.replicate (((bs.length + 8 / n - 1) / (8 / n) * (8 / n) - bs.length) * n) false := by
  obtain ⟨hmn, -, -, hm, -⟩ := width_facts n hn
  simp only [bwToStr, bitsBE, List.flatMap_map]
  have : ∀ i, byteBits (bwPackByte n bs i (8 / n)) =
      (List.range (8 / n)).flatMap fun j => slotBits n bs (i * (8 / n) + j) := by
    intro i
    have h : bwPackByte n bs i (8 / n) = _ := packFold_eq hn bs hbs (i * (8 / n)) (8 / n) (Nat.le_refl _)
    rw [h, byteBits_bitsVal]
    rw [length_flatMap_range _ n (by simp), hmn]
  simp only [this]
  rw [flatMap_range_mul (slotBits n bs), flatMap_slots]
  have h1 := Nat.div_add_mod (bs.length + 8 / n - 1) (8 / n)
  have h2 := Nat.mod_lt (bs.length + 8 / n - 1) hm
  rw [Nat.mul_comm] at h1
  generalize (bs.length + 8 / n - 1) / (8 / n) * (8 / n) = X at *
  omega



theorem toStr_ok {n : Nat} (hn : n ∈ [1,2,4,8]) (bs : List Nat) : BytesOK (bwToStr n bs) := by
  obtain ⟨-, -, -, hm, -⟩ := width_facts n hn
  intro x hx
  simp only [bwToStr, List.mem_map] at hx
  obtain ⟨i, -, rfl⟩ := hx
  exact packByte_lt n bs i _ hm

theorem fromStr_lt {n : Nat} (hn : n ∈ [1,2,4,8]) (s : List Nat) : ∀ w ∈ bwFromStr n s, w < 2 ^ n := by
  obtain ⟨-, -, -, -, hmask⟩ := width_facts n hn
  intro w hw
  simp only [bwFromStr, List.mem_flatMap, List.mem_map] at hw
  obtain ⟨b, -, j, -, rfl⟩ := hw
  have := @Nat.and_le_right (b >>> (8 - n * j - n)) (bwWordMask n)
  have := Nat.two_pow_pos n
  omega

theorem fromStr_bits {n : Nat} (hn : n ∈ [1,2,4,8]) : ∀ s, BytesOK s →
    (bwFromStr n s).flatMap (wordBits n) = bitsBE s
  | [], _ => by simp [bwFromStr, bitsBE]
  | b :: s, hs => by
    have hb : b < 256 := hs b (by simp)
    have ih := fromStr_bits hn s (fun x hx => hs x (by simp [hx]))
    rw [fromStr_cons, List.flatMap_append, ih, bitsBE_cons, ← byte_bits_table n hn b hb]
    congr 2
    apply List.map_congr_left
    intro j hj
    exact byte_from_table n hn b hb j (by simpa using hj)

theorem bitsBE_inj : ∀ (a b : List Nat), BytesOK a → BytesOK b → bitsBE a = bitsBE b → a = b
  | [], [], _, _, _ => rfl
  | [], y :: b, _, _, h => by
    have := congrArg List.length h
    simp [length_bitsBE] at this
  | x :: a, [], _, _, h => by
    have := congrArg List.length h
    simp [length_bitsBE] at this
  | x :: a, y :: b, ha, hb, h => by
    rw [bitsBE_cons, bitsBE_cons] at h
    obtain ⟨h1, h2⟩ := List.append_inj h (by simp)
    have hx : x < 2 ^ 8 := ha x (by simp)
    have hy : y < 2 ^ 8 := hb y (by simp)
    rw [wordBits_inj hx hy h1,
      bitsBE_inj a b (fun z hz => ha z (by simp [hz])) (fun z hz => hb z (by simp [hz])) h2]

theorem firstDiffLoop_spec {n : Nat} (hn : n ∈ [1,2,4,8]) (a b : List Nat) (ha : BytesOK a) (hb : BytesOK b)
    (e : Int) (hea : e ≤ ((a.length * (8 / n) : Nat) : Int)) (heb : e ≤ ((b.length * (8 / n) : Nat) : Int)) :
    ∀ (fuel : Nat) (i : Int), 0 ≤ i → fuel = (e - i).toNat →
    ∃ r, bwFirstDiffLoop n a b e fuel i = some r ∧
      (r = e ∨ (i ≤ r ∧ r < e ∧ bwWordAt n a r.toNat ≠ bwWordAt n b r.toNat)) ∧
      ∀ j, i ≤ j → j < r → bwWordAt n a j.toNat = bwWordAt n b j.toNat
  | 0, i, hi, hf => by
    have : ¬ i < e := by omega
    refine ⟨e, by simp [bwFirstDiffLoop, this], Or.inl rfl, ?_⟩
    intro j h1 h2; omega
  | fuel+1, i, hi, hf => by
    have hlt : i < e := by omega
    have hga := get_eq hn a ha i.toNat (by omega)
    have hgb := get_eq hn b hb i.toNat (by omega)
    simp only [bwFirstDiffLoop, hlt, if_true, show ¬ i < 0 by omega, if_false, hga, hgb]
    by_cases hne : bwWordAt n a i.toNat ≠ bwWordAt n b i.toNat
    · simp only [hne, ne_eq, not_false_eq_true, if_true]
      refine ⟨i, rfl, Or.inr ⟨Int.le_refl _, hlt, hne⟩, ?_⟩
      intro j h1 h2; omega
    · simp only [hne, if_false]
      obtain ⟨r, hr, hr1, hr2⟩ := firstDiffLoop_spec hn a b ha hb e hea heb fuel (i + 1) (by omega) (by omega)
      refine ⟨r, hr, ?_, ?_⟩
      · rcases hr1 with h | ⟨h1, h2, h3⟩
        · exact Or.inl h
        · exact Or.inr ⟨by omega, h2, h3⟩
      · intro j h1 h2
        by_cases hj : j = i
        · subst hj; exact Classical.not_not.mp hne
        · exact hr2 j (by omega) h2

end Low.C08L
