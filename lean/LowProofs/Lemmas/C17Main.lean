import LowProofs.Lemmas.C17Valid
/-
  Helper lemmas for C17, part 4: from `shardByPrefix` to the induction principle; shape/size/lcp.
-/
namespace Low.C17L
open Low Low.C16L

/-- the first-difference list of `keys`, by specification -/
def fdsOf (keys : List (List Nat)) : List Nat := List.zipWith fdSpec keys keys.tail

theorem fdsOf_length (keys : List (List Nat)) (hne : keys ≠ []) : (fdsOf keys).length + 1 = keys.length := by
  cases keys with
  | nil => exact absurd rfl hne
  | cons k ks => simp [fdsOf]

theorem fdsOf_getD (keys : List (List Nat)) (t : Nat) (h : t + 1 < keys.length) :
    (fdsOf keys).getD t 0 = fdSpec (keys.getD t []) (keys.getD (t + 1) []) := by
  have h1 : t < keys.length := by omega
  have h2 : t < keys.tail.length := by simp; omega
  simp [fdsOf, List.getD, List.getElem?_zipWith, List.getElem?_eq_getElem h1, List.getElem?_eq_getElem h,
    List.getElem?_eq_getElem h2]

theorem getD_mem {keys : List (List Nat)} {t : Nat} (h : t < keys.length) : keys.getD t [] ∈ keys := by
  simp [List.getD, List.getElem?_eq_getElem h]

theorem bl_fdsOf (keys : List (List Nat)) (hok : ∀ k ∈ keys, BytesOK k) (t : Nat) (h : t + 1 < keys.length) :
    bl (fdsOf keys) t = lcp (keys.getD t []) (keys.getD (t + 1) []) := by
  rw [bl, fdsOf_getD keys t h, fdSpec]
  exact lcp_bits_div8 _ _ (hok _ (getD_mem (by omega))) (hok _ (getD_mem h))

/-- `shardByPrefix` through the induction principle, for any `Post` closed under leaf and split -/
theorem shard_post (keys : List (List Nat)) (maxSize : Int) (hne : keys ≠ []) (hok : ∀ k ∈ keys, BytesOK k)
    (hm : 1 ≤ maxSize) (Post : Nat → Nat → List Nat → List Nat → Prop)
    (leaf : ∀ s e, s < e → e ≤ keys.length → e - s ≤ maxSize.toNat → Post s e [lam keys (fdsOf keys) s e] [e])
    (split : ∀ s e es Ls Bs, s < e → e ≤ keys.length → maxSize.toNat < e - s →
      SplitOK (fdsOf keys) (lam keys (fdsOf keys) s e) e s es → Groups Post s es Ls Bs → Post s e Ls Bs) :
    ∃ Ls Bs, shardByPrefix keys maxSize = some (Ls, 0 :: Bs) ∧ Post 0 keys.length Ls Bs := by
  have hfd : firstDiffBits keys = some (fdsOf keys) := firstDiffBits_eq hne hok
  have hlen := fdsOf_length keys hne
  have hmx : maxSize = ((maxSize.toNat : Nat) : Int) := by omega
  have hpos : 0 < keys.length := by
    cases keys with
    | nil => exact absurd rfl hne
    | cons => simp
  obtain ⟨Ls, Bs, h1, h2⟩ := dfs_ind keys (fdsOf keys) maxSize.toNat Post (by omega) hlen
    (fun t ht => by rw [bl_fdsOf keys hok t ht]; exact lcp_le_left _ _) leaf split
    (keys.length + 1) 0 keys.length ([], [0]) hpos (Nat.le_refl _) (by omega)
  refine ⟨Ls, Bs, ?_, h2⟩
  rw [shardByPrefix, hfd]
  simp only [hlen]
  rw [hmx, h1]
  simp

theorem shard_valid (keys : List (List Nat)) (maxSize : Int) (hne : keys ≠ []) (hok : ∀ k ∈ keys, BytesOK k)
    (hm : 1 ≤ maxSize) :
    ∃ Ls Bs, shardByPrefix keys maxSize = some (Ls, 0 :: Bs) ∧ Valid keys maxSize.toNat 0 keys.length Ls Bs := by
  apply shard_post keys maxSize hne hok hm (Valid keys maxSize.toNat)
  · intro s e h1 h2 h3
    exact ⟨h1, h3, lam_eq_lcpAll keys (fdsOf keys) (bl_fdsOf keys hok) h1 h2, rfl⟩
  · intro s e es Ls Bs _ _ _ hsp hg
    exact groups_valid keys maxSize.toNat es s e Ls Bs hg (splitOK_last _ _ _ es s hsp)

end Low.C17L
