import LowProofs.Lemmas.C09Lex
/- C09: per-byte tables for the mask byte `0xff << k`, checked by kernel evaluation -/
namespace Low.C09L
open Low Low.C08L

theorem mask_table : ∀ k, k < 8 → rmask k % 256 = 256 - 2 ^ k ∧ popc (256 - 2 ^ k) 8 = 8 - k ∧
    byteBits (256 - 2 ^ k) = ones (8 - k) ++ zeros k := by decide +kernel

theorem and_mask_table : ∀ k, k < 8 → ∀ x, x < 256 →
    byteBits (x &&& (256 - 2 ^ k)) = (byteBits x).take (8 - k) ++ zeros k := by decide +kernel

end Low.C09L
