import LowProofs.Lemmas.Count
/-
  Helper lemmas for C14 (Join / Getw / Slice): OR-ing a mask into one word of a bitmap changes exactly the
  bits of the mask (`bitAt_set_or`), `orBit` sets exactly one more bit, and the loop invariants of
  `sliceLoop` and `joinLoop` over an initially zero bitmap.
-/
namespace Low.C14L
open Low

/-! ### generic bitmap facts -/

theorem bitAt_zeros (n j : Nat) : bitAt (zeros n) j = false := by
  unfold bitAt zeros
  rw [List.getD_eq_getElem?_getD, List.getElem?_replicate]
  split <;> simp

theorem WordsOK_zeros (n : Nat) : WordsOK (zeros n) := by
  intro w hw
  have := List.eq_of_mem_replicate hw
  subst this
  exact Nat.two_pow_pos 64

theorem length_zeros (n : Nat) : (zeros n).length = n := by simp [zeros]

/-- replacing word `k` (old value `w`) by `w ||| m` sets exactly the bits of `m` inside word `k` -/
theorem bitAt_set_or {r : List Nat} {k w : Nat} (hw : r[k]? = some w) (m j : Nat) :
    bitAt (r.set k (w ||| m)) j = (bitAt r j || (decide (j / 64 = k) && m.testBit (j % 64))) := by
  unfold bitAt
  rw [List.getD_eq_getElem?_getD, List.getD_eq_getElem?_getD]
  by_cases h : j / 64 = k
  · have hlt : k < r.length := by
      rcases Nat.lt_or_ge k r.length with h | h
      · exact h
      · rw [List.getElem?_eq_none h] at hw; cases hw
    rw [h, List.getElem?_set_self hlt, hw]
    simp [Nat.testBit_or]
  · have h' : k ≠ j / 64 := fun e => h e.symm
    rw [List.getElem?_set_ne h']
    simp [h]

theorem WordsOK_set {r : List Nat} (hok : WordsOK r) {k v : Nat} (hv : v < 2^64) : WordsOK (r.set k v) := by
  intro w hw
  rcases List.mem_or_eq_of_mem_set hw with h | h
  · exact hok w h
  · rw [h]; exact hv

theorem getElem?_of_WordsOK {ws : List Nat} (hok : WordsOK ws) {k w : Nat} (h : ws[k]? = some w) : w < 2^64 :=
  hok w (List.mem_of_getElem? h)

/-- `orBit` inside the bitmap: no panic, same length, words stay in range, exactly bit `p` is added -/
theorem orBit_spec {r : List Nat} {p : Nat} (hp : p < 64 * r.length) :
    ∃ r', orBit r p = some r' ∧ r'.length = r.length ∧ (WordsOK r → WordsOK r') ∧
      ∀ j, bitAt r' j = (bitAt r j || decide (j = p)) := by
  have hk : p / 64 < r.length := by omega
  have hw : r[p / 64]? = some r[p / 64] := List.getElem?_eq_getElem hk
  refine ⟨r.set (p / 64) (r[p / 64] ||| 2 ^ (p % 64)), ?_, by simp, ?_, ?_⟩
  · simp only [orBit, hw]
  · intro hok
    apply WordsOK_set hok
    apply Nat.or_lt_two_pow (getElem?_of_WordsOK hok hw)
    exact Nat.pow_lt_pow_right (by omega) (by omega)
  · intro j
    rw [bitAt_set_or hw, Nat.testBit_two_pow]
    congr 1
    by_cases h : j = p
    · subst h; simp
    · have : ¬ (j / 64 = p / 64 ∧ p % 64 = j % 64) := by omega
      simp only [h, decide_false]
      by_cases h1 : j / 64 = p / 64 <;> by_cases h2 : p % 64 = j % 64 <;> simp [h1, h2]
      exact this ⟨h1, h2⟩

/-! ### Slice -/

/-- Invariant of the `Slice` loop over positions `a, a+1, …, a+m-1` (with `a+m = to`): before the step at
    `a`, bit `j` of `r` is bit `frm+j` of `ws` for `j < a - frm` and 0 elsewhere. -/
theorem sliceLoop_spec {ws : List Nat} {frm to : Nat} (hto : to ≤ 64 * ws.length) :
    ∀ (m a : Nat) (r : List Nat), frm ≤ a → a + m = to → to - frm ≤ 64 * r.length → WordsOK r →
      (∀ j, bitAt r j = (decide (j < a - frm) && bitAt ws (frm + j))) →
      ∃ r', sliceLoop ws frm (List.range' a m) r = some r' ∧ r'.length = r.length ∧ WordsOK r' ∧
        ∀ j, bitAt r' j = (decide (j < to - frm) && bitAt ws (frm + j))
  | 0, a, r, hfa, ham, _, hok, hinv => by
    refine ⟨r, by simp [sliceLoop], rfl, hok, ?_⟩
    have : a = to := by omega
    subst this; exact hinv
  | m+1, a, r, hfa, ham, hlen, hok, hinv => by
    have hk : a / 64 < ws.length := by omega
    have hw : ws[a / 64]? = some ws[a / 64] := List.getElem?_eq_getElem hk
    rw [List.range'_succ]
    simp only [sliceLoop, hw]
    have hbit := bitAt_eq hw
    by_cases hb : ws[a / 64].testBit (a % 64) = true
    · rw [if_pos hb]
      obtain ⟨r1, h1, hl1, hok1, hb1⟩ := orBit_spec (r := r) (p := a - frm) (by omega)
      rw [h1]
      obtain ⟨r', h2, hl2, hok2, hb2⟩ := sliceLoop_spec (frm := frm) hto m (a + 1) r1 (by omega) (by omega) (by rw [hl1]; exact hlen) (hok1 hok) (by
        intro j
        rw [hb1, hinv]
        by_cases hj : j = a - frm
        · have e : frm + j = a := by omega
          have d1 : decide (j < a + 1 - frm) = true := by simp; omega
          rw [e, hbit, hb, d1]; simp [hj]
        · by_cases hj2 : j < a - frm
          · have d1 : decide (j < a + 1 - frm) = true := by simp; omega
            have d2 : decide (j < a - frm) = true := by simp; omega
            rw [d1, d2]; simp [hj]
          · have d1 : decide (j < a + 1 - frm) = false := by simp; omega
            have d2 : decide (j < a - frm) = false := by simp; omega
            rw [d1, d2]; simp [hj])
      exact ⟨r', h2, by omega, hok2, hb2⟩
    · rw [if_neg hb]
      have hb' : ws[a / 64].testBit (a % 64) = false := by simpa using hb
      obtain ⟨r', h2, hl2, hok2, hb2⟩ := sliceLoop_spec (frm := frm) hto m (a + 1) r (by omega) (by omega) hlen hok (by
        intro j
        rw [hinv]
        by_cases hj : j = a - frm
        · have e : frm + j = a := by omega
          have d2 : decide (j < a - frm) = false := by simp; omega
          rw [e, hbit, hb', d2]; simp
        · by_cases hj2 : j < a - frm
          · have d1 : decide (j < a + 1 - frm) = true := by simp; omega
            have d2 : decide (j < a - frm) = true := by simp; omega
            rw [d1, d2]
          · have d1 : decide (j < a + 1 - frm) = false := by simp; omega
            have d2 : decide (j < a - frm) = false := by simp; omega
            rw [d1, d2])
      exact ⟨r', h2, hl2, hok2, hb2⟩

/-! ### Join / Getw -/

theorem shl64_lt (x s : Nat) : shl64 x s < 2^64 := by
  unfold shl64
  split
  · exact Nat.mod_lt _ (by decide)
  · exact Nat.two_pow_pos 64

theorem testBit_shl64 (x s t : Nat) (hs : s < 64) :
    (shl64 x s).testBit t = (decide (t < 64) && (decide (s ≤ t) && x.testBit (t - s))) := by
  have e : M64 = 2^64 := by decide
  unfold shl64
  rw [if_pos hs, e, Nat.testBit_mod_two_pow, Nat.testBit_shiftLeft]

/-- the bits that `Join` ORs into word `K/64` for a field starting at bit `K`: exactly the positions
    `K ≤ j < K + size` (the field does not straddle a word), carrying the low `size` bits of `e` -/
theorem field_bit (e size K j : Nat) (hns : K % 64 + size ≤ 64) :
    (decide (j / 64 = K / 64) && (shl64 (e &&& mask size) (K % 64)).testBit (j % 64)) =
      (decide (K ≤ j ∧ j < K + size) && e.testBit (j - K)) := by
  rw [testBit_shl64 _ _ _ (by omega), testBit_and_mask]
  by_cases hr : K ≤ j ∧ j < K + size
  · have h1 : j / 64 = K / 64 := by omega
    have h2 : j % 64 - K % 64 = j - K := by omega
    have h3 : K % 64 ≤ j % 64 := by omega
    have h4 : j - K < size := by omega
    have h5 : j % 64 < 64 := by omega
    simp [h1, h2, h3, h4, h5, hr]
  · have hd : decide (K ≤ j ∧ j < K + size) = false := by simp only [hr, decide_false]
    rw [hd, Bool.false_and]
    by_cases h1 : j / 64 = K / 64
    · by_cases h3 : K % 64 ≤ j % 64
      · have h4 : ¬ j % 64 - K % 64 < size := by omega
        simp [h4]
      · simp [h3]
    · simp [h1]

/-- Invariant of the `Join` loop before element `i` (`es = vs.drop i`): fields `0..i-1` hold the low `size`
    bits of `vs[0..i-1]`, every bit at or above `i*size` is clear. -/
theorem joinLoop_spec {vs : List Nat} {size : Nat} (hpos : 0 < size) (hns : ∀ i, (i * size) % 64 + size ≤ 64) :
    ∀ (n i : Nat) (r : List Nat), n = vs.length - i → i ≤ vs.length → vs.length * size ≤ 64 * r.length → WordsOK r →
      (∀ a t, a < i → t < size → bitAt r (a * size + t) = (vs.getD a 0).testBit t) →
      (∀ j, i * size ≤ j → bitAt r j = false) →
      ∃ r', joinLoop size (vs.drop i) i r = some r' ∧ r'.length = r.length ∧ WordsOK r' ∧
        (∀ a t, a < vs.length → t < size → bitAt r' (a * size + t) = (vs.getD a 0).testBit t) ∧
        (∀ j, vs.length * size ≤ j → bitAt r' j = false)
  | 0, i, r, hn, hi, _, hok, h1, h2 => by
    have hd : vs.drop i = [] := List.drop_eq_nil_of_le (by omega)
    have : i = vs.length := by omega
    subst this
    exact ⟨r, by simp [hd, joinLoop], rfl, hok, h1, h2⟩
  | n+1, i, r, hn, hi, hlen, hok, h1, h2 => by
    have hlt : i < vs.length := by omega
    have hd : vs.drop i = vs[i] :: vs.drop (i + 1) := List.drop_eq_getElem_cons hlt
    have hgd : vs.getD i 0 = vs[i] := by simp [List.getD, hlt]
    have hmul : (i + 1) * size = i * size + size := Nat.succ_mul i size
    have hle : (i + 1) * size ≤ vs.length * size := Nat.mul_le_mul_right size hlt
    have hnsi := hns i
    have hk : i * size / 64 < r.length := by
      generalize i * size = K at *
      generalize vs.length * size = L at *
      omega
    have hw : r[i * size / 64]? = some r[i * size / 64] := List.getElem?_eq_getElem hk
    rw [hd]
    simp only [joinLoop, hw]
    have hbit : ∀ j, bitAt (r.set (i * size / 64) (r[i * size / 64] ||| shl64 (vs[i] &&& mask size) (i * size % 64))) j
        = (bitAt r j || (decide (i * size ≤ j ∧ j < i * size + size) && vs[i].testBit (j - i * size))) := by
      intro j
      rw [bitAt_set_or hw, field_bit _ _ _ _ hnsi]
    obtain ⟨r', e1, e2, e3, e4, e5⟩ := joinLoop_spec (vs := vs) hpos hns n (i + 1)
      (r.set (i * size / 64) (r[i * size / 64] ||| shl64 (vs[i] &&& mask size) (i * size % 64))) (by omega) (by omega)
      (by rw [List.length_set]; exact hlen)
      (WordsOK_set hok (Nat.or_lt_two_pow (getElem?_of_WordsOK hok hw) (shl64_lt _ _)))
      (by
        intro a t ha ht
        rw [hbit]
        by_cases hai : a = i
        · subst hai
          have hz := h2 (a * size + t) (by omega)
          have hdec : decide (a * size ≤ a * size + t ∧ a * size + t < a * size + size) = true := by
            simp only [decide_eq_true_eq]; omega
          have hsub : a * size + t - a * size = t := by omega
          rw [hz, hdec, hsub, hgd]; simp
        · have hlt2 : a < i := by omega
          have hle2 : (a + 1) * size ≤ i * size := Nat.mul_le_mul_right size hlt2
          have hmul2 : (a + 1) * size = a * size + size := Nat.succ_mul a size
          have hdec : decide (i * size ≤ a * size + t ∧ a * size + t < i * size + size) = false := by
            simp only [decide_eq_false_iff_not]; omega
          rw [h1 a t hlt2 ht, hdec]; simp)
      (by
        intro j hj
        rw [hbit, h2 j (by omega)]
        have hdec : decide (i * size ≤ j ∧ j < i * size + size) = false := by
          simp only [decide_eq_false_iff_not]; omega
        rw [hdec]; simp)
    exact ⟨r', e1, by rw [e2, List.length_set], e3, e4, e5⟩

/-- the seven legal widths divide 64: a field never straddles a word -/
theorem width_ok {w : Nat} (hw : w ∈ [1, 2, 4, 8, 16, 32, 64]) :
    0 < w ∧ ∀ i, (i * w) % 64 + w ≤ 64 := by
  simp only [List.mem_cons, List.not_mem_nil, or_false] at hw
  rcases hw with h | h | h | h | h | h | h <;> subst h <;> exact ⟨by omega, fun i => by omega⟩

/-- reading field `i` back: `Getw` returns bits `i*w .. i*w+w-1` of the bitmap as a number -/
theorem getw_spec {r : List Nat} {w i v : Nat} (hns : (i * w) % 64 + w ≤ 64) (hlen : i * w + w ≤ 64 * r.length)
    (hpos : 0 < w) (hbits : ∀ t, t < w → bitAt r (i * w + t) = v.testBit t) :
    getw r i w = some (v % 2^w) := by
  have hk : i * w / 64 < r.length := by omega
  have hx : r[i * w / 64]? = some r[i * w / 64] := List.getElem?_eq_getElem hk
  simp only [getw, hx, Option.bind_eq_bind, Option.bind_some]
  congr 1
  apply Nat.eq_of_testBit_eq
  intro t
  rw [testBit_and_mask, Nat.testBit_shiftRight, Nat.testBit_mod_two_pow]
  by_cases ht : t < w
  · have hb := hbits t ht
    have e : i * w + t = 64 * (i * w / 64) + (i * w % 64 + t) := by omega
    rw [e, bitAt_word hx (by omega)] at hb
    simp [ht, hb]
  · simp [ht]

end Low.C14L
