import LowProofs.Lemmas.C02Spec
/- C02 helpers, part 3: the byte table and the 32/16/8 in-word search `selWord` -/
namespace Low.C02L
open Low

/-- `r` is the position of the `k`-th (from 0) 1-bit of `w` -/
def IsSel (w k r : Nat) : Prop := w.testBit r = true ∧ popc w r = k

/-! ### the byte table -/

/-- checker for one row of `select8Lookup` -/
def rowOK (b : Nat) : Bool :=
  (List.range 8).all fun k =>
    !(decide (k < popc b 8)) ||
      (let r := (sel8Row 8 b).getD k 0
       b.testBit r && popc b r == k && decide (r < 8))

/-- all 256 rows produced by the modelled init loop are correct (finite table check) -/
theorem row_all : ∀ b : Fin 256, rowOK b.val = true := by decide +kernel

theorem sel8Row_length : ∀ (n w : Nat), (sel8Row n w).length = n
  | 0, _ => rfl
  | n+1, w => by simp [sel8Row, sel8Row_length n]

theorem flatMap_getElem? {f : Nat → List Nat} (hf : ∀ x, (f x).length = 8) :
    ∀ (l : List Nat) (b k : Nat), k < 8 →
      (l.flatMap f)[b * 8 + k]? = l[b]?.bind (fun x => (f x)[k]?)
  | [], b, k, _ => by simp
  | x :: l, 0, k, hk => by
    rw [List.flatMap_cons, List.getElem?_append_left (by rw [hf]; omega)]; simp
  | x :: l, b+1, k, hk => by
    rw [List.flatMap_cons, List.getElem?_append_right (by rw [hf]; omega), hf]
    have : (b+1)*8+k-8 = b*8+k := by omega
    rw [this, flatMap_getElem? hf l b k hk]; simp

theorem sel8_row {b k : Nat} (hb : b < 256) (hk : k < 8) : sel8 (b*8+k) = (sel8Row 8 b)[k]? := by
  simp only [sel8, select8Table]
  rw [List.getElem?_toArray, flatMap_getElem? (sel8Row_length 8) _ b k hk, List.getElem?_range hb]
  rfl

theorem table_spec {b k : Nat} (hb : b < 256) (hk : k < popc b 8) :
    ∃ r, sel8 (b*8+k) = some r ∧ IsSel b k r ∧ r < 8 := by
  have hk8 : k < 8 := Nat.lt_of_lt_of_le hk (popc_le b 8)
  have h := row_all ⟨b, hb⟩
  simp only [rowOK, List.all_eq_true, List.mem_range] at h
  have h2 := h k hk8
  have hlen : k < (sel8Row 8 b).length := by rw [sel8Row_length]; exact hk8
  simp only [hk, decide_true, Bool.not_true, Bool.false_or, List.getD, List.getElem?_eq_getElem hlen,
    Option.getD_some, Bool.and_eq_true, beq_iff_eq, decide_eq_true_eq] at h2
  refine ⟨(sel8Row 8 b)[k], ?_, ⟨h2.1.1, h2.1.2⟩, h2.2⟩
  rw [sel8_row hb hk8, List.getElem?_eq_getElem hlen]

/-! ### halving steps -/

theorem isSel_high {w m k r : Nat} (h : popc w m ≤ k) (hs : IsSel (w >>> m) (k - popc w m) r) :
    IsSel w k (m + r) := by
  obtain ⟨h1, h2⟩ := hs
  rw [Nat.testBit_shiftRight] at h1
  exact ⟨h1, by rw [popc_add, h2]; omega⟩

theorem isSel_congr {w b n k r : Nat} (hbits : ∀ j, j < n → b.testBit j = w.testBit j) (hr : r < n)
    (hs : IsSel b k r) : IsSel w k r := by
  obtain ⟨h1, h2⟩ := hs
  refine ⟨by rw [← hbits r hr]; exact h1, ?_⟩
  rw [← h2]; exact (popc_congr (fun j hj => hbits j (by omega))).symm

theorem isSel_lt {w k r n : Nat} (hs : IsSel w k r) (hk : k < popc w n) : r < n := by
  rcases Nat.lt_or_ge r n with h | h
  · exact h
  · have := popc_mono w h
    rw [hs.2] at this; omega

/-! ### table index arithmetic -/

theorem idx_lo (ww k : Nat) (hk : k < 8) : ((ww &&& 0xff) <<< 3) ||| k = (ww % 256) * 8 + k := by
  have e : ww &&& 0xff = ww % 256 := Nat.and_two_pow_sub_one_eq_mod ww 8
  rw [e, ← Nat.shiftLeft_add_eq_or_of_lt (i := 3) hk, Nat.shiftLeft_eq]

theorem idx_hi (ww k : Nat) (hk : k < 8) :
    ((ww >>> 5) &&& 0x7f8) ||| k = ((ww >>> 8) % 256) * 8 + k := by
  have e : (ww >>> 5) &&& 0x7f8 = ((ww >>> 8) % 256) <<< 3 := by
    have e1 : (0x7f8 : Nat) = (2^8 - 1) <<< 3 := by decide
    have e2 : (256 : Nat) = 2^8 := by decide
    rw [e1, e2]
    apply Nat.eq_of_testBit_eq
    intro j
    simp only [Nat.testBit_and, Nat.testBit_shiftRight, Nat.testBit_shiftLeft,
      Nat.testBit_two_pow_sub_one, Nat.testBit_mod_two_pow]
    by_cases hj : 3 ≤ j
    · have e3 : 8 + (j - 3) = 5 + j := by omega
      simp [hj, e3, Bool.and_comm]
    · simp [hj]
  rw [e, ← Nat.shiftLeft_add_eq_or_of_lt (i := 3) hk, Nat.shiftLeft_eq]

theorem testBit_mod_256 (x j : Nat) (hj : j < 8) : (x % 256).testBit j = x.testBit j := by
  have e2 : (256 : Nat) = 2^8 := by decide
  rw [e2, Nat.testBit_mod_two_pow]; simp [hj]

/-! ### `selWord`, restructured -/

def selTail (ww f base : Nat) : Option Nat :=
  if popc ww 8 ≤ f then
    (sel8 (((ww >>> 5) &&& 0x7f8) ||| (f - popc ww 8))).bind fun v => some (v + base + 8)
  else
    (sel8 (((ww &&& 0xff) <<< 3) ||| f)).bind fun v => some (v + base)

def selMid (ww f base : Nat) : Option Nat :=
  if popc ww 16 ≤ f then selTail (ww >>> 16) (f - popc ww 16) (base ||| 16) else selTail ww f base

theorem selWord_eq (w f : Nat) :
    selWord w f = if popc w 32 ≤ f then selMid (w >>> 32) (f - popc w 32) 32 else selMid w f 0 := by
  by_cases h1 : popc w 32 ≤ f
  · by_cases h2 : popc (w >>> 32) 16 ≤ f - popc w 32
    · simp only [selWord, selMid, selTail, h1, h2, if_true, Option.bind_eq_bind]
    · simp only [selWord, selMid, selTail, h1, h2, if_true, if_false, Option.bind_eq_bind]
  · by_cases h2 : popc w 16 ≤ f
    · simp only [selWord, selMid, selTail, h1, h2, if_true, if_false, Option.bind_eq_bind]
    · simp only [selWord, selMid, selTail, h1, h2, if_false, Option.bind_eq_bind]

theorem selTail_spec {ww f : Nat} (base : Nat) (h : f < popc ww 16) :
    ∃ r, selTail ww f base = some (r + base) ∧ IsSel ww f r ∧ r < 16 := by
  have hsplit : popc ww 16 = popc ww 8 + popc (ww >>> 8) 8 := popc_add ww 8 8
  unfold selTail
  by_cases h8 : popc ww 8 ≤ f
  · have hk : f - popc ww 8 < popc ((ww >>> 8) % 256) 8 := by
      rw [popc_congr (fun j hj => testBit_mod_256 (ww >>> 8) j hj)]; omega
    have hk8 : f - popc ww 8 < 8 := Nat.lt_of_lt_of_le hk (popc_le _ 8)
    obtain ⟨r, hr, hs, hr8⟩ := table_spec (Nat.mod_lt _ (by decide)) hk
    rw [if_pos h8, idx_hi _ _ hk8, hr]
    refine ⟨8 + r, by simp; omega, ?_, by omega⟩
    exact isSel_high h8 (isSel_congr (fun j hj => testBit_mod_256 _ j hj) hr8 hs)
  · have hk : f < popc (ww % 256) 8 := by
      rw [popc_congr (fun j hj => testBit_mod_256 ww j hj)]; omega
    have hk8 : f < 8 := Nat.lt_of_lt_of_le hk (popc_le _ 8)
    obtain ⟨r, hr, hs, hr8⟩ := table_spec (Nat.mod_lt _ (by decide)) hk
    rw [if_neg h8, idx_lo _ _ hk8, hr]
    refine ⟨r, by simp, ?_, by omega⟩
    exact isSel_congr (fun j hj => testBit_mod_256 _ j hj) hr8 hs

theorem selMid_spec {ww f base : Nat} (hb : base = 0 ∨ base = 32) (h : f < popc ww 32) :
    ∃ r, selMid ww f base = some (r + base) ∧ IsSel ww f r ∧ r < 32 := by
  have hsplit : popc ww 32 = popc ww 16 + popc (ww >>> 16) 16 := popc_add ww 16 16
  have hor : base ||| 16 = base + 16 := by rcases hb with rfl | rfl <;> decide
  unfold selMid
  by_cases h16 : popc ww 16 ≤ f
  · obtain ⟨r, hr, hs, hlt⟩ := selTail_spec (base ||| 16) (ww := ww >>> 16) (f := f - popc ww 16) (by omega)
    rw [if_pos h16, hr, hor]
    exact ⟨16 + r, by simp; omega, isSel_high h16 hs, by omega⟩
  · obtain ⟨r, hr, hs, hlt⟩ := selTail_spec base (ww := ww) (f := f) (by omega)
    rw [if_neg h16, hr]
    exact ⟨r, rfl, hs, by omega⟩

/-- in-word select: for `f` below the popcount, `selWord` does not panic and returns the
    position of the `f`-th 1-bit of `w` -/
theorem selWord_spec {w f : Nat} (h : f < popc w 64) :
    ∃ r, selWord w f = some r ∧ IsSel w f r ∧ r < 64 := by
  have hsplit : popc w 64 = popc w 32 + popc (w >>> 32) 32 := popc_add w 32 32
  rw [selWord_eq]
  by_cases h32 : popc w 32 ≤ f
  · obtain ⟨r, hr, hs, hlt⟩ := selMid_spec (Or.inr rfl) (ww := w >>> 32) (f := f - popc w 32) (by omega)
    rw [if_pos h32, hr]
    exact ⟨32 + r, by simp; omega, isSel_high h32 hs, by omega⟩
  · obtain ⟨r, hr, hs, hlt⟩ := selMid_spec (Or.inl rfl) (ww := w) (f := f) (by omega)
    rw [if_neg h32, hr]
    exact ⟨r, rfl, hs, by omega⟩

end Low.C02L
