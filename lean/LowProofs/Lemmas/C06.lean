import LowModel
/-
  Helper lemmas for C06/C07 (pbcmpl framing): little-endian round trip, version padding,
  int64 conversion, `readFull` on a reader whose available bytes start with a known block,
  and the layout of the 32-byte header.
-/
namespace Low.C06L
open Low

/-! ### le64 / unle -/

theorem le64_length (x : Nat) : (le64 x).length = 8 := by simp [le64]

theorem le64_bytesOK (x : Nat) : BytesOK (le64 x) := by
  intro b hb
  simp only [le64, List.mem_map] at hb
  obtain ⟨j, _, rfl⟩ := hb
  exact Nat.mod_lt _ (by decide)

theorem le64_eq (x : Nat) : le64 x =
    [x % 256, x / 256 % 256, x / 65536 % 256, x / 16777216 % 256, x / 4294967296 % 256,
     x / 1099511627776 % 256, x / 281474976710656 % 256, x / 72057594037927936 % 256] := by
  simp [le64, List.range, List.range.loop, Nat.shiftRight_eq_div_pow]

/-- decoding the 8 little-endian bytes of a uint64 gives the value back -/
theorem unle_le64 (x : Nat) (h : x < 2 ^ 64) : unle (le64 x) = x := by
  rw [le64_eq]
  simp only [unle]
  omega

theorem unle_lt : ∀ (l : List Nat), BytesOK l → unle l < 256 ^ l.length
  | [], _ => by simp [unle]
  | b :: r, h => by
    have hb : b < 256 := h b (by simp)
    have hr := unle_lt r (fun c hc => h c (by simp [hc]))
    simp only [unle, List.length_cons, Nat.pow_succ]
    generalize 256 ^ r.length = p at hr ⊢
    omega

/-! ### version field -/

theorem dropWhile_replicate_zero (k : Nat) (l : List Nat) :
    (List.replicate k 0 ++ l).dropWhile (· = 0) = l.dropWhile (· = 0) := by
  induction k with
  | zero => simp
  | succ k ih => simp [List.replicate_succ, ih]

/-- `verStr` of a version padded with NULs is the version, unless the version itself ends in NUL -/
theorem verStr_pad (ver : List Nat) (k : Nat) (h : ver.getLast? ≠ some 0) :
    verStr (ver ++ List.replicate k 0) = ver := by
  unfold verStr
  rw [List.reverse_append, List.reverse_replicate, dropWhile_replicate_zero]
  rw [List.getLast?_eq_head?_reverse] at h
  have key : ver.reverse.dropWhile (· = 0) = ver.reverse := by
    cases hr : ver.reverse with
    | nil => rfl
    | cons a t =>
      rw [hr] at h
      have ha : a ≠ 0 := by simpa using h
      simp [ha]
  rw [key, List.reverse_reverse]

/-- in general `verStr` of the padded version is `verStr` of the version (trailing NULs are lost) -/
theorem verStr_pad_gen (ver : List Nat) (k : Nat) :
    verStr (ver ++ List.replicate k 0) = verStr ver := by
  unfold verStr
  rw [List.reverse_append, List.reverse_replicate, dropWhile_replicate_zero]

/-! ### int64 conversion -/

theorem wrap64_nat (n : Nat) (h : n < 2 ^ 63) : wrap64 (n : Int) = (n : Int) := by
  unfold wrap64; simp only [M64]; split <;> omega

/-! ### header layout -/

def pad16 (ver : List Nat) : List Nat := ver ++ List.replicate (16 - ver.length) 0

theorem pad16_length (ver : List Nat) (h : ver.length ≤ 16) : (pad16 ver).length = 16 := by
  simp [pad16]; omega

theorem pbHeader_eq (ver : List Nat) (bs : Nat) (h : ver.length ≤ 16) :
    pbHeader ver bs = some (pad16 ver ++ le64 32 ++ le64 bs) := by
  simp [pbHeader, pad16]; omega

theorem pbHeader_length {ver : List Nat} {bs : Nat} {h : List Nat} (hh : pbHeader ver bs = some h) :
    h.length = 32 := by
  unfold pbHeader at hh
  split at hh
  · cases hh
  · cases hh; simp [le64_length]; omega

theorem pbHeader_some_iff (ver : List Nat) (bs : Nat) :
    (∃ h, pbHeader ver bs = some h) ↔ ver.length ≤ 16 := by
  unfold pbHeader
  constructor
  · rintro ⟨h, hh⟩; split at hh
    · cases hh
    · omega
  · intro h; exact ⟨_, by rw [if_neg (by omega)]⟩

theorem pbFrame_eq (ver body : List Nat) (h : ver.length ≤ 16) :
    pbFrame ver body = some (pad16 ver ++ le64 32 ++ le64 body.length ++ body) := by
  simp [pbFrame, pbHeader_eq ver body.length h]

theorem pbFrame_some {ver body frame : List Nat} (hf : pbFrame ver body = some frame) :
    ver.length ≤ 16 ∧ frame = pad16 ver ++ le64 32 ++ le64 body.length ++ body := by
  by_cases h : ver.length ≤ 16
  · rw [pbFrame_eq ver body h] at hf; cases hf; exact ⟨h, rfl⟩
  · have : pbHeader ver body.length = none := by simp [pbHeader]; omega
    simp [pbFrame, this] at hf

theorem frame_length (ver body : List Nat) (h : ver.length ≤ 16) :
    (pad16 ver ++ le64 32 ++ le64 body.length ++ body).length = 32 + body.length := by
  simp [pad16_length ver h, le64_length]; omega

/-- fields of a 32-byte block `p(16) ++ a(8) ++ b(8)` -/
theorem fields {p a b : List Nat} (hp : p.length = 16) (ha : a.length = 8) (hb : b.length = 8) :
    (p ++ a ++ b).take 16 = p ∧ ((p ++ a ++ b).drop 16).take 8 = a ∧ ((p ++ a ++ b).drop 24).take 8 = b := by
  refine ⟨?_, ?_, ?_⟩
  · rw [List.append_assoc, List.take_left' hp]
  · rw [List.append_assoc, List.drop_left' hp, List.take_left' ha]
  · rw [List.drop_left' (by simp [hp, ha]), List.take_of_length_le (by omega)]

/-! ### readFull -/

/-- a reader that has (at least) the `n` bytes `a` available delivers exactly them -/
theorem readFull_append (a rest : List Nat) (e : PbErr) :
    readFull ⟨a ++ rest, e⟩ a.length = (a, none, ⟨rest, e⟩) := by
  unfold readFull
  by_cases h0 : a.length = 0
  · have : a = [] := List.eq_nil_of_length_eq_zero h0
    subst this; simp
  · simp [h0]

/-- a reader with fewer than `n` bytes delivers all of them and its end error
    (`eof` becomes `unexpectedEOF` when at least one byte was delivered) -/
theorem readFull_short (a : List Nat) (e : PbErr) (n : Nat) (h : a.length < n) :
    readFull ⟨a, e⟩ n =
      (a, some (if e = .eof then (if a.length = 0 then .eof else .unexpectedEOF) else e), ⟨[], e⟩) := by
  unfold readFull
  have h0 : n ≠ 0 := by omega
  have h1 : ¬ a.length ≥ n := by omega
  simp [h0, h1]

/-- shape of any `readFull` result -/
theorem readFull_cases (r : PbReader) (n : Nat) :
    (readFull r n = (r.avail.take n, none, ⟨r.avail.drop n, r.endErr⟩) ∧ n ≤ r.avail.length) ∨
    (∃ err, readFull r n = (r.avail, some err, ⟨[], r.endErr⟩) ∧ r.avail.length < n) := by
  unfold readFull
  by_cases h0 : n = 0
  · subst h0; left; simp
  · by_cases h1 : r.avail.length ≥ n
    · left; simp [h0, h1]
    · right; simp [h0, h1]; omega

/-! ### pbReadHeader / pbUnmarshal on a stream that starts with 32 known bytes -/

/-- the three header fields as `pbReadHeader` decodes them from a 32-byte block -/
def hdrInfo (hdr : List Nat) : PbHeaderInfo :=
  ⟨verStr (hdr.take 16), wrap64 (unle ((hdr.drop 16).take 8)), wrap64 (unle ((hdr.drop 24).take 8))⟩

theorem pbReadHeader_hdr (hdr rest : List Nat) (e : PbErr) (h : hdr.length = 32) :
    pbReadHeader ⟨hdr ++ rest, e⟩ = (32, some (hdrInfo hdr), none, ⟨rest, e⟩) := by
  have := readFull_append hdr rest e
  rw [h] at this
  simp only [pbReadHeader, this, h, hdrInfo]

theorem pbReadHeader_short (a : List Nat) (e : PbErr) (h : a.length < 32) :
    pbReadHeader ⟨a, e⟩ =
      (a.length, none, some (if e = .eof then (if a.length = 0 then .eof else .unexpectedEOF) else e), ⟨[], e⟩) := by
  simp only [pbReadHeader, readFull_short a e 32 h]

/-- `pbUnmarshal` once `pbReadHeader` has succeeded, in terms of the decoded fields
    (stated for an abstract `hi` so that the kernel never unfolds the field decoders) -/
theorem pbUnmarshal_of_header (r r' : PbReader) (n : Nat) (hi : PbHeaderInfo)
    (hh : pbReadHeader r = (n, some hi, none, r')) :
    pbUnmarshal r =
      if hi.headerSize ≠ 32 then ⟨n, hi.ver, none, some .invalidHeaderSize, r'⟩ else
      if hi.bodySize < 0 then ⟨n, hi.ver, none, some .invalidBodySize, r'⟩ else
      match readFull r' hi.bodySize.toNat with
      | (b, some err, r'') => ⟨n + b.length, hi.ver, none, some err, r''⟩
      | (b, none, r'') => ⟨n + b.length, hi.ver, some b, none, r''⟩ := by
  unfold pbUnmarshal; rw [hh]
  simp only []
  split
  · rfl
  · split
    · rfl
    · rcases hq : readFull r' hi.bodySize.toNat with ⟨b, err, r''⟩
      cases err <;> rfl

theorem pbUnmarshal_hdr (hdr rest : List Nat) (e : PbErr) (h : hdr.length = 32) :
    pbUnmarshal ⟨hdr ++ rest, e⟩ =
      if (hdrInfo hdr).headerSize ≠ 32 then ⟨32, (hdrInfo hdr).ver, none, some .invalidHeaderSize, ⟨rest, e⟩⟩ else
      if (hdrInfo hdr).bodySize < 0 then ⟨32, (hdrInfo hdr).ver, none, some .invalidBodySize, ⟨rest, e⟩⟩ else
      match readFull ⟨rest, e⟩ (hdrInfo hdr).bodySize.toNat with
      | (b, some err, r'') => ⟨32 + b.length, (hdrInfo hdr).ver, none, some err, r''⟩
      | (b, none, r'') => ⟨32 + b.length, (hdrInfo hdr).ver, some b, none, r''⟩ :=
  pbUnmarshal_of_header _ _ _ _ (pbReadHeader_hdr hdr rest e h)

theorem pbUnmarshal_short (a : List Nat) (e : PbErr) (h : a.length < 32) :
    pbUnmarshal ⟨a, e⟩ =
      ⟨a.length, [], none, some (if e = .eof then (if a.length = 0 then .eof else .unexpectedEOF) else e), ⟨[], e⟩⟩ := by
  simp only [pbUnmarshal, pbReadHeader_short a e h]

theorem hdrInfo_frame_raw (ver : List Nat) (bs : Nat) (hv : ver.length ≤ 16) :
    hdrInfo (pad16 ver ++ le64 32 ++ le64 bs) =
      ⟨verStr (pad16 ver), wrap64 (unle (le64 32)), wrap64 (unle (le64 bs))⟩ := by
  obtain ⟨f1, f2, f3⟩ := fields (pad16_length ver hv) (le64_length 32) (le64_length bs)
  unfold hdrInfo; rw [f1, f2, f3]

/-- the header of a frame decodes to (verStr ver, 32, |body|) -/
theorem hdrInfo_frame (ver : List Nat) (bs : Nat) (hv : ver.length ≤ 16) (hb : bs < 2 ^ 63) :
    hdrInfo (pad16 ver ++ le64 32 ++ le64 bs) = ⟨verStr ver, 32, (bs : Int)⟩ := by
  rw [hdrInfo_frame_raw ver bs hv]
  rw [unle_le64 32 (by omega), unle_le64 bs (by omega), wrap64_nat bs hb, wrap64_nat 32 (by omega)]
  simp [pad16, verStr_pad_gen]

/-! ### the writer and pbMarshal -/

theorem wWrite_fit (m : Bool) (cap : Nat) (p : List Nat) (h : p.length ≤ cap) :
    wWrite m cap p = (p.length, false) := by simp [wWrite, h]

theorem wWrite_nofit (m : Bool) (cap : Nat) (p : List Nat) (h : cap < p.length) :
    wWrite m cap p = (if m then 0 else cap, true) := by
  have : ¬ p.length ≤ cap := by omega
  cases m <;> simp [wWrite, this]

theorem pbMarshal_fit {m : Bool} {cap : Nat} {ver body h : List Nat}
    (hh : pbHeader ver body.length = some h) (hc : 32 + body.length ≤ cap) :
    pbMarshal m cap ver body = some (32 + body.length, false, h ++ body) := by
  have hl := pbHeader_length hh
  simp only [pbMarshal, hh, wWrite_fit m cap h (by omega), wWrite_fit m (cap - h.length) body (by omega)]
  simp [hl]

theorem pbMarshal_hdrfail {m : Bool} {cap : Nat} {ver body h : List Nat}
    (hh : pbHeader ver body.length = some h) (hc : cap < 32) :
    pbMarshal m cap ver body = some (if m then 0 else cap, true, h.take (if m then 0 else cap)) := by
  have hl := pbHeader_length hh
  simp only [pbMarshal, hh, wWrite_nofit m cap h (by omega)]
  simp

theorem pbMarshal_bodyfail {m : Bool} {cap : Nat} {ver body h : List Nat}
    (hh : pbHeader ver body.length = some h) (hc : 32 ≤ cap) (hc2 : cap < 32 + body.length) :
    pbMarshal m cap ver body =
      some (32 + (if m then 0 else cap - 32), true, h ++ body.take (if m then 0 else cap - 32)) := by
  have hl := pbHeader_length hh
  simp only [pbMarshal, hh, wWrite_fit m cap h (by omega), wWrite_nofit m (cap - h.length) body (by omega)]
  simp [hl]

end Low.C06L
