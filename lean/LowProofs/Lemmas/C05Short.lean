import LowProofs.Lemmas.C05Loop
/-
  C05, part 4: phase A, the common-prefix shortcut taken for heights > 4, and the assembly.
  With `D = bitlen((idx - h) xor idx)` and `f = h + 1 - D > 0`: `idx ≥ h`, the top `f` bits
  `A = idx >>> D` of `idx` are the first `f` branches of `nodeAt h idx`, and the remaining index is
  `idx % 2^D - f + popcount A`.
-/
namespace Low.C05L
open Low

/-- the state `indexToPath` hands to the loop (the text of the model up to the loop) -/
def pre (th : Nat) (index : Int) : Nat × Nat × Int :=
  let msk0 := shl64 0x0100000001 th
  if th > 4 then
    let i1 := wrap32 (index - th)
    let i2 := index
    let diffbits : Int := 32 - (lz (u32 i1 ^^^ u32 i2) 32 : Int)
    let fixed : Int := (th : Int) + 1 - diffbits
    if fixed > 0 then
      let m := sub64 (shl64 msk0 1) (shl64 0x0100000001 diffbits.toNat)
      let p2 := ((shl64 (u64 index) 32) ||| 0xffffffff) &&& m
      let mLo := m % M32
      let nmLo := (not64 m) % M32
      let index' := wrap32 (wrap32 ((u32 index &&& nmLo : Nat) : Int) - fixed
                      + (popc (u32 index &&& mLo) 32 : Int))
      (p2, msk0 >>> fixed.toNat, index')
    else (0, msk0, index)
  else (0, msk0, index)

theorem indexToPath_of_pre {th : Nat} {index : Int} {p2 msk : Nat} {i : Int}
    (h : pre th index = (p2, msk, i)) : indexToPath th index = fin (i2pLoop 64 p2 msk i) := by
  have e : indexToPath th index =
      (match pre th index with | (p2, msk, index) => fin (i2pLoop 64 p2 msk index)) := by
    unfold indexToPath pre fin
    rfl
  rw [e, h]

theorem u32_lt (x : Int) : u32 x < 2 ^ 32 := by
  unfold u32; simp only [M32]; omega

/-! ### leading zeros -/

theorem bitLen_le (w : Nat) : ∀ n, bitLen w n ≤ n
  | 0 => Nat.le_refl _
  | n + 1 => by
    have := bitLen_le w n
    simp only [bitLen]; split <;> omega

theorem lt_two_pow_bitLen (w : Nat) : ∀ n, w < 2 ^ n → w < 2 ^ bitLen w n
  | 0, h => h
  | n + 1, h => by
    simp only [bitLen]
    split
    · exact h
    · rename_i hb
      apply lt_two_pow_bitLen w n
      apply Decidable.by_contra; intro hge
      exact hb (Nat.testBit_of_two_pow_le_and_two_pow_add_one_gt (by omega) h)

theorem diffbits_eq (x : Nat) : (32 : Int) - ((lz x 32 : Nat) : Int) = ((bitLen x 32 : Nat) : Int) := by
  have := bitLen_le x 32
  unfold lz; omega

theorem shiftRight_eq_of_xor_lt {x y D : Nat} (h : x ^^^ y < 2 ^ D) : x >>> D = y >>> D := by
  apply Nat.eq_of_testBit_eq; intro k
  rw [Nat.testBit_shiftRight, Nat.testBit_shiftRight]
  have hk : (x ^^^ y).testBit (D + k) = false :=
    Nat.testBit_lt_two_pow (Nat.lt_of_lt_of_le h (pow_le_pow (by omega)))
  rw [Nat.testBit_xor] at hk
  cases hx : x.testBit (D + k) <;> cases hy : y.testBit (D + k) <;> simp [hx, hy] at hk ⊢

/-! ### the constants of the shortcut -/

theorem msk0_eq {h : Nat} (hh : h ≤ 30) : shl64 0x0100000001 h = mskR h := by
  have hp := pow_lt_32 hh
  unfold shl64
  rw [if_pos (by omega)]
  simp only [mskR, W, Nat.shiftLeft_eq, M64]
  generalize 2 ^ h = P at *
  omega

/-- `m = (mask << 1) - (0x0100000001 << D)` has bits `[D, h]` of each half -/
theorem m_eq {h D : Nat} (hh : h ≤ 30) (hD : D ≤ h) :
    sub64 (shl64 (mskR h) 1) (shl64 0x0100000001 D) = W (2 ^ (h + 1) - 2 ^ D) (2 ^ (h + 1) - 2 ^ D) := by
  have hp := pow_lt_32 hh
  have hq := pow_le_pow hD
  have hq0 := Nat.two_pow_pos D
  unfold shl64 sub64
  rw [if_pos (by omega), if_pos (by omega)]
  simp only [mskR, W, Nat.shiftLeft_eq, M64, Nat.pow_succ]
  generalize 2 ^ h = P at *
  generalize 2 ^ D = Q at *
  omega

theorem mskR_shr {r f : Nat} : mskR (r + f) >>> f = mskR r := by
  simp only [mskR, W, Nat.shiftRight_eq_div_pow, Nat.pow_add]
  have e : 2 ^ 32 * (2 ^ r * 2 ^ f) + 2 ^ r * 2 ^ f = (2 ^ 32 * 2 ^ r + 2 ^ r) * 2 ^ f := by
    rw [Nat.add_mul, Nat.mul_assoc]
  rw [e, Nat.mul_div_cancel _ (Nat.two_pow_pos f)]

/-! ### the index when the shortcut is taken -/

/-- when the shortcut is taken (`D ≤ h`) no int32 wrap-around happened (`idx ≥ h`), and the low `D`
    bits of `idx` are at least `h` -/
theorem short_facts {h idx D : Nat} (hh : h ≤ 30) (hi : idx < 2 ^ (h + 1) - 1) (hD : D ≤ h)
    (hx : u32 (wrap32 ((idx : Int) - (h : Int))) ^^^ u32 (idx : Int) < 2 ^ D) :
    h ≤ idx ∧ h ≤ idx % 2 ^ D := by
  have hp := pow_lt_32 hh
  have hp1 : 2 ^ (h + 1) = 2 * 2 ^ h := by rw [Nat.pow_succ]; omega
  have hi31 : idx < 2147483648 := by omega
  have hq : 2 ^ D ≤ 2 ^ h := pow_le_pow hD
  rw [u32_nat (by omega)] at hx
  by_cases hlt : idx < h
  · exfalso
    have hw : wrap32 ((idx : Int) - (h : Int)) = (idx : Int) - (h : Int) :=
      wrap32_id (by omega) (by omega)
    have hu : u32 ((idx : Int) - (h : Int)) = 4294967296 + idx - h := by
      unfold u32; simp only [M32]; omega
    rw [hw, hu] at hx
    have h31 : (4294967296 + idx - h ^^^ idx) ^^^ idx < 2 ^ 31 :=
      Nat.xor_lt_two_pow (by omega) (by omega)
    rw [Nat.xor_assoc, Nat.xor_self, Nat.xor_zero] at h31
    omega
  · have hw : wrap32 ((idx : Int) - (h : Int)) = ((idx - h : Nat) : Int) := by
      rw [wrap32_id (by omega) (by omega)]; omega
    rw [hw, u32_nat (by omega)] at hx
    have hs := shiftRight_eq_of_xor_lt hx
    rw [Nat.shiftRight_eq_div_pow, Nat.shiftRight_eq_div_pow] at hs
    have h1 := Nat.div_add_mod idx (2 ^ D)
    have h2 := Nat.div_add_mod (idx - h) (2 ^ D)
    rw [hs] at h2
    generalize 2 ^ D * (idx / 2 ^ D) = Q at *
    refine ⟨by omega, by omega⟩

/-! ### the bit operations of the shortcut -/

/-- `index & m` keeps bits `[D, h]` -/
theorem and_M {h idx D : Nat} (hD : D ≤ h) (hi : idx < 2 ^ (h + 1)) :
    idx &&& (2 ^ (h + 1) - 2 ^ D) = (idx >>> D) * 2 ^ D := by
  apply Nat.eq_of_testBit_eq; intro k
  rw [Nat.testBit_and, testBit_pow_sub_pow (by omega), Nat.testBit_mul_two_pow,
    Nat.testBit_shiftRight]
  by_cases h1 : D ≤ k
  · have e : D + (k - D) = k := by omega
    by_cases h2 : k < h + 1
    · simp [h1, h2, e]
    · have : idx.testBit k = false :=
        Nat.testBit_lt_two_pow (Nat.lt_of_lt_of_le hi (pow_le_pow (by omega)))
      simp [h1, h2, this]
  · simp [h1]

/-- `index & int32(^m)` keeps bits `[0, D)` -/
theorem and_notM {h idx D : Nat} (hh : h ≤ 30) (hD : D ≤ h) (hi : idx < 2 ^ (h + 1)) :
    idx &&& (not64 (W (2 ^ (h + 1) - 2 ^ D) (2 ^ (h + 1) - 2 ^ D)) % M32) = idx % 2 ^ D := by
  have hM : 2 ^ (h + 1) - 2 ^ D < 2 ^ 32 := by
    have := pow_le_pow (show h + 1 ≤ 32 by omega)
    have := Nat.two_pow_pos D
    omega
  have e32 : M32 = 2 ^ 32 := by decide
  have e64 : M64 - 1 = 2 ^ 64 - 1 := by decide
  apply Nat.eq_of_testBit_eq; intro k
  unfold not64
  rw [e32, e64, Nat.testBit_and, Nat.testBit_mod_two_pow, Nat.testBit_xor,
    Nat.testBit_two_pow_sub_one, W_testBit hM, Nat.testBit_mod_two_pow]
  by_cases h1 : k < D
  · have h2 : k < 32 := by omega
    have h3 : k < 64 := by omega
    have h4 : ¬ D ≤ k := by omega
    simp [h1, h2, h3, h4, testBit_pow_sub_pow (show D ≤ h + 1 by omega)]
  · by_cases h2 : k < h + 1
    · have h3 : k < 32 := by omega
      have h4 : k < 64 := by omega
      have h5 : D ≤ k := by omega
      simp [h1, h2, h3, h4, h5, testBit_pow_sub_pow (show D ≤ h + 1 by omega)]
    · have : idx.testBit k = false :=
        Nat.testBit_lt_two_pow (Nat.lt_of_lt_of_le hi (pow_le_pow (by omega)))
      simp [h1, this]

theorem popc_shifted {A D f : Nat} (hA : A < 2 ^ f) (hf : D + f ≤ 32) :
    popc (A * 2 ^ D) 32 = popc A f := by
  have e : popc (A * 2 ^ D) 32 = popc (A * 2 ^ D) (D + (32 - D)) := by congr 1; omega
  have h0 : popc (A * 2 ^ D) D = 0 := by
    rw [popc_congr (b := 0) (fun k hk => by
      rw [Nat.testBit_mul_two_pow]
      have : ¬ D ≤ k := by omega
      simp [this]), popc_zero]
  rw [e, popc_add, h0, Nat.shiftRight_eq_div_pow, Nat.mul_div_cancel _ (Nat.two_pow_pos D),
    popc_lt_two_pow hA (32 - D) (by omega), Nat.zero_add]

/-- the state after the shortcut, when it is taken -/
theorem pre_short {h idx D : Nat} (h5 : 4 < h) (hh : h ≤ 30) (hi : idx < 2 ^ (h + 1) - 1)
    (hDdef : bitLen (u32 (wrap32 ((idx : Int) - (h : Int))) ^^^ u32 (idx : Int)) 32 = D) (hD : D ≤ h) :
    pre h (idx : Int) =
      (W ((idx >>> D) * 2 ^ D) (2 ^ (h + 1) - 2 ^ D), mskR (D - 1),
        ((idx % 2 ^ D - (h + 1 - D) + popc (idx >>> D) (h + 1 - D) : Nat) : Int)) := by
  have hp := pow_lt_32 hh
  have hp1 : 2 ^ (h + 1) = 2 * 2 ^ h := by rw [Nat.pow_succ]; omega
  have hi31 : idx < 2147483648 := by omega
  have hx : u32 (wrap32 ((idx : Int) - (h : Int))) ^^^ u32 (idx : Int) < 2 ^ D := by
    rw [← hDdef]
    exact lt_two_pow_bitLen _ 32 (Nat.xor_lt_two_pow (u32_lt _) (u32_lt _))
  obtain ⟨hge, hR⟩ := short_facts hh hi hD hx
  have hq : 2 ^ D ≤ 2 ^ h := pow_le_pow hD
  have hRlt : idx % 2 ^ D < 2 ^ D := Nat.mod_lt _ (Nat.two_pow_pos D)
  have hD1 : 1 ≤ D := by
    apply Decidable.by_contra; intro h0
    have : D = 0 := by omega
    subst this; simp at hRlt; omega
  have hfix : ((h : Int) + 1 - ((D : Nat) : Int)) > 0 := by omega
  have hfn : ((h : Int) + 1 - ((D : Nat) : Int)).toNat = h + 1 - D := by omega
  have hM : 2 ^ (h + 1) - 2 ^ D < 2 ^ 32 := by
    have := Nat.two_pow_pos D
    omega
  have hA : idx >>> D < 2 ^ (h + 1 - D) := by
    rw [Nat.shiftRight_eq_div_pow]
    apply Nat.div_lt_of_lt_mul
    rw [← Nat.pow_add, show D + (h + 1 - D) = h + 1 by omega]; omega
  have e2 : W idx 0xffffffff &&& W (2 ^ (h + 1) - 2 ^ D) (2 ^ (h + 1) - 2 ^ D) =
      W ((idx >>> D) * 2 ^ D) (2 ^ (h + 1) - 2 ^ D) := by
    rw [W_and (by decide) hM, and_M hD (by omega)]
    congr 1
    rw [Nat.and_comm, show (0xffffffff : Nat) = 2 ^ 32 - 1 by decide,
      Nat.and_two_pow_sub_one_of_lt_two_pow hM]
  have e3 : mskR h >>> (h + 1 - D) = mskR (D - 1) := by
    have := @mskR_shr (D - 1) (h + 1 - D)
    rwa [show D - 1 + (h + 1 - D) = h by omega] at this
  have e6 : W (2 ^ (h + 1) - 2 ^ D) (2 ^ (h + 1) - 2 ^ D) % M32 = 2 ^ (h + 1) - 2 ^ D := W_mod hM _
  have e7 : popc ((idx >>> D) * 2 ^ D) 32 = popc (idx >>> D) (h + 1 - D) :=
    popc_shifted hA (by omega)
  have hpc := popc_le (idx >>> D) (h + 1 - D)
  have e8 : wrap32 (wrap32 ((idx % 2 ^ D : Nat) : Int) - ((h : Int) + 1 - ((D : Nat) : Int))
        + ((popc (idx >>> D) (h + 1 - D) : Nat) : Int)) =
      ((idx % 2 ^ D - (h + 1 - D) + popc (idx >>> D) (h + 1 - D) : Nat) : Int) := by
    rw [wrap32_id (x := ((idx % 2 ^ D : Nat) : Int)) (by omega) (by omega),
      wrap32_id (by omega) (by omega)]
    omega
  have hDdef' := hDdef
  rw [u32_nat (show idx < 4294967296 by omega)] at hDdef'
  unfold pre
  simp only [if_pos h5, diffbits_eq, hDdef', hfix, if_true, Int.toNat_natCast, hfn, msk0_eq hh,
    m_eq hh hD, idxWord hi31, e2, e3, u32_nat (show idx < 4294967296 by omega), and_notM hh hD
    (show idx < 2 ^ (h + 1) by omega), e6, and_M hD (show idx < 2 ^ (h + 1) by omega), e7, e8]

/-- the state when the shortcut is not taken -/
theorem pre_noshort {h idx : Nat} (hh : h ≤ 30)
    (hno : ¬ (4 < h ∧ bitLen (u32 (wrap32 ((idx : Int) - (h : Int))) ^^^ u32 (idx : Int)) 32 ≤ h)) :
    pre h (idx : Int) = (0, mskR h, (idx : Int)) := by
  unfold pre
  by_cases h5 : h > 4
  · have hfix : ¬ ((h : Int) + 1 -
        ((bitLen (u32 (wrap32 ((idx : Int) - (h : Int))) ^^^ u32 (idx : Int)) 32 : Nat) : Int) > 0) := by
      omega
    simp only [if_pos h5, diffbits_eq, hfix, if_false, msk0_eq hh]
  · simp only [if_neg h5, msk0_eq hh]

/-- the copied prefix, shifted into place, is the path word of the first `f` branches -/
theorem assemble {f D' A : Nat} {rest : List Bool} (hA : A < 2 ^ f) (hrest : rest.length ≤ D')
    (h32 : f + D' ≤ 31) :
    W (A * 2 ^ (D' + 1)) (2 ^ (f + D' + 1) - 2 ^ (D' + 1)) >>> 1 ||| encPath D' rest =
      encPath (f + D') (topBits f A ++ rest) := by
  rw [encPath_append (topBits_length f A) hrest (by omega), bitsVal_topBits, Nat.mod_eq_of_lt hA]
  congr 1
  have e1 : A * 2 ^ (D' + 1) = 2 * (A * 2 ^ D') := by
    rw [Nat.pow_succ, ← Nat.mul_assoc, Nat.mul_comm]
  have e2 : 2 ^ (f + D' + 1) - 2 ^ (D' + 1) = 2 * (2 ^ (f + D') - 2 ^ D') := by
    rw [Nat.pow_succ, Nat.pow_succ]; omega
  rw [e1, e2, W_shr1]

/-- the model computes the path word of `nodeAt h idx` -/
theorem inverse {h idx : Nat} (hh : h ≤ 30) (hi : idx < 2 ^ (h + 1) - 1) :
    indexToPath h (idx : Int) = some (encPath h (nodeAt h idx)) := by
  by_cases hs : 4 < h ∧ bitLen (u32 (wrap32 ((idx : Int) - (h : Int))) ^^^ u32 (idx : Int)) 32 ≤ h
  · -- phase A, then B + C on the remaining subtree
    obtain ⟨h5, hD⟩ := hs
    generalize hDdef : bitLen (u32 (wrap32 ((idx : Int) - (h : Int))) ^^^ u32 (idx : Int)) 32 = D at hD
    have hpre := pre_short h5 hh hi hDdef hD
    have hx : u32 (wrap32 ((idx : Int) - (h : Int))) ^^^ u32 (idx : Int) < 2 ^ D := by
      rw [← hDdef]
      exact lt_two_pow_bitLen _ 32 (Nat.xor_lt_two_pow (u32_lt _) (u32_lt _))
    obtain ⟨_, hR⟩ := short_facts hh hi hD hx
    have hRlt : idx % 2 ^ D < 2 ^ D := Nat.mod_lt _ (Nat.two_pow_pos D)
    have hD1 : 1 ≤ D := by
      apply Decidable.by_contra; intro h0
      have : D = 0 := by omega
      subst this; simp at hRlt; omega
    obtain ⟨D', rfl⟩ : ∃ D', D = D' + 1 := ⟨D - 1, by omega⟩
    obtain ⟨f, rfl⟩ : ∃ f, h = f + D' := ⟨h - D', by omega⟩
    have ef : f + D' + 1 - (D' + 1) = f := by omega
    have hA : idx >>> (D' + 1) < 2 ^ f := by
      rw [Nat.shiftRight_eq_div_pow]
      apply Nat.div_lt_of_lt_mul
      rw [← Nat.pow_add, show D' + 1 + f = f + D' + 1 by omega]; omega
    have hidx : (idx >>> (D' + 1)) * 2 ^ (D' + 1) + idx % 2 ^ (D' + 1) = idx := by
      rw [Nat.shiftRight_eq_div_pow, Nat.mul_comm]; exact Nat.div_add_mod _ _
    have hpf := nodeAt_prefix f (idx >>> (D' + 1)) (idx % 2 ^ (D' + 1)) (D' + 1) hA hRlt (by omega)
      (by rw [hidx, show f + (D' + 1) = f + D' + 1 by omega]; exact hi)
    rw [hidx, show f + (D' + 1) - 1 = f + D' by omega, Nat.add_sub_cancel] at hpf
    obtain ⟨hn, hb⟩ := hpf
    rw [ef, Nat.add_sub_cancel] at hpre
    rw [indexToPath_of_pre hpre, loop_spec 64 D' _ _ (by omega) (by omega) hb, hn,
      assemble hA (nodeAt_spec D' _ hb).1 (by omega)]
  · -- no shortcut: B + C from the root
    rw [indexToPath_of_pre (pre_noshort hh hs), loop_spec 64 h 0 idx (by omega) hh hi]
    simp

end Low.C05L
