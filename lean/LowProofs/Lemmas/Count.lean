import LowProofs.Lemmas.Bits
/- rank / ones / bitAt lemmas -/
namespace Low

theorem bitAt_word {ws : List Nat} {k j w : Nat} (hw : ws[k]? = some w) (hj : j < 64) :
    bitAt ws (64 * k + j) = w.testBit j := by
  unfold bitAt
  have h1 : (64 * k + j) / 64 = k := by omega
  have h2 : (64 * k + j) % 64 = j := by omega
  rw [h1, h2]; simp [List.getD, hw]

theorem bitAt_eq {ws : List Nat} {i w : Nat} (hw : ws[i / 64]? = some w) : bitAt ws i = w.testBit (i % 64) := by
  have := bitAt_word (j := i % 64) hw (by omega)
  have h : 64 * (i / 64) + i % 64 = i := by omega
  rwa [h] at this

theorem bitAt_oob {ws : List Nat} {i : Nat} (h : 64 * ws.length ≤ i) : bitAt ws i = false := by
  unfold bitAt
  have : ws.length ≤ i / 64 := by omega
  simp [List.getD, List.getElem?_eq_none this]

theorem rank_word {ws : List Nat} {k w : Nat} (hw : ws[k]? = some w) :
    ∀ j, j ≤ 64 → rank ws (64 * k + j) = rank ws (64 * k) + popc w j
  | 0, _ => by simp [popc]
  | j+1, h => by
    have e : 64 * k + (j + 1) = (64 * k + j) + 1 := by omega
    rw [e]; simp only [rank, popc]
    rw [rank_word hw j (by omega), bitAt_word hw (by omega)]; omega

theorem rank_mono (ws : List Nat) {a b : Nat} (h : a ≤ b) : rank ws a ≤ rank ws b := by
  induction b with
  | zero => have : a = 0 := by omega
            subst this; exact Nat.le_refl _
  | succ b ih =>
    by_cases hb : a = b + 1
    · subst hb; exact Nat.le_refl _
    · have := ih (by omega); simp only [rank]; omega

theorem getElem?_append_mid (pre : List Nat) (w : Nat) (r : List Nat) :
    (pre ++ w :: r)[pre.length]? = some w := by simp

end Low
