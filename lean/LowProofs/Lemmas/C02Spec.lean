import LowProofs.Lemmas.Count
/- C02 helpers, part 1: how `ones` (list of 1-bit positions) relates to `rank` and `bitAt` -/
namespace Low.C02L
open Low

/-- 1-bit positions below `N` -/
def onesUpto (ws : List Nat) (N : Nat) : List Nat := (List.range N).filter (bitAt ws)

theorem onesUpto_succ (ws : List Nat) (N : Nat) :
    onesUpto ws (N+1) = onesUpto ws N ++ (if bitAt ws N then [N] else []) := by
  simp only [onesUpto, List.range_succ, List.filter_append, List.filter_cons, List.filter_nil]

theorem onesUpto_length (ws : List Nat) : ∀ N, (onesUpto ws N).length = rank ws N
  | 0 => by simp [onesUpto, rank]
  | N+1 => by
    rw [onesUpto_succ, List.length_append, onesUpto_length ws N]
    simp only [rank]
    cases bitAt ws N <;> simp

/-- every entry of `onesUpto` is a 1-bit position below `N` whose rank is its index -/
theorem onesUpto_getElem? (ws : List Nat) : ∀ (N i a : Nat), (onesUpto ws N)[i]? = some a →
    a < N ∧ bitAt ws a = true ∧ rank ws a = i
  | 0, i, a, h => by simp [onesUpto] at h
  | N+1, i, a, h => by
    rw [onesUpto_succ] at h
    by_cases hi : i < (onesUpto ws N).length
    · rw [List.getElem?_append_left hi] at h
      have := onesUpto_getElem? ws N i a h
      exact ⟨by omega, this.2.1, this.2.2⟩
    · rw [List.getElem?_append_right (by omega)] at h
      by_cases hb : bitAt ws N = true
      · simp only [hb, if_true] at h
        have hi0 : i - (onesUpto ws N).length = 0 := by
          rcases Nat.eq_zero_or_pos (i - (onesUpto ws N).length) with h0 | h0
          · exact h0
          · rw [List.getElem?_eq_none (by simp; omega)] at h; cases h
        rw [hi0] at h
        simp at h
        subst h
        rw [onesUpto_length] at hi hi0
        exact ⟨by omega, hb, by omega⟩
      · simp [hb] at h

/-- a 1-bit position below `N` sits at index `rank` in `onesUpto` -/
theorem onesUpto_rank (ws : List Nat) : ∀ (N a : Nat), a < N → bitAt ws a = true →
    (onesUpto ws N)[rank ws a]? = some a
  | 0, a, h, _ => by omega
  | N+1, a, h, hb => by
    rw [onesUpto_succ]
    by_cases ha : a = N
    · subst ha
      rw [List.getElem?_append_right (by rw [onesUpto_length]; omega), onesUpto_length]
      simp [hb]
    · have ih := onesUpto_rank ws N a (by omega) hb
      have hlt : rank ws a < (onesUpto ws N).length := by
        rcases Nat.lt_or_ge (rank ws a) (onesUpto ws N).length with h1 | h1
        · exact h1
        · rw [List.getElem?_eq_none h1] at ih; cases ih
      rw [List.getElem?_append_left hlt]; exact ih

theorem ones_eq (ws : List Nat) : ones ws = onesUpto ws (64 * ws.length) := rfl

theorem ones_length (ws : List Nat) : (ones ws).length = rank ws (64 * ws.length) :=
  onesUpto_length ws _

theorem ones_getElem? {ws : List Nat} {i a : Nat} (h : (ones ws)[i]? = some a) :
    a < 64 * ws.length ∧ bitAt ws a = true ∧ rank ws a = i :=
  onesUpto_getElem? ws _ i a h

theorem ones_rank {ws : List Nat} {a : Nat} (hb : bitAt ws a = true) :
    (ones ws)[rank ws a]? = some a := by
  have ha : a < 64 * ws.length := by
    rcases Nat.lt_or_ge a (64 * ws.length) with h | h
    · exact h
    · rw [bitAt_oob h] at hb; cases hb
  exact onesUpto_rank ws _ a ha hb

/-- no 1-bits in `[a, b)` means equal rank -/
theorem rank_eq_of_zero (ws : List Nat) (a : Nat) : ∀ b, a ≤ b →
    (∀ c, a ≤ c → c < b → bitAt ws c = false) → rank ws b = rank ws a
  | 0, h, _ => by have : a = 0 := by omega
                  subst this; rfl
  | b+1, h, hz => by
    by_cases hab : a = b + 1
    · subst hab; rfl
    · simp only [rank]
      rw [rank_eq_of_zero ws a b (by omega) (fun c h1 h2 => hz c h1 (by omega)), hz b (by omega) (by omega)]
      simp

/-- `b` is the position of the first 1-bit after `a`, or the bit length when there is none -/
def IsNext (ws : List Nat) (a b : Nat) : Prop :=
  a < b ∧ b ≤ 64 * ws.length ∧ (b < 64 * ws.length → bitAt ws b = true) ∧
    ∀ c, a < c → c < b → bitAt ws c = false

/-- the selected pair, from the local facts the algorithms establish -/
theorem ones_pair {ws : List Nat} {i a b : Nat} (hb : bitAt ws a = true) (hr : rank ws a = i)
    (hn : IsNext ws a b) :
    ∃ h : i < (ones ws).length, (ones ws)[i] = a ∧ (ones ws).getD (i+1) (64 * ws.length) = b := by
  have h1 := ones_rank hb
  rw [hr] at h1
  have hi : i < (ones ws).length := by
    rcases Nat.lt_or_ge i (ones ws).length with h | h
    · exact h
    · rw [List.getElem?_eq_none h] at h1; cases h1
  refine ⟨hi, ?_, ?_⟩
  · rw [List.getElem?_eq_getElem hi] at h1; exact Option.some.inj h1
  · obtain ⟨hab, hbN, hbb, hz⟩ := hn
    have hrb : rank ws b = i + 1 := by
      rw [rank_eq_of_zero ws (a+1) b (by omega) (fun c h1 h2 => hz c (by omega) h2)]
      simp [rank, hb, hr]
    rcases Nat.lt_or_ge b (64 * ws.length) with hlt | hge
    · have := ones_rank (hbb hlt)
      rw [hrb] at this
      simp [List.getD, this]
    · have hbe : b = 64 * ws.length := by omega
      have hl := ones_length ws
      rw [← hbe, hrb] at hl
      rw [List.getD, List.getElem?_eq_none (by omega)]
      simp [hbe]

end Low.C02L
