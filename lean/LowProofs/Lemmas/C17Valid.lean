import LowProofs.Lemmas.C17Dfs
/-
  Helper lemmas for C17, part 3: `lcpAll` of a range is the minimum the code computes; the recursive
  predicate `Valid` (shape, size, lcp of a result) and its closure under the split.
-/
namespace Low.C17L
open Low Low.C16L

/-- `keys[s:e]` -/
def slice (keys : List (List Nat)) (s e : Nat) : List (List Nat) := (keys.drop s).take (e - s)

theorem slice_cons {keys : List (List Nat)} {s e : Nat} (h1 : s < e) (h2 : e ≤ keys.length) :
    slice keys s e = keys.getD s [] :: slice keys (s + 1) e := by
  have hs : s < keys.length := by omega
  have e1 : e - s = (e - (s + 1)) + 1 := by omega
  have hg : keys.getD s [] = keys[s] := by simp [List.getD, List.getElem?_eq_getElem hs]
  rw [slice, slice, List.drop_eq_getElem_cons hs, e1, List.take_succ_cons, hg]

theorem slice_self (keys : List (List Nat)) (s : Nat) : slice keys s s = [] := by simp [slice]

section
variable (keys : List (List Nat)) (fds : List Nat)
variable (hbl : ∀ t, t + 1 < keys.length → bl fds t = lcp (keys.getD t []) (keys.getD (t + 1) []))
include hbl

/-- folding `min · (lcp k0 ·)` over `keys[t+1 : t+1+c]` equals folding the adjacent common-prefix lengths,
    as soon as the running minimum is at most `lcp k0 keys[t]` -/
theorem lcpAll_fold (k0 : List Nat) : ∀ (c t m : Nat), m ≤ lcp k0 (keys.getD t []) → t + 1 + c ≤ keys.length →
    (slice keys (t + 1) (t + 1 + c)).foldl (fun m k' => min m (lcp k0 k')) m = minFold fds t c m
  | 0, t, m, _, _ => by simp [slice_self, minFold_zero]
  | c+1, t, m, h1, h2 => by
    have e1 : t + 1 + (c + 1) = t + 1 + 1 + c := by omega
    rw [slice_cons (by omega) h2, List.foldl_cons, minFold_succ, hbl t (by omega), e1,
      min_lcp_swap h1 (keys.getD (t + 1) []), ← min_lcp_swap h1 (keys.getD (t + 1) [])]
    have := lcpAll_fold k0 c (t + 1) (min m (lcp k0 (keys.getD (t + 1) []))) (Nat.min_le_right _ _) (by omega)
    rw [this, min_lcp_swap h1 (keys.getD (t + 1) [])]

theorem lam_eq_lcpAll {s e : Nat} (h1 : s < e) (h2 : e ≤ keys.length) :
    lam keys fds s e = lcpAll (slice keys s e) := by
  rw [slice_cons h1 h2, lcpAll, lam]
  have := lcpAll_fold keys fds hbl (keys.getD s []) (e - 1 - s) s (keys.getD s []).length
    (by rw [lcp_self]; exact Nat.le_refl _) (by omega)
  rw [← this]
  congr 2; omega

end

/-! ### shape, size and lcp of a result, recursively -/

/-- `Valid keys mx s e Ls Bs`: `s :: Bs` ascends strictly from `s` to `e` in steps of at most `mx`, and
    `Ls` lists `lcpAll` of the corresponding sub-ranges. -/
def Valid (keys : List (List Nat)) (mx : Nat) : Nat → Nat → List Nat → List Nat → Prop
  | s, e, [], [] => s = e
  | s, e, l :: Ls, b :: Bs => s < b ∧ b - s ≤ mx ∧ l = lcpAll (slice keys s b) ∧ Valid keys mx b e Ls Bs
  | _, _, [], _ :: _ => False
  | _, _, _ :: _, [] => False

theorem valid_append (keys : List (List Nat)) (mx : Nat) : ∀ (L1 B1 : List Nat) (s m e : Nat) (L2 B2 : List Nat),
    Valid keys mx s m L1 B1 → Valid keys mx m e L2 B2 → Valid keys mx s e (L1 ++ L2) (B1 ++ B2)
  | [], [], s, m, e, L2, B2, h1, h2 => by
    have : s = m := h1
    subst this; exact h2
  | [], _ :: _, _, _, _, _, _, h1, _ => h1.elim
  | _ :: _, [], _, _, _, _, _, h1, _ => h1.elim
  | l :: L1, b :: B1, s, m, e, L2, B2, h1, h2 =>
    ⟨h1.1, h1.2.1, h1.2.2.1, valid_append keys mx L1 B1 b m e L2 B2 h1.2.2.2 h2⟩

theorem valid_length (keys : List (List Nat)) (mx : Nat) : ∀ (L Bs : List Nat) (s e : Nat),
    Valid keys mx s e L Bs → Bs.length = L.length
  | [], [], _, _, _ => rfl
  | [], _ :: _, _, _, h => h.elim
  | _ :: _, [], _, _, h => h.elim
  | l :: L, b :: Bs, s, e, h => by
    simp [valid_length keys mx L Bs b e h.2.2.2]

theorem valid_last (keys : List (List Nat)) (mx : Nat) : ∀ (L Bs : List Nat) (s e : Nat),
    Valid keys mx s e L Bs → (s :: Bs).getLast? = some e
  | [], [], s, e, h => by
    have : s = e := h
    simp [this]
  | [], _ :: _, _, _, h => h.elim
  | _ :: _, [], _, _, h => h.elim
  | l :: L, b :: Bs, s, e, h => by
    rw [List.getLast?_cons_cons]; exact valid_last keys mx L Bs b e h.2.2.2

theorem valid_le (keys : List (List Nat)) (mx : Nat) : ∀ (L Bs : List Nat) (s e : Nat),
    Valid keys mx s e L Bs → s ≤ e
  | [], [], s, e, h => by
    have : s = e := h
    omega
  | [], _ :: _, _, _, h => h.elim
  | _ :: _, [], _, _, h => h.elim
  | l :: L, b :: Bs, s, e, h => by
    have := valid_le keys mx L Bs b e h.2.2.2
    have := h.1
    omega

theorem groups_valid (keys : List (List Nat)) (mx : Nat) : ∀ (es : List Nat) (s e : Nat) (Ls Bs : List Nat),
    Groups (Valid keys mx) s es Ls Bs → (s :: es).getLast? = some e → Valid keys mx s e Ls Bs
  | [], s, e, Ls, Bs, h, hl => by
    obtain ⟨h1, h2⟩ := h
    subst h1; subst h2
    simp at hl
    exact hl
  | t :: es, s, e, Ls, Bs, h, hl => by
    obtain ⟨L1, B1, L2, B2, h1, h2, h3, h4⟩ := h
    subst h1; subst h2
    rw [List.getLast?_cons_cons] at hl
    exact valid_append keys mx L1 B1 s t e L2 B2 h3 (groups_valid keys mx es t e L2 B2 h4 hl)

/-- index form of shape/size/lcp -/
theorem valid_index (keys : List (List Nat)) (mx : Nat) : ∀ (L Bs : List Nat) (s e : Nat),
    Valid keys mx s e L Bs → ∀ j, j < L.length →
      (s :: Bs).getD j 0 < (s :: Bs).getD (j + 1) 0 ∧
      (s :: Bs).getD (j + 1) 0 - (s :: Bs).getD j 0 ≤ mx ∧
      L.getD j 0 = lcpAll (slice keys ((s :: Bs).getD j 0) ((s :: Bs).getD (j + 1) 0))
  | [], _, _, _, _, j, hj => by simp at hj
  | _ :: _, [], _, _, h, _, _ => h.elim
  | l :: L, b :: Bs, s, e, h, 0, _ => by
    simp only [List.getD_cons_zero, List.getD_cons_succ]
    exact ⟨h.1, h.2.1, h.2.2.1⟩
  | l :: L, b :: Bs, s, e, h, j+1, hj => by
    have := valid_index keys mx L Bs b e h.2.2.2 j (by simpa using hj)
    simp only [List.getD_cons_succ] at this ⊢
    exact this

end Low.C17L
