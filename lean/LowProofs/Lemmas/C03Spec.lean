import LowProofs.Lemmas.Bits
import LowProofs.Lemmas.SumBits
/- C03 helpers, part 1: pure facts about the specification (`preorder`, `preIdx`) -/
namespace Low.C03L
open Low

/-- size of the stored part of a subtree: root at depth `d`, `r` levels below it -/
theorem preorder_length (T : Nat) : ∀ (r d : Nat) (pfx : List Bool),
    (preorder T r d pfx).length = (T >>> d) % 2^(r+1)
  | 0, d, pfx => by
    simp only [preorder]
    rw [Nat.zero_add, Nat.pow_one, shiftRight_mod_two]
    cases T.testBit d <;> rfl
  | r+1, d, pfx => by
    simp only [preorder, List.length_append, preorder_length T r]
    have e : 2^(r+1+1) = 2 * 2^(r+1) := by rw [Nat.pow_succ, Nat.mul_comm]
    rw [e, Nat.mod_mul, shiftRight_mod_two, Nat.shiftRight_succ]
    cases T.testBit d <;> simp <;> omega

theorem shiftRight_lt_two_pow {T d r : Nat} (h : T < 2^(d+r)) : T >>> d < 2^r := by
  rw [Nat.shiftRight_eq_div_pow]
  apply Nat.div_lt_of_lt_mul
  rw [← Nat.pow_add]; exact h

/-- when the whole subtree lies above the height bound its size is `T >>> d` -/
theorem preorder_length_of_lt {T r d : Nat} (pfx : List Bool) (h : T < 2^(d+r+1)) :
    (preorder T r d pfx).length = T >>> d := by
  rw [preorder_length]
  exact Nat.mod_eq_of_lt (shiftRight_lt_two_pow (by rw [Nat.add_assoc] at h; exact h))

/-- `preIdx` is the position in the recursive enumeration (generalised to subtrees) -/
theorem preorder_index (T : Nat) : ∀ (r d : Nat) (pfx m : List Bool),
    T < 2^(d+r+1) → m.length ≤ r → T.testBit (d + m.length) = true →
    (preorder T r d pfx)[preIdx T d m]? = some (pfx ++ m)
  | 0, d, pfx, m, _, hm, ht => by
    have : m = [] := List.eq_nil_of_length_eq_zero (by omega)
    subst this
    simp only [List.length_nil, Nat.add_zero] at ht
    simp [preorder, preIdx, ht]
  | r+1, d, pfx, [], _, _, ht => by
    simp only [List.length_nil, Nat.add_zero] at ht
    simp [preorder, preIdx, ht]
  | r+1, d, pfx, b :: m, hT, hm, ht => by
    have hT' : T < 2^(d+1+r+1) := by
      have : d+1+r+1 = d+(r+1)+1 := by omega
      rw [this]; exact hT
    have hm' : m.length ≤ r := by simp only [List.length_cons] at hm; omega
    have ht' : T.testBit (d + 1 + m.length) = true := by
      have : d + 1 + m.length = d + (b :: m).length := by simp only [List.length_cons]; omega
      rw [this]; exact ht
    have hL := preorder_length_of_lt (pfx ++ [false]) hT'
    have hA : (if T.testBit d then [pfx] else []).length = (T.testBit d).toNat := by
      cases T.testBit d <;> rfl
    simp only [preorder, preIdx]
    cases b with
    | false =>
      have ih := preorder_index T r (d+1) (pfx ++ [false]) m hT' hm' ht'
      have hlt : preIdx T (d+1) m < (preorder T r (d+1) (pfx ++ [false])).length := by
        rcases Nat.lt_or_ge (preIdx T (d+1) m) (preorder T r (d+1) (pfx ++ [false])).length with h | h
        · exact h
        · rw [List.getElem?_eq_none h] at ih; cases ih
      rw [List.append_assoc, List.getElem?_append_right (by rw [hA]; simp)]
      rw [List.getElem?_append_left (by rw [hA]; simp; omega), hA]
      have : (T.testBit d).toNat + (if false = true then T >>> (d + 1) else 0) + preIdx T (d + 1) m
          - (T.testBit d).toNat = preIdx T (d+1) m := by simp
      rw [this, ih]; simp
    | true =>
      have ih := preorder_index T r (d+1) (pfx ++ [true]) m hT' hm' ht'
      rw [List.getElem?_append_right (by simp only [List.length_append, hA, hL]; simp)]
      have : (T.testBit d).toNat + (if true = true then T >>> (d + 1) else 0) + preIdx T (d + 1) m
          - ((if T.testBit d then [pfx] else []) ++ preorder T r (d + 1) (pfx ++ [false])).length
          = preIdx T (d+1) m := by
        simp only [List.length_append, hA, hL]; simp
      rw [this, ih]; simp

/-- the index never exceeds the size of the subtree (no hypothesis needed) -/
theorem preIdx_le (T : Nat) : ∀ (m : List Bool) (d : Nat), preIdx T d m ≤ T >>> d
  | [], d => by simp [preIdx]
  | b :: m, d => by
    have ih := preIdx_le T m (d+1)
    have h2 := shiftRight_mod_two T d
    rw [Nat.shiftRight_succ] at ih
    simp only [preIdx, Nat.shiftRight_succ]
    cases b <;> simp <;> omega

/-! ### `preIdx` as a sum over the set bits of the branch word -/

theorem bitsVal_lt : ∀ (n : List Bool), bitsVal n < 2^n.length
  | [] => by simp [bitsVal]
  | b :: r => by
    have ih := bitsVal_lt r
    simp only [bitsVal, List.length_cons, Nat.pow_succ]
    cases b <;> simp <;> omega

theorem sumBits_zero_of_low {f : Nat → Nat} {b : Nat} : ∀ {n : Nat}, (∀ k, k < n → b.testBit k = false) →
    sumBits f b n = 0
  | 0, _ => rfl
  | n+1, h => by
    rw [sumBits, h n (by omega), sumBits_zero_of_low (fun k hk => h k (by omega))]; simp

/-- bits at and above `n` do not matter when `b < 2^n` -/
theorem sumBits_of_lt {f : Nat → Nat} {b n : Nat} (h : b < 2^n) : ∀ m, n ≤ m → sumBits f b m = sumBits f b n := by
  intro m hm
  induction m with
  | zero => have : n = 0 := by omega
            subst this; rfl
  | succ m ih =>
    by_cases hn : n = m + 1
    · subst hn; rfl
    · have hb : b.testBit m = false :=
        Nat.testBit_lt_two_pow (Nat.lt_of_lt_of_le h (Nat.pow_le_pow_right (by omega) (by omega)))
      simp only [sumBits, hb, ih (by omega)]; simp

/-- skip `n` low zero bits -/
theorem sumBits_skip {f : Nat → Nat} {b n : Nat} (h : ∀ k, k < n → b.testBit k = false) : ∀ m,
    sumBits f b (n + m) = sumBits (fun k => f (k + n)) (b >>> n) m
  | 0 => by simp [sumBits, sumBits_zero_of_low h]
  | m+1 => by
    have : n + (m + 1) = (n + m) + 1 := by omega
    rw [this]; simp only [sumBits, sumBits_skip h m, Nat.testBit_shiftRight]
    rw [Nat.add_comm m n]

theorem sumBits_one (b : Nat) : ∀ n, sumBits (fun _ => 1) b n = popc b n
  | 0 => rfl
  | n+1 => by simp only [sumBits, popc, sumBits_one b n]; cases b.testBit n <;> simp

theorem testBit_bitsVal_cons (b : Bool) (r : List Bool) (k : Nat) :
    (bitsVal (b :: r)).testBit k = if k < r.length then (bitsVal r).testBit k else (b && decide (k = r.length)) := by
  have hr := bitsVal_lt r
  simp only [bitsVal]
  cases b with
  | false =>
    simp only [Bool.toNat_false, Nat.zero_mul, Nat.zero_add, Bool.false_and]
    split
    · rfl
    · exact Nat.testBit_lt_two_pow (Nat.lt_of_lt_of_le hr (Nat.pow_le_pow_right (by omega) (by omega)))
  | true =>
    simp only [Bool.toNat_true, Nat.one_mul, Bool.true_and]
    split
    · rename_i hk; exact Nat.testBit_two_pow_add_gt hk _
    · rename_i hk
      by_cases he : k = r.length
      · subst he; rw [Nat.testBit_two_pow_add_eq, Nat.testBit_lt_two_pow hr]; simp
      · have : 2^r.length + bitsVal r < 2^k := by
          have : 2^(r.length+1) ≤ 2^k := Nat.pow_le_pow_right (by omega) (by omega)
          rw [Nat.pow_succ] at this; omega
        rw [Nat.testBit_lt_two_pow this]; simp [he]

theorem sumBits_bitsVal_cons (f : Nat → Nat) (b : Bool) (r : List Bool) :
    sumBits f (bitsVal (b :: r)) (r.length + 1) = (if b then f r.length else 0) + sumBits f (bitsVal r) r.length := by
  simp only [sumBits]
  rw [sumBits_congr_b (c := bitsVal r) (fun k hk => by rw [testBit_bitsVal_cons]; simp [hk])]
  rw [testBit_bitsVal_cons]; simp; omega

/-- the defining sum of `preIdx`, indexed by the bits of the branch word -/
theorem preIdx_sum (T : Nat) : ∀ (n : List Bool) (d : Nat),
    preIdx T d n = popc (T >>> d) n.length +
      sumBits (fun k => T >>> (d + n.length - k)) (bitsVal n) n.length
  | [], d => by simp [preIdx, popc, sumBits]
  | b :: r, d => by
    have ih := preIdx_sum T r (d+1)
    have hp := popc_add (T >>> d) 1 r.length
    simp only [popc, Nat.testBit_shiftRight, Nat.add_zero, Nat.zero_add, ← Nat.shiftRight_add] at hp
    simp only [preIdx, List.length_cons, sumBits_bitsVal_cons, ih]
    rw [show r.length + 1 = 1 + r.length by omega, hp]
    have e1 : d + (1 + r.length) - r.length = d + 1 := by omega
    have e2 : sumBits (fun k => T >>> (d + 1 + r.length - k)) (bitsVal r) r.length =
        sumBits (fun k => T >>> (d + (1 + r.length) - k)) (bitsVal r) r.length := by
      apply sumBits_congr; intro k _; congr 1; omega
    rw [e1, e2]; omega

/-- general formula: `preIdx T 0 n = popc T |n| + S T p h` with `p` the path bits of `encPath h n` -/
theorem preIdx_eq_S (T h : Nat) (n : List Bool) (hn : n.length ≤ h) :
    preIdx T 0 n = popc T n.length + S T (bitsVal n <<< (h - n.length)) h := by
  rw [preIdx_sum]
  simp only [Nat.shiftRight_zero, Nat.zero_add]
  congr 1
  unfold S
  have e : h + 1 = (h - n.length) + (n.length + 1) := by omega
  rw [e, sumBits_skip (fun k hk => by simp [Nat.testBit_shiftLeft]; omega), Nat.shiftLeft_shiftRight,
    sumBits_of_lt (bitsVal_lt n) _ (Nat.le_succ _)]
  apply sumBits_congr; intro k hk; congr 1; omega

end Low.C03L
