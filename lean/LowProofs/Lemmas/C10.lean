import LowProofs.Lemmas.Bits
/- helper lemmas for C10 (path words): arithmetic form of `encPath`, contiguous-ones facts, binary digits -/
namespace Low.C10L
open Low

/-! ### bitsVal -/

theorem bitsVal_lt : ∀ n : List Bool, bitsVal n < 2 ^ n.length
  | [] => by simp [bitsVal]
  | b :: r => by
    have ih := bitsVal_lt r
    simp only [bitsVal, List.length_cons, Nat.pow_succ]
    cases b <;> simp <;> omega

theorem bitsVal_append (a b : List Bool) : bitsVal (a ++ b) = bitsVal a * 2 ^ b.length + bitsVal b := by
  induction a with
  | nil => simp [bitsVal]
  | cons x a ih =>
    simp only [List.cons_append, bitsVal, ih, List.length_append, Nat.pow_add]
    rw [Nat.add_mul, Nat.mul_assoc, Nat.add_assoc]

theorem bitsVal_concat (a : List Bool) (b : Bool) : bitsVal (a ++ [b]) = 2 * bitsVal a + b.toNat := by
  rw [bitsVal_append]; simp [bitsVal]; omega

/-! ### the two halves of `encPath` in arithmetic form -/

/-- lower half: `l` ones left-aligned in `h` bits -/
def lo (h l : Nat) : Nat := (2 ^ l - 1) * 2 ^ (h - l)
/-- upper half: the branch bits left-aligned in `h` bits -/
def hi (h : Nat) (n : List Bool) : Nat := bitsVal n * 2 ^ (h - n.length)

theorem pow_split {h l : Nat} (hl : l ≤ h) : 2 ^ l * 2 ^ (h - l) = 2 ^ h := by
  rw [← Nat.pow_add]; congr 1; omega

theorem lo_lt {h l : Nat} (hl : l ≤ h) : lo h l < 2 ^ h := by
  have h1 := pow_split hl
  have h2 : 0 < 2 ^ l := Nat.two_pow_pos l
  have h3 : 0 < 2 ^ (h - l) := Nat.two_pow_pos _
  unfold lo
  rw [Nat.sub_mul, Nat.one_mul, h1]
  have : 2 ^ (h - l) ≤ 2 ^ h := Nat.pow_le_pow_right (by omega) (by omega)
  omega

theorem lo_eq {h l : Nat} (hl : l ≤ h) : lo h l = 2 ^ h - 2 ^ (h - l) := by
  unfold lo
  rw [Nat.sub_mul, Nat.one_mul, pow_split hl]

theorem hi_lt {h : Nat} {n : List Bool} (hl : n.length ≤ h) : hi h n < 2 ^ h := by
  have h1 := pow_split hl
  have h2 := bitsVal_lt n
  unfold hi
  rw [← h1]
  exact Nat.mul_lt_mul_of_lt_of_le h2 (Nat.le_refl _) (Nat.two_pow_pos _)

theorem pow_le_32 {h : Nat} (hh : h ≤ 32) : 2 ^ h ≤ 2 ^ 32 := Nat.pow_le_pow_right (by omega) hh

/-- `encPath` as a sum -/
theorem encPath_eq {h : Nat} {n : List Bool} (hh : h ≤ 32) (hl : n.length ≤ h) :
    encPath h n = hi h n * 2 ^ 32 + lo h n.length := by
  have hlo : lo h n.length < 2 ^ 32 := Nat.lt_of_lt_of_le (lo_lt hl) (pow_le_32 hh)
  unfold encPath
  rw [Nat.shiftLeft_eq, Nat.shiftLeft_eq, Nat.shiftLeft_eq]
  show hi h n * 2 ^ 32 ||| lo h n.length = _
  rw [← Nat.shiftLeft_eq, ← Nat.shiftLeft_add_eq_or_of_lt hlo]

theorem encPath_mod {h : Nat} {n : List Bool} (hh : h ≤ 32) (hl : n.length ≤ h) :
    encPath h n % 2 ^ 32 = lo h n.length := by
  have hlo : lo h n.length < 2 ^ 32 := Nat.lt_of_lt_of_le (lo_lt hl) (pow_le_32 hh)
  rw [encPath_eq hh hl, Nat.add_comm, Nat.add_mul_mod_self_right, Nat.mod_eq_of_lt hlo]

theorem encPath_shr {h : Nat} {n : List Bool} (hh : h ≤ 32) (hl : n.length ≤ h) :
    encPath h n >>> 32 = hi h n := by
  have hlo : lo h n.length < 2 ^ 32 := Nat.lt_of_lt_of_le (lo_lt hl) (pow_le_32 hh)
  rw [encPath_eq hh hl, Nat.shiftRight_eq_div_pow, Nat.add_comm, Nat.add_mul_div_right _ _ (Nat.two_pow_pos 32),
    Nat.div_eq_of_lt hlo, Nat.zero_add]

theorem encPath_lt {h : Nat} {n : List Bool} (hh : h ≤ 32) (hl : n.length ≤ h) :
    encPath h n < 2 ^ (h + 32) := by
  have hlo : lo h n.length < 2 ^ 32 := Nat.lt_of_lt_of_le (lo_lt hl) (pow_le_32 hh)
  have hhi := hi_lt hl
  rw [encPath_eq hh hl, Nat.pow_add]
  generalize 2 ^ 32 = M at *
  generalize hi h n = H at *
  generalize 2 ^ h = P at *
  have : (H + 1) * M ≤ P * M := Nat.mul_le_mul_right _ (by omega)
  rw [Nat.add_mul] at this
  omega

/-! ### testBit of the lower half, popcount and bit length -/

theorem testBit_lo {h l : Nat} (hl : l ≤ h) (k : Nat) :
    (lo h l).testBit k = (decide (h - l ≤ k) && decide (k < h)) := by
  unfold lo
  rw [← Nat.shiftLeft_eq, Nat.testBit_shiftLeft, Nat.testBit_two_pow_sub_one]
  by_cases h1 : h - l ≤ k <;> by_cases h2 : k < h <;> simp [h1, h2] <;> omega

theorem popc_ones : ∀ l, popc (2 ^ l - 1) l = l
  | 0 => rfl
  | l+1 => by
    have e : popc (2 ^ (l+1) - 1) l = popc (2 ^ l - 1) l :=
      popc_congr (fun k hk => by
        rw [Nat.testBit_two_pow_sub_one, Nat.testBit_two_pow_sub_one]; simp; omega)
    simp only [popc, e, popc_ones l, Nat.testBit_two_pow_sub_one]; simp

theorem popc_lo {h l : Nat} (hh : h ≤ 32) (hl : l ≤ h) : popc (lo h l) 32 = l := by
  have e : 32 = (h - l) + (32 - (h - l)) := by omega
  rw [e, popc_add]
  have z : popc (lo h l) (h - l) = 0 := by
    rw [popc_congr (b := 0) (fun k hk => by rw [testBit_lo hl]; simp; omega), popc_zero]
  have s : lo h l >>> (h - l) = 2 ^ l - 1 := by
    unfold lo
    rw [Nat.shiftRight_eq_div_pow, Nat.mul_div_cancel _ (Nat.two_pow_pos _)]
  rw [z, s, popc_lt_two_pow (n := l) (by have := Nat.two_pow_pos l; omega) _ (by omega), popc_ones]; omega

theorem bitLen_eq {w h : Nat} (hw : w < 2 ^ h) (hb : w.testBit (h - 1) = true) (hp : 0 < h) :
    ∀ n, h ≤ n → bitLen w n = h := by
  intro n hn
  induction n with
  | zero => omega
  | succ n ih =>
    by_cases e : h = n + 1
    · subst e
      simp only [bitLen]
      have : n + 1 - 1 = n := by omega
      rw [this] at hb
      simp [hb]
    · have hz : w.testBit n = false :=
        Nat.testBit_lt_two_pow (Nat.lt_of_lt_of_le hw (Nat.pow_le_pow_right (by omega) (by omega)))
      simp only [bitLen, hz]
      simpa using ih (by omega)

theorem bitLen_lo {h l : Nat} (hh : h ≤ 32) (hl : l ≤ h) (hp : 0 < l) : bitLen (lo h l) 32 = h :=
  bitLen_eq (lo_lt hl) (by rw [testBit_lo hl]; simp; omega) (by omega) 32 hh

end Low.C10L
