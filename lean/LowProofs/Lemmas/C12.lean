import LowProofs.Lemmas.C12Bits
/-
  Helper lemmas for C12 (Of / ToArray / Get / SafeGet): readers, the `orBits` loop as set insertion,
  `bmOf`, `ones`, and equality of strictly ascending lists with the same members.
-/
namespace Low.C12L
open Low

/-! ### readers -/

theorem get_spec {ws : List Nat} {i : Nat} (hi : i < 64 * ws.length) :
    get ws i = some ((bitAt ws i).toNat <<< (i % 64)) ∧ get1 ws i = some (bitAt ws i).toNat := by
  have hw := List.getElem?_eq_getElem (show i / 64 < ws.length by omega)
  simp only [get, get1, hw, Option.bind_eq_bind, Option.bind_some, bitAt_eq hw, bit, and_two_pow_eq,
    shiftRight_mod_two, and_self]

theorem get_oob {ws : List Nat} {i : Nat} (hi : 64 * ws.length ≤ i) : get ws i = none ∧ get1 ws i = none := by
  have hw := List.getElem?_eq_none (show ws.length ≤ i / 64 by omega)
  simp [get, get1, hw]

theorem safeGet_spec (ws : List Nat) (i : Int) :
    safeGet ws i = (if 0 ≤ i ∧ i < 64 * (ws.length : Int) then (bitAt ws i.toNat).toNat <<< (i.toNat % 64) else 0) ∧
    safeGet1 ws i = (if 0 ≤ i ∧ i < 64 * (ws.length : Int) then (bitAt ws i.toNat).toNat else 0) := by
  by_cases h : 0 ≤ i ∧ i < 64 * (ws.length : Int)
  · have h1 : ¬ (i / 64 < 0 ∨ i / 64 ≥ (ws.length : Int)) := by omega
    have h2 : (i / 64).toNat = i.toNat / 64 := by omega
    have h3 : (i % 64).toNat = i.toNat % 64 := by omega
    have hw := List.getElem?_eq_getElem (show i.toNat / 64 < ws.length by omega)
    have hg : ws.getD (i.toNat / 64) 0 = ws[i.toNat / 64] := by simp [List.getD, hw]
    simp only [safeGet, safeGet1, if_neg h1, if_pos h, h2, h3, hg, bitAt_eq hw, bit, and_two_pow_eq,
      shiftRight_mod_two, and_self]
  · have h1 : (i / 64 < 0 ∨ i / 64 ≥ (ws.length : Int)) := by omega
    simp only [safeGet, safeGet1, if_pos h1, if_neg h, and_self]

/-! ### the OR loop -/

/-- `orBits` never panics when every position is inside the words, keeps the length, and inserts exactly the positions -/
theorem orBits_spec : ∀ (ps : List Int) (ws : List Nat), (∀ p ∈ ps, 0 ≤ p ∧ p < 64 * (ws.length : Int)) →
    ∃ ws', orBits ws ps = some ws' ∧ ws'.length = ws.length ∧ (WordsOK ws → WordsOK ws') ∧
      ∀ i : Nat, (bitAt ws' i = true ↔ (bitAt ws i = true ∨ (i : Int) ∈ ps))
  | [], ws, _ => ⟨ws, rfl, rfl, id, by simp⟩
  | p :: ps, ws, h => by
    obtain ⟨hp0, hp1⟩ := h p List.mem_cons_self
    have hq : p.toNat / 64 < ws.length := by omega
    have hw := List.getElem?_eq_getElem hq
    obtain ⟨ws', h1, h2, h3, h4⟩ := orBits_spec ps (ws.set (p.toNat / 64) (ws[p.toNat / 64] ||| 2 ^ (p.toNat % 64)))
      (by intro q hq; simpa using h q (List.mem_cons_of_mem _ hq))
    refine ⟨ws', ?_, by simpa using h2, ?_, ?_⟩
    · simp only [orBits, if_neg (show ¬ p < 0 by omega), orBit, hw, h1]
    · intro hok
      exact h3 (wordsOK_set hok _ _ (or_bit_lt (hok _ (List.getElem_mem _)) (by omega)))
    · intro i
      rw [h4, bitAt_set_or hw]
      simp only [Bool.or_eq_true, decide_eq_true_eq, List.mem_cons]
      have : i = p.toNat ↔ (i : Int) = p := by omega
      rw [this]
      constructor
      · rintro ((h' | h') | h')
        · exact Or.inl h'
        · exact Or.inr (Or.inl h')
        · exact Or.inr (Or.inr h')
      · rintro (h' | h' | h')
        · exact Or.inl (Or.inl h')
        · exact Or.inl (Or.inr h')
        · exact Or.inr h'

/-! ### ascending lists -/

/-- in an ascending list the last element is the greatest -/
theorem le_getLast : ∀ {ps : List Int}, ps.Pairwise (· ≤ ·) → ∀ l, ps.getLast? = some l → ∀ p ∈ ps, p ≤ l
  | [], _, _, _, p, hp => by cases hp
  | [a], _, l, hl, p, hp => by
    simp at hl hp; omega
  | a :: b :: r, h, l, hl, p, hp => by
    rw [List.getLast?_cons_cons] at hl
    rw [List.pairwise_cons] at h
    rcases List.mem_cons.mp hp with e | hp'
    · subst e; exact h.1 l (List.mem_of_getLast? hl)
    · exact le_getLast h.2 l hl p hp'

/-- two strictly ascending lists with the same members are equal -/
theorem eq_of_sorted_of_mem_iff : ∀ {l1 l2 : List Nat}, l1.Pairwise (· < ·) → l2.Pairwise (· < ·) →
    (∀ x, x ∈ l1 ↔ x ∈ l2) → l1 = l2
  | [], [], _, _, _ => rfl
  | [], b :: _, _, _, h => by have := (h b).mpr List.mem_cons_self; cases this
  | a :: _, [], _, _, h => by have := (h a).mp List.mem_cons_self; cases this
  | a :: r1, b :: r2, h1, h2, h => by
    rw [List.pairwise_cons] at h1 h2
    have hab : a = b := by
      have ha := (h a).mp List.mem_cons_self
      have hb := (h b).mpr List.mem_cons_self
      rcases List.mem_cons.mp ha with e | ha'
      · exact e
      · rcases List.mem_cons.mp hb with e | hb'
        · exact e.symm
        · have := h2.1 a ha'; have := h1.1 b hb'; omega
    subst hab
    congr 1
    apply eq_of_sorted_of_mem_iff h1.2 h2.2
    intro x
    constructor
    · intro hx
      rcases List.mem_cons.mp ((h x).mp (List.mem_cons_of_mem _ hx)) with e | hx'
      · subst e; have := h1.1 x hx; omega
      · exact hx'
    · intro hx
      rcases List.mem_cons.mp ((h x).mpr (List.mem_cons_of_mem _ hx)) with e | hx'
      · subst e; have := h2.1 x hx; omega
      · exact hx'

/-! ### `ones` / `toArray` -/

theorem toArray_eq_ones (ws : List Nat) : toArray ws = ones ws := by
  simp only [toArray, ones, Nat.mul_comm]

theorem mem_ones (ws : List Nat) (i : Nat) : i ∈ ones ws ↔ (i < 64 * ws.length ∧ bitAt ws i = true) := by
  simp only [ones, List.mem_filter, List.mem_range]

theorem mem_ones' (ws : List Nat) (i : Nat) : i ∈ ones ws ↔ bitAt ws i = true := by
  rw [mem_ones]
  constructor
  · exact fun h => h.2
  · intro h
    refine ⟨?_, h⟩
    rcases Nat.lt_or_ge i (64 * ws.length) with h' | h'
    · exact h'
    · rw [bitAt_oob h'] at h; cases h

theorem ones_sorted (ws : List Nat) : (ones ws).Pairwise (· < ·) :=
  List.Pairwise.filter _ List.pairwise_lt_range

/-! ### `bmOf` -/

/-- `last+1`, or 0 for the empty list -/
def lastEnd (ps : List Int) : Int := match ps.getLast? with
  | none => 0
  | some l => l + 1

/-- number of words `Of(ps, n?)` allocates: ceil(max(n, last+1, 0) / 64) -/
def ofLen (ps : List Int) (nOpt : Option Int) : Nat := ((max (max (nOpt.getD 0) (lastEnd ps)) 0 + 63) / 64).toNat

theorem bmOf_eq (ps : List Int) (nOpt : Option Int) (h0 : ∀ p ∈ ps, 0 ≤ p) :
    bmOf ps nOpt = orBits (zeros (ofLen ps nOpt)) ps := by
  unfold bmOf ofLen lastEnd
  cases hl : ps.getLast? with
  | none =>
    simp only
    congr 2
    omega
  | some l =>
    have := h0 l (List.mem_of_getLast? hl)
    simp only
    congr 2
    split <;> omega

theorem bmOf_spec (ps : List Int) (nOpt : Option Int) (hs : ps.Pairwise (· ≤ ·)) (h0 : ∀ p ∈ ps, 0 ≤ p) :
    ∃ ws, bmOf ps nOpt = some ws ∧ ws.length = ofLen ps nOpt ∧ WordsOK ws ∧
      ∀ i : Nat, (bitAt ws i = true ↔ (i : Int) ∈ ps) := by
  rw [bmOf_eq ps nOpt h0]
  have hin : ∀ p ∈ ps, 0 ≤ p ∧ p < 64 * ((zeros (ofLen ps nOpt)).length : Int) := by
    intro p hp
    refine ⟨h0 p hp, ?_⟩
    simp only [zeros, List.length_replicate, ofLen, lastEnd]
    cases hl : ps.getLast? with
    | none => rw [List.getLast?_eq_none_iff] at hl; subst hl; cases hp
    | some l =>
      have := le_getLast hs l hl p hp
      simp only
      omega
  obtain ⟨ws, h1, h2, h3, h4⟩ := orBits_spec ps (zeros (ofLen ps nOpt)) hin
  refine ⟨ws, h1, by simpa [zeros] using h2, h3 (wordsOK_zeros _), ?_⟩
  intro i
  rw [h4, bitAt_zeros]
  simp

end Low.C12L
