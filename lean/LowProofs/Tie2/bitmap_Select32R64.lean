import Generated.Ssa2.bitmap_Select32R64
import LowModel.Bitmap.Select
import LowProofs.Tie2.bitmap_Select_L
/-
  Tie: the definition regenerated from the SSA form of `bitmap.Select32R64` (two loops) equals the hand-written model
  `select32R64`.

  Structure of the generated definition: `…_loop3` is the skip loop `for ; rankIndex[wordI+1] <= i; wordI++ {}`; its
  exit branch contains ALL the code after it (go/ssa's `for.done` block is dominated by the loop header): the reads
  `words[wordI]`, `rankIndex[wordI]`, the in-word search (a chain of join blocks = `Tie2Sel.selChain`, see
  `bitmap_Select_L.lean`), the masking with `RMaskUpto`, and the entry into `…_loop15`, the scan for the next
  non-zero word (= `Tie2Sel.scan_loop`).
-/
namespace Low
open Low.GoSem Low.TieL Low.Tie2L Low.Tie2Sel

/-- blocks 9, 11, 12 of the listing: the code after the in-word search, as a function of its result `t50`
    (`t8 = words[wordI]`, `t9 = wordI<<6`, `t17 = wordI`, `t1 = int32(len(words))`) -/
def Select32R64_tail (fuel : Nat) (ws : List Nat) (sidx ridx : List Int) (i t1 : Int) (t8 : Nat) (t9 t17 : Int) :
    Int → Option (Int × Int) := fun t50 =>
  Option.bind (tblRMaskUpto (andI32 (addI32 t50 t9) 63)) fun t53 =>
    if decide (andU64 t8 t53 ≠ (0 : Nat)) = true then
      some (addI32 t50 t9, addI32 t9 (toI32 (trailingZeros64 (andU64 t8 t53))))
    else Gen.Ssa2.bitmap_Select32R64_loop15 fuel ws sidx ridx i t1 (addI32 t50 t9) fuel (addI32 t17 1)

/-- one iteration of the generated skip loop, with the in-word search folded into `selChain` -/
theorem Select32R64_loop3_step (fuel : Nat) (ws : List Nat) (sidx ridx : List Int) (i t1 : Int) (gas : Nat) (t17 : Int) :
    Gen.Ssa2.bitmap_Select32R64_loop3 fuel ws sidx ridx i t1 (gas + 1) t17 =
      Option.bind (index ridx (addI32 t17 1)) fun t20 =>
        if decide (t20 ≤ i) = true then
          Gen.Ssa2.bitmap_Select32R64_loop3 fuel ws sidx ridx i t1 gas (addI32 t17 1)
        else
          Option.bind (index ws t17) fun t8 =>
          Option.bind (index ridx t17) fun t11 =>
            selChain (Select32R64_tail fuel ws sidx ridx i t1 t8 (shlI32 t17 6) t17) t8 (toI64 (subI32 i t11)) := by
  rw [Gen.Ssa2.bitmap_Select32R64_loop3]
  rfl

/-- the model after the skip loop -/
def r64After (ws ridx : List Nat) (i wordI : Nat) : Option (Nat × Nat) := do
  let w ← ws[wordI]?
  let base := wordI * 64
  let r ← ridx[wordI]?
  if i < r then none else
  let a0 ← selWord w (i - r)
  let a := a0 + base
  let w := w &&& rmaskUpto (a % 64)
  if w ≠ 0 then some (a, base + tz w 64)
  else some (a, nextNonZero ws.length (ws.drop (wordI + 1)) (wordI + 1))

theorem select32R64_eq (ws sidx ridx : List Nat) (i : Nat) :
    select32R64 ws sidx ridx i =
      (sidx[i / 32]?).bind fun s => (r64Skip i (ridx.drop (s / 64 + 1)) (s / 64)).bind (r64After ws ridx i) := rfl

/-- the code after the in-word search -/
theorem Select32R64_tail_eq (fuel : Nat) (ws : List Nat) (sidx ridx : List Int) (i : Int) (w wordI a0 : Nat)
    (hlen : ws.length < 2 ^ 25) (hfuel : ws.length + 1 ≤ fuel) (hwI : wordI < ws.length) (ha0 : a0 ≤ 64) :
    Select32R64_tail fuel ws sidx ridx i (ws.length : Int) w ((wordI * 64 : Nat) : Int) (wordI : Int) (a0 : Int) =
      some (castPair (if w &&& rmaskUpto ((a0 + wordI * 64) % 64) ≠ 0
        then (a0 + wordI * 64, wordI * 64 + tz (w &&& rmaskUpto ((a0 + wordI * 64) % 64)) 64)
        else (a0 + wordI * 64, nextNonZero ws.length (ws.drop (wordI + 1)) (wordI + 1)))) := by
  simp only [Nat.reducePow] at hlen
  have e1 : addI32 (a0 : Int) ((wordI * 64 : Nat) : Int) = ((a0 + wordI * 64 : Nat) : Int) := addI32_ofNat (by omega)
  have hm : (a0 + wordI * 64) % 64 < 64 := Nat.mod_lt _ (by omega)
  unfold Select32R64_tail
  simp only [e1, andI32_63_ofNat, tblRMaskUpto_ofNat hm, Option.bind_some, andU64_eq]
  generalize w &&& rmaskUpto ((a0 + wordI * 64) % 64) = x
  have htz : tz x 64 ≤ 64 := tz_le _ _
  by_cases h0 : x = 0
  · have e2 : addI32 (wordI : Int) 1 = ((wordI + 1 : Nat) : Int) := by
      rw [addI32]; exact (wrap32_id (by omega) (by omega)).trans (by omega)
    simp only [h0, ne_eq, not_true_eq_false, decide_false, Bool.false_eq_true, ↓reduceIte, e2]
    rw [scan_loop ws _ (ws.length : Int) (Gen.Ssa2.bitmap_Select32R64_loop15 fuel ws sidx ridx i (ws.length : Int) _)
      rfl (by simp only [Nat.reducePow]; exact hlen)
      (fun gas t => by rw [Gen.Ssa2.bitmap_Select32R64_loop15])
      (ws.drop (wordI + 1)) (wordI + 1) fuel rfl (by simp only [List.length_drop]; omega)]
    rfl
  · have e2 : addI32 ((wordI * 64 : Nat) : Int) (toI32 (trailingZeros64 x)) = ((wordI * 64 + tz x 64 : Nat) : Int) := by
      rw [toI32_tz64]; exact addI32_ofNat (by omega)
    simp only [h0, ne_eq, not_false_eq_true, decide_true, ↓reduceIte, e2]
    rfl

/-- the exit branch of the skip loop: reads, in-word search, tail -/
theorem Select32R64_exit (fuel : Nat) (ws ridx : List Nat) (sidx : List Int) (i wordI : Nat)
    (hlen : ws.length < 2 ^ 25) (hr : ∀ n ∈ ridx, n < 2 ^ 31) (hi : i < 2 ^ 31) (hfuel : ws.length + 1 ≤ fuel) :
    (Option.bind (index ws (wordI : Int)) fun t8 =>
      Option.bind (index (ridx.map Int.ofNat) (wordI : Int)) fun t11 =>
        selChain (Select32R64_tail fuel ws sidx (ridx.map Int.ofNat) (i : Int) (ws.length : Int) t8
          (shlI32 (wordI : Int) 6) (wordI : Int)) t8 (toI64 (subI32 (i : Int) t11)))
      = (r64After ws ridx i wordI).map castPair := by
  simp only [Nat.reducePow] at hlen hr hi
  unfold r64After
  simp only [index_ofNat, List.getElem?_map, Option.bind_eq_bind]
  cases hw : ws[wordI]? with
  | none => simp
  | some w =>
    have hwI : wordI < ws.length := (List.getElem?_eq_some_iff.mp hw).1
    cases hrr : ridx[wordI]? with
    | none => simp
    | some r =>
      have hr31 : r < 2147483648 := hr r (List.mem_of_getElem? hrr)
      have e0 : shlI32 (wordI : Int) 6 = ((wordI * 64 : Nat) : Int) := shlI32_6_ofNat (by omega)
      simp only [Option.bind_some, Option.map_some, e0]
      by_cases hlt : i < r
      · have e1 : toI64 (subI32 (i : Int) (Int.ofNat r)) = (i : Int) - (r : Int) := by
          rw [subI32, Int.ofNat_eq_natCast, wrap32_id (by omega) (by omega)]; exact toI64_id (by omega) (by omega)
        rw [e1, selChain_neg _ _ _ (by omega) (by omega)]
        simp only [hlt, ↓reduceIte, Option.map_none]
      · have e1 : toI64 (subI32 (i : Int) (Int.ofNat r)) = ((i - r : Nat) : Int) := by
          rw [Int.ofNat_eq_natCast, subI32_ofNat (by omega) (by omega)]; exact toI64_ofNat_lt (by omega)
        rw [e1, selChain_eq _ _ _ (by simp only [Nat.reducePow]; omega)]
        simp only [hlt, ↓reduceIte]
        cases hs : selWord w (i - r) with
        | none => simp
        | some a0 =>
          have ha0 := selWord_le hs
          rw [Option.bind_some, Option.bind_some]
          rw [Select32R64_tail_eq fuel ws sidx _ _ w wordI a0 (by simp only [Nat.reducePow]; exact hlen) hfuel hwI ha0]
          generalize w &&& rmaskUpto ((a0 + wordI * 64) % 64) = x
          by_cases h0 : x = 0 <;> simp [h0]

/-- the skip loop at `wordI`, `rest = rankIndex[wordI+1:]` -/
theorem Select32R64_loop (fuel : Nat) (ws ridx : List Nat) (sidx : List Int) (i : Nat)
    (hlen : ws.length < 2 ^ 25) (hrl : ridx.length < 2 ^ 31) (hr : ∀ n ∈ ridx, n < 2 ^ 31) (hi : i < 2 ^ 31)
    (hfuel : ws.length + 1 ≤ fuel) :
    ∀ (rest : List Nat) (wordI gas : Nat), rest = ridx.drop (wordI + 1) → rest.length + 1 ≤ gas → wordI + 1 < 2 ^ 31 →
      Gen.Ssa2.bitmap_Select32R64_loop3 fuel ws sidx (ridx.map Int.ofNat) (i : Int) (ws.length : Int) gas (wordI : Int)
        = ((r64Skip i rest wordI).bind (r64After ws ridx i)).map castPair
  | [], wordI, gas, hrest, hg, hw31 => by
    obtain ⟨g, rfl⟩ : ∃ g, gas = g + 1 := ⟨gas - 1, by omega⟩
    simp only [Nat.reducePow] at hw31
    have e1 : addI32 (wordI : Int) 1 = ((wordI + 1 : Nat) : Int) := by
      rw [addI32]; exact (wrap32_id (by omega) (by omega)).trans (by omega)
    rw [Select32R64_loop3_step, r64Skip, e1, index_ofNat, List.getElem?_map, getElem?_of_drop_eq_nil hrest]
    rfl
  | r :: rest, wordI, gas, hrest, hg, hw31 => by
    obtain ⟨g, rfl⟩ : ∃ g, gas = g + 1 := ⟨gas - 1, by omega⟩
    simp only [Nat.reducePow] at hw31 hrl
    have hlt : wordI + 1 < ridx.length := drop_eq_cons_lt hrest
    have e1 : addI32 (wordI : Int) 1 = ((wordI + 1 : Nat) : Int) := by
      rw [addI32]; exact (wrap32_id (by omega) (by omega)).trans (by omega)
    have ih := Select32R64_loop fuel ws ridx sidx i hlen (by simp only [Nat.reducePow]; exact hrl) hr hi hfuel
      rest (wordI + 1) g (drop_succ_of_drop_eq_cons hrest)
      (by simp only [List.length_cons] at hg; omega) (by simp only [Nat.reducePow]; omega)
    rw [Select32R64_loop3_step, r64Skip, e1, index_ofNat, List.getElem?_map, getElem?_of_drop_eq_cons hrest]
    simp only [Option.map_some, Option.bind_some, Int.ofNat_eq_natCast, Int.ofNat_le, decide_eq_true_eq]
    by_cases hle : r ≤ i
    · simp only [hle, ↓reduceIte, ih]
    · simp only [hle, ↓reduceIte, Option.bind_some]
      exact Select32R64_exit fuel ws ridx sidx i wordI hlen hr hi hfuel

/-- Domain.
    * `ws.length < 2^25` (the project's `BmDom`): `wordI<<6`, `a += base`, `base + tz`, `l<<6` stay below `2^31`
      (no int32 wrap).
    * `sidx`, `ridx` entries `< 2^31` and `i < 2^31`: they are non-negative `int32` values (the lists are given as
      `Nat`s); `i - rankIndex[wordI]` then does not wrap.
    * `ridx.length < 2^31`: `wordI + 1` in the skip loop does not wrap (the loop runs while
      `rankIndex[wordI+1] <= i`, so `wordI` can reach `len(rankIndex) - 1`).
    * no hypothesis on the words: `uint32(ww)`, `uint16(ww)`, `uint8(ww)` truncate in both.
    Fuel: every `fuel ≥ max (len words) (len rankIndex) + 1`.
    Panics (`none` on both sides): `selectIndex[i>>5]`, `rankIndex[wordI+1]`, `words[wordI]`, `rankIndex[wordI]` out of
    range; `rankIndex[wordI] > i` (then `findIth` is negative and `select8Lookup[… | uint64(findIth)]` is out of
    range, `Tie2Sel.selChain_neg`); a `select8Lookup` index ≥ 2048 (`findIth-ones ≥ 8` with high byte bits). -/
theorem Tie_bitmap_Select32R64 (ws sidx ridx : List Nat) (i fuel : Nat)
    (hlen : ws.length < 2 ^ 25) (hs : ∀ n ∈ sidx, n < 2 ^ 31) (hrl : ridx.length < 2 ^ 31)
    (hr : ∀ n ∈ ridx, n < 2 ^ 31) (hi : i < 2 ^ 31) (hfuel : max ws.length ridx.length + 1 ≤ fuel) :
    Gen.Ssa2.bitmap_Select32R64 fuel ws (sidx.map Int.ofNat) (ridx.map Int.ofNat) (i : Int)
      = (select32R64 ws sidx ridx i).map (fun p => ((p.1 : Int), (p.2 : Int))) := by
  have hl : toI32 (len ws) = (ws.length : Int) := by
    rw [len_eq]; exact toI32_ofNat_lt (by simp only [Nat.reducePow] at hlen; omega)
  rw [Gen.Ssa2.bitmap_Select32R64, select32R64_eq]
  simp only [hl, shrI32_5_ofNat, index_ofNat, List.getElem?_map]
  cases hsi : sidx[i / 32]? with
  | none => rfl
  | some s =>
    have hs31 : s < 2 ^ 31 := hs s (List.mem_of_getElem? hsi)
    simp only [Nat.reducePow] at hs31
    simp only [Option.map_some, Option.bind_some, Int.ofNat_eq_natCast, shrI32_6_ofNat]
    exact Select32R64_loop fuel ws ridx _ i hlen hrl hr hi (by omega) _ (s / 64) fuel rfl
      (by simp only [List.length_drop]; omega) (by simp only [Nat.reducePow]; omega)

example : Gen.Ssa2.bitmap_Select32R64 4 [0x12, 0, 0x100] [1] [0, 2, 2, 3] 1 = some (4, 136) := by decide +kernel
example : select32R64 [0x12, 0, 0x100] [1] [0, 2, 2, 3] 1 = some (4, 136) := by decide +kernel
example : Gen.Ssa2.bitmap_Select32R64 4 [0x12, 0, 0x100] [1] [0, 2, 2, 3] 2 = some (136, 192) := by decide +kernel
example : Gen.Ssa2.bitmap_Select32R64 4 [0x12] [1] [1, 2] 0 = none ∧ select32R64 [0x12] [1] [1, 2] 0 = none := by decide +kernel

end Low
