import Generated.Ssa2.iohelper_SectionWriter_Write
import LowModel.Iohelper
import LowProofs.Tie2.Lemmas
import LowProofs.Tie.iohelper_SectionWriter_Seek
/-
  Tie: the definition regenerated from the SSA form of `(*iohelper.SectionWriter).Write` equals the hand-written
  model `SectionWriter.write`.  The generated definition takes the receiver's fields `base`, `off`, `limit`, the
  buffer `p` and the answer `ans` of the underlying `io.WriterAt` (external call, `GoSem2.extWriteAt`), and returns
  `(n, err, final value of off, what was handed to the underlying writer)`; `off` is the only field the method
  stores to, so `base` and `limit` are unchanged by construction of the translation (in the model: second conjunct).
  The model works with `len p` only (`plen`), and records the underlying call as `UCall = (offset, length)`.
-/
namespace Low
open Low.GoSem Low.TieL Low.Tie2L

/-- Domain: every receiver state with `limit - off < 2^63` (`hsub`), every buffer of a length that fits an `int`
    (`hp`: `convert int64 <- int (len p)` is the identity; always true in Go), every answer of the underlying writer.
    No range hypothesis on the individual fields is needed (all `int64` sums wrap on both sides).

    `hsub` is a GENUINE DOMAIN RESTRICTION: for `off < limit` with `limit - off ≥ 2^63` (possible for in-range
    `int64` fields: any pair more than `MaxInt64` apart, e.g. `off = -2^62`, `limit = 2^63 - 1`, see the last two
    examples below) the `int64` subtraction `max := s.limit - s.off` wraps to a NEGATIVE value, `len(p) > max` holds for every `p`, and the Go code
    evaluates `p[0:max]` with a negative bound: a run-time panic (generated definition: `none`), whereas the model
    `SectionWriter.write` clamps with `mx.toNat = 0` and reports a zero-length write.  For `off ≥ limit` the
    hypothesis holds trivially.  It holds for every writer made by `NewSectionWriter(w, off, n)` with `off ≥ 0`,
    `n ≥ 0`, `off + n ≤ MaxInt64` and moved by `Seek`/`Write` (then `base ≤ off`, so `limit - off ≤ limit - base = n`),
    and more generally whenever `0 ≤ base ≤ off` or `limit - base` does not overflow.
    Under `hsub`: total, no panic. -/
theorem Tie_iohelper_SectionWriter_Write (s : SectionWriter) (p : List Nat) (ans : UAns)
    (hsub : s.limit - s.off < 2^63) (hp : p.length < 2^63) :
    Gen.Ssa2.iohelper_SectionWriter_Write s.base s.off s.limit p ⟨ans.accept, ans.fail⟩
      = some ((s.write p.length ans).2.1.n, ioErrId (s.write p.length ans).2.1.err, (s.write p.length ans).1.off,
              (s.write p.length ans).2.2.map (fun u => (u.off, (u.len : Int))))
    ∧ (s.write p.length ans).1.base = s.base ∧ (s.write p.length ans).1.limit = s.limit := by
  rw [Gen.Ssa2.iohelper_SectionWriter_Write, SectionWriter.write]
  by_cases h0 : s.off ≥ s.limit
  · simp [h0, ioErrId]
  · have hmx : wrap64 (s.limit - s.off) = s.limit - s.off := wrap64_id (by omega) (by omega)
    have hlen : toI64 (len p) = (p.length : Int) := by rw [len_eq]; exact toI64_ofNat_lt (by omega)
    simp only [h0, subI64, hmx, hlen, UAns.apply, GoSem2.extWriteAt, decide_false, Bool.false_eq_true, ↓reduceIte]
    by_cases h1 : (p.length : Int) > s.limit - s.off
    · obtain ⟨m, hm⟩ : ∃ m : Nat, s.limit - s.off = (m : Int) := ⟨(s.limit - s.off).toNat, by omega⟩
      have hml : m ≤ p.length := by omega
      have hmin : min m p.length = m := by omega
      have hn : toI64 ((min ans.accept m : Nat) : Int) = ((min ans.accept m : Nat) : Int) :=
        toI64_ofNat_lt (by omega)
      rw [hm] at h1
      simp only [hm, h1, decide_true, ↓reduceIte, slice_zero_ofNat p hml, Option.bind_some, List.length_take, hmin,
        Int.toNat_natCast, hn, addI64, len_eq, Option.map_some]
      by_cases hf : ans.fail = true <;> by_cases ha : ans.accept < m <;>
        simp [hf, ha, GoSem2.extErr, ioErrId]
    · have hn : toI64 ((min ans.accept p.length : Nat) : Int) = ((min ans.accept p.length : Nat) : Int) :=
        toI64_ofNat_lt (by omega)
      simp only [h1, decide_false, Bool.false_eq_true, ↓reduceIte, hn, addI64, len_eq, Option.map_some]
      by_cases hf : ans.fail = true <;> by_cases ha : ans.accept < p.length <;>
        simp [hf, ha, GoSem2.extErr, ioErrId]

example : Gen.Ssa2.iohelper_SectionWriter_Write 10 12 20 [1, 2, 3, 4, 5, 6, 7, 8, 9, 10] ⟨100, false⟩ = some (8, some "io.ErrShortWrite", 20, some (12, 8)) := by decide
example : Gen.Ssa2.iohelper_SectionWriter_Write 10 12 20 [1, 2, 3, 4, 5] ⟨3, false⟩ = some (3, some "(error of the underlying writer)", 15, some (12, 5)) := by decide
example : (SectionWriter.write ⟨10, 12, 20⟩ 10 ⟨100, false⟩) = (⟨10, 20, 20⟩, ⟨8, some .shortWrite⟩, some ⟨12, 8⟩) := by decide
-- outside `hsub` (`limit - off ≥ 2^63`): the code panics in `p[0:max]` (negative `max`), the model does not
example : Gen.Ssa2.iohelper_SectionWriter_Write 0 (-4611686018427387904) 9223372036854775807 [1] ⟨1, false⟩ = none := by decide
example : (SectionWriter.write ⟨0, -4611686018427387904, 9223372036854775807⟩ 1 ⟨1, false⟩).2.1 = ⟨0, some .shortWrite⟩ := by decide

end Low
