import Generated.Ssa2.bitstr_cmpBytes
import LowModel.Bitstr
import LowProofs.Tie2.Lemmas
/-
  Tie: the definition regenerated from the SSA form of `bitstr.cmpBytes` (a function with a loop) equals the
  hand-written model `cmpBytes`.  The generated loop `bitstr_cmpBytes_loop5` walks an index `i` (`a[i]`, `b[i]`,
  `i++`, `i < len(a)`), the model's `cmpBytesShort` recurses over the two suffixes `a.drop i`, `b.drop i`;
  `cmpBytes_loop` relates the two by induction on the suffix of `a`.  The test `i < len(b)` after the loop is the
  model's case `[], _ :: _ => -1`; `b[i]` out of range inside the loop is the model's case `_ :: _, [] => none`.
-/
namespace Low
open Low.GoSem Low.TieL Low.Tie2L

/-- the loop, started at index `j` with at least `len(a) - j + 1` units of fuel -/
theorem cmpBytes_loop (fuel : Nat) (a b : List Nat) (hla : a.length < 2^63) :
    ∀ (ra rb : List Nat) (j gas : Nat), ra = a.drop j → rb = b.drop j → ra.length + 1 ≤ gas →
      Gen.Ssa2.bitstr_cmpBytes_loop5 fuel a b (a.length : Int) (b.length : Int) gas (j : Int)
        = cmpBytesShort ra rb
  | [], rb, j, gas, hra, hrb, hg => by
    obtain ⟨g, rfl⟩ : ∃ g, gas = g + 1 := ⟨gas - 1, by omega⟩
    have hj : ¬ j < a.length := Nat.not_lt.mpr (drop_eq_nil_le hra)
    rw [Gen.Ssa2.bitstr_cmpBytes_loop5]
    simp only [Int.ofNat_lt, decide_eq_true_eq, hj, ↓reduceIte]
    cases rb with
    | nil =>
      have hjb : ¬ j < b.length := Nat.not_lt.mpr (drop_eq_nil_le hrb)
      simp only [hjb, ↓reduceIte, cmpBytesShort]
    | cons y s =>
      have hjb : j < b.length := drop_eq_cons_lt hrb
      simp only [hjb, ↓reduceIte, cmpBytesShort]
  | x :: r, rb, j, gas, hra, hrb, hg => by
    obtain ⟨g, rfl⟩ : ∃ g, gas = g + 1 := ⟨gas - 1, by omega⟩
    have hj : j < a.length := drop_eq_cons_lt hra
    have hx : a[j]? = some x := getElem?_of_drop_eq_cons hra
    rw [Gen.Ssa2.bitstr_cmpBytes_loop5]
    simp only [Int.ofNat_lt, decide_eq_true_eq, hj, ↓reduceIte, index_ofNat, hx, Option.bind_some]
    cases rb with
    | nil =>
      have hy : b[j]? = none := getElem?_of_drop_eq_nil hrb
      simp only [hy, Option.bind_none, cmpBytesShort]
    | cons y s =>
      have hy : b[j]? = some y := getElem?_of_drop_eq_cons hrb
      have e1 : addI64 (j : Int) 1 = ((j + 1 : Nat) : Int) := by
        rw [addI64]; exact (wrap64_id (by omega) (by omega)).trans (by omega)
      have ih := cmpBytes_loop fuel a b hla r s (j + 1) g (drop_succ_of_drop_eq_cons hra)
        (drop_succ_of_drop_eq_cons hrb) (by simp only [List.length_cons] at hg; omega)
      simp only [hy, Option.bind_some, cmpBytesShort, gt_iff_lt, e1, ih]

/-- Domain: all byte slices `a`, `b` (no hypothesis on the lengths: the loop only runs when `len(a) < 8`, so `i + 1`
    cannot wrap; no hypothesis on the bytes).
    Fuel: every `fuel ≥ min (len a) 8 + 1` (the loop runs only for `len(a) < 8`, one iteration per byte of `a` plus
    the final test), in particular every `fuel ≥ 9`.
    Where the Go function panics (`len(a) < 8` and `b[i]` out of range before a difference is found) both sides
    are `none`.  `GoSem2.bytesCompare` is `Low.bytesCompare` by definition. -/
theorem Tie_bitstr_cmpBytes (a b : List Nat) (fuel : Nat) (hfuel : min a.length 8 + 1 ≤ fuel) :
    Gen.Ssa2.bitstr_cmpBytes fuel a b = cmpBytes a b := by
  rw [Gen.Ssa2.bitstr_cmpBytes, cmpBytes]
  simp only [len_eq, GoSem2.bytesCompare]
  by_cases h : a.length < 8
  · have h' : (a.length : Int) < 8 := by omega
    simp only [h, h', decide_true, ↓reduceIte]
    exact cmpBytes_loop fuel a b (by omega) a b 0 fuel rfl rfl (by omega)
  · have h' : ¬ (a.length : Int) < 8 := by omega
    simp only [h, h', decide_false, Bool.false_eq_true, ↓reduceIte]

example : Gen.Ssa2.bitstr_cmpBytes 4 [1, 2, 3] [1, 2, 3, 4] = some (-1) := by decide
example : cmpBytes [1, 2, 3] [1, 2, 3, 4] = some (-1) := by decide
example : Gen.Ssa2.bitstr_cmpBytes 4 [1, 2, 3] [1, 2] = none := by decide
example : Gen.Ssa2.bitstr_cmpBytes 9 [1, 2, 3, 4, 5, 6, 7, 8, 9] [1, 2, 3, 4, 5, 6, 7, 8] = some 1 := by decide
/-- out of fuel: with too little fuel the generated definition gives `none` -/
example : Gen.Ssa2.bitstr_cmpBytes 3 [1, 2, 3] [1, 2, 3, 4] = none := by decide

end Low
