import Generated.Ssa2.iohelper_SectionWriter_WriteAt
import LowModel.Iohelper
import LowProofs.Tie2.Lemmas
import LowProofs.Tie.iohelper_SectionWriter_Seek
/-
  Tie: the definition regenerated from the SSA form of `(*iohelper.SectionWriter).WriteAt` equals the hand-written
  model `SectionWriter.writeAt`.  The generated definition takes the receiver's fields `base`, `off`, `limit` (the
  method stores to none of them), the buffer `p`, the offset and the answer `ans` of the underlying `io.WriterAt`
  (external call, `GoSem2.extWriteAt`), and returns `(n, err, what was handed to the underlying writer)`.
  The model works with `len p` only (`plen`), and records the underlying call as `UCall = (offset, length)`.
-/
namespace Low
open Low.GoSem Low.TieL Low.Tie2L

/-- past the two guards (`0 ≤ off < wrap64 (limit - base)`) the remaining room `wrap64 (limit - wrap64 (off + base))`
    is exactly `wrap64 (limit - base) - off`, hence positive, whatever wrapped on the way: `p[0:max]` cannot panic -/
theorem WriteAt_room (base limit off : Int) (h0 : 0 ≤ off) (h1 : off < wrap64 (limit - base)) :
    wrap64 (limit - wrap64 (off + base)) = wrap64 (limit - base) - off := by
  unfold wrap64 at *
  simp only [M64] at *
  omega

/-- Domain: EVERY receiver state and every `off` (no range hypotheses: all `int64` sums wrap on both sides, and past
    the guards the room `max` is positive even if `limit - base` or `off + base` wrapped, see `WriteAt_room`), every
    buffer of a length that fits an `int` (`hp`: `convert int64 <- int (len p)` is the identity; always true in Go),
    every answer of the underlying writer.  Total: no panic. -/
theorem Tie_iohelper_SectionWriter_WriteAt (s : SectionWriter) (p : List Nat) (off : Int) (ans : UAns)
    (hp : p.length < 2^63) :
    Gen.Ssa2.iohelper_SectionWriter_WriteAt s.base s.off s.limit p off ⟨ans.accept, ans.fail⟩
      = some ((s.writeAt p.length off ans).1.n, ioErrId (s.writeAt p.length off ans).1.err,
              (s.writeAt p.length off ans).2.map (fun u => (u.off, (u.len : Int)))) := by
  rw [Gen.Ssa2.iohelper_SectionWriter_WriteAt, SectionWriter.writeAt]
  by_cases h0 : off < 0
  · simp [h0, ioErrId]
  · by_cases h1 : off ≥ wrap64 (s.limit - s.base)
    · simp [h0, h1, subI64, ioErrId]
    · have hroom := WriteAt_room s.base s.limit off (by omega) (by omega)
      have hlen : toI64 (len p) = (p.length : Int) := by rw [len_eq]; exact toI64_ofNat_lt (by omega)
      simp only [h0, h1, subI64, addI64, hlen, UAns.apply, GoSem2.extWriteAt, decide_false, Bool.false_eq_true,
        ↓reduceIte, or_self]
      generalize wrap64 (off + s.base) = off' at *
      by_cases h2 : (p.length : Int) > wrap64 (s.limit - off')
      · obtain ⟨m, hm⟩ : ∃ m : Nat, wrap64 (s.limit - off') = (m : Int) :=
          ⟨(wrap64 (s.limit - off')).toNat, by omega⟩
        rw [hm] at h2
        have hml : m ≤ p.length := by omega
        have hmin : min m p.length = m := by omega
        simp only [hm, h2, decide_true, ↓reduceIte, slice_zero_ofNat p hml, Option.bind_some, List.length_take, hmin,
          Int.toNat_natCast, len_eq, Option.map_some]
        by_cases hf : ans.fail = true <;> by_cases ha : ans.accept < m <;>
          simp [hf, ha, GoSem2.extErr, ioErrId]
      · simp only [h2, decide_false, Bool.false_eq_true, ↓reduceIte, len_eq, Option.map_some]
        by_cases hf : ans.fail = true <;> by_cases ha : ans.accept < p.length <;>
          simp [hf, ha, GoSem2.extErr, ioErrId]

example : Gen.Ssa2.iohelper_SectionWriter_WriteAt 10 12 20 [1, 2, 3, 4, 5, 6, 7, 8, 9, 10] 4 ⟨100, false⟩ = some (6, some "io.ErrShortWrite", some (14, 6)) := by decide
example : Gen.Ssa2.iohelper_SectionWriter_WriteAt 10 12 20 [1, 2, 3] 4 ⟨2, false⟩ = some (2, some "(error of the underlying writer)", some (14, 3)) := by decide
example : Gen.Ssa2.iohelper_SectionWriter_WriteAt 10 12 20 [1, 2, 3] 10 ⟨2, false⟩ = some (0, some "io.ErrShortWrite", none) := by decide
example : SectionWriter.writeAt ⟨10, 12, 20⟩ 10 4 ⟨100, false⟩ = (⟨6, some .shortWrite⟩, some ⟨14, 6⟩) := by decide
-- wrapped `limit - base` (here `-2^63 - (2^63 - 1)` wraps to `1`): still no panic
example : Gen.Ssa2.iohelper_SectionWriter_WriteAt 9223372036854775807 0 (-9223372036854775808) [1, 2] 0 ⟨5, false⟩ = some (1, some "io.ErrShortWrite", some (9223372036854775807, 1)) := by decide

end Low
