import Generated.Ssa2.bitmap_PrevOne
import LowModel.Bitmap.Next
import LowProofs.Tie2.Lemmas
/-
  Tie: the definition regenerated from the SSA form of `bitmap.PrevOne` (a function with a loop) equals the
  hand-written model `prevOne`.  The generated loop `bitmap_PrevOne_loop5` walks `end` DOWN (`bm[end>>6]`,
  `end -= 64`) through the values `64*k - 1` (`k` a natural number; `-1` for `k = 0`, where the loop test
  `end >= i` fails because `i ≥ 0`); the model's `prevLoop` recurses over `(bm.take k).reverse`.
  `PrevOne_loop` relates the two by induction on that reversed prefix, for an arbitrary continuation `kont`
  (the code after the loop, passed to the loop as `blk2`).
-/
namespace Low
open Low.GoSem Low.TieL Low.Tie2L

/-! ### local facts: reversed prefixes, leading zeros of a non-zero word -/

theorem PrevOne_take_succ_reverse {α : Type} (xs : List α) (k : Nat) (h : k < xs.length) :
    (xs.take (k + 1)).reverse = xs[k] :: (xs.take k).reverse := by
  rw [List.take_add_one, List.getElem?_eq_getElem h]; simp

theorem PrevOne_bitLen_pos (w : Nat) (h0 : w ≠ 0) : ∀ n, w < 2 ^ n → 1 ≤ bitLen w n
  | 0, h => by simp at h; omega
  | n+1, h => by
    unfold bitLen
    split
    · omega
    · rename_i hb
      apply PrevOne_bitLen_pos w h0 n
      apply Nat.lt_pow_two_of_testBit
      intro j hj
      by_cases hjn : j = n
      · subst hjn; simpa using hb
      · have : (2 : Nat) ^ (n + 1) ≤ 2 ^ j := Nat.pow_le_pow_right (by omega) (by omega)
        exact Nat.testBit_lt_two_pow (Nat.lt_of_lt_of_le h this)

/-- a non-zero `uint64` has fewer than 64 leading zeros -/
theorem PrevOne_lz_lt {w : Nat} (h0 : w ≠ 0) (h : w < 2 ^ 64) : lz w 64 < 64 := by
  have := PrevOne_bitLen_pos w h0 64 h
  unfold lz; omega

/-- the loop, started at `end = 64*k - 1` (`k ≤ len`) with at least `k + 1` units of fuel -/
theorem PrevOne_loop (fuel : Nat) (bm : List Nat) (i : Nat) (e : Int) (kont : Int → Option Int)
    (hlen : bm.length < 2^25) (hws : ∀ w ∈ bm, w < 2^64) :
    ∀ (rev : List Nat) (k gas : Nat), k ≤ bm.length → rev = (bm.take k).reverse → rev.length + 1 ≤ gas →
      Gen.Ssa2.bitmap_PrevOne_loop5 fuel bm (i : Int) e kont gas (((64 * k : Nat) : Int) - 1)
        = (prevLoop i rev k).bind (fun r => kont (match r with | none => -1 | some p => (p : Int)))
  | [], k, gas, hk, hr, hg => by
    obtain ⟨g, rfl⟩ : ∃ g, gas = g + 1 := ⟨gas - 1, by omega⟩
    have hk0 : k = 0 := by
      have := congrArg List.length hr
      simp at this; omega
    subst hk0
    rw [Gen.Ssa2.bitmap_PrevOne_loop5, prevLoop]
    have h1 : ¬ ((((64 * 0 : Nat) : Int) - 1) ≥ (i : Int)) := by omega
    have h2 : ¬ (64 * 0 > i) := by omega
    simp only [h1, h2, decide_false, Bool.false_eq_true, ↓reduceIte, Option.bind_some]
  | w :: r, k, gas, hk, hr, hg => by
    obtain ⟨g, rfl⟩ : ∃ g, gas = g + 1 := ⟨gas - 1, by omega⟩
    obtain ⟨k', rfl⟩ : ∃ k', k = k' + 1 := by
      refine ⟨k - 1, ?_⟩
      have := congrArg List.length hr
      simp at this; omega
    have hk'l : k' < bm.length := by omega
    rw [PrevOne_take_succ_reverse bm k' hk'l] at hr
    have hwe : w = bm[k'] := (List.cons.inj hr).1
    have hr' : r = (bm.take k').reverse := (List.cons.inj hr).2
    have hw : bm[k']? = some w := by rw [hwe]; exact List.getElem?_eq_getElem hk'l
    have hw64 : w < 2^64 := hws w (List.mem_of_getElem? hw)
    have ih := PrevOne_loop fuel bm i e kont hlen hws r k' g (by omega) hr'
      (by simp only [List.length_cons] at hg; omega)
    have hlz : lz w 64 ≤ 64 := lz_le _ _
    have es : shrI32 (((64 * (k' + 1) : Nat) : Int) - 1) 6 = (k' : Int) := by
      rw [shrI32_6]; omega
    rw [Gen.Ssa2.bitmap_PrevOne_loop5, prevLoop]
    simp only [es, index_ofNat, hw, Option.bind_some]
    by_cases h : 64 * (k' + 1) > i
    · have hge : (((64 * (k' + 1) : Nat) : Int) - 1) ≥ (i : Int) := by omega
      by_cases h0 : w = 0
      · have e1 : subI32 (((64 * (k' + 1) : Nat) : Int) - 1) 64 = ((64 * k' : Nat) : Int) - 1 := by
          rw [subI32]; exact (wrap32_id (by omega) (by omega)).trans (by omega)
        simp only [h, hge, h0, e1, ih, decide_true, ↓reduceIte, ne_eq, not_true_eq_false, decide_false,
          Bool.false_eq_true, Nat.add_sub_cancel]
      · have hlt : lz w 64 < 64 := PrevOne_lz_lt h0 hw64
        have e1 : subI32 (((64 * (k' + 1) : Nat) : Int) - 1) (toI32 (leadingZeros64 w))
            = ((64 * (k' + 1) - 1 - lz w 64 : Nat) : Int) := by
          rw [toI32_lz64, subI32]; exact (wrap32_id (by omega) (by omega)).trans (by omega)
        simp only [h, hge, h0, e1, decide_true, ↓reduceIte, ne_eq, not_false_eq_true, Option.bind_some]
    · have hge : ¬ ((((64 * (k' + 1) : Nat) : Int) - 1) ≥ (i : Int)) := by omega
      simp only [h, hge, decide_false, Bool.false_eq_true, ↓reduceIte, Option.bind_some]

/-- Domain: `bm` with fewer than `2^25` words (the project's `BmDom`: bit positions fit an `int32`, so neither
    `wordIdx<<6 + 63` nor `end - 64` wraps), every word a `uint64` (`< 2^64`: a non-zero word then has fewer than
    64 leading zeros, so `end - lz` is not below `64*(k-1)`; without it `lz w 64 = 64` is possible for a non-zero
    `w` and the model's truncated subtraction would differ from the code's `-1` on the lowest word),
    `end < 2^31` (`end` is a non-negative `int32`, as a `Nat`: excludes a wrap of `end - 1`; unlike `i` in
    `NextOne` an out-of-range `end` would NOT simply panic on both sides, because `int32(end-1)` could wrap back
    into range), `i` any natural number (only compared).
    Fuel: every `fuel ≥ len(bm)` (the loop starts below word `(end-1)/64 < len(bm)` and visits each lower word at
    most once, plus the final test).
    Where the Go function panics (`end = 0`: `bm[-1]`; `(end-1)/64 ≥ len(bm)`) both sides are `none`. -/
theorem Tie_bitmap_PrevOne (bm : List Nat) (i e fuel : Nat) (hlen : bm.length < 2^25)
    (hws : ∀ w ∈ bm, w < 2^64) (he : e < 2^31) (hfuel : bm.length ≤ fuel) :
    Gen.Ssa2.bitmap_PrevOne fuel bm (i : Int) (e : Int) = prevOne bm i e := by
  rw [Gen.Ssa2.bitmap_PrevOne, prevOne]
  by_cases he0 : e = 0
  · subst he0
    have e0 : subI32 ((0 : Nat) : Int) 1 = -1 := by decide
    have e1 : shrI32 (-1) 6 = -1 := by decide
    simp only [e0, e1, index_neg bm (by omega : (-1 : Int) < 0), Option.bind_none, ↓reduceIte]
  · have hj : (e - 1) % 64 < 64 := Nat.mod_lt _ (by omega)
    have e0 : subI32 (e : Int) 1 = ((e - 1 : Nat) : Int) := by
      rw [subI32]; exact (wrap32_id (by omega) (by omega)).trans (by omega)
    simp only [e0, he0, ↓reduceIte, shrI32_6_ofNat, andI32_63_ofNat, index_ofNat, tblMaskUpto_ofNat hj, andU64_eq]
    cases hw : bm[(e - 1) / 64]? with
    | none => rfl
    | some w0 =>
      have hil : (e - 1) / 64 < bm.length := (List.getElem?_eq_some_iff.mp hw).1
      simp only [Option.bind_some, Option.bind_eq_bind]
      have hword : w0 &&& maskUpto ((e - 1) % 64) < 2^64 := by
        have h1 : w0 &&& maskUpto ((e - 1) % 64) ≤ maskUpto ((e - 1) % 64) := Nat.and_le_right
        have h2 : (2 : Nat) ^ ((e - 1) % 64 + 1) ≤ 2 ^ 64 := Nat.pow_le_pow_right (by omega) (by omega)
        have h3 : 0 < (2 : Nat) ^ ((e - 1) % 64 + 1) := Nat.two_pow_pos _
        unfold maskUpto at h1 ⊢
        omega
      generalize w0 &&& maskUpto ((e - 1) % 64) = word at hword
      by_cases h0 : word = 0
      · have e2 : andI32 ((e - 1 : Nat) : Int) (-64) = ((64 * ((e - 1) / 64) : Nat) : Int) := by
          rw [andI32_neg64_ofNat (by omega), Nat.mul_comm]
        have e3 : subI32 ((64 * ((e - 1) / 64) : Nat) : Int) 1 = ((64 * ((e - 1) / 64) : Nat) : Int) - 1 := by
          rw [subI32]; exact wrap32_id (by omega) (by omega)
        simp only [h0, ne_eq, not_true_eq_false, decide_false, Bool.false_eq_true, ↓reduceIte, e2, e3]
        rw [PrevOne_loop fuel bm i e _ hlen hws _ ((e - 1) / 64) fuel (by omega) rfl
          (by simp only [List.length_reverse, List.length_take]; omega)]
        cases prevLoop i (List.take ((e - 1) / 64) bm).reverse ((e - 1) / 64) with
        | none => rfl
        | some r =>
          cases r with
          | none =>
            have : (-1 : Int) < (i : Int) := by omega
            simp [this]
          | some p =>
            simp only [Option.bind_some, Int.ofNat_lt, decide_eq_true_eq]
      · have hlt : lz word 64 < 64 := PrevOne_lz_lt h0 hword
        have e1 : shlI32 (((e - 1) / 64 : Nat) : Int) 6 = (((e - 1) / 64 * 64 : Nat) : Int) := shlI32_6_ofNat (by omega)
        have e2 : addI32 (((e - 1) / 64 * 64 : Nat) : Int) 63 = (((e - 1) / 64 * 64 + 63 : Nat) : Int) := by
          rw [addI32]; exact (wrap32_id (by omega) (by omega)).trans (by omega)
        have e3 : subI32 (((e - 1) / 64 * 64 + 63 : Nat) : Int) (toI32 (leadingZeros64 word))
            = (((e - 1) / 64 * 64 + 63 - lz word 64 : Nat) : Int) := by
          rw [toI32_lz64]; exact subI32_ofNat (by omega) (by omega)
        simp only [h0, ne_eq, not_false_eq_true, decide_true, ↓reduceIte, e1, e2, e3, Int.ofNat_lt, decide_eq_true_eq]

example : Gen.Ssa2.bitmap_PrevOne 3 [0x10, 0, 0] 3 192 = some 4 := by decide
example : prevOne [0x10, 0, 0] 3 192 = some 4 := by decide
example : Gen.Ssa2.bitmap_PrevOne 3 [0x10, 0, 0] 5 192 = some (-1) := by decide
/-- the fuel bound `len(bm)` is tight: with less the generated definition gives `none` (out of fuel) -/
example : Gen.Ssa2.bitmap_PrevOne 3 [0, 0, 0] 0 192 = some (-1) ∧ Gen.Ssa2.bitmap_PrevOne 2 [0, 0, 0] 0 192 = none := by decide
/-- `end = 0` reads `bm[-1]`: a panic on both sides -/
example : Gen.Ssa2.bitmap_PrevOne 3 [0x10, 0, 0] 0 0 = none ∧ prevOne [0x10, 0, 0] 0 0 = none := by decide

end Low
