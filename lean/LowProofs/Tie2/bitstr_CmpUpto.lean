import Generated.Ssa2.bitstr_CmpUpto
import LowModel.Bitstr
import LowProofs.Tie2.Lemmas
import LowProofs.Tie2.bitstr_cmpBytes
/-
  Tie: the definition regenerated from the SSA form of `bitstr.CmpUpto` (loop-free itself, but it calls `cmpBytes`,
  which has a loop, hence the `fuel` argument) equals the hand-written model `bsCmpUpto`.  The call of `cmpBytes` is
  replaced by the model's `cmpBytes` with `Tie_bitstr_cmpBytes`.
-/
namespace Low
open Low.GoSem Low.TieL Low.Tie2L

/-- `n - k` as an `int` for `k ≤ n` (`k` a literal of the generated code) -/
private theorem CmpUpto_sub {n : Nat} (k : Nat) (hk : k ≤ n) (h : n < 2^63) :
    subI64 (n : Int) (k : Int) = ((n - k : Nat) : Int) := subI64_ofNat hk h

/-- the sharper fuel bound: `fuel ≥ min (len a) 8 + 1` (both calls of `cmpBytes` get a first argument that is no
    longer than `a`) -/
theorem Tie_bitstr_CmpUpto_fuel (a b : List Nat) (fuel : Nat) (hlb : b.length < 2^63)
    (hfuel : min a.length 8 + 1 ≤ fuel) :
    Gen.Ssa2.bitstr_CmpUpto fuel a b = bsCmpUpto a b := by
  rw [Gen.Ssa2.bitstr_CmpUpto, bsCmpUpto]
  simp only [len_eq]
  by_cases h1 : b.length = 1
  · simp [h1]
  have h1' : ¬ (b.length : Int) = 1 := by omega
  simp only [h1, h1', decide_false, Bool.false_eq_true, ↓reduceIte]
  by_cases h0 : b.length = 0
  · -- `lb = 0`: `la < -1` is false, then `a[:-2]` panics
    have e1 : subI64 ((0 : Nat) : Int) 1 = -1 := by decide
    have e2 : subI64 ((0 : Nat) : Int) 2 = -2 := by decide
    have hlt : ¬ (a.length : Int) < -1 := by omega
    simp only [h0, e1, e2, hlt, decide_false, Bool.false_eq_true, ↓reduceIte, ite_self]
    rw [slice_neg _ _ (by omega)]; rfl
  -- `lb ≥ 2`
  have e1 : subI64 (b.length : Int) 1 = ((b.length - 1 : Nat) : Int) := CmpUpto_sub 1 (by omega) hlb
  have e2 : subI64 (b.length : Int) 2 = ((b.length - 2 : Nat) : Int) := CmpUpto_sub 2 (by omega) hlb
  have e3 : subI64 ((b.length - 1 : Nat) : Int) 1 = ((b.length - 1 - 1 : Nat) : Int) :=
    CmpUpto_sub 1 (by omega) (by omega)
  simp only [h0, ↓reduceIte, e1, e2, e3, Int.ofNat_lt, decide_eq_true_eq]
  by_cases hlt : a.length < b.length - 1
  · -- `la < lb-1`: `cmpBytes(a, b[:lb-1])`
    simp only [hlt, ↓reduceIte]
    rw [slice_zero_ofNat _ (by omega), Option.bind_some, Tie_bitstr_cmpBytes _ _ _ hfuel]
    cases cmpBytes a (List.take (b.length - 1) b) <;> rfl
  · -- `la ≥ lb-1`: `cmpBytes(a[:lb-2], b[:lb-2])`, then the last byte under the mask
    simp only [hlt, ↓reduceIte]
    rw [slice_zero_ofNat _ (by omega), Option.bind_some, slice_zero_ofNat _ (by omega), Option.bind_some,
      Tie_bitstr_cmpBytes _ _ _ (by simp only [List.length_take]; omega)]
    cases cmpBytes (List.take (b.length - 2) a) (List.take (b.length - 2) b) with
    | none => rfl
    | some rst =>
      simp only [Option.bind_some, ne_eq, ite_not, index_ofNat, andU8, gt_iff_lt]
      by_cases hr : rst = 0
      · simp only [hr, ↓reduceIte]
        cases a[b.length - 1 - 1]? <;> cases b[b.length - 1]? <;> cases b[b.length - 1 - 1]? <;> rfl
      · simp only [hr, ↓reduceIte]

/-- Domain: `len(b) < 2^63` (a Go length always fits an `int`; the hypothesis only excludes a wrap of `lb - 1`,
    `lb - 2` that cannot happen).  No hypothesis on `len(a)` (it is only compared and used as a slice bound) and
    none on the bytes (`&` on `Nat` is the byte `&`).
    Fuel: every `fuel ≥ 9` (the loop of `cmpBytes` runs only on a first argument shorter than 8 bytes).
    Where the Go function panics (`lb = 0`: `a[:-2]`; `lb ≥ 2` with `cmpBytes` running out of `b`; the byte reads)
    both sides are `none`. -/
theorem Tie_bitstr_CmpUpto (a b : List Nat) (fuel : Nat) (hlb : b.length < 2^63) (hfuel : 9 ≤ fuel) :
    Gen.Ssa2.bitstr_CmpUpto fuel a b = bsCmpUpto a b :=
  Tie_bitstr_CmpUpto_fuel a b fuel hlb (by omega)

example : Gen.Ssa2.bitstr_CmpUpto 9 [1, 2, 0xab, 7] [1, 2, 0xa0, 0xf0] = some 0 := by decide
example : bsCmpUpto [1, 2, 0xab, 7] [1, 2, 0xa0, 0xf0] = some 0 := by decide
example : Gen.Ssa2.bitstr_CmpUpto 9 [1, 2] [1, 2, 0xa0, 0xf0] = some (-1) := by decide
example : Gen.Ssa2.bitstr_CmpUpto 9 [1, 2, 0xab] [] = none := by decide
example : Gen.Ssa2.bitstr_CmpUpto 9 [1, 2, 0xbb, 7] [1, 2, 0xa0, 0xf0] = some 1 := by decide

end Low
