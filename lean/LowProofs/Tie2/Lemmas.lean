import LowModel.GoSem2
import LowProofs.Tie.Lemmas
/-
  Helper lemmas for the tie proofs of the functions with loops (`LowProofs/Tie2/*.lean`), on top of
  `LowProofs/Tie/Lemmas.lean` (`Low.TieL`): more `GoSem` arithmetic on in-range arguments, the `GoSem2` vocabulary,
  and the list facts that relate an index-based loop (`xs[j]`, `j := j + 1`) to a recursion over the suffix
  `xs.drop j` (the shape of the model's loops).
-/
namespace Low.Tie2L
open Low Low.GoSem Low.TieL

/-! ### math/bits bounds -/

theorem tz_le : ∀ (n w : Nat), tz w n ≤ n
  | 0, _ => by simp [tz]
  | n+1, w => by
    unfold tz
    split
    · omega
    · have := tz_le n (w >>> 1); omega

theorem bitLen_le (w : Nat) : ∀ n, bitLen w n ≤ n
  | 0 => by simp [bitLen]
  | n+1 => by
    unfold bitLen
    split
    · omega
    · have := bitLen_le w n; omega

theorem toI32_tz64 (w : Nat) : toI32 (trailingZeros64 w) = ((tz w 64 : Nat) : Int) := by
  rw [trailingZeros64]; exact toI32_ofNat_lt (by have := tz_le 64 w; omega)

theorem toI32_lz64 (w : Nat) : toI32 (leadingZeros64 w) = ((lz w 64 : Nat) : Int) := by
  rw [leadingZeros64]; exact toI32_ofNat_lt (by have := lz_le w 64; omega)

theorem toI32_popc64 (w : Nat) : toI32 (onesCount64 w) = ((popc w 64 : Nat) : Int) := by
  rw [onesCount64]; exact toI32_ofNat_lt (by have := popc_le w 64; omega)

/-! ### tables -/

theorem tblRMask_ofNat {k : Nat} (h : k < 65) : tblRMask (k : Int) = some (rmask k) := tbl_ofNat h
theorem tblMaskUpto_ofNat {k : Nat} (h : k < 64) : tblMaskUpto (k : Int) = some (maskUpto k) := tbl_ofNat h
theorem tblRMaskUpto_ofNat {k : Nat} (h : k < 64) : tblRMaskUpto (k : Int) = some (rmaskUpto k) := tbl_ofNat h

theorem tbl_neg {n : Nat} {f : Nat → Nat} {k : Int} (h : k < 0) : tbl n f k = none := by
  unfold tbl; simp; omega

theorem tbl_ge {n : Nat} {f : Nat → Nat} {k : Int} (h : (n : Int) ≤ k) : tbl n f k = none := by
  unfold tbl; simp; omega

theorem tblSelect8_ofNat (k : Nat) : GoSem2.tblSelect8 (k : Int) = sel8 k := by
  unfold GoSem2.tblSelect8 sel8
  have : ¬ ((k : Int) < 0) := by omega
  simp [this]

theorem tblIdxToPath_ofNat {i : Nat} (h : i < 9) (j : Int) :
    GoSem2.tblIdxToPath (i : Int) j = index (idxToPathRow i) j := by
  unfold GoSem2.tblIdxToPath; simp; omega

/-- rows 9..15 of the model's table are empty, like the rows the Go literal does not have -/
theorem tblIdxToPath_eq {i : Nat} (h : i < 16) (j : Int) :
    GoSem2.tblIdxToPath (i : Int) j = index (idxToPathRow i) j := by
  by_cases h9 : i < 9
  · exact tblIdxToPath_ofNat h9 j
  · have hrow : idxToPathRow i = [] := by
      have : i = 9 ∨ i = 10 ∨ i = 11 ∨ i = 12 ∨ i = 13 ∨ i = 14 ∨ i = 15 := by omega
      rcases this with h | h | h | h | h | h | h <;> subst h <;> rfl
    unfold GoSem2.tblIdxToPath index
    rw [hrow]
    simp
    omega

/-! ### int32 arithmetic on natural numbers -/

/-- `n & -2^k` (i.e. `n & ^(2^k - 1)`) on 32-bit patterns clears the low `k` bits -/
theorem and_negPow {n : Nat} (h : n < 4294967296) (k : Nat) (hk : k ≤ 32) :
    n &&& (4294967296 - 2 ^ k) = n / 2 ^ k * 2 ^ k := by
  have e : (4294967296 - 2 ^ k : Nat) = (2 ^ (32 - k) - 1) <<< k := by
    rw [Nat.shiftLeft_eq, Nat.sub_mul, ← Nat.pow_add, show 32 - k + k = 32 by omega]; simp
  have e2 : n / 2 ^ k * 2 ^ k = (n >>> k) <<< k := by rw [Nat.shiftLeft_eq, Nat.shiftRight_eq_div_pow]
  apply Nat.eq_of_testBit_eq; intro b
  rw [e, e2, Nat.testBit_and, Nat.testBit_shiftLeft, Nat.testBit_shiftLeft, Nat.testBit_two_pow_sub_one,
    Nat.testBit_shiftRight]
  by_cases hb : k ≤ b
  · have e3 : k + (b - k) = b := by omega
    rw [e3]
    by_cases hb2 : b < 32
    · have : b - k < 32 - k := by omega
      simp [hb, this]
    · have h32 : (2 : Nat) ^ 32 ≤ 2 ^ b := Nat.pow_le_pow_right (by omega) (by omega)
      have : n.testBit b = false := Nat.testBit_lt_two_pow (Nat.lt_of_lt_of_le h h32)
      simp [this]
  · simp [hb]

theorem andI32_neg64_ofNat {n : Nat} (h : n < 2147483648) : andI32 (n : Int) (-64) = ((n / 64 * 64 : Nat) : Int) := by
  have hm : u32 (-64) = 4294967296 - 2 ^ 6 := by decide
  rw [andI32, u32_ofNat_lt (by omega), hm, and_negPow (by omega) 6 (by omega)]
  exact wrap32_ofNat (by simp only [Nat.reducePow]; omega)

theorem shlI32_ofNat {n s : Nat} (h : n * 2 ^ s < 2147483648) : shlI32 (n : Int) s = ((n * 2 ^ s : Nat) : Int) := by
  rw [shlI32]
  have : (n : Int) * 2 ^ s = ((n * 2 ^ s : Nat) : Int) := by simp
  rw [this]; exact wrap32_ofNat h

theorem shlI32_6_ofNat {n : Nat} (h : n * 64 < 2147483648) : shlI32 (n : Int) 6 = ((n * 64 : Nat) : Int) :=
  shlI32_ofNat (s := 6) h

theorem shrI32_5_ofNat (n : Nat) : shrI32 (n : Int) 5 = ((n / 32 : Nat) : Int) := by
  rw [shrI32_ofNat, Nat.shiftRight_eq_div_pow]

theorem and_31 (n : Nat) : n &&& 31 = n % 32 := Nat.and_two_pow_sub_one_eq_mod n 5

theorem andI32_31_ofNat (n : Nat) : andI32 (n : Int) 31 = ((n % 32 : Nat) : Int) := by
  unfold andI32
  have h31 : u32 31 = 31 := by decide
  rw [h31, and_31]
  unfold u32; simp only [M32]
  apply (wrap32_id (by omega) (by omega)).trans
  omega

theorem subI32_natCast {a b : Nat} (hb : b ≤ a) (h : a < 2147483648) :
    subI32 (a : Int) (b : Int) = ((a - b : Nat) : Int) := subI32_ofNat hb h

/-! ### int64 / int arithmetic on natural numbers -/

theorem addI64_ofNat {a b : Nat} (h : a + b < 9223372036854775808) : addI64 (a : Int) (b : Int) = ((a + b : Nat) : Int) := by
  rw [addI64]; exact (wrap64_id (by omega) (by omega)).trans (by omega)

theorem subI64_ofNat {a b : Nat} (hle : b ≤ a) (h : a < 9223372036854775808) :
    subI64 (a : Int) (b : Int) = ((a - b : Nat) : Int) := by
  rw [subI64]; exact (wrap64_id (by omega) (by omega)).trans (by omega)

theorem toI64_ofNat_lt {n : Nat} (h : n < 9223372036854775808) : toI64 (n : Int) = n := by
  rw [toI64]; exact wrap64_ofNat h

theorem toI64_id {x : Int} (h1 : -9223372036854775808 ≤ x) (h2 : x < 9223372036854775808) : toI64 x = x := by
  rw [toI64]; exact wrap64_id h1 h2

/-! ### slices -/

theorem len_eq {α : Type} (xs : List α) : len xs = (xs.length : Int) := rfl

/-- `xs[:k]` -/
theorem slice_zero_ofNat {α : Type} (xs : List α) {k : Nat} (h : k ≤ xs.length) :
    GoSem2.slice xs 0 (k : Int) = some (xs.take k) := by
  unfold GoSem2.slice; simp; omega

theorem slice_neg {α : Type} (xs : List α) (lo : Int) {hi : Int} (h : hi < 0) : GoSem2.slice xs lo hi = none := by
  unfold GoSem2.slice; simp; omega

theorem slice_gt {α : Type} (xs : List α) (lo : Int) {hi : Int} (h : (xs.length : Int) < hi) :
    GoSem2.slice xs lo hi = none := by
  unfold GoSem2.slice; simp; omega

/-! ### an index into a list and the suffix that starts there -/

theorem drop_eq_nil_le {α : Type} {xs : List α} {j : Nat} (h : [] = xs.drop j) : xs.length ≤ j := by
  have := congrArg List.length h; simp at this; omega

theorem getElem?_of_drop_eq_nil {α : Type} {xs : List α} {j : Nat} (h : [] = xs.drop j) : xs[j]? = none :=
  List.getElem?_eq_none (drop_eq_nil_le h)

theorem drop_eq_cons_lt {α : Type} {xs r : List α} {w : α} {j : Nat} (h : w :: r = xs.drop j) : j < xs.length := by
  have := congrArg List.length h; simp at this; omega

theorem getElem?_of_drop_eq_cons {α : Type} {xs r : List α} {w : α} {j : Nat} (h : w :: r = xs.drop j) :
    xs[j]? = some w := by
  have := congrArg (fun l => l[0]?) h
  simpa using this.symm

theorem drop_succ_of_drop_eq_cons {α : Type} {xs r : List α} {w : α} {j : Nat} (h : w :: r = xs.drop j) :
    r = xs.drop (j + 1) := by
  have := congrArg List.tail h
  simpa using this

theorem length_of_drop_eq {α : Type} {xs r : List α} {j : Nat} (h : r = xs.drop j) : r.length = xs.length - j := by
  rw [h]; simp

end Low.Tie2L
