import Generated.Ssa2.bmtree_IndexToPath
import LowModel.Bmtree.Index
import LowProofs.Tie2.Lemmas
/-
  Tie: the definition regenerated from the SSA form of `bmtree.IndexToPath` (a function with a loop) equals the
  hand-written model `indexToPath`.

  Straight-line part (the common-prefix shortcut under `treeheight > 4`): every `tN` of the generated definition is
  matched with the corresponding `let` of the model (`e5 … e31` in the main proof); the only non-syntactic steps are
  `u32 (wrap32 x) = u32 x` (an int32 reinterpreted as uint32), `wrap32 (wrap32 a + b) = wrap32 (a + b)` (the model
  wraps `a - fixed + popcount` once, the code twice) and the in-range facts `0 ≤ 32 - lz ≤ 32`, `treeheight + 1` does not
  overflow.

  Loop: the generated `bmtree_IndexToPath_loop5` returns `none` when its fuel is used up, the model's `i2pLoop` is
  started with fuel 64 and returns the state it has reached.  `I2PL.loop` shows that both perform the same steps and
  both leave through the loop CONDITION whenever `mask` has a set bit at a position `j` below both fuels: the bit moves
  down one position per iteration (`mask >>= 1`) and the condition `mask & 15 == 0` fails at the latest when it reaches
  position 0.  The code after the loop (`blk4`: table read, `p2>>1 | v`) is `I2PL.tail` of the final state.
  Main theorem: at loop entry the bit `treeheight` of `0x100000001 << treeheight`, shifted down by `fixed ≤ treeheight`
  (`fixed ≤ treeheight` because `index - treeheight` and `index` differ, so `diffbits ≥ 1`), is such a bit, at a
  position `≤ min treeheight 31`.
-/
namespace Low
open Low.GoSem Low.TieL Low.Tie2L

namespace I2PL

theorem u32_lt (x : Int) : u32 x < 4294967296 := by unfold u32; simp only [M32]; omega
theorem u32_wrap32 (x : Int) : u32 (wrap32 x) = u32 x := by
  unfold u32 wrap32; simp only [M32]; split <;> omega
theorem wrap32_add_left (a b : Int) : wrap32 (wrap32 a + b) = wrap32 (a + b) := by
  unfold wrap32; simp only [M32]; split <;> split <;> omega

/-- the code after the loop (`blk4`) as a function of the loop's final state `(p2, mask, index)`:
    the same expression as the end of the model's `indexToPath` -/
def tail (s : Nat × Nat × Int) : Option Nat :=
  if s.2.2 < 0 then none else
  match (idxToPathRow (s.2.1 &&& 15))[s.2.2.toNat]? with
  | none => none
  | some v => some ((s.1 >>> 1) ||| v)

theorem and15_lt (m : Nat) : m &&& 15 < 16 := by
  have : m &&& 15 ≤ 15 := Nat.and_le_right; omega

/-- the generated `blk4` (with `t48 = idx`, `t49 = p2`, `t50 = msk`) is `tail` -/
theorem blk4_eq (p2 msk : Nat) (idx : Int) :
    (Option.bind (GoSem2.tblIdxToPath ((andU64 msk 15 : Nat) : Int) idx) fun t45 => some (orU64 (shrU64 p2 1) t45))
      = tail (p2, msk, idx) := by
  rw [andU64_eq, tblIdxToPath_eq (and15_lt msk), shrU64_lt _ (by omega), tail]
  simp only [orU64_eq]
  by_cases h : idx < 0
  · simp [index_neg _ h, h]
  · rw [index_toNat _ (by omega), if_neg h]
    cases (idxToPathRow (msk &&& 15))[idx.toNat]? <;> rfl

/-- The loop.  If `msk` has bit `j` set and both the generated loop's counter `gas` and the model's fuel `fm` exceed `j`,
    the generated loop followed by `blk4` is `tail` of the model's loop: both run the same iterations and stop because the
    loop condition fails (no hypothesis on `idx`, `p2`; the arithmetic of one iteration is matched syntactically). -/
theorem loop (fuel : Nat) (th index : Int) :
    ∀ (j gas fm : Nat) (idx : Int) (p2 msk : Nat), msk.testBit j = true → j < gas → j < fm →
      Gen.Ssa2.bmtree_IndexToPath_loop5 fuel th index gas idx p2 msk = tail (i2pLoop fm p2 msk idx) := by
  intro j
  induction j with
  | zero =>
    intro gas fm idx p2 msk hb hg hf
    obtain ⟨g, rfl⟩ : ∃ g, gas = g + 1 := ⟨gas - 1, by omega⟩
    obtain ⟨f, rfl⟩ : ∃ f, fm = f + 1 := ⟨fm - 1, by omega⟩
    have h15 : ¬ (msk &&& 15 = 0) := by
      intro h
      have h0 : (msk &&& 15).testBit 0 = true := by rw [Nat.testBit_and, hb]; rfl
      rw [h, Nat.zero_testBit] at h0
      exact Bool.false_ne_true h0
    rw [Gen.Ssa2.bmtree_IndexToPath_loop5, i2pLoop]
    simp only [blk4_eq]
    simp only [andU64_eq, h15, decide_false, Bool.false_eq_true, ↓reduceIte, false_and]
  | succ j ih =>
    intro gas fm idx p2 msk hb hg hf
    obtain ⟨g, rfl⟩ : ∃ g, gas = g + 1 := ⟨gas - 1, by omega⟩
    obtain ⟨f, rfl⟩ : ∃ f, fm = f + 1 := ⟨fm - 1, by omega⟩
    have hb' : (msk >>> 1).testBit j = true := by rw [Nat.testBit_shiftRight, Nat.add_comm]; exact hb
    rw [Gen.Ssa2.bmtree_IndexToPath_loop5, i2pLoop]
    simp only [blk4_eq]
    by_cases h1 : msk &&& 15 = 0
    · by_cases h2 : idx > 0
      · simp only [andU64_eq, h1, h2, decide_true, ↓reduceIte, and_self, orU64_eq, shlU64_eq, toU64, toI32, subI32,
          shrU64_lt _ (show 32 < 64 by omega), shrU64_lt _ (show 1 < 64 by omega), decide_eq_true_eq]
        split
        · exact ih g f _ _ _ hb' (by omega) (by omega)
        · exact ih g f _ _ _ hb' (by omega) (by omega)
      · simp only [andU64_eq, h1, h2, decide_true, decide_false, Bool.false_eq_true, ↓reduceIte, and_false]
    · simp only [andU64_eq, h1, decide_false, Bool.false_eq_true, ↓reduceIte, false_and]

theorem subU64_eq (x y : Nat) : subU64 x y = sub64 x y := by rw [subU64]
theorem notU64_eq (x : Nat) : notU64 x = not64 x := by rw [notU64]

theorem eq_of_xor_eq_zero {a b : Nat} (h : a ^^^ b = 0) : a = b := by
  have : a ^^^ (a ^^^ b) = b := by rw [← Nat.xor_assoc, Nat.xor_self, Nat.zero_xor]
  rw [h, Nat.xor_zero] at this; exact this

theorem bitLen_gt {w i : Nat} (hb : w.testBit i = true) : ∀ n, i < n → i + 1 ≤ bitLen w n
  | 0, h => by omega
  | n+1, h => by
    unfold bitLen
    split
    · omega
    · rename_i hn
      have : i ≠ n := fun e => hn (e ▸ hb)
      exact bitLen_gt hb n (by omega)

/-- a non-zero 32-bit value has fewer than 32 leading zeros -/
theorem lz32_lt {x : Nat} (h0 : x ≠ 0) (hx : x < 4294967296) : lz x 32 ≤ 31 := by
  obtain ⟨i, hi⟩ := Nat.exists_testBit_of_ne_zero h0
  have hi32 : i < 32 := by
    apply Classical.byContradiction; intro hge
    have : (2 : Nat) ^ 32 ≤ 2 ^ i := Nat.pow_le_pow_right (by omega) (by omega)
    have hf : x.testBit i = false := Nat.testBit_lt_two_pow (Nat.lt_of_lt_of_le hx this)
    rw [hf] at hi; exact Bool.false_ne_true hi
  have := bitLen_gt hi 32 hi32
  unfold lz; omega

/-- `int32(index - th)` and `index` differ as bit patterns when `0 < th < 2^32` -/
theorem xor_ne_zero {th : Nat} (index : Int) (h0 : 0 < th) (h1 : th < 4294967296) :
    u32 (wrap32 (index - th)) ^^^ u32 index ≠ 0 := by
  intro h
  have := eq_of_xor_eq_zero h
  rw [u32_wrap32] at this
  unfold u32 at this; simp only [M32] at this; omega

/-- bit `th` of the initial mask `0x100000001 << th` -/
theorem msk0_bit_lo {th : Nat} (h : th < 64) : (shl64 4294967297 th).testBit th = true := by
  rw [shl64, if_pos h, show M64 = 2 ^ 64 from rfl, Nat.testBit_mod_two_pow, Nat.testBit_shiftLeft]
  simp [h]

end I2PL
open I2PL

/-- Domain: `treeheight` as a `Nat` with `th ≤ 63` (the library's contract is `th ≤ 30`, `bitmapSizeCheck`).  The bound is
    what the model needs: for `th ≤ 63` the mask `0x100000001 << th` still has its low bit `th`, which reaches the low
    four bits after at most `min th 31` iterations, within the model's own fuel 64.  It also excludes the int32
    overflow of `treeheight + 1` (at `th = 2^31-1`), which the model's `fixed` does not wrap.  For `th ≥ 64` the mask is
    0, the Go loop then counts `index` down to 0 one by one (up to 2^31 iterations) while the model's `i2pLoop 64` stops
    after 64 iterations: the two differ there, e.g. `th = 64, index = 286`: generated (any fuel ≥ 231)
    `some 616327806720`, model `none` (outside the contract; see the report).
    `index`: ANY integer, no hypothesis (every int32 operation wraps in the same way on both sides; negative `index`
    and `index` beyond the table row give `none` = index-out-of-range panic on both sides).
    Fuel: every `fuel ≥ min th 31 + 1` (so `fuel ≥ 32` always suffices). -/
theorem Tie_bmtree_IndexToPath (th : Nat) (index : Int) (fuel : Nat) (hth : th ≤ 63) (hfuel : min th 31 + 1 ≤ fuel) :
    Gen.Ssa2.bmtree_IndexToPath fuel (th : Int) index = indexToPath th index := by
  have e0 : toU64 (th : Int) = th := toU64_ofNat_lt (by omega)
  rw [Gen.Ssa2.bmtree_IndexToPath, indexToPath]
  simp only [e0, shlU64_eq]
  by_cases h4 : th > 4
  · have h4' : ((th : Int) > 4) := by omega
    have hX : u32 (wrap32 (index - th)) ^^^ u32 index < 4294967296 :=
      Nat.xor_lt_two_pow (n := 32) (u32_lt _) (u32_lt _)
    have e5 : toU32 (xorI32 (subI32 index th) index) = u32 (wrap32 (index - th)) ^^^ u32 index := by
      rw [toU32, xorI32, subI32, u32_wrap32, u32_ofNat]
      exact Nat.mod_eq_of_lt hX
    simp only [h4, h4', decide_true, ↓reduceIte, e5]
    have hL31 := lz32_lt (xor_ne_zero index (by omega : 0 < th) (by omega)) hX
    generalize hL : lz (u32 (wrap32 (index - th)) ^^^ u32 index) 32 = L at hL31 ⊢
    have e8 : subI32 32 (toI32 (leadingZeros32 (u32 (wrap32 (index - th)) ^^^ u32 index))) = 32 - (L : Int) := by
      rw [leadingZeros32, hL, toI32_ofNat_lt (by omega), subI32]; exact wrap32_id (by omega) (by omega)
    have e9 : addI32 (th : Int) 1 = (th : Int) + 1 := by rw [addI32]; exact wrap32_id (by omega) (by omega)
    have e10 : subI32 ((th : Int) + 1) (32 - (L : Int)) = (th : Int) + 1 - (32 - (L : Int)) := by
      rw [subI32]; exact wrap32_id (by omega) (by omega)
    simp only [e8, e9, e10]
    by_cases hfix : (th : Int) + 1 - (32 - (L : Int)) > 0
    · simp only [hfix, decide_true, ↓reduceIte]
      have e13 : toU64 (32 - (L : Int)) = (32 - (L : Int)).toNat := by
        rw [toU64]; unfold u64; simp only [M64]; omega
      generalize hF : (th : Int) + 1 - (32 - (L : Int)) = F at hfix ⊢
      have e30 : toU64 F = F.toNat := by
        rw [toU64]; unfold u64; simp only [M64]; omega
      simp only [e13, e30, subU64_eq, notU64_eq]
      generalize sub64 (shl64 (shl64 4294967297 th) 1) (shl64 4294967297 (32 - (L : Int)).toNat) = m
      have e22 : ∀ n : Nat, andI32 index (toI32 (n : Int)) = wrap32 ((u32 index &&& n % M32 : Nat) : Int) := by
        intro n; rw [andI32, toI32, u32_wrap32, u32_ofNat]
      have e26 : ∀ n : Nat, toU32 (wrap32 ((u32 index &&& n % M32 : Nat) : Int)) = u32 index &&& n % M32 := by
        intro n; rw [toU32, u32_wrap32, u32_ofNat]
        exact Nat.mod_eq_of_lt (Nat.lt_of_le_of_lt Nat.and_le_left (u32_lt _))
      have e28 : ∀ x : Nat, toI32 (onesCount32 x) = ((popc x 32 : Nat) : Int) := by
        intro x; rw [onesCount32]; exact toI32_ofNat_lt (by have := popc_le x 32; omega)
      have e29 : ∀ a b c : Int, addI32 (subI32 a b) c = wrap32 (a - b + c) := by
        intro a b c; rw [addI32, subI32, wrap32_add_left]
      have e31 : shrU64 (shl64 4294967297 th) F.toNat = shl64 4294967297 th >>> F.toNat := shrU64_lt _ (by omega)
      simp only [e22, e26, e28, e29, e31, andU64_eq, orU64_eq, toU64]
      have hbit : (shl64 4294967297 th >>> F.toNat).testBit (th - F.toNat) = true := by
        rw [Nat.testBit_shiftRight, show F.toNat + (th - F.toNat) = th by omega]
        exact msk0_bit_lo (by omega)
      exact loop fuel _ _ (th - F.toNat) fuel 64 _ _ _ hbit (by omega) (by omega)
    · simp only [hfix, decide_false, Bool.false_eq_true, ↓reduceIte]
      exact loop fuel _ _ th fuel 64 index 0 _ (msk0_bit_lo (by omega)) (by omega) (by omega)
  · have h4' : ¬ ((th : Int) > 4) := by omega
    simp only [h4, h4', decide_false, Bool.false_eq_true, ↓reduceIte]
    exact loop fuel _ _ th fuel 64 index 0 _ (msk0_bit_lo (by omega)) (by omega) (by omega)

example : Gen.Ssa2.bmtree_IndexToPath 7 (6 : Int) 37 = some 68719476799 := by decide
example : indexToPath 6 37 = some 68719476799 := by decide
example : Gen.Ssa2.bmtree_IndexToPath 32 (30 : Int) 1000000 = some 2147441772068862 := by decide
example : Gen.Ssa2.bmtree_IndexToPath 32 (30 : Int) 1000000 = indexToPath 30 1000000 := Tie_bmtree_IndexToPath 30 1000000 32 (by omega) (by omega)
-- table index out of range: both sides panic
example : Gen.Ssa2.bmtree_IndexToPath 4 (3 : Int) 15 = none ∧ indexToPath 3 15 = none := by decide
-- out of fuel: with too little fuel the generated definition gives `none`
example : Gen.Ssa2.bmtree_IndexToPath 2 (6 : Int) 37 = none := by decide

end Low
