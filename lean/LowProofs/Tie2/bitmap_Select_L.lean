import LowModel.Bitmap.Select
import LowProofs.Tie2.Lemmas
/-
  Shared lemmas for the ties of `bitmap.Select32` and `bitmap.Select32R64`:
   * `selChain`: the `32 / 16 / 8 / table` in-word search in the shape in which go/ssa emits it (a chain of join
     blocks, generic in the continuation `k` = the code after the search), `selChain_eq`: it is the model's `selWord`,
     `selChain_neg`: with a negative `findIth` the table index `uint64(findIth)` is out of range (panic);
   * `scan_loop`: the final "next non-zero word" loop, for any function `L` that satisfies the one-step equation of
     the generated loop, is the model's `nextNonZero`.
-/
namespace Low.Tie2Sel
open Low Low.GoSem Low.TieL Low.Tie2L

/-- the two `int32` results, from the model's `Nat`s -/
def castPair (p : Nat × Nat) : Int × Int := ((p.1 : Int), (p.2 : Int))

/-! ### the byte table -/

/-- `select8Lookup` as a list (the array of the model is this list's `toArray`) -/
theorem sel8_eq (idx : Nat) : sel8 idx = ((List.range 256).flatMap (sel8Row 8))[idx]? := by
  unfold sel8 select8Table
  rw [List.getElem?_toArray]

theorem sel8List_length : ((List.range 256).flatMap (sel8Row 8)).length = 2048 := by decide +kernel

theorem sel8List_le : ((List.range 256).flatMap (sel8Row 8)).all (fun v => decide (v ≤ 8)) = true := by
  decide +kernel

/-- every table entry is at most 8 (8 = "not found") -/
theorem sel8_le {idx v : Nat} (h : sel8 idx = some v) : v ≤ 8 := by
  rw [sel8_eq] at h
  have hm := List.mem_of_getElem? h
  have := (List.all_eq_true.mp sel8List_le) v hm
  simpa using this

/-- the table has 2048 entries -/
theorem sel8_ge {idx : Nat} (h : 2048 ≤ idx) : sel8 idx = none := by
  rw [sel8_eq]
  exact List.getElem?_eq_none (by rw [sel8List_length]; exact h)

/-! ### the in-word search as emitted -/

/-- blocks 7/8/10 of `Select32R64` (10/11/13 of `Select32`): the byte step and the table lookup -/
def selChain3 {α : Type} (k : Int → Option α) (ww : Nat) (f : Int) (off : Int) : Option α :=
  if decide (onesCount8 (toU8 (ww : Int)) ≤ f) = true then
    Option.bind (GoSem2.tblSelect8
        ((orU64 (andU64 (shrU64 ww 5) 2040) (toU64 (subI64 f (onesCount8 (toU8 (ww : Int))))) : Nat) : Int))
      fun v => k (addI32 (addI32 (toI32 (v : Int)) off) 8)
  else
    Option.bind (GoSem2.tblSelect8 ((orU64 (shlU64 (andU64 ww 255) 3) (toU64 f) : Nat) : Int))
      fun v => k (addI32 (toI32 (v : Int)) off)

/-- blocks 5/6: the 16-bit step -/
def selChain2 {α : Type} (k : Int → Option α) (ww : Nat) (f : Int) (off : Int) : Option α :=
  if decide (onesCount16 (GoSem2.toU16 (ww : Int)) ≤ f) = true then
    selChain3 k (shrU64 ww 16) (subI64 f (onesCount16 (GoSem2.toU16 (ww : Int)))) (orI32 off 16)
  else selChain3 k ww f off

/-- the 32-bit step, then the rest -/
def selChain {α : Type} (k : Int → Option α) (w : Nat) (f : Int) : Option α :=
  if decide (onesCount32 (toU32 (w : Int)) ≤ f) = true then
    selChain2 k (shrU64 w 32) (subI64 f (onesCount32 (toU32 (w : Int)))) (orI32 0 32)
  else selChain2 k w f 0

/-! ### `selWord`, restructured the same way -/

def selTail (ww f base : Nat) : Option Nat :=
  if popc ww 8 ≤ f then
    (sel8 (((ww >>> 5) &&& 0x7f8) ||| (f - popc ww 8))).bind fun v => some (v + base + 8)
  else
    (sel8 (((ww &&& 0xff) <<< 3) ||| f)).bind fun v => some (v + base)

def selMid (ww f base : Nat) : Option Nat :=
  if popc ww 16 ≤ f then selTail (ww >>> 16) (f - popc ww 16) (base ||| 16) else selTail ww f base

theorem selWord_eq (w f : Nat) :
    selWord w f = if popc w 32 ≤ f then selMid (w >>> 32) (f - popc w 32) 32 else selMid w f 0 := by
  by_cases h1 : popc w 32 ≤ f
  · by_cases h2 : popc (w >>> 32) 16 ≤ f - popc w 32
    · simp only [selWord, selMid, selTail, h1, h2, if_true, Option.bind_eq_bind]
    · simp only [selWord, selMid, selTail, h1, h2, if_true, if_false, Option.bind_eq_bind]
  · by_cases h2 : popc w 16 ≤ f
    · simp only [selWord, selMid, selTail, h1, h2, if_true, if_false, Option.bind_eq_bind]
    · simp only [selWord, selMid, selTail, h1, h2, if_false, Option.bind_eq_bind]

theorem selTail_le {ww f base v : Nat} (h : selTail ww f base = some v) : v ≤ base + 16 := by
  unfold selTail at h
  split at h
  · cases hs : sel8 (((ww >>> 5) &&& 0x7f8) ||| (f - popc ww 8)) with
    | none => rw [hs] at h; simp at h
    | some u => rw [hs] at h; have := sel8_le hs; simp at h; omega
  · cases hs : sel8 (((ww &&& 0xff) <<< 3) ||| f) with
    | none => rw [hs] at h; simp at h
    | some u => rw [hs] at h; have := sel8_le hs; simp at h; omega

theorem selMid_le {ww f base v : Nat} (hb : base = 0 ∨ base = 32) (h : selMid ww f base = some v) : v ≤ base + 32 := by
  unfold selMid at h
  have e : base ||| 16 = base + 16 := by rcases hb with rfl | rfl <;> decide
  split at h
  · have := selTail_le h; omega
  · have := selTail_le h; omega

/-- the in-word result is at most 64 (64 only when the table answers "not found") -/
theorem selWord_le {w f v : Nat} (h : selWord w f = some v) : v ≤ 64 := by
  rw [selWord_eq] at h
  split at h
  · have := selMid_le (Or.inr rfl) h; omega
  · have := selMid_le (Or.inl rfl) h; omega

/-! ### conversions inside the chain -/

theorem testBit_mod_pow (x n j : Nat) (hj : j < n) : (x % 2 ^ n).testBit j = x.testBit j := by
  rw [Nat.testBit_mod_two_pow]; simp [hj]

theorem onesCount32_toU32 (w : Nat) : onesCount32 (toU32 (w : Int)) = ((popc w 32 : Nat) : Int) := by
  rw [onesCount32, toU32, u32_ofNat]
  exact congrArg _ (popc_congr (fun k hk => testBit_mod_pow w 32 k hk))

theorem toU16_ofNat (w : Nat) : GoSem2.toU16 (w : Int) = w % 2 ^ 16 := by
  unfold GoSem2.toU16; omega

theorem toU8_ofNat (w : Nat) : toU8 (w : Int) = w % 2 ^ 8 := by
  unfold toU8; simp only [M8]; omega

theorem onesCount16_toU16 (w : Nat) : onesCount16 (GoSem2.toU16 (w : Int)) = ((popc w 16 : Nat) : Int) := by
  rw [onesCount16, toU16_ofNat]
  exact congrArg _ (popc_congr (fun k hk => testBit_mod_pow w 16 k hk))

theorem onesCount8_toU8 (w : Nat) : onesCount8 (toU8 (w : Int)) = ((popc w 8 : Nat) : Int) := by
  rw [onesCount8, toU8_ofNat]
  exact congrArg _ (popc_congr (fun k hk => testBit_mod_pow w 8 k hk))

theorem shl3_255 (ww : Nat) : shlU64 (andU64 ww 255) 3 = (ww &&& 0xff) <<< 3 := by
  rw [shlU64_eq, andU64_eq, shl64, if_pos (by omega), Nat.shiftLeft_eq]
  have : ww &&& 255 ≤ 255 := Nat.and_le_right
  apply Nat.mod_eq_of_lt
  simp only [M64]; omega

theorem orI32_0_32 : orI32 0 32 = ((32 : Nat) : Int) := by decide

theorem orI32_0_16 : orI32 ((0 : Nat) : Int) 16 = (((0 ||| 16 : Nat) : Nat) : Int) := by decide

theorem orI32_32_16 : orI32 ((32 : Nat) : Int) 16 = (((32 ||| 16 : Nat) : Nat) : Int) := by decide

/-! ### the chain is `selWord` -/

theorem selChain3_eq {α : Type} (k : Int → Option α) (ww f off : Nat) (hf : f < 2 ^ 63) (hoff : off ≤ 48) :
    selChain3 k ww (f : Int) (off : Int) = (selTail ww f off).bind (fun v => k (v : Int)) := by
  have hp : popc ww 8 ≤ 8 := popc_le ww 8
  unfold selChain3 selTail
  simp only [onesCount8_toU8, Int.ofNat_le, decide_eq_true_eq]
  by_cases h : popc ww 8 ≤ f
  · have e1 : subI64 (f : Int) ((popc ww 8 : Nat) : Int) = ((f - popc ww 8 : Nat) : Int) :=
      subI64_ofNat h (by simp only [Nat.reducePow] at hf; omega)
    have e2 : toU64 ((f - popc ww 8 : Nat) : Int) = f - popc ww 8 :=
      toU64_ofNat_lt (by simp only [Nat.reducePow] at hf; omega)
    simp only [h, ↓reduceIte, e1, e2, shrU64_lt ww (by omega : 5 < 64), andU64_eq, orU64_eq, tblSelect8_ofNat]
    cases hs : sel8 (ww >>> 5 &&& 2040 ||| (f - popc ww 8)) with
    | none => simp only [Option.bind_none]
    | some v =>
      have hv := sel8_le hs
      have e3 : toI32 (v : Int) = v := toI32_ofNat_lt (by omega)
      have e4 : addI32 (v : Int) (off : Int) = ((v + off : Nat) : Int) := addI32_ofNat (by omega)
      have e5 : addI32 ((v + off : Nat) : Int) 8 = ((v + off + 8 : Nat) : Int) := by
        rw [addI32]; exact (wrap32_id (by omega) (by omega)).trans (by omega)
      simp only [Option.bind_some, e3, e4, e5]
  · have e2 : toU64 (f : Int) = f := toU64_ofNat_lt (by simp only [Nat.reducePow] at hf; omega)
    simp only [h, ↓reduceIte, e2, shl3_255, orU64_eq, tblSelect8_ofNat]
    cases hs : sel8 ((ww &&& 255) <<< 3 ||| f) with
    | none => simp only [Option.bind_none]
    | some v =>
      have hv := sel8_le hs
      have e3 : toI32 (v : Int) = v := toI32_ofNat_lt (by omega)
      have e4 : addI32 (v : Int) (off : Int) = ((v + off : Nat) : Int) := addI32_ofNat (by omega)
      simp only [Option.bind_some, e3, e4]

theorem selChain2_eq {α : Type} (k : Int → Option α) (ww f off : Nat) (hf : f < 2 ^ 63) (hoff : off = 0 ∨ off = 32) :
    selChain2 k ww (f : Int) (off : Int) = (selMid ww f off).bind (fun v => k (v : Int)) := by
  have hp : popc ww 16 ≤ 16 := popc_le ww 16
  unfold selChain2 selMid
  simp only [onesCount16_toU16, Int.ofNat_le, decide_eq_true_eq]
  by_cases h : popc ww 16 ≤ f
  · have e1 : subI64 (f : Int) ((popc ww 16 : Nat) : Int) = ((f - popc ww 16 : Nat) : Int) :=
      subI64_ofNat h (by simp only [Nat.reducePow] at hf; omega)
    have e2 : orI32 (off : Int) 16 = ((off ||| 16 : Nat) : Int) := by
      rcases hoff with rfl | rfl
      · exact orI32_0_16
      · exact orI32_32_16
    have e3 : off ||| 16 ≤ 48 := by rcases hoff with rfl | rfl <;> decide
    simp only [h, ↓reduceIte, e1, e2, shrU64_lt ww (by omega : 16 < 64)]
    exact selChain3_eq k _ _ _ (by omega) e3
  · simp only [h, ↓reduceIte]
    exact selChain3_eq k _ _ _ hf (by omega)

/-- for a non-negative `findIth` the emitted chain is `selWord` followed by the continuation.  `f < 2^63`: `findIth`
    is a Go `int`.  No hypothesis on `w`: the conversions `uint32(ww)`, `uint16(ww)`, `uint8(ww)` truncate. -/
theorem selChain_eq {α : Type} (k : Int → Option α) (w f : Nat) (hf : f < 2 ^ 63) :
    selChain k w (f : Int) = (selWord w f).bind (fun v => k (v : Int)) := by
  have hp : popc w 32 ≤ 32 := popc_le w 32
  unfold selChain
  rw [selWord_eq]
  simp only [onesCount32_toU32, Int.ofNat_le, decide_eq_true_eq]
  by_cases h : popc w 32 ≤ f
  · have e1 : subI64 (f : Int) ((popc w 32 : Nat) : Int) = ((f - popc w 32 : Nat) : Int) :=
      subI64_ofNat h (by simp only [Nat.reducePow] at hf; omega)
    simp only [h, ↓reduceIte, e1, orI32_0_32, shrU64_lt w (by omega : 32 < 64)]
    exact selChain2_eq k _ _ 32 (by omega) (Or.inr rfl)
  · simp only [h, ↓reduceIte]
    exact selChain2_eq k _ _ 0 hf (Or.inl rfl)

/-- a negative `findIth` (`int(i - rankIndex[wordI])` with `rankIndex[wordI] > i`) fails every `ones <= findIth`
    test and reaches `select8Lookup[(ww&0xff)<<3 | uint64(findIth)]` with `uint64(findIth) ≥ 2^63`: index out of
    range, a panic. -/
theorem selChain_neg {α : Type} (k : Int → Option α) (w : Nat) (f : Int) (h0 : f < 0)
    (h1 : -9223372036854775808 ≤ f) : selChain k w f = none := by
  have c32 : ¬ (onesCount32 (toU32 (w : Int)) ≤ f) := by rw [onesCount32_toU32]; omega
  have c16 : ¬ (onesCount16 (GoSem2.toU16 (w : Int)) ≤ f) := by rw [onesCount16_toU16]; omega
  have c8 : ¬ (onesCount8 (toU8 (w : Int)) ≤ f) := by rw [onesCount8_toU8]; omega
  have hu : 9223372036854775808 ≤ toU64 f := by
    rw [toU64]; unfold u64; simp only [M64]; omega
  have hor : toU64 f ≤ shlU64 (andU64 w 255) 3 ||| toU64 f := Nat.right_le_or
  unfold selChain selChain2 selChain3
  simp only [c32, c16, c8, decide_false, Bool.false_eq_true, ↓reduceIte, orU64_eq, tblSelect8_ofNat]
  rw [sel8_ge (by omega)]
  rfl

/-! ### the final scan for the next non-zero word -/

/-- `L` is any function with the one-step equation of the generated loop (`…_loop15` / `…_loop18`): `a` is the first
    result, `t1 = int32(len(words))`.  Needs `len(words) < 2^25` for `wordI<<6 + tz` and `l<<6` not to wrap. -/
theorem scan_loop (ws : List Nat) (a t1 : Int) (L : Nat → Int → Option (Int × Int)) (ht1 : t1 = (ws.length : Int))
    (hlen : ws.length < 2 ^ 25)
    (hL : ∀ gas t, L (gas + 1) t =
      if decide (t < t1) = true then
        Option.bind (index ws t) fun w =>
          if decide (w ≠ (0 : Nat)) = true then some (a, addI32 (shlI32 t 6) (toI32 (trailingZeros64 w)))
          else L gas (addI32 t 1)
      else some (a, shlI32 t1 6)) :
    ∀ (rest : List Nat) (j gas : Nat), rest = ws.drop j → rest.length + 1 ≤ gas →
      L gas (j : Int) = some (a, ((nextNonZero ws.length rest j : Nat) : Int))
  | [], j, gas, hr, hg => by
    obtain ⟨g, rfl⟩ : ∃ g, gas = g + 1 := ⟨gas - 1, by omega⟩
    have hj : ws.length ≤ j := drop_eq_nil_le hr
    have hlt : ¬ ((j : Int) < (ws.length : Int)) := by omega
    have e1 : shlI32 (ws.length : Int) 6 = ((ws.length * 64 : Nat) : Int) :=
      shlI32_6_ofNat (by simp only [Nat.reducePow] at hlen; omega)
    rw [hL, nextNonZero, ht1]
    simp only [hlt, decide_false, Bool.false_eq_true, ↓reduceIte, e1]
  | w :: r, j, gas, hr, hg => by
    obtain ⟨g, rfl⟩ : ∃ g, gas = g + 1 := ⟨gas - 1, by omega⟩
    simp only [Nat.reducePow] at hlen
    have hj : j < ws.length := drop_eq_cons_lt hr
    have hlt : (j : Int) < (ws.length : Int) := by omega
    have hw : ws[j]? = some w := getElem?_of_drop_eq_cons hr
    have ih := scan_loop ws a t1 L ht1 (by simp only [Nat.reducePow]; exact hlen) hL r (j + 1) g
      (drop_succ_of_drop_eq_cons hr) (by simp only [List.length_cons] at hg; omega)
    have htz : tz w 64 ≤ 64 := tz_le _ _
    have e1 : shlI32 (j : Int) 6 = ((j * 64 : Nat) : Int) := shlI32_6_ofNat (by omega)
    have e2 : addI32 ((j * 64 : Nat) : Int) (toI32 (trailingZeros64 w)) = ((j * 64 + tz w 64 : Nat) : Int) := by
      rw [toI32_tz64]; exact addI32_ofNat (by omega)
    have e3 : addI32 (j : Int) 1 = ((j + 1 : Nat) : Int) := by
      rw [addI32]; exact (wrap32_id (by omega) (by omega)).trans (by omega)
    rw [hL, nextNonZero, ht1]
    simp only [hlt, decide_true, ↓reduceIte, index_ofNat, hw, Option.bind_some, e1, e2, e3, ih]
    by_cases h0 : w = 0 <;> simp [h0]

end Low.Tie2Sel
