import Generated.Ssa2.bitstr_Cmp
import LowModel.Bitstr
import LowProofs.Tie2.Lemmas
/-
  Tie: the definition regenerated from the SSA form of `bitstr.Cmp` (loop-free: two `len`, two re-slicings
  `a[:la-1]`, `b[:lb-1]` and `bytes.Compare`) equals the hand-written model `bsCmp`.
-/
namespace Low
open Low.GoSem Low.TieL Low.Tie2L

/-- `len - 1` as an `int`, for a non-empty slice -/
private theorem Cmp_sub1 {n : Nat} (h0 : n ≠ 0) (h : n < 2^63) : subI64 (n : Int) 1 = ((n - 1 : Nat) : Int) := by
  rw [subI64]; exact (wrap64_id (by omega) (by omega)).trans (by omega)

/-- `len - 1 = -1` for an empty slice -/
private theorem Cmp_sub1_zero : subI64 ((0 : Nat) : Int) 1 = -1 := by decide

/-- Domain: `len(a)`, `len(b) < 2^63` (a Go length always fits an `int`; the hypotheses only exclude a wrap of
    `len - 1` that cannot happen).  No hypothesis on the bytes.  Where the Go function panics (lengths differ and
    one operand is empty: `x[:-1]`) both sides are `none`.  `GoSem2.bytesCompare` is `Low.bytesCompare` by
    definition (the trusted reading of `bytes.Compare`). -/
theorem Tie_bitstr_Cmp (a b : List Nat) (hla : a.length < 2^63) (hlb : b.length < 2^63) :
    Gen.Ssa2.bitstr_Cmp a b = bsCmp a b := by
  rw [Gen.Ssa2.bitstr_Cmp, bsCmp]
  simp only [len_eq, GoSem2.bytesCompare, Int.natCast_inj, decide_eq_true_eq]
  by_cases h : a.length = b.length
  · simp only [h, ↓reduceIte]
  · simp only [h, ↓reduceIte]
    by_cases ha : a.length = 0
    · rw [ha, Cmp_sub1_zero, slice_neg _ _ (by omega)]; simp
    · rw [Cmp_sub1 ha hla, slice_zero_ofNat _ (by omega)]
      by_cases hb : b.length = 0
      · rw [hb, Cmp_sub1_zero, slice_neg _ _ (by omega)]; simp
      · rw [Cmp_sub1 hb hlb, slice_zero_ofNat _ (by omega)]
        simp [ha, hb]

example : Gen.Ssa2.bitstr_Cmp [1, 2, 0xf0] [1, 3, 7, 0xff] = some (-1) := by decide
example : bsCmp [1, 2, 0xf0] [1, 3, 7, 0xff] = some (-1) := by decide
example : Gen.Ssa2.bitstr_Cmp [] [1, 0xff] = none := by decide
example : Gen.Ssa2.bitstr_Cmp [9, 2, 0xf0] [1, 3, 0xff] = some 1 := by decide

end Low
