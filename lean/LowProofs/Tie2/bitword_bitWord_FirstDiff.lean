import Generated.Ssa2.bitword_bitWord_FirstDiff
import LowModel.Bitword
import LowProofs.Tie2.Lemmas
import LowProofs.Tie2.bitword_bitWord_Get
/-
  Tie: the definition regenerated from the SSA form of `(*bitword.bitWord).FirstDiff` (a function with a loop that
  calls `Get`) equals the hand-written model `bwFirstDiff`.  The generated loop `bitword_bitWord_FirstDiff_loop9`
  counts `i` from `from` up to the clamped `end`; the model's `bwFirstDiffLoop` does the same with the fuel
  `(end - from).toNat`; `FirstDiff_loop` relates the two by induction on `(end - i).toNat`, using the tie of `Get`
  for `i ≥ 0` and `bitword_bitWord_Get_neg` for `i < 0`.
-/
namespace Low
open Low.GoSem Low.TieL Low.Tie2L

/-- the loop at position `i`, with `d = (e - i).toNat` iterations to go and at least `d + 1` units of fuel
    (for a negative `i` one unit is enough: both sides panic at once); `bc` = the field `byteCap`, not read here.
    `he`: `w.width * i` inside `Get` does not wrap for `0 ≤ i < e`, nor does `i + 1`;
    `hlo` (only used for `i < 0`): `w.width * i` does not wrap for the negative start. -/
theorem FirstDiff_loop (fuel n : Nat) (hn : n = 1 ∨ n = 2 ∨ n = 4 ∨ n = 8) (bc : Int) (a b : List Nat)
    (arg3 arg4 e : Int) (he : (n : Int) * e < 2^63) :
    ∀ (d gas : Nat) (i : Int), d = (e - i).toNat → 1 ≤ gas → (0 ≤ i → d + 1 ≤ gas) → -2^63 ≤ (n : Int) * i →
      Gen.Ssa2.bitword_bitWord_FirstDiff_loop9 fuel (n : Int) bc (bwWordMask n) a b arg3 arg4 e gas i
        = bwFirstDiffLoop n a b e d i
  | 0, gas, i, hd, hg1, hg, hlo => by
    obtain ⟨g, rfl⟩ : ∃ g, gas = g + 1 := ⟨gas - 1, by omega⟩
    have h : ¬ i < e := by omega
    rw [Gen.Ssa2.bitword_bitWord_FirstDiff_loop9, bwFirstDiffLoop]
    simp [h]
  | d+1, gas, i, hd, hg1, hg, hlo => by
    obtain ⟨g, rfl⟩ : ∃ g, gas = g + 1 := ⟨gas - 1, by omega⟩
    have h : i < e := by omega
    rw [Gen.Ssa2.bitword_bitWord_FirstDiff_loop9, bwFirstDiffLoop]
    by_cases hneg : i < 0
    · simp only [h, hneg, decide_true, ↓reduceIte, bitword_bitWord_Get_neg n hn _ _ a i hneg hlo, Option.bind_none]
    · obtain ⟨k, rfl⟩ : ∃ k : Nat, i = (k : Int) := ⟨i.toNat, by omega⟩
      have hk : n * k < 2^63 := by rcases hn with h | h | h | h <;> subst h <;> omega
      have e1 : addI64 (k : Int) 1 = ((k : Int) + 1) := by
        rw [addI64]; exact wrap64_id (by omega) (by rcases hn with h | h | h | h <;> subst h <;> omega)
      have ih := FirstDiff_loop fuel n hn bc a b arg3 arg4 e he d g ((k : Int) + 1) (by omega) (by omega) (by omega)
        (by rcases hn with h | h | h | h <;> subst h <;> omega)
      simp only [h, hneg, decide_true, ↓reduceIte, bitword_bitWord_Get_eq n hn bc a k hk,
        bitword_bitWord_Get_eq n hn bc b k hk, Int.toNat_natCast, e1, ih]
      cases bwGet n a k with
      | none => rfl
      | some x =>
        cases bwGet n b k with
        | none => rfl
        | some y => by_cases hxy : x = y <;> simp [hxy]

/-- Domain: `n ∈ {1,2,4,8}` (receiver made by `newBW(n)`), `a`, `b` any strings shorter than `2^60` bytes (`ha`, `hb`:
    the `int` products `len(a) * w.byteCap`, `len(b) * w.byteCap` (`byteCap ≤ 8`) and `w.width * i` inside `Get` for
    `i < end ≤ len * byteCap` do not wrap; NO hypothesis on the bytes), `end` ANY `int` (`-1` = up to the shorter length;
    it is clamped to both lengths; a very negative `end` is returned as it is by both sides), `from` any `int` with
    `-2^63 ≤ n * from` (`hfrm`; true for every `from ≥ -2^60`, in particular every `from ≥ 0`): for a negative `from`
    below the clamped `end`, the model says panic (`Get` reads `s[negative]`), and so does the code as long as
    `w.width * from` does not wrap; for `from < -2^60` it may wrap to a valid offset (e.g. `n = 8`, `from = -2^61`:
    offset 0) and the code would go on where the model says `none` — a genuine (and practically irrelevant) domain
    restriction, the same as `hith` of `Tie_bitword_bitWord_Get`.
    Fuel: every `fuel ≥ len(a) * (8/n) + 1` (at most one iteration per word of `a`, plus the final test).
    Where the Go function panics (negative `from` below `end`) both sides are `none`. -/
theorem Tie_bitword_bitWord_FirstDiff (n : Nat) (hn : n = 1 ∨ n = 2 ∨ n = 4 ∨ n = 8) (a b : List Nat) (frm e : Int)
    (fuel : Nat) (ha : a.length < 2^60) (hb : b.length < 2^60) (hfrm : -2^63 ≤ (n : Int) * frm)
    (hfuel : a.length * (8 / n) + 1 ≤ fuel) :
    Gen.Ssa2.bitword_bitWord_FirstDiff fuel (n : Int) ((8 / n : Nat) : Int) (bwWordMask n) a b frm e
      = bwFirstDiff n a b frm e := by
  rw [Gen.Ssa2.bitword_bitWord_FirstDiff, bwFirstDiff]
  have hla : (n : Int) * ((a.length * (8 / n) : Nat) : Int) < 2^63 := by
    rcases hn with h | h | h | h <;> subst h <;> omega
  have hla' : a.length * (8 / n) < 2^63 := by
    rcases hn with h | h | h | h <;> subst h <;> omega
  have hlb' : b.length * (8 / n) < 2^63 := by
    rcases hn with h | h | h | h <;> subst h <;> omega
  have hn1 : (1 : Int) ≤ n := by omega
  have e3 : mulI64 (len a) ((8 / n : Nat) : Int) = ((a.length * (8 / n) : Nat) : Int) := by
    rw [mulI64, len_eq, ← Int.natCast_mul]; exact wrap64_ofNat hla'
  have e7 : mulI64 (len b) ((8 / n : Nat) : Int) = ((b.length * (8 / n) : Nat) : Int) := by
    rw [mulI64, len_eq, ← Int.natCast_mul]; exact wrap64_ofNat hlb'
  simp only [e3, e7, ← Int.natCast_mul]
  generalize a.length * (8 / n) = la at hla hla' hfuel
  generalize b.length * (8 / n) = lb at hlb'
  have key : ∀ x e' : Int, e' ≤ (la : Int) →
      Gen.Ssa2.bitword_bitWord_FirstDiff_loop9 fuel (n : Int) ((8 / n : Nat) : Int) (bwWordMask n) a b frm x e' fuel frm
        = bwFirstDiffLoop n a b e' (e' - frm).toNat frm := by
    intro x e' he'
    have : (n : Int) * e' < 2^63 := by
      rcases hn with h | h | h | h <;> subst h <;> omega
    exact FirstDiff_loop fuel n hn _ a b frm x e' this _ fuel frm rfl (by omega) (by omega) hfrm
  by_cases h1 : e = -1
  · by_cases h3 : (lb : Int) < (la : Int)
    · simp only [h1, h3, gt_iff_lt, Int.lt_irrefl, decide_true, decide_false, ↓reduceIte, Bool.false_eq_true]
      exact key _ _ (by omega)
    · simp only [h1, h3, gt_iff_lt, Int.lt_irrefl, decide_true, decide_false, ↓reduceIte, Bool.false_eq_true]
      exact key _ _ (by omega)
  · by_cases h2 : (la : Int) < e
    · by_cases h3 : (lb : Int) < (la : Int)
      · simp only [h1, h2, h3, decide_true, decide_false, ↓reduceIte, Bool.false_eq_true]
        exact key _ _ (by omega)
      · simp only [h1, h2, h3, decide_true, decide_false, ↓reduceIte, Bool.false_eq_true]
        exact key _ _ (by omega)
    · by_cases h4 : (lb : Int) < e
      · simp only [h1, h2, h4, decide_true, decide_false, ↓reduceIte, Bool.false_eq_true]
        exact key _ _ (by omega)
      · simp only [h1, h2, h4, decide_false, ↓reduceIte, Bool.false_eq_true]
        exact key _ _ (by omega)

example : Gen.Ssa2.bitword_bitWord_FirstDiff 9 2 4 3 [0x1b, 0xe4] [0x1b, 0xe0, 0xff] 1 (-1) = some 6 := by decide
example : bwFirstDiff 2 [0x1b, 0xe4] [0x1b, 0xe0, 0xff] 1 (-1) = some 6 := by decide
example : Gen.Ssa2.bitword_bitWord_FirstDiff 5 4 2 15 [0x1b, 0xe4] [0x1b, 0xe4, 0xff] 0 9 = some 4 := by decide
example : Gen.Ssa2.bitword_bitWord_FirstDiff 5 4 2 15 [0x1b, 0xe4] [0x1b, 0xe4, 0xff] (-1) 3 = none := by decide
-- out of fuel: with too little fuel the generated definition gives `none`
example : Gen.Ssa2.bitword_bitWord_FirstDiff 4 4 2 15 [0x1b, 0xe4] [0x1b, 0xe4, 0xff] 0 9 = none := by decide
-- outside `hfrm` (`8 * -2^61 = -2^64` wraps to offset 0): the code compares `a[0]`, `b[0]`, the model says panic
example : Gen.Ssa2.bitword_bitWord_FirstDiff 5 8 1 255 [7] [8] (-2305843009213693952) 1 = some (-2305843009213693952) := by decide
example : bwFirstDiff 8 [7] [8] (-2305843009213693952) 1 = none := by decide

end Low
