import Generated.Ssa2.bitmap_NextOne
import LowModel.Bitmap.Next
import LowProofs.Tie2.Lemmas
/-
  Tie: the definition regenerated from the SSA form of `bitmap.NextOne` (a function with a loop) equals the
  hand-written model `nextOne`.  The generated loop `bitmap_NextOne_loop5` walks an index `i` (`bm[i>>6]`, `i += 64`),
  the model's `nextLoop` recurses over the suffix `bm.drop (i/64)`; `NextOne_loop` relates the two by induction on
  the suffix, for an arbitrary continuation `k` (the code after the loop, passed to the loop as `blk2`).
-/
namespace Low
open Low.GoSem Low.TieL Low.Tie2L

/-- the loop, started at the word-aligned position `64*j` with at least `len - j + 1` units of fuel -/
theorem NextOne_loop (fuel : Nat) (bm : List Nat) (i : Int) (e : Nat) (k : Int → Option Int)
    (hlen : bm.length < 2^25) :
    ∀ (rest : List Nat) (j gas : Nat), rest = bm.drop j → rest.length + 1 ≤ gas →
      Gen.Ssa2.bitmap_NextOne_loop5 fuel bm i (e : Int) k gas ((64 * j : Nat) : Int)
        = (nextLoop e rest (64 * j)).bind (fun r => k (match r with | none => -1 | some p => (p : Int)))
  | [], j, gas, hr, hg => by
    obtain ⟨g, rfl⟩ : ∃ g, gas = g + 1 := ⟨gas - 1, by omega⟩
    have hnone : bm[64 * j / 64]? = none := by
      rw [Nat.mul_div_cancel_left _ (by omega : 0 < 64)]; exact getElem?_of_drop_eq_nil hr
    rw [Gen.Ssa2.bitmap_NextOne_loop5, nextLoop]
    simp only [shrI32_6_ofNat, index_ofNat, hnone, Int.ofNat_lt, decide_eq_true_eq]
    by_cases h : 64 * j < e <;> simp [h]
  | w :: r, j, gas, hr, hg => by
    obtain ⟨g, rfl⟩ : ∃ g, gas = g + 1 := ⟨gas - 1, by omega⟩
    have hjl : j < bm.length := drop_eq_cons_lt hr
    have hw : bm[64 * j / 64]? = some w := by
      rw [Nat.mul_div_cancel_left _ (by omega : 0 < 64)]; exact getElem?_of_drop_eq_cons hr
    have ih := NextOne_loop fuel bm i e k hlen r (j + 1) g (drop_succ_of_drop_eq_cons hr)
      (by simp only [List.length_cons] at hg; omega)
    have htz : tz w 64 ≤ 64 := tz_le _ _
    rw [Gen.Ssa2.bitmap_NextOne_loop5, nextLoop]
    simp only [shrI32_6_ofNat, index_ofNat, hw, Int.ofNat_lt, decide_eq_true_eq, Option.bind_some]
    by_cases h : 64 * j < e
    · by_cases h0 : w = 0
      · have e1 : addI32 ((64 * j : Nat) : Int) 64 = ((64 * (j + 1) : Nat) : Int) := by
          have := addI32_ofNat (a := 64 * j) (b := 64) (by omega)
          simpa [Nat.mul_add] using this
        simp only [h, h0, e1, ih]
        simp [Nat.mul_add]
      · have e1 : addI32 ((64 * j : Nat) : Int) (toI32 (trailingZeros64 w)) = ((64 * j + tz w 64 : Nat) : Int) := by
          rw [toI32_tz64]; exact addI32_ofNat (by omega)
        simp only [h, h0, e1, ↓reduceIte, ne_eq, not_false_eq_true, Option.bind_some]
    · simp [h]

/-- Domain: `bm` with fewer than `2^25` words (the project's `BmDom`: bit positions fit an `int32`), `i` and `end`
    any non-negative `int32` (as `Nat`; the equation needs no upper bound: where `i/64 ≥ len(bm)` both sides panic).
    Fuel: every `fuel ≥ len(bm) + 1` (the loop visits each word at most once, plus the final test).
    No hypothesis on the words.  Where the Go function panics (`bm[i>>6]` out of range, also inside the loop when
    `end > 64*len(bm)`) both sides are `none`. -/
theorem Tie_bitmap_NextOne (bm : List Nat) (i e fuel : Nat) (hlen : bm.length < 2^25)
    (hfuel : bm.length + 1 ≤ fuel) :
    Gen.Ssa2.bitmap_NextOne fuel bm (i : Int) (e : Int) = nextOne bm i e := by
  have hj : i % 64 < 64 := Nat.mod_lt _ (by omega)
  rw [Gen.Ssa2.bitmap_NextOne, nextOne]
  simp only [shrI32_6_ofNat, andI32_63_ofNat, index_ofNat, tblRMask_ofNat (Nat.lt_trans hj (by omega)), andU64_eq]
  cases hw : bm[i / 64]? with
  | none => rfl
  | some w0 =>
    have hil : i / 64 < bm.length := (List.getElem?_eq_some_iff.mp hw).1
    simp only [Option.bind_some, Option.bind_eq_bind]
    generalize w0 &&& rmask (i % 64) = word
    have htz : tz word 64 ≤ 64 := tz_le _ _
    by_cases h0 : word = 0
    · have e1 : addI32 (i : Int) 63 = ((i + 63 : Nat) : Int) := by
        rw [addI32]; exact (wrap32_id (by omega) (by omega)).trans (by omega)
      have e2 : andI32 ((i + 63 : Nat) : Int) (-64) = ((64 * ((i + 63) / 64) : Nat) : Int) := by
        rw [andI32_neg64_ofNat (by omega), Nat.mul_comm]
      have e3 : (i + 63) / 64 * 64 / 64 = (i + 63) / 64 := Nat.mul_div_cancel _ (by omega)
      simp only [h0, ne_eq, not_true_eq_false, decide_false, Bool.false_eq_true, ↓reduceIte, e1, e2]
      rw [NextOne_loop fuel bm i e _ hlen _ ((i + 63) / 64) fuel rfl (by simp only [List.length_drop]; omega),
        e3, Nat.mul_comm 64]
      cases nextLoop e (List.drop ((i + 63) / 64) bm) ((i + 63) / 64 * 64) with
      | none => rfl
      | some r =>
        cases r with
        | none => simp
        | some p =>
          simp only [Option.bind_some, ge_iff_le, Int.ofNat_le, decide_eq_true_eq]
    · have e1 : shlI32 ((i / 64 : Nat) : Int) 6 = ((i / 64 * 64 : Nat) : Int) := shlI32_6_ofNat (by omega)
      have e2 : addI32 ((i / 64 * 64 : Nat) : Int) (toI32 (trailingZeros64 word)) = ((i / 64 * 64 + tz word 64 : Nat) : Int) := by
        rw [toI32_tz64]; exact addI32_ofNat (by omega)
      simp only [h0, ne_eq, not_false_eq_true, decide_true, ↓reduceIte, e1, e2, ge_iff_le,
        Int.ofNat_le, decide_eq_true_eq]

example : Gen.Ssa2.bitmap_NextOne 4 [0, 0, 0x10] 3 192 = some 132 := by decide
example : nextOne [0, 0, 0x10] 3 192 = some 132 := by decide
example : Gen.Ssa2.bitmap_NextOne 4 [0, 0, 0x10] 3 132 = some (-1) := by decide
-- out of fuel: with too little fuel the generated definition gives `none`
example : Gen.Ssa2.bitmap_NextOne 1 [0, 0, 0x10] 3 192 = none := by decide

end Low
