import Generated.Ssa2.bmtree_PathToIndexLoose
import LowProofs.Tie2.bmtree_PathToIndex
/-
  Tie: the definition regenerated from the SSA form of `bmtree.PathToIndexLoose` (release build: the `must.Be`
  contract closure is a no-op) equals the hand-written model `pathToIndexLoose`.  Loop-free itself; calls `Height`,
  `PathLen` and `shiftMulti` (with the operands in the other order than `PathToIndex`: the bits consumed by the loop
  are those of `bitmapSize`).  Helper lemmas: `Low.Tie2PI` in `Tie2/bmtree_PathToIndex`.
-/
namespace Low
open Low.GoSem Low.TieL Low.Tie2L Low.Tie2PI

/-- Domain:
    * `1 ≤ t`: for `bitmapSize = 0` `Height` is `-1` and the Go code panics on `bitmap.MaskUpto[-1]` (the generated
      definition is `none`), while the model — a total function — returns a pair;
    * `t < 2^31`: `bitmapSize` is a non-negative `int32` (otherwise `(t : Int)` is not the representation of an
      `int32`); with `1 ≤ t` the height is in `0..30`: `MaskUpto[h]`, `Bit[h]` in range, `uint64(bitmapSize)`,
      `uint64(h)` not sign-extended, `bitmapSize >> PathLen` an arithmetic shift of a non-negative number; it also
      bounds the loop of `shiftMulti`, which here consumes the bits of `bitmapSize`.
    NO hypothesis on `path` (not even `path < 2^64`): it is only shifted right by 32, xor-ed/popcounted over 64 bits
    and reduced mod `2^32`, identically on both sides.  No contract is assumed.
    The second component is `int32` on the Go side and `Nat` (0 or 1) in the model, hence the cast.
    Fuel: every `fuel ≥ 32` (`shiftMulti` runs on `b = bitmapSize < 2^31`: at most 31 iterations and the final test).
    On this domain the Go function neither panics nor diverges. -/
theorem Tie_bmtree_PathToIndexLoose (t path fuel : Nat) (ht : 1 ≤ t) (ht' : t < 2^31) (hfuel : 32 ≤ fuel) :
    Gen.Ssa2.bmtree_PathToIndexLoose fuel (t : Int) path
      = some ((pathToIndexLoose t path).1, ((pathToIndexLoose t path).2 : Int)) := by
  obtain ⟨h, hh, hh31⟩ := height_nat ht ht'
  have hpl : pathLen path ≤ 32 := popc_le _ _
  have e14 : andI32 (shrI32 (t : Int) (pathLen path)) 1 = (((t >>> pathLen path) % 2 : Nat) : Int) := by
    rw [shrI32_ofNat, andI32_1]; omega
  rw [Gen.Ssa2.bmtree_PathToIndexLoose, pathToIndexLoose, pathToIndexCore]
  simp only [Tie_bmtree_Height, Tie_bmtree_PathLen, hh, Int.toNat_natCast, toU64_ofNat_lt (show t < 18446744073709551616 by omega),
    toU64_ofNat_lt (show h < 18446744073709551616 by omega),
    toU64_ofNat_lt (show pathLen path < 18446744073709551616 by omega), e14,
    tblMaskUpto_ofNat (show h < 64 by omega), tblBit_ofNat (show h < 64 by omega),
    tblMask_ofNat (show pathLen path < 65 by omega), Option.bind_some, decide_eq_true_eq,
    Tie_bmtree_shiftMulti_bits (path >>> 32) t h fuel 31 ht' (by omega) hfuel,
    shrU64_lt path (show 32 < 64 by omega), toU64_popc64, toI32_popc64, andU64_eq]
  by_cases h1 : t = maskUpto h
  · rw [if_pos h1, if_pos h1]
    simp only [xorU64_eq, subI32, addI32, shlI32, toI32, wrap32_wrap32_sub, Int.pow_one]
  · rw [if_neg h1, if_neg h1]
    by_cases h2 : t = bit h
    · rw [if_pos h2, if_pos h2, toI32]
    · rw [if_neg h2, if_neg h2, toI32, addU64]
      simp only [↓reduceIte]

example : Gen.Ssa2.bmtree_PathToIndexLoose 32 11 0x5_00000007 = some (8, 1) := by decide
example : pathToIndexLoose 11 0x5_00000007 = (8, 1) := by decide
example : Gen.Ssa2.bmtree_PathToIndexLoose 32 11 0x4_00000006 = some (7, 0) := by decide
-- `bitmapSize = 0`: the Go code panics
example : Gen.Ssa2.bmtree_PathToIndexLoose 32 0 0x4_00000006 = none := by decide
-- out of fuel
example : Gen.Ssa2.bmtree_PathToIndexLoose 2 11 0x4_00000006 = none := by decide

end Low
