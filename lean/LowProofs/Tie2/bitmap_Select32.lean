import Generated.Ssa2.bitmap_Select32
import LowModel.Bitmap.Select
import LowProofs.Tie2.bitmap_Select_L
/-
  Tie: the definition regenerated from the SSA form of `bitmap.Select32` (two loops) equals the hand-written model
  `select32`.

  Structure of the generated definition: `…_loop4` is the outer `for { … }` that skips whole words
  (`ones <= findIth`: `findIth -= ones; wordI++; w = words[wordI]; continue`); its exit branch contains the rest of the
  function: the in-word search (a chain of join blocks = `Tie2Sel.selChain`, see `bitmap_Select_L.lean`),
  `a += wordI<<6`, the masking with `^MaskUpto[a&63]`, and the entry into `…_loop18`, the scan for the next non-zero
  word (= `Tie2Sel.scan_loop`).
-/
namespace Low
open Low.GoSem Low.TieL Low.Tie2L Low.Tie2Sel

/-- blocks 12, 14, 15 of the listing: the code after the in-word search, as a function of its result `t66`
    (`t28 = w`, `t27 = wordI`, `t13 = int32(len(words))`) -/
def Select32_tail (fuel : Nat) (ws : List Nat) (sidx : List Int) (i t13 : Int) (t28 : Nat) (t27 : Int) :
    Int → Option (Int × Int) := fun t66 =>
  Option.bind (tblMaskUpto (andI32 (addI32 t66 (shlI32 t27 6)) 63)) fun t70 =>
    if decide (andU64 t28 (notU64 t70) ≠ (0 : Nat)) = true then
      some (addI32 t66 (shlI32 t27 6), addI32 (shlI32 t27 6) (toI32 (trailingZeros64 (andU64 t28 (notU64 t70)))))
    else Gen.Ssa2.bitmap_Select32_loop18 fuel ws sidx i t13 (addI32 t66 (shlI32 t27 6)) fuel
      (addI32 (shrI32 (addI32 t66 (shlI32 t27 6)) 6) 1)

/-- one iteration of the generated word-skipping loop, with the in-word search folded into `selChain` -/
theorem Select32_loop4_step (fuel : Nat) (ws : List Nat) (sidx : List Int) (i t13 : Int) (gas : Nat) (t26 t27 : Int)
    (t28 : Nat) :
    Gen.Ssa2.bitmap_Select32_loop4 fuel ws sidx i t13 (gas + 1) t26 t27 t28 =
      if decide (onesCount64 t28 ≤ t26) = true then
        Option.bind (index ws (addI32 t27 1)) fun t33 =>
          Gen.Ssa2.bitmap_Select32_loop4 fuel ws sidx i t13 gas (subI64 t26 (onesCount64 t28)) (addI32 t27 1) t33
      else selChain (Select32_tail fuel ws sidx i t13 t28 t27) t28 t26 := by
  rw [Gen.Ssa2.bitmap_Select32_loop4]
  rfl

/-- the model after the word-skipping loop -/
def sel32After (ws : List Nat) (p : Nat × Nat × Nat) : Option (Nat × Nat) :=
  (selWord p.1 p.2.2).bind fun a0 =>
    some (if p.1 &&& not64 (maskUpto ((a0 + p.2.1 * 64) % 64)) ≠ 0
      then (a0 + p.2.1 * 64, p.2.1 * 64 + tz (p.1 &&& not64 (maskUpto ((a0 + p.2.1 * 64) % 64))) 64)
      else (a0 + p.2.1 * 64, nextNonZero ws.length (ws.drop ((a0 + p.2.1 * 64) / 64 + 1)) ((a0 + p.2.1 * 64) / 64 + 1)))

theorem select32_eq (ws sidx : List Nat) (i : Nat) :
    select32 ws sidx i =
      if i / 32 ≥ sidx.length then none else
        (sidx[i / 32]?).bind fun base => (ws[base / 64]?).bind fun w0 =>
          (sel32Skip (ws.drop (base / 64 + 1)) (w0 &&& not64 (mask (base % 64))) (base / 64) (i % 32)).bind
            (sel32After ws) := by
  unfold select32 sel32After
  split
  · rfl
  · simp only [Option.bind_eq_bind]
    refine Option.bind_congr fun base _ => Option.bind_congr fun w0 _ => Option.bind_congr fun p _ => ?_
    obtain ⟨w, wordI, f⟩ := p
    refine Option.bind_congr fun a0 _ => ?_
    by_cases h0 : w &&& not64 (maskUpto ((a0 + wordI * 64) % 64)) = 0 <;> simp only [h0, ne_eq, not_true_eq_false,
      not_false_eq_true, ↓reduceIte]

/-- the code after the in-word search -/
theorem Select32_tail_eq (fuel : Nat) (ws : List Nat) (sidx : List Int) (i : Int) (w wordI a0 : Nat)
    (hlen : ws.length < 2 ^ 25) (hfuel : ws.length + 1 ≤ fuel) (hwI : wordI < ws.length) (ha0 : a0 ≤ 64) :
    Select32_tail fuel ws sidx i (ws.length : Int) w (wordI : Int) (a0 : Int) =
      some (castPair (if w &&& not64 (maskUpto ((a0 + wordI * 64) % 64)) ≠ 0
        then (a0 + wordI * 64, wordI * 64 + tz (w &&& not64 (maskUpto ((a0 + wordI * 64) % 64))) 64)
        else (a0 + wordI * 64,
          nextNonZero ws.length (ws.drop ((a0 + wordI * 64) / 64 + 1)) ((a0 + wordI * 64) / 64 + 1)))) := by
  simp only [Nat.reducePow] at hlen
  have e0 : shlI32 (wordI : Int) 6 = ((wordI * 64 : Nat) : Int) := shlI32_6_ofNat (by omega)
  have e1 : addI32 (a0 : Int) ((wordI * 64 : Nat) : Int) = ((a0 + wordI * 64 : Nat) : Int) := addI32_ofNat (by omega)
  have hm : (a0 + wordI * 64) % 64 < 64 := Nat.mod_lt _ (by omega)
  unfold Select32_tail
  simp only [e0, e1, andI32_63_ofNat, tblMaskUpto_ofNat hm, Option.bind_some, andU64_eq, notU64, shrI32_6_ofNat]
  generalize w &&& not64 (maskUpto ((a0 + wordI * 64) % 64)) = x
  have htz : tz x 64 ≤ 64 := tz_le _ _
  by_cases h0 : x = 0
  · have e2 : addI32 (((a0 + wordI * 64) / 64 : Nat) : Int) 1 = (((a0 + wordI * 64) / 64 + 1 : Nat) : Int) := by
      rw [addI32]; exact (wrap32_id (by omega) (by omega)).trans (by omega)
    simp only [h0, ne_eq, not_true_eq_false, decide_false, Bool.false_eq_true, ↓reduceIte, e2]
    rw [scan_loop ws _ (ws.length : Int) (Gen.Ssa2.bitmap_Select32_loop18 fuel ws sidx i (ws.length : Int) _)
      rfl (by simp only [Nat.reducePow]; exact hlen)
      (fun gas t => by rw [Gen.Ssa2.bitmap_Select32_loop18])
      (ws.drop ((a0 + wordI * 64) / 64 + 1)) ((a0 + wordI * 64) / 64 + 1) fuel rfl
      (by simp only [List.length_drop]; omega)]
    rfl
  · have e2 : addI32 ((wordI * 64 : Nat) : Int) (toI32 (trailingZeros64 x)) = ((wordI * 64 + tz x 64 : Nat) : Int) := by
      rw [toI32_tz64]; exact addI32_ofNat (by omega)
    simp only [h0, ne_eq, not_false_eq_true, decide_true, ↓reduceIte, e2]
    rfl

/-- the exit branch of the word-skipping loop: in-word search, tail -/
theorem Select32_exit (fuel : Nat) (ws : List Nat) (sidx : List Int) (i : Int) (w wordI f : Nat)
    (hlen : ws.length < 2 ^ 25) (hfuel : ws.length + 1 ≤ fuel) (hwI : wordI < ws.length) (hf : f < 2 ^ 63) :
    selChain (Select32_tail fuel ws sidx i (ws.length : Int) w (wordI : Int)) w (f : Int)
      = (sel32After ws (w, wordI, f)).map castPair := by
  rw [selChain_eq _ _ _ hf, sel32After, Option.map_bind]
  refine Option.bind_congr fun a0 hs => ?_
  rw [Select32_tail_eq fuel ws sidx i w wordI a0 hlen hfuel hwI (selWord_le hs)]
  rfl

/-- the word-skipping loop at `wordI` with current word `w`, `rest = words[wordI+1:]` -/
theorem Select32_loop (fuel : Nat) (ws : List Nat) (sidx : List Int) (i : Int)
    (hlen : ws.length < 2 ^ 25) (hfuel : ws.length + 1 ≤ fuel) :
    ∀ (rest : List Nat) (w wordI f gas : Nat), rest = ws.drop (wordI + 1) → rest.length + 1 ≤ gas →
      wordI < ws.length → f < 2 ^ 63 →
      Gen.Ssa2.bitmap_Select32_loop4 fuel ws sidx i (ws.length : Int) gas (f : Int) (wordI : Int) w
        = ((sel32Skip rest w wordI f).bind (sel32After ws)).map castPair
  | [], w, wordI, f, gas, hrest, hg, hwI, hf => by
    obtain ⟨g, rfl⟩ : ∃ g, gas = g + 1 := ⟨gas - 1, by omega⟩
    have hl : ws.length < 33554432 := by simp only [Nat.reducePow] at hlen; exact hlen
    have e1 : addI32 (wordI : Int) 1 = ((wordI + 1 : Nat) : Int) := by
      rw [addI32]; exact (wrap32_id (by omega) (by omega)).trans (by omega)
    rw [Select32_loop4_step, sel32Skip, onesCount64]
    simp only [Int.ofNat_le, decide_eq_true_eq]
    by_cases h : popc w 64 ≤ f
    · simp only [h, ↓reduceIte, e1, index_ofNat, getElem?_of_drop_eq_nil hrest, Option.bind_none, Option.map_none]
    · simp only [h, ↓reduceIte, Option.bind_some]
      exact Select32_exit fuel ws sidx i w wordI f hlen hfuel hwI hf
  | w' :: r, w, wordI, f, gas, hrest, hg, hwI, hf => by
    obtain ⟨g, rfl⟩ : ∃ g, gas = g + 1 := ⟨gas - 1, by omega⟩
    have hl : ws.length < 33554432 := by simp only [Nat.reducePow] at hlen; exact hlen
    have hlt : wordI + 1 < ws.length := drop_eq_cons_lt hrest
    have e1 : addI32 (wordI : Int) 1 = ((wordI + 1 : Nat) : Int) := by
      rw [addI32]; exact (wrap32_id (by omega) (by omega)).trans (by omega)
    rw [Select32_loop4_step, sel32Skip, onesCount64]
    simp only [Int.ofNat_le, decide_eq_true_eq]
    by_cases h : popc w 64 ≤ f
    · have e2 : subI64 (f : Int) ((popc w 64 : Nat) : Int) = ((f - popc w 64 : Nat) : Int) :=
        subI64_ofNat h (by simp only [Nat.reducePow] at hf; omega)
      have ih := Select32_loop fuel ws sidx i hlen hfuel r w' (wordI + 1) (f - popc w 64) g
        (drop_succ_of_drop_eq_cons hrest) (by simp only [List.length_cons] at hg; omega) hlt
        (by simp only [Nat.reducePow] at hf ⊢; omega)
      simp only [h, ↓reduceIte, e1, e2, index_ofNat, getElem?_of_drop_eq_cons hrest, Option.bind_some, ih]
    · simp only [h, ↓reduceIte, Option.bind_some]
      exact Select32_exit fuel ws sidx i w wordI f hlen hfuel hwI hf

/-- Domain.
    * `ws.length < 2^25` (the project's `BmDom`): `wordI<<6`, `a += wordI<<6`, `wordI<<6 + tz`, `l<<6` stay below
      `2^31` (no int32 wrap).
    * `sidx.length < 2^31`: `int32(len(selectIndex))` does not wrap in the range test.
    * `i` and the entries of `sidx` are non-negative `int32` values, given as `Nat`s (a negative `i` panics in Go).
      That they are `< 2^31` is NOT needed for the equation: they only go through `>>`, `& 31`, `& 63` and
      comparisons, which are exact on every non-negative integer, and an entry `≥ 2^31` makes `words[base>>6]` out
      of range on both sides.
    * no hypothesis on the words (`findIth < 32` keeps every subtraction non-negative).
    Fuel: every `fuel ≥ len(words) + 1`.
    Panics (`none` on both sides): the explicit `panic("i outof range")` when `i>>5 >= len(selectIndex)`;
    `words[base>>6]` and `words[wordI]` (skip loop running off the end) out of range; a `select8Lookup` index ≥ 2048. -/
theorem Tie_bitmap_Select32 (ws sidx : List Nat) (i fuel : Nat)
    (hlen : ws.length < 2 ^ 25) (hsl : sidx.length < 2 ^ 31)
    (hfuel : ws.length + 1 ≤ fuel) :
    Gen.Ssa2.bitmap_Select32 fuel ws (sidx.map Int.ofNat) (i : Int)
      = (select32 ws sidx i).map (fun p => ((p.1 : Int), (p.2 : Int))) := by
  have hl : toI32 (len ws) = (ws.length : Int) := by
    rw [len_eq]; exact toI32_ofNat_lt (by simp only [Nat.reducePow] at hlen; omega)
  have hsl' : toI32 (len (sidx.map Int.ofNat)) = (sidx.length : Int) := by
    rw [len_eq, List.length_map]; exact toI32_ofNat_lt (by simp only [Nat.reducePow] at hsl; omega)
  have hi0 : ¬ ((i : Int) < 0) := by omega
  have h31 : toI64 (((i % 32 : Nat) : Nat) : Int) = ((i % 32 : Nat) : Int) := toI64_ofNat_lt (by omega)
  rw [Gen.Ssa2.bitmap_Select32, select32_eq]
  simp only [hi0, decide_false, Bool.false_eq_true, ↓reduceIte, hl, hsl', shrI32_5_ofNat, ge_iff_le, Int.ofNat_le,
    decide_eq_true_eq, andI32_31_ofNat, h31, index_ofNat, List.getElem?_map]
  by_cases hge : sidx.length ≤ i / 32
  · simp only [hge, ↓reduceIte, Option.map_none]
  · simp only [hge, ↓reduceIte]
    cases hsi : sidx[i / 32]? with
    | none => simp
    | some s =>
      simp only [Option.map_some, Option.bind_some, Int.ofNat_eq_natCast, shrI32_6_ofNat, index_ofNat]
      cases hw : ws[s / 64]? with
      | none => simp
      | some w0 =>
        have hwI : s / 64 < ws.length := (List.getElem?_eq_some_iff.mp hw).1
        have hm : s % 64 < 65 := by omega
        simp only [Option.bind_some, andI32_63_ofNat, tblMask_ofNat hm, notU64, andU64_eq]
        exact Select32_loop fuel ws _ _ hlen hfuel _ _ (s / 64) (i % 32) fuel rfl
          (by simp only [List.length_drop]; omega) hwI (by simp only [Nat.reducePow]; omega)

example : Gen.Ssa2.bitmap_Select32 4 [0x12, 0, 0x100] [1] 1 = some (4, 136) := by decide +kernel
example : select32 [0x12, 0, 0x100] [1] 1 = some (4, 136) := by decide +kernel
example : Gen.Ssa2.bitmap_Select32 4 [0x12, 0, 0x100] [1] 2 = some (136, 192) := by decide +kernel
example : Gen.Ssa2.bitmap_Select32 4 [0x12, 0, 0x100] [1] 3 = none ∧ select32 [0x12, 0, 0x100] [1] 3 = none := by decide +kernel

end Low
