import Generated.Ssa2.bmtree_shiftMulti
import LowModel.Bmtree.Index
import LowProofs.Tie2.Lemmas
/-
  Tie: the definition regenerated from the SSA form of `bmtree.shiftMulti` (a function with a loop) equals the
  hand-written model `shiftMulti`.  Both loops run on the same state `(b, shift, rst)`; the model's `shiftMultiLoop`
  simply stops (returning `rst`) when its own fuel (65) is used up, the generated `bmtree_shiftMulti_loop3` returns
  `none` when ITS fuel is used up, so the loop lemma also has to show that the loop really ends: after the initial
  `b >>= tz(b)` the operand `b` is zero or odd, and for an odd `b` the step `b >>= tz(b-1)` shifts by at least one
  (`b-1` is even; for `b = 1` it is `0`, `tz = 64` and `1 >> 64 = 0`) and leaves an odd number or zero, so `b < 2^m`
  becomes `b < 2^(m-1)`: at most `m` iterations plus the final test.
-/
namespace Low
open Low.GoSem Low.TieL Low.Tie2L

namespace Tie2SM

/-! ### `tz` (self-contained copies of what is needed; nothing outside `Tie2.Lemmas` is imported) -/

theorem tz_zero : ∀ m, tz 0 m = m
  | 0 => rfl
  | m+1 => by
    have := tz_zero m
    simp only [tz, Nat.zero_testBit, Nat.zero_shiftRight, this]
    simp; omega

/-- for a non-zero `w < 2^m`: `tz w m < m` and bit `tz w m` of `w` is set -/
theorem tz_spec : ∀ (m w : Nat), w ≠ 0 → w < 2^m → tz w m < m ∧ w.testBit (tz w m) = true
  | 0, w, h0, h => by simp at h; omega
  | m+1, w, h0, h => by
    simp only [tz]
    split
    · rename_i hb; exact ⟨by omega, hb⟩
    · rename_i hb
      have hb' : w % 2 = 0 := by
        rw [Nat.testBit_zero] at hb; simp at hb; omega
      have hw : w >>> 1 ≠ 0 := by
        rw [Nat.shiftRight_eq_div_pow]; omega
      have hlt : w >>> 1 < 2^m := by
        rw [Nat.shiftRight_eq_div_pow]; rw [Nat.pow_succ] at h; omega
      have ⟨a, b⟩ := tz_spec m (w >>> 1) hw hlt
      rw [Nat.testBit_shiftRight] at b
      exact ⟨by omega, b⟩

theorem toU64_tz64 (w : Nat) : toU64 (trailingZeros64 w) = tz w 64 := by
  rw [trailingZeros64]; exact toU64_ofNat_lt (by have := tz_le 64 w; omega)

/-- `b - 1` on `uint64` for `0 < b < 2^64` -/
theorem sub64_one {b : Nat} (h0 : b ≠ 0) (hb : b < 2^64) : sub64 b 1 = b - 1 := by
  rw [sub64]; simp only [M64]; omega

/-- one step of the loop on an odd `b < 2^64`: `b >> tz(b-1)` is at most `b/2`, and again zero or odd -/
theorem step_facts {b : Nat} (hodd : b % 2 = 1) (hb : b < 2^64) :
    shr64 b (tz (b - 1) 64) ≤ b / 2 ∧
      (shr64 b (tz (b - 1) 64) = 0 ∨ shr64 b (tz (b - 1) 64) % 2 = 1) := by
  by_cases hone : b = 1
  · subst hone
    have : shr64 1 64 = 0 := by simp [shr64]
    rw [Nat.sub_self, tz_zero, this]
    exact ⟨Nat.zero_le _, Or.inl rfl⟩
  · have hne : b - 1 ≠ 0 := by omega
    have h64 : b - 1 < 2^64 := Nat.lt_of_le_of_lt (Nat.sub_le _ _) hb
    have ⟨hn64, hnb⟩ := tz_spec 64 (b - 1) hne h64
    generalize tz (b - 1) 64 = n at hn64 hnb
    have hn1 : 1 ≤ n := by
      rcases Nat.eq_zero_or_pos n with h | h
      · subst h; rw [Nat.testBit_zero] at hnb; simp at hnb; omega
      · exact h
    have hshr : shr64 b n = b >>> n := by simp [shr64, hn64]
    have hshift : (b - 1) >>> n = b >>> n := by
      have e : n = 1 + (n - 1) := by omega
      rw [e, Nat.shiftRight_add, Nat.shiftRight_add]
      congr 1
      rw [Nat.shiftRight_eq_div_pow, Nat.shiftRight_eq_div_pow]; omega
    rw [hshr]
    constructor
    · rw [Nat.shiftRight_eq_div_pow]
      have h2 : 2 ^ 1 ≤ 2 ^ n := Nat.pow_le_pow_right (by omega) hn1
      exact Nat.div_le_div_left (by omega) (by omega)
    · right
      rw [← hshift, shiftRight_mod_two, hnb]; rfl

end Tie2SM

open Tie2SM

/-- the loop, on a state with `b` zero or odd and `b < 2^m` (`m ≤ 64`), with at least `m + 1` units of fuel on the
    generated side and at least `m` on the model's side -/
theorem shiftMulti_loop (fuel a b0 shift0 : Nat) :
    ∀ (m gas fuelM b sh rst : Nat), b < 2^m → m ≤ 64 → (b = 0 ∨ b % 2 = 1) → m + 1 ≤ gas → m ≤ fuelM →
      Gen.Ssa2.bmtree_shiftMulti_loop3 fuel a b0 shift0 gas b sh rst = some (shiftMultiLoop fuelM a b sh rst)
  | m, gas, fuelM, 0, sh, rst, _, _, _, hg, _ => by
    obtain ⟨g, rfl⟩ : ∃ g, gas = g + 1 := ⟨gas - 1, by omega⟩
    rw [Gen.Ssa2.bmtree_shiftMulti_loop3]
    cases fuelM with
    | zero => simp [shiftMultiLoop]
    | succ f => simp [shiftMultiLoop]
  | 0, gas, fuelM, b+1, sh, rst, hb, _, _, _, _ => by simp at hb
  | m+1, gas, fuelM, b+1, sh, rst, hb, hm, hodd, hg, hf => by
    obtain ⟨g, rfl⟩ : ∃ g, gas = g + 1 := ⟨gas - 1, by omega⟩
    obtain ⟨f, rfl⟩ : ∃ f, fuelM = f + 1 := ⟨fuelM - 1, by omega⟩
    have hodd1 : (b + 1) % 2 = 1 := by omega
    have h64 : b + 1 < 2^64 := Nat.lt_of_lt_of_le hb (Nat.pow_le_pow_right (by omega) hm)
    have ⟨hle, hodd'⟩ := step_facts hodd1 h64
    have hlt : shr64 (b + 1) (tz (b + 1 - 1) 64) < 2^m := by
      rw [Nat.pow_succ] at hb; omega
    have ih := shiftMulti_loop fuel a b0 shift0 m g f (shr64 (b + 1) (tz (b + 1 - 1) 64))
      (sub64 sh (tz (b + 1 - 1) 64)) (add64 rst (shr64 a sh)) hlt (by omega) hodd' (by omega) (by omega)
    rw [Gen.Ssa2.bmtree_shiftMulti_loop3, shiftMultiLoop]
    simp only [toU64_tz64, shrU64_eq, addU64, subU64, sub64_one (Nat.succ_ne_zero b) h64, ne_eq,
      Nat.succ_ne_zero, not_false_eq_true, decide_true, ↓reduceIte, ih]

/-- The sharper form: `b < 2^m` with `m ≤ 64` needs only `fuel ≥ m + 1` (at most `m` iterations — `b` at least
    halves in each one — plus the final test). -/
theorem Tie_bmtree_shiftMulti_bits (a b shift fuel m : Nat) (hb : b < 2^m) (hm : m ≤ 64) (hfuel : m + 1 ≤ fuel) :
    Gen.Ssa2.bmtree_shiftMulti fuel a b shift = some (shiftMulti a b shift) := by
  have hb64 : b < 2^64 := Nat.lt_of_lt_of_le hb (Nat.pow_le_pow_right (by omega) hm)
  rw [Gen.Ssa2.bmtree_shiftMulti, shiftMulti]
  simp only [toU64_tz64, shrU64_eq, subU64]
  have hle : shr64 b (tz b 64) ≤ b := by
    unfold shr64; split
    · rw [Nat.shiftRight_eq_div_pow]; exact Nat.div_le_self _ _
    · omega
  have hodd : shr64 b (tz b 64) = 0 ∨ shr64 b (tz b 64) % 2 = 1 := by
    by_cases h0 : b = 0
    · subst h0; left; simp [shr64, tz_zero]
    · have ⟨hn64, hnb⟩ := tz_spec 64 b h0 hb64
      right
      rw [shr64, if_pos hn64, shiftRight_mod_two, hnb]; rfl
  exact shiftMulti_loop fuel a b shift m fuel 65 _ _ _ (by omega) hm hodd hfuel (by omega)

/-- Domain: `b < 2^64` (a `uint64`; it bounds the number of iterations: `b` at least halves in each one, and the
    model's own loop is cut off after 65 rounds).  `a` and `shift` are arbitrary (every operation on them is the
    same truncating `uint64` operation on both sides; in particular `shift - tz` may wrap and `a >> shift` may be
    `0`, identically in the model).
    Fuel: every `fuel ≥ 65` (at most 64 iterations plus the final test; 64 is not enough for `b = 2^64-1`, see the
    example below).  Total: the Go function cannot panic, and it terminates. -/
theorem Tie_bmtree_shiftMulti (a b shift fuel : Nat) (hb : b < 2^64) (hfuel : 65 ≤ fuel) :
    Gen.Ssa2.bmtree_shiftMulti fuel a b shift = some (shiftMulti a b shift) :=
  Tie_bmtree_shiftMulti_bits a b shift fuel 64 hb (by omega) hfuel

example : Gen.Ssa2.bmtree_shiftMulti 65 0b10110 0b1010 4 = some 13 := by decide
example : shiftMulti 0b10110 0b1010 4 = 13 := by decide
-- out of fuel
example : Gen.Ssa2.bmtree_shiftMulti 2 0b10110 0b1010 4 = none := by decide
-- the bound 65 is sharp: 64 set bits need 64 iterations and the final test
example : Gen.Ssa2.bmtree_shiftMulti 64 1 0xffffffffffffffff 0 = none := by decide

end Low
