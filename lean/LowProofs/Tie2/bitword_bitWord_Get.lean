import Generated.Ssa2.bitword_bitWord_Get
import LowModel.Bitword
import LowProofs.Tie2.Lemmas
/-
  Tie: the definition regenerated from the SSA form of `(*bitword.bitWord).Get` equals the hand-written model `bwGet`.
  The generated definition takes the receiver's fields `width`, `byteCap`, `wordMask` as arguments; the theorem
  instantiates them with the values that `newBW(n)` stores: `width = n`, `byteCap = 8/n`,
  `wordMask = byte(1<<n - 1) = bwWordMask n`.
-/
namespace Low
open Low.GoSem Low.TieL Low.Tie2L

/-- `x & 7` on any int64 (two's complement): the Euclidean remainder -/
theorem andI64_7 (x : Int) : andI64 x 7 = x % 8 := by
  unfold andI64
  have h7 : u64 7 = 7 := by decide
  rw [h7, and_7]
  unfold u64; simp only [M64]
  apply (wrap64_id (by omega) (by omega)).trans
  omega

theorem shrI64_3 (x : Int) : shrI64 x 3 = x / 8 := by
  unfold shrI64; rw [Int.shiftRight_eq_div_pow]; rfl

/-- wrapping does not change the low three bits -/
theorem wrap64_mod8 (x : Int) : wrap64 x % 8 = x % 8 := by
  unfold wrap64; simp only [M64]; omega

/-- `Get` with a negative word index reads `s[negative]`: a panic — provided `width * ith` does not wrap
    (`hlo`; for `1 ≤ width ≤ 8` this holds for every `ith ≥ -2^60`): the product stays negative, and so does `>> 3`. -/
theorem bitword_bitWord_Get_neg (n : Nat) (hn : n = 1 ∨ n = 2 ∨ n = 4 ∨ n = 8) (bc : Int) (mask : Nat) (s : List Nat)
    (ith : Int) (hneg : ith < 0) (hlo : -2^63 ≤ (n : Int) * ith) :
    Gen.Ssa2.bitword_bitWord_Get (n : Int) bc mask s ith = none := by
  rw [Gen.Ssa2.bitword_bitWord_Get]
  have e2 : mulI64 (n : Int) ith = (n : Int) * ith := by
    rw [mulI64]
    rcases hn with h | h | h | h <;> subst h <;> exact wrap64_id (by omega) (by omega)
  have hlt : shrI64 ((n : Int) * ith) 3 < 0 := by
    rw [shrI64_3]
    rcases hn with h | h | h | h <;> subst h <;> omega
  simp only [e2, index_neg s hlt, Option.bind_none]

/-- the tie for an arbitrary value `bc` of the field `byteCap` (which `Get` does not read) -/
theorem bitword_bitWord_Get_eq (n : Nat) (hn : n = 1 ∨ n = 2 ∨ n = 4 ∨ n = 8) (bc : Int) (s : List Nat) (ith : Nat)
    (hith : n * ith < 2^63) :
    Gen.Ssa2.bitword_bitWord_Get (n : Int) bc (bwWordMask n) s (ith : Int) = bwGet n s ith := by
  rw [Gen.Ssa2.bitword_bitWord_Get, bwGet]
  have hn1 : 1 ≤ n := by omega
  have hn8 : n ≤ 8 := by omega
  generalize hi : n * ith = i at hith
  have e2 : mulI64 (n : Int) (ith : Int) = (i : Int) := by
    rw [mulI64, ← Int.natCast_mul, hi]; exact wrap64_ofNat (by omega)
  have e8 : shrI64 (i : Int) 3 = ((i / 8 : Nat) : Int) := by rw [shrI64_3]; omega
  have he : (i + n - 1) % 8 < 8 := Nat.mod_lt _ (by omega)
  have e7 : andI64 (subI64 (addI64 (i : Int) (n : Int)) 1) 7 = (((i + n - 1) % 8 : Nat) : Int) := by
    rw [andI64_7, subI64, wrap64_mod8, addI64]
    have h := wrap64_mod8 ((i : Int) + (n : Int))
    generalize wrap64 ((i : Int) + (n : Int)) = y at h ⊢
    omega
  simp only [e2, e7, e8, index_ofNat]
  generalize (i + n - 1) % 8 = e at he
  have e10 : toU64 (subI64 7 (e : Int)) = 7 - e := by
    have : subI64 7 (e : Int) = ((7 - e : Nat) : Int) := by
      rw [subI64]; exact (wrap64_id (by omega) (by omega)).trans (by omega)
    rw [this]; exact toU64_ofNat_lt (by omega)
  cases hw : s[i / 8]? with
  | none => rfl
  | some word =>
    simp only [Option.bind_some, e10, shrU8, andU8, if_pos (show 7 - e < 8 by omega)]

/-- Domain: `n ∈ {1,2,4,8}` (the widths `newBW` accepts: `w.width = n`, and the masks/shift counts below stay in a
    byte), `s` any string (NO hypothesis on the bytes: the generated `>>`/`&` on `byte` do not truncate, neither does
    the model), `ith ≥ 0` (as `Nat`) with `n * ith < 2^63` (`hith`: the `int` product `w.width * ith` does not wrap;
    beyond it the Go code reads the byte at the WRAPPED offset while the model reads at the mathematical one — a genuine
    domain restriction, irrelevant for real strings: `n * ith ≥ 2^63` is far beyond `8 * len(s)`).
    The later sum `i + w.width - 1` may wrap; only its low three bits are used and wrapping preserves them.
    Where the Go function panics (`s[i>>3]` out of range) both sides are `none`.
    (For negative `ith` see `bitword_bitWord_Get_neg`: a panic.) -/
theorem Tie_bitword_bitWord_Get (n : Nat) (hn : n = 1 ∨ n = 2 ∨ n = 4 ∨ n = 8) (s : List Nat) (ith : Nat)
    (hith : n * ith < 2^63) :
    Gen.Ssa2.bitword_bitWord_Get (n : Int) ((8 / n : Nat) : Int) (bwWordMask n) s (ith : Int) = bwGet n s ith :=
  bitword_bitWord_Get_eq n hn _ s ith hith

example : Gen.Ssa2.bitword_bitWord_Get 2 4 3 [0x1b, 0xe4] 5 = some 2 := by decide
example : bwGet 2 [0x1b, 0xe4] 5 = some 2 := by decide
example : Gen.Ssa2.bitword_bitWord_Get 4 2 15 [0x1b, 0xe4] 4 = none := by decide
example : Gen.Ssa2.bitword_bitWord_Get 4 2 15 [0x1b, 0xe4] (-1) = none := by decide
-- outside `hith` (`8 * 2^61 = 2^64` wraps to offset 0): the code reads `s[0]`, the model is out of range
example : Gen.Ssa2.bitword_bitWord_Get 8 1 255 [7] 2305843009213693952 = some 7 := by decide
example : bwGet 8 [7] 2305843009213693952 = none := by decide

end Low
