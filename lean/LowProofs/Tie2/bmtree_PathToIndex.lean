import Generated.Ssa2.bmtree_PathToIndex
import LowModel.Bmtree.Index
import LowProofs.Tie.bmtree_Height
import LowProofs.Tie.bmtree_PathLen
import LowProofs.Tie2.bmtree_shiftMulti
/-
  Tie: the definition regenerated from the SSA form of `bmtree.PathToIndex` (release build: the `must.Be` contract
  closure is a no-op) equals the hand-written model `pathToIndex`.  The function itself is loop-free; it calls
  `Height`, `PathLen` (ties in `LowProofs/Tie`) and `shiftMulti` (a loop, tie in `Tie2/bmtree_shiftMulti`), whence the
  `fuel` argument.  The helper lemmas of `Low.Tie2PI` are shared with the tie of `PathToIndexLoose`.
-/
namespace Low
open Low.GoSem Low.TieL Low.Tie2L

namespace Tie2PI

theorem bitLen_pos {w : Nat} (h0 : w ≠ 0) : ∀ n, w < 2^n → 1 ≤ bitLen w n
  | 0, h => by simp at h; omega
  | n+1, h => by
    simp only [bitLen]
    split
    · omega
    · rename_i hb
      have hb' : w.testBit n = false := Bool.eq_false_iff.mpr hb
      have : w < 2^n := by
        apply Nat.lt_pow_two_of_testBit
        intro i hi
        by_cases he : i = n
        · subst he; exact hb'
        · exact Nat.testBit_lt_two_pow (Nat.lt_of_lt_of_le h (Nat.pow_le_pow_right (by omega) (by omega)))
      exact bitLen_pos h0 n this

/-- for `1 ≤ t < 2^31` the height is a natural number `≤ 31` -/
theorem height_nat {t : Nat} (ht : 1 ≤ t) (ht' : t < 2^31) : ∃ h : Nat, height t = (h : Int) ∧ h ≤ 31 := by
  have hm : t % M32 = t := Nat.mod_eq_of_lt (by simp only [M32]; omega)
  have h1 := bitLen_pos (w := t) (by omega) 32 (by omega)
  have h2 := bitLen_le t 32
  refine ⟨bitLen t 32 - 1, ?_, by omega⟩
  simp only [height, lz, hm]; omega

theorem toU64_popc64 (w : Nat) : toU64 (onesCount64 w) = popc w 64 := by
  rw [onesCount64]; exact toU64_ofNat_lt (by have := popc_le w 64; omega)

theorem xorU64_eq (x y : Nat) : xorU64 x y = x ^^^ y := by rw [xorU64]

/-- `int32` subtraction after an `int32` addition: one reduction at the end is enough -/
theorem wrap32_wrap32_sub (a b : Int) : wrap32 (wrap32 a - b) = wrap32 (a - b) := by
  unfold wrap32; simp only [M32]; omega

end Tie2PI
open Tie2PI

/-- Domain:
    * `1 ≤ t`: for `bitmapSize = 0` `Height` is `-1` and the Go code panics on `bitmap.MaskUpto[-1]` (the generated
      definition is `none`), while the model — a total function documented for `1 ≤ bitmapSize` — returns a number;
    * `t < 2^31`: `bitmapSize` is a non-negative `int32` (otherwise `(t : Int)` is not the representation of an
      `int32`); with `1 ≤ t` it puts the height into `0..30`, so `MaskUpto[h]`, `Bit[h]` (64 entries) are in range
      and `uint64(bitmapSize)`, `uint64(h)` are not sign-extended;
    * `path < 2^64`: a `uint64`; it makes `path >> 32 < 2^32`, the operand whose bits the loop of `shiftMulti`
      consumes (for larger numbers the model's loop would be cut off after 65 rounds).
    No contract (`bitmapSize` / `path` consistency) is assumed: the release build computes, and the tie holds, on
    every such input.  `Mask[PathLen(path)]` is always in range (`PathLen ≤ 32 < 65`).
    Fuel: every `fuel ≥ 33` (`shiftMulti` runs on `b = path >> 32 < 2^32`: at most 32 iterations and the final test).
    On this domain the Go function neither panics nor diverges. -/
theorem Tie_bmtree_PathToIndex (t path fuel : Nat) (ht : 1 ≤ t) (ht' : t < 2^31) (hp : path < 2^64)
    (hfuel : 33 ≤ fuel) :
    Gen.Ssa2.bmtree_PathToIndex fuel (t : Int) path = some (pathToIndex t path) := by
  obtain ⟨h, hh, hh31⟩ := height_nat ht ht'
  have hpl : pathLen path ≤ 32 := popc_le _ _
  have hb : path >>> 32 < 2^32 := by
    rw [Nat.shiftRight_eq_div_pow]; omega
  rw [Gen.Ssa2.bmtree_PathToIndex, pathToIndex, pathToIndexCore]
  simp only [Tie_bmtree_Height, Tie_bmtree_PathLen, hh, Int.toNat_natCast, toU64_ofNat_lt (show t < 18446744073709551616 by omega),
    toU64_ofNat_lt (show h < 18446744073709551616 by omega),
    tblMaskUpto_ofNat (show h < 64 by omega), tblBit_ofNat (show h < 64 by omega),
    tblMask_ofNat (show pathLen path < 65 by omega), Option.bind_some, decide_eq_true_eq,
    Tie_bmtree_shiftMulti_bits t (path >>> 32) h fuel 32 hb (by omega) hfuel,
    shrU64_lt path (show 32 < 64 by omega), toU64_popc64, toI32_popc64, andU64_eq]
  by_cases h1 : t = maskUpto h
  · rw [if_pos h1, if_pos h1]
    simp only [xorU64_eq, subI32, addI32, shlI32, toI32, wrap32_wrap32_sub, Int.pow_one]
  · rw [if_neg h1, if_neg h1]
    by_cases h2 : t = bit h
    · rw [if_pos h2, if_pos h2, toI32]
    · rw [if_neg h2, if_neg h2, toI32, addU64]
      simp only [Bool.false_eq_true, ↓reduceIte]

example : Gen.Ssa2.bmtree_PathToIndex 33 11 0x5_00000007 = some 8 := by decide
example : pathToIndex 11 0x5_00000007 = 8 := by decide
example : Gen.Ssa2.bmtree_PathToIndex 33 15 0x4_00000006 = some 9 := by decide
example : Gen.Ssa2.bmtree_PathToIndex 33 8 0x5_00000007 = some 5 := by decide
-- `bitmapSize = 0`: the Go code panics, the (total) model does not say so
example : Gen.Ssa2.bmtree_PathToIndex 33 0 0x5_00000007 = none := by decide
-- the bound 33 is sharp on the stated domain (no contract assumed): 32 set bits in `path >> 32`
example : Gen.Ssa2.bmtree_PathToIndex 32 11 0xffffffff_00000007 = none := by decide

end Low
