import LowProofs.Props.C06
import LowProofs.Tie5.pbcmpl_Unmarshal
import LowProofs.Tie5.pbcmpl_Marshal
import LowProofs.Tie5.pbcmpl_Size
/-
  C06 end to end: the clauses of C06 (`C06_marshal`, `C06_readHeader`, `C06_unmarshal`, `C06_unmarshal_anyver`, `C06_stream`)
  stated about the definitions REGENERATED from the go/ssa form of `pbcmpl.Marshal`, `marshal`, `newHeader`, `Size`,
  `HeaderSize`, `ReadHeader`, `Unmarshal`, the getters of `*headerInfo` and `verStr` (`Generated/Ssa5`, `Ssa4`), executed
  against the oracles `Tie5.X` (`LowProofs/Tie5/Oracles.lean`: the assumed behaviour of `io.ReadFull`, `io.CopyN`, `io.Writer`,
  `proto.Marshal/Unmarshal/Size`, `errors.WithStack`) in a world `w : Tie5.World`.  No function of the hand-written model
  `LowModel/Pbcmpl.lean` occurs in the statements; `frameBytes` (Props/C06) is the specification of the wire format.
  (Composition of the ties of `LowProofs/Tie5` with the theorems of `Props/C06.lean`.)
  Hypotheses are about the inputs only: the version has at most 16 bytes (and, where it must come back unchanged, does not
  end in NUL); `32 + |body| < 2^63` resp. the stream is shorter than 2^63 bytes (counts are `int64`; see the tie
  docstrings); `fuel ≥ 17` (the loop of `verStr`); `proto.Marshal` / `proto.Unmarshal` of the caller's message succeed.
-/
namespace Low
open Low.C06L Low.Tie5 GoSem5

/-- `C06_marshal` on generated code: into a writer with enough room (`cap`; either failure mode) `Marshal` writes exactly
    the frame, returns no error and the count `32 + |body|`, which is also what the regenerated `Size` returns. -/
theorem E2E_C06_marshal (w : World) (wr msg : Obj) (m : Bool) (cap : Nat) (rest : List WAns)
    (hw : w.wans = capAns m cap 32 :: capAns m (cap - 32) w.body.length :: rest) (hm : w.mErr = .nil)
    (hv : (verOf w).length ≤ 16) (hb : 32 + w.body.length < 2^63) (hcap : 32 + w.body.length ≤ cap) :
    (Gen.Ssa5.pbcmpl_Marshal X wr msg 32 w).map (fun res => (res.1.1, res.1.2, res.2.wrote)) =
      some (((32 + w.body.length : Nat) : Int), Err.nil, w.wrote ++ frameBytes (verOf w) w.body) ∧
    (Gen.Ssa5.pbcmpl_Size X msg 32 w).1 = ((32 + w.body.length : Nat) : Int) ∧
    (frameBytes (verOf w) w.body).length = 32 + w.body.length := by
  have h := Tie_pbcmpl_Marshal w wr msg _ _ rest hw hm hb
  have hc := (C06_marshal m cap (verOf w) w.body hv hcap)
  rw [pbMarshal_eq_script] at hc
  refine ⟨?_, by rw [Tie_pbcmpl_Size w msg hb], hc.2.2⟩
  rw [h]; unfold embedM; rw [hc.1]; simp

example : (Gen.Ssa5.pbcmpl_Marshal X theWriter theMsg 32 (ofWriter (some [50, 46, 49]) [7, 8, 9] [capAns true 40 32, capAns true 8 3])).map
      (fun res => (res.1.1, res.1.2, res.2.wrote)) = some (35, Err.nil, frameBytes [50, 46, 49] [7, 8, 9]) := by decide +kernel

/-- `C06_readHeader` on generated code: on a frame followed by anything `ReadHeader` consumes 32 bytes and returns a
    non-nil `Header` whose (regenerated) getters report the version, header size 32 and body size `|body|`. -/
theorem E2E_C06_readHeader (w : World) (r : Obj) (ver body rest : List Nat) (e : PbErr) (fuel : Nat)
    (hr : w.rd = ⟨frameBytes ver body ++ rest, e⟩)
    (hv : ver.length ≤ 16) (hnz : ver.getLast? ≠ some 0) (hb : body.length < 2 ^ 63) (hfuel : 17 ≤ fuel) :
    ∃ h : GoSem5.Header,
      Gen.Ssa5.pbcmpl_ReadHeader X r 32 w = some ((32, some h, Err.nil), { w with rd := ⟨body ++ rest, e⟩ }) ∧
      Gen.Ssa5.pbcmpl_headerInfo_GetVersion fuel h = some ver ∧
      Gen.Ssa5.pbcmpl_headerInfo_GetHeaderSize h = 32 ∧
      Gen.Ssa5.pbcmpl_headerInfo_GetBodySize h = (body.length : Int) := by
  have hl : (pad16 ver ++ le64 32 ++ le64 body.length).length = 32 := pbHeader_length (pbHeader_eq ver body.length hv)
  have hsplit : frameBytes ver body ++ rest = (pad16 ver ++ le64 32 ++ le64 body.length) ++ (body ++ rest) := by
    simp [frameBytes, pad16]
  have hrf := readFull_append (pad16 ver ++ le64 32 ++ le64 body.length) (body ++ rest) e
  rw [hl, ← hsplit, ← hr] at hrf
  have hraw := Tie_pbcmpl_ReadHeader_raw w r
  unfold embedRH at hraw
  rw [hrf] at hraw
  have hi := hdrInfo_frame ver body.length hv hb
  generalize pad16 ver ++ le64 32 ++ le64 body.length = hdr at *
  refine ⟨hdrOf hdr, hraw, ?_, ?_, ?_⟩
  · have h1 : (hdrInfo hdr).ver = verStr (List.take 16 hdr) := by unfold hdrInfo; simp only []
    have hver : verStr ver = ver := by simpa using verStr_pad ver 0 hnz
    unfold hdrOf
    rw [Tie_pbcmpl_headerInfo_GetVersion _ _ _ fuel (by simp [List.length_take]; omega) (by simp [List.length_take]; omega),
      ← h1, hi, hver]
  · have h2 : (hdrInfo hdr).headerSize = wrap64 ((unle (List.take 8 (List.drop 16 hdr)) : Nat) : Int) := by
      unfold hdrInfo; simp only []
    unfold hdrOf
    rw [Tie_pbcmpl_headerInfo_GetHeaderSize, ← h2, hi]
  · have h3 : (hdrInfo hdr).bodySize = wrap64 ((unle (List.take 8 (List.drop 24 hdr)) : Nat) : Int) := by
      unfold hdrInfo; simp only []
    unfold hdrOf
    rw [Tie_pbcmpl_headerInfo_GetBodySize, ← h3, hi]

example : (Gen.Ssa5.pbcmpl_ReadHeader X theReader 32 (ofReader ⟨frameBytes [49, 46, 48] [7, 8, 9] ++ [5], .injected⟩)).map
      (fun res => (res.1.1, res.1.2.2, res.2.rd.avail)) = some (32, Err.nil, [7, 8, 9, 5]) := by decide +kernel
example : ((Gen.Ssa5.pbcmpl_ReadHeader X theReader 32 (ofReader ⟨frameBytes [49, 46, 48] [7, 8, 9] ++ [5], .injected⟩)).bind
      (fun res => res.1.2.1)).map (fun h => (Gen.Ssa5.pbcmpl_headerInfo_GetVersion 17 h,
        Gen.Ssa5.pbcmpl_headerInfo_GetHeaderSize h, Gen.Ssa5.pbcmpl_headerInfo_GetBodySize h)) =
    some (some [49, 46, 48], 32, 3) := by decide +kernel

/-- `C06_unmarshal_anyver` on generated code: on a frame followed by anything `Unmarshal` hands exactly the body to
    `proto.Unmarshal`, returns the version with trailing NULs stripped, the count `32 + |body|`, no error (when
    `proto.Unmarshal` reports none), and leaves the reader right after the frame. -/
theorem E2E_C06_unmarshal_anyver (w : World) (r msg : Obj) (ver body rest : List Nat) (e : PbErr) (fuel : Nat)
    (hr : w.rd = ⟨frameBytes ver body ++ rest, e⟩) (hu : w.uErr = .nil)
    (hv : ver.length ≤ 16) (hb : body.length < 2 ^ 63) (hlen : (frameBytes ver body ++ rest).length < 2^63)
    (hfuel : 17 ≤ fuel) :
    Gen.Ssa5.pbcmpl_Unmarshal fuel X r msg 32 w =
      some ((((32 + body.length : Nat) : Int), verStr ver, Err.nil), { w with rd := ⟨rest, e⟩, got := some body }) := by
  rw [Tie_pbcmpl_Unmarshal w r msg fuel hfuel (by rw [hr]; exact hlen)]
  unfold embedU
  rw [hr, C06_unmarshal_anyver ver body rest e hv hb]
  simp [wrapE, hu]

/-- `C06_unmarshal` on generated code: … and the very version when it does not end in NUL. -/
theorem E2E_C06_unmarshal (w : World) (r msg : Obj) (ver body rest : List Nat) (e : PbErr) (fuel : Nat)
    (hr : w.rd = ⟨frameBytes ver body ++ rest, e⟩) (hu : w.uErr = .nil)
    (hv : ver.length ≤ 16) (hnz : ver.getLast? ≠ some 0) (hb : body.length < 2 ^ 63)
    (hlen : (frameBytes ver body ++ rest).length < 2^63) (hfuel : 17 ≤ fuel) :
    Gen.Ssa5.pbcmpl_Unmarshal fuel X r msg 32 w =
      some ((((32 + body.length : Nat) : Int), ver, Err.nil), { w with rd := ⟨rest, e⟩, got := some body }) := by
  have hver : verStr ver = ver := by simpa using verStr_pad ver 0 hnz
  rw [E2E_C06_unmarshal_anyver w r msg ver body rest e fuel hr hu hv hb hlen hfuel, hver]

example : Gen.Ssa5.pbcmpl_Unmarshal 17 X theReader theMsg 32 (ofReader ⟨frameBytes [49, 46, 48] [7, 8, 9] ++ [5, 5], .eof⟩) =
    some ((35, [49, 46, 48], Err.nil), { ofReader ⟨[5, 5], .eof⟩ with got := some [7, 8, 9] }) := by decide +kernel

/-- Marshal THEN Unmarshal, both regenerated: what `Marshal` made the writer take, read back by `Unmarshal`, is the
    body, the version and the same count. -/
theorem E2E_C06_roundtrip (w : World) (wr rd msg : Obj) (m : Bool) (cap : Nat) (rest : List WAns) (fuel : Nat)
    (hw : w.wans = capAns m cap 32 :: capAns m (cap - 32) w.body.length :: rest) (hm : w.mErr = .nil)
    (hw0 : w.wrote = []) (hu : w.uErr = .nil)
    (hv : (verOf w).length ≤ 16) (hnz : (verOf w).getLast? ≠ some 0) (hb : 32 + w.body.length < 2^63)
    (hcap : 32 + w.body.length ≤ cap) (hfuel : 17 ≤ fuel) :
    ∃ w1 : World, Gen.Ssa5.pbcmpl_Marshal X wr msg 32 w = some ((((32 + w.body.length : Nat) : Int), Err.nil), w1) ∧
      Gen.Ssa5.pbcmpl_Unmarshal fuel X rd msg 32 { w1 with rd := ⟨w1.wrote, .eof⟩ } =
        some ((((32 + w.body.length : Nat) : Int), verOf w, Err.nil),
              { w1 with rd := ⟨[], .eof⟩, got := some w.body }) := by
  have h := Tie_pbcmpl_Marshal w wr msg _ _ rest hw hm hb
  have hc := (C06_marshal m cap (verOf w) w.body hv hcap)
  rw [pbMarshal_eq_script] at hc
  unfold embedM at h
  rw [hc.1] at h
  simp only [Option.map_some, Bool.false_eq_true, if_false, hw0, List.nil_append] at h
  refine ⟨_, h, ?_⟩
  have hl : (frameBytes (verOf w) w.body ++ []).length < 2^63 := by
    simp only [List.append_nil]; rw [hc.2.2]; exact hb
  have := E2E_C06_unmarshal
    { rd := ⟨frameBytes (verOf w) w.body, .eof⟩,
      wans := if hdrFailed (capAns m cap 32) = true then capAns m (cap - 32) w.body.length :: rest else rest,
      wrote := frameBytes (verOf w) w.body,
      wcalls := w.wcalls + if hdrFailed (capAns m cap 32) = true then 1 else 2, body := w.body, mErr := w.mErr,
      ver := w.ver, got := w.got, uErr := w.uErr, stacks := w.stacks }
    rd msg (verOf w) w.body [] .eof fuel (by simp) hu hv hnz (by omega) hl hfuel
  exact this

example : ((Gen.Ssa5.pbcmpl_Marshal X theWriter theMsg 32 (ofWriter (some [50]) [7, 8] [capAns false 99 32, capAns false 67 2])).bind
      fun r1 => (Gen.Ssa5.pbcmpl_Unmarshal 17 X theReader theMsg 32 { r1.2 with rd := ⟨r1.2.wrote, .eof⟩ }).map
        fun r2 => (r1.1, r2.1, r2.2.got)) = some ((34, Err.nil), (34, [50], Err.nil), some [7, 8]) := by decide +kernel

/-! ### several frames in one stream -/

/-- call the regenerated `Unmarshal` `k` times on the same reader, threading the world; collect the Go results and what
    the message had received after each call -/
def runUnmarshal (fuel : Nat) (r msg : Obj) : Nat → World → List ((Int × List Nat × Err) × Option (List Nat))
  | 0, _ => []
  | k + 1, w =>
    match Gen.Ssa5.pbcmpl_Unmarshal fuel X r msg 32 w with
    | none => []
    | some res => (res.1, res.2.got) :: runUnmarshal fuel r msg k res.2

/-- `C06_stream` on generated code: frames written back to back are returned one per call, in order (count, version, the
    body handed to `proto.Unmarshal`), and the call after the last frame returns count 0 and (wrapped) `io.EOF`. -/
theorem E2E_C06_stream (r msg : Obj) (fuel : Nat) (hfuel : 17 ≤ fuel) :
    ∀ (fs : List (List Nat × List Nat)) (w : World), (∀ p ∈ fs, FrameOK p) → w.rd = ⟨streamOf fs, .eof⟩ → w.uErr = .nil →
      (streamOf fs).length < 2^63 →
      runUnmarshal fuel r msg (fs.length + 1) w =
        fs.map (fun p => ((((32 + p.2.length : Nat) : Int), p.1, Err.nil), some p.2)) ++
          [((0, [], Err.wrapped (.var "io.EOF") w.stacks), if fs = [] then w.got else (fs.getLast?.map (·.2)))]
  | [], w, _, hr, _, _ => by
    have ht := Tie_pbcmpl_Unmarshal w r msg fuel hfuel (by rw [hr]; simp [streamOf])
    have hm := pbUnmarshal_short [] .eof (by simp)
    simp only [streamOf] at hr
    unfold embedU at ht
    rw [hr, hm] at ht
    simp only [List.length_nil, if_true] at ht
    simp [runUnmarshal, ht, errOf]
  | (v, b) :: fs, w, h, hr, hu, hlen => by
    obtain ⟨h1, h2, h3⟩ := h (v, b) (by simp)
    have hlen' : (frameBytes v b ++ streamOf fs).length < 2^63 := by simpa [streamOf] using hlen
    have hstep := E2E_C06_unmarshal w r msg v b (streamOf fs) .eof fuel (by simpa [streamOf] using hr) hu h1 h2 h3 hlen' hfuel
    have ih := E2E_C06_stream r msg fuel hfuel fs { w with rd := ⟨streamOf fs, .eof⟩, got := some b }
      (fun p hp => h p (by simp [hp])) rfl hu (by simp only [List.length_append] at hlen'; omega)
    simp only [runUnmarshal, List.length_cons, hstep, ih, List.map_cons, List.cons_append]
    cases fs with
    | nil => simp
    | cons q qs => simp [List.getLast?_cons_cons]

example : (runUnmarshal 17 theReader theMsg 3 (ofReader ⟨streamOf [([49], [7, 8]), ([], [])], .eof⟩)) =
    [((34, [49], Err.nil), some [7, 8]), ((32, [], Err.nil), some []),
     ((0, [], Err.wrapped (.var "io.EOF") 0), some [])] := by decide +kernel

end Low
