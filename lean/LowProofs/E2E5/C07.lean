import LowProofs.Props.C06
import LowProofs.Props.C07
import LowProofs.Tie5.pbcmpl_Unmarshal
import LowProofs.Tie5.pbcmpl_Marshal
/-
  C07 end to end: the clauses of C07 (`C07_truncated`, `C07_readError`, `C07_headerSize`, `C07_bodySize`, `C07_total`,
  `C07_total_readHeader`, `C07_success_complete`, `C07_writer`, `C07_writer_any`) stated about the definitions REGENERATED
  from the go/ssa form of `pbcmpl.Unmarshal`, `ReadHeader`, `Marshal` (and what they call), executed against the oracles
  `Tie5.X` in a world `w : Tie5.World`.  No function of the hand-written model occurs in the statements; `frameBytes` is the
  wire format.  (Composition of the ties of `LowProofs/Tie5` with the theorems of `Props/C07.lean`.)
  Error values: the code returns `errors.WithStack(e)`, here `Err.wrapped e k` (a fresh wrapper, `k` = number of wrappers
  made before); `Tie5.errOf` names the value of each class (`io.EOF`, `io.ErrUnexpectedEOF`, `ErrInvalidHeaderSize`,
  `ErrInvalidBodySize`, the reader's own error).  The writer's error comes back unwrapped (`Tie5.wErr`).
  Hypotheses are about the inputs only; `hlen`: the reader delivers fewer than 2^63 bytes (counts are `int64`).
-/
namespace Low
open Low.C06L Low.C07L Low.Tie5 GoSem5

private theorem frame_ok (ver body : List Nat) (hv : ver.length ≤ 16) : pbFrame ver body = some (frameBytes ver body) :=
  (C06_marshal true (32 + body.length) ver body hv (Nat.le_refl _)).2.1

private theorem embedU_err (w : World) (e : PbErr) (h : (pbUnmarshal w.rd).err = some e) :
    embedU w = (((((pbUnmarshal w.rd).n : Nat) : Int), (pbUnmarshal w.rd).ver, Err.wrapped (errOf e) w.stacks),
      { w with rd := (pbUnmarshal w.rd).rest, stacks := w.stacks + 1 }) := by
  unfold embedU; simp only [h]

private theorem embedU_ok (w : World) (h : (pbUnmarshal w.rd).err = none) (hu : w.uErr = .nil) :
    embedU w = (((((pbUnmarshal w.rd).n : Nat) : Int), (pbUnmarshal w.rd).ver, Err.nil),
      { w with rd := (pbUnmarshal w.rd).rest, got := (pbUnmarshal w.rd).body }) := by
  unfold embedU; simp only [h, wrapE, hu, if_true]

/-- `C07_truncated` on generated code: on any strict prefix of a frame, then EOF, `Unmarshal` never succeeds (the message
    receives nothing), returns the number of bytes that were available and `WithStack(io.EOF)` when nothing was
    available or the cut is right after the header, `WithStack(io.ErrUnexpectedEOF)` otherwise; the reader is drained. -/
theorem E2E_C07_truncated (w : World) (r msg : Obj) (ver body : List Nat) (k fuel : Nat)
    (hr : w.rd = ⟨(frameBytes ver body).take k, .eof⟩)
    (hv : ver.length ≤ 16) (hb : body.length < 2 ^ 63) (hk : k < (frameBytes ver body).length) (hk63 : k < 2^63)
    (hfuel : 17 ≤ fuel) :
    ∃ v' : List Nat, Gen.Ssa5.pbcmpl_Unmarshal fuel X r msg 32 w =
      some (((k : Int), v', Err.wrapped (errOf (if k = 0 ∨ k = 32 then .eof else .unexpectedEOF)) w.stacks),
            { w with rd := ⟨[], .eof⟩, stacks := w.stacks + 1 }) := by
  obtain ⟨h1, _, h3, h4⟩ := C07_truncated ver body _ k (frame_ok ver body hv) hb hk
  rw [← hr] at h1 h3 h4
  refine ⟨(pbUnmarshal w.rd).ver, ?_⟩
  rw [Tie_pbcmpl_Unmarshal w r msg fuel hfuel (by rw [hr]; simp [List.length_take]; omega), embedU_err w _ h3, h1, h4]

/-- `C07_readError` on generated code: a strict prefix of a frame, then a reader error: that error (wrapped) comes back
    with the count of bytes that were available; never success. -/
theorem E2E_C07_readError (w : World) (r msg : Obj) (ver body : List Nat) (k fuel : Nat)
    (hr : w.rd = ⟨(frameBytes ver body).take k, .injected⟩)
    (hv : ver.length ≤ 16) (hb : body.length < 2 ^ 63) (hk : k < (frameBytes ver body).length) (hk63 : k < 2^63)
    (hfuel : 17 ≤ fuel) :
    ∃ v' : List Nat, Gen.Ssa5.pbcmpl_Unmarshal fuel X r msg 32 w =
      some (((k : Int), v', Err.wrapped (errOf .injected) w.stacks),
            { w with rd := ⟨[], .injected⟩, stacks := w.stacks + 1 }) := by
  obtain ⟨h1, _, h3, h4⟩ := C07_readError ver body _ k (frame_ok ver body hv) hb hk
  rw [← hr] at h1 h3 h4
  refine ⟨(pbUnmarshal w.rd).ver, ?_⟩
  rw [Tie_pbcmpl_Unmarshal w r msg fuel hfuel (by rw [hr]; simp [List.length_take]; omega), embedU_err w _ h3, h1, h4]

example : (List.range 35).map (fun k => (Gen.Ssa5.pbcmpl_Unmarshal 17 X theReader theMsg 32
      (ofReader ⟨(frameBytes [49, 46, 48] [7, 8, 9]).take k, .eof⟩)).map (fun x => (x.1.1, x.1.2.2, x.2.got))) =
    (List.range 35).map (fun k => some (Int.ofNat k,
      Err.wrapped (errOf (if k = 0 ∨ k = 32 then .eof else .unexpectedEOF)) 0, none)) := by decide +kernel

example : (List.range 35).map (fun k => (Gen.Ssa5.pbcmpl_Unmarshal 17 X theReader theMsg 32
      (ofReader ⟨(frameBytes [49, 46, 48] [7, 8, 9]).take k, .injected⟩)).map (fun x => (x.1.1, x.1.2.2, x.2.got))) =
    (List.range 35).map (fun k => some (Int.ofNat k, Err.wrapped (errOf .injected) 0, none)) := by decide +kernel

/-- `C07_headerSize` on generated code: any 32 bytes whose header-size field is not 32, followed by anything:
    `WithStack(ErrInvalidHeaderSize)` after consuming exactly 32 bytes; the version field is still reported. -/
theorem E2E_C07_headerSize (w : World) (r msg : Obj) (hdr rest : List Nat) (e : PbErr) (fuel : Nat)
    (hr : w.rd = ⟨hdr ++ rest, e⟩) (hl : hdr.length = 32)
    (hs : wrap64 (unle ((hdr.drop 16).take 8)) ≠ 32) (hlen : (hdr ++ rest).length < 2^63) (hfuel : 17 ≤ fuel) :
    Gen.Ssa5.pbcmpl_Unmarshal fuel X r msg 32 w =
      some ((32, verStr (hdr.take 16), Err.wrapped (.var "pbcmpl.ErrInvalidHeaderSize") w.stacks),
            { w with rd := ⟨rest, e⟩, stacks := w.stacks + 1 }) := by
  have hm := C07_headerSize hdr rest e hl hs
  rw [← hr] at hm
  rw [Tie_pbcmpl_Unmarshal w r msg fuel hfuel (by rw [hr]; exact hlen), embedU_err w .invalidHeaderSize (by rw [hm]), hm]
  rfl

/-- `C07_bodySize` on generated code: header size 32 but a body-size field ≥ 2^63 (negative as int64):
    `WithStack(ErrInvalidBodySize)` after exactly 32 bytes; nothing is read or allocated for the body. -/
theorem E2E_C07_bodySize (w : World) (r msg : Obj) (hdr rest : List Nat) (e : PbErr) (fuel : Nat)
    (hr : w.rd = ⟨hdr ++ rest, e⟩) (hl : hdr.length = 32)
    (hs : wrap64 (unle ((hdr.drop 16).take 8)) = 32) (hbs : wrap64 (unle ((hdr.drop 24).take 8)) < 0)
    (hlen : (hdr ++ rest).length < 2^63) (hfuel : 17 ≤ fuel) :
    Gen.Ssa5.pbcmpl_Unmarshal fuel X r msg 32 w =
      some ((32, verStr (hdr.take 16), Err.wrapped (.var "pbcmpl.ErrInvalidBodySize") w.stacks),
            { w with rd := ⟨rest, e⟩, stacks := w.stacks + 1 }) := by
  have hm := C07_bodySize hdr rest e hl hs hbs
  rw [← hr] at hm
  rw [Tie_pbcmpl_Unmarshal w r msg fuel hfuel (by rw [hr]; exact hlen), embedU_err w .invalidBodySize (by rw [hm]), hm]
  rfl

example : (Gen.Ssa5.pbcmpl_Unmarshal 17 X theReader theMsg 32
      (ofReader ⟨List.replicate 16 65 ++ le64 (2^32 + 32) ++ le64 0 ++ [1, 2], .eof⟩)).map (fun x => (x.1, x.2.rd)) =
    some ((32, List.replicate 16 65, Err.wrapped (.var "pbcmpl.ErrInvalidHeaderSize") 0), ⟨[1, 2], .eof⟩) := by decide +kernel
example : (Gen.Ssa5.pbcmpl_Unmarshal 17 X theReader theMsg 32
      (ofReader ⟨List.replicate 16 0 ++ le64 32 ++ le64 (2^64 - 1) ++ [1, 2], .eof⟩)).map (fun x => (x.1, x.2.rd)) =
    some ((32, [], Err.wrapped (.var "pbcmpl.ErrInvalidBodySize") 0), ⟨[1, 2], .eof⟩) := by decide +kernel

/-- `C07_total` on generated code: for ARBITRARY bytes and end error `Unmarshal` returns normally (`some`: no panic — in
    particular the `Header` it dereferences is never nil); the count is non-negative and at most the bytes available;
    the reader is left exactly after the counted bytes; and the error is nil exactly when `proto.Unmarshal` was handed a
    body (for a message that had received nothing before and a `proto.Unmarshal` that succeeds). -/
theorem E2E_C07_total (w : World) (r msg : Obj) (bytes : List Nat) (e : PbErr) (fuel : Nat)
    (hr : w.rd = ⟨bytes, e⟩) (hg : w.got = none) (hu : w.uErr = .nil) (hlen : bytes.length < 2^63) (hfuel : 17 ≤ fuel) :
    ∃ (n : Nat) (v : List Nat) (err : Err) (w' : World),
      Gen.Ssa5.pbcmpl_Unmarshal fuel X r msg 32 w = some (((n : Int), v, err), w') ∧
      n ≤ bytes.length ∧ (err = Err.nil ↔ w'.got ≠ none) ∧ w'.rd = ⟨bytes.drop n, e⟩ := by
  obtain ⟨h1, h2, h3⟩ := C07_total bytes e
  rw [← hr] at h1 h2 h3
  rw [Tie_pbcmpl_Unmarshal w r msg fuel hfuel (by rw [hr]; exact hlen)]
  cases herr : (pbUnmarshal w.rd).err with
  | some pe =>
    refine ⟨(pbUnmarshal w.rd).n, (pbUnmarshal w.rd).ver, _,
      { w with rd := (pbUnmarshal w.rd).rest, stacks := w.stacks + 1 }, by rw [embedU_err w pe herr], h1, ?_, h3⟩
    simp [hg]
  | none =>
    refine ⟨(pbUnmarshal w.rd).n, (pbUnmarshal w.rd).ver, _,
      { w with rd := (pbUnmarshal w.rd).rest, got := (pbUnmarshal w.rd).body }, by rw [embedU_ok w herr hu], h1, ?_, h3⟩
    have := h2.1 herr
    simpa using this

/-- corrupted size fields of every magnitude: always a normal return, never more than the input consumed -/
example : ([0, 2, 3, 33, 2 ^ 31, 2 ^ 63 - 1, 2 ^ 63, 2 ^ 64 - 1].map fun s =>
      (Gen.Ssa5.pbcmpl_Unmarshal 17 X theReader theMsg 32
        (ofReader ⟨List.replicate 16 0 ++ le64 32 ++ le64 s ++ [1, 2], .eof⟩)).map (fun x => (x.1.1, classOf x.1.2.2, x.2.got))) =
    [some (32, none, some []), some (34, none, some [1, 2]), some (34, some .unexpectedEOF, none),
     some (34, some .unexpectedEOF, none), some (34, some .unexpectedEOF, none), some (34, some .unexpectedEOF, none),
     some (32, some .invalidBodySize, none), some (32, some .invalidBodySize, none)] := by decide +kernel

/-- `C07_total_readHeader` on generated code: `ReadHeader` returns normally on arbitrary input, the count is at most the
    bytes available, the reader is left after the counted bytes, and the error is nil exactly when a `Header` is returned. -/
theorem E2E_C07_total_readHeader (w : World) (r : Obj) (bytes : List Nat) (e : PbErr) (hr : w.rd = ⟨bytes, e⟩) :
    ∃ (n : Nat) (h : Option GoSem5.Header) (err : Err) (w' : World),
      Gen.Ssa5.pbcmpl_ReadHeader X r 32 w = some (((n : Int), h, err), w') ∧
      n ≤ bytes.length ∧ (err = Err.nil ↔ h ≠ none) ∧ w'.rd = ⟨bytes.drop n, e⟩ := by
  rw [Tie_pbcmpl_ReadHeader_raw]
  unfold embedRH
  rcases readFull_cases w.rd 32 with ⟨h, hle⟩ | ⟨err, h, hlt⟩
  · rw [h]
    refine ⟨32, _, _, _, rfl, by rw [hr] at hle; exact hle, by simp, by simp [hr]⟩
  · rw [h]
    refine ⟨_, _, _, _, rfl, by simp [hr], by simp, ?_⟩
    simp [hr]

example : ([0, 1, 31, 32, 40].map fun k => (Gen.Ssa5.pbcmpl_ReadHeader X theReader 32 (ofReader ⟨List.replicate k 7, .eof⟩)).map
      (fun x => (x.1.1, x.1.2.1.isSome, classOf x.1.2.2, x.2.rd.avail.length))) =
    [some (0, false, some .eof, 0), some (1, false, some .unexpectedEOF, 0), some (31, false, some .unexpectedEOF, 0),
     some (32, true, none, 0), some (32, true, none, 8)] := by decide +kernel

/-- `C07_success_complete` on generated code: `Unmarshal` reports no error only if a complete frame was present: the
    message then received exactly `|b|` bytes `b` that follow a 32-byte header whose header-size field is 32 and whose
    body-size field is `|b|`; the count is the length of that frame and the reader is left right after it. -/
theorem E2E_C07_success_complete (w w' : World) (r msg : Obj) (bytes v : List Nat) (e : PbErr) (n : Int) (fuel : Nat)
    (hr : w.rd = ⟨bytes, e⟩) (hlen : bytes.length < 2^63) (hfuel : 17 ≤ fuel)
    (h : Gen.Ssa5.pbcmpl_Unmarshal fuel X r msg 32 w = some ((n, v, Err.nil), w')) :
    ∃ b : List Nat, w'.got = some b ∧
      32 + b.length ≤ bytes.length ∧
      wrap64 (unle ((bytes.drop 16).take 8)) = 32 ∧
      wrap64 (unle ((bytes.drop 24).take 8)) = (b.length : Int) ∧
      (bytes.drop 32).take b.length = b ∧
      n = ((32 + b.length : Nat) : Int) ∧
      w'.rd = ⟨bytes.drop (32 + b.length), e⟩ := by
  rw [Tie_pbcmpl_Unmarshal w r msg fuel hfuel (by rw [hr]; exact hlen)] at h
  cases herr : (pbUnmarshal w.rd).err with
  | some pe => rw [embedU_err w pe herr] at h; simp at h
  | none =>
    have hbody : (pbUnmarshal w.rd).body ≠ none := by
      have := (C07_total bytes e).2.1.1
      rw [← hr] at this
      exact this herr
    obtain ⟨b, hb⟩ := Option.ne_none_iff_exists'.1 hbody
    obtain ⟨c1, c2, c3, c4, c5, _, c7⟩ := C07_success_complete bytes b e (by rw [← hr]; exact hb)
    rw [← hr] at c5 c7
    unfold embedU at h
    simp only [herr, wrapE] at h
    split at h
    · simp only [Option.some.injEq, Prod.mk.injEq] at h
      obtain ⟨⟨hn, _, _⟩, hw'⟩ := h
      refine ⟨b, by rw [← hw', hb], c1, c2, c3, c4, by rw [← hn, c5], by rw [← hw', c7]⟩
    · simp at h

example : (Gen.Ssa5.pbcmpl_Unmarshal 17 X theReader theMsg 32
      (ofReader ⟨List.replicate 16 0 ++ le64 32 ++ le64 2 ++ [1, 2, 3], .eof⟩)).map (fun x => (x.1, x.2.got)) =
    some ((34, [], Err.nil), some [1, 2]) := by decide +kernel

/-- `C07_writer` on generated code: the destination writer has room for `cap < |frame|` bytes.  `Marshal` reports the
    writer's error and the count `k` of bytes the writer took, which are exactly the first `k` bytes of the frame:
    `k = cap` for a writer that accepts partially, `k = 0` / `32` for an all-or-nothing writer. -/
theorem E2E_C07_writer (w : World) (wr msg : Obj) (m : Bool) (cap : Nat) (rest : List WAns)
    (hw : w.wans = capAns m cap 32 :: capAns m (cap - 32) w.body.length :: rest) (hm : w.mErr = .nil)
    (hv : (verOf w).length ≤ 16) (hb : 32 + w.body.length < 2^63) (hc : cap < (frameBytes (verOf w) w.body).length) :
    (Gen.Ssa5.pbcmpl_Marshal X wr msg 32 w).map (fun res => (res.1.1, decide (res.1.2 ≠ Err.nil), res.2.wrote)) =
      some (if m then (((if cap < 32 then 0 else 32 : Nat) : Int), true,
                        w.wrote ++ (frameBytes (verOf w) w.body).take (if cap < 32 then 0 else 32))
            else ((cap : Int), true, w.wrote ++ (frameBytes (verOf w) w.body).take cap)) := by
  rw [Tie_pbcmpl_Marshal_cap w wr msg m cap rest hw hm hb]
  obtain ⟨h1, h2⟩ := C07_writer (verOf w) w.body _ cap (frame_ok (verOf w) w.body hv) hc
  cases m with
  | false => rw [h1]; simp
  | true => rw [h2]; simp

/-- `C07_writer_any` on generated code: ANY writer, scripted call by call (an answer may be short, may fail, may fail after
    taking the whole buffer): the count `Marshal` returns is the number of bytes the writer took, those are the first `k`
    bytes of the frame, the writer's failure (its own error value) is reported, and the body is not written after a
    failed header write (`wcalls`). -/
theorem E2E_C07_writer_any (w : World) (wr msg : Obj) (a1 a2 : WAns) (rest : List WAns)
    (hw : w.wans = a1 :: a2 :: rest) (hm : w.mErr = .nil)
    (hv : (verOf w).length ≤ 16) (hb : 32 + w.body.length < 2^63) :
    (Gen.Ssa5.pbcmpl_Marshal X wr msg 32 w).map (fun res => (res.1, res.2.wrote, res.2.wcalls)) =
      some (if (a1.fail || decide (min a1.accept 32 < 32)) = true
        then ((((min a1.accept 32 : Nat) : Int), wErr), w.wrote ++ (frameBytes (verOf w) w.body).take (min a1.accept 32),
              w.wcalls + 1)
        else ((((32 + min a2.accept w.body.length : Nat) : Int),
               if (a2.fail || decide (min a2.accept w.body.length < w.body.length)) = true then wErr else Err.nil),
              w.wrote ++ (frameBytes (verOf w) w.body).take (32 + min a2.accept w.body.length), w.wcalls + 2)) := by
  rw [Tie_pbcmpl_Marshal w wr msg a1 a2 rest hw hm hb]
  unfold embedM
  rw [C07_writer_any (verOf w) w.body _ a1 a2 (frame_ok (verOf w) w.body hv)]
  by_cases h1 : (a1.fail || decide (min a1.accept 32 < 32)) = true
  · simp [h1, hdrFailed]
  · simp [h1, hdrFailed]

example : (Gen.Ssa5.pbcmpl_Marshal X theWriter theMsg 32 (ofWriter none [7, 8, 9] [⟨32, true⟩, ⟨3, false⟩])).map
      (fun res => (res.1, res.2.wrote, res.2.wcalls)) =
    some ((32, wErr), (frameBytes [49, 46, 48, 46, 48] [7, 8, 9]).take 32, 1) := by decide +kernel
example : (Gen.Ssa5.pbcmpl_Marshal X theWriter theMsg 32 (ofWriter none [7, 8, 9] [capAns false 33 32, capAns false 1 3])).map
      (fun res => (res.1.1, decide (res.1.2 ≠ Err.nil), res.2.wrote)) =
    some (33, true, (frameBytes [49, 46, 48, 46, 48] [7, 8, 9]).take 33) := by decide +kernel

end Low
