import LowProofs.Tie9.pbcmpl_header_Marshal
import LowProofs.Tie9.pbcmpl_header_Unmarshal
import LowProofs.Lemmas.C06
/-
  C06 / C07, the header layout end to end: the two facts generation 5 assumed of `encoding/binary` on the 32-byte header
  (`Tie5.X.protoMarshalHeader`, `protoUnmarshalHeader`) stated about the definitions REGENERATED from the go/ssa form of
  `(*header).Marshal` / `(*header).Unmarshal` (`Generated/Ssa9`, tools/ssa2lean9 + `GoSem9`).  No hand-written model function
  of the Go code occurs in the conclusions.
-/
namespace Low
open Low.GoSem5 Low.C06L

/-- the layout: the regenerated `(*header).Marshal` returns, without error, 32 bytes: the 16 version bytes, then
    `HeaderSize` and `BodySize` least significant byte first (byte `16+j` is `(HeaderSize >>> 8j) % 256`, byte `24+j`
    likewise for `BodySize`). -/
theorem E2E_C06_header_layout (ver : List Nat) (hv : ver.length = 16) (hs bs : Nat) :
    ∃ r, Gen.Ssa9.pbcmpl_header_Marshal ver hs bs = some (r, Err.nil) ∧ r.length = 32 ∧ r.take 16 = ver ∧
      (∀ j, j < 8 → r[16 + j]? = some ((hs >>> (8 * j)) % 256)) ∧
      (∀ j, j < 8 → r[24 + j]? = some ((bs >>> (8 * j)) % 256)) := by
  have e := Tie_pbcmpl_header_Marshal (ver, hs, bs) hv
  refine ⟨_, e, ?_, ?_, ?_, ?_⟩
  · simp [Tie5.hdrBytes, hv, le64_length]
  · simp [Tie5.hdrBytes, hv]
  · intro j hj
    simp only [Tie5.hdrBytes]
    rw [List.append_assoc, List.getElem?_append_right (by omega)]
    rw [List.getElem?_append_left (by simp [le64_length]; omega)]
    simp [le64, hv, hj]
  · intro j hj
    simp only [Tie5.hdrBytes]
    rw [List.getElem?_append_right (by simp [le64_length, hv])]
    simp [le64, hv, hj]

/-- round trip on generated code: what the regenerated `(*header).Marshal` produces, the regenerated
    `(*header).Unmarshal` decodes — into ANY receiver — back to the same header, without error.
    Hypotheses: the representation invariant of a header (16 version bytes; the two sizes are `uint64` values). -/
theorem E2E_C06_header_roundtrip (ver : List Nat) (hv : ver.length = 16) (hs bs : Nat) (hhs : hs < 2^64) (hbs : bs < 2^64)
    (h0 : Header) :
    (Gen.Ssa9.pbcmpl_header_Marshal ver hs bs).bind
        (fun r => Gen.Ssa9.pbcmpl_header_Unmarshal h0.1 h0.2.1 h0.2.2 r.1)
      = some (Err.nil, (ver, hs, bs)) := by
  rw [Tie_pbcmpl_header_Marshal (ver, hs, bs) hv, Option.bind_some,
    Tie_pbcmpl_header_Unmarshal h0 _ (by simp [Tie5.hdrBytes, hv, le64_length])]
  simp only [Tie5.hdrOf, Tie5.hdrBytes]
  have e1 : (ver ++ le64 hs ++ le64 bs).take 16 = ver := by simp [hv]
  have e2 : ((ver ++ le64 hs ++ le64 bs).drop 16).take 8 = le64 hs := by
    rw [List.append_assoc, List.drop_append_of_le_length (by omega), List.drop_of_length_le (by omega), List.nil_append,
      List.take_append_of_le_length (by simp [le64_length]), List.take_of_length_le (by simp [le64_length])]
  have e3 : ((ver ++ le64 hs ++ le64 bs).drop 24).take 8 = le64 bs := by
    have h24 : (ver ++ le64 hs).length = 24 := by simp [hv, le64_length]
    rw [List.drop_left' h24]
    exact List.take_of_length_le (by simp [le64_length])
  rw [e1, e2, e3, unle_le64 hs hhs, unle_le64 bs hbs]

/-- a truncated header (fewer than 32 bytes) is rejected by the regenerated `(*header).Unmarshal` and the receiver
    keeps its contents -/
theorem E2E_C07_header_short (h0 : Header) (b : List Nat) (hb : b.length < 32) :
    ∃ e, e ≠ Err.nil ∧ Gen.Ssa9.pbcmpl_header_Unmarshal h0.1 h0.2.1 h0.2.2 b = some (e, h0) := by
  refine ⟨_, ?_, Tie_pbcmpl_header_Unmarshal_short h0 b hb⟩
  by_cases h : b.length = 0 <;> simp [h]

example : (Gen.Ssa9.pbcmpl_header_Marshal ([49, 46, 48] ++ List.replicate 13 0) 32 70000).bind
    (fun r => Gen.Ssa9.pbcmpl_header_Unmarshal [] 0 0 r.1)
    = some (Err.nil, ([49, 46, 48] ++ List.replicate 13 0, 32, 70000)) := by decide +kernel

end Low
