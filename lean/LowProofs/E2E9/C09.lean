import Generated.Ssa3.bitstr_New
import LowProofs.Props.C09
import LowProofs.Tie3.bitstr_New
import LowProofs.Tie9.bitstr_StrCmpUpto
import LowProofs.E2E2.C09
/-
  C09 end to end, the last clause: "CmpUpto(a,b) and StrCmpUpto(a,b) return the sign of comparing … and the two
  functions always agree", stated about the definitions REGENERATED from the go/ssa form of `bitstr.StrCmpUpto`
  (`Generated/Ssa9/bitstr_StrCmpUpto.lean`, tools/ssa2lean9), `bitstr.CmpUpto` (`Generated/Ssa2`) and `bitstr.New`
  (`Generated/Ssa3`).  No hand-written model function of the Go code occurs in the conclusions (`lexCmp`, `bitsBE`,
  `bsPayload` are the specification of C09).
-/
namespace Low

/-- "the two functions always agree" on generated code: for EVERY string `a`, EVERY `b` (an encoding or not) and EVERY
    `fuel` the regenerated `StrCmpUpto` returns what the regenerated `CmpUpto` returns on the string's bytes — value,
    panic (`none`) or running out of fuel alike.  No hypothesis. -/
theorem E2E_C09_strCmpUpto_agree (a b : List Nat) (fuel : Nat) :
    Gen.Ssa9.bitstr_StrCmpUpto fuel a b = Gen.Ssa2.bitstr_CmpUpto fuel a b :=
  Tie_bitstr_StrCmpUpto_gen a b fuel

/-- `C09_strCmpUpto` / `C09_cmpUpto` on generated code.  For a string `a` of ANY length, the code of `New(s, f, t)`
    (regenerated) does not panic, and the code of `StrCmpUpto` (regenerated) on `a` and the encoding `New` returned,
    for EVERY `fuel ≥ 9`, terminates, does not panic, returns the sign of comparing the first `Len(enc)` bits of `a`
    (all of `a` when shorter) with the encoded bit string — and that is also what the code of `CmpUpto` returns.
    Hypotheses (those of `E2E_C09_cmpUpto_full`): `BytesOK a`, `BytesOK s`, `f ≤ t`, `t ≤ 8 * s.length`,
    `t + 7 < 2^31`, `s.length + 1 < 2^63`, `9 ≤ fuel`. -/
theorem E2E_C09_strCmpUpto (a : List Nat) (ha : BytesOK a)
    (s : List Nat) (hs : BytesOK s) (f t : Nat) (hft : f ≤ t) (ht : t ≤ 8 * s.length)
    (hdom : t + 7 < 2^31) (hlen : s.length + 1 < 2^63) (fuel : Nat) (hfuel : 9 ≤ fuel) :
    ∃ enc, Gen.Ssa3.bitstr_New s (f : Int) (t : Int) = some enc ∧
      Gen.Ssa9.bitstr_StrCmpUpto fuel a enc
        = some (lexCmp ((bitsBE a).take (t - 8 * (f / 8))) (bsPayload s f t)) ∧
      Gen.Ssa9.bitstr_StrCmpUpto fuel a enc = Gen.Ssa2.bitstr_CmpUpto fuel a enc := by
  obtain ⟨enc, he, hc⟩ := E2E_C09_cmpUpto_full a ha s hs f t hft ht hdom hlen fuel hfuel
  exact ⟨enc, he, by rw [E2E_C09_strCmpUpto_agree, hc], E2E_C09_strCmpUpto_agree a enc fuel⟩

/-! non-vacuity: `New("abc", 5, 12) = 61 60 f0` by the generated code, then the generated `StrCmpUpto` -/
example : (Gen.Ssa3.bitstr_New [0x61, 0x62, 0x63] 5 12).bind (Gen.Ssa9.bitstr_StrCmpUpto 9 [0x61, 0x6f, 0x00])
    = some 0 := by decide +kernel
example : (Gen.Ssa3.bitstr_New [0x61, 0x62, 0x63] 5 12).bind (Gen.Ssa9.bitstr_StrCmpUpto 9 [0x61])
    = some (-1) := by decide +kernel
example : (Gen.Ssa3.bitstr_New [0x61, 0x62, 0x63] 5 12).bind (Gen.Ssa9.bitstr_StrCmpUpto 9 [0x62, 0x00])
    = some 1 := by decide +kernel

end Low
