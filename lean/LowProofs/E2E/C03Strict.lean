import LowProofs.Props.C03
import LowProofs.Lemmas.C10
import LowProofs.Tie.bmtree_Height
import LowProofs.Tie2.bmtree_PathToIndex
/-
  C03 end to end, part 1 (`Height`, `PathToIndex`; part 2 with `PathToIndexLoose` is `E2E/C03.lean` -- kept apart so that
  the checks of C04 and C05, whose statements mention `PathToIndex` only, do not depend on `PathToIndexLoose`): `C03_loose` / `C03_strict` stated about the definitions REGENERATED from the go/ssa form of
  `bmtree.PathToIndexLoose` / `bmtree.PathToIndex` (release build; `Generated/Ssa2/*.lean`, which call the regenerated
  `Height`, `PathLen` and `shiftMulti`, the latter a loop: recursion on `fuel`).  No model function occurs in the
  statements: only generated code and the specifications `encPath`, `preIdx`.
  "`h` is the height of the tree with level bitmap `T`" is written as the input condition `2^h ≤ T < 2^(h+1)`,
  `h ≤ 30`; `E2E_C03_height` shows that this is exactly what the code of `Height` computes.
  (The specification facts `C03_preorder_*`, `C03_index_*` are about `preIdx` alone and need no tie; the `debug`
  build clauses are about the contract closures, which the release-build SSA does not contain.)
-/
namespace Low
open Low.C03L

/-- The code of `Height` (regenerated from its SSA form) on a level bitmap `T` with `2^h ≤ T < 2^(h+1)`,
    `h ≤ 30`, returns `h`. -/
theorem E2E_C03_height (T h : Nat) (h1 : 2^h ≤ T) (h2 : T < 2^(h+1)) (h30 : h ≤ 30) :
    Gen.Ssa.bmtree_Height (T : Int) = (h : Int) := by
  rw [Tie_bmtree_Height]; exact height_of_range h1 h2 h30

theorem E2EL.c03dom {T h : Nat} (h1 : 2^h ≤ T) (h2 : T < 2^(h+1)) (h30 : h ≤ 30) : 1 ≤ T ∧ T < 2^31 := by
  have a : 1 ≤ 2^h := Nat.two_pow_pos h
  have b : 2^(h+1) ≤ 2^31 := Nat.pow_le_pow_right (by omega) (by omega)
  omega

/-- The code of `PathToIndex` (regenerated from its SSA form, release build), under the same conditions, for a
    node whose level is stored (`T.testBit n.length`), and EVERY `fuel ≥ 33`: terminates, does not panic, and
    returns the number of stored nodes before `n` in pre-order.
    Hypotheses: `2^h ≤ T`, `T < 2^(h+1)`, `h ≤ 30`, `n.length ≤ h`, `T.testBit n.length = true`, `33 ≤ fuel`
    (the tie's `1 ≤ T < 2^31` and `encPath h n < 2^64` are proved). -/
theorem E2E_C03_strict (T h : Nat) (n : List Bool) (fuel : Nat) (h1 : 2^h ≤ T) (h2 : T < 2^(h+1)) (h30 : h ≤ 30)
    (hn : n.length ≤ h) (hs : T.testBit n.length = true) (hfuel : 33 ≤ fuel) :
    Gen.Ssa2.bmtree_PathToIndex fuel (T : Int) (encPath h n) = some (preIdx T 0 n : Int) := by
  obtain ⟨a, b⟩ := E2EL.c03dom h1 h2 h30
  have hp : encPath h n < 2^64 :=
    Nat.lt_of_lt_of_le (C10L.encPath_lt (by omega) hn) (Nat.pow_le_pow_right (by omega) (by omega))
  rw [Tie_bmtree_PathToIndex T _ fuel a b hp hfuel,
    C03_strict T h n a b (height_of_range h1 h2 h30) hn hs]

/-! non-vacuity: level bitmap 0x72 (height 6, levels 1, 4, 5, 6 stored) -/
example : Gen.Ssa2.bmtree_PathToIndex 33 0x72 (encPath 6 [true, false, true, true]) = some 79 := by
  decide +kernel
example : Gen.Ssa2.bmtree_PathToIndex 40 ((0x72 : Nat) : Int) (encPath 6 [true, false, true, true])
    = some (preIdx 0x72 0 [true, false, true, true] : Int) :=
  E2E_C03_strict 0x72 6 _ 40 (by decide) (by decide) (by decide) (by decide) (by decide) (by decide)

end Low
