import LowProofs.Props.C14
import LowProofs.Tie.bitmap_Getw
/-
  C14 end to end (read-back clause): the `Getw` clause of `C14_join` stated about the definition REGENERATED from
  the go/ssa form of `bitmap.Getw` (`Generated/Ssa/bitmap_Getw.lean`).
  The joined bitmap is still produced by the model's `bmJoin`: `Join` writes a slice in a loop and has no
  regenerated definition yet (neither has `Slice`).
-/
namespace Low

/-- For a legal width `w ∈ {1,2,4,…,64}` and values `vs` with `len(vs) * w < 2^31` (the code of `Getw` computes
    `i * w` in `int32`): `Join(vs, w)` (model-built) does not panic, has `ceil(len*w/64)` `uint64` words, and the
    CODE of `Getw` (regenerated from its SSA form) on that result returns, without panic, the low `w` bits of
    `vs[i]` for every index `i < len(vs)`; no bit at or above `len*w` is set.
    Hypotheses: `w ∈ [1,2,4,8,16,32,64]`, `vs.length * w < 2^31`.  The tie's hypotheses `w ≤ 64` and
    `i * w < 2^31` are proved from these. -/
theorem E2E_C14_join_getw (vs : List Nat) (w : Nat) (hw : w ∈ [1, 2, 4, 8, 16, 32, 64])
    (hdom : vs.length * w < 2^31) :
    ∃ r, bmJoin vs w = some r ∧ r.length = (vs.length * w + 63) / 64 ∧ WordsOK r ∧
      (∀ i (hi : i < vs.length), Gen.Ssa.bitmap_Getw r (i : Int) (w : Int) = some (vs[i] % 2^w)) ∧
      (∀ j, vs.length * w ≤ j → bitAt r j = false) := by
  obtain ⟨r, h1, h2, h3, h4, h5⟩ := C14_join vs w hw
  refine ⟨r, h1, h2, h3, ?_, h5⟩
  intro i hi
  have hw64 : w ≤ 64 := by
    simp only [List.mem_cons, List.not_mem_nil, or_false] at hw
    omega
  have hiw : i * w < 2^31 := Nat.lt_of_le_of_lt (Nat.mul_le_mul_right w (Nat.le_of_lt hi)) hdom
  rw [Tie_bitmap_Getw r i w hw64 hiw]
  exact h4 i hi

/-! non-vacuity: three 4-bit values (one with high garbage) joined, then read back by the generated code -/
example : bmJoin [0x1f, 0x2, 0x3] 4 = some [0x32f] := by decide +kernel
example : Gen.Ssa.bitmap_Getw [0x32f] 0 4 = some 0xf ∧ Gen.Ssa.bitmap_Getw [0x32f] 2 4 = some 3 := by decide

end Low
