import LowProofs.Props.C05
import LowProofs.Tie2.bmtree_IndexToPath
import LowProofs.E2E.C03Strict
/-
  C05 end to end: `C05_inverse` / `C05_inverse'` stated about the definition REGENERATED from the go/ssa form of
  `bmtree.IndexToPath` (`Generated/Ssa2/bmtree_IndexToPath.lean`; its loop is recursion on `fuel`, the table
  `idxToPath` is the regenerated literal), and -- composed with `E2E_C03_strict` -- BOTH directions of the
  property stated purely on generated code:
    `PathToIndex_gen (full h) (IndexToPath_gen h idx) = idx`   and
    `IndexToPath_gen h (PathToIndex_gen (full h) (path word of n)) = path word of n`.
  `full h = 2^(h+1) - 1` is the level bitmap of the full tree of height `h`.
-/
namespace Low

private theorem full_lo (h : Nat) : 2^h ≤ 2^(h+1) - 1 := by
  have := Nat.two_pow_pos h; rw [Nat.pow_succ]; omega
private theorem full_hi (h : Nat) : 2^(h+1) - 1 < 2^(h+1) := by
  have := Nat.two_pow_pos (h+1); omega
private theorem full_bit {h k : Nat} (hk : k ≤ h) : (2^(h+1) - 1).testBit k = true := by
  rw [Nat.testBit_two_pow_sub_one]; simp; omega

/-- The code of `IndexToPath` (regenerated from its SSA form), for every height `h ≤ 30`, every index
    `idx < 2^(h+1) - 1` of the full tree and EVERY `fuel ≥ 32`: terminates within the fuel, does not panic, and
    returns exactly the path word (`encPath h`, well-formed by construction) of the node at pre-order position
    `idx` (`nodeAt h idx`, whose pre-order index is `idx` by `C05_nodeAt`).
    Hypotheses: `h ≤ 30`, `idx < 2^(h+1) - 1`, `32 ≤ fuel` (`min h 31 + 1 ≤ fuel` would do). -/
theorem E2E_C05_inverse {h idx fuel : Nat} (hh : h ≤ 30) (hi : idx < 2 ^ (h + 1) - 1) (hfuel : 32 ≤ fuel) :
    Gen.Ssa2.bmtree_IndexToPath fuel (h : Int) (idx : Int) = some (encPath h (nodeAt h idx)) := by
  rw [Tie_bmtree_IndexToPath h _ fuel (by omega) (by omega), C05_inverse hh hi]

/-- The "equivalently" clause: the code of `IndexToPath` on the pre-order index of a node `n` of the full tree
    returns the path word of `n`. -/
theorem E2E_C05_inverse' {h : Nat} {n : List Bool} {fuel : Nat} (hh : h ≤ 30) (hn : n.length ≤ h)
    (hfuel : 32 ≤ fuel) :
    Gen.Ssa2.bmtree_IndexToPath fuel (h : Int) ((preIdx (2 ^ (h + 1) - 1) 0 n : Nat) : Int)
      = some (encPath h n) := by
  rw [E2E_C05_inverse hh (C05_preIdx_lt hn) hfuel, C05_nodeAt' hn]

/-- Direction 1, purely on generated code: for every `h ≤ 30`, `idx < 2^(h+1) - 1`, `fuel ≥ 32`, `fuel' ≥ 33`:
    the code of `IndexToPath` returns a path word on which the code of `PathToIndex` (for the full tree of
    height `h`) returns `idx`; neither panics. -/
theorem E2E_C05_roundtrip {h idx fuel fuel' : Nat} (hh : h ≤ 30) (hi : idx < 2 ^ (h + 1) - 1)
    (hfuel : 32 ≤ fuel) (hfuel' : 33 ≤ fuel') :
    (Gen.Ssa2.bmtree_IndexToPath fuel (h : Int) (idx : Int)).bind
        (Gen.Ssa2.bmtree_PathToIndex fuel' ((2 ^ (h + 1) - 1 : Nat) : Int)) = some (idx : Int) := by
  obtain ⟨hlen, hpre⟩ := C05_nodeAt hi
  rw [E2E_C05_inverse hh hi hfuel, Option.bind_some,
    E2E_C03_strict (2 ^ (h + 1) - 1) h (nodeAt h idx) fuel' (full_lo h) (full_hi h) hh hlen (full_bit hlen) hfuel',
    hpre]

/-- Direction 2, purely on generated code: for every node `n` of depth `≤ h ≤ 30`, the code of `PathToIndex`
    (full tree of height `h`) on the path word of `n` returns an index on which the code of `IndexToPath`
    returns that path word again; neither panics. -/
theorem E2E_C05_roundtrip' {h : Nat} {n : List Bool} {fuel fuel' : Nat} (hh : h ≤ 30) (hn : n.length ≤ h)
    (hfuel : 32 ≤ fuel) (hfuel' : 33 ≤ fuel') :
    (Gen.Ssa2.bmtree_PathToIndex fuel' ((2 ^ (h + 1) - 1 : Nat) : Int) (encPath h n)).bind
        (Gen.Ssa2.bmtree_IndexToPath fuel (h : Int)) = some (encPath h n) := by
  rw [E2E_C03_strict (2 ^ (h + 1) - 1) h n fuel' (full_lo h) (full_hi h) hh hn (full_bit hn) hfuel',
    Option.bind_some]
  exact E2E_C05_inverse' hh hn hfuel

/-! non-vacuity (height 6: shortcut not taken for idx 3, taken for idx 100) -/
example : Gen.Ssa2.bmtree_IndexToPath 32 6 100 = some (encPath 6 [true, true, false, false, false, false]) := by
  decide +kernel
example : (Gen.Ssa2.bmtree_IndexToPath 32 6 100).bind (Gen.Ssa2.bmtree_PathToIndex 33 127) = some 100 := by
  decide +kernel
example : (Gen.Ssa2.bmtree_IndexToPath 32 ((6 : Nat) : Int) ((3 : Nat) : Int)).bind
    (Gen.Ssa2.bmtree_PathToIndex 33 ((2 ^ (6 + 1) - 1 : Nat) : Int)) = some ((3 : Nat) : Int) :=
  E2E_C05_roundtrip (by decide) (by decide) (by decide) (by decide)

end Low
