import LowProofs.Props.C01
import LowProofs.Tie.bitmap_Rank64
import LowProofs.Tie.bitmap_Rank128
import LowProofs.E2E.Lemmas
/-
  C01 end to end: the property clauses of `Props/C01.lean` stated about the definitions REGENERATED from the
  go/ssa form of `bitmap.Rank64` / `bitmap.Rank128` (`Generated/Ssa/*.lean`), by composing `C01_rank64` /
  `C01_rank128` with `Tie_bitmap_Rank64` / `Tie_bitmap_Rank128`.
  The rank index argument is still produced by the model's `indexRank64` / `indexRank128`: `IndexRank64` and
  `IndexRank128` build slices in a loop and have no regenerated definition yet.
-/
namespace Low
open Low.E2EL

/-- The code of `Rank64` (regenerated from its SSA form), called on a bitmap `ws` of fewer than `2^25` words
    (`BmDom`, so that bit positions are `int32` values), the index `IndexRank64(ws, trailing)` (model-built, see
    the file header) and any position `i < 64 * len(ws)`, does not panic and returns exactly
    (number of 1-bits of `ws` before position `i`, bit `i` of `ws`).
    Hypotheses: `ws.length < 2^25`, `i < 64 * ws.length`.  The tie's hypothesis "every index entry `n` has
    `n + 64 ≤ 2^31`" is proved from these (`indexRank64_mem_le`). -/
theorem E2E_C01_rank64 (ws : List Nat) (t : Bool) (i : Nat) (hlen : ws.length < 2^25)
    (hi : i < 64 * ws.length) :
    Gen.Ssa.bitmap_Rank64 ws ((indexRank64 ws t).map Int.ofNat) (i : Int)
      = some ((rank ws i : Int), ((bitAt ws i).toNat : Int)) := by
  rw [Tie_bitmap_Rank64 ws _ i (fun n hn => by have := indexRank64_mem_le hn; omega), C01_rank64 ws t i hi]
  rfl

/-- The code of `Rank128` (regenerated from its SSA form), called on a bitmap `ws` of fewer than `2^25` words,
    the index `IndexRank128(ws)` (model-built) and any position `i < 64 * len(ws)`, does not panic and returns
    exactly (number of 1-bits of `ws` before position `i`, bit `i` of `ws`).
    Hypotheses: `ws.length < 2^25`, `i < 64 * ws.length`.  The tie's hypotheses `i + 64 < 2^31` and "every index
    entry `n` has `n + 64 ≤ 2^31`" are proved from these. -/
theorem E2E_C01_rank128 (ws : List Nat) (i : Nat) (hlen : ws.length < 2^25) (hi : i < 64 * ws.length) :
    Gen.Ssa.bitmap_Rank128 ws ((indexRank128 ws).map Int.ofNat) (i : Int)
      = some ((rank ws i : Int), ((bitAt ws i).toNat : Int)) := by
  rw [Tie_bitmap_Rank128 ws _ i (by omega) (fun n hn => by have := indexRank128_mem_le hn; omega),
    C01_rank128 ws i hi]
  rfl

/-! non-vacuity: the generated code on a concrete two-word bitmap, and the instance of the theorem it is -/
example : Gen.Ssa.bitmap_Rank64 [5, 2^63] ((indexRank64 [5, 2^63] true).map Int.ofNat) 127 = some (2, 1) := by
  decide
example : Gen.Ssa.bitmap_Rank64 [5, 2^63] ((indexRank64 [5, 2^63] true).map Int.ofNat) ((127 : Nat) : Int)
    = some ((rank [5, 2^63] 127 : Int), ((bitAt [5, 2^63] 127).toNat : Int)) :=
  E2E_C01_rank64 [5, 2^63] true 127 (by decide) (by decide)
example : Gen.Ssa.bitmap_Rank128 [5, 2^63] ((indexRank128 [5, 2^63]).map Int.ofNat) 64 = some (2, 0) := by
  decide

end Low
