import LowProofs.E2E.C03Strict
import LowProofs.E2E.C10
/-
  `NewPath` (a function of C10) followed by `PathToIndex` (C03), both regenerated.  The theorem spans the functions of two
  properties and is deliberately registered for NEITHER check (a change to `NewPath` must not fail the C03 check, which
  quantifies over well-formed path words however they were produced).  Built by `setup.sh`.
-/
namespace Low
open Low.C03L

/-- The same with the path word produced by the CODE of `NewPath` from the left-aligned prefix of the node:
    `NewPath` then `PathToIndex`, both regenerated, return the pre-order count. -/
theorem E2E_C03_strict_newPath (T h : Nat) (n : List Bool) (fuel : Nat) (h1 : 2^h ≤ T) (h2 : T < 2^(h+1))
    (h30 : h ≤ 30) (hn : n.length ≤ h) (hs : T.testBit n.length = true) (hfuel : 33 ≤ fuel) :
    (Gen.Ssa.bmtree_NewPath (bitsVal n <<< (h - n.length)) (n.length : Int) (h : Int)).bind
        (Gen.Ssa2.bmtree_PathToIndex fuel (T : Int)) = some (preIdx T 0 n : Int) := by
  rw [E2E_C10_newPath (by omega) hn, Option.bind_some]
  exact E2E_C03_strict T h n fuel h1 h2 h30 hn hs hfuel

end Low
