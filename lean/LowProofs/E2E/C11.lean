import LowProofs.Props.C11
import LowProofs.Tie.bitmap_FromStr32
import LowProofs.Tie.bmtree_PathOf
/-
  C11 end to end: `C11_fromStr32(_bits)` and `C11_pathOf` stated about the definitions REGENERATED from the go/ssa
  form of `bitmap.FromStr32` and `bmtree.PathOf` (`Generated/Ssa/*.lean`).  No model function occurs in the
  statements: only generated code and the specifications `bitsBE`, `bitsVal`, `encPath`.
  (`PathsOf` appends to a slice in a loop and `PathStr` goes through `fmt`: no regenerated definition.)
-/
namespace Low

/-- The code of `FromStr32` (regenerated from its SSA form), for a string `s` (every element a byte) shorter than
    `2^28` bytes, any start bit `frm` and width `w ≤ 32` with `frm + w + 7` an `int32`: does not panic and returns
    `k = clamp (8|s| - frm, 0, w)` and the `w`-bit value whose top `k` bits are bits `[frm, frm+k)` of `s` and
    whose remaining `w - k` bits are 0.
    Hypotheses: `BytesOK s`, `s.length < 2^28`, `w ≤ 32`, `frm + w + 7 < 2^31` (the last two are the tie's int32
    domain; `C11_fromStr32` itself needs only `BytesOK s` and `w ≤ 32`). -/
theorem E2E_C11_fromStr32 {s : List Nat} (hs : BytesOK s) (frm w : Nat) (hw : w ≤ 32)
    (hlen : s.length < 2^28) (hdom : frm + w + 7 < 2^31) :
    Gen.Ssa.bitmap_FromStr32 s (frm : Int) ((frm + w : Nat) : Int) =
      some (((min (8 * s.length - frm) w : Nat) : Int),
       bitsVal (((bitsBE s).drop frm).take (min (8 * s.length - frm) w) ++
         List.replicate (w - min (8 * s.length - frm) w) false)) := by
  rw [Tie_bitmap_FromStr32 s frm (frm + w) (by omega) (by omega) hdom hlen hs, C11_fromStr32 hs frm w hw]

/-- The same bit by bit: the code of `FromStr32` returns some `(k, v)` with `k = min (8|s| - frm) w`, `v < 2^w`,
    bit `w-1-j` of `v` = bit `frm + j` of the string for `j < k`, and 0 for `k ≤ j < w`.  Same hypotheses. -/
theorem E2E_C11_fromStr32_bits {s : List Nat} (hs : BytesOK s) (frm w : Nat) (hw : w ≤ 32)
    (hlen : s.length < 2^28) (hdom : frm + w + 7 < 2^31) :
    ∃ v : Nat, Gen.Ssa.bitmap_FromStr32 s (frm : Int) ((frm + w : Nat) : Int)
        = some (((min (8 * s.length - frm) w : Nat) : Int), v) ∧
      v < 2 ^ w ∧
      (∀ j, j < min (8 * s.length - frm) w → (bitsBE s)[frm + j]? = some (v.testBit (w - 1 - j))) ∧
      (∀ j, min (8 * s.length - frm) w ≤ j → j < w → v.testBit (w - 1 - j) = false) := by
  obtain ⟨h1, h2, h3, h4⟩ := C11_fromStr32_bits hs frm w hw
  refine ⟨(fromStr32 s frm (frm + w)).2, ?_, h2, h3, h4⟩
  rw [Tie_bitmap_FromStr32 s frm (frm + w) (by omega) (by omega) hdom hlen hs, h1]

/-- The code of `PathOf` (regenerated from its SSA form, calling the regenerated `FromStr32`), for a string `s`
    shorter than `2^28` bytes, any start bit `frm` and height `h ≤ 32` with `frm + h + 7` an `int32`: does not
    panic and returns the path word of height `h` of the node spelled by bits `[frm, frm+k)` of `s`,
    `k = min (8|s| - frm) h`.
    Hypotheses: `BytesOK s`, `s.length < 2^28`, `h ≤ 32`, `frm + h + 7 < 2^31`. -/
theorem E2E_C11_pathOf {s : List Nat} (hs : BytesOK s) (frm h : Nat) (hh : h ≤ 32)
    (hlen : s.length < 2^28) (hdom : frm + h + 7 < 2^31) :
    Gen.Ssa.bmtree_PathOf s (frm : Int) (h : Int)
      = some (encPath h (((bitsBE s).drop frm).take (min (8 * s.length - frm) h))) := by
  rw [Tie_bmtree_PathOf s frm h hh hdom hlen hs, C11_pathOf hs frm h hh]

/-! non-vacuity: "abc" = 61 62 63; a 12-bit window starting at bit 20 runs off the end after 4 bits -/
example : Gen.Ssa.bitmap_FromStr32 [0x61, 0x62, 0x63] 4 16 = some (12, 0b000101100010)
    ∧ Gen.Ssa.bitmap_FromStr32 [0x61, 0x62, 0x63] 20 32 = some (4, 0b001100000000) := by decide +kernel
example : Gen.Ssa.bmtree_PathOf [0x61, 0x62, 0x63] 20 12 = some (encPath 12 [false, false, true, true]) := by
  decide +kernel

end Low
