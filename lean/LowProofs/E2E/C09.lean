import LowProofs.Props.C09
import LowProofs.Tie.bitstr_Len
import LowProofs.Tie2.bitstr_Cmp
import LowProofs.Tie2.bitstr_CmpUpto
import LowProofs.E2E.Lemmas
/-
  C09 end to end: the `Len` clause of `C09_new`, `C09_cmp` and `C09_cmpUpto` stated about the definitions
  REGENERATED from the go/ssa form of `bitstr.Len`, `bitstr.Cmp`, `bitstr.CmpUpto` (`Generated/Ssa/bitstr_Len.lean`,
  `Generated/Ssa2/bitstr_Cmp.lean`, `bitstr_CmpUpto.lean`; the latter calls the regenerated `cmpBytes`, a loop:
  recursion on `fuel`; `bytes.Compare` is the trusted `bytesCompare`).
  The encodings are still produced by the model's `bsNew`: `New` builds a slice and has no regenerated definition
  yet.  (`StrCmpUpto` reinterprets a string header through `unsafe` and has none either.)
-/
namespace Low
open Low.E2EL

/-- For a byte string `s` with `len(s) + 1 < 2^28` and `0 ≤ from ≤ to ≤ 8*len(s)`: `New(s, from, to)` (model-built)
    does not panic and returns bytes `enc` on which the CODE of `Len` (regenerated from its SSA form) returns,
    without panic, the length in bits of the bit string `s[8*floor(from/8), to)`; the first `Len` bits of `enc` are
    that bit string.
    Hypotheses: `BytesOK s`, `f ≤ t`, `t ≤ 8 * s.length`, `s.length + 1 < 2^28` (the last one is the tie's int32
    domain `len(enc) < 2^28`, through the proved bound `len(enc) ≤ len(s) + 1`). -/
theorem E2E_C09_new_len (s : List Nat) (hs : BytesOK s) (f t : Nat) (hft : f ≤ t) (ht : t ≤ 8 * s.length)
    (hlen : s.length + 1 < 2^28) :
    ∃ enc, bsNew s f t = some enc ∧ BytesOK enc ∧
      Gen.Ssa.bitstr_Len enc = some ((t : Int) - 8 * ((f / 8 : Nat) : Int)) ∧
      (bitsBE enc).take (t - 8 * (f / 8)) = bsPayload s f t := by
  obtain ⟨enc, h1, h2, h3, h4⟩ := C09_new s hs f t hft ht
  refine ⟨enc, h1, h2, ?_, h4⟩
  rw [Tie_bitstr_Len enc (by have := bsNew_length_le h1; omega), h3]

/-- The CODE of `Cmp` (regenerated from its SSA form) on two encodings `New(s,f,t)`, `New(s',f',t')` (model-built)
    does not panic and returns the sign of the lexicographic comparison of the two bit strings, a proper prefix
    sorting first.
    Hypotheses: those of `C09_cmp` (`BytesOK`, `f ≤ t ≤ 8*len(s)` for both) and `s.length + 1 < 2^63`,
    `s'.length + 1 < 2^63` (a Go length always fits an `int`; they give the tie's `len(enc) < 2^63`). -/
theorem E2E_C09_cmp (s : List Nat) (hs : BytesOK s) (f t : Nat) (hft : f ≤ t) (ht : t ≤ 8 * s.length)
    (s' : List Nat) (hs' : BytesOK s') (f' t' : Nat) (hft' : f' ≤ t') (ht' : t' ≤ 8 * s'.length)
    (hlen : s.length + 1 < 2^63) (hlen' : s'.length + 1 < 2^63)
    (enc enc' : List Nat) (he : bsNew s f t = some enc) (he' : bsNew s' f' t' = some enc') :
    Gen.Ssa2.bitstr_Cmp enc enc' = some (lexCmp (bsPayload s f t) (bsPayload s' f' t')) := by
  rw [Tie_bitstr_Cmp enc enc' (by have := bsNew_length_le he; omega) (by have := bsNew_length_le he'; omega)]
  exact C09_cmp s hs f t hft ht s' hs' f' t' hft' ht' enc enc' he he'

/-- The CODE of `CmpUpto` (regenerated from its SSA form), for plain bytes `a` of ANY length, an encoding
    `enc = New(s,f,t)` (model-built) and EVERY `fuel ≥ 9`: terminates, does not panic, and returns the sign of
    comparing the first `Len(enc)` bits of `a` (all of `a` when shorter) with the encoded bit string.
    Hypotheses: those of `C09_cmpUpto` and `s.length + 1 < 2^63`, `9 ≤ fuel`. -/
theorem E2E_C09_cmpUpto (a : List Nat) (ha : BytesOK a)
    (s : List Nat) (hs : BytesOK s) (f t : Nat) (hft : f ≤ t) (ht : t ≤ 8 * s.length)
    (hlen : s.length + 1 < 2^63) (fuel : Nat) (hfuel : 9 ≤ fuel)
    (enc : List Nat) (he : bsNew s f t = some enc) :
    Gen.Ssa2.bitstr_CmpUpto fuel a enc
      = some (lexCmp ((bitsBE a).take (t - 8 * (f / 8))) (bsPayload s f t)) := by
  rw [Tie_bitstr_CmpUpto a enc fuel (by have := bsNew_length_le he; omega) hfuel]
  exact C09_cmpUpto a ha s hs f t hft ht enc he

/-! non-vacuity: `New("abc", 5, 12) = 61 60 f0` -/
example : bsNew [0x61, 0x62, 0x63] 5 12 = some [0x61, 0x60, 0xf0]
    ∧ Gen.Ssa.bitstr_Len [0x61, 0x60, 0xf0] = some 12 := by decide +kernel
example : Gen.Ssa2.bitstr_Cmp [0x61, 0x60, 0xf0] [0x61, 0x62, 0xff] = some (-1)
    ∧ Gen.Ssa2.bitstr_Cmp [0x61, 0x60, 0xf0] [0x61, 0xff] = some 1 := by decide +kernel
example : Gen.Ssa2.bitstr_CmpUpto 9 [0x61, 0x6f, 0x00] [0x61, 0x60, 0xf0] = some 0
    ∧ Gen.Ssa2.bitstr_CmpUpto 9 [0x61] [0x61, 0x60, 0xf0] = some (-1) := by decide +kernel

end Low
