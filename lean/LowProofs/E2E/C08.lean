import LowProofs.Props.C08
import LowProofs.Tie2.bitword_bitWord_Get
import LowProofs.Tie2.bitword_bitWord_FirstDiff
/-
  C08 end to end: the `Get` clause of `C08_fromStr` and `C08_firstDiff(_empty)` stated about the definitions
  REGENERATED from the go/ssa form of the methods `bitWord.Get` and `bitWord.FirstDiff`
  (`Generated/Ssa2/bitword_bitWord_*.lean`; the loop of `FirstDiff` is recursion on `fuel` and calls the regenerated
  `Get`).  The receiver is passed field by field: `(width, byteCap, wordMask) = (n, 8/n, bwWordMask n)` are the values
  `newBW(n)` stores (`newBW`, like `FromStr`/`ToStr` which build slices, has no regenerated definition; these three
  numbers are the model-side part of the statements).  No model function occurs in the conclusions: only generated
  code and the specification `bwWordAt`.
-/
namespace Low

private theorem width_cases {n : Nat} (hn : n ∈ [1,2,4,8]) : n = 1 ∨ n = 2 ∨ n = 4 ∨ n = 8 := by
  simpa using hn

/-- The code of `bitWord.Get` (regenerated from its SSA form), for a width `n ∈ {1,2,4,8}`, a string `s` shorter
    than `2^60` bytes and every word index `i < 8*len(s)/n`: does not panic and returns the `n` bits of `s` starting
    at bit `i*n`, most significant first (`bwWordAt`).
    Hypotheses: `n ∈ [1,2,4,8]`, `BytesOK s`, `s.length < 2^60`, `i < 8 * s.length / n` (the tie's `n * i < 2^63`
    is proved from the last two). -/
theorem E2E_C08_get (n : Nat) (hn : n ∈ [1,2,4,8]) (s : List Nat) (hs : BytesOK s) (hlen : s.length < 2^60)
    (i : Nat) (hi : i < 8 * s.length / n) :
    Gen.Ssa2.bitword_bitWord_Get (n : Int) ((8 / n : Nat) : Int) (bwWordMask n) s (i : Int)
      = some (bwWordAt n s i) := by
  have h1 : n * i ≤ 8 * s.length :=
    Nat.le_trans (Nat.mul_le_mul_left n (Nat.le_of_lt hi)) (Nat.mul_div_le _ _)
  rw [Tie_bitword_bitWord_Get n (width_cases hn) s i (by omega)]
  exact ((C08_fromStr n hn s hs).2 i hi).2

/-- The code of `bitWord.FirstDiff` (regenerated from its SSA form), for a width `n ∈ {1,2,4,8}`, strings `a`, `b`
    shorter than `2^60` bytes, `0 ≤ from`, ANY `end` (also `-1`, beyond either string, `≤ from`, negative) and EVERY
    `fuel ≥ words(a) + 1`: with `lim = min(end', words(a), words(b))`, `end' = words(a)` if `end = -1` and `end`
    otherwise, terminates, does not panic and returns the smallest index in `[from, lim)` at which the words of
    `a` and `b` differ, or `lim` if there is none.
    Hypotheses: `n ∈ [1,2,4,8]`, `BytesOK a`, `BytesOK b`, `a.length < 2^60`, `b.length < 2^60`, `0 ≤ frm`,
    `a.length * (8 / n) + 1 ≤ fuel`. -/
theorem E2E_C08_firstDiff (n : Nat) (hn : n ∈ [1,2,4,8]) (a b : List Nat) (ha : BytesOK a) (hb : BytesOK b)
    (hla : a.length < 2^60) (hlb : b.length < 2^60) (frm e : Int) (hfrm : 0 ≤ frm)
    (fuel : Nat) (hfuel : a.length * (8 / n) + 1 ≤ fuel) :
    let wa : Int := ((8 * a.length / n : Nat) : Int)
    let wb : Int := ((8 * b.length / n : Nat) : Int)
    let lim : Int := min (min (if e = -1 then wa else e) wa) wb
    ∃ r, Gen.Ssa2.bitword_bitWord_FirstDiff fuel (n : Int) ((8 / n : Nat) : Int) (bwWordMask n) a b frm e = some r ∧
      (r = lim ∨ (frm ≤ r ∧ r < lim ∧ bwWordAt n a r.toNat ≠ bwWordAt n b r.toNat)) ∧
      ∀ j, frm ≤ j → j < r → bwWordAt n a j.toNat = bwWordAt n b j.toNat := by
  intro wa wb lim
  have h0 : (0 : Int) ≤ (n : Int) * frm := Int.mul_nonneg (by omega) hfrm
  rw [Tie_bitword_bitWord_FirstDiff n (width_cases hn) a b frm e fuel hla hlb (by omega) hfuel]
  exact C08_firstDiff n hn a b ha hb frm e hfrm

/-- In particular an empty window (`lim ≤ from`) makes the code return `lim` itself. -/
theorem E2E_C08_firstDiff_empty (n : Nat) (hn : n ∈ [1,2,4,8]) (a b : List Nat) (ha : BytesOK a) (hb : BytesOK b)
    (hla : a.length < 2^60) (hlb : b.length < 2^60) (frm e : Int) (hfrm : 0 ≤ frm)
    (fuel : Nat) (hfuel : a.length * (8 / n) + 1 ≤ fuel) :
    let wa : Int := ((8 * a.length / n : Nat) : Int)
    let wb : Int := ((8 * b.length / n : Nat) : Int)
    let lim : Int := min (min (if e = -1 then wa else e) wa) wb
    lim ≤ frm →
      Gen.Ssa2.bitword_bitWord_FirstDiff fuel (n : Int) ((8 / n : Nat) : Int) (bwWordMask n) a b frm e = some lim := by
  intro wa wb lim h
  have h0 : (0 : Int) ≤ (n : Int) * frm := Int.mul_nonneg (by omega) hfrm
  rw [Tie_bitword_bitWord_FirstDiff n (width_cases hn) a b frm e fuel hla hlb (by omega) hfuel]
  exact C08_firstDiff_empty n hn a b ha hb frm e hfrm h

/-! non-vacuity -/
example : Gen.Ssa2.bitword_bitWord_Get 2 4 3 [0xb4, 0x1e] 6 = some 3 ∧ bwWordAt 2 [0xb4, 0x1e] 6 = 3 := by decide
example : Gen.Ssa2.bitword_bitWord_FirstDiff 7 4 2 15 [0x12, 0x34, 0x56] [0x12, 0x35, 0x56, 0x78] 1 (-1) = some 3 := by
  decide +kernel

end Low
